(* C16 for util/parsenum.h: the model of PARSENUM_EX (Util/Parsenum.v over Util/Strto.v) returns, for
   EVERY C string, exactly what the grammar-level spec (Util/ParsenumSpec.v) prescribes. *)
From Coq Require Import Arith NArith ZArith List Lia Bool.
From LCP Require Import Base.CheckedMem Util.ParsenumSpec Util.Strto Util.ParsenumFloat Util.Parsenum Util.StrtoProofs.
Import ListNotations.
Local Open Scope Z_scope.

Definition UT (w : Z) : ctype := {| ck := KUnsigned; cw := w |}.
Definition ST (w : Z) : ctype := {| ck := KSigned; cw := w |}.
Definition FT (w : Z) : ctype := {| ck := KFloat; cw := w |}.

(* ---- facts about the four widths ---- *)
Lemma width_facts w : width_ok w ->
  exists h, 2 ^ (w - 1) = h /\ 2 ^ w = 2 * h /\ 128 <= h <= 9223372036854775808.
Proof.
  intros [-> | [-> | [-> | ->]]]; eexists; (split; [reflexivity|]); split; try reflexivity; lia.
Qed.

Lemma class_unsigned_type w : width_ok w ->
  class_float (UT w) = false /\ class_signed (UT w) = false /\ class_unsigned (UT w) = true /\
  store (UT w) (-1) = 2 ^ w - 1.
Proof. intros [-> | [-> | [-> | ->]]]; vm_compute; auto. Qed.

Lemma class_signed_type w : width_ok w ->
  class_float (ST w) = false /\ class_signed (ST w) = true /\ class_unsigned (ST w) = false /\
  store (ST w) (-1) = -1.
Proof. intros [-> | [-> | [-> | ->]]]; vm_compute; auto. Qed.

(* ---- 64-bit conversions without mod ---- *)
Ltac modlia := unfold u64, s64, wrap_u, wrap_s, two64, UMAX, IMAX, IMIN in *;
               change (2 ^ 64) with 18446744073709551616 in *;
               change (2 ^ (64 - 1)) with 9223372036854775808 in *;
               Z.div_mod_to_equations; lia.

Lemma u64_small x : 0 <= x <= UMAX -> u64 x = x.
Proof. intros H. modlia. Qed.
Lemma u64_neg x : IMIN <= x < 0 -> u64 x = x + two64.
Proof. intros H. modlia. Qed.
Lemma s64_small x : IMIN <= x <= IMAX -> s64 x = x.
Proof. intros H. modlia. Qed.
Lemma negate_mod v : 0 < v <= UMAX -> (two64 - v) mod two64 = two64 - v.
Proof. intros H. modlia. Qed.
Lemma negate_mod0 : (two64 - 0) mod two64 = 0.
Proof. reflexivity. Qed.

(* ---- the end-pointer test ---- *)
Lemma bad_end_correct s p rest trailing :
  no_nul s -> s = p ++ rest -> p <> [] ->
  bad_end (cstr s) (length s - length rest) trailing =
  Ok (match rest, trailing with _ :: _, false => true | _, _ => false end).
Proof.
  intros Hn -> Hp. rewrite app_length. replace (length p + length rest - length rest)%nat with (length p) by lia.
  unfold bad_end. destruct (Nat.eqb_spec (length p) 0) as [E|E].
  { destruct p; [contradiction|discriminate]. }
  destruct trailing; [destruct rest; reflexivity|].
  rewrite cstr_app, rd_pre0. destruct rest as [|c r]; [reflexivity|].
  destruct (no_nul_app _ _ Hn) as [_ Hr]. destruct (no_nul_cons _ _ Hr) as [Hc _].
  unfold cstr. cbn [app rd nth_error bind]. apply N.eqb_neq in Hc. rewrite Hc. reflexivity.
Qed.

(* the first non-blank character, as re-read by parsenum_unsigned *)
Lemma first_char_minus s neg v rest base :
  bytes_ok s -> numeral base (drop_blanks s) = Some (neg, v, rest) ->
  (let* i := skip_ws (S (length (cstr s))) (cstr s) 0 in
   let* c := rd (cstr s) i in Ok (c =? 45)%N)%res = Ok neg.
Proof.
  intros Hb Hnum.
  pose proof (skip_ws_correct s [] (S (length (cstr s))) Hb) as Hsk. cbn [app length] in Hsk.
  rewrite Hsk by (unfold cstr; rewrite app_length; simpl; lia). cbn [bind Nat.add].
  destruct (numeral_shape base s neg v rest Hb Hnum) as (_ & _ & _ & Hneg).
  rewrite (drop_blanks_split s) at 1. rewrite cstr_app.
  rewrite <- (length_firstn_blanks s) at 2. rewrite rd_pre0.
  destruct (drop_blanks s) as [|c r].
  - unfold cstr. cbn. f_equal. destruct neg; [|reflexivity].
    destruct Hneg as [H _]. destruct (H eq_refl) as [r Hr]. discriminate.
  - unfold cstr. cbn [app rd nth_error bind]. f_equal.
    destruct (N.eqb_spec c 45) as [->|Hc]; symmetry.
    + apply Hneg. eexists; reflexivity.
    + destruct neg; [|reflexivity]. destruct Hneg as [H _]. destruct (H eq_refl) as [r' Hr].
      inversion Hr; contradiction.
Qed.

(* ================= unsigned targets ================= *)
(* what the code does after strtoumax on a well-formed numeral (no junk), as a function of the
   grammar's sign and magnitude *)
Definition utail (signtest : bool) (w min max : Z) (neg : bool) (v : Z) : outcome :=
  let val := if v >? UMAX then UMAX else if neg then (two64 - v) mod two64 else v in
  let err0 := if v >? UMAX then ERange else ENone in
  let umin := u64 (if min <=? 0 then 0 else min) in
  let umax := u64 max in
  let tmax := u64 (2 ^ w - 1) in
  let e := if (val <? umin) || (val >? umax) || (val >? tmax) then ERange
           else if negb (val =? 0) then (if signtest && neg then ERange else err0) else err0 in
  let e' := if max <=? IMAX
            then (if (s64 max <? 0) && (match e with ENone => true | _ => false end) then ERange else e)
            else e in
  {| o_errno := e'; o_stored := wrap_u w val |}.

Ltac bd :=
  repeat (match goal with
          | |- context [?a <? ?b] => destruct (Z.ltb_spec a b)
          | |- context [?a <=? ?b] => destruct (Z.leb_spec a b)
          | |- context [?a >? ?b] => destruct (Z.gtb_spec a b)
          | |- context [?a =? ?b] => destruct (Z.eqb_spec a b)
          end; try (exfalso; lia); cbn [orb andb negb]).

Lemma utail_spec w min max neg v :
  width_ok w -> IMIN <= min <= UMAX -> IMIN <= max <= UMAX -> 0 <= v ->
  presult_of (utail true w min max neg v) =
  (let mv := if neg then - v else v in
   if (Z.max min (typemin KUnsigned w) <=? mv) && (mv <=? Z.min max (typemax KUnsigned w))
   then OkV mv else ERANGE).
Proof.
  intros Hw Hmin Hmax Hv.
  destruct (width_facts w Hw) as (h & _ & E2 & Hh).
  unfold utail, typemin, typemax, presult_of. cbn [andb o_errno o_stored]. rewrite E2.
  rewrite (u64_small (2 * h - 1)) by (unfold UMAX; lia).
  (* the clamped minimum *)
  assert (u64 (if min <=? 0 then 0 else min) = Z.max min 0) as ->.
  { destruct (Z.leb_spec min 0); [rewrite u64_small by (unfold UMAX; lia) | rewrite u64_small by lia]; lia. }
  (* the post-test fires exactly when max is negative *)
  assert (forall e, (if max <=? IMAX
                     then (if (s64 max <? 0) && (match e with ENone => true | _ => false end) then ERange else e)
                     else e) =
                    (if max <? 0 then (match e with ENone => ERange | _ => e end) else e)) as Hpost.
  { intros e. destruct (Z.leb_spec max IMAX).
    - rewrite s64_small by lia. destruct (max <? 0), e; reflexivity.
    - destruct (Z.ltb_spec max 0); [unfold IMAX in *; lia | reflexivity]. }
  rewrite Hpost. clear Hpost.
  unfold wrap_u. rewrite E2.
  destruct (Z.ltb_spec max 0) as [Mneg|Mpos].
  - (* negative max: never a success *)
    assert ((Z.max min 0 <=? (if neg then - v else v)) && ((if neg then - v else v) <=? Z.min max (2 * h - 1)) = false) as ->.
    { destruct (Z.leb_spec (Z.max min 0) (if neg then - v else v)),
               (Z.leb_spec (if neg then - v else v) (Z.min max (2 * h - 1))); try reflexivity.
      exfalso. destruct neg; lia. }
    repeat match goal with |- context [if ?c then _ else _] => destruct c end; reflexivity.
  - rewrite (u64_small max) by lia.
    destruct (Z.gtb_spec v UMAX) as [Vbig|Vok].
    + (* overflow in strtoumax: ERANGE whatever follows *)
      assert ((Z.max min 0 <=? (if neg then - v else v)) && ((if neg then - v else v) <=? Z.min max (2 * h - 1)) = false) as ->.
      { apply andb_false_iff. unfold UMAX in *. destruct neg; [left | right]; apply Z.leb_gt; lia. }
      repeat match goal with |- context [if ?c then _ else _] => destruct c end; reflexivity.
    + destruct neg.
      * destruct (Z.eq_dec v 0) as [->|Vnz].
        { rewrite negate_mod0. change (- 0) with 0. cbn [negb]. change (0 =? 0) with true. cbn [negb].
          bd; try reflexivity; try (rewrite Z.mod_small by lia; reflexivity). }
        { rewrite negate_mod by lia.
          assert ((Z.max min 0 <=? - v) && (- v <=? Z.min max (2 * h - 1)) = false) as ->.
          { apply andb_false_iff. left. apply Z.leb_gt. lia. }
          unfold two64, UMAX in *. bd; reflexivity. }
      * unfold UMAX in *. bd; try reflexivity; try (rewrite Z.mod_small by lia; reflexivity).
Qed.

(* parsenum_unsigned on a C string, in terms of the grammar *)
Definition uval (neg : bool) (v : Z) : Z :=
  if v >? UMAX then UMAX else if neg then (two64 - v) mod two64 else v.

Lemma parsenum_unsigned_run s umin umax tmax base trailing :
  base_ok base -> bytes_ok s -> no_nul s ->
  parsenum_unsigned_m (cstr s) umin umax tmax base trailing =
  Ok (match numeral base (drop_blanks s) with
      | None => (0, EInval)
      | Some (neg, v, rest) =>
        let val := uval neg v in
        let err0 := if v >? UMAX then ERange else ENone in
        match rest, trailing with
        | _ :: _, false => (val, EInval)
        | _, _ =>
          (val, if (val <? umin) || (val >? umax) || (val >? tmax) then ERange
                else if negb (val =? 0) then (if neg then ERange else err0) else err0)
        end
      end).
Proof.
  intros Hbase Hb Hn. unfold parsenum_unsigned_m.
  rewrite (strtoumax_correct s base Hb Hn Hbase). unfold strtou_spec. cbn [bind].
  destruct (numeral base (drop_blanks s)) as [[[neg v] rest]|] eqn:Enum.
  - destruct (numeral_shape base s neg v rest Hb Enum) as (p & Hp & Hpn & _).
    pose proof (bad_end_correct s p rest trailing Hn Hp Hpn) as Hbad.
    pose proof (first_char_minus s neg v rest base Hb Enum) as Hfc.
    assert (forall (K : bool -> res (Z * errno)),
             (let* i := skip_ws (S (length (cstr s))) (cstr s) 0 in
              let* c := rd (cstr s) i in K (c =? 45)%N)%res = K neg) as Hfc'.
    { intros K. destruct (skip_ws (S (length (cstr s))) (cstr s) 0) as [i| | |]; cbn [bind] in *; try discriminate.
      destruct (rd (cstr s) i) as [c| | |]; cbn [bind] in *; try discriminate. inversion Hfc. reflexivity. }
    assert (forall val err0,
      (let* bad := bad_end (cstr s) (length s - length rest) trailing in
       if bad then Ok (val, EInval)
       else if (val <? umin) || (val >? umax) || (val >? tmax) then Ok (val, ERange)
       else if negb (val =? 0) then
         let* i := skip_ws (S (length (cstr s))) (cstr s) 0 in
         let* c := rd (cstr s) i in
         if (c =? 45)%N then Ok (val, ERange) else Ok (val, err0)
       else Ok (val, err0))%res =
      Ok (match rest, trailing with
          | _ :: _, false => (val, EInval)
          | _, _ => (val, if (val <? umin) || (val >? umax) || (val >? tmax) then ERange
                          else if negb (val =? 0) then (if neg then ERange else err0) else err0)
          end)) as Htail.
    { intros val err0. rewrite Hbad. cbn [bind].
      rewrite (Hfc' (fun m => if m then Ok (val, ERange) else Ok (val, err0))).
      destruct rest as [|c r]; [|destruct trailing]; try reflexivity;
        destruct ((val <? umin) || (val >? umax) || (val >? tmax)); try reflexivity;
        destruct (negb (val =? 0)); try reflexivity; destruct neg; reflexivity. }
    unfold uval. destruct (v >? UMAX); cbv zeta; apply Htail.
  - cbn [bind]. unfold bad_end. cbn [Nat.eqb bind]. reflexivity.
Qed.

(* the whole macro on a C string, reduced to utail *)
Lemma parsenum_ex6_unsigned_run w min max base trailing s sd :
  width_ok w -> base_ok base -> bytes_ok s -> no_nul s ->
  parsenum_ex6 (UT w) (cstr s) min max base trailing sd =
  Ok (match numeral base (drop_blanks s) with
      | None => {| o_errno := EInval; o_stored := wrap_u w 0 |}
      | Some (neg, v, rest) =>
        match rest, trailing with
        | _ :: _, false => {| o_errno := EInval; o_stored := wrap_u w (uval neg v) |}
        | _, _ => utail true w min max neg v
        end
      end).
Proof.
  intros Hw Hbase Hb Hn.
  destruct (class_unsigned_type w Hw) as (C1 & C2 & _ & C4).
  unfold parsenum_ex6. rewrite C1, C2, C4.
  rewrite (parsenum_unsigned_run s _ _ _ base trailing Hbase Hb Hn). cbn [bind].
  destruct (numeral base (drop_blanks s)) as [[[neg v] rest]|].
  - unfold utail. fold (uval neg v). cbv zeta. cbn [andb].
    destruct rest as [|c r]; [|destruct trailing]; cbv iota beta; unfold store; cbn [ck cw UT]; try reflexivity.
    + destruct (max <=? IMAX); [rewrite andb_false_r|]; reflexivity.
  - cbv iota beta. unfold store; cbn [ck cw UT]. destruct (max <=? IMAX); [rewrite andb_false_r|]; reflexivity.
Qed.

(* M2 *)
Theorem parsenum_unsigned_exact_proof w min max base trailing s sd :
  width_ok w -> IMIN <= min <= UMAX -> IMIN <= max <= UMAX -> base_ok base ->
  bytes_ok s -> no_nul s ->
  map_res presult_of (parsenum_ex6 (UT w) (cstr s) min max base trailing sd)
  = Ok (parse_spec KUnsigned w min max base trailing s).
Proof.
  intros Hw Hmin Hmax Hbase Hb Hn.
  rewrite (parsenum_ex6_unsigned_run w min max base trailing s sd Hw Hbase Hb Hn).
  cbn [map_res]. f_equal. unfold parse_spec.
  destruct (numeral base (drop_blanks s)) as [[[neg v] rest]|] eqn:Enum; [|reflexivity].
  pose proof (numeral_value_nonneg base s neg v rest Hb Hn Hbase Enum) as Hv.
  destruct rest as [|c r]; [|destruct trailing]; try reflexivity;
    apply (utail_spec w min max neg v Hw Hmin Hmax Hv).
Qed.

(* PARSENUM_EX(x, s, base, trailing) and PARSENUM(x, s) on unsigned targets: the type's own range *)
Theorem parsenum_ex4_unsigned_exact_proof w base trailing s sd :
  width_ok w -> base_ok base -> bytes_ok s -> no_nul s ->
  map_res presult_of (parsenum_ex4 (UT w) (cstr s) base trailing sd)
  = Ok (parse_spec_nobounds w base trailing s).
Proof.
  intros Hw Hbase Hb Hn.
  destruct (class_unsigned_type w Hw) as (C1 & _ & C3 & C4).
  destruct (width_facts w Hw) as (h & _ & E2 & Hh).
  unfold parsenum_ex4. rewrite C1, C3, C4.
  rewrite (parsenum_unsigned_run s _ _ _ base trailing Hbase Hb Hn). cbn [bind].
  unfold parse_spec_nobounds, parse_spec.
  destruct (numeral base (drop_blanks s)) as [[[neg v] rest]|] eqn:Enum; [|reflexivity].
  pose proof (numeral_value_nonneg base s neg v rest Hb Hn Hbase Enum) as Hv.
  assert (presult_of
            {| o_errno := (if (uval neg v <? 0) || (uval neg v >? u64 (2 ^ w - 1)) || (uval neg v >? u64 (2 ^ w - 1))
                           then ERange
                           else if negb (uval neg v =? 0)
                                then (if neg then ERange else if v >? UMAX then ERange else ENone)
                                else if v >? UMAX then ERange else ENone);
               o_stored := store (UT w) (uval neg v) |} =
          (if (Z.max 0 (typemin KUnsigned w) <=? (if neg then - v else v)) &&
              ((if neg then - v else v) <=? Z.min (typemax KUnsigned w) (typemax KUnsigned w))
           then OkV (if neg then - v else v) else ERANGE)) as Hcore.
  { unfold presult_of, typemin, typemax, store, wrap_u, uval. cbn [o_errno o_stored ck cw UT]. rewrite E2.
    rewrite (u64_small (2 * h - 1)) by (unfold UMAX; lia).
    destruct (Z.gtb_spec v UMAX) as [Vbig|Vok].
    - assert ((Z.max 0 0 <=? (if neg then - v else v)) && ((if neg then - v else v) <=? Z.min (2 * h - 1) (2 * h - 1)) = false) as ->.
      { destruct (Z.leb_spec (Z.max 0 0) (if neg then - v else v)),
                 (Z.leb_spec (if neg then - v else v) (Z.min (2 * h - 1) (2 * h - 1))); try reflexivity.
        exfalso. unfold UMAX in *. destruct neg; lia. }
      repeat match goal with |- context [if ?c then _ else _] => destruct c end; reflexivity.
    - destruct neg.
      + destruct (Z.eq_dec v 0) as [->|Vnz].
        { rewrite negate_mod0. change (- 0) with 0. bd; try reflexivity; try (rewrite Z.mod_small by lia; reflexivity). }
        { rewrite negate_mod by lia.
          assert ((Z.max 0 0 <=? - v) && (- v <=? Z.min (2 * h - 1) (2 * h - 1)) = false) as ->.
          { apply andb_false_iff. left. apply Z.leb_gt. lia. }
          unfold two64, UMAX in *. bd; reflexivity. }
      + unfold UMAX in *. bd; try reflexivity; try (rewrite Z.mod_small by lia; reflexivity). }
  cbv zeta. destruct rest as [|c r]; [|destruct trailing]; cbv iota beta; cbn [map_res]; try reflexivity;
    f_equal; exact Hcore.
Qed.

(* ================= signed targets ================= *)
Definition ival (neg : bool) (v : Z) : Z :=
  if v >? (if neg then - IMIN else IMAX) then (if neg then IMIN else IMAX) else (if neg then - v else v).

Lemma parsenum_signed_run s smin smax base trailing :
  base_ok base -> bytes_ok s -> no_nul s ->
  parsenum_signed_m (cstr s) smin smax base trailing =
  Ok (match numeral base (drop_blanks s) with
      | None => (0, EInval)
      | Some (neg, v, rest) =>
        let val := ival neg v in
        let err0 := if v >? (if neg then - IMIN else IMAX) then ERange else ENone in
        match rest, trailing with
        | _ :: _, false => (val, EInval)
        | _, _ => if (val <? smin) || (val >? smax) then (0, ERange) else (val, err0)
        end
      end).
Proof.
  intros Hbase Hb Hn. unfold parsenum_signed_m.
  rewrite (strtoimax_correct s base Hb Hn Hbase). unfold strtoi_spec. cbn [bind].
  destruct (numeral base (drop_blanks s)) as [[[neg v] rest]|] eqn:Enum.
  - destruct (numeral_shape base s neg v rest Hb Enum) as (p & Hp & Hpn & _).
    pose proof (bad_end_correct s p rest trailing Hn Hp Hpn) as Hbad.
    unfold ival. destruct (v >? (if neg then - IMIN else IMAX)); cbv zeta; rewrite Hbad; cbn [bind];
      (destruct rest as [|c r]; [|destruct trailing]); try reflexivity;
      match goal with |- context [if ?c then _ else _] => destruct c end; reflexivity.
  - cbn [bind]. unfold bad_end. cbn [Nat.eqb bind]. reflexivity.
Qed.

(* M1: bounds inside the target type, as the interface requires for signed targets *)
Theorem parsenum_signed_exact_proof w min max base trailing s sd :
  width_ok w ->
  typemin KSigned w <= min <= typemax KSigned w -> typemin KSigned w <= max <= typemax KSigned w ->
  base_ok base -> bytes_ok s -> no_nul s ->
  map_res presult_of (parsenum_ex6 (ST w) (cstr s) min max base trailing sd)
  = Ok (parse_spec KSigned w min max base trailing s).
Proof.
  intros Hw Hmin Hmax Hbase Hb Hn.
  destruct (class_signed_type w Hw) as (C1 & C2 & _ & C4).
  destruct (width_facts w Hw) as (h & E1 & E2 & Hh).
  unfold typemin, typemax in Hmin, Hmax. rewrite E1 in Hmin, Hmax.
  unfold parsenum_ex6. rewrite C1, C2, C4. change (-1 <=? 0) with true. cbv iota.
  rewrite (s64_small min), (s64_small max) by (unfold IMIN, IMAX; lia).
  rewrite (parsenum_signed_run s min max base trailing Hbase Hb Hn). cbn [bind].
  unfold parse_spec.
  destruct (numeral base (drop_blanks s)) as [[[neg v] rest]|] eqn:Enum; [|reflexivity].
  pose proof (numeral_value_nonneg base s neg v rest Hb Hn Hbase Enum) as Hv.
  assert (presult_of
            (let (val, e) := if (ival neg v <? min) || (ival neg v >? max)
                             then (0, ERange)
                             else (ival neg v, if v >? (if neg then - IMIN else IMAX) then ERange else ENone) in
             {| o_errno := e; o_stored := store (ST w) val |}) =
          (if (Z.max min (typemin KSigned w) <=? (if neg then - v else v)) &&
              ((if neg then - v else v) <=? Z.min max (typemax KSigned w))
           then OkV (if neg then - v else v) else ERANGE)) as Hcore.
  { unfold typemin, typemax, ival. rewrite E1.
    destruct neg; match goal with |- context [v >? ?l] => destruct (Z.gtb_spec v l) end;
      unfold IMIN, IMAX in *; bd; cbn [presult_of o_errno o_stored]; try reflexivity; try (exfalso; lia);
      unfold presult_of, store, wrap_s; cbn [o_errno o_stored ck cw ST]; rewrite ?E1, ?E2;
      f_equal; rewrite Z.mod_small by lia; lia. }
  cbv zeta. destruct rest as [|c r]; [|destruct trailing]; cbv iota beta; try reflexivity;
    (revert Hcore;
     match goal with |- context [let (_, _) := ?X in _] => destruct X as [val e] end;
     intros Hcore; cbn [map_res]; f_equal; exact Hcore).
Qed.

(* ================= floating-point targets (M3) ================= *)
Lemma rd_cstr_at s k :
  no_nul s -> (k <= length s)%nat ->
  exists c, rd (cstr s) k = Ok c /\ (c = 0%N <-> k = length s).
Proof.
  intros Hn Hk.
  assert (s = firstn k s ++ skipn k s) as Es by (symmetry; apply firstn_skipn).
  assert (length (firstn k s) = k) as L by (apply firstn_length_le; exact Hk).
  remember (firstn k s) as a eqn:Ea. remember (skipn k s) as b eqn:Eb. clear Ea Eb. subst s.
  destruct (no_nul_app _ _ Hn) as [_ Hr]. rewrite cstr_app.
  assert (rd (a ++ cstr b) k = rd (cstr b) 0) as -> by (rewrite <- L; apply rd_pre0).
  rewrite app_length, L.
  destruct b as [|c r].
  - exists 0%N. split; [reflexivity|]. simpl. split; intros; [lia|reflexivity].
  - destruct (no_nul_cons _ _ Hr) as [Hc _]. exists c. split; [reflexivity|].
    simpl. split; intros; [contradiction|lia].
Qed.

(* the documented behaviour of the wrapper around strtod, given strtod's answer *)
Definition float_spec (s : list N) (sd : strtod_res) (trailing : bool) : errno :=
  if Nat.eqb (sd_consumed sd) 0 then EInval                                     (* no conversion *)
  else if negb trailing && negb (Nat.eqb (sd_consumed sd) (length s)) then EInval   (* junk *)
  else if sd_lt_min sd || sd_gt_max sd then ERange
  else if sd_erange sd then ERange else ENone.

Lemma parsenum_float_run s sd trailing :
  no_nul s -> (sd_consumed sd <= length s)%nat ->
  parsenum_float_m (cstr s) sd trailing = Ok (float_spec s sd trailing).
Proof.
  intros Hn Hk. unfold parsenum_float_m, float_spec, bad_end.
  destruct (Nat.eqb (sd_consumed sd) 0); [reflexivity|].
  destruct trailing; cbn [negb andb bind].
  - destruct (sd_lt_min sd || sd_gt_max sd); [reflexivity|]. destruct (sd_erange sd); reflexivity.
  - destruct (rd_cstr_at s (sd_consumed sd) Hn Hk) as (c & Hc & Hz). rewrite Hc. cbn [bind].
    destruct (N.eqb_spec c 0) as [E|E]; destruct (Nat.eqb_spec (sd_consumed sd) (length s)) as [F|F];
      cbn [negb].
    + destruct (sd_lt_min sd || sd_gt_max sd); [reflexivity|]. destruct (sd_erange sd); reflexivity.
    + exfalso. apply F, Hz, E.
    + exfalso. apply E, Hz, F.
    + reflexivity.
Qed.

Theorem parsenum_float_wrapper_proof w min max trailing s sd :
  no_nul s -> (sd_consumed sd <= length s)%nat ->
  exists e,
    parsenum_ex6 (FT w) (cstr s) min max 0 trailing sd = Ok {| o_errno := e; o_stored := fstore w (sd_bits sd) |} /\
    parsenum_ex4 (FT w) (cstr s) 0 trailing sd = Ok {| o_errno := e; o_stored := fstore w (sd_bits sd) |} /\
    let converted := sd_consumed sd <> 0%nat in
    let junk := trailing = false /\ sd_consumed sd <> length s in
    (e = EInval <-> (~ converted \/ junk)) /\
    (e = ERange <-> (converted /\ ~ junk /\
                     (sd_lt_min sd = true \/ sd_gt_max sd = true \/ sd_erange sd = true))) /\
    (* a NaN compares false with both bounds, so it passes any bounds *)
    (converted -> ~ junk -> sd_class sd = FNan -> sd_lt_min sd = false -> sd_gt_max sd = false ->
     sd_erange sd = false -> e = ENone).
Proof.
  intros Hn Hk. exists (float_spec s sd trailing).
  unfold parsenum_ex6, parsenum_ex4. cbn [class_float FT ck cw]. change (0 =? 0) with true. cbv iota.
  rewrite (parsenum_float_run s sd trailing Hn Hk). cbn [bind].
  split; [reflexivity|]. split; [reflexivity|]. cbv zeta. unfold float_spec.
  destruct (Nat.eqb_spec (sd_consumed sd) 0) as [Z0|Z0].
  { repeat split; try discriminate; try tauto; intros; intuition (try discriminate; try congruence). }
  destruct trailing; cbn [negb andb].
  - destruct (sd_lt_min sd), (sd_gt_max sd), (sd_erange sd); cbn [orb];
      repeat split; try discriminate; try tauto; intros; intuition (try discriminate; try congruence).
  - destruct (Nat.eqb_spec (sd_consumed sd) (length s)) as [F|F]; cbn [negb].
    + destruct (sd_lt_min sd), (sd_gt_max sd), (sd_erange sd); cbn [orb];
        repeat split; try discriminate; try tauto; intros; intuition (try discriminate; try congruence).
    + repeat split; try discriminate; try tauto; intros; intuition (try discriminate; try congruence).
Qed.

(* the macro refuses the two improper uses by aborting *)
Lemma parsenum_float_base_assert w min max base trailing buf sd :
  base <> 0 -> parsenum_ex6 (FT w) buf min max base trailing sd = AssertFail.
Proof.
  intros H. unfold parsenum_ex6. cbn [class_float FT ck]. apply Z.eqb_neq in H. rewrite H. reflexivity.
Qed.

Lemma parsenum_signed_nobounds_assert w base trailing buf sd :
  width_ok w -> parsenum_ex4 (ST w) buf base trailing sd = AssertFail.
Proof.
  intros Hw. destruct (class_signed_type w Hw) as (C1 & _ & C3 & _).
  unfold parsenum_ex4. rewrite C1, C3. reflexivity.
Qed.

(* ================= consequences used for C15 ================= *)
Lemma parse_spec_in_range k w min max base trailing s v :
  parse_spec k w min max base trailing s = OkV v ->
  Z.max min (typemin k w) <= v <= Z.min max (typemax k w).
Proof.
  unfold parse_spec. destruct (numeral base (drop_blanks s)) as [[[neg m] rest]|]; [|discriminate].
  destruct rest as [|c r]; [|destruct trailing; [|discriminate]];
    (destruct (Z.leb_spec (Z.max min (typemin k w)) (if neg then - m else m));
     destruct (Z.leb_spec (if neg then - m else m) (Z.min max (typemax k w)));
     cbn [andb]; intros Hok; inversion Hok; subst; lia).
Qed.

Theorem parsenum_unsigned_safe_proof w min max base trailing s sd :
  width_ok w -> IMIN <= min <= UMAX -> IMIN <= max <= UMAX -> base_ok base ->
  bytes_ok s -> no_nul s ->
  exists o, parsenum_ex6 (UT w) (cstr s) min max base trailing sd = Ok o /\
            forall v, presult_of o = OkV v -> Z.max min 0 <= v <= Z.min max (2 ^ w - 1).
Proof.
  intros Hw Hmin Hmax Hbase Hb Hn.
  pose proof (parsenum_unsigned_exact_proof w min max base trailing s sd Hw Hmin Hmax Hbase Hb Hn) as E.
  destruct (parsenum_ex6 (UT w) (cstr s) min max base trailing sd) as [o| | |]; try discriminate.
  exists o. split; [reflexivity|]. intros v Hv. cbn [map_res] in E. inversion E as [E'].
  rewrite Hv in E'. symmetry in E'. exact (parse_spec_in_range _ _ _ _ _ _ _ _ E').
Qed.

Theorem parsenum_signed_safe_proof w min max base trailing s sd :
  width_ok w ->
  typemin KSigned w <= min <= typemax KSigned w -> typemin KSigned w <= max <= typemax KSigned w ->
  base_ok base -> bytes_ok s -> no_nul s ->
  exists o, parsenum_ex6 (ST w) (cstr s) min max base trailing sd = Ok o /\
            forall v, presult_of o = OkV v -> min <= v <= max.
Proof.
  intros Hw Hmin Hmax Hbase Hb Hn.
  pose proof (parsenum_signed_exact_proof w min max base trailing s sd Hw Hmin Hmax Hbase Hb Hn) as E.
  destruct (parsenum_ex6 (ST w) (cstr s) min max base trailing sd) as [o| | |]; try discriminate.
  exists o. split; [reflexivity|]. intros v Hv. cbn [map_res] in E. inversion E as [E'].
  rewrite Hv in E'. symmetry in E'. pose proof (parse_spec_in_range _ _ _ _ _ _ _ _ E'). lia.
Qed.

(* ================= regression: the code before the fix "parsenum must reject negative numbers for
   unsigned targets" (F4), i.e. parsenum_unsigned without the final sign test ================= *)
Local Open Scope res_scope.
Definition parsenum_unsigned_old (buf : list N) (min max tmax base : Z) (trailing : bool)
  : res (Z * errno) :=
  let* (ve, rng) := strtoumax_m buf base in
  let (val, e) := ve in
  let err := if rng then ERange else ENone in
  let* bad := bad_end buf e trailing in
  if bad then Ok (val, EInval)
  else if (val <? min) || (val >? max) || (val >? tmax) then Ok (val, ERange)
  else Ok (val, err).

Definition parsenum_ex6_unsigned_old (w : Z) (buf : list N) (min max base : Z) (trailing : bool) : res outcome :=
  let x := wrap_u w (-1) in
  let* (val, e) := parsenum_unsigned_old buf (u64 (if min <=? 0 then 0 else min)) (u64 max) (u64 x)
                                         base trailing in
  let e' := if max <=? IMAX
            then (if (s64 max <? 0) && (match e with ENone => true | _ => false end) then ERange else e)
            else e in
  Ok {| o_errno := e'; o_stored := wrap_u w val |}.

Definition sd_none : strtod_res :=
  {| sd_consumed := 0; sd_erange := false; sd_lt_min := false; sd_gt_max := false; sd_bits := 0 |}.

(* "-1" into uintmax_t with bounds 0 .. UINTMAX_MAX: the old code stored 2^64-1 and reported success;
   the spec, and the code as it is now, say ERANGE *)
Example old_code_accepts_minus_one :
  parsenum_ex6_unsigned_old 64 (cstr [45; 49]%N) 0 UMAX 0 false
    = Ok {| o_errno := ENone; o_stored := 18446744073709551615 |} /\
  parse_spec KUnsigned 64 0 UMAX 0 false [45; 49]%N = ERANGE /\
  map_res presult_of (parsenum_ex6 (UT 64) (cstr [45; 49]%N) 0 UMAX 0 false sd_none) = Ok ERANGE.
Proof. vm_compute. auto. Qed.

(* "-18446744073709551615" used to yield 1 even into uint32_t *)
Example old_code_wraps_into_uint32 :
  let s := [45; 49; 56; 52; 52; 54; 55; 52; 52; 48; 55; 51; 55; 48; 57; 53; 53; 49; 54; 49; 53]%N in
  parsenum_ex6_unsigned_old 32 (cstr s) 0 4294967295 10 false = Ok {| o_errno := ENone; o_stored := 1 |} /\
  map_res presult_of (parsenum_ex6 (UT 32) (cstr s) 0 4294967295 10 false sd_none) = Ok ERANGE.
Proof. vm_compute. auto. Qed.

(* ================= non-vacuity: the hypotheses of M1 / M2 / M3 have ordinary instances ================= *)
Example m1_instance :   (* " -128" into int8_t, bounds INT8_MIN .. INT8_MAX, base 0 *)
  width_ok 8 /\ typemin KSigned 8 <= -128 <= typemax KSigned 8 /\ typemin KSigned 8 <= 127 <= typemax KSigned 8 /\
  base_ok 0 /\ bytes_ok [32; 45; 49; 50; 56]%N /\ no_nul [32; 45; 49; 50; 56]%N /\
  map_res presult_of (parsenum_ex6 (ST 8) (cstr [32; 45; 49; 50; 56]%N) (-128) 127 0 false sd_none) = Ok (OkV (-128)) /\
  map_res presult_of (parsenum_ex6 (ST 8) (cstr [49; 50; 56]%N) (-128) 127 0 false sd_none) = Ok ERANGE.
Proof.
  unfold width_ok, base_ok, bytes_ok, no_nul, is_byte.
  repeat split; try (vm_compute; congruence); try lia; try reflexivity;
    repeat constructor; try lia; try discriminate.
Qed.

Example m2_instance :   (* "0x1F" and "0x1Fz" into uint16_t with a negative minimum, base 16 *)
  width_ok 16 /\ IMIN <= -5 <= UMAX /\ IMIN <= 40 <= UMAX /\ base_ok 16 /\
  bytes_ok [48; 120; 49; 70]%N /\ no_nul [48; 120; 49; 70]%N /\
  map_res presult_of (parsenum_ex6 (UT 16) (cstr [48; 120; 49; 70]%N) (-5) 40 16 false sd_none) = Ok (OkV 31) /\
  map_res presult_of (parsenum_ex6 (UT 16) (cstr [48; 120; 49; 70; 122]%N) (-5) 40 16 false sd_none) = Ok EINVAL /\
  map_res presult_of (parsenum_ex6 (UT 16) (cstr [48; 120; 49; 70; 122]%N) (-5) 40 16 true sd_none) = Ok (OkV 31).
Proof.
  unfold width_ok, base_ok, bytes_ok, no_nul, is_byte, IMIN, UMAX.
  repeat split; try (vm_compute; congruence); try lia; try reflexivity;
    repeat constructor; try lia; try discriminate.
Qed.

Example m3_instance :   (* "nan" (3 characters consumed) passes the bounds 0 .. 1 *)
  let sd := mk_sd 3 false 9221120237041090560 0 4607182418800017408 in   (* the quiet NaN; bounds 0.0 and 1.0 *)
  no_nul [110; 97; 110]%N /\ (sd_consumed sd <= length [110; 97; 110]%N)%nat /\
  sd_class sd = FNan /\ sd_lt_min sd = false /\ sd_gt_max sd = false /\
  parsenum_ex6 (FT 64) (cstr [110; 97; 110]%N) 0 1 0 false sd = Ok {| o_errno := ENone; o_stored := 9221120237041090560 |}.
Proof.
  cbv zeta. unfold no_nul. repeat split; try (simpl; lia); repeat constructor; discriminate.
Qed.
