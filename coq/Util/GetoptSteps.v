(* Proofs about util/getopt.c's model, part 2: what one iteration of the getopt loop does,
   for a state whose tables are set up ("ready"), at a word boundary or inside a pack. *)
From Coq Require Import Arith NArith List Lia Bool.
From LCP Require Import Base.CheckedMem Util.Getopt Util.GetoptSearch.
Import ListNotations.
Local Open Scope res_scope.

Ltac prj := cbn [g_optind g_optreset g_init g_opts g_missing g_default g_found g_packed g_optarg
                 set_optind set_optreset set_init set_opts set_missing set_default set_found
                 set_packed set_optarg].

Ltac red_eq := change (N.eqb NUL EQC) with false; change (N.eqb EQC EQC) with true; cbv beta iota.

Definition names_valid (t : table) : Prop :=
  Forall (fun sl : slot => match sl with Some (n, _) => valid_name n = true | None => True end) t.

(* the missing-argument label, when there is one, sits on a free slot of the table *)
Definition wf_miss (t : table) (miss : option nat) : Prop :=
  match miss with Some ln => nth_error t ln = Some None | None => True end.

Definition cons_res (ev : event) (r : res (list event * nat * gst)) : res (list event * nat * gst) :=
  let* (p, s') := r in let (evs, k) := p in Ok (ev :: evs, k, s').

Lemma valid_name_len n : valid_name n = true -> exists c r, n = DASH :: c :: r.
Proof.
  destruct n as [|c0 [|c1 r]]; try discriminate. cbn [valid_name]. intros H.
  apply andb_true_iff in H. destruct H as [H _]. apply N.eqb_eq in H. subst. eauto.
Qed.

Section Steps.
  Variable tb : table.
  Variable miss : option nat.
  Variable argv : list str.
  Hypothesis Htb : names_nn tb.
  Hypothesis Hvalid : names_valid tb.
  Hypothesis Hmiss : wf_miss tb miss.
  Hypothesis Hargv : Forall no_nul argv.

  Definition mval : nat := match miss with Some ln => ln | None => S (length tb) end.
  Definition dval : nat := S (length tb).

  Definition ready (s : gst) : Prop :=
    g_optreset s = false /\ g_init s = true /\ g_opts s = Some tb /\
    g_default s = dval /\ g_missing s = mval.

  Definition step (s s1 : gst) (ev : event) : Prop :=
    forall f, loop (S f) s argv = cons_res ev (loop f s1 argv).

  Lemma loop_S_str f s s1 ch n ev :
    getopt s argv = Ok (s1, RStr ch) -> getopt_lookup s1 ch = Ok n -> dispatch s1 n ch = Ok ev ->
    loop (S f) s argv = cons_res ev (loop f s1 argv).
  Proof.
    intros H1 H2 H3. cbn [loop]. rewrite H1. cbn [bind]. rewrite H2. cbn [bind]. rewrite H3. cbn [bind].
    unfold cons_res. reflexivity.
  Qed.

  Lemma loop_S_null f s s1 :
    getopt s argv = Ok (s1, RNull) -> loop (S f) s argv = Ok ([], g_optind s1, s1).
  Proof. intros H. cbn [loop]. rewrite H. reflexivity. Qed.

  Lemma argv_obj_at (pre : list str) (w : str) (rest : list str) : argv = pre ++ w :: rest -> argv_obj argv (length pre) = Ok (cstr w).
  Proof.
    intros ->. unfold argv_obj. rewrite nth_error_app2 by lia. rewrite Nat.sub_diag. reflexivity.
  Qed.

  Lemma argv_no_nul (pre : list str) (w : str) (rest : list str) : argv = pre ++ w :: rest -> no_nul w.
  Proof.
    intros E. rewrite E in Hargv. apply Forall_app in Hargv. destruct Hargv as [_ H]. inversion H; auto.
  Qed.

  (* getopt on a ready state goes straight to the body *)
  Lemma getopt_ready s : ready s -> g_optind s < length argv ->
    getopt s argv = getopt_body (set_optarg None s) argv.
  Proof.
    intros (H1 & H2 & _) Hlt. unfold getopt. prj. rewrite H1. cbn [bind]. prj. rewrite H2. cbn [negb]. prj.
    assert (length argv <=? g_optind s = false) as -> by (apply Nat.leb_gt; exact Hlt). reflexivity.
  Qed.

  Lemma getopt_ready_end s : ready s -> length argv <= g_optind s ->
    getopt s argv = Ok (set_optarg None s, RNull).
  Proof.
    intros (H1 & H2 & _) Hle. unfold getopt. prj. rewrite H1. cbn [bind]. prj. rewrite H2. cbn [negb]. prj.
    assert (length argv <=? g_optind s = true) as -> by (apply Nat.leb_le; exact Hle). reflexivity.
  Qed.

  Lemma ready_optarg v s : ready s -> ready (set_optarg v s).
  Proof. unfold ready. prj. auto. Qed.
  Lemma ready_optind v s : ready s -> ready (set_optind v s).
  Proof. unfold ready. prj. auto. Qed.
  Lemma ready_packed v s : ready s -> ready (set_packed v s).
  Proof. unfold ready. prj. auto. Qed.
  Lemma ready_found v s : ready s -> ready (set_found v s).
  Proof. unfold ready. prj. auto. Qed.

  (* ---- facts about a found slot ---- *)
  Lemma slot_valid j n h : nth_error tb j = Some (Some (n, h)) -> valid_name n = true /\ no_nul n.
  Proof.
    intros H. apply nth_error_In in H. split.
    - unfold names_valid in Hvalid. rewrite Forall_forall in Hvalid. apply (Hvalid _ H).
    - unfold names_nn in Htb. rewrite Forall_forall in Htb. apply (Htb _ H).
  Qed.

  Lemma slot_not_special j n h : nth_error tb j = Some (Some (n, h)) ->
    (j =? dval) = false /\ (j =? mval) = false.
  Proof.
    intros H. assert (j < length tb) as Hlt by (apply nth_error_Some; congruence).
    split; apply Nat.eqb_neq; unfold dval, mval; [lia|].
    destruct miss as [ln|]; [|lia]. cbn [wf_miss] in Hmiss. intros ->. congruence.
  Qed.

  Lemma found_facts s os j n h v : ready s -> no_nul os -> fm tb 0 os = Some (j, n, h, v) ->
    searchopt s (cstr os) = Ok j /\ nth_error tb j = Some (Some (n, h)) /\
    rd (cstr os) (length n) = Ok (match v with None => NUL | Some _ => EQC end) /\
    os = n ++ (match v with None => [] | Some x => EQC :: x end).
  Proof.
    intros (_ & _ & Ho & Hd & _) Hos Hfm. unfold searchopt. rewrite Ho.
    rewrite (searchopt_from_spec tb Htb 0 os _ Hos). rewrite Hfm.
    apply fm_some in Hfm. destruct Hfm as (_ & Hn & Hs). rewrite Nat.sub_0_r in Hn.
    split; [reflexivity|]. split; [exact Hn|]. split; [|exact Hs].
    rewrite Hs. unfold cstr. rewrite <- app_assoc. destruct v as [x|]; cbn [app]; apply rd_at.
  Qed.

  Lemma notfound_facts s os : ready s -> no_nul os -> fm tb 0 os = None ->
    searchopt s (cstr os) = Ok dval.
  Proof.
    intros (_ & _ & Ho & Hd & _) Hos Hfm. unfold searchopt. rewrite Ho.
    rewrite (searchopt_from_spec tb Htb 0 os _ Hos). rewrite Hfm. rewrite Hd. reflexivity.
  Qed.

  (* ---- stage_opt, by outcome of the search ---- *)
  Lemma stage_opt_unknown s os : ready s -> no_nul os -> fm tb 0 os = None ->
    stage_opt s argv (cstr os) = Ok (set_found (Some dval) s, RStr os).
  Proof.
    intros Hr Hos Hfm. unfold stage_opt. rewrite (notfound_facts s os Hr Hos Hfm). cbn [bind]. prj.
    destruct Hr as (_ & _ & _ & Hd & _). rewrite Hd, Nat.eqb_refl. rewrite (read_cstr_0 os Hos). reflexivity.
  Qed.

  Lemma stage_opt_noarg s os j n v : ready s -> no_nul os -> fm tb 0 os = Some (j, n, false, v) ->
    stage_opt s argv (cstr os) =
    Ok (match v with None => set_found (Some j) s | Some _ => set_found (Some dval) (set_found (Some j) s) end,
        RStr n).
  Proof.
    intros Hr Hos Hfm. destruct (found_facts s os j n false v Hr Hos Hfm) as (F1 & F2 & F3 & _).
    destruct (slot_not_special j n false F2) as [N1 _].
    unfold stage_opt. rewrite F1. cbn [bind]. prj.
    destruct Hr as (_ & _ & Ho & Hd & _). rewrite Hd, N1, Ho. cbn [bind]. rewrite F2, F3. cbn [bind].
    destruct v; red_eq; reflexivity.
  Qed.

  (* argument-taking option found while a pack continues: the rest of the pack is the argument *)
  Lemma stage_opt_arg_pack s os j n v i k a : ready s -> no_nul os -> fm tb 0 os = Some (j, n, true, v) ->
    v = None -> g_packed s = Some (i, k) -> argv_obj argv i = Ok a ->
    stage_opt s argv (cstr os) =
    Ok (set_optind (S (g_optind s)) (set_packed None (set_optarg (Some (a, k)) (set_found (Some j) s))), RStr n).
  Proof.
    intros Hr Hos Hfm Hv Hp Ha. subst v.
    destruct (found_facts s os j n true None Hr Hos Hfm) as (F1 & F2 & F3 & _).
    destruct (slot_not_special j n true F2) as [N1 _].
    unfold stage_opt. rewrite F1. cbn [bind]. prj.
    destruct Hr as (_ & _ & Ho & Hd & _). rewrite Hd, N1, Ho. cbn [bind]. rewrite F2. rewrite Hp, Ha.
    cbn [bind]. rewrite F3. cbn [bind]. red_eq. prj. reflexivity.
  Qed.

  (* --name=value *)
  Lemma stage_opt_arg_eq s os j n x : ready s -> no_nul os -> fm tb 0 os = Some (j, n, true, Some x) ->
    g_packed s = None ->
    stage_opt s argv (cstr os) =
    Ok (set_optarg (Some (cstr os, S (length n))) (set_found (Some j) s), RStr n).
  Proof.
    intros Hr Hos Hfm Hp.
    destruct (found_facts s os j n true _ Hr Hos Hfm) as (F1 & F2 & F3 & _).
    destruct (slot_not_special j n true F2) as [N1 _].
    unfold stage_opt. rewrite F1. cbn [bind]. prj.
    destruct Hr as (_ & _ & Ho & Hd & _). rewrite Hd, N1, Ho. cbn [bind]. rewrite F2. rewrite Hp.
    cbn [bind]. rewrite F3. cbn [bind]. red_eq. prj. reflexivity.
  Qed.

  (* argument taken from the next argv element *)
  Lemma stage_opt_arg_next s os j n a : ready s -> no_nul os -> fm tb 0 os = Some (j, n, true, None) ->
    g_packed s = None -> g_optarg s = None -> argv_obj argv (g_optind s) = Ok a -> g_optind s < length argv ->
    stage_opt s argv (cstr os) =
    Ok (set_optind (S (g_optind s)) (set_optarg (Some (a, 0)) (set_found (Some j) s)), RStr n).
  Proof.
    intros Hr Hos Hfm Hp Hoa Ha Hlt.
    destruct (found_facts s os j n true _ Hr Hos Hfm) as (F1 & F2 & F3 & _).
    destruct (slot_not_special j n true F2) as [N1 _].
    unfold stage_opt. rewrite F1. cbn [bind]. prj.
    destruct Hr as (_ & _ & Ho & Hd & _). rewrite Hd, N1, Ho. cbn [bind]. rewrite F2. rewrite Hp.
    cbn [bind]. rewrite F3. cbn [bind]. red_eq. prj. rewrite Hoa.
    assert (g_optind s <? length argv = true) as -> by (apply Nat.ltb_lt; exact Hlt).
    rewrite Ha. cbn [bind]. prj. reflexivity.
  Qed.

  (* no argument left *)
  Lemma stage_opt_arg_missing s os j n : ready s -> no_nul os -> fm tb 0 os = Some (j, n, true, None) ->
    g_packed s = None -> g_optarg s = None -> length argv <= g_optind s ->
    stage_opt s argv (cstr os) = Ok (set_found (Some mval) (set_found (Some j) s), RStr n).
  Proof.
    intros Hr Hos Hfm Hp Hoa Hge.
    destruct (found_facts s os j n true _ Hr Hos Hfm) as (F1 & F2 & F3 & _).
    destruct (slot_not_special j n true F2) as [N1 _].
    unfold stage_opt. rewrite F1. cbn [bind]. prj.
    destruct Hr as (_ & _ & Ho & Hd & Hm). rewrite Hd, N1, Ho. cbn [bind]. rewrite F2. rewrite Hp.
    cbn [bind]. rewrite F3. cbn [bind]. red_eq. prj. rewrite Hoa.
    assert (g_optind s <? length argv = false) as -> by (apply Nat.ltb_ge; exact Hge).
    cbn [bind]. prj. rewrite Hoa, Hm. reflexivity.
  Qed.

  (* ---- which label is reached ---- *)
  Lemma label_default s ch : ready s -> g_found s = Some dval ->
    getopt_lookup s ch = Ok dval /\ dispatch s dval ch = Ok (Default ch).
  Proof.
    intros (H1 & H2 & _ & Hd & _) Hf. unfold getopt_lookup, dispatch. rewrite H1, H2, Hf, Hd. cbn [negb].
    rewrite Nat.eqb_refl, orb_true_r. split; reflexivity.
  Qed.

  Lemma label_missing s ch : ready s -> g_found s = Some mval ->
    getopt_lookup s ch = Ok mval /\ dispatch s mval ch = Ok (missing_ev (is_some miss) ch).
  Proof.
    intros (H1 & H2 & _ & Hd & Hm) Hf. unfold getopt_lookup, dispatch. rewrite H1, H2, Hf, Hd, Hm. cbn [negb].
    rewrite Nat.eqb_refl. cbn [orb]. split; [reflexivity|].
    unfold missing_ev, mval, dval. destruct miss as [ln|]; cbn [is_some].
    - destruct (ln =? S (length tb)) eqn:E; [|reflexivity].
      apply Nat.eqb_eq in E. cbn [wf_miss] in Hmiss.
      assert (ln < length tb) by (apply nth_error_Some; congruence). lia.
    - rewrite Nat.eqb_refl. reflexivity.
  Qed.

  Lemma label_opt s j n : ready s -> g_found s = Some j -> nth_error tb j = Some (Some (n, false)) ->
    getopt_lookup s n = Ok j /\ dispatch s j n = Ok (Opt n).
  Proof.
    intros (H1 & H2 & Ho & Hd & Hm) Hf Hn. destruct (slot_not_special j n false Hn) as [N1 N2].
    unfold getopt_lookup, dispatch. rewrite H1, H2, Hf, Hd, Hm, N1, N2, Ho, Hn, str_eqb_refl. split; reflexivity.
  Qed.

  Lemma label_optarg s j n obj off a : ready s -> g_found s = Some j -> nth_error tb j = Some (Some (n, true)) ->
    g_optarg s = Some (obj, off) -> read_cstr obj off = Ok a ->
    getopt_lookup s n = Ok j /\ dispatch s j n = Ok (OptArg n a).
  Proof.
    intros (H1 & H2 & Ho & Hd & Hm) Hf Hn Ha Hr. destruct (slot_not_special j n true Hn) as [N1 N2].
    unfold getopt_lookup, dispatch. rewrite H1, H2, Hf, Hd, Hm, N1, N2, Ho, Hn, str_eqb_refl, Ha, Hr.
    split; reflexivity.
  Qed.

  (* ---- the body of getopt up to the search, by shape of the current word ---- *)
  Lemma eqb_DD : N.eqb DASH DASH = true. Proof. reflexivity. Qed.
  Lemma eqb_ND : N.eqb NUL DASH = false. Proof. reflexivity. Qed.
  Lemma eqb_NN : N.eqb NUL NUL = true. Proof. reflexivity. Qed.

  Lemma rd_at2 (pre : list N) c x post : rd (pre ++ c :: x :: post) (S (length pre)) = Ok x.
  Proof.
    change (pre ++ c :: x :: post) with (pre ++ [c] ++ x :: post). rewrite app_assoc.
    apply rd_at'. rewrite app_length. cbn [length]. lia.
  Qed.

  Lemma cstr_mid (wp : list N) c r : cstr (wp ++ c :: r) = wp ++ c :: cstr r.
  Proof. unfold cstr. rewrite <- app_assoc. reflexivity. Qed.

  Lemma body_pack s (pre : list str) (wp : str) c r (rest : list str) :
    argv = pre ++ (wp ++ c :: r) :: rest -> g_optind s = length pre ->
    (g_packed s = Some (length pre, length wp) \/ (g_packed s = None /\ wp = [DASH] /\ c <> DASH)) ->
    getopt_body s argv =
    stage_opt (match r with
               | [] => set_optind (S (length pre)) (set_packed None s)
               | _ :: _ => set_packed (Some (length pre, S (length wp))) s
               end) argv (cstr [DASH; c]).
  Proof.
    intros Ea Hi Hp.
    pose proof (argv_no_nul _ _ _ Ea) as Hw. apply no_nul_app in Hw. destruct Hw as [_ Hw].
    apply no_nul_cons in Hw. destruct Hw as [Hc Hr].
    assert (exists s', stage_start s argv = Ok s' /\ g_packed s' = Some (length pre, length wp) /\
                       g_optind s' = length pre /\
                       set_packed None s' = set_packed None s /\
                       (forall x, set_packed x s' = set_packed x s)) as (s' & Hst & Hp' & Hi' & Hn' & Hx').
    { destruct Hp as [Hp | (Hp & Hwp & Hcd)].
      - exists s. unfold stage_start. rewrite Hp. repeat split; auto.
      - exists (set_packed (Some (length pre, 1)) s). subst wp. unfold stage_start. rewrite Hp, Hi.
        rewrite (argv_obj_at _ _ _ Ea). cbn [bind]. unfold cstr. cbn [app rd nth_error bind].
        rewrite eqb_DD. assert (N.eqb c DASH = false) as -> by (apply N.eqb_neq; exact Hcd).
        rewrite (eqb_nul_false c Hc). cbn [negb andb]. repeat split; prj; auto. }
    unfold getopt_body. rewrite Hst. cbn [bind]. unfold stage_fish. rewrite Hp'.
    rewrite (argv_obj_at _ _ _ Ea). cbn [bind]. rewrite cstr_mid. rewrite rd_at. cbn [bind].
    destruct r as [|c2 r2].
    - unfold cstr at 1. cbn [app]. rewrite rd_at2. cbn [bind]. change (N.eqb 0%N NUL) with true.
      cbn [bind stage_dd]. rewrite Hi'. rewrite Hn'. reflexivity.
    - apply no_nul_cons in Hr. destruct Hr as [Hc2 _].
      unfold cstr at 1. cbn [app]. rewrite rd_at2. cbn [bind]. rewrite (eqb_nul_false c2 Hc2).
      cbn [bind stage_dd]. rewrite Hx'. reflexivity.
  Qed.

  Lemma body_long s (pre : list str) b body (rest : list str) :
    argv = pre ++ (DASH :: DASH :: b :: body) :: rest -> g_optind s = length pre -> g_packed s = None ->
    getopt_body s argv = stage_opt (set_optind (S (length pre)) s) argv (cstr (DASH :: DASH :: b :: body)).
  Proof.
    intros Ea Hi Hp.
    pose proof (argv_no_nul _ _ _ Ea) as Hw.
    apply no_nul_cons in Hw. destruct Hw as [_ Hw]. apply no_nul_cons in Hw. destruct Hw as [_ Hw].
    apply no_nul_cons in Hw. destruct Hw as [Hb _].
    unfold getopt_body, stage_start, stage_fish. rewrite Hp, Hi. rewrite (argv_obj_at _ _ _ Ea).
    cbn [bind]. unfold cstr at 1 2. cbn [app rd nth_error bind]. rewrite eqb_DD. cbn [negb andb bind].
    rewrite Hp. cbn [bind stage_dd]. rewrite Hi. rewrite (argv_obj_at _ _ _ Ea).
    cbn [bind]. unfold cstr at 1 2 3. cbn [app rd nth_error bind]. rewrite eqb_DD.
    rewrite (eqb_nul_false b Hb). cbn [bind]. reflexivity.
  Qed.

  Lemma body_dashdash s (pre : list str) (rest : list str) :
    argv = pre ++ [DASH; DASH] :: rest -> g_optind s = length pre -> g_packed s = None ->
    getopt_body s argv = Ok (set_optind (S (length pre)) s, RNull).
  Proof.
    intros Ea Hi Hp.
    unfold getopt_body, stage_start, stage_fish. rewrite Hp, Hi. rewrite (argv_obj_at _ _ _ Ea).
    cbn [bind]. unfold cstr. cbn [app rd nth_error bind]. rewrite eqb_DD. cbn [negb andb bind].
    rewrite Hp. cbn [bind stage_dd]. rewrite Hi. rewrite (argv_obj_at _ _ _ Ea).
    cbn [bind]. unfold cstr. cbn [app rd nth_error bind]. rewrite eqb_DD.
    change (N.eqb 0%N NUL) with true. cbn [bind]. reflexivity.
  Qed.

  Lemma body_operand s (pre : list str) (w : str) (rest : list str) :
    argv = pre ++ w :: rest -> g_optind s = length pre -> g_packed s = None ->
    classify w = WOperand ->
    getopt_body s argv = Ok (s, RNull).
  Proof.
    intros Ea Hi Hp Hc.
    unfold getopt_body, stage_start, stage_fish. rewrite Hp, Hi. rewrite (argv_obj_at _ _ _ Ea).
    cbn [bind]. unfold classify in Hc. destruct w as [|c0 r0].
    - unfold cstr. cbn [app rd nth_error bind]. change (N.eqb 0%N DASH) with false. cbn [bind].
      rewrite Hp. cbn [bind stage_dd]. rewrite Hi, (argv_obj_at _ _ _ Ea). cbn [bind].
      unfold cstr. cbn [app rd nth_error bind]. change (N.eqb 0%N DASH) with false. reflexivity.
    - unfold cstr. cbn [app rd nth_error bind]. destruct (N.eqb c0 DASH) eqn:E0.
      + destruct r0 as [|c1 r1].
        * cbn [app rd nth_error bind]. change (N.eqb 0%N DASH) with false. change (N.eqb 0%N NUL) with true.
          cbn [negb andb bind]. rewrite Hp. cbn [bind stage_dd]. rewrite Hi, (argv_obj_at _ _ _ Ea). cbn [bind].
          unfold cstr. cbn [app rd nth_error bind]. rewrite E0. cbn [bind].
          change (N.eqb 0%N DASH) with false. reflexivity.
        * destruct (N.eqb c1 DASH); [destruct r1|]; discriminate.
      + cbn [bind]. rewrite Hp. cbn [bind stage_dd]. rewrite Hi, (argv_obj_at _ _ _ Ea). cbn [bind].
        unfold cstr. cbn [app rd nth_error bind]. rewrite E0. reflexivity.
  Qed.

  (* ---- one iteration of the loop, inside a pack (or at a word that starts one) ---- *)
  Lemma fm_short c j n h v : fm tb 0 [DASH; c] = Some (j, n, h, v) ->
    n = [DASH; c] /\ v = None /\ nth_error tb j = Some (Some (n, h)).
  Proof.
    intros H. apply fm_some in H. destruct H as (_ & Hn & Hs). rewrite Nat.sub_0_r in Hn.
    destruct (slot_valid j n h Hn) as [Hv _]. destruct (valid_name_len n Hv) as (c' & r' & ->).
    destruct v as [x|]; cbn [app] in Hs.
    - exfalso. inversion Hs as [[H1 H2]]. destruct r'; discriminate.
    - rewrite app_nil_r in Hs. inversion Hs; subst. auto.
  Qed.

  Lemma length_mid (pre : list str) (w : str) (rest : list str) :
    length (pre ++ w :: rest) = S (length pre + length rest).
  Proof. rewrite app_length. cbn [length]. lia. Qed.

  Lemma iter_pack s (pre : list str) (wp : str) c r (rest : list str) :
    ready s -> argv = pre ++ (wp ++ c :: r) :: rest -> g_optind s = length pre ->
    (g_packed s = Some (length pre, length wp) \/ (g_packed s = None /\ wp = [DASH] /\ c <> DASH)) ->
    let i := length pre in
    let after s1 := match r with
                    | [] => g_optind s1 = S i /\ g_packed s1 = None
                    | _ :: _ => g_optind s1 = i /\ g_packed s1 = Some (i, S (length wp))
                    end in
    match fm tb 0 [DASH; c] with
    | None => exists s1, step s s1 (Default [DASH; c]) /\ ready s1 /\ after s1
    | Some (_, n, false, _) => exists s1, step s s1 (Opt n) /\ ready s1 /\ after s1
    | Some (_, n, true, _) =>
      match r with
      | _ :: _ => exists s1, step s s1 (OptArg n r) /\ ready s1 /\ g_optind s1 = S i /\ g_packed s1 = None
      | [] =>
        match rest with
        | a :: _ => exists s1, step s s1 (OptArg n a) /\ ready s1 /\ g_optind s1 = S (S i) /\ g_packed s1 = None
        | [] => exists s1, step s s1 (missing_ev (is_some miss) n) /\ ready s1 /\
                           g_optind s1 = S i /\ g_packed s1 = None
        end
      end
    end.
  Proof.
    intros Hr Ea Hi Hp i after.
    pose proof (argv_no_nul _ _ _ Ea) as Hw. apply no_nul_app in Hw. destruct Hw as [_ Hw].
    apply no_nul_cons in Hw. destruct Hw as [Hc Hrr].
    assert (no_nul [DASH; c]) as Hos.
    { apply no_nul_cons. split; [discriminate|]. apply no_nul_cons. split; [exact Hc|constructor]. }
    assert (g_optind s < length argv) as Hlt by (rewrite Ea, length_mid; lia).
    set (s0 := set_optarg None s).
    assert (ready s0) as Hr0 by (apply ready_optarg; exact Hr).
    pose proof (getopt_ready s Hr Hlt) as Hg. fold s0 in Hg.
    assert (g_optind s0 = length pre) as Hi0 by exact Hi.
    assert (g_packed s0 = Some (length pre, length wp) \/ (g_packed s0 = None /\ wp = [DASH] /\ c <> DASH)) as Hp0
      by exact Hp.
    pose proof (body_pack s0 pre wp c r rest Ea Hi0 Hp0) as Hb. rewrite <- Hg in Hb. clear Hg.
    set (s2 := match r with
               | [] => set_optind (S (length pre)) (set_packed None s0)
               | _ :: _ => set_packed (Some (length pre, S (length wp))) s0
               end) in Hb.
    assert (ready s2) as Hr2.
    { unfold s2. destruct r; [apply ready_optind, ready_packed | apply ready_packed]; exact Hr0. }
    assert (g_optarg s2 = None) as Hoa2 by (unfold s2; destruct r; reflexivity).
    assert (after s2) as Haft by (unfold after, s2; destruct r; prj; auto).
    destruct (fm tb 0 [DASH; c]) as [[[[j n] h] v]|] eqn:Hfm.
    - destruct (fm_short c j n h v Hfm) as (En & Ev & Hn). subst v. destruct h.
      + (* takes an argument *)
        destruct r as [|c2 r2].
        * assert (g_packed s2 = None) as Hp2 by reflexivity.
          assert (g_optind s2 = S (length pre)) as Hi2 by reflexivity.
          destruct rest as [|a rest'].
          -- assert (length argv <= g_optind s2) as Hge by (rewrite Hi2, Ea, length_mid; cbn [length]; lia).
             rewrite (stage_opt_arg_missing s2 _ j n Hr2 Hos Hfm Hp2 Hoa2 Hge) in Hb.
             eexists. split; [|split; [|split]].
             ++ intros f.
                destruct (label_missing (set_found (Some mval) (set_found (Some j) s2)) n) as [L1 L2];
                  [apply ready_found, ready_found, Hr2 | reflexivity |].
                exact (loop_S_str f _ _ _ _ _ Hb L1 L2).
             ++ apply ready_found, ready_found, Hr2.
             ++ exact Hi2.
             ++ exact Hp2.
          -- assert (argv = (pre ++ [wp ++ [c]]) ++ a :: rest') as Ea2 by (rewrite Ea, <- app_assoc; reflexivity).
             assert (argv_obj argv (g_optind s2) = Ok (cstr a)) as Ha.
             { rewrite Hi2. rewrite <- (argv_obj_at _ _ _ Ea2). f_equal. rewrite app_length. cbn [length]. lia. }
             assert (g_optind s2 < length argv) as Hlt2 by (rewrite Hi2, Ea, length_mid; cbn [length]; lia).
             rewrite (stage_opt_arg_next s2 _ j n _ Hr2 Hos Hfm Hp2 Hoa2 Ha Hlt2) in Hb.
             eexists. split; [|split; [|split]].
             ++ intros f.
                destruct (label_optarg (set_optind (S (g_optind s2)) (set_optarg (Some (cstr a, 0)) (set_found (Some j) s2)))
                            j n (cstr a) 0 a) as [L1 L2];
                  [apply ready_optind, ready_optarg, ready_found, Hr2 | reflexivity | exact Hn | reflexivity
                   | apply read_cstr_0; exact (argv_no_nul _ _ _ Ea2) |].
                exact (loop_S_str f _ _ _ _ _ Hb L1 L2).
             ++ apply ready_optind, ready_optarg, ready_found, Hr2.
             ++ prj. rewrite Hi2. reflexivity.
             ++ reflexivity.
        * assert (g_packed s2 = Some (length pre, S (length wp))) as Hp2 by reflexivity.
          assert (g_optind s2 = length pre) as Hi2 by exact Hi.
          rewrite (stage_opt_arg_pack s2 _ j n None _ _ _ Hr2 Hos Hfm eq_refl Hp2 (argv_obj_at _ _ _ Ea)) in Hb.
          eexists. split; [|split; [|split]].
          -- intros f.
             destruct (label_optarg (set_optind (S (g_optind s2)) (set_packed None
                          (set_optarg (Some (cstr (wp ++ c :: c2 :: r2), S (length wp))) (set_found (Some j) s2))))
                         j n (cstr (wp ++ c :: c2 :: r2)) (S (length wp)) (c2 :: r2)) as [L1 L2];
               [apply ready_optind, ready_packed, ready_optarg, ready_found, Hr2 | reflexivity | exact Hn | reflexivity | |].
             { change (wp ++ c :: c2 :: r2) with (wp ++ [c] ++ c2 :: r2). rewrite app_assoc.
               unfold cstr at 1. rewrite <- app_assoc. fold (cstr (c2 :: r2)).
               replace (S (length wp)) with (length (wp ++ [c])) by (rewrite app_length; cbn [length]; lia).
               apply read_cstr_at. exact Hrr. }
             exact (loop_S_str f _ _ _ _ _ Hb L1 L2).
          -- apply ready_optind, ready_packed, ready_optarg, ready_found, Hr2.
          -- prj. rewrite Hi2. reflexivity.
          -- reflexivity.
      + (* no argument *)
        rewrite (stage_opt_noarg s2 _ j n None Hr2 Hos Hfm) in Hb.
        exists (set_found (Some j) s2). split; [|split].
        * intros f. destruct (label_opt (set_found (Some j) s2) j n) as [L1 L2];
            [apply ready_found, Hr2 | reflexivity | exact Hn |].
          exact (loop_S_str f _ _ _ _ _ Hb L1 L2).
        * apply ready_found, Hr2.
        * unfold after in *. destruct r; exact Haft.
    - rewrite (stage_opt_unknown s2 _ Hr2 Hos Hfm) in Hb.
      exists (set_found (Some dval) s2). split; [|split].
      + intros f. destruct (label_default (set_found (Some dval) s2) [DASH; c]) as [L1 L2];
          [apply ready_found, Hr2 | reflexivity |].
        exact (loop_S_str f _ _ _ _ _ Hb L1 L2).
      + apply ready_found, Hr2.
      + unfold after in *. destruct r; exact Haft.
  Qed.

  (* ---- one iteration at a word "--name" or "--name=value" ---- *)
  Lemma iter_long s (pre : list str) b body (rest : list str) :
    ready s -> argv = pre ++ (DASH :: DASH :: b :: body) :: rest -> g_optind s = length pre ->
    g_packed s = None ->
    let i := length pre in
    let w := DASH :: DASH :: b :: body in
    match fm tb 0 w with
    | None => exists s1, step s s1 (Default w) /\ ready s1 /\ g_optind s1 = S i /\ g_packed s1 = None
    | Some (_, n, false, None) => exists s1, step s s1 (Opt n) /\ ready s1 /\ g_optind s1 = S i /\ g_packed s1 = None
    | Some (_, n, false, Some _) =>
      exists s1, step s s1 (Default n) /\ ready s1 /\ g_optind s1 = S i /\ g_packed s1 = None
    | Some (_, n, true, Some v) =>
      exists s1, step s s1 (OptArg n v) /\ ready s1 /\ g_optind s1 = S i /\ g_packed s1 = None
    | Some (_, n, true, None) =>
      match rest with
      | a :: _ => exists s1, step s s1 (OptArg n a) /\ ready s1 /\ g_optind s1 = S (S i) /\ g_packed s1 = None
      | [] => exists s1, step s s1 (missing_ev (is_some miss) n) /\ ready s1 /\
                         g_optind s1 = S i /\ g_packed s1 = None
      end
    end.
  Proof.
    intros Hr Ea Hi Hp i w.
    pose proof (argv_no_nul _ _ _ Ea) as Hos. fold w in Hos.
    assert (g_optind s < length argv) as Hlt by (rewrite Ea, length_mid; lia).
    set (s0 := set_optarg None s).
    assert (ready s0) as Hr0 by (apply ready_optarg; exact Hr).
    pose proof (getopt_ready s Hr Hlt) as Hg. fold s0 in Hg.
    assert (g_optind s0 = length pre) as Hi0 by exact Hi.
    assert (g_packed s0 = None) as Hp0 by exact Hp.
    pose proof (body_long s0 pre b body rest Ea Hi0 Hp0) as Hb. rewrite <- Hg in Hb. clear Hg. fold w in Hb.
    set (s2 := set_optind (S (length pre)) s0) in Hb.
    assert (ready s2) as Hr2 by (apply ready_optind; exact Hr0).
    assert (g_optarg s2 = None) as Hoa2 by reflexivity.
    assert (g_packed s2 = None) as Hp2 by exact Hp.
    assert (g_optind s2 = S (length pre)) as Hi2 by reflexivity.
    destruct (fm tb 0 w) as [[[[j n] h] v]|] eqn:Hfm.
    - destruct (found_facts s2 w j n h v Hr2 Hos Hfm) as (_ & Hn & _ & Ew).
      destruct h.
      + destruct v as [x|].
        * (* --name=value *)
          rewrite (stage_opt_arg_eq s2 w j n x Hr2 Hos Hfm Hp2) in Hb.
          eexists. split; [|split; [|split]].
          -- intros f.
             destruct (label_optarg (set_optarg (Some (cstr w, S (length n))) (set_found (Some j) s2))
                         j n (cstr w) (S (length n)) x) as [L1 L2];
               [apply ready_optarg, ready_found, Hr2 | reflexivity | exact Hn | reflexivity | |].
             { rewrite Ew. change (n ++ EQC :: x) with (n ++ [EQC] ++ x). rewrite app_assoc.
               unfold cstr at 1. rewrite <- app_assoc. fold (cstr x).
               replace (S (length n)) with (length (n ++ [EQC])) by (rewrite app_length; cbn [length]; lia).
               apply read_cstr_at. rewrite Ew in Hos. apply no_nul_app in Hos. destruct Hos as [_ Hos].
               apply no_nul_cons in Hos. tauto. }
             exact (loop_S_str f _ _ _ _ _ Hb L1 L2).
          -- apply ready_optarg, ready_found, Hr2.
          -- exact Hi2.
          -- exact Hp2.
        * destruct rest as [|a rest'].
          -- assert (length argv <= g_optind s2) as Hge by (rewrite Hi2, Ea, length_mid; cbn [length]; lia).
             rewrite (stage_opt_arg_missing s2 _ j n Hr2 Hos Hfm Hp2 Hoa2 Hge) in Hb.
             eexists. split; [|split; [|split]].
             ++ intros f.
                destruct (label_missing (set_found (Some mval) (set_found (Some j) s2)) n) as [L1 L2];
                  [apply ready_found, ready_found, Hr2 | reflexivity |].
                exact (loop_S_str f _ _ _ _ _ Hb L1 L2).
             ++ apply ready_found, ready_found, Hr2.
             ++ exact Hi2.
             ++ exact Hp2.
          -- assert (argv = (pre ++ [w]) ++ a :: rest') as Ea2 by (rewrite Ea, <- app_assoc; reflexivity).
             assert (argv_obj argv (g_optind s2) = Ok (cstr a)) as Ha.
             { rewrite Hi2. rewrite <- (argv_obj_at _ _ _ Ea2). f_equal. rewrite app_length. cbn [length]. lia. }
             assert (g_optind s2 < length argv) as Hlt2 by (rewrite Hi2, Ea, length_mid; cbn [length]; lia).
             rewrite (stage_opt_arg_next s2 _ j n _ Hr2 Hos Hfm Hp2 Hoa2 Ha Hlt2) in Hb.
             eexists. split; [|split; [|split]].
             ++ intros f.
                destruct (label_optarg (set_optind (S (g_optind s2)) (set_optarg (Some (cstr a, 0)) (set_found (Some j) s2)))
                            j n (cstr a) 0 a) as [L1 L2];
                  [apply ready_optind, ready_optarg, ready_found, Hr2 | reflexivity | exact Hn | reflexivity
                   | apply read_cstr_0; exact (argv_no_nul _ _ _ Ea2) |].
                exact (loop_S_str f _ _ _ _ _ Hb L1 L2).
             ++ apply ready_optind, ready_optarg, ready_found, Hr2.
             ++ prj. reflexivity.
             ++ exact Hp.
      + rewrite (stage_opt_noarg s2 _ j n v Hr2 Hos Hfm) in Hb. destruct v as [x|].
        * exists (set_found (Some dval) (set_found (Some j) s2)). split; [|split; [|split]].
          -- intros f. destruct (label_default (set_found (Some dval) (set_found (Some j) s2)) n) as [L1 L2];
               [apply ready_found, ready_found, Hr2 | reflexivity |].
             exact (loop_S_str f _ _ _ _ _ Hb L1 L2).
          -- apply ready_found, ready_found, Hr2.
          -- exact Hi2.
          -- exact Hp2.
        * exists (set_found (Some j) s2). split; [|split; [|split]].
          -- intros f. destruct (label_opt (set_found (Some j) s2) j n) as [L1 L2];
               [apply ready_found, Hr2 | reflexivity | exact Hn |].
             exact (loop_S_str f _ _ _ _ _ Hb L1 L2).
          -- apply ready_found, Hr2.
          -- exact Hi2.
          -- exact Hp2.
    - rewrite (stage_opt_unknown s2 _ Hr2 Hos Hfm) in Hb.
      exists (set_found (Some dval) s2). split; [|split; [|split]].
      + intros f. destruct (label_default (set_found (Some dval) s2) w) as [L1 L2];
          [apply ready_found, Hr2 | reflexivity |].
        exact (loop_S_str f _ _ _ _ _ Hb L1 L2).
      + apply ready_found, Hr2.
      + exact Hi2.
      + exact Hp2.
  Qed.

  (* ---- where the loop ends ---- *)
  Lemma stop_end s f : ready s -> length argv <= g_optind s ->
    loop (S f) s argv = Ok ([], g_optind s, set_optarg None s).
  Proof. intros Hr Hge. rewrite (loop_S_null f s _ (getopt_ready_end s Hr Hge)). reflexivity. Qed.

  Lemma stop_operand s f (pre : list str) (w : str) (rest : list str) :
    ready s -> argv = pre ++ w :: rest -> g_optind s = length pre -> g_packed s = None ->
    classify w = WOperand ->
    loop (S f) s argv = Ok ([], length pre, set_optarg None s).
  Proof.
    intros Hr Ea Hi Hp Hc.
    assert (g_optind s < length argv) as Hlt by (rewrite Ea, length_mid; lia).
    pose proof (getopt_ready s Hr Hlt) as Hg.
    rewrite (body_operand (set_optarg None s) pre w rest Ea Hi Hp Hc) in Hg.
    rewrite (loop_S_null f s _ Hg). prj. rewrite Hi. reflexivity.
  Qed.

  Lemma stop_dashdash s f (pre : list str) (rest : list str) :
    ready s -> argv = pre ++ [DASH; DASH] :: rest -> g_optind s = length pre -> g_packed s = None ->
    loop (S f) s argv = Ok ([], S (length pre), set_optind (S (length pre)) (set_optarg None s)).
  Proof.
    intros Hr Ea Hi Hp.
    assert (g_optind s < length argv) as Hlt by (rewrite Ea, length_mid; lia).
    pose proof (getopt_ready s Hr Hlt) as Hg.
    rewrite (body_dashdash (set_optarg None s) pre rest Ea Hi Hp) in Hg.
    rewrite (loop_S_null f s _ Hg). reflexivity.
  Qed.

  (* ---- the whole loop equals the reference parser (with searchopt's resolution) ---- *)
  Definition mrest (rem : list str) : nat := length (concat rem) + length rem.

  Lemma mrest_cons w rem : mrest (w :: rem) = S (length w + mrest rem).
  Proof. unfold mrest. cbn [concat length]. rewrite app_length. lia. Qed.

  Notation LS := (cod_short tb).
  Notation LL := (cod_long tb).
  Notation MI := (is_some miss).

  Definition pack_result (p : list event * pfin) (rest : list str) (i : nat) : list event * nat :=
    match p with
    | (evs, PDone) => app_ev evs (spec_from LS LL MI rest (S i))
    | (evs, PNeed name) =>
      match rest with
      | a :: rest' => app_ev evs (cons_ev (OptArg name a) (spec_from LS LL MI rest' (S (S i))))
      | [] => (evs ++ [missing_ev MI name], S i)
      end
    end.

  Lemma pack_result_cons ev (p : list event * pfin) rest i :
    pack_result (let (e, f) := p in (ev :: e, f)) rest i = cons_ev ev (pack_result p rest i).
  Proof. destruct p as [e [|name]]; cbn [pack_result]; [reflexivity|]. destruct rest; reflexivity. Qed.

  Lemma cod_short_fm c :
    LS c = match fm tb 0 [DASH; c] with Some (_, n, h, _) => Some (n, h) | None => None end.
  Proof.
    unfold cod_short. rewrite (first_match_fm tb 0). destruct (fm tb 0 [DASH; c]) as [[[[j n] h] v]|]; reflexivity.
  Qed.

  Lemma cod_long_fm body :
    LL body = match fm tb 0 (DASH :: DASH :: body) with Some (_, n, h, v) => Some (n, h, v) | None => None end.
  Proof. unfold cod_long. apply first_match_fm. Qed.

  Lemma cons_res_ok ev (x : list event * nat) s' :
    cons_res ev (Ok (x, s')) = Ok (cons_ev ev x, s').
  Proof. destruct x. reflexivity. Qed.

  Lemma classify_dd w : classify w = WDashDash -> w = [DASH; DASH].
  Proof.
    unfold classify. destruct w as [|c0 [|c1 r1]]; try discriminate.
    - destruct (N.eqb c0 DASH); discriminate.
    - destruct (N.eqb c0 DASH) eqn:E0; [|discriminate]. destruct (N.eqb c1 DASH) eqn:E1; [|discriminate].
      destruct r1; [|discriminate]. intros _. apply N.eqb_eq in E0, E1. subst. reflexivity.
  Qed.

  Lemma classify_long w body : classify w = WLong body ->
    exists b body', body = b :: body' /\ w = DASH :: DASH :: b :: body'.
  Proof.
    unfold classify. destruct w as [|c0 [|c1 r1]]; try discriminate.
    - destruct (N.eqb c0 DASH); discriminate.
    - destruct (N.eqb c0 DASH) eqn:E0; [|discriminate]. destruct (N.eqb c1 DASH) eqn:E1; [|discriminate].
      destruct r1 as [|b body']; [discriminate|]. intros H. inversion H; subst.
      apply N.eqb_eq in E0, E1. subst. eauto.
  Qed.

  Lemma classify_pack w cs : classify w = WPack cs ->
    exists c r, cs = c :: r /\ w = DASH :: c :: r /\ c <> DASH.
  Proof.
    unfold classify. destruct w as [|c0 [|c1 r1]]; try discriminate.
    - destruct (N.eqb c0 DASH); discriminate.
    - destruct (N.eqb c0 DASH) eqn:E0; [|discriminate]. destruct (N.eqb c1 DASH) eqn:E1.
      + destruct r1; discriminate.
      + intros H. inversion H; subst. apply N.eqb_eq in E0. apply N.eqb_neq in E1. subst. eauto.
  Qed.

  Lemma app_one (pre : list str) (w : str) (rest : list str) : pre ++ w :: rest = (pre ++ [w]) ++ rest.
  Proof. rewrite <- app_assoc. reflexivity. Qed.
  Lemma len_one (pre : list str) (w : str) : length (pre ++ [w]) = S (length pre).
  Proof. rewrite app_length. cbn [length]. lia. Qed.
  Lemma len_one' (wp : str) (c : N) : length (wp ++ [c]) = S (length wp).
  Proof. rewrite app_length. cbn [length]. lia. Qed.

  Definition at_word_ok (fuel : nat) : Prop :=
    forall s (pre rem : list str), ready s -> argv = pre ++ rem -> g_optind s = length pre -> g_packed s = None ->
      mrest rem < fuel ->
      exists s', loop fuel s argv = Ok (spec_from LS LL MI rem (length pre), s').

  Definition in_pack_ok (fuel : nat) : Prop :=
    forall s (pre : list str) (wp : str) c r (rest : list str), ready s ->
      argv = pre ++ (wp ++ c :: r) :: rest -> g_optind s = length pre ->
      (g_packed s = Some (length pre, length wp) \/ (g_packed s = None /\ wp = [DASH] /\ c <> DASH)) ->
      S (length r) + mrest rest < fuel ->
      exists s', loop fuel s argv = Ok (pack_result (spec_pack LS (c :: r)) rest (length pre), s').

  Lemma in_pack_step f : at_word_ok f -> in_pack_ok f -> in_pack_ok (S f).
  Proof.
    intros IHw IHp s pre wp c r rest Hr Ea Hi Hp Hm.
    (* after a character that takes no argument: rest of the pack, or the next word *)
    assert (forall s1, ready s1 ->
              match r with
              | [] => g_optind s1 = S (length pre) /\ g_packed s1 = None
              | _ :: _ => g_optind s1 = length pre /\ g_packed s1 = Some (length pre, S (length wp))
              end ->
              exists s', loop f s1 argv = Ok (pack_result (spec_pack LS r) rest (length pre), s')) as Hcont.
    { intros s1 Hr1 Haft. destruct r as [|c2 r2].
      - destruct Haft as [A1 A2].
        destruct (IHw s1 (pre ++ [wp ++ [c]]) rest Hr1) as [s' Hs'];
          [rewrite Ea; apply app_one | rewrite len_one; exact A1 | exact A2 | cbn [length] in Hm; lia |].
        exists s'. rewrite Hs'. rewrite len_one. cbn [spec_pack pack_result app_ev app].
        destruct (spec_from LS LL MI rest (S (length pre))); reflexivity.
      - destruct Haft as [A1 A2].
        destruct (IHp s1 pre (wp ++ [c]) c2 r2 rest Hr1) as [s' Hs'];
          [rewrite Ea, <- app_assoc; reflexivity | exact A1 | left; rewrite len_one'; exact A2
           | cbn [length] in Hm; lia |].
        exists s'. exact Hs'. }
    pose proof (iter_pack s pre wp c r rest Hr Ea Hi Hp) as Hit. cbv zeta in Hit.
    cbn [spec_pack]. rewrite cod_short_fm.
    destruct (fm tb 0 [DASH; c]) as [[[[j n] h] v]|].
    - destruct h.
      + destruct r as [|c2 r2].
        * destruct rest as [|a rest'].
          -- destruct Hit as (s1 & Hst & Hr1 & A1 & A2). destruct f as [|f']; [cbn [length mrest concat] in Hm; lia|].
             exists (set_optarg None s1). rewrite Hst.
             rewrite (stop_end s1 f' Hr1) by (rewrite A1, Ea, length_mid; cbn [length]; lia).
             rewrite cons_res_ok. rewrite A1. reflexivity.
          -- destruct Hit as (s1 & Hst & Hr1 & A1 & A2).
             destruct (IHw s1 (pre ++ [wp ++ [c]; a]) rest' Hr1) as [s' Hs'];
               [rewrite Ea, <- app_assoc; reflexivity | rewrite app_length; cbn [length]; lia | exact A2
                | rewrite mrest_cons in Hm; lia |].
             exists s'. rewrite Hst, Hs', cons_res_ok.
             replace (length (pre ++ [wp ++ [c]; a])) with (S (S (length pre))) by (rewrite app_length; cbn [length]; lia).
             cbn [pack_result app_ev app]. unfold cons_ev. reflexivity.
        * destruct Hit as (s1 & Hst & Hr1 & A1 & A2).
          destruct (IHw s1 (pre ++ [wp ++ c :: c2 :: r2]) rest Hr1) as [s' Hs'];
            [rewrite Ea; apply app_one | rewrite len_one; exact A1 | exact A2 | cbn [length] in Hm; lia |].
          exists s'. rewrite Hst, Hs', cons_res_ok. rewrite len_one. reflexivity.
      + destruct Hit as (s1 & Hst & Hr1 & Haft). destruct (Hcont s1 Hr1 Haft) as [s' Hs'].
        exists s'. rewrite Hst, Hs', cons_res_ok. rewrite pack_result_cons. reflexivity.
    - destruct Hit as (s1 & Hst & Hr1 & Haft). destruct (Hcont s1 Hr1 Haft) as [s' Hs'].
      exists s'. rewrite Hst, Hs', cons_res_ok. rewrite pack_result_cons. reflexivity.
  Qed.

  Lemma at_word_step f : at_word_ok f -> in_pack_ok (S f) -> at_word_ok (S f).
  Proof.
    intros IHw P2 s pre rem Hr Ea Hi Hp Hm.
    destruct rem as [|w rest].
    { exists (set_optarg None s). rewrite (stop_end s f Hr) by (rewrite Hi, Ea, app_nil_r; lia).
      rewrite Hi. reflexivity. }
    rewrite mrest_cons in Hm.
    (* continuing at the next word *)
    assert (forall s1 ev, step s s1 ev -> ready s1 -> g_optind s1 = S (length pre) -> g_packed s1 = None ->
              exists s', loop (S f) s argv = Ok (cons_ev ev (spec_from LS LL MI rest (S (length pre))), s')) as Hnext.
    { intros s1 ev Hst Hr1 A1 A2.
      destruct (IHw s1 (pre ++ [w]) rest Hr1) as [s' Hs'];
        [rewrite Ea; apply app_one | rewrite len_one; exact A1 | exact A2 | lia |].
      exists s'. rewrite Hst, Hs', cons_res_ok, len_one. reflexivity. }
    cbn [spec_from]. destruct (classify w) eqn:Hc.
    - exists (set_optarg None s). apply (stop_operand s f pre w rest Hr Ea Hi Hp Hc).
    - apply classify_dd in Hc. subst w. eexists. apply (stop_dashdash s f pre rest Hr Ea Hi Hp).
    - destruct (classify_long w body Hc) as (b & body' & -> & ->).
      pose proof (iter_long s pre b body' rest Hr Ea Hi Hp) as Hit. cbv zeta in Hit.
      rewrite cod_long_fm.
      destruct (fm tb 0 (DASH :: DASH :: b :: body')) as [[[[j n] h] v]|].
      + destruct h.
        * destruct v as [x|].
          -- destruct Hit as (s1 & Hst & Hr1 & A1 & A2). exact (Hnext s1 _ Hst Hr1 A1 A2).
          -- destruct rest as [|a rest'].
             ++ destruct Hit as (s1 & Hst & Hr1 & A1 & A2). destruct f as [|f']; [lia|].
                exists (set_optarg None s1). rewrite Hst.
                rewrite (stop_end s1 f' Hr1) by (rewrite A1, Ea, length_mid; cbn [length]; lia).
                rewrite cons_res_ok. rewrite A1. reflexivity.
             ++ destruct Hit as (s1 & Hst & Hr1 & A1 & A2).
                destruct (IHw s1 (pre ++ [DASH :: DASH :: b :: body'; a]) rest' Hr1) as [s' Hs'];
                  [rewrite Ea, <- app_assoc; reflexivity | rewrite app_length; cbn [length]; lia | exact A2
                   | rewrite mrest_cons in Hm; lia |].
                exists s'. rewrite Hst, Hs', cons_res_ok.
                replace (length (pre ++ [DASH :: DASH :: b :: body'; a])) with (S (S (length pre)))
                  by (rewrite app_length; cbn [length]; lia).
                reflexivity.
        * destruct v as [x|]; destruct Hit as (s1 & Hst & Hr1 & A1 & A2); exact (Hnext s1 _ Hst Hr1 A1 A2).
      + destruct Hit as (s1 & Hst & Hr1 & A1 & A2). exact (Hnext s1 _ Hst Hr1 A1 A2).
    - destruct (classify_pack w cs Hc) as (c & r & -> & -> & Hcd).
      destruct (P2 s pre [DASH] c r rest Hr Ea Hi) as [s' Hs'];
        [right; auto | cbn [length] in Hm; lia |].
      exists s'. rewrite Hs'. unfold pack_result.
      destruct (spec_pack LS (c :: r)) as [evs [|name]]; [reflexivity|]. destruct rest; reflexivity.
  Qed.

  Lemma loop_ok fuel : at_word_ok fuel /\ in_pack_ok fuel.
  Proof.
    induction fuel as [|f [IHw IHp]].
    - split; [intros s pre rem _ _ _ _ H | intros s pre wp c r rest _ _ _ _ H]; lia.
    - pose proof (in_pack_step f IHw IHp) as P2. split; [apply at_word_step; assumption | exact P2].
  Qed.
End Steps.
