(* util/sysendian.h: the stores write the defined byte order into exactly the target bytes, the
   loads read it back, and both directions are inverse, for the tables regenerated from the header. *)
From Coq Require Import Arith NArith ZArith List Lia Bool.
From LCP Require Import Base.CheckedMem Util.EndianMem Util.EndianMemProofs Util.Endian Gen.Repo_codec2.
Import ListNotations.
Local Open Scope N_scope.
Ltac Zify.zify_post_hook ::= Z.to_euclidean_division_equations.

(* ---------------- the spec: both directions inverse ---------------- *)
Lemma le_bytes_length n x : length (le_bytes n x) = n.
Proof. revert x. induction n as [|n IH]; intros x; [reflexivity|]. cbn [le_bytes length]. rewrite IH. reflexivity. Qed.

Lemma le_bytes_ok n x : bytes_ok (le_bytes n x).
Proof.
  revert x. induction n as [|n IH]; intros x; [constructor|]. cbn [le_bytes].
  constructor; [unfold is_byte; apply N.mod_lt; lia | apply IH].
Qed.

Lemma le_val_bytes_mod n x : le_val (le_bytes n x) = x mod 256 ^ N.of_nat n.
Proof.
  revert x. induction n as [|n IH]; intros x.
  - cbn [le_bytes le_val N.of_nat]. rewrite N.pow_0_r, N.mod_1_r. reflexivity.
  - cbn [le_bytes le_val]. rewrite IH. rewrite Nat2N.inj_succ, N.pow_succ_r'.
    rewrite N.mod_mul_r; [reflexivity | lia | apply N.pow_nonzero; lia].
Qed.

Theorem le_val_le_bytes n x : x < 256 ^ N.of_nat n -> le_val (le_bytes n x) = x.
Proof. intros H. rewrite le_val_bytes_mod. apply N.mod_small, H. Qed.

Theorem le_bytes_le_val bs : bytes_ok bs -> le_bytes (length bs) (le_val bs) = bs.
Proof.
  induction bs as [|b r IH]; intros H; [reflexivity|].
  inversion H as [|? ? Hb Hr]; subst. unfold is_byte in Hb.
  cbn [length le_bytes le_val].
  replace ((b + 256 * le_val r) mod 256) with b by lia.
  replace ((b + 256 * le_val r) / 256) with (le_val r) by lia.
  rewrite (IH Hr). reflexivity.
Qed.

Lemma le_val_bound bs : bytes_ok bs -> le_val bs < 256 ^ N.of_nat (length bs).
Proof.
  induction bs as [|b r IH]; intros H; [cbn; lia|].
  inversion H as [|? ? Hb Hr]; subst. unfold is_byte in Hb. specialize (IH Hr).
  cbn [length le_val]. rewrite Nat2N.inj_succ, N.pow_succ_r'. lia.
Qed.

Theorem be_val_be_bytes n x : x < 256 ^ N.of_nat n -> be_val (be_bytes n x) = x.
Proof. intros H. unfold be_val, be_bytes. rewrite rev_involutive. apply le_val_le_bytes, H. Qed.

Lemma bytes_ok_rev bs : bytes_ok bs -> bytes_ok (rev bs).
Proof. unfold bytes_ok. rewrite !Forall_forall. intros H x Hx. apply H. apply in_rev. exact Hx. Qed.

Theorem be_bytes_be_val bs : bytes_ok bs -> be_bytes (length bs) (be_val bs) = bs.
Proof.
  intros H. unfold be_val, be_bytes. rewrite <- (rev_length bs).
  rewrite le_bytes_le_val by (apply bytes_ok_rev, H). apply rev_involutive.
Qed.

Lemma be_bytes_length n x : length (be_bytes n x) = n.
Proof. unfold be_bytes. rewrite rev_length. apply le_bytes_length. Qed.

Lemma be_bytes_ok n x : bytes_ok (be_bytes n x).
Proof. apply bytes_ok_rev, le_bytes_ok. Qed.

Lemma be_val_bound bs : bytes_ok bs -> be_val bs < 256 ^ N.of_nat (length bs).
Proof. intros H. unfold be_val. rewrite <- (rev_length bs). apply le_val_bound, bytes_ok_rev, H. Qed.

(* byte k (counted from the least significant end) is (x / 256^k) mod 256 *)
Lemma le_bytes_explicit n x :
  le_bytes n x = map (fun k => (x / 256 ^ N.of_nat k) mod 256) (seq 0 n).
Proof.
  revert x. induction n as [|n IH]; intros x; [reflexivity|].
  cbn [le_bytes seq map]. f_equal.
  - cbn [N.of_nat]. rewrite N.pow_0_r, N.div_1_r. reflexivity.
  - rewrite IH. rewrite <- seq_shift, map_map. apply map_ext. intros k.
    rewrite Nat2N.inj_succ, N.pow_succ_r', N.div_div; [reflexivity | lia | apply N.pow_nonzero; lia].
Qed.

(* ---------------- stores and loads on an object cut into pre ++ mid ++ post ---------------- *)
Lemma split3 (buf : list N) off n :
  (off + n <= length buf)%nat ->
  exists pre mid post, buf = pre ++ mid ++ post /\ length pre = off /\ length mid = n.
Proof.
  intros H. exists (firstn off buf), (firstn n (skipn off buf)), (skipn (off + n) buf).
  split; [symmetry; apply firstn_mid_skipn|].
  rewrite !firstn_length, skipn_length. lia.
Qed.

Lemma stored_parts pre mid post bytes :
  length mid = length bytes -> stored (pre ++ mid ++ post) (length pre) bytes = pre ++ bytes ++ post.
Proof.
  intros H. unfold stored.
  rewrite firstn_app, firstn_all, Nat.sub_diag. cbn [firstn]. rewrite app_nil_r. f_equal. f_equal.
  rewrite skipn_app, skipn_all2 by lia. cbn [app].
  replace (length pre + length bytes - length pre)%nat with (length mid) by lia.
  rewrite skipn_app, skipn_all, Nat.sub_diag. reflexivity.
Qed.

Lemma loaded_parts pre mid post : loaded (pre ++ mid ++ post) (length pre) (length mid) = mid.
Proof.
  unfold loaded. rewrite skipn_app, skipn_all, Nat.sub_diag. cbn [skipn app].
  rewrite firstn_app, firstn_all, Nat.sub_diag. cbn [firstn]. apply app_nil_r.
Qed.

Lemma byte_at x s : N.land (N.shiftr x s) 255 = (x / 2 ^ s) mod 256.
Proof. rewrite N.shiftr_div_pow2. change 255 with (N.ones 8). rewrite N.land_ones. reflexivity. Qed.

Lemma enc_tab_cons i s m r buf off x :
  enc_tab_m ((i, s, m) :: r) buf off x =
  bind (wr buf (off + N.to_nat i) (N.land (N.shiftr x s) m)) (fun b => enc_tab_m r b off x).
Proof. reflexivity. Qed.

Lemma dec_terms_cons w i s r buf off acc :
  dec_terms_m w ((i, s) :: r) buf off acc =
  bind (rd buf (off + N.to_nat i)) (fun b => dec_terms_m w r buf off (N.lor acc ((N.shiftl b s) mod 2 ^ w))).
Proof. reflexivity. Qed.

(* OR-ing a byte in above everything accumulated so far is an addition *)
Lemma lor_byte acc b s p w :
  p = 2 ^ s -> acc < p -> b < 256 -> p * 256 <= 2 ^ w ->
  N.lor acc ((N.shiftl b s) mod 2 ^ w) = acc + b * p.
Proof.
  intros -> Ha Hb Hw.
  rewrite N.shiftl_mul_pow2. rewrite N.mod_small by nia.
  rewrite <- N.lxor_lor, <- N.add_nocarry_lxor; [reflexivity | | ];
    (apply N.bits_inj; intros k; rewrite N.land_spec, N.bits_0;
     destruct (N.lt_ge_cases k s) as [Hk|Hk];
     [ rewrite N.mul_pow2_bits_low by exact Hk; apply andb_false_r
     | replace acc with (acc mod 2 ^ s) by (apply N.mod_small, Ha);
       rewrite N.mod_pow2_bits_high by exact Hk; reflexivity ]).
Qed.

(* the twelve routines, by unrolling the regenerated tables *)
Ltac unroll_enc :=
  repeat (rewrite enc_tab_cons;
          match goal with |- context [N.to_nat ?k] => let v := eval vm_compute in (N.to_nat k) in
                                                    change (N.to_nat k) with v end;
          rewrite wr_pre; cbn [wr app bind]).

Ltac enc_tac tab :=
  intros buf off x H;
  destruct (split3 buf off _ H) as (pre & mid & post & -> & Lp & Lm); subst off;
  repeat (destruct mid as [|? mid]; [discriminate Lm|]); destruct mid; [|discriminate Lm];
  rewrite stored_parts by (rewrite ?be_bytes_length, ?le_bytes_length; reflexivity);
  unfold tab; unroll_enc; cbn [enc_tab_m];
  unfold be_bytes; rewrite le_bytes_explicit; cbn [seq map rev app];
  rewrite !byte_at; reflexivity.

Theorem be16enc_ok : forall buf off x, (off + 2 <= length buf)%nat ->
  be16enc_m buf off x = Ok (stored buf off (be_bytes 2 x)).
Proof. unfold be16enc_m. enc_tac be16enc_tab. Qed.
Theorem be32enc_ok : forall buf off x, (off + 4 <= length buf)%nat ->
  be32enc_m buf off x = Ok (stored buf off (be_bytes 4 x)).
Proof. unfold be32enc_m. enc_tac be32enc_tab. Qed.
Theorem be64enc_ok : forall buf off x, (off + 8 <= length buf)%nat ->
  be64enc_m buf off x = Ok (stored buf off (be_bytes 8 x)).
Proof. unfold be64enc_m. enc_tac be64enc_tab. Qed.
Theorem le16enc_ok : forall buf off x, (off + 2 <= length buf)%nat ->
  le16enc_m buf off x = Ok (stored buf off (le_bytes 2 x)).
Proof. unfold le16enc_m. enc_tac le16enc_tab. Qed.
Theorem le32enc_ok : forall buf off x, (off + 4 <= length buf)%nat ->
  le32enc_m buf off x = Ok (stored buf off (le_bytes 4 x)).
Proof. unfold le32enc_m. enc_tac le32enc_tab. Qed.
Theorem le64enc_ok : forall buf off x, (off + 8 <= length buf)%nat ->
  le64enc_m buf off x = Ok (stored buf off (le_bytes 8 x)).
Proof. unfold le64enc_m. enc_tac le64enc_tab. Qed.

(* ---- loads ---- *)
Lemma bytes_ok_mid (pre mid post : list N) : bytes_ok (pre ++ mid ++ post) -> bytes_ok mid.
Proof.
  unfold bytes_ok. rewrite !Forall_forall. intros H x Hx. apply H.
  apply in_or_app. right. apply in_or_app. left. exact Hx.
Qed.

Ltac pow_consts :=
  repeat match goal with
         | |- context [2 ^ ?k] => let v := eval vm_compute in (2 ^ k) in change (2 ^ k) with v
         end.

Ltac unroll_dec :=
  repeat (rewrite dec_terms_cons;
          match goal with |- context [N.to_nat ?k] => let v := eval vm_compute in (N.to_nat k) in
                                                    change (N.to_nat k) with v end;
          rewrite rd_app_r; cbn [rd nth_error app bind]).

Ltac lor_steps :=
  repeat match goal with
         | |- context [N.lor ?acc ((N.shiftl ?b ?s) mod 2 ^ ?w)] =>
           let p := eval vm_compute in (2 ^ s) in
           rewrite (lor_byte acc b s p w);
           [ | vm_compute; reflexivity | lia | lia | vm_compute; intro; discriminate ]
         end.

Ltac dec_tac tab :=
  intros buf off H Hb;
  destruct (split3 buf off _ H) as (pre & mid & post & -> & Lp & Lm); subst off;
  repeat (destruct mid as [|? mid]; [discriminate Lm|]); destruct mid; [|discriminate Lm];
  apply bytes_ok_mid in Hb;
  repeat match goal with
         | Hx : bytes_ok (_ :: _) |- _ => inversion Hx; clear Hx; subst
         | Hx : Forall _ (_ :: _) |- _ => inversion Hx; clear Hx; subst
         end;
  unfold is_byte in *;
  match goal with
  | |- context [loaded (?p ++ ?m ++ ?q) (length ?p) ?k] =>
    change (loaded (p ++ m ++ q) (length p) k) with (loaded (p ++ m ++ q) (length p) (length m));
    rewrite (loaded_parts p m q)
  end;
  unfold dec_tab_m, tab; unroll_dec; cbn [dec_terms_m bind];
  lor_steps;
  cbn [be_val rev app le_val]; f_equal; pow_consts; lia.

Theorem be16dec_ok : forall buf off, (off + 2 <= length buf)%nat -> bytes_ok buf ->
  be16dec_m buf off = Ok (be_val (loaded buf off 2)).
Proof. unfold be16dec_m. dec_tac be16dec_tab. Qed.
Theorem be32dec_ok : forall buf off, (off + 4 <= length buf)%nat -> bytes_ok buf ->
  be32dec_m buf off = Ok (be_val (loaded buf off 4)).
Proof. unfold be32dec_m. dec_tac be32dec_tab. Qed.
Theorem be64dec_ok : forall buf off, (off + 8 <= length buf)%nat -> bytes_ok buf ->
  be64dec_m buf off = Ok (be_val (loaded buf off 8)).
Proof. unfold be64dec_m. dec_tac be64dec_tab. Qed.
Theorem le16dec_ok : forall buf off, (off + 2 <= length buf)%nat -> bytes_ok buf ->
  le16dec_m buf off = Ok (le_val (loaded buf off 2)).
Proof. unfold le16dec_m. dec_tac le16dec_tab. Qed.
Theorem le32dec_ok : forall buf off, (off + 4 <= length buf)%nat -> bytes_ok buf ->
  le32dec_m buf off = Ok (le_val (loaded buf off 4)).
Proof. unfold le32dec_m. dec_tac le32dec_tab. Qed.
Theorem le64dec_ok : forall buf off, (off + 8 <= length buf)%nat -> bytes_ok buf ->
  le64dec_m buf off = Ok (le_val (loaded buf off 8)).
Proof. unfold le64dec_m. dec_tac le64dec_tab. Qed.
