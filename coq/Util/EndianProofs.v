(* util/sysendian.h: the stores write the defined byte order into exactly the target bytes, the
   loads read it back, and both directions are inverse, for the tables regenerated from the header. *)
From Coq Require Import Arith NArith ZArith List Lia Bool.
From LCP Require Import Base.CheckedMem Util.EndianMem Util.EndianMemProofs Util.Endian Gen.Repo_codec2.
Import ListNotations.
Local Open Scope N_scope.
Ltac Zify.zify_post_hook ::= Z.to_euclidean_division_equations.

(* ---------------- the spec: both directions inverse ---------------- *)
Lemma le_bytes_length n x : length (le_bytes n x) = n.
Proof. revert x. induction n as [|n IH]; intros x; [reflexivity|]. cbn [le_bytes length]. rewrite IH. reflexivity. Qed.

Lemma le_bytes_ok n x : bytes_ok (le_bytes n x).
Proof.
  revert x. induction n as [|n IH]; intros x; [constructor|]. cbn [le_bytes].
  constructor; [unfold is_byte; apply N.mod_lt; lia | apply IH].
Qed.

Lemma le_val_bytes_mod n x : le_val (le_bytes n x) = x mod 256 ^ N.of_nat n.
Proof.
  revert x. induction n as [|n IH]; intros x.
  - cbn [le_bytes le_val N.of_nat]. rewrite N.pow_0_r, N.mod_1_r. reflexivity.
  - cbn [le_bytes le_val]. rewrite IH. rewrite Nat2N.inj_succ, N.pow_succ_r'.
    rewrite N.mod_mul_r; [reflexivity | lia | apply N.pow_nonzero; lia].
Qed.

Theorem le_val_le_bytes n x : x < 256 ^ N.of_nat n -> le_val (le_bytes n x) = x.
Proof. intros H. rewrite le_val_bytes_mod. apply N.mod_small, H. Qed.

Theorem le_bytes_le_val bs : bytes_ok bs -> le_bytes (length bs) (le_val bs) = bs.
Proof.
  induction bs as [|b r IH]; intros H; [reflexivity|].
  inversion H as [|? ? Hb Hr]; subst. unfold is_byte in Hb.
  cbn [length le_bytes le_val].
  replace ((b + 256 * le_val r) mod 256) with b by lia.
  replace ((b + 256 * le_val r) / 256) with (le_val r) by lia.
  rewrite (IH Hr). reflexivity.
Qed.

Lemma le_val_bound bs : bytes_ok bs -> le_val bs < 256 ^ N.of_nat (length bs).
Proof.
  induction bs as [|b r IH]; intros H; [cbn; lia|].
  inversion H as [|? ? Hb Hr]; subst. unfold is_byte in Hb. specialize (IH Hr).
  cbn [length le_val]. rewrite Nat2N.inj_succ, N.pow_succ_r'. lia.
Qed.

Theorem be_val_be_bytes n x : x < 256 ^ N.of_nat n -> be_val (be_bytes n x) = x.
Proof. intros H. unfold be_val, be_bytes. rewrite rev_involutive. apply le_val_le_bytes, H. Qed.

Lemma bytes_ok_rev bs : bytes_ok bs -> bytes_ok (rev bs).
Proof. unfold bytes_ok. rewrite !Forall_forall. intros H x Hx. apply H. apply in_rev. exact Hx. Qed.

Theorem be_bytes_be_val bs : bytes_ok bs -> be_bytes (length bs) (be_val bs) = bs.
Proof.
  intros H. unfold be_val, be_bytes. rewrite <- (rev_length bs).
  rewrite le_bytes_le_val by (apply bytes_ok_rev, H). apply rev_involutive.
Qed.

Lemma be_bytes_length n x : length (be_bytes n x) = n.
Proof. unfold be_bytes. rewrite rev_length. apply le_bytes_length. Qed.

Lemma be_bytes_ok n x : bytes_ok (be_bytes n x).
Proof. apply bytes_ok_rev, le_bytes_ok. Qed.

Lemma be_val_bound bs : bytes_ok bs -> be_val bs < 256 ^ N.of_nat (length bs).
Proof. intros H. unfold be_val. rewrite <- (rev_length bs). apply le_val_bound, bytes_ok_rev, H. Qed.

(* byte k (counted from the least significant end) is (x / 256^k) mod 256 *)
Lemma le_bytes_explicit n x :
  le_bytes n x = map (fun k => (x / 256 ^ N.of_nat k) mod 256) (seq 0 n).
Proof.
  revert x. induction n as [|n IH]; intros x; [reflexivity|].
  cbn [le_bytes seq map]. f_equal.
  - cbn [N.of_nat]. rewrite N.pow_0_r, N.div_1_r. reflexivity.
  - rewrite IH. rewrite <- seq_shift, map_map. apply map_ext. intros k.
    rewrite Nat2N.inj_succ, N.pow_succ_r', N.div_div; [reflexivity | lia | apply N.pow_nonzero; lia].
Qed.

(* ---------------- stores and loads on an object cut into pre ++ mid ++ post ---------------- *)
Lemma split3 (buf : list N) off n :
  (off + n <= length buf)%nat ->
  exists pre mid post, buf = pre ++ mid ++ post /\ length pre = off /\ length mid = n.
Proof.
  intros H. exists (firstn off buf), (firstn n (skipn off buf)), (skipn (off + n) buf).
  split; [symmetry; apply firstn_mid_skipn|].
  rewrite !firstn_length, skipn_length. lia.
Qed.

Lemma stored_parts pre mid post bytes :
  length mid = length bytes -> stored (pre ++ mid ++ post) (length pre) bytes = pre ++ bytes ++ post.
Proof.
  intros H. unfold stored.
  rewrite firstn_app, firstn_all, Nat.sub_diag. cbn [firstn]. rewrite app_nil_r. f_equal. f_equal.
  rewrite skipn_app, skipn_all2 by lia. cbn [app].
  replace (length pre + length bytes - length pre)%nat with (length mid) by lia.
  rewrite skipn_app, skipn_all, Nat.sub_diag. reflexivity.
Qed.

Lemma loaded_parts pre mid post : loaded (pre ++ mid ++ post) (length pre) (length mid) = mid.
Proof.
  unfold loaded. rewrite skipn_app, skipn_all, Nat.sub_diag. cbn [skipn app].
  rewrite firstn_app, firstn_all, Nat.sub_diag. cbn [firstn]. apply app_nil_r.
Qed.

Lemma byte_at x s : N.land (N.shiftr x s) 255 = (x / 2 ^ s) mod 256.
Proof. rewrite N.shiftr_div_pow2. change 255 with (N.ones 8). rewrite N.land_ones. reflexivity. Qed.

Lemma enc_tab_cons i s m r buf off x :
  enc_tab_m ((i, s, m) :: r) buf off x =
  bind (wr buf (off + N.to_nat i) (N.land (N.shiftr x s) m)) (fun b => enc_tab_m r b off x).
Proof. reflexivity. Qed.

Lemma dec_terms_cons w i s r buf off acc :
  dec_terms_m w ((i, s) :: r) buf off acc =
  bind (rd buf (off + N.to_nat i)) (fun b => dec_terms_m w r buf off (N.lor acc ((N.shiftl b s) mod 2 ^ w))).
Proof. reflexivity. Qed.

(* OR-ing a byte in above everything accumulated so far is an addition *)
Lemma lor_byte acc b s p w :
  p = 2 ^ s -> acc < p -> b < 256 -> p * 256 <= 2 ^ w ->
  N.lor acc ((N.shiftl b s) mod 2 ^ w) = acc + b * p.
Proof.
  intros -> Ha Hb Hw.
  rewrite N.shiftl_mul_pow2. rewrite N.mod_small by nia.
  rewrite <- N.lxor_lor, <- N.add_nocarry_lxor; [reflexivity | | ];
    (apply N.bits_inj; intros k; rewrite N.land_spec, N.bits_0;
     destruct (N.lt_ge_cases k s) as [Hk|Hk];
     [ rewrite N.mul_pow2_bits_low by exact Hk; apply andb_false_r
     | replace acc with (acc mod 2 ^ s) by (apply N.mod_small, Ha);
       rewrite N.mod_pow2_bits_high by exact Hk; reflexivity ]).
Qed.

(* the twelve routines, by unrolling the regenerated tables *)
Ltac unroll_enc :=
  repeat (rewrite enc_tab_cons;
          match goal with |- context [N.to_nat ?k] => let v := eval vm_compute in (N.to_nat k) in
                                                    change (N.to_nat k) with v end;
          rewrite wr_pre; cbn [wr app bind]).

Ltac enc_tac tab :=
  intros buf off x H;
  destruct (split3 buf off _ H) as (pre & mid & post & -> & Lp & Lm); subst off;
  repeat (destruct mid as [|? mid]; [discriminate Lm|]); destruct mid; [|discriminate Lm];
  rewrite stored_parts by (rewrite ?be_bytes_length, ?le_bytes_length; reflexivity);
  unfold tab; unroll_enc; cbn [enc_tab_m];
  unfold be_bytes; rewrite le_bytes_explicit; cbn [seq map rev app];
  rewrite !byte_at; reflexivity.

Theorem be16enc_ok : forall buf off x, (off + 2 <= length buf)%nat ->
  be16enc_m buf off x = Ok (stored buf off (be_bytes 2 x)).
Proof. unfold be16enc_m. enc_tac be16enc_tab. Qed.
Theorem be32enc_ok : forall buf off x, (off + 4 <= length buf)%nat ->
  be32enc_m buf off x = Ok (stored buf off (be_bytes 4 x)).
Proof. unfold be32enc_m. enc_tac be32enc_tab. Qed.
Theorem be64enc_ok : forall buf off x, (off + 8 <= length buf)%nat ->
  be64enc_m buf off x = Ok (stored buf off (be_bytes 8 x)).
Proof. unfold be64enc_m. enc_tac be64enc_tab. Qed.
Theorem le16enc_ok : forall buf off x, (off + 2 <= length buf)%nat ->
  le16enc_m buf off x = Ok (stored buf off (le_bytes 2 x)).
Proof. unfold le16enc_m. enc_tac le16enc_tab. Qed.
Theorem le32enc_ok : forall buf off x, (off + 4 <= length buf)%nat ->
  le32enc_m buf off x = Ok (stored buf off (le_bytes 4 x)).
Proof. unfold le32enc_m. enc_tac le32enc_tab. Qed.
Theorem le64enc_ok : forall buf off x, (off + 8 <= length buf)%nat ->
  le64enc_m buf off x = Ok (stored buf off (le_bytes 8 x)).
Proof. unfold le64enc_m. enc_tac le64enc_tab. Qed.

(* ---- loads ---- *)
Lemma bytes_ok_mid (pre mid post : list N) : bytes_ok (pre ++ mid ++ post) -> bytes_ok mid.
Proof.
  unfold bytes_ok. rewrite !Forall_forall. intros H x Hx. apply H.
  apply in_or_app. right. apply in_or_app. left. exact Hx.
Qed.

Ltac pow_consts :=
  repeat match goal with
         | |- context [2 ^ ?k] => let v := eval vm_compute in (2 ^ k) in change (2 ^ k) with v
         end.

Ltac unroll_dec :=
  repeat (rewrite dec_terms_cons;
          match goal with |- context [N.to_nat ?k] => let v := eval vm_compute in (N.to_nat k) in
                                                    change (N.to_nat k) with v end;
          rewrite rd_app_r; cbn [rd nth_error app bind]).

Ltac lor_steps :=
  repeat match goal with
         | |- context [N.lor ?acc ((N.shiftl ?b ?s) mod 2 ^ ?w)] =>
           let p := eval vm_compute in (2 ^ s) in
           rewrite (lor_byte acc b s p w);
           [ | vm_compute; reflexivity | lia | lia | vm_compute; intro; discriminate ]
         end.

Ltac dec_tac tab :=
  intros buf off H Hb;
  destruct (split3 buf off _ H) as (pre & mid & post & -> & Lp & Lm); subst off;
  repeat (destruct mid as [|? mid]; [discriminate Lm|]); destruct mid; [|discriminate Lm];
  apply bytes_ok_mid in Hb;
  repeat match goal with
         | Hx : bytes_ok (_ :: _) |- _ => inversion Hx; clear Hx; subst
         | Hx : Forall _ (_ :: _) |- _ => inversion Hx; clear Hx; subst
         end;
  unfold is_byte in *;
  match goal with
  | |- context [loaded (?p ++ ?m ++ ?q) (length ?p) ?k] =>
    change (loaded (p ++ m ++ q) (length p) k) with (loaded (p ++ m ++ q) (length p) (length m));
    rewrite (loaded_parts p m q)
  end;
  unfold dec_tab_m, tab; unroll_dec; cbn [dec_terms_m bind];
  lor_steps;
  cbn [be_val rev app le_val]; f_equal; pow_consts; lia.

Theorem be16dec_ok : forall buf off, (off + 2 <= length buf)%nat -> bytes_ok buf ->
  be16dec_m buf off = Ok (be_val (loaded buf off 2)).
Proof. unfold be16dec_m. dec_tac be16dec_tab. Qed.
Theorem be32dec_ok : forall buf off, (off + 4 <= length buf)%nat -> bytes_ok buf ->
  be32dec_m buf off = Ok (be_val (loaded buf off 4)).
Proof. unfold be32dec_m. dec_tac be32dec_tab. Qed.
Theorem be64dec_ok : forall buf off, (off + 8 <= length buf)%nat -> bytes_ok buf ->
  be64dec_m buf off = Ok (be_val (loaded buf off 8)).
Proof. unfold be64dec_m. dec_tac be64dec_tab. Qed.
Theorem le16dec_ok : forall buf off, (off + 2 <= length buf)%nat -> bytes_ok buf ->
  le16dec_m buf off = Ok (le_val (loaded buf off 2)).
Proof. unfold le16dec_m. dec_tac le16dec_tab. Qed.
Theorem le32dec_ok : forall buf off, (off + 4 <= length buf)%nat -> bytes_ok buf ->
  le32dec_m buf off = Ok (le_val (loaded buf off 4)).
Proof. unfold le32dec_m. dec_tac le32dec_tab. Qed.
Theorem le64dec_ok : forall buf off, (off + 8 <= length buf)%nat -> bytes_ok buf ->
  le64dec_m buf off = Ok (le_val (loaded buf off 8)).
Proof. unfold le64dec_m. dec_tac le64dec_tab. Qed.

(* ---------------- the family statements ---------------- *)
Theorem endian_store_defined k buf off x :
  (off + ek_width k <= length buf)%nat ->
  ek_enc k buf off x = Ok (stored buf off (ek_bytes k (ek_width k) x)).
Proof.
  destruct k; cbn [ek_width ek_enc ek_bytes]; intros H;
    [apply be16enc_ok | apply be32enc_ok | apply be64enc_ok
     | apply le16enc_ok | apply le32enc_ok | apply le64enc_ok]; exact H.
Qed.

Theorem endian_load_defined k buf off :
  (off + ek_width k <= length buf)%nat -> bytes_ok buf ->
  ek_dec k buf off = Ok (ek_val k (loaded buf off (ek_width k))).
Proof.
  destruct k; cbn [ek_width ek_dec ek_val]; intros H Hb;
    [apply be16dec_ok | apply be32dec_ok | apply be64dec_ok
     | apply le16dec_ok | apply le32dec_ok | apply le64dec_ok]; assumption.
Qed.

Lemma ek_bytes_length k n x : length (ek_bytes k n x) = n.
Proof. destruct k; cbn [ek_bytes]; first [apply be_bytes_length | apply le_bytes_length]. Qed.
Lemma ek_bytes_ok k n x : bytes_ok (ek_bytes k n x).
Proof. destruct k; cbn [ek_bytes]; first [apply be_bytes_ok | apply le_bytes_ok]. Qed.

Theorem ek_val_bytes k n x : x < 256 ^ N.of_nat n -> ek_val k (ek_bytes k n x) = x.
Proof. destruct k; cbn [ek_val ek_bytes]; first [apply be_val_be_bytes | apply le_val_le_bytes]. Qed.
Theorem ek_bytes_val k bs : bytes_ok bs -> ek_bytes k (length bs) (ek_val k bs) = bs.
Proof. destruct k; cbn [ek_val ek_bytes]; first [apply be_bytes_be_val | apply le_bytes_le_val]. Qed.
Lemma ek_val_bound k bs : bytes_ok bs -> ek_val k bs < 256 ^ N.of_nat (length bs).
Proof. destruct k; cbn [ek_val]; first [apply be_val_bound | apply le_val_bound]. Qed.

Lemma stored_split buf off (bytes : list N) :
  (off + length bytes <= length buf)%nat ->
  exists pre mid post, buf = pre ++ mid ++ post /\ length pre = off /\ length mid = length bytes /\
                       stored buf off bytes = pre ++ bytes ++ post.
Proof.
  intros H. destruct (split3 buf off _ H) as (pre & mid & post & -> & Lp & Lm).
  exists pre, mid, post. repeat split; try assumption. subst off. apply stored_parts, Lm.
Qed.

Lemma bytes_ok_app (a b : list N) : bytes_ok (a ++ b) <-> bytes_ok a /\ bytes_ok b.
Proof. unfold bytes_ok. apply Forall_app. Qed.

(* store then load gives the value back (and the object stays a byte object of the same size) *)
Theorem endian_dec_enc k buf off x :
  (off + ek_width k <= length buf)%nat -> bytes_ok buf -> x < 256 ^ N.of_nat (ek_width k) ->
  exists buf', ek_enc k buf off x = Ok buf' /\ length buf' = length buf /\ ek_dec k buf' off = Ok x.
Proof.
  intros H Hb Hx. rewrite endian_store_defined by exact H.
  set (bytes := ek_bytes k (ek_width k) x).
  assert (length bytes = ek_width k) as Lb by apply ek_bytes_length.
  destruct (stored_split buf off bytes) as (pre & mid & post & E & Lp & Lm & Es); [lia|].
  exists (stored buf off bytes). split; [reflexivity|]. rewrite Es. subst buf.
  split; [rewrite !app_length; lia|].
  rewrite endian_load_defined.
  - subst off. rewrite <- Lb. rewrite loaded_parts. unfold bytes. rewrite ek_val_bytes by exact Hx. reflexivity.
  - rewrite !app_length. lia.
  - apply bytes_ok_app in Hb. destruct Hb as [H1 H2]. apply bytes_ok_app in H2. destruct H2 as [_ H3].
    apply bytes_ok_app. split; [exact H1|]. apply bytes_ok_app. split; [apply ek_bytes_ok | exact H3].
Qed.

(* load then store leaves the object as it was: enc (dec bs) = bs *)
Theorem endian_enc_dec k buf off :
  (off + ek_width k <= length buf)%nat -> bytes_ok buf ->
  exists v, ek_dec k buf off = Ok v /\ v < 256 ^ N.of_nat (ek_width k) /\ ek_enc k buf off v = Ok buf.
Proof.
  intros H Hb. rewrite endian_load_defined by assumption.
  destruct (split3 buf off _ H) as (pre & mid & post & -> & Lp & Lm). subst off.
  rewrite <- Lm. rewrite loaded_parts.
  assert (bytes_ok mid) as Hm by (apply bytes_ok_mid in Hb; exact Hb).
  exists (ek_val k mid). split; [reflexivity|]. split; [apply ek_val_bound, Hm|].
  rewrite endian_store_defined by exact H. rewrite <- Lm.
  rewrite ek_bytes_val by exact Hm. rewrite stored_parts by reflexivity. reflexivity.
Qed.

(* non-vacuity *)
Example be32_example :
  be32enc_m [9; 9; 9; 9; 9; 9] 1 16909060 = Ok [9; 1; 2; 3; 4; 9] /\
  be32dec_m [9; 1; 2; 3; 4; 9] 1 = Ok 16909060.
Proof. split; vm_compute; reflexivity. Qed.
Example le64_example :
  le64enc_m (repeat 0 9) 1 72623859790382856 = Ok [0; 8; 7; 6; 5; 4; 3; 2; 1].
Proof. vm_compute. reflexivity. Qed.
Example be16_fault_example : be16enc_m [0; 0] 1 258 = Fault.
Proof. vm_compute. reflexivity. Qed.
