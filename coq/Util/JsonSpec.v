(* SPEC for the JSON key finder, written from RFC 8259 and independent of util/json.c.

   [jvalue] is a JSON value together with its *layout*: the insignificant whitespace chosen at
   every place where the RFC's grammar has "ws", and, per character of a string, whether it is
   written raw, as a two-character escape or as \uXXXX.  [render] prints it.  [find_spec] is
   the documented answer of json_find on the rendering of an object: the offset of the value
   of the first top-level member whose decoded name equals the key (names written with a \u
   escape never match), else the total length. *)
From Coq Require Import Arith NArith List Bool.
Import ListNotations.
Local Open Scope N_scope.

(* one character of a string as written in the text *)
Inductive sitem : Type :=
| Raw (c : N)                     (* the byte itself *)
| Esc (e : N)                     (* backslash followed by the byte e *)
| Uni (h1 h2 h3 h4 : N).          (* backslash, 'u', four bytes *)
Definition jstring := list sitem.

Inductive lit : Type := LFalse | LNull | LTrue.

Inductive jvalue : Type :=
| JLit (l : lit)
| JNum (text : list N)
| JStr (s : jstring)
| JArr (w : list N) (es : list jelem)              (* [ w e1 , e2 ... ] *)
| JObj (w : list N) (ms : list jmember)            (* { w m1 , m2 ... } *)
with jelem : Type :=
| Elem (wb : list N) (v : jvalue) (wa : list N)    (* wb value wa *)
with jmember : Type :=
| Member (wb : list N) (name : jstring) (wn wv : list N) (v : jvalue) (wa : list N).
                                                   (* wb name wn colon wv value wa *)

(* RFC 8259 section 2: ws = *( %x20 / %x09 / %x0A / %x0D ) *)
Definition ws_byte (c : N) : bool := (c =? 32) || (c =? 9) || (c =? 10) || (c =? 13).
Definition is_wsl (w : list N) : bool := forallb ws_byte w.

(* section 7: the two-character escapes and the characters they denote *)
Definition esc_val (e : N) : option N :=
  if e =? 34 then Some 34            (* \ quote *)
  else if e =? 92 then Some 92       (* \\ *)
  else if e =? 47 then Some 47       (* \/ *)
  else if e =? 98 then Some 8        (* \b *)
  else if e =? 102 then Some 12      (* \f *)
  else if e =? 110 then Some 10      (* \n *)
  else if e =? 114 then Some 13      (* \r *)
  else if e =? 116 then Some 9       (* \t *)
  else None.

(* section 6: the characters a number is made of: + - 0..9 . e E *)
Definition num_byte (c : N) : bool :=
  (c =? 43) || (c =? 45) || ((48 <=? c) && (c <=? 57)) || (c =? 46) || (c =? 101) || (c =? 69).

(* what may follow a value for the value skipper to stop exactly behind it: the end of the
   input or a byte that cannot continue a number; NUL is excluded too, because the C tests
   strchr(numchars, c), which finds the terminator of numchars.  In a JSON text a value is
   followed by a blank, a comma, a closing bracket or a closing brace. *)
Definition value_end_ok (l : list N) : bool :=
  match l with [] => true | c :: _ => negb (num_byte c || (c =? 0)) end.

(* ---- printer ---- *)
Definition render_item (i : sitem) : list N :=
  match i with
  | Raw c => [c]
  | Esc e => [92; e]
  | Uni h1 h2 h3 h4 => [92; 117; h1; h2; h3; h4]
  end.
Definition render_items (s : jstring) : list N := flat_map render_item s.
Definition render_string (s : jstring) : list N := 34 :: render_items s ++ [34].

Definition lit_text (l : lit) : list N :=
  match l with
  | LFalse => [102; 97; 108; 115; 101]
  | LNull => [110; 117; 108; 108]
  | LTrue => [116; 114; 117; 101]
  end.

Fixpoint join_comma (l : list (list N)) : list N :=
  match l with
  | [] => []
  | x :: r => match r with [] => x | _ :: _ => x ++ 44 :: join_comma r end
  end.

Fixpoint render (v : jvalue) : list N :=
  match v with
  | JLit l => lit_text l
  | JNum t => t
  | JStr s => render_string s
  | JArr w es => 91 :: w ++ join_comma (map render_elem es) ++ [93]
  | JObj w ms => 123 :: w ++ join_comma (map render_member ms) ++ [125]
  end
with render_elem (e : jelem) : list N :=
  match e with Elem wb v wa => wb ++ render v ++ wa end
with render_member (m : jmember) : list N :=
  match m with
  | Member wb name wn wv v wa => wb ++ render_string name ++ wn ++ 58 :: wv ++ render v ++ wa
  end.

(* ---- well-formedness (boolean).  Deliberately more liberal than the RFC wherever the extra
   freedom is harmless for the finder (the theorem is then stronger): a raw string byte is
   anything except NUL, the quote and the backslash; the four bytes after \u are arbitrary;
   a number is any non-empty run of number characters. ---- *)
Definition wf_item (i : sitem) : bool :=
  match i with
  | Raw c => negb (c =? 0) && negb (c =? 34) && negb (c =? 92)
  | Esc e => match esc_val e with Some _ => true | None => false end
  | Uni _ _ _ _ => true
  end.
Definition wf_string (s : jstring) : bool := forallb wf_item s.

Fixpoint wf (v : jvalue) : bool :=
  match v with
  | JLit _ => true
  | JNum t => negb (match t with [] => true | _ => false end) && forallb num_byte t
  | JStr s => wf_string s
  | JArr w es => is_wsl w && forallb wf_elem es
  | JObj w ms => is_wsl w && forallb wf_member ms
  end
with wf_elem (e : jelem) : bool :=
  match e with Elem wb v wa => is_wsl wb && wf v && is_wsl wa end
with wf_member (m : jmember) : bool :=
  match m with
  | Member wb name wn wv v wa =>
    is_wsl wb && wf_string name && is_wsl wn && is_wsl wv && wf v && is_wsl wa
  end.

(* ---- RFC 8259 validity proper (strict), for reference: implies wf (JsonCorrect.v) ---- *)
Definition hex_byte (c : N) : bool :=
  ((48 <=? c) && (c <=? 57)) || ((65 <=? c) && (c <=? 70)) || ((97 <=? c) && (c <=? 102)).
Definition rfc_item (i : sitem) : bool :=
  match i with
  | Raw c => (32 <=? c) && (c <? 256) && negb (c =? 34) && negb (c =? 92)
  | Esc e => match esc_val e with Some _ => true | None => false end
  | Uni a b c d => hex_byte a && hex_byte b && hex_byte c && hex_byte d
  end.
Definition is_digit (c : N) : bool := (48 <=? c) && (c <=? 57).
Fixpoint all_digits1 (t : list N) : bool :=       (* 1*DIGIT *)
  match t with [] => false | c :: r => is_digit c && match r with [] => true | _ => all_digits1 r end end.
(* split off the longest run of digits *)
Fixpoint span_digits (t : list N) : list N * list N :=
  match t with
  | c :: r => if is_digit c then let (d, s) := span_digits r in (c :: d, s) else ([], t)
  | [] => ([], [])
  end.
(* number = [ minus ] int [ frac ] [ exp ] *)
Definition rfc_exp (t : list N) : bool :=
  match t with
  | [] => true
  | c :: r =>
    ((c =? 101) || (c =? 69)) &&
    all_digits1 (match r with s :: r' => if (s =? 43) || (s =? 45) then r' else r | [] => r end)
  end.
Definition is_nil (t : list N) : bool := match t with [] => true | _ :: _ => false end.
Definition rfc_frac_exp (t : list N) : bool :=
  match t with
  | c :: r =>
    if c =? 46 then (let (d, s) := span_digits r in negb (is_nil d) && rfc_exp s)   (* frac [exp] *)
    else rfc_exp t
  | [] => true
  end.
Definition rfc_number (t : list N) : bool :=
  let t := match t with c :: r => if c =? 45 then r else t | [] => t end in       (* [ minus ] *)
  let (d, s) := span_digits t in
  match d with
  | [] => false
  | c :: d' => (negb (c =? 48) || is_nil d') && rfc_frac_exp s                       (* int: 0 / 1-9 digits *)
  end.

Fixpoint rfc_valid (v : jvalue) : bool :=
  match v with
  | JLit _ => true
  | JNum t => rfc_number t
  | JStr s => forallb rfc_item s
  | JArr w es => is_wsl w && forallb rfc_elem es
  | JObj w ms => is_wsl w && forallb rfc_member ms
  end
with rfc_elem (e : jelem) : bool :=
  match e with Elem wb v wa => is_wsl wb && rfc_valid v && is_wsl wa end
with rfc_member (m : jmember) : bool :=
  match m with
  | Member wb name wn wv v wa =>
    is_wsl wb && forallb rfc_item name && is_wsl wn && is_wsl wv && rfc_valid v && is_wsl wa
  end.

(* ---- the finder's specification ---- *)
(* the name a string denotes; None when it is written with a \u escape (never matches)
   or with an undefined escape *)
Fixpoint decode_name (s : jstring) : option (list N) :=
  match s with
  | [] => Some []
  | Raw c :: r => option_map (cons c) (decode_name r)
  | Esc e :: r => match esc_val e with
                  | Some c => option_map (cons c) (decode_name r)
                  | None => None
                  end
  | Uni _ _ _ _ :: _ => None
  end.

Fixpoint bytes_eqb (x y : list N) : bool :=
  match x, y with
  | [], [] => true
  | a :: x', c :: y' => (a =? c) && bytes_eqb x' y'
  | _, _ => false
  end.

Definition name_is (s : jstring) (key : list N) : bool :=
  match decode_name s with Some n => bytes_eqb n key | None => false end.

(* off = offset (in the whole text) at which the rendering of the member list ms begins *)
Fixpoint find_members (off : nat) (ms : list jmember) (key : list N) : option nat :=
  match ms with
  | [] => None
  | Member wb name wn wv v wa :: r =>
    let voff := (off + length wb + length (render_string name) + length wn + 1 + length wv)%nat in
    if name_is name key then Some voff
    else find_members (voff + length (render v) + length wa + 1)%nat r key
  end.

(* json_find on  lead ++ render v ++ trail  (lead = whitespace before the object) *)
Definition find_spec (lead : list N) (v : jvalue) (trail : list N) (key : list N) : nat :=
  let total := (length lead + length (render v) + length trail)%nat in
  match v with
  | JObj w ms =>
    match find_members (length lead + 1 + length w)%nat ms key with
    | Some o => o
    | None => total
    end
  | _ => total
  end.
