(* Floating-point TARGETS of PARSENUM: IEEE-754 binary64 / binary32 bit patterns as integers, the value
   they denote, the exact order on values, and the conversion double -> float that the assignment
   "( *x) = parsenum_float(...)" performs when x points to a float (C 6.3.1.5; with gcc on x86-64 /
   aarch64: round to nearest, ties to even, overflow to infinity, gradual underflow), written in plain
   integer arithmetic so that it extracts and runs.  Model and spec vocabulary only; the laws of
   [narrow32] are proved in Util/ParsenumFloatProofs.v.  strtod itself stays libc's: the double it
   returned enters as its 64-bit pattern. *)
From Coq Require Import ZArith Bool.
Local Open Scope Z_scope.

(* the value of a bit pattern: (-1)^neg * m * 2^e with m >= 0 *)
Inductive fval := VNan | VInf (neg : bool) | VFin (neg : bool) (m e : Z).
Inductive fclass := FFinite | FInf | FNan.
Definition class_of (v : fval) : fclass :=
  match v with VNan => FNan | VInf _ => FInf | VFin _ _ _ => FFinite end.

(* eb exponent bits, fb fraction bits; b is the pattern (0 <= b < 2^(1+eb+fb)) *)
Definition decode (eb fb b : Z) : fval :=
  let neg := Z.odd (b / 2 ^ (eb + fb)) in
  let ex := (b / 2 ^ fb) mod 2 ^ eb in
  let fr := b mod 2 ^ fb in
  let bias := 2 ^ (eb - 1) - 1 in
  if ex =? 2 ^ eb - 1 then (if fr =? 0 then VInf neg else VNan)
  else if ex =? 0 then VFin neg fr (1 - bias - fb)                 (* zero and subnormals *)
  else VFin neg (fr + 2 ^ fb) (ex - bias - fb).
Definition decode64 : Z -> fval := decode 11 52.
Definition decode32 : Z -> fval := decode 8 23.

(* m / 2^s rounded to the nearest integer, ties to even (s >= 1) *)
Definition rne (m s : Z) : Z :=
  let d := m / 2 ^ s in
  let rem := m mod 2 ^ s in
  let half := 2 ^ (s - 1) in
  if (rem >? half) || ((rem =? half) && Z.odd d) then d + 1 else d.

(* binary32: 24 significant bits, least exponent -149.  The spacing of binary32 values around
   m * 2^e (m > 0) is 2^quantum32 *)
Definition quantum32 (m e : Z) : Z := Z.max (Z.log2 m + e - 23) (-149).
(* the integer r for which r * 2^quantum32 is the binary32 value nearest to m * 2^e *)
Definition round32 (m e : Z) : Z :=
  let q := quantum32 m e in
  if e <? q then rne m (q - e) else m * 2 ^ (e - q).

Definition INF32 : Z := 2139095040.        (* 0x7f800000 *)
Definition NAN32 : Z := 2143289344.        (* 0x7fc00000, the quiet NaN *)
(* the pattern (without sign) of the binary32 nearest to m * 2^e: exponent field quantum+150 for a
   24-bit r, 0 for a subnormal one; a carry out of the fraction (r = 2^24) lands in the exponent field
   by itself; anything at or above the pattern of infinity has overflowed *)
Definition mag32 (m e : Z) : Z :=
  if m =? 0 then 0
  else let bits := (quantum32 m e + 149) * 2 ^ 23 + round32 m e in
       if bits >=? INF32 then INF32 else bits.
Definition sign32 (neg : bool) : Z := if neg then 2 ^ 31 else 0.

(* (float)d for the double with pattern b, as a binary32 pattern *)
Definition narrow32 (b : Z) : Z :=
  match decode64 b with
  | VNan => NAN32
  | VInf neg => sign32 neg + INF32
  | VFin neg m e => sign32 neg + mag32 m e
  end.

(* what a floating target of w bits (32: float, otherwise double) holds after "*x = d" *)
Definition fstore (w b : Z) : Z := if w =? 32 then narrow32 b else b.
Definition decode_w (w b : Z) : fval := if w =? 32 then decode32 b else decode64 b.

(* ---- exact order on values, as C's < on doubles: NaN is unordered, -0 = +0 ---- *)
Definition sval (neg : bool) (m : Z) : Z := if neg then - m else m.
Definition fval_ltb (a b : fval) : bool :=
  match a, b with
  | VNan, _ => false
  | _, VNan => false
  | VInf na, VInf nb => na && negb nb
  | VInf na, VFin _ _ _ => na
  | VFin _ _ _, VInf nb => negb nb
  | VFin na ma ea, VFin nb mb eb =>
    let k := Z.min ea eb in sval na ma * 2 ^ (ea - k) <? sval nb mb * 2 ^ (eb - k)
  end.

(* ---- the range of the type ---- *)
(* FLT_MAX = (2^24 - 1) * 2^104 *)
Definition FLT_MAX_v : fval := VFin false (2 ^ 24 - 1) 104.
(* a finite value lies within float iff its magnitude does not exceed FLT_MAX *)
Definition in_float32 (v : fval) : bool :=
  match v with
  | VFin _ m e => negb (fval_ltb FLT_MAX_v (VFin false m e))
  | _ => true
  end.
Definition in_type (w : Z) (v : fval) : bool := if w =? 32 then in_float32 v else true.

(* scaled magnitude: every finite double and float is an integer number of units of 2^-1074 *)
Definition units (m e : Z) : Z := m * 2 ^ (e + 1074).
(* the least magnitude whose conversion to float overflows: FLT_MAX + half a spacing = 2^128 - 2^103 *)
Definition OVF32_units : Z := (2 ^ 128 - 2 ^ 103) * 2 ^ 1074.
