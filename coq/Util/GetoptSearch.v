(* Proofs about util/getopt.c's model, part 1: string reads and searchopt.
   searchopt on a terminated string never leaves it and returns the first slot whose name is a
   prefix followed by the end of the string or '='. *)
From Coq Require Import Arith NArith List Lia Bool.
From LCP Require Import Base.CheckedMem Util.Getopt.
Import ListNotations.

Lemma rd_at (pre : list N) c post : rd (pre ++ c :: post) (length pre) = Ok c.
Proof.
  unfold rd. rewrite nth_error_app2 by lia. rewrite Nat.sub_diag. reflexivity.
Qed.

Lemma rd_at' (pre : list N) c post k : k = length pre -> rd (pre ++ c :: post) k = Ok c.
Proof. intros ->. apply rd_at. Qed.

Lemma no_nul_cons c s : no_nul (c :: s) <-> c <> 0%N /\ no_nul s.
Proof.
  unfold no_nul. split.
  - intros H. inversion H; subst. auto.
  - intros [H1 H2]. constructor; auto.
Qed.

Lemma no_nul_app a b : no_nul (a ++ b) <-> no_nul a /\ no_nul b.
Proof. unfold no_nul. apply Forall_app. Qed.

Lemma eqb_nul_false c : c <> 0%N -> N.eqb c NUL = false.
Proof. intros H. apply N.eqb_neq. exact H. Qed.

Lemma scan_str_cstr s x : no_nul s -> scan_str (s ++ 0%N :: x) = Ok s.
Proof.
  induction s as [|c r IH]; intros H; [reflexivity|].
  apply no_nul_cons in H. destruct H as [Hc Hr].
  cbn [app scan_str]. rewrite (eqb_nul_false c Hc). rewrite (IH Hr). reflexivity.
Qed.

Lemma read_cstr_at pre s : no_nul s -> read_cstr (pre ++ cstr s) (length pre) = Ok s.
Proof.
  intros H. unfold read_cstr.
  assert (length pre <=? length (pre ++ cstr s) = true) as ->.
  { apply Nat.leb_le. rewrite app_length. lia. }
  rewrite skipn_app, Nat.sub_diag, skipn_all. cbn [app skipn]. unfold cstr.
  apply scan_str_cstr. exact H.
Qed.

Lemma read_cstr_0 s : no_nul s -> read_cstr (cstr s) 0 = Ok s.
Proof. intros H. apply (read_cstr_at [] s H). Qed.

Lemma str_eqb_refl a : str_eqb a a = true.
Proof. induction a as [|x r IH]; [reflexivity|]. cbn [str_eqb]. rewrite N.eqb_refl, IH. reflexivity. Qed.

Lemma str_eqb_eq a b : str_eqb a b = true <-> a = b.
Proof.
  revert b. induction a as [|x r IH]; intros [|y b]; cbn [str_eqb]; split; intros H; try discriminate; auto.
  - apply andb_true_iff in H. destruct H as [H1 H2]. apply N.eqb_eq in H1. apply IH in H2. subst. reflexivity.
  - inversion H; subst. rewrite N.eqb_refl. cbn [andb]. apply IH. reflexivity.
Qed.

(* ---- strip_prefix ---- *)
Lemma strip_prefix_some n s rest : strip_prefix n s = Some rest -> s = n ++ rest.
Proof.
  revert s. induction n as [|c n IH]; intros s H; cbn [strip_prefix] in H.
  - inversion H. reflexivity.
  - destruct s as [|x s]; [discriminate|]. destruct (N.eqb x c) eqn:E; [|discriminate].
    apply N.eqb_eq in E. subst. cbn [app]. f_equal. apply IH. exact H.
Qed.

Lemma strip_prefix_app n rest : strip_prefix n (n ++ rest) = Some rest.
Proof.
  induction n as [|c n IH]; [reflexivity|]. cbn [app strip_prefix]. rewrite N.eqb_refl. exact IH.
Qed.

(* strncmp(name, os, strlen name) through checked memory = prefix test, and stays inside os *)
Lemma strn_eq_spec n : no_nul n -> forall pre s,
  strn_eq n (pre ++ cstr s) (length pre) = Ok (is_some (strip_prefix n s)).
Proof.
  induction n as [|c n IH]; intros Hn pre s; [reflexivity|].
  apply no_nul_cons in Hn. destruct Hn as [Hc Hn].
  cbn [strn_eq strip_prefix]. destruct s as [|x s].
  - unfold cstr. cbn [app]. rewrite rd_at. cbn [bind].
    assert (N.eqb 0 c = false) as -> by (apply N.eqb_neq; congruence). reflexivity.
  - unfold cstr. cbn [app]. rewrite rd_at. cbn [bind]. destruct (N.eqb x c); [|reflexivity].
    specialize (IH Hn (pre ++ [x]) s). rewrite app_length in IH. cbn [length] in IH.
    rewrite <- app_assoc in IH. cbn [app] in IH. unfold cstr in IH.
    replace (S (length pre)) with (length pre + 1) by lia. exact IH.
Qed.

(* ---- first match with its slot number ---- *)
Fixpoint fm (t : table) (i : nat) (s : str) : option (nat * str * bool * option str) :=
  match t with
  | [] => None
  | None :: r => fm r (S i) s
  | Some (n, h) :: r =>
    match strip_prefix n s with
    | Some [] => Some (i, n, h, None)
    | Some (c :: v) => if N.eqb c EQC then Some (i, n, h, Some v) else fm r (S i) s
    | None => fm r (S i) s
    end
  end.

Lemma first_match_fm t i s :
  first_match t s = match fm t i s with Some (_, n, h, v) => Some (n, h, v) | None => None end.
Proof.
  revert i. induction t as [|[[n h]|] r IH]; intros i; cbn [first_match fm]; [reflexivity| |apply IH].
  destruct (strip_prefix n s) as [[|c v]|]; [reflexivity | | apply IH].
  destruct (N.eqb c EQC); [reflexivity | apply IH].
Qed.

Lemma fm_some t i s j n h v : fm t i s = Some (j, n, h, v) ->
  i <= j < i + length t /\ nth_error t (j - i) = Some (Some (n, h)) /\
  s = n ++ (match v with None => [] | Some x => EQC :: x end).
Proof.
  revert i. induction t as [|[[n' h']|] r IH]; intros i H; cbn [fm] in H; [discriminate| |].
  - assert (fm r (S i) s = Some (j, n, h, v) ->
            i <= j < i + length ((Some (n', h') : slot) :: r) /\ nth_error ((Some (n', h') : slot) :: r) (j - i) = Some (Some (n, h)) /\
            s = n ++ (match v with None => [] | Some x => EQC :: x end)) as Hrec.
    { intros H'. apply IH in H'. destruct H' as (H1 & H2 & H3). cbn [length]. split; [lia|]. split; [|exact H3].
      replace (j - i) with (S (j - S i)) by lia. exact H2. }
    destruct (strip_prefix n' s) as [[|c x]|] eqn:E; [| |auto].
    + inversion H; subst. apply strip_prefix_some in E. cbn [length]. rewrite Nat.sub_diag.
      split; [lia|]. split; [reflexivity|exact E].
    + destruct (N.eqb c EQC) eqn:Ec; [|auto]. inversion H; subst. apply strip_prefix_some in E.
      apply N.eqb_eq in Ec. subst c. cbn [length]. rewrite Nat.sub_diag. split; [lia|]. split; [reflexivity|exact E].
  - apply IH in H. destruct H as (H1 & H2 & H3). cbn [length]. split; [lia|]. split; [|exact H3].
    replace (j - i) with (S (j - S i)) by lia. exact H2.
Qed.

Definition names_nn (t : table) : Prop :=
  Forall (fun sl : slot => match sl with Some (n, _) => no_nul n | None => True end) t.

(* searchopt on a terminated string: no fault, first slot matching *)
Lemma searchopt_from_spec t : names_nn t -> forall i s d, no_nul s ->
  searchopt_from t i (cstr s) d = Ok (match fm t i s with Some (j, _, _, _) => j | None => d end).
Proof.
  induction t as [|[[n h]|] r IH]; intros Hn i s d Hs; cbn [searchopt_from fm]; [reflexivity| |].
  - inversion Hn as [|? ? Hn1 Hn2]; subst.
    pose proof (strn_eq_spec n Hn1 [] s) as Hse. cbn [app length] in Hse. rewrite Hse. clear Hse. cbn [bind].
    destruct (strip_prefix n s) as [rest|] eqn:E; cbn [is_some]; [|apply IH; auto].
    pose proof (strip_prefix_some _ _ _ E) as Es. subst s.
    apply no_nul_app in Hs. destruct Hs as [_ Hrest].
    destruct rest as [|c v].
    + unfold cstr. rewrite <- app_assoc. cbn [app]. rewrite rd_at. cbn [bind]. reflexivity.
    + unfold cstr. rewrite <- app_assoc. cbn [app]. rewrite rd_at. cbn [bind].
      apply no_nul_cons in Hrest. destruct Hrest as [Hc Hv].
      rewrite (eqb_nul_false c Hc). cbn [orb]. destruct (N.eqb c EQC); [reflexivity|].
      change (n ++ c :: v ++ [0%N]) with (n ++ (c :: v) ++ [0%N]). rewrite app_assoc.
      fold (cstr (n ++ c :: v)). apply IH; auto.
      apply no_nul_app. split; [exact Hn1|]. apply no_nul_cons. auto.
  - inversion Hn; subst. apply IH; auto.
Qed.
