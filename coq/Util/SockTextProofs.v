(* Facts about the executable text conversions of SockText.v: printf %d and the port parser are
   inverse on 1..65535; inet_pton(AF_INET) inverts inet_ntop(AF_INET); character classes. *)
From Coq Require Import Arith NArith ZArith List Lia Bool.
From LCP Require Import Base.CheckedMem Base.Sweep Util.EndianMem Util.EndianMemProofs Util.SockText Gen.Repo_codec2.
Import ListNotations.
Local Open Scope N_scope.

(* ---------------- text conversions (SockText.v) ---------------- *)
Definition is_digit (c : N) : bool := (48 <=? c) && (c <=? 57).

Lemma port_base_is_10 : port_base = 10 /\ port_trailing = 0 /\ port_min = 1 /\ port_max = 65535.
Proof. repeat split; reflexivity. Qed.

(* printf("%d") of a port and the library's own parser are inverse on 1..65535 *)
Definition port_ok (p : N) : bool :=
  forallb is_digit (dec_digits p) && negb (Nat.eqb (length (dec_digits p)) 0) &&
  (if 1 <=? p then match parse_port (dec_digits p) with Some q => q =? p | None => false end else true).
Lemma port_sweep : forall_below 65536 port_ok = true.
Proof. vm_compute. reflexivity. Qed.

Lemma dec_digits_port p : p < 65536 ->
  forallb is_digit (dec_digits p) = true /\ dec_digits p <> [] /\
  (1 <= p -> parse_port (dec_digits p) = Some p).
Proof.
  intros H. pose proof (forall_below_spec _ _ port_sweep p H) as S. unfold port_ok in S.
  apply andb_true_iff in S. destruct S as [S S3]. apply andb_true_iff in S. destruct S as [S1 S2].
  split; [exact S1|]. split.
  - intros E. rewrite E in S2. discriminate.
  - intros Hp. replace (1 <=? p) with true in S3 by (symmetry; apply N.leb_le; exact Hp).
    destruct (parse_port (dec_digits p)); [|discriminate]. apply N.eqb_eq in S3. subst. reflexivity.
Qed.

Lemma digits_no_char (l : list N) c : forallb is_digit l = true -> is_digit c = false -> ~ In c l.
Proof.
  intros H Hc Hin. rewrite forallb_forall in H. specialize (H c Hin). congruence.
Qed.

Lemma digits_no_nul (l : list N) : forallb is_digit l = true -> no_nul l.
Proof.
  intros H. unfold no_nul. rewrite Forall_forall. intros x Hx ->.
  exact (digits_no_char l 0 H eq_refl Hx).
Qed.

(* inet_pton(AF_INET) on the output of inet_ntop(AF_INET) *)
Fixpoint p4_digits (ds : list N) (cur : N) (saw : bool) : option (N * bool) :=
  match ds with
  | [] => Some (cur, saw)
  | ch :: r =>
    if is_digit ch then
      let new := cur * 10 + (ch - 48) in
      if saw && (cur =? 0) then None
      else if 255 <? new then None
      else p4_digits r new true
    else None
  end.

Lemma p4_lift : forall ds cur saw done octets rest c' s',
  p4_digits ds cur saw = Some (c', s') -> ds <> [] -> (saw = false -> (octets < 4)%nat) ->
  pton4_run (ds ++ rest) done cur saw octets =
  pton4_run rest done c' true (if saw then octets else S octets).
Proof.
  induction ds as [|ch r IH]; intros cur saw done octets rest c' s' H Hne Ho; [congruence|].
  cbn [p4_digits] in H. cbn [app pton4_run]. unfold is_digit in H.
  destruct ((48 <=? ch) && (ch <=? 57)); [|discriminate].
  destruct (saw && (cur =? 0)); [discriminate|].
  destruct (255 <? cur * 10 + (ch - 48)); [discriminate|].
  destruct r as [|ch2 r2].
  - cbn [p4_digits] in H. inversion H; subst. cbn [app].
    destruct saw; [reflexivity|].
    replace (4 <? S octets)%nat with false by (symmetry; apply Nat.ltb_ge; specialize (Ho eq_refl); lia).
    reflexivity.
  - destruct saw.
    + rewrite (IH _ true done octets rest c' s' H); [reflexivity | discriminate | discriminate].
    + replace (4 <? S octets)%nat with false by (symmetry; apply Nat.ltb_ge; specialize (Ho eq_refl); lia).
      rewrite (IH _ true done (S octets) rest c' s' H); [reflexivity | discriminate | discriminate].
Qed.

Definition octet_ok (v : N) : bool :=
  forallb is_digit (dec_digits v) && negb (Nat.eqb (length (dec_digits v)) 0) &&
  match p4_digits (dec_digits v) 0 false with Some (c, s) => (c =? v) && s | None => false end.
Lemma octet_sweep : forallb octet_ok (N_range 256) = true.
Proof. vm_compute. reflexivity. Qed.

Lemma octet_facts v : v < 256 ->
  forallb is_digit (dec_digits v) = true /\ dec_digits v <> [] /\
  p4_digits (dec_digits v) 0 false = Some (v, true).
Proof.
  intros H. pose proof (sweep_byte _ octet_sweep v H) as S. unfold octet_ok in S.
  apply andb_true_iff in S. destruct S as [S S3]. apply andb_true_iff in S. destruct S as [S1 S2].
  split; [exact S1|]. split; [intros E; rewrite E in S2; discriminate|].
  destruct (p4_digits (dec_digits v) 0 false) as [[c s]|]; [|discriminate].
  apply andb_true_iff in S3. destruct S3 as [E1 E2]. apply N.eqb_eq in E1. subst. reflexivity.
Qed.

Lemma p4_dot r done cur octets :
  pton4_run (46 :: r) done cur true octets =
  if (octets =? 4)%nat then None else pton4_run r (done ++ [cur]) 0 false octets.
Proof. reflexivity. Qed.

Theorem pton4_ntop4 a0 a1 a2 a3 :
  a0 < 256 -> a1 < 256 -> a2 < 256 -> a3 < 256 ->
  pton4 (ntop4 [a0; a1; a2; a3]) = Some [a0; a1; a2; a3].
Proof.
  intros H0 H1 H2 H3.
  destruct (octet_facts a0 H0) as (_ & N0 & P0). destruct (octet_facts a1 H1) as (_ & N1 & P1).
  destruct (octet_facts a2 H2) as (_ & N2 & P2). destruct (octet_facts a3 H3) as (_ & N3 & P3).
  unfold pton4, ntop4.
  rewrite (p4_lift _ 0 false [] 0%nat _ _ _ P0 N0) by (intros _; lia). rewrite p4_dot. cbn [Nat.eqb app].
  rewrite (p4_lift _ 0 false _ 1%nat _ _ _ P1 N1) by (intros _; lia). rewrite p4_dot. cbn [Nat.eqb app].
  rewrite (p4_lift _ 0 false _ 2%nat _ _ _ P2 N2) by (intros _; lia). rewrite p4_dot. cbn [Nat.eqb app].
  rewrite <- (app_nil_r (dec_digits a3)).
  rewrite (p4_lift _ 0 false _ 3%nat _ _ _ P3 N3) by (intros _; lia). reflexivity.
Qed.

Definition ip4_char (c : N) : bool := is_digit c || (c =? 46).

Lemma ntop4_chars a0 a1 a2 a3 :
  a0 < 256 -> a1 < 256 -> a2 < 256 -> a3 < 256 -> forallb ip4_char (ntop4 [a0; a1; a2; a3]) = true.
Proof.
  intros H0 H1 H2 H3.
  destruct (octet_facts a0 H0) as (D0 & _). destruct (octet_facts a1 H1) as (D1 & _).
  destruct (octet_facts a2 H2) as (D2 & _). destruct (octet_facts a3 H3) as (D3 & _).
  assert (forall l, forallb is_digit l = true -> forallb ip4_char l = true) as W.
  { intros l H. rewrite forallb_forall in *. intros x Hx. unfold ip4_char. rewrite (H x Hx). reflexivity. }
  unfold ntop4. rewrite !forallb_app. cbn [forallb]. rewrite !forallb_app. cbn [forallb].
  rewrite !forallb_app. cbn [forallb].
  rewrite (W _ D0), (W _ D1), (W _ D2), (W _ D3). reflexivity.
Qed.

Lemma pton4_run_length : forall s done cur saw octets a,
  pton4_run s done cur saw octets = Some a ->
  (if saw then S (length done) = octets else (length done = octets /\ (octets < 4)%nat)) ->
  (octets <= 4)%nat -> length a = 4%nat.
Proof.
  induction s as [|ch r IH]; intros done cur saw octets a H Hi Ho.
  - cbn [pton4_run] in H. destruct (Nat.ltb_spec octets 4) as [Hlt|Hge]; [discriminate|].
    inversion H; subst. rewrite app_length. cbn [length]. destruct saw; lia.
  - cbn [pton4_run] in H. destruct ((48 <=? ch) && (ch <=? 57)).
    + destruct (saw && (cur =? 0)); [discriminate|].
      destruct (255 <? cur * 10 + (ch - 48)); [discriminate|].
      destruct saw.
      * eapply IH; [exact H | exact Hi | exact Ho].
      * destruct (Nat.ltb_spec 4 (S octets)) as [Hlt|Hge]; [discriminate|].
        eapply IH; [exact H | cbn; lia | lia].
    + destruct ((ch =? 46) && saw) eqn:E; [|discriminate].
      apply andb_true_iff in E. destruct E as [_ ->].
      destruct (Nat.eqb_spec octets 4) as [->|Hne]; [discriminate|].
      eapply IH; [exact H | rewrite app_length; cbn [length]; lia | exact Ho].
Qed.

Lemma pton4_length s a : pton4 s = Some a -> length a = 4%nat.
Proof. intros H. eapply pton4_run_length; [exact H | cbn; lia | lia]. Qed.

