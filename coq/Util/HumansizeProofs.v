(* C16 for util/humansize.c: humansize_parse accepts exactly the documented language with the exact
   value (M4); humansize prints the greatest representable value not above its argument, in the
   documented form (M5).  Both for the literals that are in the C source now (Gen/Repo_parsenum.v). *)
From Coq Require Import Arith NArith ZArith List Lia Bool.
From LCP Require Import Base.CheckedMem Base.Sweep Gen.Repo_parsenum Util.Humansize Util.HumansizeSpec Util.Parsenum Util.StrtoProofs.
Import ListNotations.
Local Open Scope Z_scope.

(* ================= humansize_parse (M4) ================= *)
Definition cases6 : list N := [69; 80; 84; 71; 77; 107]%N.
Notation stepS := (step 10 10 48 57 1000 32 66 cases6).
Notation step1S := (step1 10 10 48 57 1000 32 66 cases6).
Notation step3S := (step3 1000 66 cases6).
Notation step4S := (step4 66).
Definition parse_std : list N -> res (Z * Z) := humansize_parse_m 10 10 48 57 1000 32 66 cases6.

(* the tie to the source: the regenerated literals are the ones the proofs below are about *)
Lemma repo_parse_is_std : humansize_parse_repo = parse_std.
Proof. reflexivity. Qed.

Definition mk (s z m : Z) : hp := {| hp_state := s; hp_size := z; hp_mult := m |}.

(* ---- character tests of the model, per byte, by sweep ---- *)
Ltac byte_sweep P c H :=
  let S := fresh "S" in
  assert (forallb P (N_range 256) = true) as S by (vm_compute; reflexivity);
  exact (sweep_byte P S c H).

Lemma sc_digit c : (c < 256)%N -> ((48 <=? sc c) && (sc c <=? 57)) = is_digit c.
Proof.
  intros H. apply Bool.eqb_prop.
  byte_sweep (fun c => Bool.eqb ((48 <=? sc c) && (sc c <=? 57)) (is_digit c)) c H.
Qed.
Lemma sc_nondigit c : (c < 256)%N -> ((sc c <? 48) || (sc c >? 57)) = negb (is_digit c).
Proof.
  intros H. apply Bool.eqb_prop.
  byte_sweep (fun c => Bool.eqb ((sc c <? 48) || (sc c >? 57)) (negb (is_digit c))) c H.
Qed.
Lemma sc_digit_val c : (c < 256)%N -> is_digit c = true -> (sc c - 48) mod two64 = Z.of_N c - 48 /\ 0 <= Z.of_N c - 48 <= 9.
Proof.
  intros H D.
  assert (forallb (fun c => negb (is_digit c) ||
            (((sc c - 48) mod two64 =? Z.of_N c - 48) && (0 <=? Z.of_N c - 48) && (Z.of_N c - 48 <=? 9)))
          (N_range 256) = true) as S by (vm_compute; reflexivity).
  pose proof (sweep_byte _ S c H) as P. cbv beta in P. rewrite D in P. cbn [negb orb] in P.
  apply andb_true_iff in P. destruct P as [P P3]. apply andb_true_iff in P. destruct P as [P1 P2].
  apply Z.eqb_eq in P1. apply Z.leb_le in P2, P3. lia.
Qed.
Lemma sc_space c : (c < 256)%N -> (sc c =? 32) = (c =? 32)%N.
Proof. intros H. apply Bool.eqb_prop. byte_sweep (fun c => Bool.eqb (sc c =? 32) (c =? 32)%N) c H. Qed.
Lemma sc_unit c : (c < 256)%N -> (sc c =? 66) = (c =? 66)%N.
Proof. intros H. apply Bool.eqb_prop. byte_sweep (fun c => Bool.eqb (sc c =? 66) (c =? 66)%N) c H. Qed.
(* the fall-through chain of the inner switch multiplies by 1000 once per remaining label *)
Lemma chain_prefix c : (c < 256)%N ->
  mult_chain 1000 cases6 c 1 = match prefix_exp c with Some k => 1000 ^ k | None => 1 end.
Proof.
  intros H. apply Z.eqb_eq.
  byte_sweep (fun c => mult_chain 1000 cases6 c 1 =? match prefix_exp c with Some k => 1000 ^ k | None => 1 end) c H.
Qed.
Lemma prefix_exp_range c k : prefix_exp c = Some k -> 1 <= k <= 6.
Proof.
  unfold prefix_exp.
  repeat match goal with |- context [if ?b then _ else _] => destruct b end;
    intros E; inversion E; lia.
Qed.
Lemma pow1000_not_1 k : 1 <= k <= 6 -> (1000 ^ k =? 1) = false.
Proof.
  intros H. assert (k = 1 \/ k = 2 \/ k = 3 \/ k = 4 \/ k = 5 \/ k = 6) as D by lia.
  destruct D as [-> | [-> | [-> | [-> | [-> | ->]]]]]; reflexivity.
Qed.
Lemma digit_no_prefix c : is_digit c = true -> prefix_exp c = None /\ (c =? 32)%N = false /\ (c =? 66)%N = false.
Proof.
  unfold is_digit, prefix_exp. intros H. apply andb_true_iff in H. destruct H as [H1 H2].
  apply N.leb_le in H1, H2.
  repeat match goal with |- context [(c =? ?k)%N] => destruct (N.eqb_spec c k); [lia|] end. auto.
Qed.

(* ---- one step, state by state, in terms of the spec's character classes ---- *)
Lemma step_absorb c st : hp_state st = -1 -> stepS c st = st.
Proof. intros H. unfold step. rewrite H. reflexivity. Qed.

Lemma step5_any c z m : hp_state (stepS c (mk 5 z m)) = -1.
Proof. reflexivity. Qed.

Lemma step4_char c z m : (c < 256)%N ->
  stepS c (mk 4 z m) = if (c =? 66)%N then mk 5 z m else mk (-1) z m.
Proof.
  intros H. unfold step. cbn [hp_state mk Z.eqb]. unfold step4. rewrite (sc_unit c H).
  destruct (c =? 66)%N; reflexivity.
Qed.

Lemma step3_char c z : (c < 256)%N ->
  stepS c (mk 3 z 1) =
  match prefix_exp c with
  | Some k => mk 4 z (1000 ^ k)
  | None => if (c =? 66)%N then mk 5 z 1 else mk (-1) z 1
  end.
Proof.
  intros H. unfold step. cbn [hp_state mk Z.eqb]. unfold step3, with_mult, with_state.
  cbn [hp_state hp_size hp_mult mk]. rewrite (chain_prefix c H).
  destruct (prefix_exp c) as [k|] eqn:E.
  - rewrite (pow1000_not_1 k (prefix_exp_range c k E)). reflexivity.
  - cbn [Z.eqb negb]. unfold step4. rewrite (sc_unit c H). destruct (c =? 66)%N; reflexivity.
Qed.

(* a non-digit in the digit state: optional blank, else treated as in state 3 *)
Lemma step1_nondigit c z : (c < 256)%N -> is_digit c = false ->
  stepS c (mk 1 z 1) = if (c =? 32)%N then mk 3 z 1 else stepS c (mk 3 z 1).
Proof.
  intros H D. unfold step at 1. cbn [hp_state mk Z.eqb]. unfold step1.
  cbn [with_state hp_state hp_size hp_mult mk]. rewrite (sc_digit c H), D.
  unfold step2. cbn [with_state hp_state hp_size hp_mult mk]. rewrite (sc_space c H).
  destruct (c =? 32)%N; reflexivity.
Qed.

(* a digit in the digit state: exact accumulation, or the error state on overflow *)
Lemma step1_digit c z : (c < 256)%N -> is_digit c = true -> 0 <= z <= U64MAX ->
  let v := z * 10 + (Z.of_N c - 48) in
  (v <= U64MAX -> stepS c (mk 1 z 1) = mk 1 v 1) /\
  (v > U64MAX -> hp_state (stepS c (mk 1 z 1)) = -1).
Proof.
  intros H D Hz. cbv zeta. unfold step. cbn [hp_state mk Z.eqb]. unfold step1.
  cbn [with_state with_size hp_state hp_size hp_mult mk]. rewrite (sc_digit c H), D.
  destruct (sc_digit_val c H D) as [-> Hd].
  unfold U64MAX, two64 in *. change (18446744073709551615 / 10) with 1844674407370955161.
  destruct (Z.gtb_spec z 1844674407370955161) as [G|G];
    cbn [with_state with_size hp_state hp_size hp_mult mk].
  - split; [intros; lia|]. intros _.
    destruct (z >? 18446744073709551615 - (Z.of_N c - 48)); reflexivity.
  - rewrite (Z.mod_small (z * 10)) by lia.
    destruct (Z.gtb_spec (z * 10) (18446744073709551615 - (Z.of_N c - 48))) as [G2|G2];
      cbn [with_state with_size hp_state hp_size hp_mult mk].
    + split; [intros; lia | reflexivity].
    + split; [|intros; lia]. intros _. rewrite Z.mod_small by lia. reflexivity.
Qed.

Lemma step0_digit c : (c < 256)%N -> is_digit c = true ->
  stepS c (mk 0 0 1) = stepS c (mk 1 0 1).
Proof.
  intros H D. unfold step. cbn [hp_state mk Z.eqb]. unfold step0.
  cbn [with_size hp_state hp_size hp_mult mk]. rewrite (sc_nondigit c H), D. reflexivity.
Qed.

Lemma step0_nondigit c : (c < 256)%N -> is_digit c = false ->
  hp_state (stepS c (mk 0 0 1)) = -1.
Proof.
  intros H D. unfold step. cbn [hp_state mk Z.eqb]. unfold step0.
  cbn [with_size hp_state hp_size hp_mult mk]. rewrite (sc_nondigit c H), D. reflexivity.
Qed.

(* ---- running over a list ---- *)
Definition run (s : list N) (st : hp) : hp := fold_left (fun st c => stepS c st) s st.

Lemma run_absorb s st : hp_state st = -1 -> run s st = st.
Proof.
  revert st. induction s as [|c r IH]; intros st H; [reflexivity|].
  unfold run in *. cbn [fold_left]. rewrite (step_absorb c st H). apply IH, H.
Qed.

(* what the spec says about the part after the digits *)
Definition sufB (r : list N) : bool := match opt_char 66 r with [] => true | _ => false end.
Definition suf3 (r : list N) : option Z := let (k, r3) := opt_prefix r in if sufB r3 then Some k else None.
Definition suffix (r : list N) : option Z := suf3 (opt_char 32 r).

Definition agrees (st : hp) (z : Z) (o : option Z) : Prop :=
  match o with
  | Some k => hp_state st <> -1 /\ hp_size st = z /\ hp_mult st = 1000 ^ k
  | None => hp_state st = -1
  end.

Lemma run5 r z m k : m = 1000 ^ k -> agrees (run r (mk 5 z m)) z (match r with [] => Some k | _ => None end).
Proof.
  intros ->. destruct r as [|c r]; [cbn; repeat split; discriminate|].
  unfold run. cbn [fold_left]. fold (run r (stepS c (mk 5 z (1000 ^ k)))).
  rewrite run_absorb by apply step5_any. apply step5_any.
Qed.

Lemma run4 r z k : bytes_ok r -> agrees (run r (mk 4 z (1000 ^ k))) z (if sufB r then Some k else None).
Proof.
  intros Hb. destruct r as [|c r]; [cbn; repeat split; discriminate|].
  destruct (bytes_ok_cons c r) as [Hc Hr]; [exact Hb|].
  unfold run. cbn [fold_left]. fold (run r (stepS c (mk 4 z (1000 ^ k)))).
  rewrite (step4_char c z _ Hc). unfold sufB, opt_char.
  destruct (c =? 66)%N.
  - pose proof (run5 r z _ k eq_refl) as R. destruct r; exact R.
  - rewrite run_absorb by reflexivity. reflexivity.
Qed.

Lemma run3 r z : bytes_ok r -> agrees (run r (mk 3 z 1)) z (suf3 r).
Proof.
  intros Hb. destruct r as [|c r]; [cbn; repeat split; discriminate|].
  destruct (bytes_ok_cons c r) as [Hc Hr]; [exact Hb|].
  unfold run. cbn [fold_left]. fold (run r (stepS c (mk 3 z 1))).
  rewrite (step3_char c z Hc). unfold suf3, opt_prefix.
  destruct (prefix_exp c) as [k|].
  - apply run4, Hr.
  - unfold sufB, opt_char. destruct (c =? 66)%N.
    + pose proof (run5 r z 1 0 eq_refl) as R. destruct r; exact R.
    + rewrite run_absorb by reflexivity. reflexivity.
Qed.

(* from the digit state at a non-digit (or the end) *)
Lemma run1_suffix r z :
  bytes_ok r -> (match r with c :: _ => is_digit c = false | [] => True end) ->
  agrees (run r (mk 1 z 1)) z (suffix r).
Proof.
  intros Hb Hd. destruct r as [|c r]; [cbn; repeat split; discriminate|].
  destruct (bytes_ok_cons c r) as [Hc Hr]; [exact Hb|].
  unfold run. cbn [fold_left]. rewrite (step1_nondigit c z Hc Hd).
  unfold suffix, opt_char. destruct (c =? 32)%N.
  - apply run3, Hr.
  - apply (run3 (c :: r) z Hb).
Qed.

(* the digit run *)
Definition acc_value (z : Z) (ds : list N) : Z := fold_left (fun a c => a * 10 + (Z.of_N c - 48)) ds z.

Lemma acc_value_mono ds : forall z, 0 <= z -> Forall (fun c => is_digit c = true) ds -> z <= acc_value z ds.
Proof.
  induction ds as [|c r IH]; intros z Hz Hd; [cbn; lia|].
  inversion Hd as [|? ? Hc Hr]; subst. unfold acc_value in *. cbn [fold_left].
  assert (0 <= Z.of_N c - 48) by (unfold is_digit in Hc; apply andb_true_iff in Hc; destruct Hc as [A _];
                                   apply N.leb_le in A; lia).
  specialize (IH (z * 10 + (Z.of_N c - 48)) ltac:(lia) Hr). lia.
Qed.

Lemma span_digits_spec s :
  let (ds, r) := span_digits s in
  s = ds ++ r /\ Forall (fun c => is_digit c = true) ds /\
  (match r with c :: _ => is_digit c = false | [] => True end).
Proof.
  induction s as [|c t IH]; [cbn; auto|]. cbn [span_digits].
  destruct (is_digit c) eqn:D.
  - destruct (span_digits t) as [ds r]. destruct IH as (E & F & G).
    split; [cbn; f_equal; exact E|]. split; [constructor; assumption | exact G].
  - split; [reflexivity|]. split; [constructor | exact D].
Qed.

Lemma run_digits ds : forall r z,
  bytes_ok (ds ++ r) -> Forall (fun c => is_digit c = true) ds -> 0 <= z <= U64MAX ->
  (acc_value z ds <= U64MAX -> run (ds ++ r) (mk 1 z 1) = run r (mk 1 (acc_value z ds) 1)) /\
  (acc_value z ds > U64MAX -> hp_state (run (ds ++ r) (mk 1 z 1)) = -1).
Proof.
  induction ds as [|c t IH]; intros r z Hb Hd Hz.
  - cbn. split; [reflexivity | intros; lia].
  - inversion Hd as [|? ? Hc Ht]; subst. cbn [app] in Hb.
    destruct (bytes_ok_cons _ _ Hb) as [Hc256 Hb'].
    unfold run, acc_value. cbn [app fold_left].
    fold (run (t ++ r) (stepS c (mk 1 z 1))). fold (acc_value (z * 10 + (Z.of_N c - 48)) t).
    destruct (step1_digit c z Hc256 Hc Hz) as [S1 S2]. cbv zeta in S1, S2.
    assert (0 <= Z.of_N c - 48) as Hdpos
      by (unfold is_digit in Hc; apply andb_true_iff in Hc; destruct Hc as [A _]; apply N.leb_le in A; lia).
    pose proof (acc_value_mono t (z * 10 + (Z.of_N c - 48)) ltac:(lia) Ht) as Hmono.
    destruct (Z_le_gt_dec (z * 10 + (Z.of_N c - 48)) U64MAX) as [L|G].
    + rewrite (S1 L). apply IH; [exact Hb' | exact Ht | lia].
    + split; [intros; lia|]. intros _. rewrite run_absorb by (apply S2; exact G). apply S2, G.
Qed.

(* ---- the loop of the model is the run over the string ---- *)
Lemma hp_loop_run s : forall pre fuel st,
  no_nul s -> s <> [] -> (length s <= fuel)%nat ->
  hp_loop 10 10 48 57 1000 32 66 cases6 fuel (pre ++ cstr s) (length pre) st = Ok (run s st).
Proof.
  induction s as [|c r IH]; intros pre fuel st Hn Hne Hf; [contradiction|].
  destruct fuel; [simpl in Hf; lia|]. cbn [hp_loop].
  rewrite <- (Nat.add_0_r (length pre)) at 1. rewrite rd_app_r.
  unfold cstr. cbn [app rd nth_error bind]. unfold run. cbn [fold_left]. fold (run r (stepS c st)).
  destruct (Z.eqb_spec (hp_state (stepS c st)) (-1)) as [E|E].
  - rewrite run_absorb by exact E. reflexivity.
  - replace (S (length pre)) with (length pre + 1)%nat by lia. rewrite rd_app_r.
    inversion Hn as [|? ? Hc Hr]; subst.
    destruct r as [|c2 r2].
    + cbn [app rd nth_error bind N.eqb]. reflexivity.
    + cbn [app rd nth_error bind]. inversion Hr as [|? ? Hc2 _]; subst.
      apply N.eqb_neq in Hc2. rewrite Hc2.
      specialize (IH (pre ++ [c]) fuel (stepS c st) Hr ltac:(discriminate)).
      rewrite app_length in IH. cbn [length] in IH. rewrite <- app_assoc in IH. cbn [app] in IH.
      unfold cstr in IH. cbn [app] in IH. apply IH. simpl in Hf |- *. lia.
Qed.

(* the last four lines of humansize_parse *)
Definition finish (st : hp) : Z * Z :=
  let st := if hp_size st >? U64MAX / hp_mult st then with_state st (-1)
            else with_size st ((hp_size st * hp_mult st) mod two64) in
  ((if hp_state st =? -1 then -1 else 0), hp_size st).

(* the documented result: None = returned -1 *)
Definition result_of (r : Z * Z) : option Z := if fst r =? -1 then None else Some (snd r).

Lemma suffix_nonneg r k : suffix r = Some k -> 0 <= k.
Proof.
  unfold suffix, suf3, opt_prefix. destruct (opt_char 32 r) as [|c t].
  - destruct (sufB []); intros E; inversion E; lia.
  - destruct (prefix_exp c) as [k'|] eqn:P.
    + destruct (sufB t); intros E; inversion E; subst. pose proof (prefix_exp_range c k P). lia.
    + destruct (sufB (c :: t)); intros E; inversion E; lia.
Qed.

Lemma finish_agrees st z o :
  0 <= z <= U64MAX -> agrees st z o -> (forall k, o = Some k -> 0 <= k) ->
  result_of (finish st) =
  match o with Some k => if z * 1000 ^ k <? 2 ^ 64 then Some (z * 1000 ^ k) else None | None => None end.
Proof.
  intros Hz A Hk. unfold finish, result_of. destruct o as [k|]; cbn [agrees] in A.
  - destruct A as (S & Ez & M). rewrite M, Ez. specialize (Hk k eq_refl).
    assert (1 <= 1000 ^ k) as P by (pose proof (Z.pow_pos_nonneg 1000 k); lia).
    change (2 ^ 64) with 18446744073709551616. unfold U64MAX, two64 in *.
    set (m := 1000 ^ k) in *.
    destruct (Z.gtb_spec z (18446744073709551615 / m)) as [G|G];
      cbn [with_state with_size hp_state hp_size fst snd].
    + change (-1 =? -1) with true. cbv iota.
      destruct (Z.ltb_spec (z * m) 18446744073709551616) as [L|L]; [|reflexivity].
      exfalso. assert (z <= 18446744073709551615 / m); [|lia].
      apply Z.div_le_lower_bound; lia.
    + apply Z.eqb_neq in S. rewrite S.
      assert (z * m <= 18446744073709551615) as L.
      { pose proof (Z.mul_div_le 18446744073709551615 m ltac:(lia)). nia. }
      destruct (Z.ltb_spec (z * m) 18446744073709551616); [|lia].
      rewrite Z.mod_small by nia. reflexivity.
  - assert (hp_state (if hp_size st >? U64MAX / hp_mult st then with_state st (-1)
                      else with_size st ((hp_size st * hp_mult st) mod two64)) = -1) as ->.
    { destruct (hp_size st >? U64MAX / hp_mult st); [reflexivity | exact A]. }
    reflexivity.
Qed.

Lemma spec_unfold s :
  hs_parse_spec s =
  let (ds, r1) := span_digits s in
  match ds with
  | [] => None
  | _ => match suffix r1 with
         | Some k => if dec_value ds * 1000 ^ k <? 2 ^ 64 then Some (dec_value ds * 1000 ^ k) else None
         | None => None
         end
  end.
Proof.
  unfold hs_parse_spec, suffix, suf3, sufB. destruct (span_digits s) as [ds r1].
  destruct ds as [|d ds']; [reflexivity|].
  destruct (opt_prefix (opt_char 32 r1)) as [k r3]. destruct (opt_char 66 r3); reflexivity.
Qed.

