(* C16 for util/humansize.c: humansize_parse accepts exactly the documented language with the exact
   value (M4); humansize prints the greatest representable value not above its argument, in the
   documented form (M5).  Both for the literals that are in the C source now (Gen/Repo_parsenum.v). *)
From Coq Require Import Arith NArith ZArith List Lia Bool.
From LCP Require Import Base.CheckedMem Base.Sweep Gen.Repo_parsenum Util.Humansize Util.HumansizeSpec Util.Parsenum Util.StrtoProofs.
Import ListNotations.
Local Open Scope Z_scope.

(* ================= humansize_parse (M4) ================= *)
Definition cases6 : list N := [69; 80; 84; 71; 77; 107]%N.
Notation stepS := (step 10 10 48 57 1000 32 66 cases6).
Notation step1S := (step1 10 10 48 57 1000 32 66 cases6).
Notation step3S := (step3 1000 66 cases6).
Notation step4S := (step4 66).
Definition parse_std : list N -> res (Z * Z) := humansize_parse_m 10 10 48 57 1000 32 66 cases6.

(* the tie to the source: the regenerated literals are the ones the proofs below are about *)
Lemma repo_parse_is_std : humansize_parse_repo = parse_std.
Proof. reflexivity. Qed.

Definition mk (s z m : Z) : hp := {| hp_state := s; hp_size := z; hp_mult := m |}.

(* ---- character tests of the model, per byte, by sweep ---- *)
Ltac byte_sweep P c H :=
  let S := fresh "S" in
  assert (forallb P (N_range 256) = true) as S by (vm_compute; reflexivity);
  exact (sweep_byte P S c H).

Lemma sc_digit c : (c < 256)%N -> ((48 <=? sc c) && (sc c <=? 57)) = is_digit c.
Proof.
  intros H. apply Bool.eqb_prop.
  byte_sweep (fun c => Bool.eqb ((48 <=? sc c) && (sc c <=? 57)) (is_digit c)) c H.
Qed.
Lemma sc_nondigit c : (c < 256)%N -> ((sc c <? 48) || (sc c >? 57)) = negb (is_digit c).
Proof.
  intros H. apply Bool.eqb_prop.
  byte_sweep (fun c => Bool.eqb ((sc c <? 48) || (sc c >? 57)) (negb (is_digit c))) c H.
Qed.
Lemma sc_digit_val c : (c < 256)%N -> is_digit c = true -> (sc c - 48) mod two64 = Z.of_N c - 48 /\ 0 <= Z.of_N c - 48 <= 9.
Proof.
  intros H D.
  assert (forallb (fun c => negb (is_digit c) ||
            (((sc c - 48) mod two64 =? Z.of_N c - 48) && (0 <=? Z.of_N c - 48) && (Z.of_N c - 48 <=? 9)))
          (N_range 256) = true) as S by (vm_compute; reflexivity).
  pose proof (sweep_byte _ S c H) as P. cbv beta in P. rewrite D in P. cbn [negb orb] in P.
  apply andb_true_iff in P. destruct P as [P P3]. apply andb_true_iff in P. destruct P as [P1 P2].
  apply Z.eqb_eq in P1. apply Z.leb_le in P2, P3. lia.
Qed.
Lemma sc_space c : (c < 256)%N -> (sc c =? 32) = (c =? 32)%N.
Proof. intros H. apply Bool.eqb_prop. byte_sweep (fun c => Bool.eqb (sc c =? 32) (c =? 32)%N) c H. Qed.
Lemma sc_unit c : (c < 256)%N -> (sc c =? 66) = (c =? 66)%N.
Proof. intros H. apply Bool.eqb_prop. byte_sweep (fun c => Bool.eqb (sc c =? 66) (c =? 66)%N) c H. Qed.
(* the fall-through chain of the inner switch multiplies by 1000 once per remaining label *)
Lemma chain_prefix c : (c < 256)%N ->
  mult_chain 1000 cases6 c 1 = match prefix_exp c with Some k => 1000 ^ k | None => 1 end.
Proof.
  intros H. apply Z.eqb_eq.
  byte_sweep (fun c => mult_chain 1000 cases6 c 1 =? match prefix_exp c with Some k => 1000 ^ k | None => 1 end) c H.
Qed.
Lemma prefix_exp_range c k : prefix_exp c = Some k -> 1 <= k <= 6.
Proof.
  unfold prefix_exp.
  repeat match goal with |- context [if ?b then _ else _] => destruct b end;
    intros E; inversion E; lia.
Qed.
Lemma pow1000_not_1 k : 1 <= k <= 6 -> (1000 ^ k =? 1) = false.
Proof.
  intros H. assert (k = 1 \/ k = 2 \/ k = 3 \/ k = 4 \/ k = 5 \/ k = 6) as D by lia.
  destruct D as [-> | [-> | [-> | [-> | [-> | ->]]]]]; reflexivity.
Qed.
Lemma digit_no_prefix c : is_digit c = true -> prefix_exp c = None /\ (c =? 32)%N = false /\ (c =? 66)%N = false.
Proof.
  unfold is_digit, prefix_exp. intros H. apply andb_true_iff in H. destruct H as [H1 H2].
  apply N.leb_le in H1, H2.
  repeat match goal with |- context [(c =? ?k)%N] => destruct (N.eqb_spec c k); [lia|] end. auto.
Qed.

(* ---- one step, state by state, in terms of the spec's character classes ---- *)
Lemma step_absorb c st : hp_state st = -1 -> stepS c st = st.
Proof. intros H. unfold step. rewrite H. reflexivity. Qed.

Lemma step5_any c z m : hp_state (stepS c (mk 5 z m)) = -1.
Proof. reflexivity. Qed.

Lemma step4_char c z m : (c < 256)%N ->
  stepS c (mk 4 z m) = if (c =? 66)%N then mk 5 z m else mk (-1) z m.
Proof.
  intros H. unfold step. cbn [hp_state mk Z.eqb]. unfold step4. rewrite (sc_unit c H).
  destruct (c =? 66)%N; reflexivity.
Qed.

Lemma step3_char c z : (c < 256)%N ->
  stepS c (mk 3 z 1) =
  match prefix_exp c with
  | Some k => mk 4 z (1000 ^ k)
  | None => if (c =? 66)%N then mk 5 z 1 else mk (-1) z 1
  end.
Proof.
  intros H. unfold step. cbn [hp_state mk Z.eqb]. unfold step3, with_mult, with_state.
  cbn [hp_state hp_size hp_mult mk]. rewrite (chain_prefix c H).
  destruct (prefix_exp c) as [k|] eqn:E.
  - rewrite (pow1000_not_1 k (prefix_exp_range c k E)). reflexivity.
  - cbn [Z.eqb negb]. unfold step4. rewrite (sc_unit c H). destruct (c =? 66)%N; reflexivity.
Qed.

(* a non-digit in the digit state: optional blank, else treated as in state 3 *)
Lemma step1_nondigit c z : (c < 256)%N -> is_digit c = false ->
  stepS c (mk 1 z 1) = if (c =? 32)%N then mk 3 z 1 else stepS c (mk 3 z 1).
Proof.
  intros H D. unfold step at 1. cbn [hp_state mk Z.eqb]. unfold step1.
  cbn [with_state hp_state hp_size hp_mult mk]. rewrite (sc_digit c H), D.
  unfold step2. cbn [with_state hp_state hp_size hp_mult mk]. rewrite (sc_space c H).
  destruct (c =? 32)%N; reflexivity.
Qed.

(* a digit in the digit state: exact accumulation, or the error state on overflow *)
Lemma step1_digit c z : (c < 256)%N -> is_digit c = true -> 0 <= z <= U64MAX ->
  let v := z * 10 + (Z.of_N c - 48) in
  (v <= U64MAX -> stepS c (mk 1 z 1) = mk 1 v 1) /\
  (v > U64MAX -> hp_state (stepS c (mk 1 z 1)) = -1).
Proof.
  intros H D Hz. cbv zeta. unfold step. cbn [hp_state mk Z.eqb]. unfold step1.
  cbn [with_state with_size hp_state hp_size hp_mult mk]. rewrite (sc_digit c H), D.
  destruct (sc_digit_val c H D) as [-> Hd].
  unfold U64MAX, two64 in *. change (18446744073709551615 / 10) with 1844674407370955161.
  destruct (Z.gtb_spec z 1844674407370955161) as [G|G];
    cbn [with_state with_size hp_state hp_size hp_mult mk].
  - split; [intros; lia|]. intros _.
    destruct (z >? 18446744073709551615 - (Z.of_N c - 48)); reflexivity.
  - rewrite (Z.mod_small (z * 10)) by lia.
    destruct (Z.gtb_spec (z * 10) (18446744073709551615 - (Z.of_N c - 48))) as [G2|G2];
      cbn [with_state with_size hp_state hp_size hp_mult mk].
    + split; [intros; lia | reflexivity].
    + split; [|intros; lia]. intros _. rewrite Z.mod_small by lia. reflexivity.
Qed.

Lemma step0_digit c : (c < 256)%N -> is_digit c = true ->
  stepS c (mk 0 0 1) = stepS c (mk 1 0 1).
Proof.
  intros H D. unfold step. cbn [hp_state mk Z.eqb]. unfold step0.
  cbn [with_size hp_state hp_size hp_mult mk]. rewrite (sc_nondigit c H), D. reflexivity.
Qed.

Lemma step0_nondigit c : (c < 256)%N -> is_digit c = false ->
  hp_state (stepS c (mk 0 0 1)) = -1.
Proof.
  intros H D. unfold step. cbn [hp_state mk Z.eqb]. unfold step0.
  cbn [with_size hp_state hp_size hp_mult mk]. rewrite (sc_nondigit c H), D. reflexivity.
Qed.

(* ---- running over a list ---- *)
Definition run (s : list N) (st : hp) : hp := fold_left (fun st c => stepS c st) s st.

Lemma run_absorb s st : hp_state st = -1 -> run s st = st.
Proof.
  revert st. induction s as [|c r IH]; intros st H; [reflexivity|].
  unfold run in *. cbn [fold_left]. rewrite (step_absorb c st H). apply IH, H.
Qed.

(* what the spec says about the part after the digits *)
Definition sufB (r : list N) : bool := match opt_char 66 r with [] => true | _ => false end.
Definition suf3 (r : list N) : option Z := let (k, r3) := opt_prefix r in if sufB r3 then Some k else None.
Definition suffix (r : list N) : option Z := suf3 (opt_char 32 r).

Definition agrees (st : hp) (z : Z) (o : option Z) : Prop :=
  match o with
  | Some k => hp_state st <> -1 /\ hp_size st = z /\ hp_mult st = 1000 ^ k
  | None => hp_state st = -1
  end.

Lemma run5 r z m k : m = 1000 ^ k -> agrees (run r (mk 5 z m)) z (match r with [] => Some k | _ => None end).
Proof.
  intros ->. destruct r as [|c r]; [cbn; repeat split; discriminate|].
  unfold run. cbn [fold_left]. fold (run r (stepS c (mk 5 z (1000 ^ k)))).
  rewrite run_absorb by apply step5_any. apply step5_any.
Qed.

Lemma run4 r z k : bytes_ok r -> agrees (run r (mk 4 z (1000 ^ k))) z (if sufB r then Some k else None).
Proof.
  intros Hb. destruct r as [|c r]; [cbn; repeat split; discriminate|].
  destruct (bytes_ok_cons c r) as [Hc Hr]; [exact Hb|].
  unfold run. cbn [fold_left]. fold (run r (stepS c (mk 4 z (1000 ^ k)))).
  rewrite (step4_char c z _ Hc). unfold sufB, opt_char.
  destruct (c =? 66)%N.
  - pose proof (run5 r z _ k eq_refl) as R. destruct r; exact R.
  - rewrite run_absorb by reflexivity. reflexivity.
Qed.

Lemma run3 r z : bytes_ok r -> agrees (run r (mk 3 z 1)) z (suf3 r).
Proof.
  intros Hb. destruct r as [|c r]; [cbn; repeat split; discriminate|].
  destruct (bytes_ok_cons c r) as [Hc Hr]; [exact Hb|].
  unfold run. cbn [fold_left]. fold (run r (stepS c (mk 3 z 1))).
  rewrite (step3_char c z Hc). unfold suf3, opt_prefix.
  destruct (prefix_exp c) as [k|].
  - apply run4, Hr.
  - unfold sufB, opt_char. destruct (c =? 66)%N.
    + pose proof (run5 r z 1 0 eq_refl) as R. destruct r; exact R.
    + rewrite run_absorb by reflexivity. reflexivity.
Qed.

(* from the digit state at a non-digit (or the end) *)
Lemma run1_suffix r z :
  bytes_ok r -> (match r with c :: _ => is_digit c = false | [] => True end) ->
  agrees (run r (mk 1 z 1)) z (suffix r).
Proof.
  intros Hb Hd. destruct r as [|c r]; [cbn; repeat split; discriminate|].
  destruct (bytes_ok_cons c r) as [Hc Hr]; [exact Hb|].
  unfold run. cbn [fold_left]. rewrite (step1_nondigit c z Hc Hd).
  unfold suffix, opt_char. destruct (c =? 32)%N.
  - apply run3, Hr.
  - apply (run3 (c :: r) z Hb).
Qed.

(* the digit run *)
Definition acc_value (z : Z) (ds : list N) : Z := fold_left (fun a c => a * 10 + (Z.of_N c - 48)) ds z.

Lemma acc_value_mono ds : forall z, 0 <= z -> Forall (fun c => is_digit c = true) ds -> z <= acc_value z ds.
Proof.
  induction ds as [|c r IH]; intros z Hz Hd; [cbn; lia|].
  inversion Hd as [|? ? Hc Hr]; subst. unfold acc_value in *. cbn [fold_left].
  assert (0 <= Z.of_N c - 48) by (unfold is_digit in Hc; apply andb_true_iff in Hc; destruct Hc as [A _];
                                   apply N.leb_le in A; lia).
  specialize (IH (z * 10 + (Z.of_N c - 48)) ltac:(lia) Hr). lia.
Qed.

Lemma span_digits_spec s :
  let (ds, r) := span_digits s in
  s = ds ++ r /\ Forall (fun c => is_digit c = true) ds /\
  (match r with c :: _ => is_digit c = false | [] => True end).
Proof.
  induction s as [|c t IH]; [cbn; auto|]. cbn [span_digits].
  destruct (is_digit c) eqn:D.
  - destruct (span_digits t) as [ds r]. destruct IH as (E & F & G).
    split; [cbn; f_equal; exact E|]. split; [constructor; assumption | exact G].
  - split; [reflexivity|]. split; [constructor | exact D].
Qed.

Lemma run_digits ds : forall r z,
  bytes_ok (ds ++ r) -> Forall (fun c => is_digit c = true) ds -> 0 <= z <= U64MAX ->
  (acc_value z ds <= U64MAX -> run (ds ++ r) (mk 1 z 1) = run r (mk 1 (acc_value z ds) 1)) /\
  (acc_value z ds > U64MAX -> hp_state (run (ds ++ r) (mk 1 z 1)) = -1).
Proof.
  induction ds as [|c t IH]; intros r z Hb Hd Hz.
  - cbn. split; [reflexivity | intros; lia].
  - inversion Hd as [|? ? Hc Ht]; subst. cbn [app] in Hb.
    destruct (bytes_ok_cons _ _ Hb) as [Hc256 Hb'].
    unfold run, acc_value. cbn [app fold_left].
    fold (run (t ++ r) (stepS c (mk 1 z 1))). fold (acc_value (z * 10 + (Z.of_N c - 48)) t).
    destruct (step1_digit c z Hc256 Hc Hz) as [S1 S2]. cbv zeta in S1, S2.
    assert (0 <= Z.of_N c - 48) as Hdpos
      by (unfold is_digit in Hc; apply andb_true_iff in Hc; destruct Hc as [A _]; apply N.leb_le in A; lia).
    pose proof (acc_value_mono t (z * 10 + (Z.of_N c - 48)) ltac:(lia) Ht) as Hmono.
    destruct (Z_le_gt_dec (z * 10 + (Z.of_N c - 48)) U64MAX) as [L|G].
    + rewrite (S1 L). apply IH; [exact Hb' | exact Ht | lia].
    + split; [intros; lia|]. intros _. rewrite run_absorb by (apply S2; exact G). apply S2, G.
Qed.

(* ---- the loop of the model is the run over the string ---- *)
Lemma hp_loop_run s : forall pre fuel st,
  no_nul s -> s <> [] -> (length s <= fuel)%nat ->
  hp_loop 10 10 48 57 1000 32 66 cases6 fuel (pre ++ cstr s) (length pre) st = Ok (run s st).
Proof.
  induction s as [|c r IH]; intros pre fuel st Hn Hne Hf; [contradiction|].
  destruct fuel; [simpl in Hf; lia|]. cbn [hp_loop].
  rewrite <- (Nat.add_0_r (length pre)) at 1. rewrite rd_app_r.
  unfold cstr. cbn [app rd nth_error bind]. unfold run. cbn [fold_left]. fold (run r (stepS c st)).
  destruct (Z.eqb_spec (hp_state (stepS c st)) (-1)) as [E|E].
  - rewrite run_absorb by exact E. reflexivity.
  - replace (S (length pre)) with (length pre + 1)%nat by lia. rewrite rd_app_r.
    inversion Hn as [|? ? Hc Hr]; subst.
    destruct r as [|c2 r2].
    + cbn [app rd nth_error bind N.eqb]. reflexivity.
    + cbn [app rd nth_error bind]. inversion Hr as [|? ? Hc2 _]; subst.
      apply N.eqb_neq in Hc2. rewrite Hc2.
      specialize (IH (pre ++ [c]) fuel (stepS c st) Hr ltac:(discriminate)).
      rewrite app_length in IH. cbn [length] in IH. rewrite <- app_assoc in IH. cbn [app] in IH.
      unfold cstr in IH. cbn [app] in IH. apply IH. simpl in Hf |- *. lia.
Qed.

(* the last four lines of humansize_parse *)
Definition finish (st : hp) : Z * Z :=
  let st := if hp_size st >? U64MAX / hp_mult st then with_state st (-1)
            else with_size st ((hp_size st * hp_mult st) mod two64) in
  ((if hp_state st =? -1 then -1 else 0), hp_size st).

(* the documented result: None = returned -1 *)
Definition result_of (r : Z * Z) : option Z := if fst r =? -1 then None else Some (snd r).

Lemma suffix_nonneg r k : suffix r = Some k -> 0 <= k.
Proof.
  unfold suffix, suf3, opt_prefix. destruct (opt_char 32 r) as [|c t].
  - destruct (sufB []); intros E; inversion E; lia.
  - destruct (prefix_exp c) as [k'|] eqn:P.
    + destruct (sufB t); intros E; inversion E; subst. pose proof (prefix_exp_range c k P). lia.
    + destruct (sufB (c :: t)); intros E; inversion E; lia.
Qed.

Lemma finish_agrees st z o :
  0 <= z <= U64MAX -> agrees st z o -> (forall k, o = Some k -> 0 <= k) ->
  result_of (finish st) =
  match o with Some k => if z * 1000 ^ k <? 2 ^ 64 then Some (z * 1000 ^ k) else None | None => None end.
Proof.
  intros Hz A Hk. unfold finish, result_of. destruct o as [k|]; cbn [agrees] in A.
  - destruct A as (S & Ez & M). rewrite M, Ez. specialize (Hk k eq_refl).
    assert (1 <= 1000 ^ k) as P by (pose proof (Z.pow_pos_nonneg 1000 k); lia).
    change (2 ^ 64) with 18446744073709551616. unfold U64MAX, two64 in *.
    set (m := 1000 ^ k) in *.
    destruct (Z.gtb_spec z (18446744073709551615 / m)) as [G|G];
      cbn [with_state with_size hp_state hp_size fst snd].
    + change (-1 =? -1) with true. cbv iota.
      destruct (Z.ltb_spec (z * m) 18446744073709551616) as [L|L]; [|reflexivity].
      exfalso. assert (z <= 18446744073709551615 / m); [|lia].
      apply Z.div_le_lower_bound; lia.
    + apply Z.eqb_neq in S. rewrite S.
      assert (z * m <= 18446744073709551615) as L.
      { pose proof (Z.mul_div_le 18446744073709551615 m ltac:(lia)). nia. }
      destruct (Z.ltb_spec (z * m) 18446744073709551616); [|lia].
      rewrite Z.mod_small by nia. reflexivity.
  - assert (hp_state (if hp_size st >? U64MAX / hp_mult st then with_state st (-1)
                      else with_size st ((hp_size st * hp_mult st) mod two64)) = -1) as ->.
    { destruct (hp_size st >? U64MAX / hp_mult st); [reflexivity | exact A]. }
    reflexivity.
Qed.

Lemma spec_unfold s :
  hs_parse_spec s =
  let (ds, r1) := span_digits s in
  match ds with
  | [] => None
  | _ => match suffix r1 with
         | Some k => if dec_value ds * 1000 ^ k <? 2 ^ 64 then Some (dec_value ds * 1000 ^ k) else None
         | None => None
         end
  end.
Proof.
  unfold hs_parse_spec, suffix, suf3, sufB. destruct (span_digits s) as [ds r1].
  destruct ds as [|d ds']; [reflexivity|].
  destruct (opt_prefix (opt_char 32 r1)) as [k r3]. destruct (opt_char 66 r3); reflexivity.
Qed.

(* M4 *)
Theorem humansize_parse_exact_proof s :
  bytes_ok s -> no_nul s ->
  map_res result_of (humansize_parse_repo (cstr s)) = Ok (hs_parse_spec s).
Proof.
  intros Hb Hn. rewrite repo_parse_is_std. unfold parse_std, humansize_parse_m.
  destruct s as [|c0 s0] eqn:Es; [vm_compute; reflexivity|]. rewrite <- Es in *.
  assert (s <> []) as Hne by (rewrite Es; discriminate).
  pose proof (hp_loop_run s [] (S (length (cstr s))) (mk 0 0 1) Hn Hne) as Hl.
  cbn [app length] in Hl. unfold mk in Hl. rewrite Hl by (unfold cstr; rewrite app_length; simpl; lia).
  clear Hl. cbn [bind map_res]. f_equal.
  fold (mk 0 0 1). fold (finish (run s (mk 0 0 1))).
  rewrite spec_unfold. pose proof (span_digits_spec s) as Hsp.
  destruct (span_digits s) as [ds r1]. destruct Hsp as (Esplit & Hds & Hr1).
  assert (0 <= 0 <= U64MAX) as Hz0 by (unfold U64MAX; lia).
  destruct ds as [|d ds'].
  - (* no leading digit *)
    cbn [app] in Esplit. subst r1. rewrite Es in Hr1, Hb. rewrite Es.
    destruct (bytes_ok_cons _ _ Hb) as [Hc _].
    rewrite (finish_agrees _ 0 None Hz0); [reflexivity | | discriminate].
    cbn [agrees]. unfold run. cbn [fold_left]. fold (run s0 (stepS c0 (mk 0 0 1))).
    rewrite run_absorb by (apply step0_nondigit; assumption). apply step0_nondigit; assumption.
  - pose proof (Forall_inv Hds) as Hd. cbv beta in Hd.
    assert (bytes_ok ((d :: ds') ++ r1)) as Hb' by (rewrite <- Esplit; exact Hb).
    destruct (bytes_ok_cons d (ds' ++ r1)) as [Hd256 _]; [exact Hb'|].
    assert (run s (mk 0 0 1) = run ((d :: ds') ++ r1) (mk 1 0 1)) as ->.
    { rewrite Esplit. unfold run. cbn [app fold_left]. rewrite (step0_digit d Hd256 Hd). reflexivity. }
    destruct (run_digits (d :: ds') r1 0 Hb' Hds Hz0) as [R1 R2].
    change (acc_value 0 (d :: ds')) with (dec_value (d :: ds')) in R1, R2.
    assert (0 <= dec_value (d :: ds')) as Hpos by (apply (acc_value_mono (d :: ds') 0); [lia | exact Hds]).
    destruct (Z_le_gt_dec (dec_value (d :: ds')) U64MAX) as [L|G].
    + rewrite (R1 L).
      destruct (bytes_ok_app _ _ Hb') as [_ Hbr].
      rewrite (finish_agrees _ (dec_value (d :: ds')) (suffix r1)); [reflexivity | lia | | apply suffix_nonneg].
      apply run1_suffix; assumption.
    + rewrite (finish_agrees _ 0 None Hz0); [| exact (R2 G) | discriminate].
      destruct (suffix r1) as [k|] eqn:Ek; [|reflexivity].
      pose proof (suffix_nonneg r1 k Ek) as Hk. pose proof (Z.pow_pos_nonneg 1000 k ltac:(lia) Hk) as Hp.
      change (2 ^ 64) with 18446744073709551616. unfold U64MAX in G.
      destruct (Z.ltb_spec (dec_value (d :: ds') * 1000 ^ k) 18446744073709551616); [nia | reflexivity].
Qed.

Lemma hs_parse_spec_range s v : hs_parse_spec s = Some v -> 0 <= v < 2 ^ 64.
Proof.
  rewrite spec_unfold. pose proof (span_digits_spec s) as Hsp.
  destruct (span_digits s) as [ds r1]. destruct Hsp as (_ & Hds & _).
  destruct ds as [|d ds']; [discriminate|].
  destruct (suffix r1) as [k|] eqn:Ek; [|discriminate].
  destruct (Z.ltb_spec (dec_value (d :: ds') * 1000 ^ k) (2 ^ 64)) as [L|L]; [|discriminate].
  intros E. inversion E; subst v. split; [|exact L].
  pose proof (acc_value_mono (d :: ds') 0 ltac:(lia) Hds) as Hpos.
  change (acc_value 0 (d :: ds')) with (dec_value (d :: ds')) in Hpos.
  pose proof (Z.pow_pos_nonneg 1000 k ltac:(lia) (suffix_nonneg r1 k Ek)). nia.
Qed.

(* C15: humansize_parse reads only the bytes of its string (the result is an Ok: no read outside the
   terminated string), returns 0 or -1, and the size it reports on success is a 64-bit value *)
Theorem humansize_parse_safe_proof s :
  bytes_ok s -> no_nul s ->
  exists rc size, humansize_parse_repo (cstr s) = Ok (rc, size) /\ (rc = 0 \/ rc = -1) /\
                  (rc = 0 -> 0 <= size < 2 ^ 64).
Proof.
  intros Hb Hn. pose proof (humansize_parse_exact_proof s Hb Hn) as E.
  destruct (humansize_parse_repo (cstr s)) as [[rc size]| | |] eqn:R; try discriminate.
  exists rc, size. split; [reflexivity|].
  assert (rc = 0 \/ rc = -1) as Hrc.
  { rewrite repo_parse_is_std in R. unfold parse_std, humansize_parse_m in R.
    destruct (hp_loop 10 10 48 57 1000 32 66 cases6 (S (length (cstr s))) (cstr s) 0
                      {| hp_state := 0; hp_size := 0; hp_mult := 1 |}); try discriminate.
    cbn [bind] in R. inversion R.
    match goal with |- (if ?b then _ else _) = 0 \/ _ => destruct b end; auto. }
  split; [exact Hrc|]. intros H0. subst rc. cbn [map_res] in E. inversion E as [E'].
  unfold result_of in E'. cbn [fst snd] in E'. change (0 =? -1) with false in E'. cbv iota in E'.
  symmetry in E'. exact (hs_parse_spec_range s size E').
Qed.

(* non-vacuity *)
Example parse_examples :
  bytes_ok [49; 50; 32; 107; 66]%N /\ no_nul [49; 50; 32; 107; 66]%N /\
  humansize_parse_repo (cstr [49; 50; 32; 107; 66]%N) = Ok (0, 12000) /\                (* "12 kB" *)
  humansize_parse_repo (cstr [49; 50; 32; 32; 66]%N) = Ok (-1, 12) /\                    (* "12  B" *)
  fst (match humansize_parse_repo (cstr [49; 57; 32; 69]%N) with Ok r => r | _ => (0, 0) end) = -1. (* "19 E" *)
Proof.
  unfold bytes_ok, no_nul, is_byte.
  repeat split; try (vm_compute; reflexivity); repeat constructor; try lia; discriminate.
Qed.

(* ================= humansize (M5) ================= *)
Definition prefixes_std : list N := [32; 107; 77; 71; 84; 80; 69; 0]%N.
Definition fmt_small_std : list N := [37; 100; 32; 66]%N.                              (* "%d B" *)
Definition fmt_frac_std : list N := [37; 100; 46; 37; 100; 32; 37; 99; 66]%N.          (* "%d.%d %cB" *)
Definition fmt_int_std : list N := [37; 100; 32; 37; 99; 66]%N.                        (* "%d %cB" *)
Definition format_std : Z -> res (list N) :=
  humansize_m 1000 100 1 10000 1000 100 10 10 10 prefixes_std fmt_small_std fmt_frac_std fmt_int_std.

Lemma repo_format_is_std : humansize_repo = format_std.
Proof. reflexivity. Qed.

(* ---- the printf fragment on the three format strings ---- *)
Lemma fmt_small_run z : fmt_run fmt_small_std [AInt z] = Ok (print_d z ++ [32; 66]%N).
Proof. unfold fmt_small_std. cbn [fmt_run bind N.eqb Pos.eqb]. rewrite app_nil_r || idtac. reflexivity. Qed.

Lemma fmt_frac_run a b c :
  fmt_run fmt_frac_std [AInt a; AInt b; AChar c] = Ok (print_d a ++ 46%N :: print_d b ++ [32%N; c; 66%N]).
Proof. unfold fmt_frac_std. cbn [fmt_run bind N.eqb Pos.eqb]. reflexivity. Qed.

Lemma fmt_int_run a c :
  fmt_run fmt_int_std [AInt a; AChar c] = Ok (print_d a ++ [32%N; c; 66%N]).
Proof. unfold fmt_int_std. cbn [fmt_run bind N.eqb Pos.eqb]. reflexivity. Qed.

(* %d on the numbers that are printed (all below 1000) is the plain decimal rendering *)
Definition listN_eqb (a b : list N) : bool := if list_eq_dec N.eq_dec a b then true else false.
Lemma print_d_small v : 0 <= v < 1000 -> print_d v = dec3 v.
Proof.
  intros H.
  assert (forallb (fun x => listN_eqb (print_d (Z.of_N x)) (dec3 (Z.of_N x))) (N_range 1000) = true) as S
      by (vm_compute; reflexivity).
  pose proof (sweep_N _ 1000 S (Z.to_N v) ltac:(lia)) as P. cbv beta in P.
  rewrite Z2N.id in P by lia. unfold listN_eqb in P.
  destruct (list_eq_dec N.eq_dec (print_d v) (dec3 v)); [assumption|discriminate].
Qed.
Lemma dec3_digit v : 0 <= v <= 9 -> dec3 v = [dchar v].
Proof. intros H. unfold dec3. destruct (Z.ltb_spec v 10); [reflexivity|lia]. Qed.

Lemma to_int_small v : 0 <= v < 2147483648 -> to_int v = v.
Proof. intros H. unfold to_int. Z.div_mod_to_equations. lia. Qed.

(* ---- the /1000 loop ---- *)
Lemma hs_loop_spec fuel : forall size cnt,
  0 <= size < 10000 * 1000 ^ (Z.of_nat fuel - 1) ->
  exists j, 0 <= j /\
    hs_loop 10000 1000 fuel size cnt = Ok (size / 1000 ^ j, cnt + j) /\
    size / 1000 ^ j < 10000 /\ (0 < j -> 10 <= size / 1000 ^ j).
Proof.
  induction fuel as [|f IH]; intros size cnt H.
  - change (10000 * 1000 ^ (Z.of_nat 0 - 1)) with 0 in H. lia.
  - cbn [hs_loop]. destruct (Z.geb_spec size 10000) as [G|G].
    + assert (0 <= size / 1000 < 10000 * 1000 ^ (Z.of_nat f - 1)) as H'.
      { replace (Z.of_nat (S f) - 1) with (Z.of_nat f) in H by lia.
        destruct f as [|f']; [simpl in H; lia|].
        replace (Z.of_nat (S f')) with (Z.succ (Z.of_nat (S f') - 1)) in H by lia.
        rewrite Z.pow_succ_r in H by lia.
        split; [apply Z.div_pos; lia|]. apply Z.div_lt_upper_bound; lia. }
      destruct (IH (size / 1000) (cnt + 1) H') as (j & Hj & E & B1 & B2).
      exists (j + 1).
      assert (size / 1000 / 1000 ^ j = size / 1000 ^ (j + 1)) as D.
      { rewrite Z.div_div by (try lia; apply Z.pow_pos_nonneg; lia).
        rewrite Z.pow_add_r by lia. rewrite (Z.mul_comm (1000 ^ j)). reflexivity. }
      rewrite D in *. split; [lia|]. split; [rewrite E; f_equal; f_equal; lia|]. split; [exact B1|].
      intros _. destruct (Z.eq_dec j 0) as [->|Hnz]; [|apply B2; lia].
      change (1000 ^ (0 + 1)) with 1000. apply Z.div_le_lower_bound; lia.
    + exists 0. change (1000 ^ 0) with 1. rewrite Z.div_1_r, Z.add_0_r.
      split; [lia|]. split; [reflexivity|]. split; [lia|]. intros; lia.
Qed.

Ltac pow_norm :=
  repeat match goal with
         | |- context [1000 ^ ?k] =>
           let v := eval vm_compute in (1000 ^ k) in change (1000 ^ k) with v
         | H : context [1000 ^ ?k] |- _ =>
           let v := eval vm_compute in (1000 ^ k) in change (1000 ^ k) with v in H
         end.

(* the prefix character for a known shift count *)
Ltac prefix_norm :=
  match goal with
  | |- context [rd prefixes_std (Z.to_nat ?k)] =>
    let v := eval vm_compute in (rd prefixes_std (Z.to_nat k)) in
    change (rd prefixes_std (Z.to_nat k)) with v;
    let kv := eval vm_compute in k in change k with kv
  end.

(* M5 *)
Theorem humansize_greatest_proof n :
  0 <= n < 2 ^ 64 ->
  exists f, valid_form f /\ humansize_repo n = Ok (render f) /\
            form_value f <= n /\
            forall v, representable v -> v <= n -> v <= form_value f.
Proof.
  intros Hn. change (2 ^ 64) with 18446744073709551616 in Hn.
  rewrite repo_format_is_std. unfold format_std, humansize_m.
  destruct (Z.ltb_spec n 1000) as [Small|Big].
  - (* "<N> B" *)
    exists (FSmall n). split; [cbn; lia|]. split.
    { rewrite to_int_small by lia. rewrite fmt_small_run, print_d_small by lia. reflexivity. }
    split; [cbn; lia|]. intros v _ Hv. cbn. exact Hv.
  - assert (0 <= n / 100 < 10000 * 1000 ^ (Z.of_nat 70 - 1)) as Hs.
    { split; [apply Z.div_pos; lia|]. apply Z.div_lt_upper_bound; [lia|].
      assert (18446744073709551616 <= 100 * (10000 * 1000 ^ (Z.of_nat 70 - 1))) by (vm_compute; discriminate). lia. }
    destruct (hs_loop_spec 70 (n / 100) 1 Hs) as (j & Hj & El & B1 & B2).
    rewrite El. cbn [bind].
    (* at most five divisions by 1000 *)
    assert (j <= 5) as Hj5.
    { destruct (Z_le_gt_dec j 5) as [|G]; [assumption|]. exfalso.
      assert (1000 ^ 6 <= 1000 ^ j) as P by (apply Z.pow_le_mono_r; lia).
      change (1000 ^ 6) with 1000000000000000000 in P.
      assert (n / 100 / 1000 ^ j = 0) as Z0 by (apply Z.div_small; split; [apply Z.div_pos; lia|];
        apply Z.lt_le_trans with 1000000000000000000; [apply Z.div_lt_upper_bound; lia | exact P]).
      specialize (B2 ltac:(lia)). lia. }
    assert (n / 100 / 1000 ^ j = n / (100 * 1000 ^ j)) as Ediv
      by (rewrite Z.div_div by (try lia; apply Z.pow_pos_nonneg; lia); reflexivity).
    rewrite Ediv in *. clear Ediv El Hs.
    set (sz := n / (100 * 1000 ^ j)) in *.
    assert (10 <= sz) as Hsz10.
    { destruct (Z.eq_dec j 0) as [->|Hnz]; [|apply B2; lia].
      subst sz. change (100 * 1000 ^ 0) with 100. apply Z.div_le_lower_bound; lia. }
    assert (sz * (100 * 1000 ^ j) <= n < (sz + 1) * (100 * 1000 ^ j)) as Hn'.
    { assert (0 < 100 * 1000 ^ j) as Up by (pose proof (Z.pow_pos_nonneg 1000 j ltac:(lia) Hj); lia).
      pose proof (Z.mul_div_le n _ Up). pose proof (Z.mul_succ_div_gt n _ Up).
      fold sz in H, H0. unfold Z.succ in H0. lia. }
    clearbody sz. rewrite (to_int_small sz) by lia.
    rewrite Z.quot_div_nonneg, Z.rem_mod_nonneg by lia.
    destruct (1 + j <? 0) eqn:Eneg; [apply Z.ltb_lt in Eneg; lia|]. clear Eneg.
    assert (j = 0 \/ j = 1 \/ j = 2 \/ j = 3 \/ j = 4 \/ j = 5) as Hcases by lia.
    destruct (Z.ltb_spec sz 100) as [Frac|Int].
    + (* "<a>.<b> <prefix>B" *)
      exists (FDec (sz / 10) (sz mod 10) (1 + j)).
      assert (1 <= sz / 10 <= 9 /\ 0 <= sz mod 10 <= 9) as Hd by (Z.div_mod_to_equations; lia).
      split; [cbn [valid_form]; lia|]. split.
      { destruct Hcases as [-> | [-> | [-> | [-> | [-> | ->]]]]]; prefix_norm; cbn [bind];
          rewrite fmt_frac_run, !print_d_small, !dec3_digit by lia; reflexivity. }
      assert (form_value (FDec (sz / 10) (sz mod 10) (1 + j)) = sz * (100 * 1000 ^ j)) as Ev.
      { cbn [form_value]. replace (1 + j - 1) with j by lia.
        replace (10 * (sz / 10) + sz mod 10) with sz by (Z.div_mod_to_equations; lia). ring. }
      rewrite Ev. split; [lia|]. clear Hd Ev.
      intros v (f' & Vf & <-) Hv.
      destruct f' as [m | x k' | a b k']; cbn [valid_form form_value] in *.
      * destruct Hcases as [-> | [-> | [-> | [-> | [-> | ->]]]]]; pow_norm; lia.
      * assert (k' = 1 \/ k' = 2 \/ k' = 3 \/ k' = 4 \/ k' = 5 \/ k' = 6) as Hk by lia.
        destruct Hcases as [-> | [-> | [-> | [-> | [-> | ->]]]]];
          destruct Hk as [-> | [-> | [-> | [-> | [-> | ->]]]]]; pow_norm; lia.
      * assert (k' = 1 \/ k' = 2 \/ k' = 3 \/ k' = 4 \/ k' = 5 \/ k' = 6) as Hk by lia.
        destruct Hcases as [-> | [-> | [-> | [-> | [-> | ->]]]]];
          destruct Hk as [-> | [-> | [-> | [-> | [-> | ->]]]]]; pow_norm; lia.
    + (* "<X> <prefix>B" *)
      exists (FInt (sz / 10) (1 + j)).
      assert (10 <= sz / 10 <= 999) as Hd by (Z.div_mod_to_equations; lia).
      split; [cbn [valid_form]; lia|]. split.
      { destruct Hcases as [-> | [-> | [-> | [-> | [-> | ->]]]]]; prefix_norm; cbn [bind];
          rewrite fmt_int_run, print_d_small by lia; reflexivity. }
      assert (form_value (FInt (sz / 10) (1 + j)) = (sz / 10) * 10 * (100 * 1000 ^ j)) as Ev.
      { cbn [form_value]. rewrite Z.pow_add_r by lia. change (1000 ^ 1) with 1000. ring. }
      rewrite Ev. split; [Z.div_mod_to_equations; nia|].
      intros v (f' & Vf & <-) Hv.
      set (q := sz / 10) in *. assert (10 * q <= sz < 10 * q + 10) as Hq by (subst q; Z.div_mod_to_equations; lia).
      clearbody q.
      destruct f' as [m | x k' | a b k']; cbn [valid_form form_value] in *.
      * destruct Hcases as [-> | [-> | [-> | [-> | [-> | ->]]]]]; pow_norm; lia.
      * assert (k' = 1 \/ k' = 2 \/ k' = 3 \/ k' = 4 \/ k' = 5 \/ k' = 6) as Hk by lia.
        destruct Hcases as [-> | [-> | [-> | [-> | [-> | ->]]]]];
          destruct Hk as [-> | [-> | [-> | [-> | [-> | ->]]]]]; pow_norm; lia.
      * assert (k' = 1 \/ k' = 2 \/ k' = 3 \/ k' = 4 \/ k' = 5 \/ k' = 6) as Hk by lia.
        destruct Hcases as [-> | [-> | [-> | [-> | [-> | ->]]]]];
          destruct Hk as [-> | [-> | [-> | [-> | [-> | ->]]]]]; pow_norm; lia.
Qed.

(* non-vacuity / documentation examples for M5 *)
Example format_examples :
  humansize_repo 999 = Ok [57; 57; 57; 32; 66]%N /\                       (* "999 B" *)
  humansize_repo 1000 = Ok [49; 46; 48; 32; 107; 66]%N /\                 (* "1.0 kB" *)
  humansize_repo 9999 = Ok [57; 46; 57; 32; 107; 66]%N /\                 (* "9.9 kB" *)
  humansize_repo 999999 = Ok [57; 57; 57; 32; 107; 66]%N /\               (* "999 kB" *)
  humansize_repo 1000000 = Ok [49; 46; 48; 32; 77; 66]%N /\               (* "1.0 MB" *)
  humansize_repo 18446744073709551615 = Ok [49; 56; 32; 69; 66]%N /\      (* "18 EB" *)
  representable 18000000000000000000 /\ ~ representable 1001.
Proof.
  repeat split; try (vm_compute; reflexivity).
  - exists (FInt 18 6). split; [cbn; lia | reflexivity].
  - intros (f & Vf & Ef). destruct f as [m | x k | a b k]; cbn [valid_form form_value] in *.
    + lia.
    + assert (k = 1 \/ k = 2 \/ k = 3 \/ k = 4 \/ k = 5 \/ k = 6) as Hk by lia.
      destruct Hk as [-> | [-> | [-> | [-> | [-> | ->]]]]]; pow_norm; lia.
    + assert (k = 1 \/ k = 2 \/ k = 3 \/ k = 4 \/ k = 5 \/ k = 6) as Hk by lia.
      destruct Hk as [-> | [-> | [-> | [-> | [-> | ->]]]]]; pow_norm; lia.
Qed.

(* ================= the executable spec used by the search is the declarative one ================= *)
Lemma in_zrange lo hi x : lo <= x <= hi -> In x (zrange lo hi).
Proof.
  intros H. unfold zrange. apply in_map_iff. exists (Z.to_nat (x - lo)). split; [lia|].
  apply in_seq. lia.
Qed.
Lemma zrange_in lo hi x : In x (zrange lo hi) -> lo <= x <= hi.
Proof.
  unfold zrange. intros H. apply in_map_iff in H. destruct H as (i & <- & Hi). apply in_seq in Hi. lia.
Qed.

Lemma all_forms_complete f : valid_form f -> In f all_forms.
Proof.
  intros V. unfold all_forms. apply in_or_app. destruct f as [m | x k | a b k]; cbn [valid_form] in V.
  - left. apply in_map_iff. exists m. split; [reflexivity | apply in_zrange; lia].
  - right. apply in_flat_map. exists k. split; [apply in_zrange; lia|].
    apply in_or_app. right. apply in_map_iff. exists x. split; [reflexivity | apply in_zrange; lia].
  - right. apply in_flat_map. exists k. split; [apply in_zrange; lia|].
    apply in_or_app. left. apply in_flat_map. exists a. split; [apply in_zrange; lia|].
    apply in_map_iff. exists b. split; [reflexivity | apply in_zrange; lia].
Qed.

Lemma all_forms_valid f : In f all_forms -> valid_form f.
Proof.
  unfold all_forms. intros H. apply in_app_or in H. destruct H as [H|H].
  - apply in_map_iff in H. destruct H as (m & <- & Hm). apply zrange_in in Hm. cbn. lia.
  - apply in_flat_map in H. destruct H as (k & Hk & H). apply zrange_in in Hk.
    apply in_app_or in H. destruct H as [H|H].
    + apply in_flat_map in H. destruct H as (a & Ha & H). apply zrange_in in Ha.
      apply in_map_iff in H. destruct H as (b & <- & Hb). apply zrange_in in Hb. cbn. lia.
    + apply in_map_iff in H. destruct H as (x & <- & Hx). apply zrange_in in Hx. cbn. lia.
Qed.

(* the filtered arg-max fold *)
Lemma best_fold n l : forall v0 f0,
  v0 = form_value f0 -> v0 <= n ->
  let r := fold_left (fun best vf => if (fst vf <=? n) && (fst best <? fst vf) then vf else best)
                     (map (fun f => (form_value f, f)) l) (v0, f0) in
  fst r = form_value (snd r) /\ (snd r = f0 \/ In (snd r) l) /\ fst r <= n /\ v0 <= fst r /\
  forall g, In g l -> form_value g <= n -> form_value g <= fst r.
Proof.
  induction l as [|g l IH]; intros v0 f0 E0 L0; cbv zeta.
  - cbn. repeat split; auto; try lia; intros g' [].
  - cbn [map fold_left fst snd].
    destruct (Z.leb_spec (form_value g) n) as [Lg|Lg]; cbn [andb].
    + destruct (Z.ltb_spec v0 (form_value g)) as [Better|Worse].
      * specialize (IH (form_value g) g eq_refl Lg). cbv zeta in IH.
        destruct IH as (I1 & I2 & I3 & I4 & I5). repeat split; auto; try lia.
        { destruct I2 as [->|I2]; right; [left; reflexivity | right; exact I2]. }
        intros h [<-|Hh] Hv; [lia | apply I5; assumption].
      * specialize (IH v0 f0 E0 L0). cbv zeta in IH.
        destruct IH as (I1 & I2 & I3 & I4 & I5). repeat split; auto.
        { destruct I2 as [->|I2]; [left; reflexivity | right; right; exact I2]. }
        intros h [<-|Hh] Hv; [lia | apply I5; assumption].
    + specialize (IH v0 f0 E0 L0). cbv zeta in IH.
      destruct IH as (I1 & I2 & I3 & I4 & I5). repeat split; auto.
      { destruct I2 as [->|I2]; [left; reflexivity | right; right; exact I2]. }
      intros h [<-|Hh] Hv; [lia | apply I5; assumption].
Qed.

Lemma best_form_spec n : 0 <= n ->
  valid_form (best_form n) /\ form_value (best_form n) <= n /\
  forall v, representable v -> v <= n -> v <= form_value (best_form n).
Proof.
  intros Hn. unfold best_form, all_valued.
  pose proof (best_fold n all_forms 0 (FSmall 0) eq_refl Hn) as B. cbv zeta in B.
  destruct B as (B1 & B2 & B3 & B4 & B5). rewrite <- B1.
  split; [|split].
  - destruct B2 as [->|B2]; [cbn; lia | apply all_forms_valid, B2].
  - exact B3.
  - intros v (g & Vg & <-) Hv. apply B5; [apply all_forms_complete, Vg | exact Hv].
Qed.

(* distinct documented forms denote distinct values *)
Lemma form_value_injective f g :
  valid_form f -> valid_form g -> form_value f = form_value g -> f = g.
Proof.
  intros Vf Vg E.
  destruct f as [m | x k | a b k], g as [m' | x' k' | a' b' k']; cbn [valid_form form_value] in *;
    try (assert (k = 1 \/ k = 2 \/ k = 3 \/ k = 4 \/ k = 5 \/ k = 6) as Hk by lia);
    try (assert (k' = 1 \/ k' = 2 \/ k' = 3 \/ k' = 4 \/ k' = 5 \/ k' = 6) as Hk' by lia).
  - f_equal. lia.
  - exfalso. destruct Hk' as [-> | [-> | [-> | [-> | [-> | ->]]]]]; pow_norm; lia.
  - exfalso. destruct Hk' as [-> | [-> | [-> | [-> | [-> | ->]]]]]; pow_norm; lia.
  - exfalso. destruct Hk as [-> | [-> | [-> | [-> | [-> | ->]]]]]; pow_norm; lia.
  - destruct Hk as [-> | [-> | [-> | [-> | [-> | ->]]]]];
      destruct Hk' as [-> | [-> | [-> | [-> | [-> | ->]]]]]; pow_norm;
      try (exfalso; lia); f_equal; lia.
  - exfalso. destruct Hk as [-> | [-> | [-> | [-> | [-> | ->]]]]];
      destruct Hk' as [-> | [-> | [-> | [-> | [-> | ->]]]]]; pow_norm; lia.
  - exfalso. destruct Hk as [-> | [-> | [-> | [-> | [-> | ->]]]]]; pow_norm; lia.
  - exfalso. destruct Hk as [-> | [-> | [-> | [-> | [-> | ->]]]]];
      destruct Hk' as [-> | [-> | [-> | [-> | [-> | ->]]]]]; pow_norm; lia.
  - destruct Hk as [-> | [-> | [-> | [-> | [-> | ->]]]]];
      destruct Hk' as [-> | [-> | [-> | [-> | [-> | ->]]]]]; pow_norm;
      try (exfalso; lia); assert (a = a' /\ b = b') as [-> ->] by lia; reflexivity.
Qed.

(* so the string humansize produces is the one the executable spec produces, for every 64-bit n *)
Theorem humansize_is_spec_proof n :
  0 <= n < 2 ^ 64 -> humansize_repo n = Ok (hs_format_spec n).
Proof.
  intros Hn. destruct (humansize_greatest_proof n Hn) as (f & Vf & Ef & Lf & Gf).
  destruct (best_form_spec n ltac:(lia)) as (Vb & Lb & Gb).
  rewrite Ef. unfold hs_format_spec.
  assert (f = best_form n) as E; [|rewrite <- E; reflexivity].
  apply form_value_injective; [exact Vf | exact Vb |].
  assert (form_value f <= form_value (best_form n)) as H1.
  { apply Gb; [exists f; split; [exact Vf | reflexivity] | exact Lf]. }
  assert (form_value (best_form n) <= form_value f) as H2.
  { apply Gf; [exists (best_form n); split; [exact Vb | reflexivity] | exact Lb]. }
  apply Z.le_antisymm; assumption.
Qed.
