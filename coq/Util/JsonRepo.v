(* The model of util/json.c instantiated with the tables regenerated from the C text
   (Gen/Repo_json.v).  [json_find_c buf key] models json_find(buf, buf + len, key) as the code
   is now; [json_find_old] is the code before the two repairs (regression Examples only). *)
From Coq Require Import NArith List.
From LCP Require Import Base.CheckedMem Gen.Repo_json Util.Json.
Import ListNotations.

Definition json_find_c (buf key : list N) : res nat :=
  json_find_m json_numchars json_wsbytes json_literals json_escapes true true buf (cstr key).

Definition json_find_old (buf key : list N) : res nat :=
  json_find_m json_numchars json_wsbytes json_literals json_escapes false false buf (cstr key).

(* skip_value(buf + p, buf + len) as an offset from buf *)
Definition skip_value_c (buf : list N) (p : nat) : res nat :=
  skip_value json_numchars json_wsbytes json_literals true true buf p.
