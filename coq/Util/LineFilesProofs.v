(* aws_readkeys / readpass_file: on every file content (NULs, over-long and unterminated lines
   included) and every initial content of the line buffer, the model never leaves the buffer
   (no Fault), never runs out of fuel, and fgets is always asked for at most the buffer's size. *)
From Coq Require Import Arith NArith ZArith List Lia Bool.
From LCP Require Import Base.CheckedMem Util.EndianMem Util.EndianMemProofs Util.LineFiles Gen.Repo_codec2.
Import ListNotations.
Local Open Scope N_scope.
Local Open Scope res_scope.

(* the regenerated sizes: fgets is given no more than the buffer holds *)
Lemma aws_sizes_okN : 2 <= aws_fgets_size <= aws_buf_size.
Proof. unfold aws_fgets_size, aws_buf_size. lia. Qed.
Lemma rp_sizes_okN : 2 <= rp_fgets_size <= rp_buf_size.
Proof. unfold rp_fgets_size, rp_buf_size. lia. Qed.
Lemma aws_sizes_ok : (2 <= N.to_nat aws_fgets_size <= N.to_nat aws_buf_size)%nat.
Proof. pose proof aws_sizes_okN. lia. Qed.
Lemma rp_sizes_ok : (2 <= N.to_nat rp_fgets_size <= N.to_nat rp_buf_size)%nat.
Proof. pose proof rp_sizes_okN. lia. Qed.
Lemma aws_separator_nonzero : aws_separator <> 0.
Proof. discriminate. Qed.

Definition nul_at (b : list N) (k : nat) : Prop := nth_error b k = Some 0.

Lemma nul_at_lt b k : nul_at b k -> (k < length b)%nat.
Proof. unfold nul_at. intros H. apply nth_error_Some. congruence. Qed.

(* ---- wr ---- *)
Lemma wr_nth : forall b p v b', wr b p v = Ok b' ->
  forall k, nth_error b' k = if (k =? p)%nat then Some v else nth_error b k.
Proof.
  induction b as [|x b IH]; intros p v b' H k; [discriminate|].
  destruct p as [|p]; cbn [wr] in H.
  - inversion H; subst. destruct k; reflexivity.
  - destruct (wr b p v) as [r| | |] eqn:E; try discriminate. cbn [bind] in H. inversion H; subst.
    destruct k as [|k]; [reflexivity|]. cbn [nth_error Nat.eqb]. apply (IH p v r E).
Qed.

Lemma wr_nul b p b' : wr b p 0 = Ok b' -> nul_at b' p.
Proof. intros H. unfold nul_at. rewrite (wr_nth _ _ _ _ H). rewrite Nat.eqb_refl. reflexivity. Qed.

Lemma wr_keeps_nul b p v b' k : wr b p v = Ok b' -> k <> p -> nul_at b k -> nul_at b' k.
Proof.
  intros H Hne Hk. unfold nul_at in *. rewrite (wr_nth _ _ _ _ H).
  destruct (Nat.eqb_spec k p); [contradiction | exact Hk].
Qed.

Lemma wr_in_range b p v : (p < length b)%nat -> exists b', wr b p v = Ok b' /\ length b' = length b.
Proof.
  intros H. destruct (wr_total b p v) as [(b' & E & L)|E]; [eauto|].
  rewrite wr_ok in E by exact H. discriminate.
Qed.

(* ---- fgets ---- *)
Lemma fgets_loop_ok : forall room buf i file,
  (i + room < length buf)%nat ->
  exists b cnt rest, fgets_loop buf i room file = Ok (b, cnt, rest) /\ length b = length buf /\
    (i <= cnt <= i + room)%nat /\ (length rest + (cnt - i) = length file)%nat /\
    ((0 < room)%nat -> file <> [] -> (i < cnt)%nat).
Proof.
  induction room as [|room IH]; intros buf i file H.
  - exists buf, i, file. cbn [fgets_loop]. repeat split; try lia.
  - destruct file as [|c r].
    + exists buf, i, []. cbn [fgets_loop length]. repeat split; try lia. intros _ E. congruence.
    + cbn [fgets_loop]. destruct (wr_in_range buf i c) as (b1 & E1 & L1); [lia|]. rewrite E1. cbn [bind].
      destruct (c =? 10).
      * exists b1, (S i), r. cbn [length]. repeat split; try lia.
      * destruct (IH b1 (S i) r) as (b & cnt & rest & E & L & Hc & Hl & _); [lia|].
        exists b, cnt, rest. cbn [length]. rewrite E. repeat split; try lia.
Qed.

Lemma fgets_ok buf size file :
  (2 <= size <= length buf)%nat ->
  exists r rest, fgets_m buf size file = Ok (r, rest) /\
    match r with
    | None => file = []
    | Some b => length b = length buf /\ (exists k, (k < size)%nat /\ nul_at b k) /\
                (length rest < length file)%nat
    end.
Proof.
  intros Hs. unfold fgets_m.
  destruct (fgets_loop_ok (size - 1) buf 0 file) as (b & cnt & rest & E & L & Hc & Hl & Hp); [lia|].
  rewrite E. cbn [bind].
  destruct cnt as [|cnt].
  - destruct file as [|c r].
    + exists None, rest. split; reflexivity.
    + exfalso. assert (0 < 0)%nat; [apply Hp; [lia | discriminate] | lia].
  - destruct (wr_in_range b (S cnt) 0) as (b2 & E2 & L2); [lia|].
    rewrite E2. cbn [bind]. exists (Some b2), rest. split; [destruct file; reflexivity|].
    split; [lia|]. split; [exists (S cnt); split; [lia | apply (wr_nul _ _ _ E2)] | lia].
Qed.

(* ---- scans that stop at a terminator inside the object ---- *)
Lemma rd_at_nul b k : nul_at b k -> rd b k = Ok 0.
Proof. unfold nul_at, rd. intros ->. reflexivity. Qed.

Lemma rd_below b i k : (i <= k)%nat -> nul_at b k -> exists c, rd b i = Ok c.
Proof.
  intros Hi Hk. apply nul_at_lt in Hk. destruct (rd_ok b i) as (c & E & _); [lia | eauto].
Qed.

Lemma strcspn_from_ok b off set k : (off <= k)%nat -> nul_at b k ->
  forall d fuel acc, (off + acc + d = k)%nat -> (d < fuel)%nat ->
  exists p, strcspn_from fuel b off set acc = Ok p /\ (off + p <= k)%nat.
Proof.
  intros Ho Hk. induction d as [|d IH]; intros fuel acc Hd Hf;
    (destruct fuel as [|f]; [lia|]); cbn [strcspn_from].
  - replace (off + acc)%nat with k by lia. rewrite (rd_at_nul _ _ Hk). cbn [bind N.eqb orb].
    exists acc. split; [reflexivity | lia].
  - destruct (rd_below b (off + acc) k ltac:(lia) Hk) as [c Ec]. rewrite Ec. cbn [bind].
    destruct ((c =? 0) || in_set c set); [exists acc; split; [reflexivity | lia]|].
    apply IH; lia.
Qed.

Lemma strcspn_ok b off set k : (off <= k)%nat -> nul_at b k ->
  exists p, strcspn_m b off set = Ok p /\ (off + p <= k)%nat.
Proof.
  intros Ho Hk. unfold strcspn_m. apply (strcspn_from_ok b off set k Ho Hk (k - off)); [lia|].
  apply nul_at_lt in Hk. lia.
Qed.

Lemma strchr_from_ok b c k : c <> 0 -> nul_at b k ->
  forall d fuel i, (i + d = k)%nat -> (d < fuel)%nat ->
  exists r, strchr_from fuel b c i = Ok r /\
            match r with Some q => (q < k)%nat /\ nth_error b q = Some c | None => True end.
Proof.
  intros Hc Hk. induction d as [|d IH]; intros fuel i Hd Hf;
    (destruct fuel as [|f]; [lia|]); cbn [strchr_from].
  - replace i with k by lia. rewrite (rd_at_nul _ _ Hk). cbn [bind].
    destruct (N.eqb_spec 0 c) as [E|_]; [congruence|]. cbn [N.eqb]. exists None. split; [reflexivity | exact I].
  - destruct (rd_ok b i) as (x & Ex & En); [apply nul_at_lt in Hk; lia|]. rewrite Ex. cbn [bind].
    destruct (N.eqb_spec x c) as [->|_].
    + exists (Some i). split; [reflexivity|]. split; [lia | exact En].
    + destruct (x =? 0); [exists None; split; [reflexivity | exact I]|]. apply IH; lia.
Qed.

Lemma strchr_ok b c k : c <> 0 -> nul_at b k ->
  exists r, strchr_m b c = Ok r /\
            match r with Some q => (q < k)%nat /\ nth_error b q = Some c | None => True end.
Proof.
  intros Hc Hk. unfold strchr_m. apply (strchr_from_ok b c k Hc Hk k); [lia|].
  apply nul_at_lt in Hk. lia.
Qed.

Lemma strlen_from_ok' b off k : (off <= k)%nat -> nul_at b k ->
  forall d fuel acc, (off + acc + d = k)%nat -> (d < fuel)%nat ->
  exists n, strlen_from fuel b off acc = Ok n /\ (off + n <= k)%nat.
Proof.
  intros Ho Hk. induction d as [|d IH]; intros fuel acc Hd Hf;
    (destruct fuel as [|f]; [lia|]); cbn [strlen_from].
  - replace (off + acc)%nat with k by lia. rewrite (rd_at_nul _ _ Hk). cbn [bind N.eqb].
    exists acc. split; [reflexivity | lia].
  - destruct (rd_below b (off + acc) k ltac:(lia) Hk) as [c Ec]. rewrite Ec. cbn [bind].
    destruct (c =? 0); [exists acc; split; [reflexivity | lia]|]. apply IH; lia.
Qed.

Lemma cstr_at_total b off k : (off <= k)%nat -> nul_at b k ->
  exists s, cstr_at b off = Ok s /\ (off + length s <= k)%nat.
Proof.
  intros Ho Hk. unfold cstr_at, strlen_m.
  destruct (strlen_from_ok' b off k Ho Hk (k - off) (S (length b)) 0) as (n & E & Hn);
    [lia | apply nul_at_lt in Hk; lia|].
  rewrite E. cbn [bind]. eexists. split; [reflexivity|]. rewrite firstn_length. lia.
Qed.

(* ---- aws_readkeys ---- *)
Theorem aws_loop_no_fault : forall fuel buf file kid ksec,
  length buf = N.to_nat aws_buf_size -> (length file < fuel)%nat ->
  exists r, aws_loop fuel buf file kid ksec = Ok r.
Proof.
  induction fuel as [|fuel IH]; intros buf file kid ksec Lb Hf; [lia|].
  cbn [aws_loop]. pose proof aws_sizes_ok as Sz.
  destruct (fgets_ok buf (N.to_nat aws_fgets_size) file) as (r & rest & E & Hr); [lia|].
  rewrite E. cbn [bind]. destruct r as [b|]; [|eexists; reflexivity].
  destruct Hr as (L1 & (k0 & Hk0 & Nk0) & Hrest).
  destruct (strcspn_ok b 0 aws_eol_set k0 ltac:(lia) Nk0) as (p & Ep & Hp). rewrite Ep. cbn [bind].
  destruct (rd_below b p k0 ltac:(lia) Nk0) as [c Ec]. rewrite Ec. cbn [bind].
  destruct (c =? 0); [eexists; reflexivity|].
  pose proof (nul_at_lt _ _ Nk0) as Lk0.
  destruct (wr_in_range b p 0) as (b1 & E1 & L2); [lia|]. rewrite E1. cbn [bind].
  pose proof (wr_nul _ _ _ E1) as Np.
  destruct (strchr_ok b1 aws_separator p aws_separator_nonzero Np) as (q & Eq & Hq). rewrite Eq. cbn [bind].
  destruct q as [q|]; [|eexists; reflexivity]. destruct Hq as [Hqp Hqc].
  destruct (wr_in_range b1 q 0) as (b2 & E2 & L3); [lia|]. rewrite E2. cbn [bind].
  pose proof (wr_nul _ _ _ E2) as Nq.
  assert (nul_at b2 p) as Np2 by (apply (wr_keeps_nul _ _ _ _ _ E2); [lia | exact Np]).
  destruct (cstr_at_total b2 0 q ltac:(lia) Nq) as (name & En & _). rewrite En. cbn [bind].
  destruct (cstr_at_total b2 (S q) p ltac:(lia) Np2) as (v & Ev & _).
  destruct (bytes_eqb name aws_name_id).
  - destruct kid; [eexists; reflexivity|]. rewrite Ev. cbn [bind]. apply IH; lia.
  - destruct (bytes_eqb name aws_name_secret); [|eexists; reflexivity].
    destruct ksec; [eexists; reflexivity|]. rewrite Ev. cbn [bind]. apply IH; lia.
Qed.

(* C15: whatever the file and the previous content of the stack buffer *)
Theorem aws_readkeys_no_fault buf0 file :
  length buf0 = N.to_nat aws_buf_size -> exists r, aws_readkeys_m buf0 file = Ok r.
Proof. intros H. unfold aws_readkeys_m. apply aws_loop_no_fault; [exact H | lia]. Qed.

(* ---- readpass_file ---- *)
Theorem readpass_file_no_fault buf0 file :
  length buf0 = N.to_nat rp_buf_size ->
  exists r, readpass_file_m buf0 file = Ok r /\
            match r with Some s => (length s < N.to_nat rp_buf_size)%nat | None => True end.
Proof.
  intros Lb. unfold readpass_file_m. pose proof rp_sizes_ok as Sz.
  destruct (fgets_ok buf0 (N.to_nat rp_fgets_size) file) as (r & rest & E & Hr); [lia|].
  rewrite E. cbn [bind].
  assert (exists b k, (match r with Some b => Ok b | None => wr buf0 0 0 end) = Ok b /\
                      length b = length buf0 /\ (k < N.to_nat rp_fgets_size)%nat /\ nul_at b k)
    as (b & k & Eb & L1 & Hk & Nk).
  { destruct r as [b|].
    - destruct Hr as (L1 & (k & Hk & Nk) & _). exists b, k. auto.
    - destruct (wr_in_range buf0 0 0) as (b & Eb & L1); [lia|]. exists b, 0%nat.
      repeat split; auto; [lia | apply (wr_nul _ _ _ Eb)]. }
  rewrite Eb. cbn [bind]. destruct rest; [|exists None; split; [reflexivity | exact I]].
  destruct (strcspn_ok b 0 rp_eol_set k ltac:(lia) Nk) as (p & Ep & Hp). rewrite Ep. cbn [bind].
  pose proof (nul_at_lt _ _ Nk) as Lk.
  destruct (wr_in_range b p 0) as (b1 & E1 & L2); [lia|]. rewrite E1. cbn [bind].
  destruct (cstr_at_total b1 0 p ltac:(lia) (wr_nul _ _ _ E1)) as (s & Es & Hs). rewrite Es. cbn [bind].
  exists (Some s). split; [reflexivity|]. lia.
Qed.

(* non-vacuity: a key file, an over-long line, an embedded NUL *)
Example aws_example :
  aws_readkeys_m aws_stack_buffer
    [65; 67; 67; 69; 83; 83; 95; 75; 69; 89; 95; 73; 68; 61; 105; 10;
     65; 67; 67; 69; 83; 83; 95; 75; 69; 89; 95; 83; 69; 67; 82; 69; 84; 61; 115; 10] = Ok (AwsOk [105] [115]).
Proof. vm_compute. reflexivity. Qed.
Example readpass_example_nul : readpass_file_m rp_stack_buffer [97; 0; 98] = Ok (Some [97]).
Proof. vm_compute. reflexivity. Qed.
Example readpass_example_two_lines : readpass_file_m rp_stack_buffer [97; 10; 98] = Ok None.
Proof. vm_compute. reflexivity. Qed.
