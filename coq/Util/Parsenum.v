(* MODEL of util/parsenum.h as it is now: the three inline functions and the macro logic of
   PARSENUM_EX4 / PARSENUM_EX6 (PARSENUM2/4 are the base-0, no-trailing instances), with the type of
   the target variable *x as a parameter.  errno is a value threaded through. *)
From Coq Require Import NArith ZArith List Bool.
From LCP Require Import Base.CheckedMem Util.ParsenumSpec Util.Strto Util.ParsenumFloat.
Import ListNotations.
Local Open Scope Z_scope.
Local Open Scope res_scope.

Inductive errno := ENone | EInval | ERange.

(* the type of *x *)
Record ctype := { ck : kind; cw : Z }.

(* conversion of an integer value to a w-bit unsigned / signed type (gcc: modular) *)
Definition wrap_u (w v : Z) : Z := v mod 2 ^ w.
Definition wrap_s (w v : Z) : Z := (v + 2 ^ (w - 1)) mod 2 ^ w - 2 ^ (w - 1).
Definition u64 (v : Z) : Z := wrap_u 64 v.
Definition s64 (v : Z) : Z := wrap_s 64 v.

(* the value *x holds after "*x = v" for an integer v *)
Definition store (t : ctype) (v : Z) : Z :=
  match ck t with
  | KUnsigned => wrap_u (cw t) v
  | KSigned => wrap_s (cw t) v
  | KFloat => v
  end.

(* the test [(( *x = 1, *x /= 2) > 0)] : 0.5 > 0 for floating types, 0 > 0 for integer types *)
Definition class_float (t : ctype) : bool :=
  match ck t with
  | KFloat => true
  | _ => Z.quot (store t 1) 2 >? 0
  end.
(* the tests [( *x = -1) <= 0] and [( *x = -1) > 0] *)
Definition class_signed (t : ctype) : bool := store t (-1) <=? 0.
Definition class_unsigned (t : ctype) : bool := store t (-1) >? 0.

(* eptr == s || (!trailing && ( *eptr != 0)) ; *eptr is only read when needed *)
Definition bad_end (buf : list N) (e : nat) (trailing : bool) : res bool :=
  if Nat.eqb e 0 then Ok true
  else if trailing then Ok false
  else let* c := rd buf e in Ok (negb (c =? 0)%N).

(* static inline intmax_t parsenum_signed(s, min, max, base, trailing) -> (return value, errno) *)
Definition parsenum_signed_m (buf : list N) (min max base : Z) (trailing : bool) : res (Z * errno) :=
  let* (ve, rng) := strtoimax_m buf base in
  let (val, e) := ve in
  let err := if rng then ERange else ENone in
  let* bad := bad_end buf e trailing in
  if bad then Ok (val, EInval)
  else if (val <? min) || (val >? max) then Ok (0, ERange)
  else Ok (val, err).

(* static inline uintmax_t parsenum_unsigned(s, min, max, typemax, base, trailing) *)
Definition parsenum_unsigned_m (buf : list N) (min max tmax base : Z) (trailing : bool)
  : res (Z * errno) :=
  let* (ve, rng) := strtoumax_m buf base in
  let (val, e) := ve in
  let err := if rng then ERange else ENone in
  let* bad := bad_end buf e trailing in
  if bad then Ok (val, EInval)
  else if (val <? min) || (val >? max) || (val >? tmax) then Ok (val, ERange)
  else if negb (val =? 0) then
    (* while (isspace( *s)) s++;  if ( *s == '-') errno = ERANGE; *)
    let* i := skip_ws (S (length buf)) buf 0 in
    let* c := rd buf i in
    if (c =? 45)%N then Ok (val, ERange) else Ok (val, err)
  else Ok (val, err).

(* strtod is not modelled: its result on the given string is data.  The double it returned is given
   by its 64-bit pattern (Util/ParsenumFloat.v decodes it). *)
Record strtod_res := {
  sd_consumed : nat;      (* eptr - s *)
  sd_erange : bool;       (* strtod itself set errno = ERANGE (overflow / underflow) *)
  sd_lt_min : bool;       (* val < min *)
  sd_gt_max : bool;       (* val > max *)
  sd_bits : Z }.          (* val, as the pattern of a binary64 *)
Definition sd_class (sd : strtod_res) : fclass := class_of (decode64 (sd_bits sd)).

(* the two comparisons agree with the value and the bounds (double)(min), (double)(max), themselves
   given as binary64 patterns *)
Definition sd_consistent (fmin fmax : Z) (sd : strtod_res) : Prop :=
  sd_lt_min sd = fval_ltb (decode64 (sd_bits sd)) (decode64 fmin) /\
  sd_gt_max sd = fval_ltb (decode64 fmax) (decode64 (sd_bits sd)).
(* strtod's answer with the comparisons computed *)
Definition mk_sd (consumed : nat) (erange : bool) (bits fmin fmax : Z) : strtod_res :=
  {| sd_consumed := consumed; sd_erange := erange;
     sd_lt_min := fval_ltb (decode64 bits) (decode64 fmin);
     sd_gt_max := fval_ltb (decode64 fmax) (decode64 bits);
     sd_bits := bits |}.

(* static inline double parsenum_float(s, min, max, trailing): the errno it leaves *)
Definition parsenum_float_m (buf : list N) (sd : strtod_res) (trailing : bool) : res errno :=
  let err := if sd_erange sd then ERange else ENone in
  let* bad := bad_end buf (sd_consumed sd) trailing in
  if bad then Ok EInval
  else if sd_lt_min sd || sd_gt_max sd then Ok ERange
  else Ok err.

(* what the macro leaves behind: errno and the value of *x (integers: the value; floating targets: the
   bit pattern of *x, which is strtod's double converted to the type of *x - a float target narrows) *)
Record outcome := { o_errno : errno; o_stored : Z }.

(* PARSENUM_EX6(x, s, min, max, base, trailing): min and max are the values of the integer
   expressions given by the caller (any 64-bit integer type, so -2^63 <= . < 2^64) *)
Definition parsenum_ex6 (t : ctype) (buf : list N) (min max base : Z) (trailing : bool)
           (sd : strtod_res) : res outcome :=
  if class_float t then
    if base =? 0 then
      (* ( *x) = parsenum_float(...): assigned whatever errno is *)
      let* e := parsenum_float_m buf sd trailing in
      Ok {| o_errno := e; o_stored := fstore (cw t) (sd_bits sd) |}
    else AssertFail
  else if class_signed t then
    let x := store t (-1) in
    let* (val, e) := parsenum_signed_m buf (s64 (if x <=? 0 then min else 0))
                                       (s64 (if x <=? 0 then max else 0)) base trailing in
    Ok {| o_errno := e; o_stored := store t val |}
  else
    let x := store t (-1) in
    let* (val, e) := parsenum_unsigned_m buf (u64 (if min <=? 0 then 0 else min)) (u64 max) (u64 x)
                                         base trailing in
    (* ((max) <= INTMAX_MAX) ? ((((intmax_t)(max) < 0) && (errno == 0)) ? (errno = ERANGE) : 0) : 0 *)
    let e' := if max <=? IMAX
              then (if (s64 max <? 0) && (match e with ENone => true | _ => false end)
                    then ERange else e)
              else e in
    Ok {| o_errno := e'; o_stored := store t val |}.

(* PARSENUM_EX4(x, s, base, trailing) *)
Definition parsenum_ex4 (t : ctype) (buf : list N) (base : Z) (trailing : bool)
           (sd : strtod_res) : res outcome :=
  if class_float t then
    if base =? 0 then
      (* ( *x) = parsenum_float(...): assigned whatever errno is *)
      let* e := parsenum_float_m buf sd trailing in
      Ok {| o_errno := e; o_stored := fstore (cw t) (sd_bits sd) |}
    else AssertFail
  else if class_unsigned t then
    let x := store t (-1) in
    let* (val, e) := parsenum_unsigned_m buf 0 (u64 x) (u64 x) base trailing in
    Ok {| o_errno := e; o_stored := store t val |}
  else AssertFail.     (* "applied to signed integer without specified bounds" *)

(* the macro's value is errno != 0; the documented outcome *)
Definition presult_of (o : outcome) : presult :=
  match o_errno o with
  | ENone => OkV (o_stored o)
  | EInval => EINVAL
  | ERange => ERANGE
  end.

Definition map_res {A B} (f : A -> B) (r : res A) : res B :=
  match r with Ok a => Ok (f a) | Fault => Fault | AssertFail => AssertFail | OutOfFuel => OutOfFuel end.
