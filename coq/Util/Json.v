(* util/json.c: MODEL on checked memory.

   The input is the list [b] of exactly (end - buf) bytes.  A pointer into it is a nat offset;
   [rd b p] faults for p >= length b, and forming an offset above length b faults too ([fwd]):
   the C would have computed end + 1 and then compared / dereferenced it.  "return (end)" is
   [Ok (length b)].  The key is the C string [kb] (bytes incl. its terminator), read through rd.

   Every function mirrors its C namesake branch for branch.  Loops run on fuel; the callers
   supply remaining-length fuel and JsonSafe.v proves that it always suffices.

   Tables come from the C text (Gen/Repo_json.v): numchars, the bytes tested by skip_ws, the
   (min remaining, text, memcmp length, advance) rows of skip_literal and the (case, value)
   rows of match_str's escape switch.

   [fix_ws] / [fix_end] select the two repaired statements of skip_array / skip_object
   (whitespace after a comma; end test before the next member).  The code as it is now is
   [true true]; [false false] is the code before the two repairs and is only used for the
   regression Examples. *)
From Coq Require Import Arith NArith List Lia Bool.
From LCP Require Import Base.CheckedMem.
Import ListNotations.
Local Open Scope res_scope.

Section Model.
  Variable numchars : list N.
  Variable wsbytes : list N.
  Variable literals : list (nat * list N * nat * nat).
  Variable escapes : list (N * N).
  Variable fix_ws fix_end : bool.

  Variable b : list N.                         (* the bytes buf[0 .. end-buf) *)

  Definition is_ws (c : N) : bool := existsb (N.eqb c) wsbytes.
  (* strchr(numchars, c) != NULL: the search includes the terminator of numchars[] *)
  Definition is_numchar (c : N) : bool := existsb (N.eqb c) (numchars ++ [0%N]).

  (* form the pointer p + k *)
  Definition fwd (p k : nat) : res nat :=
    if p + k <=? length b then Ok (p + k) else Fault.

  (* ---- skip_ws ---- *)
  Fixpoint ws_loop (fuel p : nat) : res nat :=
    match fuel with
    | O => OutOfFuel
    | S f =>
      if p <? length b then
        let* c := rd b p in
        if is_ws c then (let* p1 := fwd p 1 in ws_loop f p1) else Ok p
      else Ok p
    end.
  Definition skip_ws (p : nat) : res nat := ws_loop (S (length b - p)) p.

  (* ---- skip_literal ---- *)
  (* memcmp(buf + p, lit + i, n) == 0; all n bytes of both objects are accessed *)
  Fixpoint memcmp_eq (n p i : nat) (lit : list N) : res bool :=
    match n with
    | O => Ok true
    | S n' =>
      let* x := rd b p in
      let* y := rd lit i in
      let* r := memcmp_eq n' (S p) (S i) lit in
      Ok ((x =? y)%N && r)
    end.

  Fixpoint lit_loop (lits : list (nat * list N * nat * nat)) (p : nat) : res nat :=
    match lits with
    | [] => Ok (length b)
    | (a, txt, n, adv) :: r =>
      if a <=? length b - p then
        let* e := memcmp_eq n p 0 (cstr txt) in
        if e then fwd p adv else lit_loop r p
      else lit_loop r p
    end.
  Definition skip_literal (p : nat) : res nat := lit_loop literals p.

  (* ---- skip_string ---- *)
  Fixpoint str_loop (fuel p : nat) : res nat :=
    match fuel with
    | O => OutOfFuel
    | S f =>
      if p <? length b then
        let* ch := rd b p in
        let* p := fwd p 1 in
        if (ch =? 34)%N then Ok p
        else if (ch =? 92)%N then
          if p =? length b then Ok p
          else
            let* ch := rd b p in
            let* p := fwd p 1 in
            if (ch =? 117)%N then
              if length b - p <? 4 then Ok p
              else (let* p := fwd p 4 in str_loop f p)
            else str_loop f p
        else str_loop f p
      else Ok p
    end.
  Definition skip_string (p : nat) : res nat :=
    let* p := fwd p 1 in                       (* buf++ over the opening quote, unconditionally *)
    str_loop (S (length b - p)) p.

  (* ---- skip_number ---- *)
  Fixpoint num_loop (fuel p : nat) : res nat :=
    match fuel with
    | O => OutOfFuel
    | S f =>
      if p <? length b then
        let* c := rd b p in
        if is_numchar c then (let* p1 := fwd p 1 in num_loop f p1) else Ok p
      else Ok p
    end.
  Definition skip_number (p : nat) : res nat := num_loop (S (length b - p)) p.

  (* ---- skip_array / skip_object, given skip_value ---- *)
  Section Containers.
    Variable sv : nat -> res nat.

    (* the do { } while (1) of skip_array *)
    Fixpoint arr_loop (fuel p : nat) : res nat :=
      match fuel with
      | O => OutOfFuel
      | S f =>
        let* p := sv p in
        let* p := skip_ws p in
        if p =? length b then Ok (length b) else
        let* c := rd b p in
        if (c =? 93)%N then fwd p 1 else
        let* c := rd b p in
        let* p := fwd p 1 in
        if negb (c =? 44)%N then Ok (length b) else
        let* p := (if fix_ws then skip_ws p else Ok p) in
        arr_loop f p
      end.

    Definition skip_array (fuel p : nat) : res nat :=
      let* p := fwd p 1 in
      let* p := skip_ws p in
      if p =? length b then Ok (length b) else
      let* c := rd b p in
      if (c =? 93)%N then fwd p 1 else
      arr_loop fuel p.

    (* the do { } while (1) of skip_object *)
    Fixpoint obj_loop (fuel p : nat) : res nat :=
      match fuel with
      | O => OutOfFuel
      | S f =>
        let* p := skip_string p in
        let* p := skip_ws p in
        if p =? length b then Ok (length b) else
        let* c := rd b p in
        let* p := fwd p 1 in
        if negb (c =? 58)%N then Ok (length b) else
        let* p := skip_ws p in
        let* p := sv p in
        let* p := skip_ws p in
        if p =? length b then Ok (length b) else
        let* c := rd b p in
        if (c =? 125)%N then fwd p 1 else
        let* c := rd b p in
        let* p := fwd p 1 in
        if negb (c =? 44)%N then Ok (length b) else
        let* p := (if fix_ws then skip_ws p else Ok p) in
        if fix_end && (p =? length b) then Ok (length b) else
        obj_loop f p
      end.

    Definition skip_object (fuel p : nat) : res nat :=
      let* p := fwd p 1 in
      let* p := skip_ws p in
      if p =? length b then Ok (length b) else
      let* c := rd b p in
      if (c =? 125)%N then fwd p 1 else
      obj_loop fuel p.
  End Containers.

  (* ---- skip_value ---- *)
  Fixpoint skip_value_f (fuel p : nat) : res nat :=
    match fuel with
    | O => OutOfFuel
    | S f =>
      if p =? length b then Ok (length b) else
      let* c := rd b p in
      if (c =? 102)%N || (c =? 110)%N || (c =? 116)%N then skip_literal p
      else if (c =? 34)%N then skip_string p
      else if (c =? 91)%N then skip_array (skip_value_f f) f p
      else if (c =? 123)%N then skip_object (skip_value_f f) f p
      else if is_numchar c then skip_number p
      else Ok (length b)
    end.
  Definition skip_value (p : nat) : res nat := skip_value_f (S (length b - p)) p.

  (* ---- match_str ---- *)
  Variable kb : list N.                        (* the key: a C string with its terminator *)

  Fixpoint assoc (c : N) (t : list (N * N)) : option N :=
    match t with
    | [] => None
    | (x, v) :: r => if (x =? c)%N then Some v else assoc c r
    end.

  (* k is the offset of s in kb; found is *foundit.  Result: (returned pointer, *foundit). *)
  Fixpoint match_loop (fuel p k : nat) (found : bool) : res (nat * bool) :=
    match fuel with
    | O => OutOfFuel
    | S f =>
      if p =? length b then Ok (length b, found) else
      let* ch := rd b p in
      let* p := fwd p 1 in
      if (ch =? 34)%N then
        let* s0 := rd kb k in
        Ok (p, if negb (s0 =? 0)%N then false else found)
      else
        (* the escape switch: inl = a return statement, inr = fall out of the switch *)
        let* sw :=
          (if (ch =? 92)%N then
             if p =? length b then Ok (inl (length b, found))
             else
               let* e := rd b p in
               let* p := fwd p 1 in
               match assoc e escapes with
               | Some v => Ok (inr (v, p, found))
               | None =>
                 if (e =? 117)%N then
                   if length b - p <? 4 then Ok (inl (length b, found))
                   else (let* p := fwd p 4 in Ok (inr (ch, p, false)))
                 else Ok (inl (length b, false))
               end
           else Ok (inr (ch, p, found))) in
        match sw with
        | inl out => Ok out
        | inr (ch, p, found) =>
          let* s0 := rd kb k in
          let found := if negb (ch =? s0)%N then false else found in
          let* s1 := rd kb k in
          let k := if negb (s1 =? 0)%N then S k else k in
          match_loop f p k found
        end
    end.
  Definition match_str (p : nat) : res (nat * bool) :=
    match_loop (S (length b - p)) p 0 true.

  (* ---- SCAN(buf, end, ch): None = the macro executed "return (end)" ---- *)
  Definition scan (p : nat) (ch : N) : res (option nat) :=
    let* p := skip_ws p in
    if p =? length b then Ok None else
    let* c := rd b p in
    let* p := fwd p 1 in
    if negb (c =? ch)%N then Ok None else Ok (Some p).

  (* ---- json_find ---- *)
  Fixpoint find_loop (fuel p : nat) : res nat :=
    match fuel with
    | O => OutOfFuel
    | S f =>
      let* r := scan p 34 in
      match r with None => Ok (length b) | Some p =>
      let* pf := match_str p in
      let* r := scan (fst pf) 58 in
      match r with None => Ok (length b) | Some p =>
      let* p := skip_ws p in
      if snd pf then Ok p else
      let* p := skip_value p in
      let* r := scan p 44 in
      match r with None => Ok (length b) | Some p =>
      find_loop f p
      end end end
    end.

  (* offset of the returned pointer from buf *)
  Definition json_find_m : res nat :=
    let* r := scan 0 123 in
    match r with None => Ok (length b) | Some p => find_loop (S (length b)) p end.
End Model.
