(* MODEL of util/humansize.c as it is now: humansize() (the /100, /1000 loop, prefix indexing, the
   three asprintf forms interpreted by a small printf) and humansize_parse() (the character-driven
   state machine with its fall-through cases and 64-bit overflow tests, reading through [rd]).
   Every literal comes in as a Section variable and is instantiated with Gen/Repo_parsenum.v. *)
From Coq Require Import NArith ZArith List Bool.
From LCP Require Import Base.CheckedMem.
Import ListNotations.
Local Open Scope Z_scope.
Local Open Scope res_scope.

Definition U64MAX : Z := 18446744073709551615.
Definition two64 : Z := 18446744073709551616.
Definition to_int (v : Z) : Z := (v + 2147483648) mod 4294967296 - 2147483648.   (* (int)v *)

(* ---- the printf fragment used: %d %c %% ---- *)
Fixpoint dec_digits (fuel : nat) (n : Z) (acc : list N) : list N :=
  match fuel with
  | O => acc
  | S f =>
    let acc' := Z.to_N (48 + n mod 10) :: acc in
    if n <? 10 then acc' else dec_digits f (n / 10) acc'
  end.
Definition print_d (z : Z) : list N :=
  if z <? 0 then 45%N :: dec_digits 20 (- z) [] else dec_digits 20 z [].

Inductive parg := AInt (z : Z) | AChar (c : N).

(* a conversion without a matching argument (or an unknown one) is undefined behaviour: Fault *)
Fixpoint fmt_run (fmt : list N) (args : list parg) : res (list N) :=
  match fmt with
  | [] => Ok []
  | c :: r =>
    if (c =? 37)%N then
      match r with
      | k :: r' =>
        if (k =? 100)%N then
          match args with
          | AInt z :: a => let* t := fmt_run r' a in Ok (print_d z ++ t)
          | _ => Fault
          end
        else if (k =? 99)%N then
          match args with
          | AChar ch :: a => let* t := fmt_run r' a in Ok (ch :: t)
          | _ => Fault
          end
        else if (k =? 37)%N then let* t := fmt_run r' args in Ok (37%N :: t)
        else Fault
      | [] => Fault
      end
    else let* t := fmt_run r args in Ok (c :: t)
  end.

Section Model.
  (* humansize() literals *)
  Variables (small_limit first_div shift_init loop_limit loop_div frac_limit frac_div frac_mod int_div : Z)
            (prefixes fmt_small fmt_frac fmt_int : list N).
  (* humansize_parse() literals *)
  Variables (ovf_div radix digit_lo digit_hi prefix_mult c_space c_unit : Z) (prefix_cases : list N).

  (* for (size /= 100, shiftcnt = 1; size >= 10000; shiftcnt++) size /= 1000; *)
  Fixpoint hs_loop (fuel : nat) (size shiftcnt : Z) : res (Z * Z) :=
    match fuel with
    | O => OutOfFuel
    | S f => if size >=? loop_limit then hs_loop f (size / loop_div) (shiftcnt + 1)
             else Ok (size, shiftcnt)
    end.

  (* char * humansize(uint64_t size): the string produced (without its NUL) *)
  Definition humansize_m (size : Z) : res (list N) :=
    if size <? small_limit then fmt_run fmt_small [AInt (to_int size)]
    else
      let* (sz, cnt) := hs_loop 70 (size / first_div) shift_init in
      let* prefix := (if cnt <? 0 then Fault else rd prefixes (Z.to_nat cnt)) in
      if sz <? frac_limit then
        fmt_run fmt_frac [AInt (Z.quot (to_int sz) frac_div); AInt (Z.rem (to_int sz) frac_mod); AChar prefix]
      else
        fmt_run fmt_int [AInt (Z.quot (to_int sz) int_div); AChar prefix].

  (* ---- humansize_parse ---- *)
  Record hp := { hp_state : Z; hp_size : Z; hp_mult : Z }.
  Definition with_state (st : hp) (s : Z) : hp :=
    {| hp_state := s; hp_size := hp_size st; hp_mult := hp_mult st |}.
  Definition with_size (st : hp) (v : Z) : hp :=
    {| hp_state := hp_state st; hp_size := v; hp_mult := hp_mult st |}.
  Definition with_mult (st : hp) (m : Z) : hp :=
    {| hp_state := hp_state st; hp_size := hp_size st; hp_mult := m |}.

  (* plain char is signed on this platform *)
  Definition sc (c : N) : Z := if (c <? 128)%N then Z.of_N c else Z.of_N c - 256.

  (* case 5: trailing garbage *)
  Definition step5 (st : hp) : hp := with_state st (-1).
  (* case 4: state = 5; if 'B' break; else fall through *)
  Definition step4 (c : N) (st : hp) : hp :=
    let st := with_state st 5 in
    if sc c =? c_unit then st else step5 st.
  (* case 3: the inner switch multiplies once per label from the matching one to the end *)
  Fixpoint mult_chain (cases : list N) (c : N) (m : Z) : Z :=
    match cases with
    | [] => m
    | x :: r => if (Z.of_N x =? sc c) then
                  fold_left (fun a _ => (a * prefix_mult) mod two64) cases m
                else mult_chain r c m
    end.
  Definition step3 (c : N) (st : hp) : hp :=
    let st := with_mult st (mult_chain prefix_cases c (hp_mult st)) in
    let st := with_state st 4 in
    if negb (hp_mult st =? 1) then st else step4 c st.
  (* case 2: state = 3; if ' ' break; else fall through *)
  Definition step2 (c : N) (st : hp) : hp :=
    let st := with_state st 3 in
    if sc c =? c_space then st else step3 c st.
  (* case 1 *)
  Definition step1 (c : N) (st : hp) : hp :=
    let st := with_state st 1 in
    if (digit_lo <=? sc c) && (sc c <=? digit_hi) then
      let st := if hp_size st >? U64MAX / ovf_div then with_state st (-1)
                else with_size st ((hp_size st * radix) mod two64) in
      let d := (sc c - digit_lo) mod two64 in
      if hp_size st >? U64MAX - d then with_state st (-1)
      else with_size st ((hp_size st + d) mod two64)
    else step2 c st.
  (* case 0 *)
  Definition step0 (c : N) (st : hp) : hp :=
    let st := with_size st 0 in
    if (sc c <? digit_lo) || (sc c >? digit_hi) then with_state st (-1) else step1 c st.

  Definition step (c : N) (st : hp) : hp :=
    let s := hp_state st in
    if s =? 0 then step0 c st
    else if s =? 1 then step1 c st
    else if s =? 2 then step2 c st
    else if s =? 3 then step3 c st
    else if s =? 4 then step4 c st
    else if s =? 5 then step5 st
    else st.                                   (* case -1: break *)

  (* do { switch ...; s++; } while ((state != -1) && ( *s != 0));  *s is not read when state == -1 *)
  Fixpoint hp_loop (fuel : nat) (buf : list N) (i : nat) (st : hp) : res hp :=
    match fuel with
    | O => OutOfFuel
    | S f =>
      let* c := rd buf i in
      let st' := step c st in
      if hp_state st' =? -1 then Ok st'
      else
        let* c' := rd buf (S i) in
        if (c' =? 0)%N then Ok st' else hp_loop f buf (S i) st'
    end.

  (* int humansize_parse(const char * s, uint64_t * size): (return value, *size afterwards) *)
  Definition humansize_parse_m (buf : list N) : res (Z * Z) :=
    let* st := hp_loop (S (length buf)) buf 0 {| hp_state := 0; hp_size := 0; hp_mult := 1 |} in
    let st := if hp_size st >? U64MAX / hp_mult st then with_state st (-1)
              else with_size st ((hp_size st * hp_mult st) mod two64) in
    Ok ((if hp_state st =? -1 then -1 else 0), hp_size st).
End Model.

(* ---- instantiated with the literals now in util/humansize.c ---- *)
From LCP Require Import Gen.Repo_parsenum.

Definition humansize_repo : Z -> res (list N) :=
  humansize_m Repo_parsenum.hs_small_limit Repo_parsenum.hs_first_div Repo_parsenum.hs_shift_init Repo_parsenum.hs_loop_limit Repo_parsenum.hs_loop_div
              Repo_parsenum.hs_frac_limit Repo_parsenum.hs_frac_div Repo_parsenum.hs_frac_mod Repo_parsenum.hs_int_div
              Repo_parsenum.hs_prefixes Repo_parsenum.hs_fmt_small Repo_parsenum.hs_fmt_frac Repo_parsenum.hs_fmt_int.

Definition humansize_parse_repo : list N -> res (Z * Z) :=
  humansize_parse_m Repo_parsenum.hp_ovf_div Repo_parsenum.hp_radix Repo_parsenum.hp_digit_lo Repo_parsenum.hp_digit_hi Repo_parsenum.hp_prefix_mult
                    Repo_parsenum.hp_space Repo_parsenum.hp_unit Repo_parsenum.hp_prefix_cases.
