(* util/sysendian.h: model (interprets the store / load statements regenerated from the header on
   checked memory) and spec (byte order as defined, independent).  The translator lists the
   statements / OR-ed terms in a canonical order (ascending shift) after checking that the stores
   of a routine go to pairwise distinct constant indices and that no byte occurs in two terms:
   such stores commute and | is commutative, so the source order is immaterial; otherwise it
   refuses. *)
From Coq Require Import Arith NArith List Lia Bool.
From LCP Require Import Base.CheckedMem Util.EndianMem Gen.Repo_codec2.
Import ListNotations.
Local Open Scope N_scope.
Local Open Scope res_scope.

(* ---------------- model ---------------- *)
(* void XXenc(void * pp, uintW_t x): one statement  p[i] = (x >> s) & m;  per table row *)
Fixpoint enc_tab_m (tab : list (N * N * N)) (buf : list N) (off : nat) (x : N) : res (list N) :=
  match tab with
  | [] => Ok buf
  | (i, s, m) :: r =>
    let* b := wr buf (off + N.to_nat i) (N.land (N.shiftr x s) m) in
    enc_tab_m r b off x
  end.

(* uintW_t XXdec(const void * pp): (uintW_t)(p[i0]) << s0 | (uintW_t)(p[i1]) << s1 | ...,
   every term and the result in W-bit unsigned arithmetic *)
Fixpoint dec_terms_m (w : N) (tab : list (N * N)) (buf : list N) (off : nat) (acc : N) : res N :=
  match tab with
  | [] => Ok acc
  | (i, s) :: r =>
    let* b := rd buf (off + N.to_nat i) in
    dec_terms_m w r buf off (N.lor acc ((N.shiftl b s) mod 2 ^ w))
  end.
Definition dec_tab_m (w : N) (tab : list (N * N)) (buf : list N) (off : nat) : res N :=
  let* v := dec_terms_m w tab buf off 0 in Ok (v mod 2 ^ w).

Definition be16enc_m := enc_tab_m be16enc_tab.
Definition be32enc_m := enc_tab_m be32enc_tab.
Definition be64enc_m := enc_tab_m be64enc_tab.
Definition le16enc_m := enc_tab_m le16enc_tab.
Definition le32enc_m := enc_tab_m le32enc_tab.
Definition le64enc_m := enc_tab_m le64enc_tab.
Definition be16dec_m := dec_tab_m 16 be16dec_tab.
Definition be32dec_m := dec_tab_m 32 be32dec_tab.
Definition be64dec_m := dec_tab_m 64 be64dec_tab.
Definition le16dec_m := dec_tab_m 16 le16dec_tab.
Definition le32dec_m := dec_tab_m 32 le32dec_tab.
Definition le64dec_m := dec_tab_m 64 le64dec_tab.

(* ---------------- spec: byte order as defined ---------------- *)
(* little-endian: least significant byte first *)
Fixpoint le_bytes (n : nat) (x : N) : list N :=
  match n with
  | O => []
  | S k => x mod 256 :: le_bytes k (x / 256)
  end.
Fixpoint le_val (bs : list N) : N :=
  match bs with
  | [] => 0
  | b :: r => b + 256 * le_val r
  end.
(* big-endian: most significant byte first *)
Definition be_bytes (n : nat) (x : N) : list N := rev (le_bytes n x).
Definition be_val (bs : list N) : N := le_val (rev bs).

(* what a store of n bytes at offset off leaves in the object *)
Definition stored (buf : list N) (off : nat) (bytes : list N) : list N :=
  firstn off buf ++ bytes ++ skipn (off + length bytes) buf.
Definition loaded (buf : list N) (off n : nat) : list N := firstn n (skipn off buf).

(* the six store/load pairs as one family (vocabulary of the property statements) *)
Inductive ekind : Type := BE16 | BE32 | BE64 | LE16 | LE32 | LE64.
Definition ek_width (k : ekind) : nat :=
  match k with BE16 | LE16 => 2 | BE32 | LE32 => 4 | BE64 | LE64 => 8 end%nat.
Definition ek_enc (k : ekind) : list N -> nat -> N -> res (list N) :=
  match k with
  | BE16 => be16enc_m | BE32 => be32enc_m | BE64 => be64enc_m
  | LE16 => le16enc_m | LE32 => le32enc_m | LE64 => le64enc_m
  end.
Definition ek_dec (k : ekind) : list N -> nat -> res N :=
  match k with
  | BE16 => be16dec_m | BE32 => be32dec_m | BE64 => be64dec_m
  | LE16 => le16dec_m | LE32 => le32dec_m | LE64 => le64dec_m
  end.
Definition ek_bytes (k : ekind) : nat -> N -> list N :=
  match k with BE16 | BE32 | BE64 => be_bytes | _ => le_bytes end.
Definition ek_val (k : ekind) : list N -> N :=
  match k with BE16 | BE32 | BE64 => be_val | _ => le_val end.
