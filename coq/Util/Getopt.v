(* util/getopt.c: MODEL (mirrors the C statics and control flow, every read of an argv string,
   of packedopts and of os[olen] goes through checked memory) and SPEC (reference parser written
   from the header comment of util/getopt.h).  No proofs here. *)
From Coq Require Import Arith NArith List Bool.
From LCP Require Import Base.CheckedMem.
Import ListNotations.
Local Open Scope res_scope.

Definition str := list N.            (* content of a C string, without its terminator *)
Definition DASH : N := 45%N.
Definition EQC : N := 61%N.
Definition NUL : N := 0%N.

Fixpoint str_eqb (a b : str) : bool :=
  match a, b with
  | [], [] => true
  | x :: a', y :: b' => N.eqb x y && str_eqb a' b'
  | _, _ => false
  end.

Inductive event :=
| Opt (os : str)                    (* GETOPT_OPT label reached *)
| OptArg (os : str) (arg : str)     (* GETOPT_OPTARG label reached, optarg *)
| Missing (os : str)                (* GETOPT_MISSING_ARG label *)
| Default (os : str).               (* GETOPT_DEFAULT label *)

Definition slot := option (str * bool).     (* NULL os, or (os, hasarg); olen = strlen os *)
Definition table := list slot.

(* ============================ MODEL ============================ *)

Record gst := mk_gst {
  g_optind : nat;
  g_optreset : bool;
  g_init : bool;                     (* getopt_initialized *)
  g_opts : option table;             (* opts: NULL or array of nopts slots *)
  g_missing : nat;                   (* opt_missing *)
  g_default : nat;                   (* opt_default *)
  g_found : option nat;              (* opt_found; None = (size_t)(-1) *)
  g_packed : option (nat * nat);     (* packedopts: NULL or &argv[i][k] *)
  g_optarg : option (list N * nat)   (* optarg: NULL or pointer (object, offset) *)
}.

Definition set_optind v s := mk_gst v (g_optreset s) (g_init s) (g_opts s) (g_missing s) (g_default s) (g_found s) (g_packed s) (g_optarg s).
Definition set_optreset v s := mk_gst (g_optind s) v (g_init s) (g_opts s) (g_missing s) (g_default s) (g_found s) (g_packed s) (g_optarg s).
Definition set_init v s := mk_gst (g_optind s) (g_optreset s) v (g_opts s) (g_missing s) (g_default s) (g_found s) (g_packed s) (g_optarg s).
Definition set_opts v s := mk_gst (g_optind s) (g_optreset s) (g_init s) v (g_missing s) (g_default s) (g_found s) (g_packed s) (g_optarg s).
Definition set_missing v s := mk_gst (g_optind s) (g_optreset s) (g_init s) (g_opts s) v (g_default s) (g_found s) (g_packed s) (g_optarg s).
Definition set_default v s := mk_gst (g_optind s) (g_optreset s) (g_init s) (g_opts s) (g_missing s) v (g_found s) (g_packed s) (g_optarg s).
Definition set_found v s := mk_gst (g_optind s) (g_optreset s) (g_init s) (g_opts s) (g_missing s) (g_default s) v (g_packed s) (g_optarg s).
Definition set_packed v s := mk_gst (g_optind s) (g_optreset s) (g_init s) (g_opts s) (g_missing s) (g_default s) (g_found s) v (g_optarg s).
Definition set_optarg v s := mk_gst (g_optind s) (g_optreset s) (g_init s) (g_opts s) (g_missing s) (g_default s) (g_found s) (g_packed s) v.

(* the statics as the C initialises them *)
Definition init_state : gst := mk_gst 1 true false None 0 0 None None None.

(* argv[i] as a memory object: the string with its terminator; argv[argc] is NULL *)
Definition argv_obj (argv : list str) (i : nat) : res (list N) :=
  match nth_error argv i with
  | Some s => Ok (cstr s)
  | None => Fault
  end.

(* read a C string starting at a pointer: runs until the first NUL, faults if it leaves the object *)
Fixpoint scan_str (l : list N) : res str :=
  match l with
  | [] => Fault
  | c :: r => if N.eqb c NUL then Ok [] else (let* t := scan_str r in Ok (c :: t))
  end.
Definition read_cstr (buf : list N) (off : nat) : res str :=
  if off <=? length buf then scan_str (skipn off buf) else Fault.

(* reset(argc, argv) *)
Definition reset (s : gst) (argv : list str) : res gst :=
  let* _ := match argv with
            | [] => Ok []
            | _ => let* a := argv_obj argv 0 in scan_str a     (* basename scan up to the NUL *)
            end in
  Ok (set_optreset false (set_init false (set_found None (set_packed None
      (set_optind 1 (set_opts None s)))))).

(* strncmp(name, os, strlen(name)) == 0, name being NUL-free over its strlen *)
Fixpoint strn_eq (name : str) (osb : list N) (k : nat) : res bool :=
  match name with
  | [] => Ok true
  | c :: r => let* x := rd osb k in
              if N.eqb x c then strn_eq r osb (S k) else Ok false
  end.

(* searchopt(os) *)
Fixpoint searchopt_from (slots : table) (i : nat) (osb : list N) (dflt : nat) : res nat :=
  match slots with
  | [] => Ok dflt
  | None :: r => searchopt_from r (S i) osb dflt
  | Some (name, _) :: r =>
    let* e := strn_eq name osb 0 in
    if e then
      (let* x := rd osb (length name) in
       if N.eqb x NUL || N.eqb x EQC then Ok i else searchopt_from r (S i) osb dflt)
    else searchopt_from r (S i) osb dflt
  end.
Definition searchopt (s : gst) (osb : list N) : res nat :=
  match g_opts s with
  | Some t => searchopt_from t 0 osb (g_default s)
  | None => Fault                    (* opts == NULL: unreachable through the API (asserted) *)
  end.

Inductive gret := RNull | RDummy | RStr (s : str).

(* stage 1: should we start a pack? *)
Definition stage_start (s : gst) (argv : list str) : res gst :=
  match g_packed s with
  | Some _ => Ok s
  | None =>
    let* a := argv_obj argv (g_optind s) in
    let* c0 := rd a 0 in
    if N.eqb c0 DASH then
      (let* c1 := rd a 1 in
       if negb (N.eqb c1 DASH) && negb (N.eqb c1 NUL)
       then Ok (set_packed (Some (g_optind s, 1)) s) else Ok s)
    else Ok s
  end.

(* stage 2: fish one character out of the pack; os = popt (a 3-byte object) *)
Definition stage_fish (s : gst) (argv : list str) : res (gst * option (list N)) :=
  match g_packed s with
  | Some (i, k) =>
    let* a := argv_obj argv i in
    let* c := rd a k in
    let popt := [DASH; c; NUL] in
    let* c' := rd a (S k) in
    if N.eqb c' NUL
    then Ok (set_optind (S (g_optind s)) (set_packed None s), Some popt)
    else Ok (set_packed (Some (i, S k)) s, Some popt)
  | None => Ok (s, None)
  end.

(* stage 3: dash-dash *)
Definition stage_dd (s : gst) (argv : list str) (os : option (list N)) : res (gst * option (list N)) :=
  match os with
  | Some _ => Ok (s, os)
  | None =>
    let* a := argv_obj argv (g_optind s) in
    let* c0 := rd a 0 in
    if N.eqb c0 DASH then
      (let* c1 := rd a 1 in
       if N.eqb c1 DASH then
         (let* c2 := rd a 2 in
          Ok (set_optind (S (g_optind s)) s, if N.eqb c2 NUL then None else Some a))
       else Ok (s, None))
    else Ok (s, None)
  end.

(* stage 4: the option string is known *)
Definition stage_opt (s : gst) (argv : list str) (osb : list N) : res (gst * gret) :=
  let* f := searchopt s osb in
  let s := set_found (Some f) s in
  if f =? g_default s then (let* r := read_cstr osb 0 in Ok (s, RStr r)) else
  let* tbl := match g_opts s with Some t => Ok t | None => Fault end in
  match nth_error tbl f with
  | Some (Some (name, hasarg)) =>
    let olen := length name in
    if hasarg then
      (let* s := match g_packed s with
                 | Some (i, k) =>
                   let* a := argv_obj argv i in
                   Ok (set_optind (S (g_optind s)) (set_packed None (set_optarg (Some (a, k)) s)))
                 | None => Ok s
                 end in
       let* x := rd osb olen in
       let s := if N.eqb x EQC then set_optarg (Some (osb, S olen)) s else s in
       let* s := match g_optarg s with
                 | Some _ => Ok s
                 | None =>
                   if g_optind s <? length argv then
                     (let* a := argv_obj argv (g_optind s) in
                      Ok (set_optind (S (g_optind s)) (set_optarg (Some (a, 0)) s)))
                   else Ok s
                 end in
       let s := match g_optarg s with
                | Some _ => s
                | None => set_found (Some (g_missing s)) s
                end in
       Ok (s, RStr name))
    else
      (let* x := rd osb olen in
       let s := if N.eqb x EQC then set_found (Some (g_default s)) s else s in
       Ok (s, RStr name))
  | _ => Fault                       (* opts[opt_found].os with no such slot / NULL os *)
  end.

Definition getopt_body (s : gst) (argv : list str) : res (gst * gret) :=
  let* s := stage_start s argv in
  let* (s, os) := stage_fish s argv in
  let* (s, os) := stage_dd s argv os in
  match os with
  | None => Ok (s, RNull)
  | Some osb => stage_opt s argv osb
  end.

Definition getopt (s : gst) (argv : list str) : res (gst * gret) :=
  let s := set_optarg None s in
  let* s := if g_optreset s then reset s argv else Ok s in
  if negb (g_init s) then Ok (s, RDummy) else
  if length argv <=? g_optind s then Ok (s, RNull) else
  getopt_body s argv.

(* getopt_lookup(os) *)
Definition getopt_lookup (s : gst) (ch : str) : res nat :=
  if g_optreset s then AssertFail else          (* DIE *)
  if negb (g_init s) then AssertFail else
  match g_found s with
  | None => AssertFail
  | Some f =>
    if (f =? g_missing s) || (f =? g_default s) then Ok f else
    match g_opts s with
    | Some t => match nth_error t f with
                | Some (Some (name, _)) => if str_eqb ch name then Ok f else AssertFail
                | Some None => Fault           (* strcmp(os, NULL) *)
                | None => AssertFail
                end
    | None => AssertFail
    end
  end.

(* Options should be "-X" or "--foo" *)
Definition valid_name (n : str) : bool :=
  match n with
  | c0 :: c1 :: r =>
    N.eqb c0 DASH &&
    (if N.eqb c1 DASH then (match r with [] => false | _ => true end)
     else (match r with [] => true | _ => false end))
  | _ => false
  end.

Fixpoint set_nth {A} (l : list A) (i : nat) (v : A) : list A :=
  match l, i with
  | [], _ => []
  | _ :: r, O => v :: r
  | x :: r, S j => x :: set_nth r j v
  end.

(* getopt_setrange(maxopts) *)
Definition setrange (s : gst) (maxopts : nat) : res gst :=
  if g_optreset s then AssertFail else
  if g_init s then AssertFail else
  Ok (set_default (S maxopts) (set_missing (S maxopts) (set_opts (Some (repeat None maxopts)) s))).

(* getopt_register_opt(os, ln, hasarg) *)
Definition register_opt (s : gst) (os : str) (ln : nat) (hasarg : bool) : res gst :=
  if g_optreset s then AssertFail else
  if g_init s then AssertFail else
  match g_opts s with
  | None => AssertFail
  | Some t =>
    match nth_error t ln with
    | None => Fault                            (* opts[ln] outside the allocation *)
    | Some (Some _) => AssertFail
    | Some None =>
      if negb (valid_name os) then AssertFail else     (* DIE("Not a valid command-line option") *)
      let* f := searchopt s (cstr os) in
      if negb (f =? g_default s) then AssertFail else  (* DIE("registered twice") *)
      Ok (set_opts (Some (set_nth t ln (Some (os, hasarg)))) s)
    end
  end.

(* getopt_register_missing(ln) *)
Definition register_missing (s : gst) (ln : nat) : res gst :=
  if g_optreset s then AssertFail else
  if g_init s then AssertFail else
  Ok (set_missing ln s).

(* what the initialisation pass of a GETOPT_SWITCH does: setrange, one register per label in
   line order, then getopt_initialized = 1 *)
Fixpoint register_all (s : gst) (t : table) (ln : nat) : res gst :=
  match t with
  | [] => Ok s
  | None :: r => register_all s r (S ln)
  | Some (os, h) :: r => let* s := register_opt s os ln h in register_all s r (S ln)
  end.

Definition setup (s : gst) (t : table) (miss : option nat) : res gst :=
  let* s := setrange s (length t) in
  let* s := register_all s t 0 in
  let* s := match miss with Some ln => register_missing s ln | None => Ok s end in
  Ok (set_init true s).

(* which label of the switch is reached for lookup value n *)
Definition dispatch (s : gst) (n : nat) (ch : str) : res event :=
  if n =? g_default s then Ok (Default ch) else
  if n =? g_missing s then Ok (Missing ch) else
  match g_opts s with
  | Some t =>
    match nth_error t n with
    | Some (Some (_, true)) =>
      match g_optarg s with
      | None => AssertFail                     (* assert(optarg != NULL) in GETOPT_OPTARG *)
      | Some (obj, off) => let* a := read_cstr obj off in Ok (OptArg ch a)
      end
    | Some (Some (_, false)) => Ok (Opt ch)
    | _ => Ok (Default ch)
    end
  | None => Ok (Default ch)
  end.

(* while ((ch = GETOPT(argc, argv)) != NULL) GETOPT_SWITCH(ch) { ... } *)
Fixpoint loop (fuel : nat) (s : gst) (argv : list str) : res (list event * nat * gst) :=
  match fuel with
  | O => OutOfFuel
  | S f =>
    let* (s, r) := getopt s argv in
    match r with
    | RNull => Ok ([], g_optind s, s)
    | RDummy => AssertFail                     (* assert(os != GETOPT_DUMMY) *)
    | RStr ch =>
      let* n := getopt_lookup s ch in
      let* ev := dispatch s n ch in
      let* (p, s') := loop f s argv in
      let (evs, k) := p in
      Ok (ev :: evs, k, s')
    end
  end.

(* the same loop left with `break` after n events (used to reach mid-pack states) *)
Fixpoint loop_n (n : nat) (s : gst) (argv : list str) : res (list event * option nat * gst) :=
  match n with
  | O => Ok ([], None, s)
  | S m =>
    let* (s, r) := getopt s argv in
    match r with
    | RNull => Ok ([], Some (g_optind s), s)
    | RDummy => AssertFail
    | RStr ch =>
      let* n := getopt_lookup s ch in
      let* ev := dispatch s n ch in
      let* (p, s') := loop_n m s argv in
      let (evs, k) := p in
      Ok (ev :: evs, k, s')
    end
  end.

Definition fuel_for (argv : list str) : nat := S (length (concat argv) + length argv).

(* one complete use of the parser starting from statics s0 (the caller has set optreset) *)
Definition start (s0 : gst) (t : table) (miss : option nat) (argv : list str) : res gst :=
  let* (s1, r) := getopt s0 argv in
  match r with
  | RDummy => setup s1 t miss
  | _ => AssertFail                            (* tables are only built on the dummy pass *)
  end.

Definition run_from (s0 : gst) (t : table) (miss : option nat) (argv : list str)
  : res (list event * nat * gst) :=
  let* s := start s0 t miss argv in loop (fuel_for argv) s argv.

Definition run_from_n (n : nat) (s0 : gst) (t : table) (miss : option nat) (argv : list str)
  : res (list event * option nat * gst) :=
  let* s := start s0 t miss argv in loop_n n s argv.

Definition run_model (t : table) (miss : option nat) (argv : list str) : res (list event * nat) :=
  let* (p, _) := run_from init_state t miss argv in Ok p.

(* ---- the indexing pass of a compiled GETOPT_SWITCH statement (macros of util/getopt.h) ----
   A switch statement is described by its source lines, from the GETOPT_SWITCH line itself (line
   offset 0 = dispatch slot 0) to the line before GETOPT_DEFAULT, which therefore is on line offset
   [length lay] (= maxopts).  A line carries at most one label (two `case __LINE__:` on one line do
   not compile).
   While getopt_initialized == 0 the value switched on is getopt_ln++, and getopt_ln starts at
   getopt_ln_min - 1: the line BEFORE the statement, where no label can be.  So the very first
   probe reaches `default:` and calls getopt_setrange(maxopts) -- before any `case <line>:` of a
   GETOPT_OPT / GETOPT_OPTARG / GETOPT_MISSING_ARG can run -- and sets getopt_default_missing.
   Every later probe hits either the case of the label on that line (register, longjmp back) or
   `default:` again (nothing left to do), until the probe of GETOPT_DEFAULT's own line sets
   getopt_initialized = 1 and leaves the switch. *)
Inductive lline :=
| LNone                              (* no label on this line *)
| LOpt (os : str) (hasarg : bool)    (* GETOPT_OPT(os) / GETOPT_OPTARG(os) *)
| LMiss.                             (* GETOPT_MISSING_ARG *)
Definition layout := list lline.

(* one probe: the switch value is line offset ln, which carries l;
   the boolean is getopt_default_missing *)
Definition probe (maxopts : nat) (st : gst * bool) (ln : nat) (l : lline) : res (gst * bool) :=
  let (s, dm) := st in
  match l with
  | LOpt os h => let* s := register_opt s os ln h in Ok (s, dm)
  | LMiss => let* s := register_missing s ln in Ok (s, dm)
  | LNone => if dm then Ok (s, dm) else (let* s := setrange s maxopts in Ok (s, true))
  end.

Fixpoint probes (maxopts : nat) (st : gst * bool) (ln : nat) (lay : layout) : res (gst * bool) :=
  match lay with
  | [] => Ok st
  | l :: r => let* st := probe maxopts st ln l in probes maxopts st (S ln) r
  end.

(* first_probe = true: the code as it is (getopt_ln = getopt_ln_min - 1).  false: the pass started
   on the GETOPT_SWITCH line itself -- only used to show what the first probe is needed for *)
Definition index_pass_gen (first_probe : bool) (s : gst) (lay : layout) : res gst :=
  let maxopts := length lay in
  let* st := if first_probe then probe maxopts (s, false) 0 LNone else Ok (s, false) in
  let* (s, _) := probes maxopts st 0 lay in
  Ok (set_init true s).              (* case <line of GETOPT_DEFAULT>: getopt_initialized = 1 *)
Definition index_pass := index_pass_gen true.

(* the dispatch table a layout stands for: slot = line offset *)
Definition table_of (lay : layout) : table :=
  map (fun l => match l with LOpt os h => Some (os, h) | _ => None end) lay.
Fixpoint miss_from (lay : layout) (ln : nat) : option nat :=
  match lay with
  | [] => None
  | l :: r => match miss_from r (S ln) with
              | Some m => Some m       (* a later GETOPT_MISSING_ARG overrides an earlier one *)
              | None => match l with LMiss => Some ln | _ => None end
              end
  end.
Definition miss_of (lay : layout) : option nat := miss_from lay 0.

Definition start_switch (s0 : gst) (lay : layout) (argv : list str) : res gst :=
  let* (s1, r) := getopt s0 argv in
  match r with
  | RDummy => index_pass s1 lay
  | _ => AssertFail
  end.

Definition run_switch_from (s0 : gst) (lay : layout) (argv : list str) : res (list event * nat * gst) :=
  let* s := start_switch s0 lay argv in loop (fuel_for argv) s argv.
Definition run_switch_from_n (n : nat) (s0 : gst) (lay : layout) (argv : list str)
  : res (list event * option nat * gst) :=
  let* s := start_switch s0 lay argv in loop_n n s argv.
Definition run_switch (lay : layout) (argv : list str) : res (list event * nat) :=
  let* (p, _) := run_switch_from init_state lay argv in Ok p.

(* ============================ SPEC ============================ *)
(* Written from the comment at the top of util/getopt.h and the GETOPT_* macro comments. *)

Inductive wkind := WOperand | WDashDash | WLong (body : str) | WPack (cs : str).

Definition classify (w : str) : wkind :=
  match w with
  | [] => WOperand
  | c0 :: r0 =>
    if N.eqb c0 DASH then
      match r0 with
      | [] => WOperand                          (* a bare '-' *)
      | c1 :: r1 =>
        if N.eqb c1 DASH then (match r1 with [] => WDashDash | _ => WLong r1 end)
        else WPack r0
      end
    else WOperand
  end.

Inductive pfin := PDone | PNeed (name : str).

Section GenericSpec.
  (* how an option character / the text after "--" is resolved:
     canonical name, takes-an-argument, and for long options the attached =value *)
  Variable look_short : N -> option (str * bool).
  Variable look_long : str -> option (str * bool * option str).
  Variable miss : bool.                         (* is there a GETOPT_MISSING_ARG label *)

  Definition missing_ev (name : str) : event := if miss then Missing name else Default name.

  Fixpoint spec_pack (cs : str) : list event * pfin :=
    match cs with
    | [] => ([], PDone)
    | c :: r =>
      match look_short c with
      | None => let (e, f) := spec_pack r in (Default [DASH; c] :: e, f)
      | Some (name, false) => let (e, f) := spec_pack r in (Opt name :: e, f)
      | Some (name, true) =>
        match r with
        | [] => ([], PNeed name)
        | _ => ([OptArg name r], PDone)         (* -abcfoo *)
        end
      end
    end.

  Definition cons_ev (e : event) (p : list event * nat) : list event * nat := (e :: fst p, snd p).
  Definition app_ev (es : list event) (p : list event * nat) : list event * nat := (es ++ fst p, snd p).

  Fixpoint spec_from (args : list str) (idx : nat) {struct args} : list event * nat :=
    match args with
    | [] => ([], idx)
    | w :: rest =>
      match classify w with
      | WOperand => ([], idx)                   (* not consumed *)
      | WDashDash => ([], S idx)                (* consumed *)
      | WLong body =>
        match look_long body with
        | None => cons_ev (Default w) (spec_from rest (S idx))
        | Some (name, false, None) => cons_ev (Opt name) (spec_from rest (S idx))
        | Some (name, false, Some _) => cons_ev (Default name) (spec_from rest (S idx))
        | Some (name, true, Some v) => cons_ev (OptArg name v) (spec_from rest (S idx))
        | Some (name, true, None) =>
          match rest with
          | a :: rest' => cons_ev (OptArg name a) (spec_from rest' (S (S idx)))
          | [] => ([missing_ev name], S idx)
          end
        end
      | WPack cs =>
        match spec_pack cs with
        | (evs, PDone) => app_ev evs (spec_from rest (S idx))
        | (evs, PNeed name) =>
          match rest with
          | a :: rest' => app_ev evs (cons_ev (OptArg name a) (spec_from rest' (S (S idx))))
          | [] => (evs ++ [missing_ev name], S idx)
          end
        end
      end
    end.
End GenericSpec.

(* the documented resolution: exact name, --name=value split at the first '=' *)
Fixpoint lookup (t : table) (name : str) : option bool :=
  match t with
  | [] => None
  | None :: r => lookup r name
  | Some (n, h) :: r => if str_eqb n name then Some h else lookup r name
  end.

Fixpoint split_eq (b : str) : str * option str :=
  match b with
  | [] => ([], None)
  | c :: r => if N.eqb c EQC then ([], Some r)
              else (let (n, v) := split_eq r in (c :: n, v))
  end.

Definition doc_short (t : table) (c : N) : option (str * bool) :=
  match lookup t [DASH; c] with Some h => Some ([DASH; c], h) | None => None end.

Definition doc_long (t : table) (body : str) : option (str * bool * option str) :=
  let (n, v) := split_eq body in
  match lookup t (DASH :: DASH :: n) with
  | Some h => Some (DASH :: DASH :: n, h, v)
  | None => None
  end.

Definition spec (t : table) (miss : bool) (argv : list str) : list event * nat :=
  spec_from (doc_short t) (doc_long t) miss (tl argv) 1.

(* the resolution as searchopt performs it: first slot whose name is a prefix followed by the
   end of the string or '=' (coincides with the documented one on well-formed tables) *)
Fixpoint strip_prefix (n s : str) : option str :=
  match n with
  | [] => Some s
  | c :: n' => match s with
               | x :: s' => if N.eqb x c then strip_prefix n' s' else None
               | [] => None
               end
  end.

Fixpoint first_match (t : table) (s : str) : option (str * bool * option str) :=
  match t with
  | [] => None
  | None :: r => first_match r s
  | Some (n, h) :: r =>
    match strip_prefix n s with
    | Some [] => Some (n, h, None)
    | Some (c :: v) => if N.eqb c EQC then Some (n, h, Some v) else first_match r s
    | None => first_match r s
    end
  end.

Definition cod_short (t : table) (c : N) : option (str * bool) :=
  match first_match t [DASH; c] with Some (n, h, _) => Some (n, h) | None => None end.
Definition cod_long (t : table) (body : str) : option (str * bool * option str) :=
  first_match t (DASH :: DASH :: body).

Definition spec_coded (t : table) (miss : bool) (argv : list str) : list event * nat :=
  spec_from (cod_short t) (cod_long t) miss (tl argv) 1.

Definition is_some {A} (o : option A) : bool := match o with Some _ => true | None => false end.

(* ---- which tables the registration pass accepts (computable): going through the labels in
   slot (= source line) order, each name is "-x" or "--long" and no EARLIER label's name is this
   name or this name's part before an '=' -- i.e. searchopt finds nothing among the slots filled so
   far.  A table that is not accepted makes getopt_register_opt DIE. ---- *)
Fixpoint acceptb (done rem : table) : bool :=
  match rem with
  | [] => true
  | None :: r => acceptb (done ++ [None]) r
  | Some (os, h) :: r =>
    valid_name os && negb (is_some (first_match done os)) && acceptb (done ++ [Some (os, h)]) r
  end.
Definition reg_accepts (t : table) : Prop := acceptb [] t = true.
