(* Checked stores and copies into byte objects (companions of Base.CheckedMem.rd), shared by the
   codec2 models: a store outside the object is a Fault. *)
From Coq Require Import Arith NArith List Lia.
From LCP Require Import Base.CheckedMem.
Import ListNotations.
Local Open Scope res_scope.

(* buf[i] = v on an object that is exactly the list buf *)
Fixpoint wr (buf : list N) (i : nat) (v : N) {struct buf} : res (list N) :=
  match buf, i with
  | [], _ => Fault
  | _ :: r, O => Ok (v :: r)
  | b :: r, S k => let* r' := wr r k v in Ok (b :: r')
  end.

(* memcpy(dst + doff, src + soff, n): every byte read and written through the checked accessors *)
Fixpoint memcpy_m (dst : list N) (doff : nat) (src : list N) (soff n : nat) {struct n} : res (list N) :=
  match n with
  | O => Ok dst
  | S n' =>
    let* b := rd src soff in
    let* d := wr dst doff b in
    memcpy_m d (S doff) src (S soff) n'
  end.

(* strlen(s + off) on an object: Fault when no terminator is found inside the object *)
Fixpoint strlen_from (fuel : nat) (s : list N) (off : nat) (acc : nat) {struct fuel} : res nat :=
  match fuel with
  | O => Fault
  | S f =>
    let* c := rd s (off + acc) in
    if N.eqb c 0 then Ok acc else strlen_from f s off (S acc)
  end.
Definition strlen_m (s : list N) (off : nat) : res nat := strlen_from (S (length s)) s off 0.

(* the bytes of the string starting at off (without the terminator) *)
Definition cstr_at (s : list N) (off : nat) : res (list N) :=
  let* n := strlen_m s off in Ok (firstn n (skipn off s)).

(* malloc(n) followed by nothing: an object of n bytes with unspecified (here: given) filler *)
Definition alloc (n : nat) (fill : N) : list N := repeat fill n.

(* sweep over all x < n for binary n (the nat-indexed sweeps of Base.Sweep are unary) *)
Definition forall_below (n : N) (P : N -> bool) : bool :=
  fst (N.iter n (fun st : bool * N => (andb (fst st) (P (snd st)), N.succ (snd st))) (true, 0%N)).
