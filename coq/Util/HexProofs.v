(* Proofs about util/hexify.c's model: it equals the spec, decoding inverts encoding,
   the decoder accepts exactly the hex strings, and no read leaves the input string. *)
From Coq Require Import Arith NArith List Lia Bool.
From LCP Require Import Base.CheckedMem Base.Sweep Gen.Repo_codec Util.Hex.
Import ListNotations.
Local Open Scope N_scope.

(* ---- table facts, by a 256-entry sweep over the regenerated table ---- *)
Definition enc_ok (b : N) : bool :=
  match tbl_at hexchars (N.shiftr b 4), tbl_at hexchars (N.land b 15) with
  | Ok h, Ok l => (h =? hexdigit_lower (b / 16)) && (l =? hexdigit_lower (b mod 16))
  | _, _ => false
  end.

Lemma enc_sweep : forallb enc_ok (N_range 256) = true.
Proof. vm_compute. reflexivity. Qed.

Lemma enc_byte b : b < 256 ->
  tbl_at hexchars (N.shiftr b 4) = Ok (hexdigit_lower (b / 16)) /\
  tbl_at hexchars (N.land b 15) = Ok (hexdigit_lower (b mod 16)).
Proof.
  intros Hb. pose proof (sweep_byte _ enc_sweep b Hb) as H. unfold enc_ok in H.
  destruct (tbl_at hexchars (N.shiftr b 4)); try discriminate.
  destruct (tbl_at hexchars (N.land b 15)); try discriminate.
  apply andb_true_iff in H. destruct H as [H1 H2].
  apply N.eqb_eq in H1, H2. subst. split; reflexivity.
Qed.

Definition dec_ok (c : N) : bool :=
  match find_idx c hexchars, hexval c with
  | Some p, Some v => (N.land (N.of_nat p) 15 =? v) && (v <? 16) && negb (c =? 0)
  | None, None => true
  | _, _ => false
  end.

Lemma dec_sweep : forallb dec_ok (N_range 256) = true.
Proof. vm_compute. reflexivity. Qed.

Lemma dec_byte c : c < 256 ->
  (exists p v, find_idx c hexchars = Some p /\ hexval c = Some v /\
               N.land (N.of_nat p) 15 = v /\ v < 16 /\ c <> 0) \/
  (find_idx c hexchars = None /\ hexval c = None).
Proof.
  intros Hc. pose proof (sweep_byte _ dec_sweep c Hc) as H. unfold dec_ok in H.
  destruct (find_idx c hexchars) as [p|], (hexval c) as [v|]; try discriminate.
  - left. exists p, v. apply andb_true_iff in H. destruct H as [H H3].
    apply andb_true_iff in H. destruct H as [H1 H2].
    apply N.eqb_eq in H1. apply N.ltb_lt in H2. apply negb_true_iff in H3. apply N.eqb_neq in H3.
    repeat split; auto.
  - right. split; reflexivity.
Qed.

(* ---- encoder ---- *)
Lemma hexify_correct bs :
  bytes_ok bs -> hexify_m hexchars bs = Ok (hex_spec bs ++ [0]).
Proof.
  induction bs as [|b r IH]; intros H; [reflexivity|].
  inversion H as [|? ? Hb Hr]; subst. cbn [hexify_m hex_spec flat_map].
  destruct (enc_byte b Hb) as [E1 E2]. rewrite E1, E2. cbn [bind].
  fold (hex_spec r). rewrite (IH Hr). reflexivity.
Qed.

Lemma hex_spec_length bs : length (hex_spec bs) = (2 * length bs)%nat.
Proof. induction bs as [|b r IH]; simpl; lia. Qed.

Lemma hexdigit_lower_lowercase v : v < 16 ->
  let c := hexdigit_lower v in (48 <= c <= 57) \/ (97 <= c <= 102).
Proof. intros H. unfold hexdigit_lower. destruct (N.ltb_spec v 10); lia. Qed.

(* ---- decoder ---- *)
Fixpoint scan_spec (suf : list N) (n : nat) {struct n} : bool :=
  match n with
  | O => true
  | S n' => match suf with [] => false | c :: r => is_hexdigit c && scan_spec r n' end
  end.

Lemma scan_model pre suf n :
  bytes_ok suf ->
  unhex_scan hexchars (pre ++ cstr suf) (length pre) n = Ok (scan_spec suf n).
Proof.
  revert pre suf. induction n as [|n IH]; intros pre suf Hs; [reflexivity|].
  cbn [unhex_scan scan_spec]. destruct suf as [|c r].
  - unfold cstr. simpl app. replace (length pre) with (length pre + 0)%nat at 1 by lia.
    rewrite rd_app_r. reflexivity.
  - inversion Hs as [|? ? Hc Hr]; subst.
    replace (length pre) with (length pre + 0)%nat at 1 by lia.
    rewrite rd_app_r. unfold cstr. cbn [app rd nth_error bind].
    unfold in_tbl, is_hexdigit.
    destruct (dec_byte c Hc) as [(p & v & E1 & E2 & _ & _ & Hnz) | [E1 E2]]; rewrite E1, E2.
    + apply N.eqb_neq in Hnz. rewrite Hnz. cbn [orb negb andb].
      specialize (IH (pre ++ [c]) r Hr). rewrite app_length in IH. simpl in IH.
      rewrite <- app_assoc in IH. simpl in IH. replace (S (length pre)) with (length pre + 1)%nat by lia.
      exact IH.
    + rewrite orb_true_r. reflexivity.
Qed.

Lemma scan_false_spec_none suf len :
  scan_spec suf (2 * len) = false -> unhex_spec suf len = None.
Proof.
  revert suf. induction len as [|len IH]; intros suf H; [discriminate|].
  replace (2 * S len)%nat with (S (S (2 * len))) in H by lia. cbn [scan_spec] in H. cbn [unhex_spec].
  destruct suf as [|a [|b r]]; try reflexivity.
  unfold is_hexdigit in H.
  destruct (hexval a); [|reflexivity]. destruct (hexval b); [|reflexivity].
  simpl in H. rewrite (IH r H). reflexivity.
Qed.

Lemma conv_model pre suf i len :
  bytes_ok suf -> length pre = (2 * i)%nat ->
  scan_spec suf (2 * len) = true ->
  exists out, unhex_conv hexchars (pre ++ cstr suf) i len = Ok out /\
              unhex_spec suf len = Some out.
Proof.
  revert pre suf i. induction len as [|len IH]; intros pre suf i Hs Hev H.
  - exists []. split; reflexivity.
  - replace (2 * S len)%nat with (S (S (2 * len))) in H by lia. cbn [scan_spec] in H.
    destruct suf as [|a [|b r]]; try discriminate.
    { rewrite andb_false_r in H. discriminate. }
    inversion Hs as [|? ? Ha Hs']; subst. inversion Hs' as [|? ? Hb Hr]; subst.
    apply andb_true_iff in H. destruct H as [Ha' H]. apply andb_true_iff in H. destruct H as [Hb' H].
    cbn [unhex_conv unhex_spec].
    rewrite <- Hev.
    rewrite (rd_app_r pre (cstr (a :: b :: r)) 1).
    pose proof (rd_app_r pre (cstr (a :: b :: r)) 0) as R0. rewrite Nat.add_0_r in R0. rewrite R0. clear R0.
    unfold cstr. cbn [app rd nth_error bind].
    unfold is_hexdigit in Ha', Hb'.
    destruct (dec_byte a Ha) as [(pa & va & E1 & E2 & E3 & E4 & _) | [E1 E2]]; rewrite E2 in Ha'; [|discriminate].
    destruct (dec_byte b Hb) as [(pb & vb & F1 & F2 & F3 & F4 & _) | [F1 F2]]; rewrite F2 in Hb'; [|discriminate].
    rewrite E1, F1.
    specialize (IH (pre ++ [a; b]) r (S i) Hr).
    rewrite app_length in IH. simpl length in IH.
    rewrite <- app_assoc in IH. simpl app in IH.
    destruct IH as (out & I1 & I2); [lia | exact H |].
    unfold cstr in I1. rewrite I1, I2. cbn [bind].
    eexists. split; [reflexivity|]. rewrite E2, F2. f_equal. f_equal.
    rewrite E3, F3. rewrite N.shiftl_mul_pow2. change (2 ^ 4) with 16.
    rewrite (N.mod_small (va * 16) 256) by lia. rewrite N.mod_small by lia. lia.
Qed.

(* The model of unhexify on a C string equals the spec: in particular it never faults
   (never reads past the terminator) and accepts exactly strings starting with 2*len hex digits. *)
Theorem unhexify_correct s len :
  bytes_ok s -> unhexify_m hexchars (cstr s) len = Ok (unhex_spec s len).
Proof.
  intros Hs. unfold unhexify_m.
  pose proof (scan_model [] s (2 * len) Hs) as Hscan. cbn [app length] in Hscan. rewrite Hscan. cbn [bind].
  destruct (scan_spec s (2 * len)) eqn:E.
  - destruct (conv_model [] s 0%nat len Hs eq_refl E) as (out & C1 & C2).
    cbn [app] in C1. rewrite C1, C2. reflexivity.
  - rewrite (scan_false_spec_none _ _ E). reflexivity.
Qed.

(* hexval inverts hexdigit_lower *)
Lemma hexval_lower v : v < 16 -> hexval (hexdigit_lower v) = Some v.
Proof.
  intros H. assert (In v (N_range 16)) as Hin by (apply in_N_range; exact H).
  revert v H Hin. 
  assert (forallb (fun v => match hexval (hexdigit_lower v) with Some w => w =? v | None => false end)
                  (N_range 16) = true) as Hs by (vm_compute; reflexivity).
  intros v H Hin. rewrite forallb_forall in Hs. specialize (Hs v Hin).
  destruct (hexval (hexdigit_lower v)); [|discriminate]. apply N.eqb_eq in Hs. subst. reflexivity.
Qed.

Lemma unhex_spec_hex_spec bs rest :
  bytes_ok bs -> unhex_spec (hex_spec bs ++ rest) (length bs) = Some bs.
Proof.
  induction bs as [|b r IH]; intros H; [reflexivity|].
  inversion H as [|? ? Hb Hr]; subst. unfold is_byte in Hb.
  cbn [hex_spec flat_map length unhex_spec app]. fold (hex_spec r).
  rewrite hexval_lower by (apply N.div_lt_upper_bound; lia).
  rewrite hexval_lower by (apply N.mod_lt; lia).
  rewrite (IH Hr). f_equal. f_equal. pose proof (N.div_mod b 16). lia.
Qed.

Lemma hex_spec_bytes_ok bs : bytes_ok bs -> bytes_ok (hex_spec bs).
Proof.
  induction bs as [|b r IH]; intros H; [constructor|].
  inversion H as [|? ? Hb Hr]; subst. unfold is_byte in Hb.
  cbn [hex_spec flat_map]. fold (hex_spec r).
  assert (forall v, v < 16 -> is_byte (hexdigit_lower v)) as Hd.
  { intros v Hv. unfold is_byte, hexdigit_lower. destruct (N.ltb_spec v 10); lia. }
  constructor; [apply Hd, N.div_lt_upper_bound; lia|].
  constructor; [apply Hd, N.mod_lt; lia|]. apply IH, Hr.
Qed.

Theorem unhexify_hexify bs :
  bytes_ok bs ->
  exists enc, hexify_m hexchars bs = Ok (cstr enc) /\ unhexify_m hexchars (cstr enc) (length bs) = Ok (Some bs).
Proof.
  intros H. exists (hex_spec bs). split; [apply hexify_correct, H|].
  rewrite unhexify_correct by (apply hex_spec_bytes_ok, H).
  rewrite <- (app_nil_r (hex_spec bs)). rewrite unhex_spec_hex_spec by exact H. reflexivity.
Qed.

(* acceptance: exactly when the first 2*len characters exist and are hex digits (either case) *)
Theorem unhex_spec_accepts_iff s len :
  (exists out, unhex_spec s len = Some out) <->
  ((2 * len <= length s)%nat /\ forallb is_hexdigit (firstn (2 * len) s) = true).
Proof.
  revert s. induction len as [|len IH]; intros s.
  - simpl. split; [intros _; split; [lia|reflexivity] | intros _; eexists; reflexivity].
  - replace (2 * S len)%nat with (S (S (2 * len))) by lia. cbn [unhex_spec].
    destruct s as [|a [|b r]].
    + split; [intros [? H]; discriminate | intros [H _]; simpl in H; lia].
    + split; [intros [? H]; discriminate | intros [H _]; simpl in H; lia].
    + cbn [firstn forallb length]. unfold is_hexdigit at 1 2.
      destruct (hexval a); [|split; [intros [? H]; discriminate | intros [_ H]; discriminate]].
      destruct (hexval b); [|split; [intros [? H]; discriminate | intros [_ H]; simpl in H; discriminate]].
      cbn [andb]. specialize (IH r). split.
      * intros [out H]. destruct (unhex_spec r len) eqn:E; [|discriminate].
        destruct IH as [IH _]. destruct IH as [I1 I2]; [eexists; reflexivity|]. split; [lia|exact I2].
      * intros [H1 H2]. destruct IH as [_ IH]. destruct IH as [out E]; [split; [lia|exact H2]|].
        rewrite E. eexists; reflexivity.
Qed.

(* non-vacuity *)
Example hexify_example :
  hexify_m hexchars [0; 171; 255] = Ok (cstr [48; 48; 97; 98; 102; 102]).
Proof. vm_compute. reflexivity. Qed.
Example unhexify_example_upper :
  unhexify_m hexchars (cstr [65; 98; 70; 48; 120]) 2 = Ok (Some [171; 240]).
Proof. vm_compute. reflexivity. Qed.
Example unhexify_example_short :
  unhexify_m hexchars (cstr [65; 98; 70]) 2 = Ok None.
Proof. vm_compute. reflexivity. Qed.
