(* The port parser of SockText.v ([parse_port], written by hand for util/sock.c's
   PARSENUM_EX(&p, ports, 1, 65535, 10, 0) with long p) IS the numeral parser of the parsenum area:
   - [parse_port_is_parse_spec]: on every string it gives what the grammar-level spec
     Util/ParsenumSpec.parse_spec prescribes for a signed 64-bit target with the bounds, base and
     trailing flag regenerated from util/sock.c (EINVAL and ERANGE both being "rejected");
   - [parse_port_is_parsenum_ex]: hence (C16's exactness theorem) it is the outcome of the MODEL of
     the macro itself (Util/Parsenum.parsenum_ex6 on checked memory, strtoimax of Util/Strto.v).
   So the socket-address theorems that mention parse_port rest on the one proved numeral parser.
   Nothing of the parsenum area is modified; its files are only imported. *)
From Coq Require Import Arith NArith ZArith List Lia Bool.
From LCP Require Import Base.CheckedMem Base.Sweep Gen.Repo_codec2 Util.SockText Util.ParsenumSpec.
From LCP Require Util.Parsenum Util.ParsenumProofs.
Import ListNotations.
Local Open Scope N_scope.

(* what the caller of PARSENUM_EX sees: the stored value on success, nothing otherwise *)
Definition port_of_presult (r : presult) : option N :=
  match r with OkV v => Some (Z.to_N v) | _ => None end.

(* the arguments of the macro call in sock_resolve, as the spec takes them *)
Definition port_min_z : Z := Z.of_N port_min.
Definition port_max_z : Z := Z.of_N port_max.
Definition port_base_z : Z := Z.of_N port_base.
Definition port_trailing_b : bool := negb (port_trailing =? 0).

(* ---- facts about the regenerated constants (all that the proof uses of them) ---- *)
Lemma port_base_not_0 : (port_base_z =? 0)%Z = false.
Proof. vm_compute. reflexivity. Qed.
Lemma port_base_not_16 : base16_ok port_base_z = false.
Proof. vm_compute. reflexivity. Qed.
Lemma port_max_below_intmax : (port_max_z < 2 ^ 63 - 1)%Z.
Proof. vm_compute. reflexivity. Qed.

(* ---- white space ---- *)
Lemma isspace_blank c : isspace c = blank c.
Proof.
  unfold isspace, blank. cbn [existsb].
  destruct (N.eqb_spec c 32) as [->|H32]; [reflexivity|].
  destruct (N.leb_spec 9 c) as [H9|H9]; destruct (N.leb_spec c 13) as [H13|H13]; cbn [andb orb].
  - assert (c = 9 \/ c = 10 \/ c = 11 \/ c = 12 \/ c = 13) as [->|[->|[->|[->| ->]]]] by lia; reflexivity.
  - repeat match goal with |- context [N.eqb c ?k] => destruct (N.eqb_spec c k); [lia|] end. reflexivity.
  - repeat match goal with |- context [N.eqb c ?k] => destruct (N.eqb_spec c k); [lia|] end. reflexivity.
  - lia.
Qed.

Lemma skip_space_drop_blanks s : skip_space s = drop_blanks s.
Proof.
  induction s as [|c r IH]; [reflexivity|]. cbn [skip_space drop_blanks].
  rewrite isspace_blank, IH. reflexivity.
Qed.

(* ---- digits ---- *)
Definition optZ_same (a b : option Z) : bool :=
  match a, b with Some x, Some y => (x =? y)%Z | None, None => true | _, _ => false end.
Lemma optZ_same_eq a b : optZ_same a b = true -> a = b.
Proof.
  destruct a, b; cbn; try discriminate; try reflexivity. intros H. apply Z.eqb_eq in H. congruence.
Qed.

Lemma digit_sweep :
  forallb (fun c => optZ_same (digit_in port_base_z c) (option_map Z.of_N (digit_of c))) (N_range 256) = true.
Proof. vm_compute. reflexivity. Qed.

Lemma find_idx_high c tbl : Forall (fun x => x < 256) tbl -> 256 <= c -> find_idx c tbl = None.
Proof.
  intros F Hc. induction F as [|x l Hx F IH]; [reflexivity|]. cbn [find_idx].
  destruct (N.eqb_spec x c); [lia|]. rewrite IH. reflexivity.
Qed.

Lemma alphabet36_bytes : Forall (fun x => x < 256) alphabet36.
Proof. unfold alphabet36. repeat (constructor; [reflexivity|]). constructor. Qed.

Lemma digit_agree c : digit_in port_base_z c = option_map Z.of_N (digit_of c).
Proof.
  destruct (N.lt_ge_cases c 256) as [Hc|Hc].
  - apply optZ_same_eq. exact (sweep_byte _ digit_sweep c Hc).
  - unfold digit_in, digit_value, digit_of, lower.
    replace (c <=? 90) with false by (symmetry; apply N.leb_gt; lia).
    replace (c <=? 57) with false by (symmetry; apply N.leb_gt; lia).
    rewrite !andb_false_r. cbn [andb].
    rewrite (find_idx_high c alphabet36 alphabet36_bytes Hc). reflexivity.
Qed.

(* the maximal digit run: same digits, same rest, value = positional value *)
Lemma digit_run_take : forall s cnt acc,
  match take_digits port_base_z s with
  | (ds, rest) =>
    exists v, digit_run s cnt acc = ((cnt + length ds)%nat, v, rest) /\
              Z.of_N v = fold_left (fun a d => (a * port_base_z + d)%Z) ds (Z.of_N acc)
  end.
Proof.
  induction s as [|c r IH]; intros cnt acc.
  - cbn. exists acc. split; [rewrite Nat.add_0_r; reflexivity | reflexivity].
  - cbn [take_digits digit_run]. rewrite digit_agree. destruct (digit_of c) as [d|]; cbn [option_map].
    + specialize (IH (S cnt) (acc * port_base + d)).
      destruct (take_digits port_base_z r) as [ds rest]. destruct IH as [v [E Hv]].
      exists v. split.
      * rewrite E. cbn [length]. rewrite Nat.add_succ_r. reflexivity.
      * rewrite Hv. cbn [fold_left]. unfold port_base_z. rewrite N2Z.inj_add, N2Z.inj_mul. reflexivity.
    + exists acc. split; [rewrite Nat.add_0_r; reflexivity | reflexivity].
Qed.

Lemma fold_digits_nonneg ds : forall z, (0 <= z)%Z -> Forall (fun d => (0 <= d)%Z) ds ->
  (0 <= fold_left (fun a d => (a * port_base_z + d)%Z) ds z)%Z.
Proof.
  induction ds as [|d ds IH]; intros z Hz F; [exact Hz|]. cbn [fold_left]. inversion F; subst.
  apply IH; [|assumption]. assert (0 <= port_base_z)%Z by (unfold port_base_z; lia). nia.
Qed.

(* ---- sign ---- *)
Lemma sign_split (s1 : list N) :
  match s1 with
  | 45 :: r => (true, r)
  | 43 :: r => (false, r)
  | _ => (false, s1)
  end = split_sign s1.
Proof.
  destruct s1 as [|c r]; [reflexivity|]. unfold split_sign.
  destruct (N.eqb_spec c 45) as [->|H45]; [reflexivity|].
  destruct (N.eqb_spec c 43) as [->|H43]; [reflexivity|].
  destruct c as [|p]; [reflexivity|].
  repeat (destruct p as [p|p|]; try reflexivity; try congruence).
Qed.

(* ---- base selection: no 0x prefix, no octal, for the base used by sock_resolve ---- *)
Lemma select_base_plain s : select_base port_base_z s = (port_base_z, s).
Proof.
  unfold select_base. rewrite port_base_not_0, port_base_not_16.
  destruct s as [|z [|x [|h r]]]; try reflexivity.
  rewrite andb_false_r. reflexivity.
Qed.

(* ---- the statement ---- *)
Theorem parse_port_is_parse_spec : forall s,
  parse_port s =
  port_of_presult (parse_spec KSigned 64 port_min_z port_max_z port_base_z port_trailing_b s).
Proof.
  intros s. unfold parse_port, parse_spec, numeral.
  rewrite skip_space_drop_blanks, sign_split.
  destruct (split_sign (drop_blanks s)) as [neg s2].
  rewrite select_base_plain.
  pose proof (digit_run_take s2 0 0) as R.
  destruct (take_digits port_base_z s2) as [ds rest]. destruct R as [v [E Hv]]. rewrite E.
  destruct ds as [|d ds]; [reflexivity|].
  cbn [Nat.add length Nat.eqb].
  change (Z.of_N 0) with 0%Z in Hv. fold (value_of port_base_z (d :: ds)) in Hv.
  set (V := value_of port_base_z (d :: ds)) in *.
  pose proof port_max_below_intmax as Hmax.
  assert (Hmin : (0 <= port_min_z)%Z) by (unfold port_min_z; lia).
  assert (Hmx : port_max_z = Z.of_N port_max) by reflexivity.
  assert (Hmn : port_min_z = Z.of_N port_min) by reflexivity.
  change (typemin KSigned 64) with (-9223372036854775808)%Z.
  change (typemax KSigned 64) with 9223372036854775807%Z.
  change (2 ^ 63 - 1)%Z with 9223372036854775807%Z in Hmax.
  unfold intmax_max. change (2 ^ 63 - 1) with 9223372036854775807.
  change (9223372036854775807 + 1) with 9223372036854775808.
  unfold port_trailing_b.
  destruct (port_trailing =? 0); destruct rest as [|c0 rest0]; cbn [andb negb];
    try reflexivity.
  all: destruct neg.
  all: repeat match goal with
       | |- context [N.ltb ?a ?b] => destruct (N.ltb_spec a b)
       | |- context [N.eqb ?a ?b] => destruct (N.eqb_spec a b)
       | |- context [Z.leb ?a ?b] => destruct (Z.leb_spec a b)
       end; cbn [andb orb port_of_presult]; try reflexivity; try (f_equal; lia); try lia.
Qed.

(* ---- and therefore the model of the macro itself (C16_parsenum_signed_exact) ---- *)
Theorem parse_port_is_parsenum_ex : forall s sd, bytes_ok s -> no_nul s ->
  Parsenum.map_res (fun o => port_of_presult (Parsenum.presult_of o))
    (Parsenum.parsenum_ex6 {| Parsenum.ck := KSigned; Parsenum.cw := 64 |} (cstr s)
                           port_min_z port_max_z port_base_z port_trailing_b sd)
  = Ok (parse_port s).
Proof.
  intros s sd Hb Hn.
  assert (W : width_ok 64) by (right; right; right; reflexivity).
  assert (Hlo : (typemin KSigned 64 <= port_min_z <= typemax KSigned 64)%Z)
    by (vm_compute; split; discriminate).
  assert (Hhi : (typemin KSigned 64 <= port_max_z <= typemax KSigned 64)%Z)
    by (vm_compute; split; discriminate).
  assert (Hbase : base_ok port_base_z) by (right; vm_compute; split; discriminate).
  pose proof (ParsenumProofs.parsenum_signed_exact_proof 64 port_min_z port_max_z port_base_z
                port_trailing_b s sd W Hlo Hhi Hbase Hb Hn) as P.
  rewrite parse_port_is_parse_spec.
  destruct (Parsenum.parsenum_ex6 _ _ _ _ _ _ _) as [o| | |]; cbn in P |- *; try discriminate.
  inversion P as [P']. reflexivity.
Qed.

(* non-trivial instances: an accepted port with blanks, sign and leading zeros; both kinds of rejection *)
Example parse_port_instances :
  parse_port [32; 43; 48; 56; 48] = Some 80 /\                               (* " +080" *)
  parse_spec KSigned 64 port_min_z port_max_z port_base_z port_trailing_b [32; 43; 48; 56; 48] = OkV 80 /\
  parse_port [54; 53; 53; 51; 54] = None /\                                  (* "65536" *)
  parse_spec KSigned 64 port_min_z port_max_z port_base_z port_trailing_b [54; 53; 53; 51; 54] = ERANGE /\
  parse_port [56; 48; 32] = None /\                                          (* "80 " *)
  parse_spec KSigned 64 port_min_z port_max_z port_base_z port_trailing_b [56; 48; 32] = EINVAL.
Proof. vm_compute. repeat split; reflexivity. Qed.
