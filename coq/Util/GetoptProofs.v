(* Proofs about util/getopt.c's model, part 3: registration, the run theorems
   (model = reference parser, reset = fresh, no fault), and the stopping rules. *)
From Coq Require Import Arith NArith List Lia Bool.
From LCP Require Import Base.CheckedMem Util.Getopt Util.GetoptSearch Util.GetoptSteps.
Import ListNotations.
Local Open Scope res_scope.

(* ---------------- well-formed tables ---------------- *)
(* "-x" or "--long" (what getopt_register_opt insists on), NUL-free (olen = strlen), and no '='
   inside a long name (the grammar of the header comment reserves '=' for --name=value) *)
Definition name_ok (n : str) : Prop :=
  valid_name n = true /\ no_nul n /\ (forall r, n = DASH :: DASH :: r -> ~ In EQC r).

Definition names (t : table) : list str :=
  flat_map (fun sl : slot => match sl with Some (n, _) => [n] | None => [] end) t.

Definition wf_table (t : table) : Prop := Forall name_ok (names t) /\ NoDup (names t).

Lemma names_cons_some n h (t : table) : names (Some (n, h) :: t) = n :: names t.
Proof. reflexivity. Qed.
Lemma names_cons_none (t : table) : names (None :: t) = names t.
Proof. reflexivity. Qed.
Lemma names_app (a b : table) : names (a ++ b) = names a ++ names b.
Proof. unfold names. apply flat_map_app. Qed.
Lemma names_repeat k : names (repeat None k) = [].
Proof. induction k; [reflexivity|]. cbn [repeat]. rewrite names_cons_none. exact IHk. Qed.

Lemma names_ok_nn (t : table) : Forall name_ok (names t) -> names_nn t.
Proof.
  induction t as [|[[n h]|] r IH]; intros H; [constructor| |].
  - rewrite names_cons_some in H. inversion H as [|? ? H1 H2]; subst. constructor; [|apply IH; exact H2].
    destruct H1 as (_ & H1 & _). exact H1.
  - constructor; [exact I | apply IH; exact H].
Qed.

Lemma names_ok_valid (t : table) : Forall name_ok (names t) -> names_valid t.
Proof.
  induction t as [|[[n h]|] r IH]; intros H; [constructor| |].
  - rewrite names_cons_some in H. inversion H as [|? ? H1 H2]; subst. constructor; [|apply IH; exact H2].
    destruct H1 as (H1 & _). exact H1.
  - constructor; [exact I | apply IH; exact H].
Qed.

(* a registered name never has the form  other-registered-name '=' anything *)
Lemma name_ok_no_eq_ext n os v : valid_name n = true -> name_ok os -> os <> n ++ EQC :: v.
Proof.
  intros Hn (Hv & _ & Hne) E.
  destruct (valid_name_len n Hn) as (c & r & ->). subst os. cbn [app] in *.
  cbn [valid_name] in Hv. rewrite N.eqb_refl in Hv. cbn [andb] in Hv.
  destruct (N.eqb c DASH) eqn:Ec.
  - apply N.eqb_eq in Ec. subst c. apply (Hne (r ++ EQC :: v) eq_refl). apply in_or_app. right. left. reflexivity.
  - destruct r; discriminate.
Qed.

(* ---------------- registration ---------------- *)
Lemma set_nth_mid (done : table) (x : slot) (rest : table) (v : slot) :
  set_nth (done ++ x :: rest) (length done) v = done ++ v :: rest.
Proof. induction done as [|d done IH]; [reflexivity|]. cbn [app length set_nth]. rewrite IH. reflexivity. Qed.

Lemma nth_error_mid (done : table) (x : slot) (rest : table) : nth_error (done ++ x :: rest) (length done) = Some x.
Proof. rewrite nth_error_app2 by lia. rewrite Nat.sub_diag. reflexivity. Qed.

Lemma names_nn_app (a b : table) : names_nn (a ++ b) <-> names_nn a /\ names_nn b.
Proof. unfold names_nn. apply Forall_app. Qed.

Lemma names_nn_repeat k : names_nn (repeat None k).
Proof. unfold names_nn. apply Forall_forall. intros x Hx. apply repeat_spec in Hx. subst. exact I. Qed.

Lemma names_valid_app (a b : table) : names_valid (a ++ b) <-> names_valid a /\ names_valid b.
Proof. unfold names_valid. apply Forall_app. Qed.

(* one register_opt on a state being initialised *)
Lemma register_opt_outcome s (done rest : table) os h d :
  g_optreset s = false -> g_init s = false -> g_opts s = Some (done ++ None :: rest) -> g_default s = d ->
  names_nn done -> names_nn rest -> no_nul os ->
  register_opt s os (length done) h =
  if negb (valid_name os) then AssertFail
  else match fm (done ++ None :: rest) 0 os with
       | Some (j, _, _, _) => if j =? d then Ok (set_opts (Some (done ++ Some (os, h) :: rest)) s) else AssertFail
       | None => Ok (set_opts (Some (done ++ Some (os, h) :: rest)) s)
       end.
Proof.
  intros H1 H2 H3 H4 Hd Hr Hos. unfold register_opt. rewrite H1, H2, H3. rewrite nth_error_mid.
  destruct (valid_name os); cbn [negb]; [|reflexivity].
  unfold searchopt. rewrite H3.
  rewrite (searchopt_from_spec (done ++ None :: rest)) by
      (first [exact Hos | apply names_nn_app; split; [exact Hd | constructor; [exact I | exact Hr]]]).
  cbn [bind]. rewrite H4. rewrite set_nth_mid.
  destruct (fm (done ++ None :: rest) 0 os) as [[[[j ?] ?] ?]|].
  - destruct (j =? d); reflexivity.
  - rewrite Nat.eqb_refl. reflexivity.
Qed.

Lemma fm_lt t i s j n h v : fm t i s = Some (j, n, h, v) -> j < i + length t.
Proof. intros H. apply fm_some in H. lia. Qed.

(* the registration pass either is refused (DIE) or leaves exactly the table, all names valid *)
Lemma register_all_outcome (rem : table) : forall (done : table) s,
  g_optreset s = false -> g_init s = false -> g_opts s = Some (done ++ repeat None (length rem)) ->
  g_default s = S (length (done ++ rem)) ->
  names_nn done -> names_nn rem ->
  register_all s rem (length done) = AssertFail \/
  (register_all s rem (length done) = Ok (set_opts (Some (done ++ rem)) s) /\ names_valid rem).
Proof.
  induction rem as [|[[os h]|] rem IH]; intros done s H1 H2 H3 H4 Hd Hr.
  - right. cbn [register_all]. rewrite app_nil_r. split; [|constructor].
    cbn [length repeat] in H3. rewrite app_nil_r in H3. destruct s. cbn in *. subst. reflexivity.
  - cbn [register_all]. cbn [length repeat] in H3.
    inversion Hr as [|? ? Hos Hr']; subst.
    rewrite (register_opt_outcome s done (repeat None (length rem)) os h _ H1 H2 H3 H4 Hd (names_nn_repeat _) Hos).
    destruct (valid_name os) eqn:Hv; cbn [negb]; [|left; reflexivity].
    assert (forall s1, s1 = set_opts (Some (done ++ Some (os, h) :: repeat None (length rem))) s ->
              (let* s2 := Ok s1 in register_all s2 rem (S (length done))) = AssertFail \/
              ((let* s2 := Ok s1 in register_all s2 rem (S (length done))) =
               Ok (set_opts (Some (done ++ Some (os, h) :: rem)) s) /\ names_valid (Some (os, h) :: rem))) as Hnext.
    { intros s1 ->. cbn [bind].
      set (s1 := set_opts (Some (done ++ Some (os, h) :: repeat None (length rem))) s).
      assert (g_optreset s1 = false) as A1 by exact H1.
      assert (g_init s1 = false) as A2 by exact H2.
      assert (g_opts s1 = Some ((done ++ [Some (os, h)]) ++ repeat None (length rem))) as A3
        by (rewrite <- app_assoc; reflexivity).
      assert (g_default s1 = S (length ((done ++ [Some (os, h)]) ++ rem))) as A4
        by (change (g_default s1) with (g_default s); rewrite H4, !app_length; cbn [length]; lia).
      assert (names_nn (done ++ [Some (os, h)])) as A5
        by (apply names_nn_app; split; [exact Hd | constructor; [exact Hos | constructor]]).
      destruct (IH (done ++ [Some (os, h)]) s1 A1 A2 A3 A4 A5 Hr') as [E | [E Hval]];
        rewrite app_length in E; cbn [length] in E; replace (length done + 1) with (S (length done)) in E by lia.
      - left. exact E.
      - right. split; [|constructor; [exact Hv | exact Hval]]. rewrite E, <- app_assoc. reflexivity. }
    destruct (fm (done ++ None :: repeat None (length rem)) 0 os) as [[[[j ?] ?] ?]|] eqn:Hfm.
    + apply fm_lt in Hfm. left.
      match goal with |- context [?a =? ?x] => destruct (a =? x) eqn:Ej end; [|reflexivity].
      exfalso. apply Nat.eqb_eq in Ej. rewrite app_length in Hfm, Ej. cbn [length] in Hfm, Ej.
      rewrite repeat_length in Hfm. unfold slot, table, str in *. lia.
    + apply Hnext. reflexivity.
  - cbn [register_all]. cbn [length repeat] in H3. inversion Hr; subst.
    assert (g_opts s = Some ((done ++ [None]) ++ repeat None (length rem))) as A3
      by (rewrite <- app_assoc; exact H3).
    assert (g_default s = S (length ((done ++ [None]) ++ rem))) as A4
      by (rewrite H4, !app_length; cbn [length]; lia).
    assert (names_nn (done ++ [None])) as A5
      by (apply names_nn_app; split; [exact Hd | constructor; [exact I | constructor]]).
    match goal with Hx : Forall _ rem |- _ => rename Hx into Hr' end.
    destruct (IH (done ++ [None]) s H1 H2 A3 A4 A5 Hr') as [E | [E Hval]];
      rewrite app_length in E; cbn [length] in E; replace (length done + 1) with (S (length done)) in E by lia.
    + left. exact E.
    + right. split; [|constructor; [exact I | exact Hval]]. rewrite E, <- app_assoc. reflexivity.
Qed.

(* ---------------- the first call (reset, dummy) and the initialisation pass ---------------- *)
Definition after_reset (s : gst) : gst :=
  set_optreset false (set_init false (set_found None (set_packed None
    (set_optind 1 (set_opts None (set_optarg None s)))))).

Lemma scan_cstr a : no_nul a -> scan_str (cstr a) = Ok a.
Proof. intros H. unfold cstr. apply scan_str_cstr. exact H. Qed.

Lemma getopt_first s0 argv : g_optreset s0 = true -> Forall no_nul argv ->
  getopt s0 argv = Ok (after_reset s0, RDummy).
Proof.
  intros H Ha. unfold getopt. prj. rewrite H. unfold reset. destruct argv as [|a0 r].
  - cbn [bind]. prj. reflexivity.
  - unfold argv_obj. cbn [nth_error bind]. inversion Ha; subst. rewrite scan_cstr by assumption.
    cbn [bind]. prj. reflexivity.
Qed.

Lemma setup_outcome s0 (t : table) miss : names_nn t ->
  setup (after_reset s0) t miss = AssertFail \/
  (exists s', setup (after_reset s0) t miss = Ok s' /\ ready t miss s' /\ g_optind s' = 1 /\
              g_packed s' = None /\ names_valid t).
Proof.
  intros Hn. unfold setup.
  set (s1 := set_default (S (length t)) (set_missing (S (length t))
               (set_opts (Some (repeat None (length t))) (after_reset s0)))).
  assert (setrange (after_reset s0) (length t) = Ok s1) as -> by reflexivity. cbn [bind].
  assert (names_nn []) as Hnil by constructor.
  destruct (register_all_outcome t [] s1 eq_refl eq_refl eq_refl eq_refl Hnil Hn) as [E | [E Hv]].
  - left. cbn [length] in E. rewrite E. reflexivity.
  - right. cbn [length app] in E. rewrite E. cbn [bind].
    destruct miss as [ln|]; cbn [register_missing]; prj; cbn [bind];
      (eexists; split; [reflexivity|]; split; [|split; [|split]]; try reflexivity; try exact Hv;
       unfold ready; prj; repeat split; reflexivity).
Qed.

Lemma start_outcome s0 (t : table) miss argv : g_optreset s0 = true -> Forall no_nul argv -> names_nn t ->
  start s0 t miss argv = AssertFail \/
  (exists s', start s0 t miss argv = Ok s' /\ ready t miss s' /\ g_optind s' = 1 /\
              g_packed s' = None /\ names_valid t).
Proof.
  intros H Ha Hn. unfold start. rewrite (getopt_first s0 argv H Ha). cbn [bind]. apply setup_outcome. exact Hn.
Qed.

(* ---------------- the run equals the reference parser with searchopt's resolution ---------------- *)
Lemma run_after_start s (t : table) miss argv :
  names_nn t -> names_valid t -> wf_miss t miss -> Forall no_nul argv ->
  ready t miss s -> g_optind s = 1 -> g_packed s = None ->
  exists s', loop (fuel_for argv) s argv = Ok (spec_coded t (is_some miss) argv, s').
Proof.
  intros Hn Hv Hm Ha Hr Hi Hp. destruct (loop_ok t miss argv Hn Hv Hm Ha (fuel_for argv)) as [Hw _].
  destruct argv as [|a0 rem].
  - exists (set_optarg None s). unfold fuel_for.
    rewrite (stop_end t miss [] s _ Hr) by (rewrite Hi; cbn [length]; lia). rewrite Hi. reflexivity.
  - destruct (Hw s [a0] rem Hr eq_refl Hi Hp) as [s' Hs'].
    + unfold mrest, fuel_for. cbn [concat length]. rewrite app_length. lia.
    + exists s'. exact Hs'.
Qed.

Theorem run_coded s0 (t : table) miss (argv : list str) :
  g_optreset s0 = true -> names_nn t -> wf_miss t miss -> Forall no_nul argv ->
  run_from s0 t miss argv = AssertFail \/
  exists s', run_from s0 t miss argv = Ok (spec_coded t (is_some miss) argv, s').
Proof.
  intros H Hn Hm Ha. unfold run_from.
  destruct (start_outcome s0 t miss argv H Ha Hn) as [E | (s1 & E & Hr & Hi & Hp & Hv)]; rewrite E.
  - left. reflexivity.
  - right. cbn [bind]. apply (run_after_start s1 t miss argv Hn Hv Hm Ha Hr Hi Hp).
Qed.

(* ---------------- well-formed tables are accepted by getopt_register_opt ---------------- *)
Lemma in_names n h (t : table) : In (Some (n, h)) t -> In n (names t).
Proof.
  induction t as [|[[n' h']|] r IH]; intros H; [destruct H| |].
  - rewrite names_cons_some. destruct H as [H|H]; [inversion H; left; reflexivity | right; apply IH; exact H].
  - rewrite names_cons_none. destruct H as [H|H]; [discriminate | apply IH; exact H].
Qed.

Lemma names_valid_in (t : table) n h : names_valid t -> In (Some (n, h)) t -> valid_name n = true.
Proof. intros Hv Hin. unfold names_valid in Hv. rewrite Forall_forall in Hv. apply (Hv _ Hin). Qed.

Lemma fm_none_wf (done : table) k os : names_valid done -> name_ok os -> ~ In os (names done) ->
  fm (done ++ None :: repeat None k) 0 os = None.
Proof.
  intros Hv Hok Hnin. destruct (fm (done ++ None :: repeat None k) 0 os) as [[[[j n] h] v]|] eqn:E; [|reflexivity].
  exfalso. apply fm_some in E. destruct E as (_ & Hn & Hs). apply nth_error_In in Hn.
  apply in_app_or in Hn. destruct Hn as [Hn | [Hn | Hn]]; [| discriminate | apply repeat_spec in Hn; discriminate].
  destruct v as [x|].
  - apply (name_ok_no_eq_ext n os x (names_valid_in done n h Hv Hn) Hok Hs).
  - rewrite app_nil_r in Hs. subst n. apply Hnin. apply (in_names _ _ _ Hn).
Qed.

Lemma register_all_wf (rem : table) : forall (done : table) s,
  g_optreset s = false -> g_init s = false -> g_opts s = Some (done ++ repeat None (length rem)) ->
  g_default s = S (length (done ++ rem)) ->
  Forall name_ok (names (done ++ rem)) -> NoDup (names (done ++ rem)) ->
  register_all s rem (length done) = Ok (set_opts (Some (done ++ rem)) s).
Proof.
  induction rem as [|[[os h]|] rem IH]; intros done s H1 H2 H3 H4 Hok Hnd.
  - cbn [register_all]. rewrite app_nil_r. cbn [length repeat] in H3. rewrite app_nil_r in H3.
    destruct s. cbn in *. subst. reflexivity.
  - cbn [register_all]. cbn [length repeat] in H3.
    pose proof (names_ok_nn _ Hok) as Hnn. apply names_nn_app in Hnn. destruct Hnn as [Hd Hr].
    inversion Hr as [|? ? Hos Hr']; subst.
    rewrite (register_opt_outcome s done (repeat None (length rem)) os h _ H1 H2 H3 H4 Hd (names_nn_repeat _) Hos).
    pose proof (names_ok_valid _ Hok) as Hva. apply names_valid_app in Hva. destruct Hva as [Hvd Hvr].
    inversion Hvr as [|? ? Hvos _]; subst. rewrite Hvos. cbn [negb].
    rewrite names_app, names_cons_some in Hok, Hnd.
    assert (name_ok os) as Hoso by (apply Forall_app in Hok; destruct Hok as [_ Hok]; inversion Hok; assumption).
    assert (~ In os (names done)) as Hnin.
    { apply NoDup_remove_2 in Hnd. intros Hin. apply Hnd. apply in_or_app. left. exact Hin. }
    rewrite (fm_none_wf done (length rem) os Hvd Hoso Hnin). cbn [bind].
    match goal with |- register_all ?x _ _ = _ => set (s1 := x) end.
    assert (g_opts s1 = Some ((done ++ [Some (os, h)]) ++ repeat None (length rem))) as A3
      by (rewrite <- app_assoc; reflexivity).
    assert (g_default s1 = S (length ((done ++ [Some (os, h)]) ++ rem))) as A4
      by (change (g_default s1) with (g_default s); rewrite H4, !app_length; cbn [length]; lia).
    specialize (IH (done ++ [Some (os, h)]) s1 H1 H2 A3 A4).
    rewrite app_length in IH. cbn [length] in IH. replace (length done + 1) with (S (length done)) in IH by lia.
    rewrite IH.
    + rewrite <- app_assoc. reflexivity.
    + rewrite <- app_assoc. cbn [app]. rewrite names_app, names_cons_some. exact Hok.
    + rewrite <- app_assoc. cbn [app]. rewrite names_app, names_cons_some. exact Hnd.
  - cbn [register_all]. cbn [length repeat] in H3.
    assert (g_opts s = Some ((done ++ [None]) ++ repeat None (length rem))) as A3
      by (rewrite <- app_assoc; exact H3).
    assert (g_default s = S (length ((done ++ [None]) ++ rem))) as A4
      by (rewrite H4, !app_length; cbn [length]; lia).
    specialize (IH (done ++ [None]) s H1 H2 A3 A4).
    rewrite app_length in IH. cbn [length] in IH. replace (length done + 1) with (S (length done)) in IH by lia.
    rewrite IH.
    + rewrite <- app_assoc. reflexivity.
    + rewrite <- app_assoc. exact Hok.
    + rewrite <- app_assoc. exact Hnd.
Qed.

Lemma start_wf s0 (t : table) miss argv : g_optreset s0 = true -> Forall no_nul argv -> wf_table t ->
  exists s', start s0 t miss argv = Ok s' /\ ready t miss s' /\ g_optind s' = 1 /\ g_packed s' = None.
Proof.
  intros H Ha [Hok Hnd].
  destruct (start_outcome s0 t miss argv H Ha (names_ok_nn t Hok)) as [E | (s' & E & Hr & Hi & Hp & _)].
  - exfalso. unfold start in E. rewrite (getopt_first s0 argv H Ha) in E. cbn [bind] in E. unfold setup in E.
    set (s1 := set_default (S (length t)) (set_missing (S (length t))
                 (set_opts (Some (repeat None (length t))) (after_reset s0)))) in *.
    assert (setrange (after_reset s0) (length t) = Ok s1) as Es by reflexivity. rewrite Es in E. cbn [bind] in E.
    pose proof (register_all_wf t [] s1 eq_refl eq_refl eq_refl eq_refl Hok Hnd) as Er.
    cbn [length] in Er. rewrite Er in E. cbn [bind] in E. destruct miss; discriminate.
  - exists s'. auto.
Qed.

(* ---------------- on well-formed tables searchopt's resolution is the documented one ---------------- *)
Lemma cod_doc_short (t : table) c : names_valid t -> cod_short t c = doc_short t c.
Proof.
  intros Hv. unfold cod_short, doc_short. induction t as [|[[n h]|] r IH]; [reflexivity| |].
  - inversion Hv as [|? ? Hn Hr]; subst. specialize (IH Hr).
    destruct (valid_name_len n Hn) as (c1 & r1 & ->).
    cbn [first_match lookup strip_prefix str_eqb]. rewrite eqb_DD. cbn [andb].
    rewrite (N.eqb_sym c1 c). destruct (N.eqb c c1) eqn:Ec.
    + apply N.eqb_eq in Ec. subst c1. destruct r1 as [|x r1']; cbn [strip_prefix str_eqb andb]; [reflexivity | exact IH].
    + cbn [andb]. exact IH.
  - inversion Hv; subst. cbn [first_match lookup]. apply IH. assumption.
Qed.

Lemma strip_split r : ~ In EQC r -> forall body,
  match strip_prefix r body with
  | Some [] => split_eq body = (r, None)
  | Some (c :: x) => if N.eqb c EQC then split_eq body = (r, Some x) else fst (split_eq body) <> r
  | None => fst (split_eq body) <> r
  end.
Proof.
  induction r as [|a r IH]; intros Hnin body.
  - cbn [strip_prefix]. destruct body as [|c x]; [reflexivity|]. cbn [split_eq].
    destruct (N.eqb c EQC); [reflexivity|]. destruct (split_eq x). cbn [fst]. discriminate.
  - assert (a <> EQC) as Ha by (intros ->; apply Hnin; left; reflexivity).
    assert (~ In EQC r) as Hr by (intros H; apply Hnin; right; exact H).
    cbn [strip_prefix]. destruct body as [|y body']; [cbn [split_eq fst]; discriminate|].
    cbn [split_eq]. destruct (N.eqb y EQC) eqn:Ey.
    + apply N.eqb_eq in Ey. subst y. assert (N.eqb EQC a = false) as -> by (apply N.eqb_neq; congruence).
      cbn [fst]. discriminate.
    + destruct (N.eqb y a) eqn:Eya.
      * apply N.eqb_eq in Eya. subst y. specialize (IH Hr body').
        destruct (split_eq body') as [nm v]. cbn [fst] in *.
        destruct (strip_prefix r body') as [[|c x]|].
        -- inversion IH; subst. reflexivity.
        -- destruct (N.eqb c EQC); [inversion IH; subst; reflexivity | congruence].
        -- congruence.
      * apply N.eqb_neq in Eya. destruct (split_eq body'). cbn [fst]. congruence.
Qed.

Lemma str_eqb_neq a b : a <> b -> str_eqb a b = false.
Proof. intros H. destruct (str_eqb a b) eqn:E; [|reflexivity]. apply str_eqb_eq in E. contradiction. Qed.

Lemma cod_doc_long (t : table) body : Forall name_ok (names t) -> cod_long t body = doc_long t body.
Proof.
  intros Hok. unfold cod_long, doc_long. destruct (split_eq body) as [nm v] eqn:Es.
  induction t as [|[[n h]|] r IH]; [reflexivity| |].
  - rewrite names_cons_some in Hok. inversion Hok as [|? ? Hn Hr]; subst. specialize (IH Hr).
    destruct Hn as (Hv & _ & Hne). destruct (valid_name_len n Hv) as (c1 & r1 & ->).
    cbn [first_match lookup strip_prefix str_eqb]. rewrite eqb_DD. cbn [andb].
    cbn [valid_name] in Hv. rewrite eqb_DD in Hv. cbn [andb] in Hv.
    rewrite (N.eqb_sym c1 DASH). destruct (N.eqb DASH c1) eqn:Ec; cbn [andb]; [|exact IH].
    apply N.eqb_eq in Ec. subst c1.
    pose proof (strip_split r1 (Hne r1 eq_refl) body) as Hs. rewrite Es in Hs. cbn [fst] in Hs.
    destruct (strip_prefix r1 body) as [[|c x]|].
    + inversion Hs; subst. rewrite str_eqb_refl. reflexivity.
    + destruct (N.eqb c EQC).
      * inversion Hs; subst. rewrite str_eqb_refl. reflexivity.
      * rewrite (str_eqb_neq r1 nm) by congruence. exact IH.
    + rewrite (str_eqb_neq r1 nm) by congruence. exact IH.
  - rewrite names_cons_none in Hok. cbn [first_match lookup]. apply IH. exact Hok.
Qed.

(* the reference parser depends on the two resolution functions only pointwise *)
Section Ext.
  Variables (ls1 ls2 : N -> option (str * bool)) (ll1 ll2 : str -> option (str * bool * option str)).
  Variable m : bool.
  Hypothesis Hs : forall c, ls1 c = ls2 c.
  Hypothesis Hl : forall b, ll1 b = ll2 b.

  Lemma spec_pack_ext cs : spec_pack ls1 cs = spec_pack ls2 cs.
  Proof.
    induction cs as [|c r IH]; [reflexivity|]. cbn [spec_pack]. rewrite Hs, IH. reflexivity.
  Qed.

  Lemma spec_from_ext n : forall args idx, length args <= n ->
    spec_from ls1 ll1 m args idx = spec_from ls2 ll2 m args idx.
  Proof.
    induction n as [|n IH]; intros args idx Hlen.
    - destruct args; [reflexivity | cbn [length] in Hlen; lia].
    - destruct args as [|w rest]; [reflexivity|]. cbn [length] in Hlen. cbn [spec_from].
      assert (forall i, spec_from ls1 ll1 m rest i = spec_from ls2 ll2 m rest i) as E1
        by (intros i; apply IH; lia).
      assert (forall a rest' i, rest = a :: rest' ->
                spec_from ls1 ll1 m rest' i = spec_from ls2 ll2 m rest' i) as E2
        by (intros a rest' i ->; apply IH; cbn [length] in Hlen; lia).
      destruct (classify w); try reflexivity.
      + rewrite Hl. destruct (ll2 body) as [[[nm [|]] [v|]]|]; rewrite ?E1; try reflexivity.
        destruct rest as [|a rest']; [reflexivity|]. rewrite (E2 a rest' _ eq_refl). reflexivity.
      + rewrite spec_pack_ext. destruct (spec_pack ls2 cs) as [evs [|nm]]; rewrite ?E1; try reflexivity.
        destruct rest as [|a rest']; [reflexivity|]. rewrite (E2 a rest' _ eq_refl). reflexivity.
  Qed.
End Ext.

Lemma spec_coded_eq_spec (t : table) m argv : Forall name_ok (names t) ->
  spec_coded t m argv = spec t m argv.
Proof.
  intros Hok. unfold spec_coded, spec. apply (spec_from_ext _ _ _ _ m) with (n := length (tl argv)).
  - intros c. apply cod_doc_short. apply names_ok_valid. exact Hok.
  - intros b. apply cod_doc_long. exact Hok.
  - lia.
Qed.

(* ---------------- M1: the model equals the reference parser ---------------- *)
Theorem getopt_eq_spec (t : table) miss (argv : list str) :
  wf_table t -> wf_miss t miss -> Forall no_nul argv ->
  run_model t miss argv = Ok (spec t (is_some miss) argv).
Proof.
  intros Hwf Hm Ha. pose proof Hwf as [Hok Hnd]. unfold run_model, run_from.
  destruct (start_wf init_state t miss argv eq_refl Ha Hwf) as (s1 & E & Hr & Hi & Hp). rewrite E. cbn [bind].
  destruct (run_after_start s1 t miss argv (names_ok_nn t Hok) (names_ok_valid t Hok) Hm Ha Hr Hi Hp) as [s' Hs'].
  rewrite Hs'. cbn [bind]. rewrite (spec_coded_eq_spec t _ argv Hok). reflexivity.
Qed.

(* ---------------- M3: a run after optreset equals a fresh run ---------------- *)
Lemma start_reset_indep s0 (t : table) miss argv : g_optreset s0 = true ->
  start s0 t miss argv = start init_state t miss argv.
Proof.
  intros H. unfold start, getopt. prj. rewrite H. cbn [g_optreset init_state]. unfold reset.
  destruct (match argv with [] => Ok [] | _ :: _ => let* a := argv_obj argv 0 in scan_str a end);
    cbn [bind]; try reflexivity.
Qed.

Theorem reset_fresh s (t : table) miss (argv : list str) :
  run_from (set_optreset true s) t miss argv = run_from init_state t miss argv.
Proof. unfold run_from. rewrite (start_reset_indep (set_optreset true s)) by reflexivity. reflexivity. Qed.

(* ---------------- C15: no read outside the argv strings ---------------- *)
Theorem getopt_no_fault s (t : table) miss (argv : list str) :
  names_nn t -> wf_miss t miss -> Forall no_nul argv ->
  run_from (set_optreset true s) t miss argv <> Fault /\
  run_from (set_optreset true s) t miss argv <> OutOfFuel.
Proof.
  intros Hn Hm Ha.
  destruct (run_coded (set_optreset true s) t miss argv eq_refl Hn Hm Ha) as [E | [s' E]]; rewrite E;
    split; discriminate.
Qed.

(* ---------------- M2: where parsing stops ---------------- *)
Section Stops.
  Variable ls : N -> option (str * bool).
  Variable ll : str -> option (str * bool * option str).
  Variable m : bool.

  (* an operand (anything not starting with '-', the empty string, a lone "-") ends the parse and
     is not consumed; "--" ends the parse and is consumed *)
  Lemma spec_stops_at_operand w rest idx : classify w = WOperand ->
    spec_from ls ll m (w :: rest) idx = ([], idx).
  Proof. intros H. cbn [spec_from]. rewrite H. reflexivity. Qed.

  Lemma spec_stops_after_dashdash rest idx :
    spec_from ls ll m ([DASH; DASH] :: rest) idx = ([], S idx).
  Proof. reflexivity. Qed.

  (* why the parse ended at k *)
  Definition stop_reason (args : list str) (idx k : nat) : Prop :=
    idx <= k <= idx + length args /\
    (k = idx + length args \/
     (exists w, nth_error args (k - idx) = Some w /\ classify w = WOperand) \/
     (idx < k /\ nth_error args (k - idx - 1) = Some [DASH; DASH])).

  Lemma stop_reason_shift w args idx k : stop_reason args (S idx) k -> stop_reason (w :: args) idx k.
  Proof.
    intros [Hb Hd]. unfold stop_reason. cbn [length]. split; [lia|].
    destruct Hd as [Hd | [(x & Hx & Hc) | [Hlt Hx]]].
    - left. lia.
    - right. left. exists x. split; [|exact Hc]. replace (k - idx) with (S (k - S idx)) by lia. exact Hx.
    - right. right. split; [lia|]. replace (k - idx - 1) with (S (k - S idx - 1)) by lia. exact Hx.
  Qed.

  Lemma spec_stop_reason n : forall args idx, length args <= n ->
    stop_reason args idx (snd (spec_from ls ll m args idx)).
  Proof.
    induction n as [|n IH]; intros args idx Hlen.
    - destruct args; [|cbn [length] in Hlen; lia]. cbn [spec_from snd]. unfold stop_reason. cbn [length]. split; [lia|].
      left. lia.
    - destruct args as [|w rest].
      { cbn [spec_from snd]. unfold stop_reason. cbn [length]. split; [lia|]. left. lia. }
      cbn [length] in Hlen.
      assert (forall i : nat, stop_reason (w :: rest) idx (snd (spec_from ls ll m rest (S idx)))) as E1.
      { intros _. apply stop_reason_shift. apply IH. lia. }
      assert (forall a rest', rest = a :: rest' ->
                stop_reason (w :: rest) idx (snd (spec_from ls ll m rest' (S (S idx))))) as E2.
      { intros a rest' ->. apply stop_reason_shift, stop_reason_shift. apply IH. cbn [length] in Hlen. lia. }
      assert (rest = [] -> stop_reason (w :: rest) idx (S idx)) as E3.
      { intros ->. unfold stop_reason. cbn [length]. split; [lia|]. left. lia. }
      cbn [spec_from]. destruct (classify w) eqn:Hc.
      + cbn [snd]. unfold stop_reason. cbn [length]. split; [lia|]. right. left. exists w.
        rewrite Nat.sub_diag. split; [reflexivity | exact Hc].
      + cbn [snd]. unfold stop_reason. cbn [length]. split; [lia|]. right. right. split; [lia|].
        replace (S idx - idx - 1) with 0 by lia. apply classify_dd in Hc. subst w. reflexivity.
      + destruct (ll body) as [[[nm [|]] [v|]]|]; cbn [cons_ev snd]; try apply (E1 0).
        destruct rest as [|a rest']; [apply E3; reflexivity | cbn [cons_ev snd]; apply (E2 a rest' eq_refl)].
      + destruct (spec_pack ls cs) as [evs [|nm]]; cbn [app_ev snd]; try apply (E1 0).
        destruct rest as [|a rest']; [apply E3; reflexivity | cbn [app_ev cons_ev snd]; apply (E2 a rest' eq_refl)].
  Qed.

  (* the index of the first operand, computed without looking at what the options mean beyond
     "does this one swallow the next word": equals the final optind *)
  Definition long_needs_next (body : str) : bool :=
    match ll body with Some (_, true, None) => true | _ => false end.
  Definition pack_needs_next (cs : str) : bool :=
    match snd (spec_pack ls cs) with PNeed _ => true | PDone => false end.

  Fixpoint first_operand (args : list str) (idx : nat) {struct args} : nat :=
    match args with
    | [] => idx
    | w :: rest =>
      let needs := match classify w with
                   | WLong body => long_needs_next body
                   | WPack cs => pack_needs_next cs
                   | _ => false
                   end in
      match classify w with
      | WOperand => idx
      | WDashDash => S idx
      | _ => if needs then (match rest with _ :: rest' => first_operand rest' (S (S idx)) | [] => S idx end)
             else first_operand rest (S idx)
      end
    end.

  Lemma spec_optind_first_operand n : forall args idx, length args <= n ->
    snd (spec_from ls ll m args idx) = first_operand args idx.
  Proof.
    induction n as [|n IH]; intros args idx Hlen.
    - destruct args; [reflexivity | cbn [length] in Hlen; lia].
    - destruct args as [|w rest]; [reflexivity|]. cbn [length] in Hlen.
      assert (forall i, snd (spec_from ls ll m rest i) = first_operand rest i) as E1 by (intros i; apply IH; lia).
      assert (forall a rest' i, rest = a :: rest' ->
                snd (spec_from ls ll m rest' i) = first_operand rest' i) as E2
        by (intros a rest' i ->; apply IH; cbn [length] in Hlen; lia).
      cbn [spec_from first_operand]. destruct (classify w) eqn:Hc; try reflexivity.
      + unfold long_needs_next. destruct (ll body) as [[[nm [|]] [v|]]|]; cbn [cons_ev snd]; try apply E1.
        destruct rest as [|a rest']; [reflexivity | cbn [cons_ev snd]; apply (E2 a rest' _ eq_refl)].
      + unfold pack_needs_next. destruct (spec_pack ls cs) as [evs [|nm]]; cbn [app_ev snd]; try apply E1.
        destruct rest as [|a rest']; [reflexivity | cbn [app_ev cons_ev snd]; apply (E2 a rest' _ eq_refl)].
  Qed.
End Stops.

(* M2 for the model, through M1 *)
Theorem getopt_stops (t : table) miss (argv : list str) :
  wf_table t -> wf_miss t miss -> Forall no_nul argv ->
  exists evs k, run_model t miss argv = Ok (evs, k) /\
    stop_reason (tl argv) 1 k /\
    k = first_operand (doc_short t) (doc_long t) (tl argv) 1.
Proof.
  intros Hwf Hm Ha. rewrite (getopt_eq_spec t miss argv Hwf Hm Ha).
  destruct (spec t (is_some miss) argv) as [evs k] eqn:E. exists evs, k. split; [reflexivity|].
  unfold spec in E. split.
  - pose proof (spec_stop_reason (doc_short t) (doc_long t) (is_some miss) _ (tl argv) 1 (le_n _)) as H.
    rewrite E in H. exact H.
  - pose proof (spec_optind_first_operand (doc_short t) (doc_long t) (is_some miss) _ (tl argv) 1 (le_n _)) as H.
    rewrite E in H. exact H.
Qed.

Theorem getopt_stops_operand (t : table) miss (a0 w : str) (rest : list str) :
  wf_table t -> wf_miss t miss -> Forall no_nul (a0 :: w :: rest) -> classify w = WOperand ->
  run_model t miss (a0 :: w :: rest) = Ok ([], 1).
Proof.
  intros Hwf Hm Ha Hc. rewrite (getopt_eq_spec t miss _ Hwf Hm Ha). unfold spec. cbn [tl].
  rewrite spec_stops_at_operand by exact Hc. reflexivity.
Qed.

Theorem getopt_stops_dashdash (t : table) miss (a0 : str) (rest : list str) :
  wf_table t -> wf_miss t miss -> Forall no_nul (a0 :: [DASH; DASH] :: rest) ->
  run_model t miss (a0 :: [DASH; DASH] :: rest) = Ok ([], 2).
Proof.
  intros Hwf Hm Ha. rewrite (getopt_eq_spec t miss _ Hwf Hm Ha). reflexivity.
Qed.


Lemma NoDup_app_one (l : list str) (x : str) : NoDup l -> ~ In x l -> NoDup (l ++ [x]).
Proof.
  induction l as [|a l IH]; intros Hnd Hnin; [constructor; [intros []|constructor]|].
  inversion Hnd as [|? ? Ha Hl]; subst. cbn [app]. constructor.
  - intros Hin. apply in_app_or in Hin. destruct Hin as [Hin | [Hin | []]]; [contradiction|].
    subst. apply Hnin. left. reflexivity.
  - apply IH; [exact Hl|]. intros Hin. apply Hnin. right. exact Hin.
Qed.

(* ---------------- what getopt_register_opt enforces ---------------- *)
Lemma fm_in (t : table) : forall i n h, In (Some (n, h)) t -> fm t i n <> None.
Proof.
  induction t as [|[[n' h']|] r IH]; intros i n h Hin; [destruct Hin| |].
  - cbn [fm]. destruct Hin as [E | Hin].
    + inversion E; subst. pose proof (strip_prefix_app n []) as Hs. rewrite app_nil_r in Hs. rewrite Hs. discriminate.
    + destruct (strip_prefix n' n) as [[|c v]|]; [discriminate | | apply (IH _ _ _ Hin)].
      destruct (N.eqb c EQC); [discriminate | apply (IH _ _ _ Hin)].
  - cbn [fm]. destruct Hin as [E | Hin]; [discriminate | apply (IH _ _ _ Hin)].
Qed.

Lemma names_in n (t : table) : In n (names t) -> exists h, In (Some (n, h)) t.
Proof.
  induction t as [|[[n' h']|] r IH]; intros H; [destruct H| |].
  - rewrite names_cons_some in H. destruct H as [H|H].
    + subst. exists h'. left. reflexivity.
    + destruct (IH H) as [h Hh]. exists h. right. exact Hh.
  - rewrite names_cons_none in H. destruct (IH H) as [h Hh]. exists h. right. exact Hh.
Qed.

Lemma register_all_nodup (rem : table) : forall (done : table) s s',
  g_optreset s = false -> g_init s = false -> g_opts s = Some (done ++ repeat None (length rem)) ->
  g_default s = S (length (done ++ rem)) ->
  names_nn done -> names_nn rem -> NoDup (names done) ->
  register_all s rem (length done) = Ok s' -> NoDup (names (done ++ rem)).
Proof.
  induction rem as [|[[os h]|] rem IH]; intros done s s' H1 H2 H3 H4 Hd Hr Hnd E.
  - rewrite app_nil_r. exact Hnd.
  - cbn [register_all] in E. cbn [length repeat] in H3.
    inversion Hr as [|? ? Hos Hr']; subst.
    rewrite (register_opt_outcome s done (repeat None (length rem)) os h _ H1 H2 H3 H4 Hd (names_nn_repeat _) Hos) in E.
    destruct (valid_name os); cbn [negb] in E; [|discriminate].
    destruct (fm (done ++ None :: repeat None (length rem)) 0 os) as [[[[j ?] ?] ?]|] eqn:Hfm.
    + exfalso. apply fm_lt in Hfm.
      match type of E with context [?a =? ?x] => destruct (a =? x) eqn:Ej end; [|discriminate].
      apply Nat.eqb_eq in Ej. rewrite app_length in Hfm, Ej. cbn [length] in Hfm, Ej.
      rewrite repeat_length in Hfm. unfold slot, table, str in *. lia.
    + cbn [bind] in E.
      assert (~ In os (names done)) as Hnin.
      { intros Hin. destruct (names_in os done Hin) as [h' Hh'].
        apply (fm_in (done ++ None :: repeat None (length rem)) 0 os h'); [|exact Hfm].
        apply in_or_app. left. exact Hh'. }
      match type of E with register_all ?x _ _ = _ => set (s1 := x) in E end.
      assert (g_opts s1 = Some ((done ++ [Some (os, h)]) ++ repeat None (length rem))) as A3
        by (rewrite <- app_assoc; reflexivity).
      assert (g_default s1 = S (length ((done ++ [Some (os, h)]) ++ rem))) as A4
        by (change (g_default s1) with (g_default s); rewrite H4, !app_length; cbn [length]; lia).
      assert (names_nn (done ++ [Some (os, h)])) as A5
        by (apply names_nn_app; split; [exact Hd | constructor; [exact Hos | constructor]]).
      assert (NoDup (names (done ++ [Some (os, h)]))) as A6.
      { rewrite names_app. cbn [names flat_map app]. apply NoDup_app_one; assumption. }
      specialize (IH (done ++ [Some (os, h)]) s1 s' H1 H2 A3 A4 A5 Hr' A6).
      rewrite app_length in IH. cbn [length] in IH. replace (length done + 1) with (S (length done)) in IH by lia.
      specialize (IH E). rewrite <- app_assoc in IH. exact IH.
  - cbn [register_all] in E. cbn [length repeat] in H3. inversion Hr as [|? ? _ Hr']; subst.
    assert (g_opts s = Some ((done ++ [None]) ++ repeat None (length rem))) as A3
      by (rewrite <- app_assoc; exact H3).
    assert (g_default s = S (length ((done ++ [None]) ++ rem))) as A4
      by (rewrite H4, !app_length; cbn [length]; lia).
    assert (names_nn (done ++ [None])) as A5
      by (apply names_nn_app; split; [exact Hd | constructor; [exact I | constructor]]).
    assert (NoDup (names (done ++ [None]))) as A6 by (rewrite names_app; cbn [names flat_map app]; rewrite app_nil_r; exact Hnd).
    specialize (IH (done ++ [None]) s s' H1 H2 A3 A4 A5 Hr' A6).
    rewrite app_length in IH. cbn [length] in IH. replace (length done + 1) with (S (length done)) in IH by lia.
    specialize (IH E). rewrite <- app_assoc in IH. exact IH.
Qed.

Definition eq_free (n : str) : Prop := forall r, n = DASH :: DASH :: r -> ~ In EQC r.

(* For tables whose long names contain no '=': the registration pass succeeds exactly on the
   well-formed tables, i.e. wf_table is what getopt_register_opt enforces *)
Theorem registration_enforces_wf s0 (t : table) miss (argv : list str) :
  g_optreset s0 = true -> Forall no_nul argv -> names_nn t -> Forall eq_free (names t) ->
  ((exists s', start s0 t miss argv = Ok s') <-> wf_table t).
Proof.
  intros H Ha Hn Hef. split.
  - intros [s' E].
    destruct (start_outcome s0 t miss argv H Ha Hn) as [E' | (s1 & E' & _ & _ & _ & Hv)]; [congruence|].
    split.
    + apply Forall_forall. intros n Hin. destruct (names_in n t Hin) as [h Hh]. split; [|split].
      * apply (names_valid_in t n h Hv Hh).
      * unfold names_nn in Hn. rewrite Forall_forall in Hn. apply (Hn _ Hh).
      * rewrite Forall_forall in Hef. apply (Hef _ Hin).
    + unfold start in E. rewrite (getopt_first s0 argv H Ha) in E. cbn [bind] in E. unfold setup in E.
      set (s1' := set_default (S (length t)) (set_missing (S (length t))
                   (set_opts (Some (repeat None (length t))) (after_reset s0)))) in *.
      assert (setrange (after_reset s0) (length t) = Ok s1') as Es by reflexivity. rewrite Es in E. cbn [bind] in E.
      destruct (register_all s1' t 0) as [s2| | |] eqn:Er; try discriminate.
      assert (names_nn []) as Hnil by constructor.
      exact (register_all_nodup t [] s1' s2 eq_refl eq_refl eq_refl eq_refl Hnil Hn (NoDup_nil _) Er).
  - intros Hwf. destruct (start_wf s0 t miss argv H Ha Hwf) as (s' & E & _). exists s'. exact E.
Qed.

(* ---------------- exactly when the registration pass refuses a table ---------------- *)
Lemma fm_app (a b : table) : forall i s,
  fm (a ++ b) i s = match fm a i s with Some x => Some x | None => fm b (i + length a) s end.
Proof.
  induction a as [|[[n h]|] a IH]; intros i s; cbn [app fm length].
  - rewrite Nat.add_0_r. reflexivity.
  - assert (fm (a ++ b) (S i) s = match fm a (S i) s with Some x => Some x | None => fm b (i + S (length a)) s end) as E
      by (rewrite IH; replace (S i + length a) with (i + S (length a)) by lia; reflexivity).
    destruct (strip_prefix n s) as [[|c v]|]; [reflexivity | | exact E].
    destruct (N.eqb c EQC); [reflexivity | exact E].
  - rewrite IH. replace (S i + length a) with (i + S (length a)) by lia. reflexivity.
Qed.

Lemma fm_nones k : forall i s, fm (repeat None k) i s = None.
Proof. induction k as [|k IH]; intros i s; [reflexivity|]. cbn [repeat fm]. apply IH. Qed.

Lemma fm_done_none (done : table) k os :
  fm (done ++ None :: repeat None k) 0 os = None <-> first_match done os = None.
Proof.
  rewrite fm_app, (first_match_fm done 0 os).
  destruct (fm done 0 os) as [[[[j n] h] v]|]; [split; discriminate|].
  cbn [fm]. rewrite fm_nones. split; reflexivity.
Qed.

Lemma register_all_exact (rem : table) : forall (done : table) s,
  g_optreset s = false -> g_init s = false -> g_opts s = Some (done ++ repeat None (length rem)) ->
  g_default s = S (length (done ++ rem)) ->
  names_nn done -> names_nn rem ->
  register_all s rem (length done) =
  if acceptb done rem then Ok (set_opts (Some (done ++ rem)) s) else AssertFail.
Proof.
  induction rem as [|[[os h]|] rem IH]; intros done s H1 H2 H3 H4 Hd Hr.
  - cbn [register_all acceptb]. rewrite app_nil_r.
    cbn [length repeat] in H3. rewrite app_nil_r in H3. destruct s. cbn in *. subst. reflexivity.
  - cbn [register_all acceptb]. cbn [length repeat] in H3.
    inversion Hr as [|? ? Hos Hr']; subst.
    rewrite (register_opt_outcome s done (repeat None (length rem)) os h _ H1 H2 H3 H4 Hd (names_nn_repeat _) Hos).
    destruct (valid_name os) eqn:Hv; cbn [negb andb]; [|reflexivity].
    destruct (fm (done ++ None :: repeat None (length rem)) 0 os) as [[[[j ?] ?] ?]|] eqn:Hfm.
    + assert (first_match done os <> None) as Hne
        by (intros Efm; apply (fm_done_none done (length rem) os) in Efm; congruence).
      destruct (first_match done os); [|congruence]. cbn [is_some negb andb].
      apply fm_lt in Hfm.
      match goal with |- context [?a =? ?x] => destruct (a =? x) eqn:Ej end; [|reflexivity].
      exfalso. apply Nat.eqb_eq in Ej. rewrite app_length in Hfm, Ej. cbn [length] in Hfm, Ej.
      rewrite repeat_length in Hfm. unfold slot, table, str in *. lia.
    + apply fm_done_none in Hfm. rewrite Hfm. cbn [is_some negb andb bind].
      match goal with |- register_all ?x _ _ = _ => set (s1 := x) end.
      assert (g_optreset s1 = false) as A1 by exact H1.
      assert (g_init s1 = false) as A2 by exact H2.
      assert (g_opts s1 = Some ((done ++ [Some (os, h)]) ++ repeat None (length rem))) as A3
        by (rewrite <- app_assoc; reflexivity).
      assert (g_default s1 = S (length ((done ++ [Some (os, h)]) ++ rem))) as A4
        by (change (g_default s1) with (g_default s); rewrite H4, !app_length; cbn [length]; lia).
      assert (names_nn (done ++ [Some (os, h)])) as A5
        by (apply names_nn_app; split; [exact Hd | constructor; [exact Hos | constructor]]).
      pose proof (IH (done ++ [Some (os, h)]) s1 A1 A2 A3 A4 A5 Hr') as E.
      rewrite app_length in E; cbn [length] in E; replace (length done + 1) with (S (length done)) in E by lia.
      rewrite E, <- app_assoc. reflexivity.
  - cbn [register_all acceptb]. cbn [length repeat] in H3. inversion Hr as [|? ? _ Hr']; subst.
    assert (g_opts s = Some ((done ++ [None]) ++ repeat None (length rem))) as A3
      by (rewrite <- app_assoc; exact H3).
    assert (g_default s = S (length ((done ++ [None]) ++ rem))) as A4
      by (rewrite H4, !app_length; cbn [length]; lia).
    assert (names_nn (done ++ [None])) as A5
      by (apply names_nn_app; split; [exact Hd | constructor; [exact I | constructor]]).
    pose proof (IH (done ++ [None]) s H1 H2 A3 A4 A5 Hr') as E.
    rewrite app_length in E; cbn [length] in E; replace (length done + 1) with (S (length done)) in E by lia.
    rewrite E, <- app_assoc. reflexivity.
Qed.

(* the first call and the registration pass abort (DIE / failed assert) exactly on the tables
   that are not accepted *)
Lemma start_assert_iff s0 (t : table) miss argv : g_optreset s0 = true -> Forall no_nul argv -> names_nn t ->
  (start s0 t miss argv = AssertFail <-> acceptb [] t = false).
Proof.
  intros H Ha Hn. unfold start. rewrite (getopt_first s0 argv H Ha). cbn [bind]. unfold setup.
  set (s1 := set_default (S (length t)) (set_missing (S (length t))
               (set_opts (Some (repeat None (length t))) (after_reset s0)))).
  assert (setrange (after_reset s0) (length t) = Ok s1) as -> by reflexivity. cbn [bind].
  assert (names_nn []) as Hnil by constructor.
  pose proof (register_all_exact t [] s1 eq_refl eq_refl eq_refl eq_refl Hnil Hn) as E.
  cbn [length app] in E. rewrite E. destruct (acceptb [] t); cbn [bind].
  - destruct miss; cbn [register_missing]; prj; cbn [bind]; split; discriminate.
  - split; reflexivity.
Qed.

(* reg_accepts written out: every name is "-x" / "--long", and for every label, searchopt's
   first-prefix-match finds nothing among the labels on earlier lines *)
Lemma acceptb_spec (rem : table) : forall done,
  acceptb done rem = true <->
  (names_valid rem /\
   forall pre os h rest, rem = pre ++ Some (os, h) :: rest -> first_match (done ++ pre) os = None).
Proof.
  induction rem as [|[[os h]|] rem IH]; intros done; cbn [acceptb].
  - split; [|reflexivity]. intros _. split; [constructor|]. intros [|? ?] ? ? ? E; discriminate.
  - rewrite !andb_true_iff, IH. split.
    + intros [[Hv Hf] [Hvr Hall]]. split; [constructor; assumption|].
      intros [|x pre] os' h' rest E; cbn [app] in E; inversion E; subst.
      * rewrite app_nil_r. destruct (first_match done os'); [discriminate | reflexivity].
      * specialize (Hall pre os' h' rest eq_refl). rewrite <- app_assoc in Hall. exact Hall.
    + intros [Hv Hall]. inversion Hv as [|? ? Hv1 Hv2]; subst. split; [split|split].
      * exact Hv1.
      * specialize (Hall [] os h rem eq_refl). rewrite app_nil_r in Hall. rewrite Hall. reflexivity.
      * exact Hv2.
      * intros pre os' h' rest ->. rewrite <- app_assoc. apply (Hall (Some (os, h) :: pre) os' h' rest). reflexivity.
  - rewrite IH. split.
    + intros [Hvr Hall]. split; [constructor; [exact I | exact Hvr]|].
      intros [|x pre] os' h' rest E; cbn [app] in E; inversion E; subst.
      specialize (Hall pre os' h' rest eq_refl). rewrite <- app_assoc in Hall. exact Hall.
    + intros [Hv Hall]. inversion Hv as [|? ? _ Hv2]; subst. split; [exact Hv2|].
      intros pre os' h' rest ->. rewrite <- app_assoc. apply (Hall (None :: pre) os' h' rest). reflexivity.
Qed.

Theorem reg_accepts_spec (t : table) :
  reg_accepts t <->
  (names_valid t /\ forall pre os h rest, t = pre ++ Some (os, h) :: rest -> first_match pre os = None).
Proof. unfold reg_accepts. apply (acceptb_spec t []). Qed.

Theorem wf_table_accepted (t : table) : wf_table t -> reg_accepts t.
Proof.
  intros Hwf. pose proof Hwf as [Hok _]. unfold reg_accepts.
  destruct (start_wf init_state t None [] eq_refl (Forall_nil _) Hwf) as (s' & E & _).
  destruct (acceptb [] t) eqn:Ea; [reflexivity|].
  apply (start_assert_iff init_state t None [] eq_refl (Forall_nil _) (names_ok_nn t Hok)) in Ea. congruence.
Qed.

(* the run theorem with the abort case stated exactly *)
Theorem run_coded_exact s0 (t : table) miss (argv : list str) :
  g_optreset s0 = true -> names_nn t -> wf_miss t miss -> Forall no_nul argv ->
  (reg_accepts t -> exists s', run_from s0 t miss argv = Ok (spec_coded t (is_some miss) argv, s')) /\
  (~ reg_accepts t -> run_from s0 t miss argv = AssertFail).
Proof.
  intros H Hn Hm Ha. pose proof (start_assert_iff s0 t miss argv H Ha Hn) as Hiff. unfold reg_accepts, run_from.
  destruct (start_outcome s0 t miss argv H Ha Hn) as [E | (s1 & E & Hr & Hi & Hp & Hv)]; rewrite E; split; intros Hacc.
  - apply Hiff in E. congruence.
  - reflexivity.
  - cbn [bind]. apply (run_after_start s1 t miss argv Hn Hv Hm Ha Hr Hi Hp).
  - exfalso. apply Hacc. destruct (acceptb [] t); [reflexivity|].
    destruct Hiff as [_ Hiff]. specialize (Hiff eq_refl). congruence.
Qed.

Theorem getopt_no_fault_exact s (t : table) miss (argv : list str) :
  names_nn t -> wf_miss t miss -> Forall no_nul argv ->
  run_from (set_optreset true s) t miss argv <> Fault /\
  run_from (set_optreset true s) t miss argv <> OutOfFuel /\
  (run_from (set_optreset true s) t miss argv = AssertFail <-> ~ reg_accepts t).
Proof.
  intros Hn Hm Ha.
  destruct (run_coded_exact (set_optreset true s) t miss argv eq_refl Hn Hm Ha) as [Hy Hno].
  assert ({reg_accepts t} + {~ reg_accepts t}) as [Hacc | Hacc]
    by (unfold reg_accepts; destruct (acceptb [] t); [left; reflexivity | right; discriminate]).
  - destruct (Hy Hacc) as [s' E]. rewrite E. split; [discriminate|]. split; [discriminate|].
    split; [discriminate | intros Hc; contradiction].
  - rewrite (Hno Hacc). split; [discriminate|]. split; [discriminate|]. split; [intros _; exact Hacc | reflexivity].
Qed.

(* ---------------- the indexing pass of a compiled GETOPT_SWITCH, for every source layout ---------------- *)
Lemma register_opt_set_missing s m os ln h :
  register_opt (set_missing m s) os ln h = (let* s1 := register_opt s os ln h in Ok (set_missing m s1)).
Proof.
  unfold register_opt, searchopt. prj. destruct (g_optreset s); [reflexivity|]. destruct (g_init s); [reflexivity|].
  destruct (g_opts s) as [t|]; [|reflexivity]. destruct (nth_error t ln) as [[?|]|]; try reflexivity.
  destruct (negb (valid_name os)); [reflexivity|].
  destruct (searchopt_from t 0 (cstr os) (g_default s)) as [f| | |]; cbn [bind]; try reflexivity.
  destruct (negb (f =? g_default s)); reflexivity.
Qed.

Lemma register_all_set_missing (t : table) : forall s m ln,
  register_all (set_missing m s) t ln = (let* s1 := register_all s t ln in Ok (set_missing m s1)).
Proof.
  induction t as [|[[os h]|] t IH]; intros s m ln; cbn [register_all].
  - reflexivity.
  - rewrite register_opt_set_missing. destruct (register_opt s os ln h); cbn [bind]; try reflexivity. apply IH.
  - apply IH.
Qed.

Lemma register_opt_keeps s os ln h s' : register_opt s os ln h = Ok s' ->
  g_optreset s' = g_optreset s /\ g_init s' = g_init s.
Proof.
  unfold register_opt. destruct (g_optreset s) eqn:R1; [discriminate|]. destruct (g_init s) eqn:R2; [discriminate|].
  destruct (g_opts s) as [t|]; [|discriminate]. destruct (nth_error t ln) as [[?|]|]; try discriminate.
  destruct (negb (valid_name os)); [discriminate|].
  destruct (searchopt s (cstr os)) as [f| | |]; cbn [bind]; try discriminate.
  destruct (negb (f =? g_default s)); [discriminate|]. intros E. inversion E; subst. prj. split; assumption.
Qed.

Lemma register_all_keeps (t : table) : forall s ln s', register_all s t ln = Ok s' ->
  g_optreset s' = g_optreset s /\ g_init s' = g_init s.
Proof.
  induction t as [|[[os h]|] t IH]; intros s ln s' E; cbn [register_all] in E.
  - inversion E; subst. split; reflexivity.
  - destruct (register_opt s os ln h) as [s1| | |] eqn:E1; cbn [bind] in E; try discriminate.
    apply register_opt_keeps in E1. apply IH in E. destruct E1, E. split; congruence.
  - apply (IH _ _ _ E).
Qed.

Definition apply_miss (m : option nat) (s : gst) : gst :=
  match m with Some ln => set_missing ln s | None => s end.

(* once getopt_setrange has run: the probes of the lines are the registrations in line order *)
Lemma probes_registered D (lay : layout) : forall s ln, g_optreset s = false -> g_init s = false ->
  probes D (s, true) ln lay =
  (let* s1 := register_all s (table_of lay) ln in Ok (apply_miss (miss_from lay ln) s1, true)).
Proof.
  induction lay as [|[|os h|] lay IH]; intros s ln H1 H2; cbn [probes probe table_of map register_all miss_from bind].
  - reflexivity.
  - fold (table_of lay). rewrite (IH s (S ln) H1 H2).
    destruct (register_all s (table_of lay) (S ln)); cbn [bind]; try reflexivity.
    destruct (miss_from lay (S ln)); reflexivity.
  - fold (table_of lay). destruct (register_opt s os ln h) as [s1| | |] eqn:E1; cbn [bind]; try reflexivity.
    apply register_opt_keeps in E1. destruct E1 as [K1 K2].
    rewrite (IH s1 (S ln)) by congruence.
    destruct (register_all s1 (table_of lay) (S ln)); cbn [bind]; try reflexivity.
    destruct (miss_from lay (S ln)); reflexivity.
  - fold (table_of lay). unfold register_missing. rewrite H1, H2. cbn [bind].
    rewrite (IH (set_missing ln s) (S ln) H1 H2). rewrite register_all_set_missing.
    destruct (register_all s (table_of lay) (S ln)); cbn [bind]; try reflexivity.
    destruct (miss_from lay (S ln)); reflexivity.
Qed.

(* the pass as compiled = getopt_setrange(line offset of GETOPT_DEFAULT), one registration per label
   in line order (slot = line offset, slot 0 = the GETOPT_SWITCH line included), initialized = 1 *)
Theorem index_pass_eq_setup s (lay : layout) :
  index_pass s lay = setup s (table_of lay) (miss_of lay).
Proof.
  unfold index_pass, index_pass_gen, setup, miss_of. cbn [probe]. unfold table_of at 1. rewrite map_length.
  destruct (setrange s (length lay)) as [g| | |] eqn:Es; cbn [bind]; try reflexivity.
  assert (g_optreset g = false /\ g_init g = false) as [G1 G2].
  { unfold setrange in Es. destruct (g_optreset s) eqn:Eo; [discriminate|]. destruct (g_init s) eqn:Ei; [discriminate|].
    inversion Es; subst. prj. split; [exact Eo | exact Ei]. }
  rewrite (probes_registered (length lay) lay g 0 G1 G2).
  destruct (register_all g (table_of lay) 0) as [s1| | |] eqn:Er; cbn [bind]; try reflexivity.
  apply register_all_keeps in Er. destruct Er as [K1 K2].
  destruct (miss_from lay 0); cbn [apply_miss]; [|reflexivity].
  unfold register_missing. rewrite K1, K2, G1, G2. reflexivity.
Qed.

Lemma start_switch_eq s0 (lay : layout) argv :
  start_switch s0 lay argv = start s0 (table_of lay) (miss_of lay) argv.
Proof.
  unfold start_switch, start. destruct (getopt s0 argv) as [[s1 r]| | |]; cbn [bind]; try reflexivity.
  destruct r; try reflexivity. apply index_pass_eq_setup.
Qed.

Theorem run_switch_from_eq s0 (lay : layout) argv :
  run_switch_from s0 lay argv = run_from s0 (table_of lay) (miss_of lay) argv.
Proof. unfold run_switch_from, run_from. rewrite start_switch_eq. reflexivity. Qed.

Theorem run_switch_eq (lay : layout) argv :
  run_switch lay argv = run_model (table_of lay) (miss_of lay) argv.
Proof. unfold run_switch, run_model. rewrite run_switch_from_eq. reflexivity. Qed.

(* GETOPT_MISSING_ARG sits on a line of its own, so its slot is free *)
Lemma miss_from_free (lay : layout) : forall ln,
  match miss_from lay ln with
  | Some m => ln <= m /\ nth_error (table_of lay) (m - ln) = Some None
  | None => True
  end.
Proof.
  induction lay as [|l lay IH]; intros ln; cbn [miss_from]; [exact I|].
  specialize (IH (S ln)). destruct (miss_from lay (S ln)) as [m|].
  - destruct IH as [Hle Hn]. split; [lia|]. replace (m - ln) with (S (m - S ln)) by lia. exact Hn.
  - destruct l; try exact I. split; [lia|]. rewrite Nat.sub_diag. reflexivity.
Qed.

Lemma wf_miss_of (lay : layout) : wf_miss (table_of lay) (miss_of lay).
Proof.
  unfold wf_miss, miss_of. pose proof (miss_from_free lay 0) as H.
  destruct (miss_from lay 0) as [m|]; [|exact I]. destruct H as [_ H]. rewrite Nat.sub_0_r in H. exact H.
Qed.

(* M1 for compiled switch statements: whatever the source layout of the labels -- first label on
   the GETOPT_SWITCH line (slot 0), blank lines, GETOPT_MISSING_ARG first, last or absent -- the run
   equals the reference parser for the label set *)
Theorem switch_eq_spec (lay : layout) (argv : list str) :
  wf_table (table_of lay) -> Forall no_nul argv ->
  run_switch lay argv = Ok (spec (table_of lay) (is_some (miss_of lay)) argv).
Proof.
  intros Hwf Ha. rewrite run_switch_eq. apply getopt_eq_spec; [exact Hwf | apply wf_miss_of | exact Ha].
Qed.

Lemma spec_lookup_ext (t1 t2 : table) m argv :
  (forall n, lookup t1 n = lookup t2 n) -> spec t1 m argv = spec t2 m argv.
Proof.
  intros H. unfold spec. apply (spec_from_ext _ _ _ _ m) with (n := length (tl argv)).
  - intros c. unfold doc_short. rewrite H. reflexivity.
  - intros b. unfold doc_long. destruct (split_eq b) as [nm v]. rewrite H. reflexivity.
  - lia.
Qed.

Theorem switch_no_fault s (lay : layout) (argv : list str) :
  names_nn (table_of lay) -> Forall no_nul argv ->
  run_switch_from (set_optreset true s) lay argv <> Fault /\
  run_switch_from (set_optreset true s) lay argv <> OutOfFuel /\
  (run_switch_from (set_optreset true s) lay argv = AssertFail <-> ~ reg_accepts (table_of lay)).
Proof.
  intros Hn Ha. rewrite run_switch_from_eq. apply getopt_no_fault_exact; [exact Hn | apply wf_miss_of | exact Ha].
Qed.

(* the result depends on the set of labels only, not on the lines they are written on *)
Theorem switch_layout_independent (l1 l2 : layout) (argv : list str) :
  wf_table (table_of l1) -> wf_table (table_of l2) ->
  (forall n, lookup (table_of l1) n = lookup (table_of l2) n) ->
  is_some (miss_of l1) = is_some (miss_of l2) -> Forall no_nul argv ->
  run_switch l1 argv = run_switch l2 argv.
Proof.
  intros W1 W2 Hl Hm Ha. rewrite (switch_eq_spec l1 argv W1 Ha), (switch_eq_spec l2 argv W2 Ha), Hm.
  rewrite (spec_lookup_ext _ _ _ _ Hl). reflexivity.
Qed.

(* what the first probe (getopt_ln = getopt_ln_min - 1) is for: started on the GETOPT_SWITCH line
   itself, a label on that line is registered before getopt_setrange has allocated the table *)
Lemma first_probe_needed s os h (lay : layout) : g_opts s = None ->
  index_pass_gen false s (LOpt os h :: lay) = AssertFail.
Proof.
  intros H. unfold index_pass_gen. cbn [bind probes probe]. unfold register_opt. rewrite H.
  destruct (g_optreset s); [reflexivity|]. destruct (g_init s); reflexivity.
Qed.

(* among tables whose long names contain no '=', accepted = well-formed *)
Theorem reg_accepts_wf (t : table) : names_nn t -> Forall eq_free (names t) -> (reg_accepts t <-> wf_table t).
Proof.
  intros Hn Hef. split; [|apply wf_table_accepted]. intros Hacc.
  apply (registration_enforces_wf init_state t None [] eq_refl (Forall_nil _) Hn Hef).
  destruct (start_outcome init_state t None [] eq_refl (Forall_nil _) Hn) as [E | (s' & E & _)].
  - apply (start_assert_iff init_state t None [] eq_refl (Forall_nil _) Hn) in E. unfold reg_accepts in Hacc. congruence.
  - exists s'. exact E.
Qed.

(* ---------------- non-vacuity ---------------- *)
Definition s_b : str := [45; 98]%N.                     (* "-b" *)
Definition s_f : str := [45; 102]%N.                    (* "-f" *)
Definition s_bar : str := [45; 45; 98; 97; 114]%N.      (* "--bar" *)
Definition s_foo : str := [45; 45; 102; 111; 111]%N.    (* "--foo" *)
Definition ex_table : table :=
  [Some (s_b, false); Some (s_bar, false); None; Some (s_f, true); Some (s_foo, true)].

Ltac name_ok_tac :=
  split; [reflexivity | split; [unfold no_nul; repeat (constructor; [discriminate|]); constructor |
    intros r H; inversion H; subst; cbn; intuition discriminate]].

Example ex_table_wf : wf_table ex_table /\ wf_miss ex_table (Some 2).
Proof.
  split; [split|reflexivity].
  - cbn [ex_table names flat_map app]. repeat (constructor; [name_ok_tac|]). constructor.
  - cbn [ex_table names flat_map app]. repeat (constructor; [cbn; intuition discriminate|]). constructor.
Qed.

(* prog -bbfbar --foo=x --bar=1 -f -- -b op :  -b -b -f(bar) --foo(x) default(--bar) -f(--) -b, stops at op *)
Definition ex_argv : list str :=
  [[112; 114; 111; 103]; [45; 98; 98; 102; 98; 97; 114]; [45; 45; 102; 111; 111; 61; 120];
   [45; 45; 98; 97; 114; 61; 49]; s_f; [45; 45]; s_b; [111; 112]]%N.

Example ex_run :
  run_model ex_table (Some 2) ex_argv =
  Ok ([Opt s_b; Opt s_b; OptArg s_f [98; 97; 114]%N; OptArg s_foo [120]%N; Default s_bar;
       OptArg s_f [45; 45]%N; Opt s_b], 7).
Proof. vm_compute. reflexivity. Qed.

Example ex_argv_ok : Forall no_nul ex_argv.
Proof. repeat (constructor; [unfold no_nul; repeat (constructor; [discriminate|]); constructor|]). constructor. Qed.

(* missing argument: through the missing label if there is one, else the default label *)
Example ex_missing :
  run_model ex_table (Some 2) [[112]; s_b; s_foo]%N = Ok ([Opt s_b; Missing s_foo], 3) /\
  run_model ex_table None [[112]; s_b; s_foo]%N = Ok ([Opt s_b; Default s_foo], 3).
Proof. split; vm_compute; reflexivity. Qed.

(* a parse abandoned in the middle of a pack, then optreset: the stale packedopts is discarded *)
Example ex_reset_midpack :
  exists s, run_from_n 1 init_state ex_table None [[112]; [45; 98; 98; 98]]%N = Ok ([Opt s_b], None, s) /\
            g_packed s = Some (1, 2) /\
            run_from (set_optreset true s) ex_table None [[112]; s_b; [120]]%N =
            run_from init_state ex_table None [[112]; s_b; [120]]%N.
Proof. eexists. split; [vm_compute; reflexivity|]. split; [reflexivity | apply reset_fresh]. Qed.

(* why wf_table excludes '=' inside long names: both registrations below are accepted by
   getopt_register_opt, and then "--a=b" resolves by slot order rather than by the grammar *)
Definition ex_eq_table : table := [Some ([45; 45; 97; 61; 98]%N, false); Some ([45; 45; 97]%N, true)].
Example ex_eq_in_name :
  run_model ex_eq_table None [[112]; [45; 45; 97; 61; 98]]%N = Ok ([Opt [45; 45; 97; 61; 98]%N], 2) /\
  spec ex_eq_table false [[112]; [45; 45; 97; 61; 98]]%N = ([OptArg [45; 45; 97]%N [98]%N], 2).
Proof. split; vm_compute; reflexivity. Qed.

(* duplicate and malformed names are refused by the registration pass (DIE) *)
Example ex_refused :
  run_model [Some (s_b, false); Some (s_b, true)] None [[112]]%N = AssertFail /\
  run_model [Some ([45]%N, false)] None [[112]]%N = AssertFail /\
  run_model [Some ([45; 45]%N, false)] None [[112]]%N = AssertFail /\
  run_model [Some ([45; 97; 98]%N, false)] None [[112]]%N = AssertFail.
Proof. repeat split; vm_compute; reflexivity. Qed.

(* the option set of ex_table as a switch statement with the first label on the GETOPT_SWITCH line
   (slot 0), a blank line, and GETOPT_MISSING_ARG between the labels *)
Definition ex_layout : layout :=
  [LOpt s_b false; LOpt s_bar false; LNone; LMiss; LOpt s_f true; LOpt s_foo true].

Example ex_layout_wf : wf_table (table_of ex_layout) /\ miss_of ex_layout = Some 3.
Proof.
  split; [split|reflexivity].
  - cbn [ex_layout table_of map names flat_map app]. repeat (constructor; [name_ok_tac|]). constructor.
  - cbn [ex_layout table_of map names flat_map app]. repeat (constructor; [cbn; intuition discriminate|]). constructor.
Qed.

Example ex_layout_run :
  run_switch ex_layout ex_argv =
  Ok ([Opt s_b; Opt s_b; OptArg s_f [98; 97; 114]%N; OptArg s_foo [120]%N; Default s_bar;
       OptArg s_f [45; 45]%N; Opt s_b], 7).
Proof. vm_compute. reflexivity. Qed.

(* without the probe of the line before the switch: a label on the GETOPT_SWITCH line aborts, and a
   GETOPT_MISSING_ARG there is silently overwritten by the later getopt_setrange *)
Example ex_first_probe :
  index_pass_gen false (after_reset init_state) ex_layout = AssertFail /\
  (exists s, index_pass (after_reset init_state) ex_layout = Ok s) /\
  match index_pass_gen false (after_reset init_state) [LMiss; LNone; LOpt s_f true] with
  | Ok s => g_missing s = g_default s
  | _ => False
  end /\
  match index_pass (after_reset init_state) [LMiss; LNone; LOpt s_f true] with
  | Ok s => g_missing s = 0 /\ g_default s = 4
  | _ => False
  end.
Proof.
  split; [reflexivity|]. split; [eexists; vm_compute; reflexivity|]. split; vm_compute; [reflexivity | split; reflexivity].
Qed.

(* a table with '=' inside a name that the registration pass accepts, and two it refuses *)
Example ex_reg_accepts :
  reg_accepts ex_eq_table /\ ~ reg_accepts [Some ([45; 45; 97]%N, true); Some ([45; 45; 97; 61; 98]%N, false)] /\
  ~ reg_accepts [Some (s_b, false); None; Some (s_b, true)].
Proof. repeat split; vm_compute; discriminate. Qed.
