(* Proofs about util/getopt.c's model, part 3: registration, the run theorems
   (model = reference parser, reset = fresh, no fault), and the stopping rules. *)
From Coq Require Import Arith NArith List Lia Bool.
From LCP Require Import Base.CheckedMem Util.Getopt Util.GetoptSearch Util.GetoptSteps.
Import ListNotations.
Local Open Scope res_scope.

(* ---------------- well-formed tables ---------------- *)
(* "-x" or "--long" (what getopt_register_opt insists on), NUL-free (olen = strlen), and no '='
   inside a long name (the grammar of the header comment reserves '=' for --name=value) *)
Definition name_ok (n : str) : Prop :=
  valid_name n = true /\ no_nul n /\ (forall r, n = DASH :: DASH :: r -> ~ In EQC r).

Definition names (t : table) : list str :=
  flat_map (fun sl : slot => match sl with Some (n, _) => [n] | None => [] end) t.

Definition wf_table (t : table) : Prop := Forall name_ok (names t) /\ NoDup (names t).

Lemma names_cons_some n h (t : table) : names (Some (n, h) :: t) = n :: names t.
Proof. reflexivity. Qed.
Lemma names_cons_none (t : table) : names (None :: t) = names t.
Proof. reflexivity. Qed.
Lemma names_app (a b : table) : names (a ++ b) = names a ++ names b.
Proof. unfold names. apply flat_map_app. Qed.
Lemma names_repeat k : names (repeat None k) = [].
Proof. induction k; [reflexivity|]. cbn [repeat]. rewrite names_cons_none. exact IHk. Qed.

Lemma names_ok_nn (t : table) : Forall name_ok (names t) -> names_nn t.
Proof.
  induction t as [|[[n h]|] r IH]; intros H; [constructor| |].
  - rewrite names_cons_some in H. inversion H as [|? ? H1 H2]; subst. constructor; [|apply IH; exact H2].
    destruct H1 as (_ & H1 & _). exact H1.
  - constructor; [exact I | apply IH; exact H].
Qed.

Lemma names_ok_valid (t : table) : Forall name_ok (names t) -> names_valid t.
Proof.
  induction t as [|[[n h]|] r IH]; intros H; [constructor| |].
  - rewrite names_cons_some in H. inversion H as [|? ? H1 H2]; subst. constructor; [|apply IH; exact H2].
    destruct H1 as (H1 & _). exact H1.
  - constructor; [exact I | apply IH; exact H].
Qed.

(* a registered name never has the form  other-registered-name '=' anything *)
Lemma name_ok_no_eq_ext n os v : valid_name n = true -> name_ok os -> os <> n ++ EQC :: v.
Proof.
  intros Hn (Hv & _ & Hne) E.
  destruct (valid_name_len n Hn) as (c & r & ->). subst os. cbn [app] in *.
  cbn [valid_name] in Hv. rewrite N.eqb_refl in Hv. cbn [andb] in Hv.
  destruct (N.eqb c DASH) eqn:Ec.
  - apply N.eqb_eq in Ec. subst c. apply (Hne (r ++ EQC :: v) eq_refl). apply in_or_app. right. left. reflexivity.
  - destruct r; discriminate.
Qed.

(* ---------------- registration ---------------- *)
Lemma set_nth_mid (done : table) (x : slot) (rest : table) (v : slot) :
  set_nth (done ++ x :: rest) (length done) v = done ++ v :: rest.
Proof. induction done as [|d done IH]; [reflexivity|]. cbn [app length set_nth]. rewrite IH. reflexivity. Qed.

Lemma nth_error_mid (done : table) (x : slot) (rest : table) : nth_error (done ++ x :: rest) (length done) = Some x.
Proof. rewrite nth_error_app2 by lia. rewrite Nat.sub_diag. reflexivity. Qed.

Lemma names_nn_app (a b : table) : names_nn (a ++ b) <-> names_nn a /\ names_nn b.
Proof. unfold names_nn. apply Forall_app. Qed.

Lemma names_nn_repeat k : names_nn (repeat None k).
Proof. unfold names_nn. apply Forall_forall. intros x Hx. apply repeat_spec in Hx. subst. exact I. Qed.

Lemma names_valid_app (a b : table) : names_valid (a ++ b) <-> names_valid a /\ names_valid b.
Proof. unfold names_valid. apply Forall_app. Qed.

(* one register_opt on a state being initialised *)
Lemma register_opt_outcome s (done rest : table) os h d :
  g_optreset s = false -> g_init s = false -> g_opts s = Some (done ++ None :: rest) -> g_default s = d ->
  names_nn done -> names_nn rest -> no_nul os ->
  register_opt s os (length done) h =
  if negb (valid_name os) then AssertFail
  else match fm (done ++ None :: rest) 0 os with
       | Some (j, _, _, _) => if j =? d then Ok (set_opts (Some (done ++ Some (os, h) :: rest)) s) else AssertFail
       | None => Ok (set_opts (Some (done ++ Some (os, h) :: rest)) s)
       end.
Proof.
  intros H1 H2 H3 H4 Hd Hr Hos. unfold register_opt. rewrite H1, H2, H3. rewrite nth_error_mid.
  destruct (valid_name os); cbn [negb]; [|reflexivity].
  unfold searchopt. rewrite H3.
  rewrite (searchopt_from_spec (done ++ None :: rest)) by
      (first [exact Hos | apply names_nn_app; split; [exact Hd | constructor; [exact I | exact Hr]]]).
  cbn [bind]. rewrite H4. rewrite set_nth_mid.
  destruct (fm (done ++ None :: rest) 0 os) as [[[[j ?] ?] ?]|].
  - destruct (j =? d); reflexivity.
  - rewrite Nat.eqb_refl. reflexivity.
Qed.

Lemma fm_lt t i s j n h v : fm t i s = Some (j, n, h, v) -> j < i + length t.
Proof. intros H. apply fm_some in H. lia. Qed.

(* the registration pass either is refused (DIE) or leaves exactly the table, all names valid *)
Lemma register_all_outcome (rem : table) : forall (done : table) s,
  g_optreset s = false -> g_init s = false -> g_opts s = Some (done ++ repeat None (length rem)) ->
  g_default s = S (length (done ++ rem)) ->
  names_nn done -> names_nn rem ->
  register_all s rem (length done) = AssertFail \/
  (register_all s rem (length done) = Ok (set_opts (Some (done ++ rem)) s) /\ names_valid rem).
Proof.
  induction rem as [|[[os h]|] rem IH]; intros done s H1 H2 H3 H4 Hd Hr.
  - right. cbn [register_all]. rewrite app_nil_r. split; [|constructor].
    cbn [length repeat] in H3. rewrite app_nil_r in H3. destruct s. cbn in *. subst. reflexivity.
  - cbn [register_all]. cbn [length repeat] in H3.
    inversion Hr as [|? ? Hos Hr']; subst.
    rewrite (register_opt_outcome s done (repeat None (length rem)) os h _ H1 H2 H3 H4 Hd (names_nn_repeat _) Hos).
    destruct (valid_name os) eqn:Hv; cbn [negb]; [|left; reflexivity].
    assert (forall s1, s1 = set_opts (Some (done ++ Some (os, h) :: repeat None (length rem))) s ->
              (let* s2 := Ok s1 in register_all s2 rem (S (length done))) = AssertFail \/
              ((let* s2 := Ok s1 in register_all s2 rem (S (length done))) =
               Ok (set_opts (Some (done ++ Some (os, h) :: rem)) s) /\ names_valid (Some (os, h) :: rem))) as Hnext.
    { intros s1 ->. cbn [bind].
      set (s1 := set_opts (Some (done ++ Some (os, h) :: repeat None (length rem))) s).
      assert (g_optreset s1 = false) as A1 by exact H1.
      assert (g_init s1 = false) as A2 by exact H2.
      assert (g_opts s1 = Some ((done ++ [Some (os, h)]) ++ repeat None (length rem))) as A3
        by (rewrite <- app_assoc; reflexivity).
      assert (g_default s1 = S (length ((done ++ [Some (os, h)]) ++ rem))) as A4
        by (change (g_default s1) with (g_default s); rewrite H4, !app_length; cbn [length]; lia).
      assert (names_nn (done ++ [Some (os, h)])) as A5
        by (apply names_nn_app; split; [exact Hd | constructor; [exact Hos | constructor]]).
      destruct (IH (done ++ [Some (os, h)]) s1 A1 A2 A3 A4 A5 Hr') as [E | [E Hval]];
        rewrite app_length in E; cbn [length] in E; replace (length done + 1) with (S (length done)) in E by lia.
      - left. exact E.
      - right. split; [|constructor; [exact Hv | exact Hval]]. rewrite E, <- app_assoc. reflexivity. }
    destruct (fm (done ++ None :: repeat None (length rem)) 0 os) as [[[[j ?] ?] ?]|] eqn:Hfm.
    + apply fm_lt in Hfm. rewrite app_length in Hfm, H4. cbn [length] in Hfm, H4. rewrite repeat_length in Hfm.
      assert (j =? S (length done + S (length rem)) = false) as -> by (apply Nat.eqb_neq; lia).
      left. reflexivity.
    + apply Hnext. reflexivity.
  - cbn [register_all]. cbn [length repeat] in H3. inversion Hr; subst.
    assert (g_opts s = Some ((done ++ [None]) ++ repeat None (length rem))) as A3
      by (rewrite <- app_assoc; exact H3).
    assert (g_default s = S (length ((done ++ [None]) ++ rem))) as A4
      by (rewrite H4, !app_length; cbn [length]; lia).
    assert (names_nn (done ++ [None])) as A5
      by (apply names_nn_app; split; [exact Hd | constructor; [exact I | constructor]]).
    match goal with Hx : Forall _ rem |- _ => rename Hx into Hr' end.
    destruct (IH (done ++ [None]) s H1 H2 A3 A4 A5 Hr') as [E | [E Hval]];
      rewrite app_length in E; cbn [length] in E; replace (length done + 1) with (S (length done)) in E by lia.
    + left. exact E.
    + right. split; [|constructor; [exact I | exact Hval]]. rewrite E, <- app_assoc. reflexivity.
Qed.
