(* Lemmas about the checked accessors of EndianMem.v (wr, memcpy_m, strlen_m, cstr_at,
   forall_below). *)
From Coq Require Import Arith NArith List Lia Bool.
From LCP Require Import Base.CheckedMem Util.EndianMem.
Import ListNotations.
Local Open Scope res_scope.

(* ---- rd ---- *)
Lemma rd_mid pre x post : rd (pre ++ x :: post) (length pre) = Ok x.
Proof.
  replace (length pre) with (length pre + 0) by lia. rewrite rd_app_r. reflexivity.
Qed.

Lemma rd_nth buf i : i < length buf -> rd buf i = Ok (nth i buf 0%N).
Proof.
  intros H. unfold rd. destruct (nth_error buf i) eqn:E.
  - rewrite (nth_error_nth _ _ _ E). reflexivity.
  - apply nth_error_None in E. lia.
Qed.

Lemma rd_fault buf i : length buf <= i -> rd buf i = Fault.
Proof. intros H. unfold rd. apply nth_error_None in H. rewrite H. reflexivity. Qed.

Lemma rd_total buf i : (exists b, rd buf i = Ok b) \/ rd buf i = Fault.
Proof. unfold rd. destruct (nth_error buf i); eauto. Qed.

(* ---- wr ---- *)
Lemma wr_mid pre x post v : wr (pre ++ x :: post) (length pre) v = Ok (pre ++ v :: post).
Proof.
  induction pre as [|p r IH]; [reflexivity|].
  cbn [app length wr]. rewrite IH. reflexivity.
Qed.

Lemma wr_pre pre l k v :
  wr (pre ++ l) (length pre + k) v = (let* l' := wr l k v in Ok (pre ++ l')).
Proof.
  induction pre as [|p r IH].
  - cbn [app length Nat.add]. destruct (wr l k v); reflexivity.
  - cbn [app length Nat.add wr]. rewrite IH. destruct (wr l k v); reflexivity.
Qed.

Lemma wr_ok buf i v : i < length buf -> wr buf i v = Ok (firstn i buf ++ v :: skipn (S i) buf).
Proof.
  revert i. induction buf as [|b r IH]; intros [|k] H; cbn [length] in H; try lia.
  - reflexivity.
  - cbn [wr firstn skipn app]. rewrite IH by lia. reflexivity.
Qed.

Lemma wr_fault buf i v : length buf <= i -> wr buf i v = Fault.
Proof.
  revert i. induction buf as [|b r IH]; intros [|k] H; cbn [length] in H; try lia; try reflexivity.
  cbn [wr]. rewrite IH by lia. reflexivity.
Qed.

Lemma wr_total buf i v : (exists b, wr buf i v = Ok b /\ length b = length buf) \/ wr buf i v = Fault.
Proof.
  destruct (Nat.lt_ge_cases i (length buf)) as [H|H].
  - left. rewrite wr_ok by exact H. eexists. split; [reflexivity|].
    rewrite app_length. cbn [length]. rewrite firstn_length, skipn_length. lia.
  - right. apply wr_fault, H.
Qed.

Lemma wr_length buf i v b : wr buf i v = Ok b -> length b = length buf.
Proof.
  intros H. destruct (wr_total buf i v) as [(b' & E & L) | E]; rewrite E in H; [|discriminate].
  inversion H; subst. exact L.
Qed.

Lemma skipn_skipn' {A} (b a : nat) (l : list A) : skipn a (skipn b l) = skipn (b + a) l.
Proof.
  revert l. induction b as [|b IH]; intros l; [reflexivity|].
  destruct l as [|x l]; [rewrite !skipn_nil; reflexivity | cbn [skipn Nat.add]; apply IH].
Qed.

Lemma firstn_mid_skipn {A} (l : list A) a b :
  firstn a l ++ firstn b (skipn a l) ++ skipn (a + b) l = l.
Proof.
  rewrite <- skipn_skipn'. rewrite (firstn_skipn b (skipn a l)). apply firstn_skipn.
Qed.

(* ---- memcpy ---- *)
Lemma memcpy_parts d1 d2 d3 s1 s2 s3 :
  length d2 = length s2 ->
  memcpy_m (d1 ++ d2 ++ d3) (length d1) (s1 ++ s2 ++ s3) (length s1) (length s2) = Ok (d1 ++ s2 ++ d3).
Proof.
  revert d1 d2 s1. induction s2 as [|y s2 IH]; intros d1 d2 s1 H.
  - destruct d2; [reflexivity | discriminate].
  - destruct d2 as [|x d2]; [discriminate|]. cbn [length] in H.
    cbn [length memcpy_m app]. rewrite rd_mid. cbn [bind]. rewrite wr_mid. cbn [bind].
    specialize (IH (d1 ++ [y]) d2 (s1 ++ [y])). rewrite !app_length in IH. cbn [length] in IH.
    rewrite <- !app_assoc in IH. cbn [app] in IH.
    replace (S (length d1)) with (length d1 + 1) by lia.
    replace (S (length s1)) with (length s1 + 1) by lia.
    apply IH. lia.
Qed.

Lemma memcpy_ok dst doff src soff n :
  doff + n <= length dst -> soff + n <= length src ->
  memcpy_m dst doff src soff n =
    Ok (firstn doff dst ++ firstn n (skipn soff src) ++ skipn (doff + n) dst).
Proof.
  intros Hd Hs.
  pose proof (memcpy_parts (firstn doff dst) (firstn n (skipn doff dst)) (skipn (doff + n) dst)
                (firstn soff src) (firstn n (skipn soff src)) (skipn (soff + n) src)) as H.
  rewrite !firstn_length, !skipn_length in H.
  replace (Nat.min doff (length dst)) with doff in H by lia.
  replace (Nat.min soff (length src)) with soff in H by lia.
  replace (Nat.min n (length src - soff)) with n in H by lia.
  replace (Nat.min n (length dst - doff)) with n in H by lia.
  rewrite !firstn_mid_skipn in H. apply H. reflexivity.
Qed.

(* whole-object copy into a fresh allocation (strdup, sock_addr_dup, struct copies) *)
Lemma memcpy_whole src fill : memcpy_m (alloc (length src) fill) 0 src 0 (length src) = Ok src.
Proof.
  pose proof (memcpy_parts [] (alloc (length src) fill) [] [] src []) as H.
  cbn [app length] in H. rewrite !app_nil_r in H. apply H.
  unfold alloc. apply repeat_length.
Qed.

Lemma memcpy_total dst doff src soff n :
  (exists b, memcpy_m dst doff src soff n = Ok b /\ length b = length dst) \/
  memcpy_m dst doff src soff n = Fault.
Proof.
  revert dst doff soff. induction n as [|n IH]; intros dst doff soff.
  - left. eexists. split; reflexivity.
  - cbn [memcpy_m]. destruct (rd_total src soff) as [[b E]|E]; rewrite E; cbn [bind]; [|right; reflexivity].
    destruct (wr_total dst doff b) as [(d & E2 & L)|E2]; rewrite E2; cbn [bind]; [|right; reflexivity].
    destruct (IH d (S doff) (S soff)) as [(r & E3 & L3)|E3]; [left | right; exact E3].
    exists r. split; [exact E3 | lia].
Qed.

(* ---- strlen / cstr_at on an object that contains a terminated string at offset |pre| ---- *)
Lemma strlen_from_ok fuel pre s1 s2 rest :
  no_nul s2 -> length s2 < fuel ->
  strlen_from fuel (pre ++ (s1 ++ s2) ++ 0%N :: rest) (length pre) (length s1) = Ok (length s1 + length s2).
Proof.
  revert fuel s1. induction s2 as [|c s2 IH]; intros fuel s1 Hn Hf.
  - destruct fuel as [|f]; [cbn [length] in Hf; lia|]. cbn [strlen_from].
    rewrite app_nil_r. rewrite rd_app_r. rewrite rd_mid. cbn [bind N.eqb]. f_equal. cbn [length]. lia.
  - destruct fuel as [|f]; [cbn [length] in Hf; lia|]. cbn [strlen_from].
    inversion Hn as [|? ? Hc Hn']; subst.
    rewrite rd_app_r. rewrite <- app_assoc. cbn [app]. rewrite rd_mid. cbn [bind].
    destruct (N.eqb_spec c 0) as [->|_]; [congruence|].
    specialize (IH f (s1 ++ [c]) Hn'). rewrite app_length in IH. cbn [length] in IH.
    rewrite <- !app_assoc in IH. cbn [app] in IH.
    replace (S (length s1)) with (length s1 + 1) by lia.
    rewrite IH by (cbn [length] in Hf; lia). f_equal. cbn [length]. lia.
Qed.

Lemma strlen_m_ok pre s rest :
  no_nul s -> strlen_m (pre ++ s ++ 0%N :: rest) (length pre) = Ok (length s).
Proof.
  intros Hn. unfold strlen_m.
  pose proof (strlen_from_ok (S (length (pre ++ s ++ 0%N :: rest))) pre [] s rest Hn) as H.
  cbn [app length Nat.add] in H. apply H. rewrite !app_length. cbn [length]. lia.
Qed.

Lemma cstr_at_ok pre s rest :
  no_nul s -> cstr_at (pre ++ s ++ 0%N :: rest) (length pre) = Ok s.
Proof.
  intros Hn. unfold cstr_at. rewrite strlen_m_ok by exact Hn. cbn [bind]. f_equal.
  rewrite skipn_app, skipn_all, Nat.sub_diag. cbn [skipn app].
  rewrite firstn_app, firstn_all, Nat.sub_diag. cbn [firstn]. apply app_nil_r.
Qed.

Lemma strlen_m_ok0 s rest : no_nul s -> strlen_m (s ++ 0%N :: rest) 0 = Ok (length s).
Proof. intros H. apply (strlen_m_ok [] s rest H). Qed.

Lemma cstr_at_ok0 s rest : no_nul s -> cstr_at (s ++ 0%N :: rest) 0 = Ok s.
Proof. intros H. apply (cstr_at_ok [] s rest H). Qed.

(* strlen never asserts or runs out of fuel: it is Ok or Fault *)
Lemma strlen_from_total fuel s off acc :
  (exists n, strlen_from fuel s off acc = Ok n) \/ strlen_from fuel s off acc = Fault.
Proof.
  revert acc. induction fuel as [|f IH]; intros acc; [right; reflexivity|].
  cbn [strlen_from]. destruct (rd_total s (off + acc)) as [[b E]|E]; rewrite E; cbn [bind]; [|right; reflexivity].
  destruct (N.eqb b 0); [left; eauto | apply IH].
Qed.

(* ---- forall_below ---- *)
Lemma forall_below_spec n P : forall_below n P = true -> forall x, (x < n)%N -> P x = true.
Proof.
  unfold forall_below.
  set (f := fun st : bool * N => (andb (fst st) (P (snd st)), N.succ (snd st))).
  assert (forall k, snd (N.iter k f (true, 0%N)) = k /\
                    (fst (N.iter k f (true, 0%N)) = true -> forall x, (x < k)%N -> P x = true)) as H.
  { intros k. induction k as [|k [IH1 IH2]] using N.peano_ind.
    - cbn. split; [reflexivity | intros _ x Hx; lia].
    - rewrite N.iter_succ. unfold f at 1. cbn [fst snd]. rewrite IH1. split; [reflexivity|].
      intros Ht x Hx. apply andb_true_iff in Ht. destruct Ht as [Ha Hb].
      rewrite IH1 in Hb.
      destruct (N.eq_dec x k) as [->|Hne]; [exact Hb | apply IH2; [exact Ha | lia]]. }
  intros Ht. apply (proj2 (H n)). exact Ht.
Qed.
