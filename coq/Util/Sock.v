(* util/sock_util.c (cmp, dup, serialize, deserialize, prettyprint, ensure_port) and the string
   glue of util/sock.c:sock_resolve (numeric IPv4 / [IPv6] / Unix-path forms), on checked memory.
   A struct sock_addr is {ai_family; ai_socktype; name} with namelen = |name| (the name object
   has exactly namelen bytes).  ints are kept as their 32-bit patterns.
   The host-name branch (getaddrinfo) is not modelled: the model reports RHost and stops.

   TRUSTED / ASSUMED here:
   - pton4/ntop4/parse_port/printf fragments: executable models in SockText.v (sampled);
   - pton6/ntop6: Section variables (inet_pton / inet_ntop for AF_INET6); the laws assumed of
     them are hypotheses of the theorems in SockProofs.v:
        pton6 (ntop6 a) = Some a,  ntop6 a contains ':' and neither ']' nor NUL;
   - malloc(0) returns a non-NULL object (glibc), so a zero-length name deserialises/duplicates. *)
From Coq Require Import Arith NArith List Lia Bool.
From LCP Require Import Base.CheckedMem Util.EndianMem Util.Endian Util.SockText Gen.Repo_codec2.
Import ListNotations.
Local Open Scope N_scope.
Local Open Scope res_scope.

Record sock_addr : Type := mk_sa { sa_family : N; sa_socktype : N; sa_name : list N }.

Inductive resolved : Type :=
| RFail                                   (* NULL *)
| RHost (host ports : list N)             (* handed to getaddrinfo: outside the property *)
| RAddrs (sas : list sock_addr).

(* platform constants as nat *)
Definition n_int : nat := N.to_nat sizeof_int.
Definition n_socklen : nat := N.to_nat sizeof_socklen.
Definition n_hdr : nat := (2 * n_int + n_socklen)%nat.
Definition n_family : nat := N.to_nat sizeof_sa_family.
Definition n_sin : nat := N.to_nat sizeof_sockaddr_in.
Definition n_sin6 : nat := N.to_nat sizeof_sockaddr_in6.
Definition n_sun : nat := N.to_nat sizeof_sockaddr_un.
Definition n_sun_path : nat := N.to_nat sizeof_sun_path.

(* the object holding a native integer of w bytes *)
Definition native_bytes (w : nat) (x : N) : list N :=
  if little_endian =? 1 then le_bytes w x else be_bytes w x.
Definition native_val (bs : list N) : N :=
  if little_endian =? 1 then le_val bs else be_val bs.

(* ---- asprintf with the regenerated format: %s and %d only ---- *)
Inductive parg : Type := PStr (s : list N) | PNum (n : N).
Fixpoint fmt_interp (fmt : list N) (args : list parg) {struct fmt} : res (list N) :=
  match fmt with
  | [] => Ok []
  | 37 :: 115 :: r =>                                      (* %s *)
    match args with
    | PStr s :: a => let* t := fmt_interp r a in Ok (s ++ t)
    | _ => AssertFail
    end
  | 37 :: 100 :: r =>                                      (* %d *)
    match args with
    | PNum n :: a => let* t := fmt_interp r a in Ok (dec_digits n ++ t)
    | _ => AssertFail
    end
  | 37 :: _ => AssertFail
  | c :: r => let* t := fmt_interp r args in Ok (c :: t)
  end.

(* ---- memcmp(a, b, n) != 0, every byte of both objects read ---- *)
Fixpoint memcmp_ne (a b : list N) (i n : nat) {struct n} : res bool :=
  match n with
  | O => Ok false
  | S n' =>
    let* x := rd a i in
    let* y := rd b i in
    let* t := memcmp_ne a b (S i) n' in
    Ok (negb (x =? y) || t)
  end.

(* ---- sock_addr_cmp ---- *)
Definition sock_addr_cmp_m (a b : sock_addr) : res N :=
  if negb (sa_family a =? sa_family b) || negb (sa_socktype a =? sa_socktype b) ||
     negb (Nat.eqb (length (sa_name a)) (length (sa_name b)))
  then Ok 1
  else
    let* ne := memcmp_ne (sa_name a) (sa_name b) 0 (length (sa_name a)) in
    Ok (if ne then 1 else 0).

(* ---- sock_addr_dup ---- *)
Definition sock_addr_dup_m (sa : sock_addr) : res sock_addr :=
  let n := length (sa_name sa) in
  let* nm := memcpy_m (alloc n 0) 0 (sa_name sa) 0 n in
  Ok (mk_sa (sa_family sa) (sa_socktype sa) nm).

(* ---- sock_addr_serialize: native int, int, socklen_t, name ---- *)
Definition sock_addr_serialize_m (sa : sock_addr) : res (list N) :=
  let namelen := length (sa_name sa) in
  let buf := alloc (n_hdr + namelen) 0 in
  let* buf := memcpy_m buf 0 (native_bytes n_int (sa_family sa)) 0 n_int in
  let* buf := memcpy_m buf n_int (native_bytes n_int (sa_socktype sa)) 0 n_int in
  let* buf := memcpy_m buf (2 * n_int) (native_bytes n_socklen (N.of_nat namelen)) 0 n_socklen in
  memcpy_m buf n_hdr (sa_name sa) 0 namelen.

(* ---- sock_addr_deserialize(buf, buflen) with buflen = |buf| ---- *)
Definition sock_addr_deserialize_m (buf : list N) : res (option sock_addr) :=
  let buflen := length buf in
  if (buflen <? n_hdr)%nat then Ok None
  else
    let* f := memcpy_m (alloc n_int 0) 0 buf 0 n_int in
    let* t := memcpy_m (alloc n_int 0) 0 buf n_int n_int in
    let* l := memcpy_m (alloc n_socklen 0) 0 buf (2 * n_int) n_socklen in
    let namelen := native_val l in
    (* buflen != 2 * sizeof(int) + sizeof(socklen_t) + sa->namelen, in size_t arithmetic *)
    if negb (N.of_nat buflen =? (N.of_nat n_hdr + namelen) mod 2 ^ 64) then Ok None
    else
      let* nm := memcpy_m (alloc (N.to_nat namelen) 0) 0 buf n_hdr (N.to_nat namelen) in
      Ok (Some (mk_sa (native_val f) (native_val t) nm)).

(* ---- strrchr(s, c) on an object: last index before the terminator (c <> 0) ---- *)
Fixpoint strrchr_from (fuel : nat) (s : list N) (c : N) (i : nat) (last : option nat) {struct fuel}
    : res (option nat) :=
  match fuel with
  | O => Fault
  | S f =>
    let* x := rd s i in
    if x =? 0 then Ok last
    else strrchr_from f s c (S i) (if x =? c then Some i else last)
  end.
Definition strrchr_m (s : list N) (c : N) : res (option nat) := strrchr_from (S (length s)) s c 0 None.

(* ---- memchr(s + off, '\0', n): index (from off) of the first NUL among the n bytes, each read
        through the checked accessor; None when there is none ---- *)
Fixpoint memchr0_from (s : list N) (off i n : nat) {struct n} : res (option nat) :=
  match n with
  | O => Ok None
  | S n' =>
    let* c := rd s (off + i) in
    if c =? 0 then Ok (Some i) else memchr0_from s off (S i) n'
  end.

(* ---- prettyprint_unix(name, namelen), as repaired (finding F14): NULL when the name is shorter
        than the offset of sun_path; otherwise the bytes of sun_path up to the first NUL or up to
        the end of the name, whichever comes first, copied into a fresh string of pathlen + 1 bytes.
        Result: the content of that C string (None = NULL) ---- *)
Definition prettyprint_unix_m (sa : sock_addr) : res (option (list N)) :=
  let namelen := length (sa_name sa) in
  let off := N.to_nat off_sun_path in
  if (namelen <? off)%nat then Ok None
  else
    let avail := (namelen - off)%nat in
    let* e := memchr0_from (sa_name sa) off 0 avail in
    let pathlen := match e with Some k => k | None => avail end in
    let* s := memcpy_m (alloc (S pathlen) 170) 0 (sa_name sa) off pathlen in
    let* s := wr s pathlen 0 in
    Ok (Some (firstn pathlen s)).

(* the branch as it was BEFORE the repair: strdup(name->sun_path), namelen not consulted; kept
   for the regression statement (it Faults on a name without a terminator inside the block) *)
Definition prettyprint_unix_old_m (sa : sock_addr) : res (option (list N)) :=
  let* s := cstr_at (sa_name sa) (N.to_nat off_sun_path) in Ok (Some s).

Section Resolve.
  Variable pton6 : list N -> option (list N).   (* inet_pton(AF_INET6, text): 16 bytes or failure *)
  Variable ntop6 : list N -> list N.            (* inet_ntop(AF_INET6, 16 bytes) *)

  (* ---- sock_addr_prettyprint: None = NULL ---- *)
  Definition prettyprint_inet (fmt : list N) (n_sa : nat) (off_port off_addr : N) (alen : nat)
      (ntop : list N -> list N) (sa : sock_addr) : res (option (list N)) :=
    let namelen := length (sa_name sa) in
    if negb (Nat.eqb namelen n_sa) then Ok None
    else
      let* loc := memcpy_m (alloc n_sa 0) 0 (sa_name sa) 0 namelen in     (* struct copy on the stack *)
      let addr := firstn alen (skipn (N.to_nat off_addr) loc) in
      let port := be_val (firstn 2 (skipn (N.to_nat off_port) loc)) in    (* ntohs *)
      let* s := fmt_interp fmt [PStr (ntop addr); PNum port] in
      Ok (Some s).

  Definition sock_addr_prettyprint_m (sa : sock_addr) : res (option (list N)) :=
    if sa_family sa =? af_inet then
      prettyprint_inet fmt_pp_ipv4 n_sin off_sin_port off_sin_addr 4 ntop4 sa
    else if sa_family sa =? af_inet6 then
      prettyprint_inet fmt_pp_ipv6 n_sin6 off_sin6_port off_sin6_addr 16 ntop6 sa
    else if sa_family sa =? af_unix then prettyprint_unix_m sa
    else Ok (Some unknown_address).

  (* ---- sock_resolve_unix ---- *)
  Definition sock_resolve_unix_m (addr : list N) : res resolved :=
    let* n := strlen_m addr 0 in
    if (n_sun_path <=? n)%nat then Ok RFail                  (* strlen(addr) >= sizeof(sun_path) *)
    else
      let un := alloc n_sun 0 in                             (* calloc *)
      let* un := memcpy_m un (N.to_nat off_sun_family) (native_bytes n_family af_unix) 0 n_family in
      let* un := memcpy_m un (N.to_nat off_sun_path) addr 0 (S n) in       (* strcpy *)
      Ok (RAddrs [mk_sa af_unix sock_stream un]).

  (* ---- sock_resolve_ipv4 / ipv6 ---- *)
  Definition sock_resolve_inet_m (fam : N) (n_sa : nat) (off_family off_port off_addr : N)
      (alen : nat) (pton : list N -> option (list N)) (ips : list N) (p : N) : res resolved :=
    let sin := alloc n_sa 0 in                               (* calloc *)
    let* sin := memcpy_m sin (N.to_nat off_family) (native_bytes n_family fam) 0 n_family in
    let* sin := memcpy_m sin (N.to_nat off_port) (be_bytes 2 (p mod 65536)) 0 2 in   (* htons((in_port_t)p) *)
    match pton ips with
    | None => Ok RFail
    | Some a =>
      let* sin := memcpy_m sin (N.to_nat off_addr) a 0 alen in
      Ok (RAddrs [mk_sa fam sock_stream sin])
    end.

  (* ---- sock_resolve ---- *)
  Definition sock_resolve_m (addr : list N) : res resolved :=
    let* c0 := rd addr 0 in
    if c0 =? 47 then sock_resolve_unix_m addr                (* '/' *)
    else
      let* n := strlen_m addr 0 in
      let* s := memcpy_m (alloc (S n) 0) 0 addr 0 (S n) in   (* strdup *)
      let* cr := strrchr_m s 58 in                           (* strrchr(s, ':') *)
      match cr with
      | None => Ok RFail
      | Some ci =>
        let* s := wr s ci 0 in                               (* *ports++ = '\0' *)
        let ports := S ci in
        let* s0 := rd s 0 in
        if negb (s0 =? 91) then                              (* not '[': host name *)
          let* h := cstr_at s 0 in
          let* ps := cstr_at s ports in
          Ok (RHost h ps)
        else
          let* l := strlen_m s 0 in
          (* s[strlen(s) - 1]: for strlen 0 the index is SIZE_MAX, outside every object *)
          let* last := (match l with O => Fault | S k => rd s k end) in
          if negb (last =? 93) then Ok RFail                 (* ']' *)
          else
            let ips := 1%nat in
            let* l2 := strlen_m s ips in
            let* s := (match l2 with O => Fault | S k => wr s (ips + k) 0 end) in
            let* ps := cstr_at s ports in
            match parse_port ps with
            | None => Ok RFail
            | Some p =>
              let* ip := cstr_at s ips in
              if existsb (N.eqb 58) ip then
                sock_resolve_inet_m af_inet6 n_sin6 off_sin6_family off_sin6_port off_sin6_addr 16 pton6 ip p
              else
                sock_resolve_inet_m af_inet n_sin off_sin_family off_sin_port off_sin_addr 4 pton4 ip p
            end
      end.

  (* ---- sock_addr_ensure_port: the returned string (without terminator) ---- *)
  Definition sock_addr_ensure_port_m (addr : list N) : res (list N) :=
    let* cr := strrchr_m addr 58 in
    let* whole := cstr_at addr 0 in
    let* a0 := rd addr 0 in
    match cr with
    | Some O => Ok whole                                     (* cr == addr *)
    | _ =>
      if a0 =? 47 then Ok whole
      else if negb (a0 =? 91) then
        match cr with
        | None => fmt_interp fmt_ensure_port_host [PStr whole]
        | Some _ => Ok whole
        end
      else
        match cr with
        | None => fmt_interp fmt_ensure_port_addr [PStr whole]
        | Some ci =>
          let* b := (match ci with O => Fault | S k => rd addr k end) in    (* cr[-1] *)
          if negb (b =? 93) then fmt_interp fmt_ensure_port_addr [PStr whole] else Ok whole
        end
    end.
End Resolve.

(* the executable instance used by the correspondence run *)
Definition sock_resolve_x := sock_resolve_m pton6_glibc.
Definition sock_addr_prettyprint_x := sock_addr_prettyprint_m ntop6_glibc.

(* ---- spec side: the address a literal denotes ---- *)
Definition sockaddr_in_of (port : N) (a4 : list N) : list N :=
  native_bytes n_family af_inet ++ be_bytes 2 port ++ a4 ++ repeat 0 (n_sin - n_family - 2 - 4).
Definition sockaddr_in6_of (port : N) (a16 : list N) : list N :=
  native_bytes n_family af_inet6 ++ be_bytes 2 port ++ repeat 0 4 ++ a16 ++ repeat 0 4.
Definition sockaddr_un_of (path : list N) : list N :=
  native_bytes n_family af_unix ++ path ++ repeat 0 (n_sun_path - length path).
Definition sa_ipv4 (port : N) (a4 : list N) : sock_addr := mk_sa af_inet sock_stream (sockaddr_in_of port a4).
Definition sa_ipv6 (port : N) (a16 : list N) : sock_addr := mk_sa af_inet6 sock_stream (sockaddr_in6_of port a16).
Definition sa_unix (path : list N) : sock_addr := mk_sa af_unix sock_stream (sockaddr_un_of path).
