(* unhexify on a raw block WITHOUT a terminator: it looks at the first 2*len bytes only. *)
From Coq Require Import NArith List Lia Bool Arith.
From LCP Require Import Base.CheckedMem Gen.Repo_codec Util.Hex Util.HexProofs.
Import ListNotations.
Local Open Scope N_scope.

Lemma unhex_scan_prefix tbl a b n : forall i, (i + n <= length a)%nat ->
  unhex_scan tbl (a ++ b) i n = unhex_scan tbl a i n.
Proof.
  induction n as [|n IH]; intros i Hi; [reflexivity|].
  cbn [unhex_scan]. rewrite rd_app_l by lia.
  destruct (rd a i) as [c| | |]; cbn [bind]; try reflexivity.
  destruct ((c =? 0) || negb (in_tbl tbl c)); [reflexivity|].
  apply IH. lia.
Qed.

Lemma unhex_conv_prefix tbl a b n : forall i, (2 * (i + n) <= length a)%nat ->
  unhex_conv tbl (a ++ b) i n = unhex_conv tbl a i n.
Proof.
  induction n as [|n IH]; intros i Hi; [reflexivity|].
  cbn [unhex_conv]. rewrite !rd_app_l by lia.
  destruct (rd a (2 * i)) as [x| | |]; cbn [bind]; try reflexivity.
  destruct (rd a (2 * i + 1)) as [y| | |]; cbn [bind]; try reflexivity.
  destruct (find_idx x tbl); [|reflexivity]. destruct (find_idx y tbl); [|reflexivity].
  rewrite IH by lia. reflexivity.
Qed.

(* the block may be longer than 2*len; what follows the first 2*len bytes is never read *)
Theorem unhexify_raw_block buf len :
  bytes_ok buf -> (2 * len <= length buf)%nat ->
  unhexify_m hexchars buf len = Ok (unhex_spec buf len).
Proof.
  intros Hb Hl. rewrite <- (unhexify_correct buf len Hb). unfold unhexify_m, cstr.
  rewrite unhex_scan_prefix by lia.
  destruct (unhex_scan hexchars buf 0 (2 * len)) as [ok| | |]; cbn [bind]; try reflexivity.
  destruct ok; [|reflexivity]. rewrite unhex_conv_prefix by lia. reflexivity.
Qed.

(* ... and a block that ends right after the 2*len characters is enough: no terminator needed *)
Example unhexify_raw_exact :
  unhexify_m hexchars [52; 49; 54; 50] 2 = Ok (Some [65; 98]).
Proof. vm_compute. reflexivity. Qed.
