(* The strtoumax / strtoimax models (Util/Strto.v) compute what the numeral grammar of
   Util/ParsenumSpec.v denotes, on every NUL-terminated byte string, without ever reading past the
   terminator (the result is an [Ok]). *)
From Coq Require Import Arith NArith ZArith List Lia Bool.
From LCP Require Import Base.CheckedMem Base.Sweep Util.ParsenumSpec Util.Strto.
Import ListNotations.
Local Open Scope Z_scope.

(* ---- character classes: the model's tests agree with the spec's on every byte ---- *)
Lemma isspace_blank c : (c < 256)%N -> isspace c = blank c.
Proof.
  intros H.
  assert (forallb (fun c => Bool.eqb (isspace c) (blank c)) (N_range 256) = true) as S by (vm_compute; reflexivity).
  apply Bool.eqb_prop. exact (sweep_byte _ S c H).
Qed.

Definition optZ_eqb (a b : option Z) : bool :=
  match a, b with Some x, Some y => x =? y | None, None => true | _, _ => false end.
Lemma optZ_eqb_eq a b : optZ_eqb a b = true -> a = b.
Proof. destruct a, b; simpl; intros H; try discriminate; auto. apply Z.eqb_eq in H. subst. reflexivity. Qed.

Lemma digit_of_value c : (c < 256)%N -> digit_of c = digit_value c.
Proof.
  intros H.
  assert (forallb (fun c => optZ_eqb (digit_of c) (digit_value c)) (N_range 256) = true) as S by (vm_compute; reflexivity).
  apply optZ_eqb_eq. exact (sweep_byte _ S c H).
Qed.

Lemma digit_value_range c d : (c < 256)%N -> digit_value c = Some d -> 0 <= d < 36.
Proof.
  intros H E.
  assert (forallb (fun c => match digit_value c with Some d => (0 <=? d) && (d <? 36) | None => true end)
                  (N_range 256) = true) as S by (vm_compute; reflexivity).
  pose proof (sweep_byte _ S c H) as P. cbv beta in P. rewrite E in P.
  apply andb_true_iff in P. destruct P as [P1 P2]. apply Z.leb_le in P1. apply Z.ltb_lt in P2. lia.
Qed.

Lemma digit_value_nul : digit_value 0%N = None.
Proof. reflexivity. Qed.

Lemma is_hex_spec c : (c < 256)%N ->
  is_hex c = match digit_in 16 c with Some _ => true | None => false end.
Proof.
  intros H. unfold is_hex, digit_in. rewrite (digit_of_value c H).
  destruct (digit_value c) as [d|]; [|reflexivity]. destruct (d <? 16); reflexivity.
Qed.

(* ---- reading a C string that sits behind an already consumed prefix ---- *)
Lemma rd_pre pre l k : rd (pre ++ l) (length pre + k) = rd l k.
Proof. apply rd_app_r. Qed.

Lemma rd_pre0 pre l : rd (pre ++ l) (length pre) = rd l 0.
Proof. rewrite <- (Nat.add_0_r (length pre)). apply rd_app_r. Qed.

Lemma bytes_ok_cons c r : bytes_ok (c :: r) -> (c < 256)%N /\ bytes_ok r.
Proof. intros H. inversion H; subst. split; assumption. Qed.

Lemma no_nul_cons c r : no_nul (c :: r) -> c <> 0%N /\ no_nul r.
Proof. intros H. inversion H; subst. split; assumption. Qed.

Lemma bytes_ok_app a b : bytes_ok (a ++ b) -> bytes_ok a /\ bytes_ok b.
Proof. unfold bytes_ok. intros H. apply Forall_app in H. exact H. Qed.

Lemma no_nul_app a b : no_nul (a ++ b) -> no_nul a /\ no_nul b.
Proof. unfold no_nul. intros H. apply Forall_app in H. exact H. Qed.

(* ---- blanks ---- *)
Fixpoint count_blanks (s : list N) : nat :=
  match s with c :: r => if blank c then S (count_blanks r) else O | [] => O end.

Lemma drop_blanks_split s : s = firstn (count_blanks s) s ++ drop_blanks s.
Proof.
  induction s as [|c r IH]; [reflexivity|]. cbn [count_blanks drop_blanks].
  destruct (blank c); [|reflexivity]. cbn [firstn app]. f_equal. exact IH.
Qed.

Lemma count_blanks_le s : (count_blanks s <= length s)%nat.
Proof. induction s as [|c r IH]; simpl; [lia|]. destruct (blank c); simpl; lia. Qed.

Lemma length_firstn_blanks s : length (firstn (count_blanks s) s) = count_blanks s.
Proof. apply firstn_length_le, count_blanks_le. Qed.

Lemma drop_blanks_head s c r : drop_blanks s = c :: r -> blank c = false.
Proof.
  induction s as [|x t IH]; [discriminate|]. cbn [drop_blanks].
  destruct (blank x) eqn:E; [exact IH|]. intros H. inversion H; subst. exact E.
Qed.

Lemma skip_ws_correct s : forall pre fuel,
  bytes_ok s -> (length s < fuel)%nat ->
  skip_ws fuel (pre ++ cstr s) (length pre) = Ok (length pre + count_blanks s)%nat.
Proof.
  induction s as [|c r IH]; intros pre fuel Hb Hf.
  - destruct fuel; [simpl in Hf; lia|]. cbn [skip_ws count_blanks]. rewrite rd_pre0.
    unfold cstr. cbn. f_equal. lia.
  - destruct fuel; [simpl in Hf; lia|]. cbn [skip_ws count_blanks]. rewrite rd_pre0.
    destruct (bytes_ok_cons _ _ Hb) as [Hc Hr].
    unfold cstr. cbn [app rd nth_error bind]. rewrite (isspace_blank c Hc).
    destruct (blank c).
    + specialize (IH (pre ++ [c]) fuel Hr). rewrite app_length in IH. cbn [length] in IH.
      rewrite <- app_assoc in IH. cbn [app] in IH. unfold cstr in IH.
      replace (S (length pre)) with (length pre + 1)%nat by lia. rewrite IH by (simpl in Hf; lia).
      f_equal. lia.
    + f_equal. lia.
Qed.

(* ---- the digit loop ---- *)
Fixpoint count_digits (b : Z) (s : list N) : nat :=
  match s with
  | c :: r => match digit_in b c with Some _ => S (count_digits b r) | None => O end
  | [] => O
  end.

Lemma take_digits_split b s :
  s = firstn (count_digits b s) s ++ snd (take_digits b s) /\
  length (fst (take_digits b s)) = count_digits b s.
Proof.
  induction s as [|c r IH]; [split; reflexivity|]. cbn [count_digits take_digits].
  destruct (digit_in b c) as [d|]; [|split; reflexivity].
  destruct (take_digits b r) as [ds rest]. cbn [fst snd] in *. destruct IH as [I1 I2].
  split; [cbn [firstn app]; f_equal; exact I1 | cbn [length]; f_equal; exact I2].
Qed.

Lemma count_digits_le b s : (count_digits b s <= length s)%nat.
Proof. induction s as [|c r IH]; simpl; [lia|]. destruct (digit_in b c); simpl; lia. Qed.

(* the cutoff / cutlim test is exactly "the next value exceeds lim" *)
Lemma cutoff_iff z b d lim :
  0 <= z -> 2 <= b -> 0 <= d < b -> 0 <= lim ->
  ((z >? lim / b) || ((z =? lim / b) && (d >? lim mod b))) = (z * b + d >? lim).
Proof.
  intros Hz Hb Hd Hl.
  pose proof (Z.div_mod lim b ltac:(lia)) as E.
  pose proof (Z.mod_pos_bound lim b ltac:(lia)) as Hr.
  set (q := lim / b) in *. set (r := lim mod b) in *.
  destruct (Z.gtb_spec z q) as [G|G]; cbn [orb].
  - symmetry. apply Z.gtb_lt. nia.
  - destruct (Z.eqb_spec z q) as [Q|Q]; cbn [andb].
    + subst z. destruct (Z.gtb_spec d r) as [D|D]; symmetry.
      * apply Z.gtb_lt. nia.
      * destruct (Z.gtb_spec (q * b + d) lim); [nia|reflexivity].
    + symmetry. destruct (Z.gtb_spec (z * b + d) lim); [nia|reflexivity].
Qed.

(* acc / ovf represent the unbounded magnitude z *)
Definition repr (lim acc : Z) (ovf : bool) (z : Z) : Prop :=
  0 <= z /\ (ovf = false -> acc = z /\ z <= lim) /\ (ovf = true -> z > lim).

Lemma digits_loop_correct b lim s : forall pre fuel acc ovf z,
  2 <= b <= 36 -> 0 <= lim ->
  bytes_ok s -> (length s < fuel)%nat -> repr lim acc ovf z ->
  exists acc' ovf',
    digits_loop fuel (pre ++ cstr s) (length pre) b lim acc ovf
      = Ok ((length pre + count_digits b s)%nat, acc', ovf') /\
    repr lim acc' ovf' (fold_left (fun a d => a * b + d) (fst (take_digits b s)) z).
Proof.
  intros pre fuel acc ovf z Hb Hl. revert pre fuel acc ovf z.
  induction s as [|c r IH]; intros pre fuel acc ovf z Hs Hf Hrep.
  - destruct fuel; [simpl in Hf; lia|]. cbn [digits_loop count_digits take_digits fst fold_left].
    rewrite rd_pre0. unfold cstr. cbn [app rd nth_error bind].
    change (digit_of 0) with (@None Z). exists acc, ovf. split; [f_equal; f_equal; f_equal; lia | exact Hrep].
  - destruct fuel; [simpl in Hf; lia|]. cbn [digits_loop count_digits take_digits].
    rewrite rd_pre0. destruct (bytes_ok_cons _ _ Hs) as [Hc Hr].
    unfold cstr. cbn [app rd nth_error bind]. rewrite (digit_of_value c Hc). unfold digit_in.
    destruct (digit_value c) as [d|] eqn:Ed.
    2:{ exists acc, ovf. cbn [fst fold_left]. split; [f_equal; f_equal; f_equal; lia | exact Hrep]. }
    pose proof (digit_value_range c d Hc Ed) as Hd.
    destruct (Z.ltb_spec d b) as [Hlt|Hge].
    2:{ exists acc, ovf. cbn [fst fold_left]. split; [f_equal; f_equal; f_equal; lia | exact Hrep]. }
    destruct (take_digits b r) as [ds rest] eqn:Etd. cbn [fst fold_left].
    set (ovf' := ovf || (acc >? lim / b) || ((acc =? lim / b) && (d >? lim mod b))).
    set (acc' := if ovf' then acc else acc * b + d).
    assert (repr lim acc' ovf' (z * b + d)) as Hrep'.
    { destruct Hrep as (Hz & Hf0 & Ht0). unfold repr. split; [nia|].
      destruct ovf.
      - specialize (Ht0 eq_refl). subst ovf' acc'. cbn [orb]. split; [discriminate|]. intros _. nia.
      - destruct (Hf0 eq_refl) as [-> Hle]. subst acc'. subst ovf'. cbn [orb].
        rewrite (cutoff_iff z b d lim) by lia.
        destruct (Z.gtb_spec (z * b + d) lim) as [G|G]; split; intros; try discriminate; try lia.
        split; [reflexivity|lia]. }
    specialize (IH (pre ++ [c]) fuel acc' ovf' (z * b + d) Hr).
    rewrite Etd in IH. cbn [fst] in IH.
    rewrite app_length in IH. cbn [length] in IH. rewrite <- app_assoc in IH. cbn [app] in IH.
    unfold cstr in IH. destruct IH as (a2 & o2 & E2 & R2); [simpl in Hf; lia | exact Hrep' |].
    exists a2, o2. replace (S (length pre)) with (length pre + 1)%nat by lia. rewrite E2.
    split; [f_equal; f_equal; f_equal; lia | exact R2].
Qed.
