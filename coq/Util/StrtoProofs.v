(* The strtoumax / strtoimax models (Util/Strto.v) compute what the numeral grammar of
   Util/ParsenumSpec.v denotes, on every NUL-terminated byte string, without ever reading past the
   terminator (the result is an [Ok]). *)
From Coq Require Import Arith NArith ZArith List Lia Bool.
From LCP Require Import Base.CheckedMem Base.Sweep Util.ParsenumSpec Util.Strto.
Import ListNotations.
Local Open Scope Z_scope.

(* ---- character classes: the model's tests agree with the spec's on every byte ---- *)
Lemma isspace_blank c : (c < 256)%N -> isspace c = blank c.
Proof.
  intros H.
  assert (forallb (fun c => Bool.eqb (isspace c) (blank c)) (N_range 256) = true) as S by (vm_compute; reflexivity).
  apply Bool.eqb_prop. exact (sweep_byte _ S c H).
Qed.

Definition optZ_eqb (a b : option Z) : bool :=
  match a, b with Some x, Some y => x =? y | None, None => true | _, _ => false end.
Lemma optZ_eqb_eq a b : optZ_eqb a b = true -> a = b.
Proof. destruct a, b; simpl; intros H; try discriminate; auto. apply Z.eqb_eq in H. subst. reflexivity. Qed.

Lemma digit_of_value c : (c < 256)%N -> digit_of c = digit_value c.
Proof.
  intros H.
  assert (forallb (fun c => optZ_eqb (digit_of c) (digit_value c)) (N_range 256) = true) as S by (vm_compute; reflexivity).
  apply optZ_eqb_eq. exact (sweep_byte _ S c H).
Qed.

Lemma digit_value_range c d : (c < 256)%N -> digit_value c = Some d -> 0 <= d < 36.
Proof.
  intros H E.
  assert (forallb (fun c => match digit_value c with Some d => (0 <=? d) && (d <? 36) | None => true end)
                  (N_range 256) = true) as S by (vm_compute; reflexivity).
  pose proof (sweep_byte _ S c H) as P. cbv beta in P. rewrite E in P.
  apply andb_true_iff in P. destruct P as [P1 P2]. apply Z.leb_le in P1. apply Z.ltb_lt in P2. lia.
Qed.

Lemma digit_value_nul : digit_value 0%N = None.
Proof. reflexivity. Qed.

Lemma is_hex_spec c : (c < 256)%N ->
  is_hex c = match digit_in 16 c with Some _ => true | None => false end.
Proof.
  intros H. unfold is_hex, digit_in. rewrite (digit_of_value c H).
  destruct (digit_value c) as [d|]; [|reflexivity]. destruct (d <? 16); reflexivity.
Qed.

(* ---- reading a C string that sits behind an already consumed prefix ---- *)
Lemma rd_pre pre l k : rd (pre ++ l) (length pre + k) = rd l k.
Proof. apply rd_app_r. Qed.

Lemma rd_pre0 pre l : rd (pre ++ l) (length pre) = rd l 0.
Proof. rewrite <- (Nat.add_0_r (length pre)). apply rd_app_r. Qed.

Lemma bytes_ok_cons c r : bytes_ok (c :: r) -> (c < 256)%N /\ bytes_ok r.
Proof. intros H. inversion H; subst. split; assumption. Qed.

Lemma no_nul_cons c r : no_nul (c :: r) -> c <> 0%N /\ no_nul r.
Proof. intros H. inversion H; subst. split; assumption. Qed.

Lemma bytes_ok_app a b : bytes_ok (a ++ b) -> bytes_ok a /\ bytes_ok b.
Proof. unfold bytes_ok. intros H. apply Forall_app in H. exact H. Qed.

Lemma no_nul_app a b : no_nul (a ++ b) -> no_nul a /\ no_nul b.
Proof. unfold no_nul. intros H. apply Forall_app in H. exact H. Qed.

(* ---- blanks ---- *)
Fixpoint count_blanks (s : list N) : nat :=
  match s with c :: r => if blank c then S (count_blanks r) else O | [] => O end.

Lemma drop_blanks_split s : s = firstn (count_blanks s) s ++ drop_blanks s.
Proof.
  induction s as [|c r IH]; [reflexivity|]. cbn [count_blanks drop_blanks].
  destruct (blank c); [|reflexivity]. cbn [firstn app]. f_equal. exact IH.
Qed.

Lemma count_blanks_le s : (count_blanks s <= length s)%nat.
Proof. induction s as [|c r IH]; simpl; [lia|]. destruct (blank c); simpl; lia. Qed.

Lemma length_firstn_blanks s : length (firstn (count_blanks s) s) = count_blanks s.
Proof. apply firstn_length_le, count_blanks_le. Qed.

Lemma drop_blanks_head s c r : drop_blanks s = c :: r -> blank c = false.
Proof.
  induction s as [|x t IH]; [discriminate|]. cbn [drop_blanks].
  destruct (blank x) eqn:E; [exact IH|]. intros H. inversion H; subst. exact E.
Qed.

Lemma skip_ws_correct s : forall pre fuel,
  bytes_ok s -> (length s < fuel)%nat ->
  skip_ws fuel (pre ++ cstr s) (length pre) = Ok (length pre + count_blanks s)%nat.
Proof.
  induction s as [|c r IH]; intros pre fuel Hb Hf.
  - destruct fuel; [simpl in Hf; lia|]. cbn [skip_ws count_blanks]. rewrite rd_pre0.
    unfold cstr. cbn. f_equal. lia.
  - destruct fuel; [simpl in Hf; lia|]. cbn [skip_ws count_blanks]. rewrite rd_pre0.
    destruct (bytes_ok_cons _ _ Hb) as [Hc Hr].
    unfold cstr. cbn [app rd nth_error bind]. rewrite (isspace_blank c Hc).
    destruct (blank c).
    + specialize (IH (pre ++ [c]) fuel Hr). rewrite app_length in IH. cbn [length] in IH.
      rewrite <- app_assoc in IH. cbn [app] in IH. unfold cstr in IH.
      replace (S (length pre)) with (length pre + 1)%nat by lia. rewrite IH by (simpl in Hf; lia).
      f_equal. lia.
    + f_equal. lia.
Qed.

(* ---- the digit loop ---- *)
Fixpoint count_digits (b : Z) (s : list N) : nat :=
  match s with
  | c :: r => match digit_in b c with Some _ => S (count_digits b r) | None => O end
  | [] => O
  end.

Lemma take_digits_split b s :
  s = firstn (count_digits b s) s ++ snd (take_digits b s) /\
  length (fst (take_digits b s)) = count_digits b s.
Proof.
  induction s as [|c r IH]; [split; reflexivity|]. cbn [count_digits take_digits].
  destruct (digit_in b c) as [d|]; [|split; reflexivity].
  destruct (take_digits b r) as [ds rest]. cbn [fst snd] in *. destruct IH as [I1 I2].
  split; [cbn [firstn app]; f_equal; exact I1 | cbn [length]; f_equal; exact I2].
Qed.

Lemma count_digits_le b s : (count_digits b s <= length s)%nat.
Proof. induction s as [|c r IH]; simpl; [lia|]. destruct (digit_in b c); simpl; lia. Qed.

(* the cutoff / cutlim test is exactly "the next value exceeds lim" *)
Lemma cutoff_iff z b d lim :
  0 <= z -> 2 <= b -> 0 <= d < b -> 0 <= lim ->
  ((z >? lim / b) || ((z =? lim / b) && (d >? lim mod b))) = (z * b + d >? lim).
Proof.
  intros Hz Hb Hd Hl.
  pose proof (Z.div_mod lim b ltac:(lia)) as E.
  pose proof (Z.mod_pos_bound lim b ltac:(lia)) as Hr.
  set (q := lim / b) in *. set (r := lim mod b) in *.
  destruct (Z.gtb_spec z q) as [G|G]; cbn [orb].
  - symmetry. apply Z.gtb_lt. nia.
  - destruct (Z.eqb_spec z q) as [Q|Q]; cbn [andb].
    + subst z. destruct (Z.gtb_spec d r) as [D|D]; symmetry.
      * apply Z.gtb_lt. nia.
      * destruct (Z.gtb_spec (q * b + d) lim); [nia|reflexivity].
    + symmetry. destruct (Z.gtb_spec (z * b + d) lim); [nia|reflexivity].
Qed.

(* acc / ovf represent the unbounded magnitude z *)
Definition repr (lim acc : Z) (ovf : bool) (z : Z) : Prop :=
  0 <= z /\ (ovf = false -> acc = z /\ z <= lim) /\ (ovf = true -> z > lim).

Lemma digits_loop_correct b lim s : forall pre fuel acc ovf z,
  2 <= b <= 36 -> 0 <= lim ->
  bytes_ok s -> (length s < fuel)%nat -> repr lim acc ovf z ->
  exists acc' ovf',
    digits_loop fuel (pre ++ cstr s) (length pre) b lim acc ovf
      = Ok ((length pre + count_digits b s)%nat, acc', ovf') /\
    repr lim acc' ovf' (fold_left (fun a d => a * b + d) (fst (take_digits b s)) z).
Proof.
  intros pre fuel acc ovf z Hb Hl. revert pre fuel acc ovf z.
  induction s as [|c r IH]; intros pre fuel acc ovf z Hs Hf Hrep.
  - destruct fuel; [simpl in Hf; lia|]. cbn [digits_loop count_digits take_digits fst fold_left].
    rewrite rd_pre0. unfold cstr. cbn [app rd nth_error bind].
    change (digit_of 0) with (@None Z). exists acc, ovf. split; [f_equal; f_equal; f_equal; lia | exact Hrep].
  - destruct fuel; [simpl in Hf; lia|]. cbn [digits_loop count_digits take_digits].
    rewrite rd_pre0. destruct (bytes_ok_cons _ _ Hs) as [Hc Hr].
    unfold cstr. cbn [app rd nth_error bind]. rewrite (digit_of_value c Hc). unfold digit_in.
    destruct (digit_value c) as [d|] eqn:Ed.
    2:{ exists acc, ovf. cbn [fst fold_left]. split; [f_equal; f_equal; f_equal; lia | exact Hrep]. }
    pose proof (digit_value_range c d Hc Ed) as Hd.
    destruct (Z.ltb_spec d b) as [Hlt|Hge].
    2:{ exists acc, ovf. cbn [fst fold_left]. split; [f_equal; f_equal; f_equal; lia | exact Hrep]. }
    destruct (take_digits b r) as [ds rest] eqn:Etd. cbn [fst fold_left].
    set (ovf' := ovf || (acc >? lim / b) || ((acc =? lim / b) && (d >? lim mod b))).
    set (acc' := if ovf' then acc else acc * b + d).
    assert (repr lim acc' ovf' (z * b + d)) as Hrep'.
    { destruct Hrep as (Hz & Hf0 & Ht0). unfold repr. split; [nia|].
      destruct ovf.
      - specialize (Ht0 eq_refl). subst ovf' acc'. cbn [orb]. split; [discriminate|]. intros _. nia.
      - destruct (Hf0 eq_refl) as [-> Hle]. subst acc'. subst ovf'. cbn [orb].
        rewrite (cutoff_iff z b d lim) by lia.
        destruct (Z.gtb_spec (z * b + d) lim) as [G|G].
        + split; [discriminate | intros _; lia].
        + split; [intros _; split; [reflexivity|lia] | discriminate]. }
    specialize (IH (pre ++ [c]) fuel acc' ovf' (z * b + d) Hr).
    cbn [fst] in IH.
    rewrite app_length in IH. cbn [length] in IH. rewrite <- app_assoc in IH. cbn [app] in IH.
    unfold cstr in IH. destruct IH as (a2 & o2 & E2 & R2); [simpl in Hf; lia | exact Hrep' |].
    exists a2, o2. replace (S (length pre)) with (length pre + 1)%nat by lia. rewrite E2.
    split; [f_equal; f_equal; f_equal; lia | exact R2].
Qed.

(* ---- sign and base selection ---- *)
Lemma cstr_app pre l : cstr (pre ++ l) = pre ++ cstr l.
Proof. unfold cstr. rewrite <- app_assoc. reflexivity. Qed.

Lemma split_sign_split s0 neg s1 :
  split_sign s0 = (neg, s1) -> exists p, s0 = p ++ s1 /\ (length p <= 1)%nat.
Proof.
  unfold split_sign. destruct s0 as [|c r]; intros H.
  - inversion H; subst. exists []. split; [reflexivity|simpl; lia].
  - destruct (c =? 45)%N; [inversion H; subst; exists [c]; split; [reflexivity|simpl; lia]|].
    destruct (c =? 43)%N; inversion H; subst; [exists [c] | exists []]; split; try reflexivity; simpl; lia.
Qed.

Lemma select_base_split base s1 b s2 :
  select_base base s1 = (b, s2) -> exists p, s1 = p ++ s2.
Proof.
  unfold select_base. intros H.
  destruct s1 as [|z [|x [|h r]]]; try (inversion H; subst; exists []; reflexivity).
  destruct ((z =? 48)%N && ((x =? 120)%N || (x =? 88)%N) && base16_ok base &&
            match digit_in 16 h with Some _ => true | None => false end);
    inversion H; subst; [exists [z; x] | exists []]; reflexivity.
Qed.

Lemma strto_base_correct pre1 s1 base :
  bytes_ok s1 -> no_nul s1 -> base_ok base ->
  exists b s2 pre2,
    select_base base s1 = (b, s2) /\ s1 = pre2 ++ s2 /\ 2 <= b <= 36 /\
    strto_base (pre1 ++ cstr s1) base (length pre1) = Ok (b, (length pre1 + length pre2)%nat).
Proof.
  intros Hb Hn Hbase. unfold strto_base, select_base.
  replace (S (S (length pre1))) with (length pre1 + 2)%nat by lia.
  replace (S (length pre1)) with (length pre1 + 1)%nat by lia.
  rewrite rd_pre0, !rd_pre.
  assert (forall (P : Z -> Prop), P base -> P base) as _ by auto.
  assert (2 <= (if base =? 0 then 10 else base) <= 36) as B10
      by (destruct (Z.eqb_spec base 0); unfold base_ok in Hbase; lia).
  assert (2 <= (if base =? 0 then 8 else base) <= 36) as B8
      by (destruct (Z.eqb_spec base 0); unfold base_ok in Hbase; lia).
  assert (~ base = 0 -> 2 <= base <= 36) as Bn by (unfold base_ok in Hbase; lia).
  destruct s1 as [|z r1].
  - (* nothing after the sign *)
    unfold cstr. cbn [app rd nth_error bind]. change (0 =? 48)%N with false. cbv iota.
    exists (if base =? 0 then 10 else base), [], []. repeat split; try lia.
    f_equal. f_equal. simpl. lia.
  - destruct (bytes_ok_cons _ _ Hb) as [Hz Hb1]. destruct (no_nul_cons _ _ Hn) as [Hz0 Hn1].
    unfold cstr. cbn [app rd nth_error bind].
    destruct (N.eqb_spec z 48) as [Ez|Ez].
    2:{ (* not a leading zero: no prefix, decimal for base 0 *)
      exists (if base =? 0 then 10 else base), (z :: r1), [].
      split.
      { destruct r1 as [|x [|h r]]; reflexivity. }
      repeat split; try lia. f_equal. f_equal. simpl. lia. }
    subst z. unfold base16_ok.
    destruct ((base =? 0) || (base =? 16)) eqn:E16.
    2:{ (* leading zero in a base without prefix *)
      apply orb_false_iff in E16. destruct E16 as [E0 E6]. rewrite E0.
      apply Z.eqb_neq in E0. exists base, (48%N :: r1), []. split.
      { destruct r1 as [|x [|h r]]; try reflexivity. rewrite andb_false_r. cbn [andb]. reflexivity. }
      repeat split; try (apply Bn; exact E0). f_equal. f_equal. simpl. lia. }
    destruct r1 as [|x r2].
    { (* "0" alone *)
      cbn [app rd nth_error bind]. change (is_x 0) with false. cbv iota.
      exists (if base =? 0 then 8 else base), [48%N], []. repeat split; try lia.
      f_equal. f_equal. simpl. lia. }
    destruct (bytes_ok_cons _ _ Hb1) as [Hx Hb2]. destruct (no_nul_cons _ _ Hn1) as [Hx0 Hn2].
    cbn [app rd nth_error bind]. unfold is_x.
    destruct ((x =? 120)%N || (x =? 88)%N) eqn:Ex.
    2:{ (* "0" followed by something that is not x: octal for base 0 *)
      exists (if base =? 0 then 8 else base), (48%N :: x :: r2), []. split.
      { destruct r2 as [|h r]; reflexivity. }
      repeat split; try lia. f_equal. f_equal. simpl. lia. }
    destruct r2 as [|h r3].
    { (* "0x" at the end of the string *)
      cbn [app rd nth_error bind]. change (is_hex 0) with false. cbv iota.
      exists (if base =? 0 then 8 else base), [48%N; x], []. repeat split; try lia.
      f_equal. f_equal. simpl. lia. }
    destruct (bytes_ok_cons _ _ Hb2) as [Hh Hb3].
    cbn [app rd nth_error bind]. rewrite (is_hex_spec h Hh). cbn [andb].
    destruct (digit_in 16 h) as [dh|].
    + (* prefix taken *)
      exists 16, (h :: r3), [48%N; x]. repeat split; try lia.
    + exists (if base =? 0 then 8 else base), (48%N :: x :: h :: r3), []. repeat split; try lia.
      f_equal. f_equal. simpl. lia.
Qed.

(* what the front part of the model computes, in terms of the spec's functions *)
Lemma strto_front_correct s base :
  bytes_ok s -> no_nul s -> base_ok base ->
  exists neg s1 b s2 pre,
    split_sign (drop_blanks s) = (neg, s1) /\ select_base base s1 = (b, s2) /\
    s = pre ++ s2 /\ 2 <= b <= 36 /\
    strto_front (cstr s) base = Ok (neg, b, length pre).
Proof.
  intros Hb Hn Hbase. unfold strto_front.
  pose proof (skip_ws_correct s [] (S (length (cstr s))) Hb) as Hsk.
  cbn [app length] in Hsk. rewrite Hsk by (unfold cstr; rewrite app_length; simpl; lia). clear Hsk.
  cbn [bind Nat.add].
  pose proof (drop_blanks_split s) as Hsplit. pose proof (length_firstn_blanks s) as Hbl.
  remember (firstn (count_blanks s) s) as bl eqn:Ebl. remember (drop_blanks s) as s0 eqn:Es0'.
  rewrite <- Hbl. clear Ebl Es0' Hbl. subst s.
  destruct (bytes_ok_app _ _ Hb) as [_ Hb0]. destruct (no_nul_app _ _ Hn) as [_ Hn0].
  rewrite cstr_app. rewrite rd_pre0.
  destruct s0 as [|c r0] eqn:Es0.
  - (* only blanks *)
    unfold cstr at 1. cbn [app rd nth_error bind]. change (0 =? 45)%N with false. change (0 =? 43)%N with false.
    cbn [orb]. cbv iota.
    destruct (strto_base_correct bl [] base Hb0 Hn0 Hbase) as (b & s2 & pre2 & E1 & E2 & E3 & E4).
    rewrite E4. cbn [bind]. exists false, [], b, s2, (bl ++ pre2).
    split; [reflexivity|]. split; [exact E1|]. split; [rewrite E2, app_assoc; reflexivity|].
    split; [exact E3|]. rewrite app_length. reflexivity.
  - destruct (bytes_ok_cons _ _ Hb0) as [Hc Hb1]. destruct (no_nul_cons _ _ Hn0) as [Hc0 Hn1].
    unfold cstr at 1. cbn [app rd nth_error bind]. unfold split_sign.
    destruct (c =? 45)%N eqn:E45; [|destruct (c =? 43)%N eqn:E43]; cbn [orb]; cbv iota.
    + destruct (strto_base_correct (bl ++ [c]) r0 base Hb1 Hn1 Hbase) as (b & s2 & pre2 & E1 & E2 & E3 & E4).
      rewrite app_length in E4. cbn [length] in E4. rewrite <- app_assoc in E4. cbn [app] in E4.
      replace (S (length bl)) with (length bl + 1)%nat by lia. unfold cstr in E4 |- *. cbn [app] in E4 |- *. rewrite E4. cbn [bind].
      exists true, r0, b, s2, (bl ++ c :: pre2).
      split; [reflexivity|]. split; [exact E1|]. split; [rewrite E2, <- app_assoc; reflexivity|].
      split; [exact E3|]. rewrite app_length. cbn [length]. f_equal. f_equal. lia.
    + destruct (strto_base_correct (bl ++ [c]) r0 base Hb1 Hn1 Hbase) as (b & s2 & pre2 & E1 & E2 & E3 & E4).
      rewrite app_length in E4. cbn [length] in E4. rewrite <- app_assoc in E4. cbn [app] in E4.
      replace (S (length bl)) with (length bl + 1)%nat by lia. unfold cstr in E4 |- *. cbn [app] in E4 |- *. rewrite E4. cbn [bind].
      exists false, r0, b, s2, (bl ++ c :: pre2).
      split; [reflexivity|]. split; [exact E1|]. split; [rewrite E2, <- app_assoc; reflexivity|].
      split; [exact E3|]. rewrite app_length. cbn [length]. f_equal. f_equal. lia.
    + destruct (strto_base_correct bl (c :: r0) base Hb0 Hn0 Hbase) as (b & s2 & pre2 & E1 & E2 & E3 & E4).
      unfold cstr in E4 |- *. cbn [app] in E4 |- *. rewrite E4. cbn [bind].
      exists false, (c :: r0), b, s2, (bl ++ pre2).
      split; [reflexivity|]. split; [exact E1|]. split; [rewrite E2, app_assoc; reflexivity|].
      split; [exact E3|]. rewrite app_length. reflexivity.
Qed.

(* ---- the two functions ---- *)
(* value, index of the end pointer (0 = no conversion), ERANGE raised *)
Definition strtou_spec (base : Z) (s : list N) : Z * nat * bool :=
  match numeral base (drop_blanks s) with
  | None => (0, 0%nat, false)
  | Some (neg, v, rest) =>
    let e := (length s - length rest)%nat in
    if v >? UMAX then (UMAX, e, true)
    else ((if neg then (two64 - v) mod two64 else v), e, false)
  end.

Definition strtoi_spec (base : Z) (s : list N) : Z * nat * bool :=
  match numeral base (drop_blanks s) with
  | None => (0, 0%nat, false)
  | Some (neg, v, rest) =>
    let e := (length s - length rest)%nat in
    if v >? (if neg then - IMIN else IMAX) then ((if neg then IMIN else IMAX), e, true)
    else ((if neg then - v else v), e, false)
  end.

(* common part: run the digit loop after the front part and compare with the grammar *)
Lemma strto_digits s base lim :
  bytes_ok s -> no_nul s -> base_ok base -> 0 <= lim ->
  exists neg b (pre : list N),
    strto_front (cstr s) base = Ok (neg, b, length pre) /\
    exists j acc ovf,
      digits_loop (S (length (cstr s))) (cstr s) (length pre) b lim 0 false = Ok (j, acc, ovf) /\
      match numeral base (drop_blanks s) with
      | None => j = length pre
      | Some (neg', v, rest) =>
        neg' = neg /\ j <> length pre /\ j = (length s - length rest)%nat /\ repr lim acc ovf v
      end.
Proof.
  intros Hb Hn Hbase Hl.
  destruct (strto_front_correct s base Hb Hn Hbase) as (neg & s1 & b & s2 & pre & E1 & E2 & E3 & E4 & E5).
  exists neg, b, pre. split; [exact E5|].
  subst s. destruct (bytes_ok_app _ _ Hb) as [_ Hb2].
  assert (repr lim 0 false 0) as R0 by (unfold repr; repeat split; try lia; discriminate).
  rewrite cstr_app.
  destruct (digits_loop_correct b lim s2 pre (S (length (pre ++ cstr s2))) 0 false 0 E4 Hl Hb2) as (acc & ovf & Ed & Rep).
  { unfold cstr. rewrite !app_length. simpl. lia. }
  { exact R0. }
  rewrite Ed. eexists _, acc, ovf. split; [reflexivity|].
  unfold numeral. rewrite E1, E2.
  destruct (take_digits_split b s2) as [T1 T2].
  destruct (take_digits b s2) as [ds rest]. cbn [fst snd] in *.
  destruct ds as [|d ds'].
  - simpl in T2. rewrite <- T2. lia.
  - cbn [length] in T2. split; [reflexivity|]. split; [lia|]. split.
    + assert (length s2 = (count_digits b s2 + length rest)%nat) as L.
      { rewrite T1 at 1. rewrite app_length, firstn_length_le by apply count_digits_le. reflexivity. }
      rewrite app_length. lia.
    + exact Rep.
Qed.

Theorem strtoumax_correct s base :
  bytes_ok s -> no_nul s -> base_ok base ->
  strtoumax_m (cstr s) base = Ok (strtou_spec base s).
Proof.
  intros Hb Hn Hbase.
  destruct (strto_digits s base UMAX Hb Hn Hbase ltac:(unfold UMAX; lia))
    as (neg & b & pre & Ef & j & acc & ovf & Ed & Hnum).
  unfold strtoumax_m, strtou_spec. rewrite Ef. cbn [bind]. rewrite Ed. cbn [bind].
  destruct (numeral base (drop_blanks s)) as [[[neg' v] rest]|].
  - destruct Hnum as (-> & Hj & Hje & Hz & Hf & Ht).
    destruct (Nat.eqb_spec j (length pre)); [contradiction|]. subst j.
    destruct ovf.
    + specialize (Ht eq_refl). destruct (Z.gtb_spec v UMAX); [reflexivity|lia].
    + destruct (Hf eq_refl) as [-> Hle]. destruct (Z.gtb_spec v UMAX); [lia|reflexivity].
  - subst j. rewrite Nat.eqb_refl. reflexivity.
Qed.

Theorem strtoimax_correct s base :
  bytes_ok s -> no_nul s -> base_ok base ->
  strtoimax_m (cstr s) base = Ok (strtoi_spec base s).
Proof.
  intros Hb Hn Hbase.
  unfold strtoimax_m, strtoi_spec.
  destruct (strto_front_correct s base Hb Hn Hbase) as (neg0 & s1 & b0 & s2 & pre0 & _ & _ & _ & _ & Ef0).
  destruct (strto_digits s base (if neg0 then - IMIN else IMAX) Hb Hn Hbase
              ltac:(destruct neg0; unfold IMIN, IMAX; lia))
    as (neg & b & pre & Ef & j & acc & ovf & Ed & Hnum).
  rewrite Ef in Ef0. inversion Ef0; subst neg0. clear Ef0 s1 s2.
  rewrite Ef. cbn [bind]. rewrite Ed. cbn [bind].
  destruct (numeral base (drop_blanks s)) as [[[neg' v] rest]|].
  - destruct Hnum as (-> & Hj & Hje & Hz & Hf & Ht).
    destruct (Nat.eqb_spec j (length pre)); [contradiction|]. subst j.
    destruct ovf.
    + specialize (Ht eq_refl). destruct (Z.gtb_spec v (if neg then - IMIN else IMAX)); [reflexivity|lia].
    + destruct (Hf eq_refl) as [-> Hle].
      destruct (Z.gtb_spec v (if neg then - IMIN else IMAX)); [lia|reflexivity].
  - subst j. rewrite Nat.eqb_refl. reflexivity.
Qed.

(* ---- facts about the grammar needed by the users of these theorems ---- *)
Lemma value_of_nonneg b ds : 0 <= b -> Forall (fun d => 0 <= d) ds -> forall z, 0 <= z ->
  0 <= fold_left (fun a d => a * b + d) ds z.
Proof.
  intros Hb H. induction H as [|d r Hd Hr IH]; intros z Hz; cbn [fold_left]; [exact Hz|].
  apply IH. nia.
Qed.

Lemma numeral_shape base s neg v rest :
  bytes_ok s -> numeral base (drop_blanks s) = Some (neg, v, rest) ->
  exists p, s = p ++ rest /\ p <> [] /\
            (neg = true <-> exists r, drop_blanks s = 45%N :: r).
Proof.
  intros Hb. unfold numeral.
  destruct (split_sign (drop_blanks s)) as [ng s1] eqn:E1.
  destruct (select_base base s1) as [b s2] eqn:E2.
  destruct (take_digits_split b s2) as [T1 T2].
  destruct (take_digits b s2) as [ds rs]. cbn [fst snd] in *.
  destruct ds as [|d ds']; [discriminate|]. intros H. inversion H; subst ng rs. clear H.
  destruct (split_sign_split _ _ _ E1) as (p1 & P1 & _).
  destruct (select_base_split _ _ _ _ E2) as (p2 & P2).
  exists (firstn (count_blanks s) s ++ p1 ++ p2 ++ firstn (count_digits b s2) s2).
  split; [|split].
  - rewrite (drop_blanks_split s) at 1. rewrite P1, P2. rewrite T1 at 1. rewrite <- !app_assoc. reflexivity.
  - cbn [length] in T2. intros Hnil. apply (f_equal (@length N)) in Hnil. rewrite !app_length in Hnil.
    rewrite (firstn_length_le s2) in Hnil by apply count_digits_le. simpl in Hnil. lia.
  - unfold split_sign in E1. destruct (drop_blanks s) as [|c r].
    + inversion E1; subst. split; [discriminate | intros [r Hr]; discriminate].
    + destruct (N.eqb_spec c 45).
      * inversion E1; subst. split; [intros _; eexists; reflexivity | reflexivity].
      * assert (neg = false) as -> by (destruct (c =? 43)%N; inversion E1; reflexivity).
        split; [discriminate | intros [r' Hr]; inversion Hr; contradiction].
Qed.

Lemma numeral_value_nonneg base s neg v rest :
  bytes_ok s -> no_nul s -> base_ok base ->
  numeral base (drop_blanks s) = Some (neg, v, rest) -> 0 <= v.
Proof.
  intros Hb Hn Hbase E.
  destruct (strto_digits s base 0 Hb Hn Hbase ltac:(lia)) as (ng & b & pre & _ & j & acc & ovf & _ & Hnum).
  rewrite E in Hnum. destruct Hnum as (_ & _ & _ & Hz & _). exact Hz.
Qed.
