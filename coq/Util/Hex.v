(* util/hexify.c: model (mirrors the C, reads through checked memory) and spec (independent). *)
From Coq Require Import NArith List Lia Bool.
From LCP Require Import Base.CheckedMem.
Import ListNotations.
Local Open Scope N_scope.
Local Open Scope res_scope.

(* ---------------- model: parametric in the table, as in the C ---------------- *)
Section Model.
  Variable tbl : list N.                       (* static char hexchars[] (without its NUL) *)

  Definition tbl_at (i : N) : res N := rd tbl (N.to_nat i).

  (* hexify(in, out, len): returns the 2*len+1 bytes written to out *)
  Fixpoint hexify_m (inp : list N) : res (list N) :=
    match inp with
    | [] => Ok [0]
    | b :: r =>
      let* hi := tbl_at (N.shiftr b 4) in
      let* lo := tbl_at (N.land b 15) in
      let* t := hexify_m r in
      Ok (hi :: lo :: t)
    end.

  Definition in_tbl (c : N) : bool :=
    match find_idx c tbl with Some _ => true | None => false end.

  (* first loop of unhexify: for (i = 0; i < 2*len; i++) if (in[i]=='\0' || !strchr(..)) goto err0 *)
  Fixpoint unhex_scan (inp : list N) (i n : nat) : res bool :=
    match n with
    | O => Ok true
    | S n' =>
      let* c := rd inp i in
      if (c =? 0) || negb (in_tbl c) then Ok false else unhex_scan inp (S i) n'
    end.

  (* second loop *)
  Fixpoint unhex_conv (inp : list N) (i n : nat) : res (list N) :=
    match n with
    | O => Ok []
    | S n' =>
      let* a := rd inp (2 * i) in
      let* b := rd inp (2 * i + 1) in
      match find_idx a tbl, find_idx b tbl with
      | Some pa, Some pb =>
        let hi := (N.shiftl (N.land (N.of_nat pa) 15) 4) mod 256 in
        let* t := unhex_conv inp (S i) n' in
        Ok ((hi + N.land (N.of_nat pb) 15) mod 256 :: t)
      | _, _ => Fault            (* strchr gave NULL: NULL - hexchars is not a position *)
      end
    end.

  (* unhexify(in, out, len): None = returned -1; Some bytes = returned 0 and wrote bytes *)
  Definition unhexify_m (inp : list N) (len : nat) : res (option (list N)) :=
    let* ok := unhex_scan inp 0 (2 * len) in
    if ok then (let* o := unhex_conv inp 0 len in Ok (Some o)) else Ok None.
End Model.

(* ---------------- spec: written from the documentation, no table ---------------- *)
Definition hexdigit_lower (v : N) : N := if v <? 10 then 48 + v else 87 + v.

Definition hex_spec (bs : list N) : list N :=
  flat_map (fun b => [hexdigit_lower (b / 16); hexdigit_lower (b mod 16)]) bs.

Definition hexval (c : N) : option N :=
  if (48 <=? c) && (c <=? 57) then Some (c - 48)
  else if (97 <=? c) && (c <=? 102) then Some (c - 87)
  else if (65 <=? c) && (c <=? 70) then Some (c - 55)
  else None.

Definition is_hexdigit (c : N) : bool := match hexval c with Some _ => true | None => false end.

(* decode exactly len pairs from the front of cs *)
Fixpoint unhex_spec (cs : list N) (len : nat) {struct len} : option (list N) :=
  match len with
  | O => Some []
  | S l =>
    match cs with
    | a :: b :: r =>
      match hexval a, hexval b, unhex_spec r l with
      | Some x, Some y, Some t => Some (16 * x + y :: t)
      | _, _, _ => None
      end
    | _ => None
    end
  end.
