(* Executable models of the libc text conversions used by util/sock.c and util/sock_util.c.
   TRUSTED (hand-written models of external code, sampled against the real libc by the
   correspondence run): printf's %d/%u/%x, strtoimax in base 10 as used through PARSENUM_EX,
   glibc's inet_pton/inet_ntop for AF_INET (dotted quad).  The AF_INET6 conversions below
   (ntop6_glibc, pton6_glibc) are used ONLY to run the extracted model; the theorems in
   SockProofs.v do not mention them: there pton6/ntop6 are Section variables with assumed laws. *)
From Coq Require Import Arith NArith List Lia Bool.
From LCP Require Import Base.CheckedMem Gen.Repo_codec2.
Import ListNotations.
Local Open Scope N_scope.

(* ---- printf("%d") of a non-negative value, printf("%x") ---- *)
Fixpoint radix_aux (base : N) (fuel : nat) (n : N) (acc : list N) {struct fuel} : list N :=
  match fuel with
  | O => acc
  | S f =>
    let d := n mod base in
    let acc' := (if d <? 10 then 48 + d else 87 + d) :: acc in
    if n / base =? 0 then acc' else radix_aux base f (n / base) acc'
  end.
Definition dec_digits (n : N) : list N := radix_aux 10 (S (N.to_nat (N.log2 n))) n [].
Definition hex_digits (n : N) : list N := radix_aux 16 (S (N.to_nat (N.log2 n))) n [].

(* ---- PARSENUM_EX(&p, ports, port_min, port_max, port_base, port_trailing) with long p:
        strtoimax (blanks, optional sign, digits, clamp) + the tests of parsenum_signed ---- *)
Definition isspace (c : N) : bool := (c =? 32) || ((9 <=? c) && (c <=? 13)).
Fixpoint skip_space (s : list N) : list N :=
  match s with
  | c :: r => if isspace c then skip_space r else s
  | [] => []
  end.
Definition digit_of (c : N) : option N :=
  if (48 <=? c) && (c <=? 57) && (c - 48 <? port_base) then Some (c - 48) else None.
(* maximal digit run: (number of digits, value, rest) *)
Fixpoint digit_run (s : list N) (cnt : nat) (acc : N) : nat * N * list N :=
  match s with
  | c :: r => match digit_of c with
              | Some d => digit_run r (S cnt) (acc * port_base + d)
              | None => (cnt, acc, s)
              end
  | [] => (cnt, acc, [])
  end.
Definition intmax_max : N := 2 ^ 63 - 1.
(* Some p = PARSENUM_EX returned 0 and stored p; None = returned non-zero (EINVAL or ERANGE) *)
Definition parse_port (s : list N) : option N :=
  let s1 := skip_space s in
  let '(neg, s2) := match s1 with
                    | 45 :: r => (true, r)
                    | 43 :: r => (false, r)
                    | _ => (false, s1)
                    end in
  let '(cnt, v, rest) := digit_run s2 0 0 in
  if Nat.eqb cnt 0 then None                                   (* eptr == s: EINVAL *)
  else if (port_trailing =? 0) && negb (match rest with [] => true | _ => false end) then None
  else
    let v := if neg then (if intmax_max + 1 <? v then intmax_max + 1 else v)
             else (if intmax_max <? v then intmax_max else v) in
    if neg then (if (v =? 0) && (port_min =? 0) then Some 0 else None)   (* val = -v <= 0 *)
    else if (v <? port_min) || (port_max <? v) then None else Some v.

(* ---- inet_ntop(AF_INET): "%u.%u.%u.%u" ---- *)
Definition ntop4 (a : list N) : list N :=
  match a with
  | [a0; a1; a2; a3] => dec_digits a0 ++ 46 :: dec_digits a1 ++ 46 :: dec_digits a2 ++ 46 :: dec_digits a3
  | _ => []
  end.

(* ---- inet_pton(AF_INET) (glibc inet_pton4): no leading zeros, exactly four octets <= 255 ---- *)
Fixpoint pton4_run (s : list N) (done : list N) (cur : N) (saw : bool) (octets : nat) : option (list N) :=
  match s with
  | [] => if (octets <? 4)%nat then None else Some (done ++ [cur])
  | ch :: r =>
    if (48 <=? ch) && (ch <=? 57) then
      let new := cur * 10 + (ch - 48) in
      if saw && (cur =? 0) then None
      else if 255 <? new then None
      else if saw then pton4_run r done new true octets
      else if (4 <? S octets)%nat then None
      else pton4_run r done new true (S octets)
    else if (ch =? 46) && saw then
      if (octets =? 4)%nat then None else pton4_run r (done ++ [cur]) 0 false octets
    else None
  end.
Definition pton4 (s : list N) : option (list N) := pton4_run s [] 0 false 0.

(* ---- inet_ntop(AF_INET6) as in glibc (longest run of zero words, first wins, length >= 2;
        the IPv4-compatible / IPv4-mapped forms) ---- *)
Fixpoint words16 (a : list N) : list N :=
  match a with
  | x :: y :: r => (x * 256 + y) :: words16 r
  | _ => []
  end.
Definition better (best cur : option (nat * nat)) : option (nat * nat) :=
  match cur with
  | None => best
  | Some (cb, cl) => match best with
                     | None => cur
                     | Some (_, bl) => if (bl <? cl)%nat then cur else best
                     end
  end.
Fixpoint best_run (ws : list N) (i : nat) (best cur : option (nat * nat)) : option (nat * nat) :=
  match ws with
  | [] => better best cur
  | w :: r =>
    if w =? 0 then
      best_run r (S i) best (match cur with None => Some (i, 1%nat) | Some (b, l) => Some (b, S l) end)
    else best_run r (S i) (better best cur) None
  end.
Fixpoint ntop6_fmt (ws : list N) (i : nat) (best : option (nat * nat)) (w5 : N) (last4 : list N) : list N :=
  match ws with
  | [] => []
  | w :: r =>
    let inside := match best with Some (b, l) => (b <=? i)%nat && (i <? b + l)%nat | None => false end in
    if inside then
      (match best with Some (b, _) => if (i =? b)%nat then [58] else [] | None => [] end)
        ++ ntop6_fmt r (S i) best w5 last4
    else
      (if (i =? 0)%nat then [] else [58]) ++
      (if (i =? 6)%nat &&
          match best with
          | Some (b, l) => (b =? 0)%nat && ((l =? 6)%nat || ((l =? 5)%nat && (w5 =? 65535)))
          | None => false
          end
       then ntop4 last4
       else hex_digits w ++ ntop6_fmt r (S i) best w5 last4)
  end.
Definition ntop6_glibc (a : list N) : list N :=
  let ws := words16 a in
  let best := match best_run ws 0 None None with
              | Some (b, l) => if (l <? 2)%nat then None else Some (b, l)
              | None => None
              end in
  ntop6_fmt ws 0 best (nth 5 ws 0) (skipn 12 a)
    ++ match best with Some (b, l) => if (b + l =? 8)%nat then [58] else [] | None => [] end.

(* ---- inet_pton(AF_INET6) as in glibc 2.36 (inet_pton6) ---- *)
Definition hexval6 (c : N) : option N :=
  if (48 <=? c) && (c <=? 57) then Some (c - 48)
  else if (97 <=? c) && (c <=? 102) then Some (c - 87)
  else if (65 <=? c) && (c <=? 70) then Some (c - 55)
  else None.
Definition p6_finish (out : list N) (colonp : option nat) : option (list N) :=
  match colonp with
  | Some cp =>
    if (length out =? 16)%nat then None
    else Some (firstn cp out ++ repeat 0 (16 - length out) ++ skipn cp out)
  | None => if (length out =? 16)%nat then Some out else None
  end.
Fixpoint pton6_run (src : list N) (curtok : list N) (out : list N) (colonp : option nat)
    (seen : nat) (val : N) {struct src} : option (list N) :=
  match src with
  | [] =>
    if (0 <? seen)%nat then
      if (16 <? length out + 2)%nat then None
      else p6_finish (out ++ [(val / 256) mod 256; val mod 256]) colonp
    else p6_finish out colonp
  | ch :: r =>
    match hexval6 ch with
    | Some d =>
      if (seen =? 4)%nat then None
      else
        let v := N.lor (N.shiftl val 4) d in
        if 65535 <? v then None else pton6_run r curtok out colonp (S seen) v
    | None =>
      if ch =? 58 then
        if (seen =? 0)%nat then
          match colonp with
          | Some _ => None
          | None => pton6_run r r out (Some (length out)) 0 0
          end
        else match r with
          | [] => None
          | _ =>
            if (16 <? length out + 2)%nat then None
            else pton6_run r r (out ++ [(val / 256) mod 256; val mod 256]) colonp 0 0
          end
      else if (ch =? 46) && (length out + 4 <=? 16)%nat then
        match pton4 curtok with
        | Some a4 => p6_finish (out ++ a4) colonp
        | None => None
        end
      else None
    end
  end.
Definition pton6_glibc (s : list N) : option (list N) :=
  match s with
  | [] => None
  | 58 :: r => match r with
               | 58 :: _ => pton6_run r r [] None 0 0
               | _ => None
               end
  | _ => pton6_run s s [] None 0 0
  end.
