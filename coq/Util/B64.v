(* util/b64encode.c: model (mirrors the C on checked memory, parametric in the table) and
   spec (RFC 4648 section 4: regroup the bit string into 6-bit digits, '=' padding; the RFC
   alphabet is a literal of its own here). *)
From Coq Require Import Arith NArith List Lia Bool.
From LCP Require Import Base.CheckedMem Util.EndianMem.
Import ListNotations.
Local Open Scope N_scope.
Local Open Scope res_scope.

Definition u32 (x : N) : N := x mod 2 ^ 32.
Definition u64 (x : N) : N := x mod 2 ^ 64.

(* ---------------- model ---------------- *)
Section Model.
  Variable tbl : list N.              (* static char b64chars[] without its NUL: 64 digits and '=' *)

  (* for (t = 0, j = 0; j < 3; j++) { t <<= 8; if (j < len) t += *in++; } *)
  Fixpoint enc_read (inp : list N) (ip len j n : nat) (t : N) {struct n} : res (N * nat) :=
    match n with
    | O => Ok (t, ip)
    | S n' =>
      let t := u32 (N.shiftl t 8) in
      if (j <? len)%nat
      then (let* b := rd inp ip in enc_read inp (S ip) len (S j) n' (u32 (t + b)))
      else enc_read inp ip len (S j) n' t
    end.

  (* for (j = 0; j < 4; j++) { if (j <= len) *out++ = b64chars[(t >> 18) & 0x3f];
                               else *out++ = '='; t <<= 6; } *)
  Fixpoint enc_write (out : list N) (op len j n : nat) (t : N) {struct n} : res (list N * nat) :=
    match n with
    | O => Ok (out, op)
    | S n' =>
      let* c := (if (j <=? len)%nat then rd tbl (N.to_nat (N.land (N.shiftr t 18) 63)) else Ok 61) in
      let* out := wr out op c in
      enc_write out (S op) len (S j) n' (u32 (N.shiftl t 6))
    end.

  (* while (len) { read; write; if (len < 3) len = 0; else len -= 3; }  *out++ = '\0'; *)
  Fixpoint enc_loop (fuel : nat) (inp : list N) (ip : nat) (out : list N) (op len : nat)
      {struct fuel} : res (list N) :=
    if (len =? 0)%nat then wr out op 0
    else match fuel with
      | O => OutOfFuel
      | S f =>
        let* (t, ip') := enc_read inp ip len 0 3 0 in
        let* (out', op') := enc_write out op len 0 4 t in
        enc_loop f inp ip' out' op' (if (len <? 3)%nat then 0%nat else (len - 3)%nat)
      end.

  (* b64encode(in, out, len): in is an object of exactly |inp| bytes, out the caller's object;
     the result is the output object after the call *)
  Definition b64encode_m (inp out : list N) (len : nat) : res (list N) :=
    enc_loop (S len) inp 0 out 0 len.

  (* strchr(b64chars, c): first index in the table including its terminator *)
  Definition strchr_tbl (c : N) : option nat := find_idx c (cstr tbl).

  (* validity scan: Some deadbytes, or None = goto bad *)
  Fixpoint dec_scan (inp : list N) (i n : nat) (dead : N) {struct n} : res (option N) :=
    match n with
    | O => Ok (Some dead)
    | S n' =>
      let* c := rd inp i in
      if (c =? 0) || (match strchr_tbl c with None => true | Some _ => false end) then Ok None
      else
        let dead := if c =? 61 then u64 (dead + 1) else dead in
        if negb (c =? 61) && (0 <? dead) then Ok None
        else dec_scan inp (S i) n' dead
    end.

  (* for (t = 0, i = 0; i < 4; i++) { t <<= 6; pos = strchr(b64chars, in[i]) - b64chars;
                                      t += (uint32_t)(pos & 0x3f); } *)
  Fixpoint dec_parse4 (inp : list N) (ip i n : nat) (t : N) {struct n} : res N :=
    match n with
    | O => Ok t
    | S n' =>
      let t := u32 (N.shiftl t 6) in
      let* c := rd inp (ip + i) in
      match strchr_tbl c with
      | None => Fault                        (* NULL - b64chars is not a position *)
      | Some pos => dec_parse4 inp ip (S i) n' (u32 (t + N.land (N.of_nat pos) 63))
      end
    end.

  (* for (i = 0; i < 3; i++) { out[i] = (t >> 16) & 0xff; t <<= 8; } *)
  Fixpoint dec_out3 (out : list N) (op i n : nat) (t : N) {struct n} : res (list N) :=
    match n with
    | O => Ok out
    | S n' =>
      let* out := wr out (op + i) (N.land (N.shiftr t 16) 255) in
      dec_out3 out op (S i) n' (u32 (N.shiftl t 8))
    end.

  (* while (inlen) { parse 4; output 3; in += 4; inlen -= 4; out += 3; *outlen += 3; } *)
  Fixpoint dec_loop (fuel : nat) (inp : list N) (ip : nat) (out : list N) (op : nat)
      (inlen outlen : N) {struct fuel} : res (list N * N) :=
    if inlen =? 0 then Ok (out, outlen)
    else match fuel with
      | O => OutOfFuel
      | S f =>
        let* t := dec_parse4 inp ip 0 4 0 in
        let* out' := dec_out3 out op 0 3 t in
        dec_loop f inp (ip + 4) out' (op + 3) (u64 (inlen + 2 ^ 64 - 4)) (u64 (outlen + 3))
      end.

  (* b64decode(in, inlen, out, outlen): None = returned 1; Some (out object, *outlen) = returned 0 *)
  Definition b64decode_m (inp : list N) (inlen : nat) (out : list N) : res (option (list N * N)) :=
    if negb (Nat.eqb (inlen mod 4) 0) then Ok None
    else
      let* sc := dec_scan inp 0 inlen 0 in
      match sc with
      | None => Ok None
      | Some dead =>
        if 2 <? dead then Ok None
        else
          let* (out', outlen) := dec_loop (S inlen) inp 0 out 0 (N.of_nat inlen) 0 in
          Ok (Some (out', u64 (outlen + 2 ^ 64 - dead)))
      end.
End Model.

(* sizes named by the contracts *)
Definition b64len (len : nat) : nat := ((len + 2) / 3 * 4)%nat.
Definition b64declen (inlen : nat) : nat := (inlen / 4 * 3)%nat.

(* ---------------- spec (RFC 4648, section 4) ---------------- *)
Definition rfc4648_alphabet : list N :=
  [65; 66; 67; 68; 69; 70; 71; 72; 73; 74; 75; 76; 77; 78; 79; 80; 81; 82; 83; 84; 85; 86; 87; 88; 89; 90;
   97; 98; 99; 100; 101; 102; 103; 104; 105; 106; 107; 108; 109; 110; 111; 112; 113; 114; 115; 116; 117;
   118; 119; 120; 121; 122;
   48; 49; 50; 51; 52; 53; 54; 55; 56; 57; 43; 47].
Definition pad_char : N := 61.

(* bit strings, most significant bit first *)
Definition byte_bits (b : N) : list bool := map (N.testbit b) [7; 6; 5; 4; 3; 2; 1; 0].
Definition digit_bits (d : N) : list bool := map (N.testbit d) [5; 4; 3; 2; 1; 0].
Definition bits_val (bs : list bool) : N :=
  fold_left (fun acc (b : bool) => 2 * acc + (if b then 1 else 0)) bs 0.
Definition bitstring (bs : list N) : list bool := flat_map byte_bits bs.

(* "the final quantum ... add zero bits on the right to form an integral number of 6-bit groups" *)
Definition zero_pad (k : nat) (bits : list bool) : list bool :=
  bits ++ repeat false ((k - length bits mod k) mod k)%nat.
Fixpoint chunk6 (bits : list bool) : list (list bool) :=
  match bits with
  | a :: b :: c :: d :: e :: f :: r => [a; b; c; d; e; f] :: chunk6 r
  | _ => []
  end.
Fixpoint chunk8 (bits : list bool) : list (list bool) :=
  match bits with
  | a :: b :: c :: d :: e :: f :: g :: h :: r => [a; b; c; d; e; f; g; h] :: chunk8 r
  | _ => []
  end.

Definition b64_digits (bs : list N) : list N := map bits_val (chunk6 (zero_pad 6 (bitstring bs))).
Definition b64_char (d : N) : N := nth (N.to_nat d) rfc4648_alphabet 0.
Definition b64_spec (bs : list N) : list N :=
  let cs := map b64_char (b64_digits bs) in
  cs ++ repeat pad_char ((4 - length cs mod 4) mod 4)%nat.

(* decoding: well-formed = length multiple of 4, alphabet characters, '=' only as the last one
   or two characters; non-zero trailing bits are accepted and dropped *)
Definition b64_index (c : N) : option N := option_map N.of_nat (find_idx c rfc4648_alphabet).
Definition is_b64char (c : N) : bool := match b64_index c with Some _ => true | None => false end.
(* alphabet characters followed by at most two '=' (which is not an alphabet character) *)
Fixpoint wf_tail (s : list N) : bool :=
  match s with
  | [] => true
  | c :: r =>
    if c =? pad_char
    then match r with [] => true | [d] => d =? pad_char | _ => false end
    else is_b64char c && wf_tail r
  end.
Definition wf_b64b (s : list N) : bool := Nat.eqb (length s mod 4) 0 && wf_tail s.
Definition wf_b64 (s : list N) : Prop :=
  exists body pad, s = body ++ pad /\ (length s mod 4 = 0)%nat /\
    Forall (fun c => In c rfc4648_alphabet) body /\
    (pad = [] \/ pad = [pad_char] \/ pad = [pad_char; pad_char]).

Definition char_bits (c : N) : list bool :=
  match b64_index c with Some d => digit_bits d | None => [] end.
(* every alphabet character contributes its 6 bits, padding contributes none; the bit string is
   cut into octets and left-over bits are dropped *)
Definition b64decode_spec (s : list N) : option (list N) :=
  if wf_b64b s then Some (map bits_val (chunk8 (flat_map char_bits s))) else None.
