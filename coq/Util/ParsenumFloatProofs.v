(* The laws of the double -> float conversion [narrow32] of Util/ParsenumFloat.v (it IS the correctly
   rounded conversion: sign kept, NaN to NaN, infinity to infinity, overflow exactly from
   2^128 - 2^103 on, otherwise a nearest binary32 magnitude), and what PARSENUM therefore leaves in a
   floating target. *)
From Coq Require Import Arith NArith ZArith List Lia Bool.
From LCP Require Import Base.CheckedMem Util.ParsenumSpec Util.Strto Util.ParsenumFloat Util.Parsenum Util.StrtoProofs Util.ParsenumProofs.
Import ListNotations.
Local Open Scope Z_scope.

(* ---------------- rounding an integer quotient ---------------- *)
Lemma rne_core P H m d rem :
  P = 2 * H -> 0 < H -> m = P * d + rem -> 0 <= rem < P ->
  let r := if (rem >? H) || ((rem =? H) && Z.odd d) then d + 1 else d in
  d <= r <= d + 1 /\ Z.abs (r * P - m) <= rem /\ Z.abs (r * P - m) <= P - rem /\
  (r = d + 1 <-> (H < rem \/ (rem = H /\ Z.odd d = true))).
Proof.
  intros HP HH Hm Hr. cbv zeta.
  destruct (Z.gtb_spec rem H) as [G|G]; cbn [orb].
  - repeat split; try lia.
  - destruct (Z.eqb_spec rem H) as [E|E]; cbn [andb].
    + destruct (Z.odd d) eqn:O; repeat split; try lia; intuition (try lia; try discriminate).
    + repeat split; try lia.
Qed.

Lemma rne_spec m s :
  0 <= m -> 1 <= s ->
  let P := 2 ^ s in let d := m / P in let rem := m mod P in
  d <= rne m s <= d + 1 /\ Z.abs (rne m s * P - m) <= rem /\ Z.abs (rne m s * P - m) <= P - rem /\
  (rne m s = d + 1 <-> (2 ^ (s - 1) < rem \/ (rem = 2 ^ (s - 1) /\ Z.odd d = true))).
Proof.
  intros Hm Hs. cbv zeta. unfold rne.
  assert (0 < 2 ^ (s - 1)) by (apply Z.pow_pos_nonneg; lia).
  assert (2 ^ s = 2 * 2 ^ (s - 1)) as HP.
  { replace s with (1 + (s - 1)) at 1 by lia. rewrite Z.pow_add_r by lia. reflexivity. }
  apply (rne_core (2 ^ s) (2 ^ (s - 1)) m (m / 2 ^ s) (m mod 2 ^ s) HP); try lia.
  - apply Z.div_mod. lia.
  - apply Z.mod_pos_bound. lia.
Qed.

(* ---------------- decoding a binary32 pattern ---------------- *)
Lemma two23 : 2 ^ 23 = 8388608. Proof. reflexivity. Qed.
Lemma two24 : 2 ^ 24 = 16777216. Proof. reflexivity. Qed.
Lemma two8 : 2 ^ 8 = 256. Proof. reflexivity. Qed.
Lemma two31 : 2 ^ 31 = 2147483648. Proof. reflexivity. Qed.

(* every finite binary32 value is m * 2^e with m < 2^24 and -149 <= e <= 104 *)
Lemma decode32_range c n m e :
  decode32 c = VFin n m e -> 0 <= m < 2 ^ 24 /\ -149 <= e <= 104.
Proof.
  unfold decode32, decode. change (2 ^ (8 - 1) - 1) with 127. change (2 ^ 8 - 1) with 255.
  rewrite two24, two23, two8.
  pose proof (Z.mod_pos_bound (c / 8388608) 256 ltac:(reflexivity)) as He.
  pose proof (Z.mod_pos_bound c 8388608 ltac:(reflexivity)) as Hf.
  destruct (Z.eqb_spec ((c / 8388608) mod 256) 255) as [A|A].
  { destruct (c mod 8388608 =? 0); discriminate. }
  destruct (Z.eqb_spec ((c / 8388608) mod 256) 0) as [B|B]; intros X; inversion X; subst; lia.
Qed.

(* the pattern E * 2^23 + r (exponent field E, r up to 2^24 so that a carry reaches the field) denotes
   r * 2^(E - 149) provided r has its leading bit unless E = 0 *)
Lemma decode32_compose E r :
  0 <= E -> 0 <= r <= 2 ^ 24 -> (E = 0 \/ 2 ^ 23 <= r) -> E * 2 ^ 23 + r < INF32 ->
  exists m' e', decode32 (E * 2 ^ 23 + r) = VFin false m' e' /\
                m' * 2 ^ (e' + 149) = r * 2 ^ E.
Proof.
  intros HE Hr Hlead Hb. unfold INF32 in Hb. rewrite two23, two24 in *.
  unfold decode32, decode. change (2 ^ (8 - 1) - 1) with 127. change (2 ^ 8 - 1) with 255.
  change (8 + 23) with 31. rewrite two31, two23, two8.
  assert ((E * 8388608 + r) / 2147483648 = 0) as -> by (apply Z.div_small; lia).
  cbn [Z.odd].
  destruct (Z_lt_le_dec r 8388608) as [L|L].
  - (* subnormal *)
    assert (E = 0) by lia. subst E. cbn [Z.mul Z.add].
    assert (r / 8388608 = 0) as -> by (apply Z.div_small; lia).
    assert (r mod 8388608 = r) as -> by (apply Z.mod_small; lia).
    cbn. exists r, (-149). split; [reflexivity|]. cbn. lia.
  - destruct (Z.eq_dec r 16777216) as [C|C].
    + (* carry *)
      subst r.
      assert ((E * 8388608 + 16777216) / 8388608 = E + 2) as ->.
      { symmetry. apply (Z.div_unique _ _ _ 0); lia. }
      assert ((E * 8388608 + 16777216) mod 8388608 = 0) as ->.
      { symmetry. apply (Z.mod_unique _ _ (E + 2)); lia. }
      assert ((E + 2) mod 256 = E + 2) as -> by (apply Z.mod_small; lia).
      destruct (Z.eqb_spec (E + 2) 255); [lia|]. destruct (Z.eqb_spec (E + 2) 0); [lia|].
      exists (0 + 8388608), (E + 2 - 127 - 23). split; [reflexivity|].
      replace (E + 2 - 127 - 23 + 149) with (1 + E) by lia. rewrite Z.pow_add_r by lia. lia.
    + assert ((E * 8388608 + r) / 8388608 = E + 1) as ->.
      { symmetry. apply (Z.div_unique _ _ _ (r - 8388608)); lia. }
      assert ((E * 8388608 + r) mod 8388608 = r - 8388608) as ->.
      { symmetry. apply (Z.mod_unique _ _ (E + 1)); lia. }
      assert ((E + 1) mod 256 = E + 1) as -> by (apply Z.mod_small; lia).
      destruct (Z.eqb_spec (E + 1) 255); [lia|]. destruct (Z.eqb_spec (E + 1) 0); [lia|].
      exists (r - 8388608 + 8388608), (E + 1 - 127 - 23). split; [reflexivity|].
      replace (E + 1 - 127 - 23 + 149) with E by lia. f_equal. lia.
Qed.

(* the sign bit *)
Lemma decode32_sign n x :
  0 <= x < 2 ^ 31 ->
  decode32 (sign32 n + x) =
  match decode32 x with VFin _ m e => VFin n m e | VInf _ => VInf n | VNan => VNan end.
Proof.
  intros Hx. rewrite two31 in Hx. unfold decode32, decode, sign32. change (8 + 23) with 31. rewrite two31.
  assert (x / 2147483648 = 0) as Hx0 by (apply Z.div_small; lia).
  rewrite Hx0. cbn [Z.odd].
  destruct n.
  - assert ((2147483648 + x) / 2147483648 = 1) as -> by (symmetry; apply (Z.div_unique _ _ _ x); lia).
    assert ((2147483648 + x) / 2 ^ 23 = 256 + x / 2 ^ 23) as ->.
    { change 2147483648 with (256 * 2 ^ 23). rewrite Z.add_comm, Z.div_add by discriminate. lia. }
    assert ((256 + x / 2 ^ 23) mod 2 ^ 8 = (x / 2 ^ 23) mod 2 ^ 8) as ->.
    { change 256 with (1 * 2 ^ 8) at 1. rewrite Z.add_comm, Z.mod_add by discriminate. reflexivity. }
    assert ((2147483648 + x) mod 2 ^ 23 = x mod 2 ^ 23) as ->.
    { change 2147483648 with (256 * 2 ^ 23). rewrite Z.add_comm, Z.mod_add by discriminate. reflexivity. }
    cbn [Z.odd].
    destruct ((x / 2 ^ 23) mod 2 ^ 8 =? 2 ^ 8 - 1); [destruct (x mod 2 ^ 23 =? 0); reflexivity|].
    destruct ((x / 2 ^ 23) mod 2 ^ 8 =? 0); reflexivity.
  - cbn [Z.add]. rewrite Hx0. cbn [Z.odd].
    destruct ((x / 2 ^ 23) mod 2 ^ 8 =? 2 ^ 8 - 1); [destruct (x mod 2 ^ 23 =? 0); reflexivity|].
    destruct ((x / 2 ^ 23) mod 2 ^ 8 =? 0); reflexivity.
Qed.

(* ---------------- the rounding step ---------------- *)
Lemma pow2_pos a : 0 <= a -> 0 < 2 ^ a.
Proof. intros. apply Z.pow_pos_nonneg; lia. Qed.
Lemma pow2_split a b : 0 <= a -> 0 <= b -> 2 ^ (a + b) = 2 ^ a * 2 ^ b.
Proof. intros. apply Z.pow_add_r; assumption. Qed.

(* the situation of every double: the spacing of float around it is coarser than its own last place *)
Lemma round_setup m e :
  0 < m -> -1074 <= e -> e < quantum32 m e ->
  let q := quantum32 m e in let s := q - e in let P := 2 ^ s in let u := 2 ^ (e + 1074) in
  1 <= s /\ 0 < u /\ 0 < P /\ 2 ^ (q + 1074) = P * u /\ -149 <= q /\
  m < 2 ^ 24 * P /\ (-149 < q -> 2 ^ 23 * P <= m) /\ round32 m e = rne m s.
Proof.
  intros Hm He Hs. cbv zeta.
  assert (1 <= quantum32 m e - e) as Hs1 by lia.
  pose proof (Z.log2_spec m Hm) as [Hlo Hhi].
  pose proof (Z.log2_nonneg m) as Hk.
  assert (-149 <= quantum32 m e /\ Z.log2 m + e - 23 <= quantum32 m e) as [Hq1 Hq2] by (unfold quantum32; lia).
  repeat split.
  - exact Hs1.
  - apply pow2_pos. lia.
  - apply pow2_pos. lia.
  - rewrite <- pow2_split by lia. f_equal. lia.
  - exact Hq1.
  - (* m < 2^(k+1) <= 2^(24+s) *)
    rewrite <- pow2_split by lia.
    eapply Z.lt_le_trans; [exact Hhi|]. apply Z.pow_le_mono_r; lia.
  - intros Hq. assert (quantum32 m e = Z.log2 m + e - 23) as Eq by (unfold quantum32 in *; lia).
    rewrite <- pow2_split by lia. eapply Z.le_trans; [|exact Hlo]. apply Z.pow_le_mono_r; lia.
  - unfold round32. destruct (Z.ltb_spec e (quantum32 m e)); [reflexivity|lia].
Qed.

Lemma round32_range m e :
  0 < m -> -1074 <= e -> e < quantum32 m e ->
  0 <= round32 m e <= 2 ^ 24 /\ (quantum32 m e = -149 \/ 2 ^ 23 <= round32 m e).
Proof.
  intros Hm He Hs.
  destruct (round_setup m e Hm He Hs) as (Hs1 & Hu & HP & HQ & Hq & Hup & Hlow & Hr).
  rewrite Hr.
  destruct (rne_spec m (quantum32 m e - e) ltac:(lia) Hs1) as ((Rl & Ru) & _).
  set (P := 2 ^ (quantum32 m e - e)) in *.
  assert (m / P < 2 ^ 24) as Hd by (apply Z.div_lt_upper_bound; lia).
  assert (0 <= m / P) as Hd0 by (apply Z.div_pos; lia).
  split; [lia|].
  destruct (Z.eq_dec (quantum32 m e) (-149)) as [E|E]; [left; exact E|right].
  assert (2 ^ 23 <= m / P) by (apply Z.div_le_lower_bound; [lia|]; rewrite Z.mul_comm; apply Hlow; lia).
  lia.
Qed.

(* no binary32 magnitude m2 * 2^e2 is nearer to m * 2^e than the rounded one (in units of 2^-1074) *)
Lemma round32_nearest m e m2 e2 :
  0 < m -> -1074 <= e -> e < quantum32 m e -> 0 <= m2 < 2 ^ 24 -> -149 <= e2 ->
  Z.abs (units (round32 m e) (quantum32 m e) - units m e) <= Z.abs (units m2 e2 - units m e).
Proof.
  intros Hm He Hs Hm2 He2.
  destruct (round_setup m e Hm He Hs) as (Hs1 & Hu & HP & HQ & Hq & Hup & Hlow & Hr).
  rewrite Hr.
  destruct (rne_spec m (quantum32 m e - e) ltac:(lia) Hs1) as ((Rl & Ru) & Ra & Rb & _).
  pose proof (Z.div_mod m (2 ^ (quantum32 m e - e)) ltac:(lia)) as Hdm.
  pose proof (Z.mod_pos_bound m (2 ^ (quantum32 m e - e)) HP) as Hrem.
  unfold units. rewrite HQ.
  set (q := quantum32 m e) in *. set (P := 2 ^ (q - e)) in *. set (u := 2 ^ (e + 1074)) in *.
  set (d := m / P) in *. set (rem := m mod P) in *. set (r := rne m (q - e)) in *.
  assert (Hfac : forall x y, Z.abs (x * u - y * u) = Z.abs (x - y) * u).
  { intros. rewrite <- Z.mul_sub_distr_r, Z.abs_mul, (Z.abs_eq u) by lia. reflexivity. }
  replace (r * (P * u)) with (r * P * u) by ring. rewrite Hfac.
  destruct (Z_le_gt_dec q e2) as [G|G].
  - (* a multiple of the same spacing *)
    assert (2 ^ (e2 + 1074) = 2 ^ (e2 - q) * (P * u)) as ->.
    { rewrite <- HQ, <- pow2_split by lia. f_equal. lia. }
    set (j := m2 * 2 ^ (e2 - q)).
    replace (m2 * (2 ^ (e2 - q) * (P * u))) with (j * P * u) by (unfold j; ring).
    rewrite Hfac. apply Z.mul_le_mono_nonneg_r; [lia|].
    destruct (Z_le_gt_dec j d) as [J|J].
    + assert (j * P <= d * P) by (apply Z.mul_le_mono_nonneg_r; lia). lia.
    + assert ((d + 1) * P <= j * P) by (apply Z.mul_le_mono_nonneg_r; lia). lia.
  - (* a finer spacing: such a value lies below 2^23 spacings, hence below the lower neighbour *)
    assert (2 ^ 23 * P <= m) as Hl by (apply Hlow; lia).
    assert (2 ^ 23 <= d) as Hd by (apply Z.div_le_lower_bound; [lia|]; rewrite Z.mul_comm; exact Hl).
    set (u2 := 2 ^ (e2 + 1074)).
    assert (0 < u2) by (apply pow2_pos; lia).
    assert (P * u = 2 ^ (q - e2) * u2) as HT.
    { rewrite <- HQ. unfold u2. rewrite <- pow2_split by lia. f_equal. lia. }
    assert (2 <= 2 ^ (q - e2)) as HT2.
    { change 2 with (2 ^ 1) at 1. apply Z.pow_le_mono_r; lia. }
    assert (m2 * u2 < 2 ^ 24 * u2) as H1 by (apply Z.mul_lt_mono_pos_r; lia).
    assert (2 ^ 24 * u2 <= 2 ^ 23 * (P * u)) as H2.
    { rewrite HT. change (2 ^ 24) with (2 ^ 23 * 2). rewrite <- !Z.mul_assoc.
      apply Z.mul_le_mono_nonneg_l; [lia|]. apply Z.mul_le_mono_nonneg_r; lia. }
    assert (2 ^ 23 * (P * u) <= d * (P * u)) as H3.
    { apply Z.mul_le_mono_nonneg_r; [|exact Hd]. apply Z.mul_nonneg_nonneg; lia. }
    assert (m * u = d * (P * u) + rem * u) as H4 by (rewrite Hdm; ring).
    assert (Z.abs (r * P - m) * u <= rem * u) as H5 by (apply Z.mul_le_mono_nonneg_r; lia).
    assert (0 <= rem * u) by (apply Z.mul_nonneg_nonneg; lia).
    lia.
Qed.

(* the conversion overflows exactly from FLT_MAX + half a spacing = 2^128 - 2^103 on *)
Lemma mag_bits_overflow_iff m e :
  0 < m -> -1074 <= e -> e < quantum32 m e ->
  (INF32 <= (quantum32 m e + 149) * 2 ^ 23 + round32 m e <-> OVF32_units <= units m e).
Proof.
  intros Hm He Hs.
  destruct (round_setup m e Hm He Hs) as (Hs1 & Hu & HP & HQ & Hq & Hup & Hlow & Hr).
  destruct (round32_range m e Hm He Hs) as ((R0 & R1) & Rlead).
  rewrite Hr in *.
  destruct (rne_spec m (quantum32 m e - e) ltac:(lia) Hs1) as ((Rl & Ru) & _ & _ & Riff).
  pose proof (Z.div_mod m (2 ^ (quantum32 m e - e)) ltac:(lia)) as Hdm.
  pose proof (Z.mod_pos_bound m (2 ^ (quantum32 m e - e)) HP) as Hrem.
  assert (2 ^ (quantum32 m e - e) = 2 * 2 ^ (quantum32 m e - e - 1)) as HPH.
  { replace (quantum32 m e - e) with (1 + (quantum32 m e - e - 1)) at 1 by lia.
    rewrite pow2_split by lia. reflexivity. }
  assert (0 < 2 ^ (quantum32 m e - e - 1)) as HH by (apply pow2_pos; lia).
  assert (m / 2 ^ (quantum32 m e - e) < 2 ^ 24) as Hd by (apply Z.div_lt_upper_bound; lia).
  unfold units, INF32.
  set (q := quantum32 m e) in *. set (P := 2 ^ (q - e)) in *. set (u := 2 ^ (e + 1074)) in *.
  set (H := 2 ^ (q - e - 1)) in *.
  set (d := m / P) in *. set (rem := m mod P) in *. set (r := rne m (q - e)) in *.
  assert (H * u = 2 ^ (q + 1073)) as HHu.
  { unfold H, u. rewrite <- pow2_split by lia. f_equal. lia. }
  rewrite two23, two24 in *.
  split.
  - intros Hb.
    assert (104 <= q) as Hq104 by lia.
    assert (8388608 * P <= m) as Hl by (apply Hlow; lia).
    destruct (Z_le_gt_dec 105 q) as [Q|Q].
    + (* 2^128 <= m * 2^e *)
      assert (8388608 * (P * u) <= m * u) as H1.
      { rewrite Z.mul_assoc. apply Z.mul_le_mono_nonneg_r; lia. }
      rewrite <- HQ in H1.
      assert (2 ^ (105 + 1074) <= 2 ^ (q + 1074)) as H2 by (apply Z.pow_le_mono_r; lia).
      assert (OVF32_units <= 8388608 * 2 ^ (105 + 1074)) as H3 by (vm_compute; discriminate).
      lia.
    + assert (q = 104) as Eq by lia.
      assert (r = 16777216) as Er by lia.
      assert (d = 16777215) as Ed by lia.
      assert (H <= rem) as Hhalf.
      { assert (r = d + 1) as X by lia. apply Riff in X. lia. }
      assert (m * u = 2 * (H * u) * d + rem * u) as E1.
      { rewrite Hdm at 1. rewrite HPH. ring. }
      assert (H * u <= rem * u) as E2 by (apply Z.mul_le_mono_nonneg_r; lia).
      rewrite HHu, Eq, Ed in *.
      assert (OVF32_units = 2 * 2 ^ (104 + 1073) * 16777215 + 2 ^ (104 + 1073)) as E3 by (vm_compute; reflexivity).
      lia.
  - intros Hv. destruct (Z_lt_le_dec ((q + 149) * 8388608 + r) 2139095040) as [Hb|Hb]; [exfalso|lia].
    assert (m * u < 16777216 * (P * u)) as H1.
    { rewrite Z.mul_assoc. apply Z.mul_lt_mono_pos_r; lia. }
    rewrite <- HQ in H1.
    assert (2 ^ 1201 <= OVF32_units) as H2 by (vm_compute; discriminate).
    assert (16777216 * 2 ^ (q + 1074) = 2 ^ (24 + (q + 1074))) as H3 by (rewrite (pow2_split 24 (q + 1074)) by lia; reflexivity).
    assert (2 ^ 1201 < 2 ^ (24 + (q + 1074))) as H4 by lia.
    apply Z.pow_lt_mono_r_iff in H4; [|lia|lia].
    assert (104 <= q) as Hq104 by lia.
    assert (q = 104) as Eq by lia.
    (* q = 104: the quotient is 2^24 - 1 and the remainder at least half *)
    assert (m * u = 2 * (H * u) * d + rem * u) as E1.
    { rewrite Hdm at 1. rewrite HPH. ring. }
    assert (OVF32_units = 33554431 * 2 ^ (104 + 1073)) as E3 by (vm_compute; reflexivity).
    rewrite HHu, Eq in *.
    set (X := 2 ^ (104 + 1073)) in *.
    assert (0 < X) as HX by (apply pow2_pos; lia).
    assert (rem * u < 2 * X) as E4.
    { rewrite <- HHu. replace (2 * (H * u)) with (2 * H * u) by ring. apply Z.mul_lt_mono_pos_r; lia. }
    assert (d = 16777215) as Ed.
    { destruct (Z_le_gt_dec d 16777214) as [D|D]; [exfalso|lia].
      assert (2 * X * d <= 2 * X * 16777214) by (apply Z.mul_le_mono_nonneg_l; lia). lia. }
    assert (H * u <= rem * u) as E5 by (rewrite HHu; lia).
    assert (H <= rem) as Hhalf by (apply Z.mul_le_mono_pos_r in E5; lia).
    assert (r = d + 1) as Er.
    { apply Riff. destruct (Z.eq_dec rem H) as [A|A]; [right|left; lia].
      split; [exact A|]. rewrite Ed. reflexivity. }
    lia.
Qed.

(* ---------------- decoding a binary64 pattern ---------------- *)
Lemma decode64_shape b n m e :
  decode64 b = VFin n m e -> 0 <= m /\ -1074 <= e /\ e < quantum32 m e.
Proof.
  unfold decode64, decode. change (2 ^ (11 - 1) - 1) with 1023. change (2 ^ 11 - 1) with 2047.
  pose proof (Z.mod_pos_bound (b / 2 ^ 52) (2 ^ 11) ltac:(reflexivity)) as He.
  pose proof (Z.mod_pos_bound b (2 ^ 52) ltac:(reflexivity)) as Hf.
  remember ((b / 2 ^ 52) mod 2 ^ 11) as ex eqn:Eex. remember (b mod 2 ^ 52) as fr eqn:Efr. clear Eex Efr.
  change (2 ^ 11) with 2048 in He.
  destruct (Z.eqb_spec ex 2047) as [A|A]; [destruct (fr =? 0); discriminate|].
  destruct (Z.eqb_spec ex 0) as [B|B]; intros X; inversion X; subst; clear X.
  - split; [lia|]. split; [lia|]. unfold quantum32. lia.
  - assert (Z.log2 (fr + 2 ^ 52) = 52) as L.
    { apply Z.log2_unique; [lia|]. change (2 ^ Z.succ 52) with (2 * 2 ^ 52). lia. }
    split; [lia|]. split; [lia|]. unfold quantum32. change (Z.pow_pos 2 52) with (2 ^ 52). rewrite L. lia.
Qed.

Lemma units_rescale m' e' r q :
  -149 <= e' -> -149 <= q -> m' * 2 ^ (e' + 149) = r * 2 ^ (q + 149) -> units m' e' = units r q.
Proof.
  intros He Hq H. unfold units.
  replace (e' + 1074) with ((e' + 149) + 925) by lia. replace (q + 1074) with ((q + 149) + 925) by lia.
  rewrite (pow2_split (e' + 149) 925), (pow2_split (q + 149) 925) by lia. rewrite !Z.mul_assoc, H. reflexivity.
Qed.

Lemma float_units_below_overflow c n m e :
  decode32 c = VFin n m e -> units m e < OVF32_units.
Proof.
  intros H. apply decode32_range in H. destruct H as [Hm He]. rewrite two24 in Hm. unfold units.
  assert (2 ^ (e + 1074) <= 2 ^ (104 + 1074)) as H1 by (apply Z.pow_le_mono_r; lia).
  assert (0 < 2 ^ (e + 1074)) as H0 by (apply pow2_pos; lia).
  assert (m * 2 ^ (e + 1074) <= 16777215 * 2 ^ (e + 1074)) as H2 by (apply Z.mul_le_mono_nonneg_r; lia).
  assert (16777215 * 2 ^ (104 + 1074) < OVF32_units) as H3 by (vm_compute; reflexivity).
  lia.
Qed.

(* ---------------- the conversion is the correctly rounded one ---------------- *)
(* [nearest32 m e m' e'] : no finite float magnitude is nearer to m * 2^e than m' * 2^e' *)
Definition nearest32 (m e m' e' : Z) : Prop :=
  forall c n2 m2 e2, decode32 c = VFin n2 m2 e2 ->
    Z.abs (units m' e' - units m e) <= Z.abs (units m2 e2 - units m e).

Theorem narrow32_correct b :
  match decode64 b with
  | VNan => decode32 (narrow32 b) = VNan
  | VInf n => decode32 (narrow32 b) = VInf n
  | VFin n m e =>
    if OVF32_units <=? units m e then decode32 (narrow32 b) = VInf n
    else exists m' e', decode32 (narrow32 b) = VFin n m' e' /\ nearest32 m e m' e'
  end.
Proof.
  unfold narrow32. destruct (decode64 b) as [|n|n m e] eqn:D.
  - reflexivity.
  - rewrite decode32_sign by (unfold INF32; lia). reflexivity.
  - destruct (decode64_shape b n m e D) as (Hm & He & Hs).
    unfold mag32. destruct (Z.eqb_spec m 0) as [Z0|Z0].
    + subst m. assert (units 0 e = 0) as U0 by reflexivity. rewrite U0.
      change (OVF32_units <=? 0) with false. cbv iota.
      rewrite decode32_sign by lia. exists 0, (-149). split; [reflexivity|].
      intros c n2 m2 e2 _. rewrite U0. change (units 0 (-149)) with 0. lia.
    + assert (0 < m) as Hm' by lia.
      pose proof (mag_bits_overflow_iff m e Hm' He Hs) as Hov.
      destruct (round32_range m e Hm' He Hs) as ((R0 & R1) & Rlead).
      assert (-149 <= quantum32 m e) as Hq by (unfold quantum32; lia).
      destruct (Z.leb_spec OVF32_units (units m e)) as [O|O].
      * apply Hov in O. destruct (Z.geb_spec ((quantum32 m e + 149) * 2 ^ 23 + round32 m e) INF32) as [G|G]; [|lia].
        rewrite decode32_sign by (unfold INF32; lia). reflexivity.
      * destruct (Z.geb_spec ((quantum32 m e + 149) * 2 ^ 23 + round32 m e) INF32) as [G|G].
        { exfalso. apply Hov in G. lia. }
        destruct (decode32_compose (quantum32 m e + 149) (round32 m e)) as (m' & e' & Dc & Hv); try lia.
        rewrite decode32_sign by (unfold INF32 in G; rewrite two23 in *; nia).
        rewrite Dc. exists m', e'. split; [reflexivity|].
        intros c n2 m2 e2 Hc.
        destruct (decode32_range _ _ _ _ Dc) as [_ [He' _]].
        destruct (decode32_range _ _ _ _ Hc) as [Hm2 [He2 _]].
        rewrite (units_rescale m' e' (round32 m e) (quantum32 m e)) by (try lia; rewrite Hv; f_equal; lia).
        apply round32_nearest; lia.
Qed.

(* a double that is itself a float value is converted without change *)
Corollary narrow32_exact b n m e c n2 m2 e2 :
  decode64 b = VFin n m e -> decode32 c = VFin n2 m2 e2 -> units m2 e2 = units m e ->
  exists m' e', decode32 (narrow32 b) = VFin n m' e' /\ units m' e' = units m e.
Proof.
  intros D C E. pose proof (narrow32_correct b) as H. rewrite D in H.
  pose proof (float_units_below_overflow c n2 m2 e2 C) as Hb. rewrite E in Hb.
  destruct (Z.leb_spec OVF32_units (units m e)); [lia|].
  destruct H as (m' & e' & Hd & Hn). exists m', e'. split; [exact Hd|].
  specialize (Hn c n2 m2 e2 C). rewrite E in Hn. lia.
Qed.

(* ---------------- the range of float, in units ---------------- *)
Lemma in_float32_units n m e :
  -1074 <= e -> (in_float32 (VFin n m e) = true <-> units m e <= units (2 ^ 24 - 1) 104).
Proof.
  intros He. unfold in_float32, FLT_MAX_v, fval_ltb, sval, units.
  set (k := Z.min 104 e).
  assert (0 < 2 ^ (k + 1074)) as Hk by (apply pow2_pos; lia).
  assert (2 ^ (e + 1074) = 2 ^ (e - k) * 2 ^ (k + 1074)) as -> by (rewrite <- pow2_split by lia; f_equal; lia).
  assert (2 ^ (104 + 1074) = 2 ^ (104 - k) * 2 ^ (k + 1074)) as -> by (rewrite <- pow2_split by lia; f_equal; lia).
  rewrite !Z.mul_assoc, <- Z.mul_le_mono_pos_r by exact Hk.
  rewrite negb_true_iff, Z.ltb_ge. reflexivity.
Qed.

Lemma in_float32_no_overflow n m e :
  -1074 <= e -> in_float32 (VFin n m e) = true -> units m e < OVF32_units.
Proof.
  intros He H. apply in_float32_units in H; [|exact He].
  assert (units (2 ^ 24 - 1) 104 < OVF32_units) by (vm_compute; reflexivity). lia.
Qed.

(* ---------------- PARSENUM on floating targets ---------------- *)
(* the PROPERTY's reading for a floating target of w bits: success needs, beyond what the wrapper
   tests, a value inside the finite range of the target type *)
Definition float_spec_typed (w : Z) (s : list N) (sd : strtod_res) (trailing : bool) : errno :=
  match float_spec s sd trailing with
  | ENone => if in_type w (decode64 (sd_bits sd)) then ENone else ERange
  | e => e
  end.

(* what is stored: strtod's double converted to the type of the target, whatever errno is *)
Theorem parsenum_float_stored_proof w min max trailing s sd :
  no_nul s -> (sd_consumed sd <= length s)%nat ->
  parsenum_ex6 (FT w) (cstr s) min max 0 trailing sd
    = Ok {| o_errno := float_spec s sd trailing; o_stored := fstore w (sd_bits sd) |} /\
  parsenum_ex4 (FT w) (cstr s) 0 trailing sd
    = Ok {| o_errno := float_spec s sd trailing; o_stored := fstore w (sd_bits sd) |}.
Proof.
  intros Hn Hk. unfold parsenum_ex6, parsenum_ex4. cbn [class_float FT ck cw]. change (0 =? 0) with true.
  cbv iota. rewrite (parsenum_float_run s sd trailing Hn Hk). cbn [bind]. split; reflexivity.
Qed.

(* double targets: the outcome is the property's, the value is strtod's, bit for bit *)
Theorem parsenum_double_exact_proof min max trailing s sd :
  no_nul s -> (sd_consumed sd <= length s)%nat ->
  parsenum_ex6 (FT 64) (cstr s) min max 0 trailing sd
    = Ok {| o_errno := float_spec_typed 64 s sd trailing; o_stored := sd_bits sd |} /\
  parsenum_ex4 (FT 64) (cstr s) 0 trailing sd
    = Ok {| o_errno := float_spec_typed 64 s sd trailing; o_stored := sd_bits sd |}.
Proof.
  intros Hn Hk. destruct (parsenum_float_stored_proof 64 min max trailing s sd Hn Hk) as [A B].
  rewrite A, B. unfold float_spec_typed, in_type. change (64 =? 32) with false. cbv iota.
  change (fstore 64 (sd_bits sd)) with (sd_bits sd).
  destruct (float_spec s sd trailing); split; reflexivity.
Qed.

(* float targets, value inside the range of float (or not finite): the outcome is the property's and
   the float stored is the correctly rounded value - same sign, a nearest float magnitude *)
Theorem parsenum_float32_in_type_proof min max trailing s sd :
  no_nul s -> (sd_consumed sd <= length s)%nat ->
  in_float32 (decode64 (sd_bits sd)) = true ->
  parsenum_ex6 (FT 32) (cstr s) min max 0 trailing sd
    = Ok {| o_errno := float_spec_typed 32 s sd trailing; o_stored := narrow32 (sd_bits sd) |} /\
  parsenum_ex4 (FT 32) (cstr s) 0 trailing sd
    = Ok {| o_errno := float_spec_typed 32 s sd trailing; o_stored := narrow32 (sd_bits sd) |} /\
  match decode64 (sd_bits sd) with
  | VNan => decode32 (narrow32 (sd_bits sd)) = VNan
  | VInf n => decode32 (narrow32 (sd_bits sd)) = VInf n
  | VFin n m e => exists m' e', decode32 (narrow32 (sd_bits sd)) = VFin n m' e' /\ nearest32 m e m' e'
  end.
Proof.
  intros Hn Hk Hin. destruct (parsenum_float_stored_proof 32 min max trailing s sd Hn Hk) as [A B].
  rewrite A, B. unfold float_spec_typed, in_type. change (32 =? 32) with true. cbv iota. rewrite Hin.
  change (fstore 32 (sd_bits sd)) with (narrow32 (sd_bits sd)).
  split; [destruct (float_spec s sd trailing); reflexivity|].
  split; [destruct (float_spec s sd trailing); reflexivity|].
  pose proof (narrow32_correct (sd_bits sd)) as H.
  destruct (decode64 (sd_bits sd)) as [|n|n m e] eqn:D; try exact H.
  destruct (decode64_shape _ _ _ _ D) as (_ & He & _).
  pose proof (in_float32_no_overflow n m e He Hin) as Hb.
  destruct (Z.leb_spec OVF32_units (units m e)); [lia|exact H].
Qed.

(* ---------------- the deviation: a float target accepts values outside float ---------------- *)
Theorem parsenum_float_narrowing_refuted_proof :
  let s := [49; 101; 51; 48; 48]%N in                     (* "1e300" *)
  let d := 0x7e37e43c8800759c in                           (* the double nearest to 10^300 *)
  let sd := mk_sd 5 false d 0 0x7fe1ccf385ebc8a0 in        (* bounds 0 and 1e308 *)
  let sd' := mk_sd 5 false d 0xfff0000000000000 0x7ff0000000000000 in   (* no bounds: -inf, +inf *)
  no_nul s /\ (sd_consumed sd <= length s)%nat /\
  (* a finite value inside the requested bounds, beyond FLT_MAX *)
  sd_class sd = FFinite /\ sd_lt_min sd = false /\ sd_gt_max sd = false /\ sd_erange sd = false /\
  in_float32 (decode64 d) = false /\
  (* float f; PARSENUM(&f, "1e300", 0, 1e308) and PARSENUM(&f, "1e300"): success, +infinity stored *)
  parsenum_ex6 (FT 32) (cstr s) 0 0 0 false sd = Ok {| o_errno := ENone; o_stored := INF32 |} /\
  parsenum_ex4 (FT 32) (cstr s) 0 false sd' = Ok {| o_errno := ENone; o_stored := INF32 |} /\
  decode32 INF32 = VInf false /\
  (* where the property asks for ERANGE *)
  float_spec_typed 32 s sd false = ERange /\ float_spec_typed 32 s sd' false = ERange /\
  (* (the same call with a double target stores the value and agrees with the property) *)
  parsenum_ex6 (FT 64) (cstr s) 0 0 0 false sd = Ok {| o_errno := ENone; o_stored := d |} /\
  float_spec_typed 64 s sd false = ENone /\
  (* underflow likewise passes in silence: PARSENUM(&f, "1e-50") succeeds and stores +0 for a
     non-zero value (a double target gets ERANGE from strtod when the value underflows double) *)
  let s2 := [49; 101; 45; 53; 48]%N in
  let d2 := 0x358dee7a4ad4b81f in
  let sd2 := mk_sd 5 false d2 0xfff0000000000000 0x7ff0000000000000 in
  parsenum_ex4 (FT 32) (cstr s2) 0 false sd2 = Ok {| o_errno := ENone; o_stored := 0 |} /\
  decode64 d2 = VFin false 8424983333484575 (-219) /\ decode32 0 = VFin false 0 (-149).
Proof.
  cbv zeta.
  split; [unfold no_nul; repeat constructor; discriminate|].
  split; [simpl; lia|].
  repeat split; vm_compute; reflexivity.
Qed.

(* non-vacuity of parsenum_float32_in_type_proof: "0.1" into a float *)
Example float32_in_type_instance :
  let s := [48; 46; 49]%N in
  let sd := mk_sd 3 false 0x3fb999999999999a 0xfff0000000000000 0x7ff0000000000000 in
  no_nul s /\ (sd_consumed sd <= length s)%nat /\ in_float32 (decode64 (sd_bits sd)) = true /\
  parsenum_ex4 (FT 32) (cstr s) 0 false sd = Ok {| o_errno := ENone; o_stored := 0x3dcccccd |} /\
  decode32 0x3dcccccd = VFin false 13421773 (-27).
Proof.
  cbv zeta.
  split; [unfold no_nul; repeat constructor; discriminate|].
  split; [simpl; lia|].
  repeat split; vm_compute; reflexivity.
Qed.

(* at an exact tie the rounding step takes the even quotient (the carry case 2^24 is even too) *)
Lemma rne_tie_even m s :
  0 <= m -> 1 <= s -> m mod 2 ^ s = 2 ^ (s - 1) -> Z.even (rne m s) = true.
Proof.
  intros Hm Hs Ht. unfold rne. rewrite Ht, Z.eqb_refl. cbn [andb].
  destruct (Z.gtb_spec (2 ^ (s - 1)) (2 ^ (s - 1))) as [G|G]; [lia|]. cbn [orb].
  destruct (Z.odd (m / 2 ^ s)) eqn:O.
  - rewrite Z.even_add, <- Z.negb_odd, O. reflexivity.
  - rewrite <- Z.negb_odd, O. reflexivity.
Qed.
