(* util/b64encode.c: the model equals the RFC 4648 spec, decoding inverts encoding, the decoder
   accepts exactly the well-formed encodings, and neither routine leaves its input or the output
   space its contract names. *)
From Coq Require Import Arith NArith ZArith List Lia Bool.
From LCP Require Import Base.CheckedMem Base.Sweep Util.EndianMem Util.EndianMemProofs Util.B64 Gen.Repo_codec.
Import ListNotations.
Local Open Scope N_scope.
Ltac Zify.zify_post_hook ::= Z.to_euclidean_division_equations.

(* ---------------- the regenerated table is the RFC alphabet followed by '=' ---------------- *)
Lemma repo_b64chars_eq_rfc : b64chars = rfc4648_alphabet ++ [pad_char].
Proof. vm_compute. reflexivity. Qed.

Definition tbl : list N := rfc4648_alphabet ++ [pad_char].

(* ---------------- bit strings ---------------- *)
Definition bstep (acc : N) (b : bool) : N := 2 * acc + (if b then 1 else 0).

Lemma bits_fold_acc l acc :
  fold_left bstep l acc = acc * 2 ^ N.of_nat (length l) + fold_left bstep l 0.
Proof.
  revert acc. induction l as [|b l IH]; intros acc.
  - cbn [fold_left length N.of_nat]. rewrite N.pow_0_r. lia.
  - cbn [fold_left length]. rewrite (IH (bstep acc b)), (IH (bstep 0 b)).
    rewrite Nat2N.inj_succ, N.pow_succ_r'. unfold bstep. destruct b; lia.
Qed.

Lemma bits_val_app l1 l2 :
  bits_val (l1 ++ l2) = bits_val l1 * 2 ^ N.of_nat (length l2) + bits_val l2.
Proof. unfold bits_val. fold bstep. rewrite fold_left_app. apply bits_fold_acc. Qed.

Lemma bits_val_bound l : bits_val l < 2 ^ N.of_nat (length l).
Proof.
  induction l as [|b l IH] using rev_ind.
  - cbn. lia.
  - rewrite bits_val_app, app_length. cbn [length]. replace (length l + 1)%nat with (S (length l)) by lia.
    change (2 ^ N.of_nat 1) with 2. rewrite Nat2N.inj_succ, N.pow_succ_r'.
    assert (bits_val [b] < 2) by (destruct b; cbn; lia).
    set (p := 2 ^ N.of_nat (length l)) in *. lia.
Qed.

Lemma bits_val_slice l1 l2 l3 :
  bits_val l2 = (bits_val (l1 ++ l2 ++ l3) / 2 ^ N.of_nat (length l3)) mod 2 ^ N.of_nat (length l2).
Proof.
  rewrite !bits_val_app.
  pose proof (bits_val_bound l2) as B2. pose proof (bits_val_bound l3) as B3.
  assert (2 ^ N.of_nat (length l3) <> 0) as P3 by (apply N.pow_nonzero; lia).
  assert (2 ^ N.of_nat (length l2) <> 0) as P2 by (apply N.pow_nonzero; lia).
  rewrite app_length, Nat2N.inj_add, N.pow_add_r.
  replace (bits_val l1 * (2 ^ N.of_nat (length l2) * 2 ^ N.of_nat (length l3)) +
           (bits_val l2 * 2 ^ N.of_nat (length l3) + bits_val l3))
    with ((bits_val l1 * 2 ^ N.of_nat (length l2) + bits_val l2) * 2 ^ N.of_nat (length l3) + bits_val l3)
    by lia.
  rewrite N.div_add_l by exact P3. rewrite (N.div_small _ _ B3), N.add_0_r.
  rewrite N.add_comm, N.mod_add by exact P2. symmetry. apply N.mod_small, B2.
Qed.

Lemma bits_val_byte b : b < 256 -> bits_val (byte_bits b) = b.
Proof.
  intros H.
  assert (forallb (fun b => bits_val (byte_bits b) =? b) (N_range 256) = true) as S by (vm_compute; reflexivity).
  apply N.eqb_eq. apply (sweep_byte _ S b H).
Qed.

Lemma bits_val_digit d : d < 64 -> bits_val (digit_bits d) = d.
Proof.
  intros H.
  assert (forallb (fun d => bits_val (digit_bits d) =? d) (N_range 64) = true) as S by (vm_compute; reflexivity).
  apply N.eqb_eq. apply (sweep_N _ 64 S d H).
Qed.

Lemma byte_bits_shape b : exists x7 x6 x5 x4 x3 x2 x1 x0, byte_bits b = [x7; x6; x5; x4; x3; x2; x1; x0].
Proof. unfold byte_bits. cbn [map]. repeat eexists. Qed.

Lemma digit_bits_shape d : exists x5 x4 x3 x2 x1 x0, digit_bits d = [x5; x4; x3; x2; x1; x0].
Proof. unfold digit_bits. cbn [map]. repeat eexists. Qed.

Lemma byte_bits_val x7 x6 x5 x4 x3 x2 x1 x0 :
  byte_bits (bits_val [x7; x6; x5; x4; x3; x2; x1; x0]) = [x7; x6; x5; x4; x3; x2; x1; x0].
Proof. destruct x7, x6, x5, x4, x3, x2, x1, x0; vm_compute; reflexivity. Qed.

Lemma digit_bits_val x5 x4 x3 x2 x1 x0 :
  digit_bits (bits_val [x5; x4; x3; x2; x1; x0]) = [x5; x4; x3; x2; x1; x0].
Proof. destruct x5, x4, x3, x2, x1, x0; vm_compute; reflexivity. Qed.

(* the four 6-bit digits of a 24-bit quantum *)
Definition group_digits (t : N) : list N :=
  [(t / 2 ^ 18) mod 64; (t / 2 ^ 12) mod 64; (t / 2 ^ 6) mod 64; t mod 64].

Lemma sextets24 x0 x1 x2 x3 x4 x5 x6 x7 x8 x9 x10 x11 x12 x13 x14 x15 x16 x17 x18 x19 x20 x21 x22 x23 :
  [bits_val [x0; x1; x2; x3; x4; x5]; bits_val [x6; x7; x8; x9; x10; x11];
   bits_val [x12; x13; x14; x15; x16; x17]; bits_val [x18; x19; x20; x21; x22; x23]] =
  group_digits (bits_val [x0; x1; x2; x3; x4; x5; x6; x7; x8; x9; x10; x11; x12; x13; x14; x15; x16; x17;
                          x18; x19; x20; x21; x22; x23]).
Proof.
  unfold group_digits.
  rewrite (bits_val_slice [] [x0; x1; x2; x3; x4; x5]
             [x6; x7; x8; x9; x10; x11; x12; x13; x14; x15; x16; x17; x18; x19; x20; x21; x22; x23]).
  rewrite (bits_val_slice [x0; x1; x2; x3; x4; x5] [x6; x7; x8; x9; x10; x11]
             [x12; x13; x14; x15; x16; x17; x18; x19; x20; x21; x22; x23]).
  rewrite (bits_val_slice [x0; x1; x2; x3; x4; x5; x6; x7; x8; x9; x10; x11] [x12; x13; x14; x15; x16; x17]
             [x18; x19; x20; x21; x22; x23]).
  rewrite (bits_val_slice [x0; x1; x2; x3; x4; x5; x6; x7; x8; x9; x10; x11; x12; x13; x14; x15; x16; x17]
             [x18; x19; x20; x21; x22; x23] []).
  cbn [app length]. rewrite N.div_1_r. reflexivity.
Qed.

(* ---------------- spec: one 3-byte group at a time ---------------- *)
Lemma zero_pad_app24 (X R : list bool) : length X = 24%nat -> zero_pad 6 (X ++ R) = X ++ zero_pad 6 R.
Proof.
  intros H. unfold zero_pad. rewrite app_length, H, <- app_assoc.
  replace ((24 + length R) mod 6)%nat with (length R mod 6)%nat; [reflexivity|].
  replace (24 + length R)%nat with (length R + 4 * 6)%nat by lia. rewrite Nat.mod_add by lia. reflexivity.
Qed.

Lemma bitstring_cons b r : bitstring (b :: r) = byte_bits b ++ bitstring r.
Proof. reflexivity. Qed.

Lemma b64_digits_group a b c r :
  a < 256 -> b < 256 -> c < 256 ->
  b64_digits (a :: b :: c :: r) = group_digits (a * 65536 + b * 256 + c) ++ b64_digits r.
Proof.
  intros Ha Hb Hc. unfold b64_digits. rewrite !bitstring_cons.
  pose proof (bits_val_byte a Ha) as Va. pose proof (bits_val_byte b Hb) as Vb.
  pose proof (bits_val_byte c Hc) as Vc.
  destruct (byte_bits_shape a) as (a7 & a6 & a5 & a4 & a3 & a2 & a1 & a0 & Ea).
  destruct (byte_bits_shape b) as (b7 & b6 & b5 & b4 & b3 & b2 & b1 & b0 & Eb).
  destruct (byte_bits_shape c) as (c7 & c6 & c5 & c4 & c3 & c2 & c1 & c0 & Ec).
  rewrite Ea in *. rewrite Eb in *. rewrite Ec in *.
  rewrite !app_assoc. rewrite zero_pad_app24 by reflexivity.
  cbn [app chunk6 map].
  pose proof (sextets24 a7 a6 a5 a4 a3 a2 a1 a0 b7 b6 b5 b4 b3 b2 b1 b0 c7 c6 c5 c4 c3 c2 c1 c0) as S.
  change [a7; a6; a5; a4; a3; a2; a1; a0; b7; b6; b5; b4; b3; b2; b1; b0; c7; c6; c5; c4; c3; c2; c1; c0]
    with ([a7; a6; a5; a4; a3; a2; a1; a0] ++ [b7; b6; b5; b4; b3; b2; b1; b0] ++ [c7; c6; c5; c4; c3; c2; c1; c0]) in S.
  rewrite !bits_val_app, Va, Vb, Vc in S. cbn [length app] in S.
  change (2 ^ N.of_nat 16) with 65536 in S. change (2 ^ N.of_nat 8) with 256 in S.
  replace (a * 65536 + (b * 256 + c)) with (a * 65536 + b * 256 + c) in S by lia.
  rewrite <- S. reflexivity.
Qed.

Lemma b64_digits_1 a : a < 256 ->
  b64_digits [a] = firstn 2 (group_digits (a * 65536)).
Proof.
  intros Ha. unfold b64_digits. rewrite !bitstring_cons.
  pose proof (bits_val_byte a Ha) as Va.
  destruct (byte_bits_shape a) as (a7 & a6 & a5 & a4 & a3 & a2 & a1 & a0 & Ea).
  rewrite Ea in *. cbn [bitstring flat_map app].
  change (zero_pad 6 [a7; a6; a5; a4; a3; a2; a1; a0])
    with [a7; a6; a5; a4; a3; a2; a1; a0; false; false; false; false].
  cbn [chunk6 map].
  pose proof (sextets24 a7 a6 a5 a4 a3 a2 a1 a0 false false false false false false false false
                        false false false false false false false false) as S.
  change [a7; a6; a5; a4; a3; a2; a1; a0; false; false; false; false; false; false; false; false;
          false; false; false; false; false; false; false; false]
    with ([a7; a6; a5; a4; a3; a2; a1; a0] ++ repeat false 16) in S.
  rewrite bits_val_app, Va in S. change (bits_val (repeat false 16)) with 0 in S.
  change (2 ^ N.of_nat (length (repeat false 16))) with 65536 in S. rewrite N.add_0_r in S.
  rewrite <- S. reflexivity.
Qed.

Lemma b64_digits_2 a b : a < 256 -> b < 256 ->
  b64_digits [a; b] = firstn 3 (group_digits (a * 65536 + b * 256)).
Proof.
  intros Ha Hb. unfold b64_digits. rewrite !bitstring_cons.
  pose proof (bits_val_byte a Ha) as Va. pose proof (bits_val_byte b Hb) as Vb.
  destruct (byte_bits_shape a) as (a7 & a6 & a5 & a4 & a3 & a2 & a1 & a0 & Ea).
  destruct (byte_bits_shape b) as (b7 & b6 & b5 & b4 & b3 & b2 & b1 & b0 & Eb).
  rewrite Ea in *. rewrite Eb in *. cbn [bitstring flat_map app].
  change (zero_pad 6 [a7; a6; a5; a4; a3; a2; a1; a0; b7; b6; b5; b4; b3; b2; b1; b0])
    with [a7; a6; a5; a4; a3; a2; a1; a0; b7; b6; b5; b4; b3; b2; b1; b0; false; false].
  cbn [chunk6 map].
  pose proof (sextets24 a7 a6 a5 a4 a3 a2 a1 a0 b7 b6 b5 b4 b3 b2 b1 b0
                        false false false false false false false false) as S.
  change [a7; a6; a5; a4; a3; a2; a1; a0; b7; b6; b5; b4; b3; b2; b1; b0;
          false; false; false; false; false; false; false; false]
    with ([a7; a6; a5; a4; a3; a2; a1; a0] ++ [b7; b6; b5; b4; b3; b2; b1; b0] ++ repeat false 8) in S.
  rewrite !bits_val_app, Va, Vb in S. change (bits_val (repeat false 8)) with 0 in S.
  cbn [length app repeat] in S.
  change (2 ^ N.of_nat 16) with 65536 in S. change (2 ^ N.of_nat 8) with 256 in S.
  replace (a * 65536 + (b * 256 + 0)) with (a * 65536 + b * 256) in S by lia.
  rewrite <- S. reflexivity.
Qed.

Lemma b64_spec_group a b c r :
  a < 256 -> b < 256 -> c < 256 ->
  b64_spec (a :: b :: c :: r) = map b64_char (group_digits (a * 65536 + b * 256 + c)) ++ b64_spec r.
Proof.
  intros Ha Hb Hc. unfold b64_spec. rewrite b64_digits_group by assumption.
  rewrite map_app, app_length, <- app_assoc. f_equal. f_equal.
  change (length (map b64_char (group_digits (a * 65536 + b * 256 + c)))) with 4%nat.
  replace (4 + length (map b64_char (b64_digits r)))%nat
    with (length (map b64_char (b64_digits r)) + 1 * 4)%nat by lia.
  rewrite Nat.mod_add by lia. reflexivity.
Qed.

Lemma b64_spec_1 a : a < 256 ->
  b64_spec [a] = map b64_char (firstn 2 (group_digits (a * 65536))) ++ [pad_char; pad_char].
Proof. intros Ha. unfold b64_spec. rewrite b64_digits_1 by assumption. reflexivity. Qed.

Lemma b64_spec_2 a b : a < 256 -> b < 256 ->
  b64_spec [a; b] = map b64_char (firstn 3 (group_digits (a * 65536 + b * 256))) ++ [pad_char].
Proof. intros Ha Hb. unfold b64_spec. rewrite b64_digits_2 by assumption. reflexivity. Qed.

(* ---------------- encoder model ---------------- *)
Lemma tbl_digit d : d < 64 -> rd tbl (N.to_nat d) = Ok (b64_char d).
Proof.
  intros H.
  assert (forallb (fun d => match rd tbl (N.to_nat d) with Ok c => c =? b64_char d | _ => false end)
                  (N_range 64) = true) as S by (vm_compute; reflexivity).
  pose proof (sweep_N _ 64 S d H) as P. cbv beta in P.
  destruct (rd tbl (N.to_nat d)); try discriminate. apply N.eqb_eq in P. subst. reflexivity.
Qed.

Definition sh6 (t : N) : N := u32 (N.shiftl t 6).

Lemma digit_sel t : N.land (N.shiftr t 18) 63 = (t / 2 ^ 18) mod 64.
Proof. rewrite N.shiftr_div_pow2. change 63 with (N.ones 6). rewrite N.land_ones. reflexivity. Qed.

Lemma sh6_eq t : sh6 t = (t * 64) mod 2 ^ 32.
Proof. unfold sh6, u32. rewrite N.shiftl_mul_pow2. reflexivity. Qed.

Lemma group_digits_model t : t < 2 ^ 24 ->
  [N.land (N.shiftr t 18) 63; N.land (N.shiftr (sh6 t) 18) 63;
   N.land (N.shiftr (sh6 (sh6 t)) 18) 63; N.land (N.shiftr (sh6 (sh6 (sh6 t))) 18) 63] = group_digits t.
Proof.
  intros H. rewrite !digit_sel, !sh6_eq. unfold group_digits.
  change (2 ^ 24) with 16777216 in H. change (2 ^ 32) with 4294967296. change (2 ^ 18) with 262144.
  change (2 ^ 12) with 4096. change (2 ^ 6) with 64.
  repeat (apply (f_equal2 (@cons N)); [lia|]). reflexivity.
Qed.

Lemma group_digit_lt t k d : nth_error (group_digits t) k = Some d -> d < 64.
Proof.
  unfold group_digits. intros H.
  destruct k as [|[|[|[|k]]]]; cbn [nth_error] in H; try (destruct k; discriminate);
    inversion H; subst; apply N.mod_lt; lia.
Qed.

Lemma enc_write_step tb done r rest len j n t c :
  (if (j <=? len)%nat then rd tb (N.to_nat (N.land (N.shiftr t 18) 63)) else Ok 61) = Ok c ->
  enc_write tb (done ++ r :: rest) (length done) len j (S n) t =
  enc_write tb ((done ++ [c]) ++ rest) (length (done ++ [c])) len (S j) n (sh6 t).
Proof.
  intros E. cbn [enc_write]. rewrite E. cbn [bind]. rewrite wr_mid. cbn [bind].
  rewrite app_length. cbn [length]. rewrite <- app_assoc. cbn [app].
  replace (length done + 1)%nat with (S (length done)) by lia. reflexivity.
Qed.

Lemma enc_read_step_rd pre a suf len j n t :
  (j <? len)%nat = true ->
  enc_read (pre ++ a :: suf) (length pre) len j (S n) t =
  enc_read ((pre ++ [a]) ++ suf) (length (pre ++ [a])) len (S j) n (u32 (u32 (N.shiftl t 8) + a)).
Proof.
  intros E. cbn [enc_read]. rewrite E. rewrite rd_mid. cbn [bind].
  rewrite app_length. cbn [length]. rewrite <- app_assoc. cbn [app].
  replace (length pre + 1)%nat with (S (length pre)) by lia. reflexivity.
Qed.

Lemma enc_read_step_skip inp ip len j n t :
  (j <? len)%nat = false ->
  enc_read inp ip len j (S n) t = enc_read inp ip len (S j) n (u32 (N.shiftl t 8)).
Proof. intros E. cbn [enc_read]. rewrite E. reflexivity. Qed.

(* the value assembled by the reading loop *)
Lemma read_val3 a b c : a < 256 -> b < 256 -> c < 256 ->
  u32 (u32 (N.shiftl (u32 (u32 (N.shiftl (u32 (u32 (N.shiftl 0 8) + a)) 8) + b)) 8) + c) =
  a * 65536 + b * 256 + c.
Proof.
  intros. unfold u32. rewrite !N.shiftl_mul_pow2. change (2 ^ 8) with 256. change (2 ^ 32) with 4294967296. lia.
Qed.
Lemma read_val2 a b : a < 256 -> b < 256 ->
  u32 (N.shiftl (u32 (u32 (N.shiftl (u32 (u32 (N.shiftl 0 8) + a)) 8) + b)) 8) = a * 65536 + b * 256.
Proof.
  intros. unfold u32. rewrite !N.shiftl_mul_pow2. change (2 ^ 8) with 256. change (2 ^ 32) with 4294967296. lia.
Qed.
Lemma read_val1 a : a < 256 ->
  u32 (N.shiftl (u32 (N.shiftl (u32 (u32 (N.shiftl 0 8) + a)) 8)) 8) = a * 65536.
Proof.
  intros. unfold u32. rewrite !N.shiftl_mul_pow2. change (2 ^ 8) with 256. change (2 ^ 32) with 4294967296. lia.
Qed.

Lemma b64len_3 n : b64len (S (S (S n))) = (4 + b64len n)%nat.
Proof.
  unfold b64len. replace (S (S (S n)) + 2)%nat with (n + 2 + 1 * 3)%nat by lia.
  rewrite Nat.div_add by lia. lia.
Qed.

Lemma list_ind3 {A} (P : list A -> Prop) :
  P [] -> (forall a, P [a]) -> (forall a b, P [a; b]) ->
  (forall a b c r, P r -> P (a :: b :: c :: r)) -> forall l, P l.
Proof.
  intros H0 H1 H2 H3 l.
  assert (forall n l, (length l <= n)%nat -> P l) as G.
  { induction n as [|n IH]; intros l' Hl.
    - destruct l'; [exact H0 | cbn in Hl; lia].
    - destruct l' as [|a [|b [|c r]]]; auto. apply H3. apply IH. cbn [length] in Hl. lia. }
  apply (G (length l)). lia.
Qed.

(* four characters written from a quantum t: the first k are digits, the rest '=' *)
Lemma enc_write_4 done r0 r1 r2 r3 rest len t :
  t < 2 ^ 24 -> (1 <= len)%nat ->
  enc_write tbl (done ++ r0 :: r1 :: r2 :: r3 :: rest) (length done) len 0 4 t =
  Ok (done ++ (map b64_char (firstn (S len) (group_digits t)) ++ repeat pad_char (3 - len)) ++ rest,
      (length done + 4)%nat).
Proof.
  intros Ht Hl. pose proof (group_digits_model t Ht) as G.
  assert (forall k d, nth_error (group_digits t) k = Some d -> rd tbl (N.to_nat d) = Ok (b64_char d)) as R.
  { intros k d Hk. apply tbl_digit. eapply group_digit_lt. exact Hk. }
  rewrite <- G in R.
  pose proof (R 0%nat _ eq_refl) as R0. pose proof (R 1%nat _ eq_refl) as R1.
  pose proof (R 2%nat _ eq_refl) as R2. pose proof (R 3%nat _ eq_refl) as R3.
  rewrite <- G.
  destruct len as [|[|[|len]]]; [lia | | |].
  - (* len = 1: two digits, two '=' *)
    rewrite (enc_write_step tbl done r0 _ 1 0 3 t _ R0).
    rewrite (enc_write_step tbl _ r1 _ 1 1 2 _ _ R1).
    rewrite (enc_write_step tbl _ r2 _ 1 2 1 _ 61 eq_refl).
    rewrite (enc_write_step tbl _ r3 _ 1 3 0 _ 61 eq_refl).
    cbn [enc_write]. rewrite !app_length. cbn [length firstn map repeat Nat.sub app].
    rewrite <- !app_assoc. cbn [app]. f_equal. f_equal. lia.
  - rewrite (enc_write_step tbl done r0 _ 2 0 3 t _ R0).
    rewrite (enc_write_step tbl _ r1 _ 2 1 2 _ _ R1).
    rewrite (enc_write_step tbl _ r2 _ 2 2 1 _ _ R2).
    rewrite (enc_write_step tbl _ r3 _ 2 3 0 _ 61 eq_refl).
    cbn [enc_write]. rewrite !app_length. cbn [length firstn map repeat Nat.sub app].
    rewrite <- !app_assoc. cbn [app]. f_equal. f_equal. lia.
  - rewrite (enc_write_step tbl done r0 _ (S (S (S len))) 0 3 t _ R0).
    rewrite (enc_write_step tbl _ r1 _ (S (S (S len))) 1 2 _ _ R1).
    rewrite (enc_write_step tbl _ r2 _ (S (S (S len))) 2 1 _ _ R2).
    rewrite (enc_write_step tbl _ r3 _ (S (S (S len))) 3 0 _ _ R3).
    cbn [enc_write]. rewrite !app_length. cbn [length firstn map repeat Nat.sub app].
    rewrite firstn_nil. cbn [map app].
    rewrite <- !app_assoc. cbn [app]. f_equal. f_equal. lia.
Qed.

Lemma enc_loop_zero tb fuel inp ip done r op :
  op = length done -> enc_loop tb fuel inp ip (done ++ [r]) op 0 = Ok (done ++ [0]).
Proof. intros ->. destruct fuel; cbn [enc_loop Nat.eqb]; apply wr_mid. Qed.

Lemma enc_loop_ok : forall suf pre done rest fuel,
  bytes_ok suf -> length rest = S (b64len (length suf)) -> (length suf <= fuel)%nat ->
  enc_loop tbl fuel (pre ++ suf) (length pre) (done ++ rest) (length done) (length suf) =
  Ok (done ++ b64_spec suf ++ [0]).
Proof.
  intros suf. induction suf as [|a|a b|a b c r IH] using list_ind3; intros pre done rest fuel Hb Hr Hf.
  - (* end of input: the terminator *)
    destruct rest as [|r0 [|? ?]]; try discriminate Hr. apply enc_loop_zero. reflexivity.
  - (* one byte left *)
    inversion Hb as [|? ? Ha _]; subst. unfold is_byte in Ha.
    destruct fuel as [|f]; [cbn [length] in Hf; lia|].
    destruct rest as [|r0 [|r1 [|r2 [|r3 [|r4 [|? ?]]]]]]; try discriminate Hr.
    cbn [enc_loop length Nat.eqb].
    rewrite enc_read_step_rd by reflexivity.
    rewrite enc_read_step_skip by reflexivity. rewrite enc_read_step_skip by reflexivity.
    cbn [enc_read bind]. rewrite read_val1 by exact Ha.
    rewrite enc_write_4 by (try lia; change (2 ^ 24) with 16777216; lia). cbn [bind].
    cbn [Nat.ltb Nat.leb]. rewrite b64_spec_1 by exact Ha.
    unfold group_digits. cbn [firstn map repeat Nat.sub app].
    match goal with |- enc_loop _ _ _ _ (done ++ ?c0 :: ?c1 :: ?c2 :: ?c3 :: [r4]) _ _ = _ =>
      change (done ++ c0 :: c1 :: c2 :: c3 :: [r4]) with (done ++ [c0; c1; c2; c3] ++ [r4]);
      rewrite (app_assoc done [c0; c1; c2; c3] [r4])
    end.
    rewrite enc_loop_zero by (rewrite app_length; reflexivity).
    rewrite <- app_assoc. reflexivity.
  - (* two bytes left *)
    inversion Hb as [|? ? Ha Hb']; subst. inversion Hb' as [|? ? Hb2 _]; subst. unfold is_byte in Ha, Hb2.
    destruct fuel as [|f]; [cbn [length] in Hf; lia|].
    destruct rest as [|r0 [|r1 [|r2 [|r3 [|r4 [|? ?]]]]]]; try discriminate Hr.
    cbn [enc_loop length Nat.eqb].
    rewrite enc_read_step_rd by reflexivity. rewrite enc_read_step_rd by reflexivity.
    rewrite enc_read_step_skip by reflexivity.
    cbn [enc_read bind]. rewrite read_val2 by assumption.
    rewrite enc_write_4 by (try lia; change (2 ^ 24) with 16777216; lia). cbn [bind].
    cbn [Nat.ltb Nat.leb]. rewrite b64_spec_2 by assumption.
    unfold group_digits. cbn [firstn map repeat Nat.sub app].
    match goal with |- enc_loop _ _ _ _ (done ++ ?c0 :: ?c1 :: ?c2 :: ?c3 :: [r4]) _ _ = _ =>
      change (done ++ c0 :: c1 :: c2 :: c3 :: [r4]) with (done ++ [c0; c1; c2; c3] ++ [r4]);
      rewrite (app_assoc done [c0; c1; c2; c3] [r4])
    end.
    rewrite enc_loop_zero by (rewrite app_length; reflexivity).
    rewrite <- app_assoc. reflexivity.
  - (* a full group *)
    inversion Hb as [|? ? Ha Hb1]; subst. inversion Hb1 as [|? ? Hb2 Hb3]; subst.
    inversion Hb3 as [|? ? Hc Hr']; subst. unfold is_byte in Ha, Hb2, Hc.
    destruct fuel as [|f]; [cbn [length] in Hf; lia|].
    cbn [length] in Hr. rewrite b64len_3 in Hr.
    destruct rest as [|r0 [|r1 [|r2 [|r3 rest']]]]; try (cbn [length] in Hr; lia).
    cbn [enc_loop length Nat.eqb].
    rewrite enc_read_step_rd by reflexivity. rewrite enc_read_step_rd by reflexivity.
    rewrite enc_read_step_rd by reflexivity.
    cbn [enc_read bind]. rewrite read_val3 by assumption.
    rewrite enc_write_4 by (try lia; change (2 ^ 24) with 16777216; lia). cbn [bind].
    rewrite b64_spec_group by assumption.
    replace (if (S (S (S (length r))) <? 3)%nat then 0%nat else (S (S (S (length r))) - 3)%nat)
      with (length r) by (cbn [Nat.ltb Nat.leb Nat.sub]; lia).
    rewrite firstn_all2 by (cbn [group_digits length]; lia).
    cbn [Nat.sub repeat]. rewrite app_nil_r.
    rewrite (app_assoc done).
    replace (length done + 4)%nat
      with (length (done ++ map b64_char (group_digits (a * 65536 + b * 256 + c))))
      by (rewrite app_length; reflexivity).
    replace (pre ++ a :: b :: c :: r) with ((((pre ++ [a]) ++ [b]) ++ [c]) ++ r)
      by (rewrite <- !app_assoc; reflexivity).
    rewrite IH; [ rewrite <- !app_assoc; reflexivity | exact Hr' | cbn [length] in Hr; lia
                  | cbn [length] in Hf; lia ].
Qed.

(* M1: the encoder writes the RFC 4648 encoding and a NUL into an output object of exactly
   b64len(len) + 1 bytes, whatever it held before *)
Theorem b64encode_eq_rfc4648 bs out :
  bytes_ok bs -> length out = S (b64len (length bs)) ->
  b64encode_m b64chars bs out (length bs) = Ok (b64_spec bs ++ [0]).
Proof.
  intros Hb Ho. rewrite repo_b64chars_eq_rfc. fold tbl. unfold b64encode_m.
  apply (enc_loop_ok bs [] [] out (S (length bs)) Hb Ho). lia.
Qed.

(* ================= decoder ================= *)
(* ---- character facts, by a sweep over all byte values ---- *)
Definition digit_of_char (c : N) : N := match b64_index c with Some d => d | None => 0 end.

Definition dec_char_ok (c : N) : bool :=
  match strchr_tbl tbl c, b64_index c with
  | Some p, Some d => negb (c =? 0) && negb (c =? 61) && (N.land (N.of_nat p) 63 =? d) && (d <? 64)
  | Some p, None => ((c =? 61) && (N.land (N.of_nat p) 63 =? 0)) || (c =? 0)
  | None, None => negb (c =? 0) && negb (c =? 61)
  | None, Some _ => false
  end.

Lemma dec_char_sweep : forallb dec_char_ok (N_range 256) = true.
Proof. vm_compute. reflexivity. Qed.

Lemma char_valid c : c < 256 -> is_b64char c = true ->
  c <> 0 /\ c <> 61 /\ digit_of_char c < 64 /\
  exists p, strchr_tbl tbl c = Some p /\ N.land (N.of_nat p) 63 = digit_of_char c.
Proof.
  intros Hc Hv. pose proof (sweep_byte _ dec_char_sweep c Hc) as S.
  unfold dec_char_ok in S. unfold is_b64char in Hv. unfold digit_of_char.
  destruct (b64_index c) as [d|]; [|discriminate].
  destruct (strchr_tbl tbl c) as [p|]; [|discriminate].
  apply andb_true_iff in S. destruct S as [S S4]. apply andb_true_iff in S. destruct S as [S S3].
  apply andb_true_iff in S. destruct S as [S1 S2].
  apply negb_true_iff, N.eqb_neq in S1. apply negb_true_iff, N.eqb_neq in S2.
  apply N.eqb_eq in S3. apply N.ltb_lt in S4. repeat split; auto. exists p. split; auto.
Qed.

Lemma char_pad : is_b64char 61 = false /\ digit_of_char 61 = 0 /\
  exists p, strchr_tbl tbl 61 = Some p /\ N.land (N.of_nat p) 63 = 0.
Proof. split; [reflexivity|]. split; [reflexivity|]. vm_compute. eexists. split; reflexivity. Qed.

Lemma char_invalid c : c < 256 -> is_b64char c = false -> c <> 61 -> c = 0 \/ strchr_tbl tbl c = None.
Proof.
  intros Hc Hv Hp. pose proof (sweep_byte _ dec_char_sweep c Hc) as S.
  unfold dec_char_ok in S. unfold is_b64char in Hv.
  destruct (b64_index c) as [d|]; [discriminate|].
  destruct (strchr_tbl tbl c) as [p|]; [|right; reflexivity].
  apply orb_true_iff in S. destruct S as [S|S].
  - apply andb_true_iff in S. destruct S as [S _]. apply N.eqb_eq in S. contradiction.
  - left. apply N.eqb_eq in S. exact S.
Qed.

Lemma char_bits_valid c : c < 256 -> is_b64char c = true -> char_bits c = digit_bits (digit_of_char c).
Proof. intros _ Hv. unfold char_bits, digit_of_char, is_b64char in *. destruct (b64_index c); [reflexivity|discriminate]. Qed.

Lemma char_bits_pad : char_bits 61 = [].
Proof. reflexivity. Qed.

(* ---- the validity scan ---- *)
Fixpoint scan_spec (s : list N) (dead : N) : option N :=
  match s with
  | [] => Some dead
  | c :: r =>
    if c =? 61 then scan_spec r (dead + 1)
    else if is_b64char c && (dead =? 0) then scan_spec r dead
    else None
  end.

Lemma scan_model : forall suf pre dead,
  bytes_ok suf -> dead + N.of_nat (length suf) < 2 ^ 64 ->
  dec_scan tbl (pre ++ suf) (length pre) (length suf) dead = Ok (scan_spec suf dead).
Proof.
  induction suf as [|c r IH]; intros pre dead Hb Hd; [reflexivity|].
  inversion Hb as [|? ? Hc Hr]; subst. unfold is_byte in Hc.
  cbn [length dec_scan scan_spec]. rewrite rd_mid. cbn [bind].
  cbn [length] in Hd. rewrite Nat2N.inj_succ in Hd.
  assert (forall d, d + N.of_nat (length r) < 2 ^ 64 ->
            dec_scan tbl (pre ++ c :: r) (S (length pre)) (length r) d = Ok (scan_spec r d)) as Next.
  { intros d Hd'. specialize (IH (pre ++ [c]) d Hr Hd'). rewrite app_length in IH. cbn [length] in IH.
    rewrite <- app_assoc in IH. cbn [app] in IH. replace (S (length pre)) with (length pre + 1)%nat by lia.
    exact IH. }
  destruct (N.eqb_spec c 61) as [->|Hne].
  - (* '=' *)
    destruct char_pad as (_ & _ & p & Ep & _). rewrite Ep. cbn [N.eqb orb negb andb Pos.eqb].
    unfold u64. rewrite N.mod_small by lia.
    replace (0 <? dead + 1) with true by (symmetry; apply N.ltb_lt; lia). cbn [andb].
    apply Next. lia.
  - destruct (is_b64char c) eqn:Ev.
    + destruct (char_valid c Hc Ev) as (Hz & _ & _ & p & Ep & _). rewrite Ep.
      destruct (N.eqb_spec c 0) as [?|_]; [contradiction|]. cbn [orb negb andb].
      destruct (N.eqb_spec dead 0) as [->|Hd0].
      * cbn [N.ltb N.compare]. apply Next. lia.
      * replace (0 <? dead) with true by (symmetry; apply N.ltb_lt; lia). reflexivity.
    + cbn [andb]. destruct (char_invalid c Hc Ev Hne) as [->|En]; [reflexivity|].
      rewrite En. rewrite orb_true_r. reflexivity.
Qed.

Lemma scan_dead_pos : forall s d, 0 < d ->
  scan_spec s d = if forallb (fun c => c =? 61) s then Some (d + N.of_nat (length s)) else None.
Proof.
  induction s as [|c r IH]; intros d Hd.
  - cbn [scan_spec forallb length N.of_nat]. rewrite N.add_0_r. reflexivity.
  - cbn [scan_spec forallb length]. destruct (N.eqb_spec c 61) as [->|Hne].
    + rewrite IH by lia. cbn [andb]. destruct (forallb _ r); [|reflexivity].
      rewrite Nat2N.inj_succ. f_equal. lia.
    + replace (d =? 0) with false by (symmetry; apply N.eqb_neq; lia). rewrite andb_false_r. reflexivity.
Qed.

Lemma scan_wf : forall s, wf_tail s = true <-> exists k, scan_spec s 0 = Some k /\ k <= 2.
Proof.
  induction s as [|c r IH].
  - cbn. split; [intros _; exists 0; split; [reflexivity|lia] | reflexivity].
  - cbn [wf_tail scan_spec]. unfold pad_char. destruct (N.eqb_spec c 61) as [->|Hne].
    + rewrite scan_dead_pos by lia.
      destruct r as [|d [|e r']].
      * cbn. split; [intros _; exists 1; split; [reflexivity|lia] | reflexivity].
      * cbn [forallb length N.of_nat]. rewrite andb_true_r. destruct (d =? 61).
        -- split; [intros _; exists 2; split; [reflexivity|lia] | reflexivity].
        -- split; [discriminate | intros (k & H & _); discriminate].
      * split; [discriminate|]. intros (k & H & Hk). destruct (forallb _ _); [|discriminate].
        assert (k = 0 + 1 + N.of_nat (length (d :: e :: r'))) as -> by congruence.
        cbn [length] in Hk. rewrite !Nat2N.inj_succ in Hk. lia.
    + cbn [N.eqb]. rewrite andb_true_r. destruct (is_b64char c); cbn [andb]; [exact IH|].
      split; [discriminate | intros (k & H & _); discriminate].
Qed.

(* ---- wf_tail, Prop form ---- *)
Lemma find_idx_In c l : (exists p, find_idx c l = Some p) <-> In c l.
Proof.
  induction l as [|x r IH]; cbn [find_idx In].
  - split; [intros [p H]; discriminate | intros []].
  - destruct (N.eqb_spec x c) as [->|Hne].
    + split; [intros _; left; reflexivity | intros _; eexists; reflexivity].
    + split.
      * intros [p H]. right. apply IH. destruct (find_idx c r); [eexists; reflexivity | discriminate].
      * intros [H|H]; [congruence|]. apply IH in H. destruct H as [p H]. rewrite H. eexists; reflexivity.
Qed.

Lemma is_b64char_In c : is_b64char c = true <-> In c rfc4648_alphabet.
Proof.
  unfold is_b64char, b64_index. rewrite <- find_idx_In.
  destruct (find_idx c rfc4648_alphabet); cbn [option_map]; split; intros H;
    try reflexivity; try discriminate; eauto. destruct H; discriminate.
Qed.

Lemma wf_tail_body_pad body pad :
  Forall (fun c => In c rfc4648_alphabet) body ->
  (pad = [] \/ pad = [pad_char] \/ pad = [pad_char; pad_char]) -> wf_tail (body ++ pad) = true.
Proof.
  intros Hb Hp. induction Hb as [|c r Hc Hr IH].
  - destruct Hp as [->|[->| ->]]; reflexivity.
  - cbn [app wf_tail]. apply is_b64char_In in Hc.
    destruct (N.eqb_spec c pad_char) as [->|_]; [discriminate Hc|]. rewrite Hc, IH. reflexivity.
Qed.

Lemma wf_tail_split s : wf_tail s = true ->
  exists body pad, s = body ++ pad /\ Forall (fun c => In c rfc4648_alphabet) body /\
                   (pad = [] \/ pad = [pad_char] \/ pad = [pad_char; pad_char]).
Proof.
  induction s as [|c r IH]; intros H.
  - exists [], []. repeat split; auto.
  - cbn [wf_tail] in H. destruct (N.eqb_spec c pad_char) as [->|Hne].
    + destruct r as [|d [|? ?]]; try discriminate.
      * exists [], [pad_char]. repeat split; auto.
      * apply N.eqb_eq in H. subst. exists [], [pad_char; pad_char]. repeat split; auto.
    + apply andb_true_iff in H. destruct H as [Hc Hr]. destruct (IH Hr) as (body & pad & -> & Hb & Hp).
      exists (c :: body), pad. repeat split; auto. constructor; [apply is_b64char_In, Hc | exact Hb].
Qed.

Theorem wf_b64b_spec s : wf_b64b s = true <-> wf_b64 s.
Proof.
  unfold wf_b64b, wf_b64. rewrite andb_true_iff, Nat.eqb_eq. split.
  - intros [Hl Ht]. destruct (wf_tail_split s Ht) as (body & pad & E & Hb & Hp).
    exists body, pad. auto.
  - intros (body & pad & -> & Hl & Hb & Hp). split; [exact Hl | apply wf_tail_body_pad; assumption].
Qed.

(* ---- the 4 -> 3 conversion ---- *)
Definition quantum (c0 c1 c2 c3 : N) : N :=
  ((digit_of_char c0 * 64 + digit_of_char c1) * 64 + digit_of_char c2) * 64 + digit_of_char c3.
Definition bytes3 (t : N) : list N := [(t / 2 ^ 16) mod 256; (t / 2 ^ 8) mod 256; t mod 256].
Fixpoint dec_groups (s : list N) : list N :=
  match s with
  | c0 :: c1 :: c2 :: c3 :: r => bytes3 (quantum c0 c1 c2 c3) ++ dec_groups r
  | _ => []
  end.

(* a character that passed the scan: alphabet or '=' *)
Definition okc (c : N) : Prop := c < 256 /\ (is_b64char c = true \/ c = 61).

Lemma okc_lookup c : okc c ->
  digit_of_char c < 64 /\ exists p, strchr_tbl tbl c = Some p /\ N.land (N.of_nat p) 63 = digit_of_char c.
Proof.
  intros [Hc [Hv| ->]].
  - destruct (char_valid c Hc Hv) as (_ & _ & Hd & p & Ep & El). split; [exact Hd|]. exists p. auto.
  - destruct char_pad as (_ & Ed & p & Ep & El). rewrite Ed. split; [lia|]. exists p. auto.
Qed.

Lemma quantum_lt c0 c1 c2 c3 : okc c0 -> okc c1 -> okc c2 -> okc c3 -> quantum c0 c1 c2 c3 < 2 ^ 24.
Proof.
  intros H0 H1 H2 H3. apply okc_lookup in H0, H1, H2, H3.
  destruct H0 as [H0 _], H1 as [H1 _], H2 as [H2 _], H3 as [H3 _].
  unfold quantum. change (2 ^ 24) with 16777216. lia.
Qed.

Lemma parse_step t d : t * 64 + d < 2 ^ 32 -> u32 (u32 (N.shiftl t 6) + d) = t * 64 + d.
Proof.
  intros H. unfold u32. rewrite N.shiftl_mul_pow2. change (2 ^ 6) with 64.
  change (2 ^ 32) with 4294967296 in *. rewrite (N.mod_small (t * 64)) by lia. apply N.mod_small. lia.
Qed.

Lemma dec_parse4_ok pre c0 c1 c2 c3 suf :
  okc c0 -> okc c1 -> okc c2 -> okc c3 ->
  dec_parse4 tbl (pre ++ c0 :: c1 :: c2 :: c3 :: suf) (length pre) 0 4 0 = Ok (quantum c0 c1 c2 c3).
Proof.
  intros H0 H1 H2 H3. apply okc_lookup in H0, H1, H2, H3.
  destruct H0 as (D0 & p0 & E0 & L0), H1 as (D1 & p1 & E1 & L1),
           H2 as (D2 & p2 & E2 & L2), H3 as (D3 & p3 & E3 & L3).
  cbn [dec_parse4]. rewrite !rd_app_r. cbn [rd nth_error bind].
  rewrite E0, E1, E2, E3, L0, L1, L2, L3. f_equal.
  unfold quantum. change (2 ^ 32) with 4294967296 in *.
  rewrite (parse_step 0) by (change (2 ^ 32) with 4294967296; lia).
  rewrite (parse_step (0 * 64 + _)) by (change (2 ^ 32) with 4294967296; lia).
  rewrite (parse_step ((0 * 64 + _) * 64 + _)) by (change (2 ^ 32) with 4294967296; lia).
  rewrite (parse_step (((0 * 64 + _) * 64 + _) * 64 + _)) by (change (2 ^ 32) with 4294967296; lia).
  lia.
Qed.

Lemma bytes3_model t : t < 2 ^ 24 ->
  [N.land (N.shiftr t 16) 255; N.land (N.shiftr (u32 (N.shiftl t 8)) 16) 255;
   N.land (N.shiftr (u32 (N.shiftl (u32 (N.shiftl t 8)) 8)) 16) 255] = bytes3 t.
Proof.
  intros H. unfold bytes3, u32. rewrite !N.shiftr_div_pow2, !N.shiftl_mul_pow2.
  change 255 with (N.ones 8). rewrite !N.land_ones.
  change (2 ^ 24) with 16777216 in H. change (2 ^ 32) with 4294967296. change (2 ^ 16) with 65536.
  change (2 ^ 8) with 256.
  repeat (apply (f_equal2 (@cons N)); [lia|]). reflexivity.
Qed.

Lemma dec_out3_ok done r0 r1 r2 rest t :
  t < 2 ^ 24 ->
  dec_out3 (done ++ r0 :: r1 :: r2 :: rest) (length done) 0 3 t = Ok (done ++ bytes3 t ++ rest).
Proof.
  intros H. rewrite <- (bytes3_model t H).
  cbn [dec_out3]. rewrite wr_pre. cbn [wr bind]. rewrite wr_pre. cbn [wr bind]. rewrite wr_pre. cbn [wr bind].
  reflexivity.
Qed.

Lemma list_ind4 {A} (P : list A -> Prop) :
  P [] -> (forall l, (0 < length l < 4)%nat -> P l) ->
  (forall a b c d r, P r -> P (a :: b :: c :: d :: r)) -> forall l, P l.
Proof.
  intros H0 H1 H4 l.
  assert (forall n l, (length l <= n)%nat -> P l) as G.
  { induction n as [|n IH]; intros l' Hl.
    - destruct l'; [exact H0 | cbn in Hl; lia].
    - destruct l' as [|a [|b [|c [|d r]]]]; auto; try (apply H1; cbn [length]; lia).
      apply H4. apply IH. cbn [length] in Hl. lia. }
  apply (G (length l)). lia.
Qed.

Lemma len4_div n : (S (S (S (S n))) / 4 = S (n / 4))%nat.
Proof. replace (S (S (S (S n)))) with (n + 1 * 4)%nat by lia. rewrite Nat.div_add by lia. lia. Qed.
Lemma len4_mod n : (S (S (S (S n))) mod 4 = n mod 4)%nat.
Proof. replace (S (S (S (S n)))) with (n + 1 * 4)%nat by lia. apply Nat.mod_add. lia. Qed.

Lemma dec_groups_length : forall s, length (dec_groups s) = (3 * (length s / 4))%nat.
Proof.
  induction s as [|l Hl|a b c d r IH] using list_ind4.
  - reflexivity.
  - destruct l as [|a [|b [|c [|d r]]]]; cbn [length] in Hl; try lia; reflexivity.
  - cbn [dec_groups length]. rewrite app_length, IH, len4_div. cbn [bytes3 length]. lia.
Qed.

Lemma dec_loop_ok : forall s pre done rest fuel outlen,
  Forall okc s -> (length s mod 4 = 0)%nat -> length rest = (3 * (length s / 4))%nat ->
  (length s / 4 <= fuel)%nat -> N.of_nat (length s) < 2 ^ 64 ->
  outlen + 3 * N.of_nat (length s / 4) < 2 ^ 64 ->
  dec_loop tbl fuel (pre ++ s) (length pre) (done ++ rest) (length done) (N.of_nat (length s)) outlen =
  Ok (done ++ dec_groups s, outlen + 3 * N.of_nat (length s / 4)).
Proof.
  intros s. induction s as [|l Hl|c0 c1 c2 c3 r IH] using list_ind4;
    intros pre done rest fuel outlen Hok Hm Hr Hf Hn Ho.
  - destruct rest; [|discriminate Hr]. destruct fuel; cbn [dec_loop length N.of_nat N.eqb dec_groups];
      rewrite N.add_0_r; reflexivity.
  - exfalso. rewrite Nat.mod_small in Hm by lia. lia.
  - cbn [length] in *. rewrite len4_div in *. rewrite len4_mod in Hm.
    destruct fuel as [|f]; [lia|].
    destruct rest as [|r0 [|r1 [|r2 rest']]]; try (cbn [length] in Hr; lia).
    inversion Hok as [|? ? K0 Hok1]; subst. inversion Hok1 as [|? ? K1 Hok2]; subst.
    inversion Hok2 as [|? ? K2 Hok3]; subst. inversion Hok3 as [|? ? K3 Hok4]; subst.
    cbn [dec_loop]. rewrite !Nat2N.inj_succ in *.
    replace (N.succ (N.succ (N.succ (N.succ (N.of_nat (length r))))) =? 0) with false
      by (symmetry; apply N.eqb_neq; lia).
    rewrite dec_parse4_ok by assumption. cbn [bind].
    rewrite dec_out3_ok by (apply quantum_lt; assumption). cbn [bind].
    change (2 ^ 64) with 18446744073709551616 in *.
    replace (u64 (N.succ (N.succ (N.succ (N.succ (N.of_nat (length r))))) + 18446744073709551616 - 4))
      with (N.of_nat (length r)) by (unfold u64; change (2 ^ 64) with 18446744073709551616; lia).
    replace (u64 (outlen + 3)) with (outlen + 3) by (unfold u64; change (2 ^ 64) with 18446744073709551616; lia).
    replace (pre ++ c0 :: c1 :: c2 :: c3 :: r) with ((pre ++ [c0; c1; c2; c3]) ++ r)
      by (rewrite <- app_assoc; reflexivity).
    replace (length pre + 4)%nat with (length (pre ++ [c0; c1; c2; c3])) by (rewrite app_length; reflexivity).
    rewrite (app_assoc done).
    replace (length done + 3)%nat with (length (done ++ bytes3 (quantum c0 c1 c2 c3)))
      by (rewrite app_length; reflexivity).
    rewrite IH; try assumption; try lia.
    + cbn [dec_groups]. rewrite <- app_assoc. f_equal. f_equal. lia.
    + cbn [length] in Hr. lia.
Qed.

Lemma octets24 x0 x1 x2 x3 x4 x5 x6 x7 x8 x9 x10 x11 x12 x13 x14 x15 x16 x17 x18 x19 x20 x21 x22 x23 :
  [bits_val [x0; x1; x2; x3; x4; x5; x6; x7]; bits_val [x8; x9; x10; x11; x12; x13; x14; x15];
   bits_val [x16; x17; x18; x19; x20; x21; x22; x23]] =
  bytes3 (bits_val [x0; x1; x2; x3; x4; x5; x6; x7; x8; x9; x10; x11; x12; x13; x14; x15; x16; x17;
                    x18; x19; x20; x21; x22; x23]).
Proof.
  unfold bytes3.
  rewrite (bits_val_slice [] [x0; x1; x2; x3; x4; x5; x6; x7]
             [x8; x9; x10; x11; x12; x13; x14; x15; x16; x17; x18; x19; x20; x21; x22; x23]).
  rewrite (bits_val_slice [x0; x1; x2; x3; x4; x5; x6; x7] [x8; x9; x10; x11; x12; x13; x14; x15]
             [x16; x17; x18; x19; x20; x21; x22; x23]).
  rewrite (bits_val_slice [x0; x1; x2; x3; x4; x5; x6; x7; x8; x9; x10; x11; x12; x13; x14; x15]
             [x16; x17; x18; x19; x20; x21; x22; x23] []).
  cbn [app length]. rewrite N.div_1_r. reflexivity.
Qed.

(* the 24 bits of four digits have the value of the quantum *)
Lemma quantum_bits d0 d1 d2 d3 :
  d0 < 64 -> d1 < 64 -> d2 < 64 -> d3 < 64 ->
  bits_val (digit_bits d0 ++ digit_bits d1 ++ digit_bits d2 ++ digit_bits d3) = ((d0 * 64 + d1) * 64 + d2) * 64 + d3.
Proof.
  intros H0 H1 H2 H3. rewrite !bits_val_app, !bits_val_digit by assumption.
  rewrite !app_length. change (length (digit_bits d1)) with 6%nat. change (length (digit_bits d2)) with 6%nat.
  change (length (digit_bits d3)) with 6%nat.
  change (2 ^ N.of_nat (6 + (6 + 6))) with 262144. change (2 ^ N.of_nat (6 + 6)) with 4096.
  change (2 ^ N.of_nat 6) with 64. lia.
Qed.

Lemma digit_bits_0 : digit_bits 0 = [false; false; false; false; false; false].
Proof. reflexivity. Qed.

Lemma scan_valid_step c r : is_b64char c = true -> c <> 61 -> scan_spec (c :: r) 0 = scan_spec r 0.
Proof.
  intros Hv Hne. cbn [scan_spec]. destruct (N.eqb_spec c 61); [contradiction|]. rewrite Hv. reflexivity.
Qed.

Lemma groups_spec : forall s,
  bytes_ok s -> (length s mod 4 = 0)%nat -> wf_tail s = true ->
  forall dead, scan_spec s 0 = Some dead ->
  firstn (length (map bits_val (chunk8 (flat_map char_bits s)))) (dec_groups s) =
    map bits_val (chunk8 (flat_map char_bits s)) /\
  N.of_nat (length (map bits_val (chunk8 (flat_map char_bits s)))) + dead = 3 * N.of_nat (length s / 4).
Proof.
  intros s. induction s as [|l Hl|c0 c1 c2 c3 r IH] using list_ind4; intros Hb Hm Hw dead Hs.
  - cbn in Hs. inversion Hs; subst. split; reflexivity.
  - exfalso. rewrite Nat.mod_small in Hm by lia. lia.
  - cbn [length] in Hm. rewrite len4_mod in Hm. cbn [length]. rewrite len4_div.
    inversion Hb as [|? ? B0 Hb1]; subst. inversion Hb1 as [|? ? B1 Hb2]; subst.
    inversion Hb2 as [|? ? B2 Hb3]; subst. inversion Hb3 as [|? ? B3 Hb4]; subst.
    unfold is_byte in B0, B1, B2, B3.
    cbn [wf_tail] in Hw. unfold pad_char in Hw.
    destruct (N.eqb_spec c0 61) as [->|N0]; [discriminate Hw|].
    apply andb_true_iff in Hw. destruct Hw as [V0 Hw].
    destruct (N.eqb_spec c1 61) as [->|N1]; [discriminate Hw|].
    apply andb_true_iff in Hw. destruct Hw as [V1 Hw].
    destruct (char_valid c0 B0 V0) as (_ & _ & D0 & _). destruct (char_valid c1 B1 V1) as (_ & _ & D1 & _).
    rewrite scan_valid_step in Hs by assumption. rewrite scan_valid_step in Hs by assumption.
    cbn [flat_map]. rewrite (char_bits_valid c0 B0 V0), (char_bits_valid c1 B1 V1).
    pose proof (quantum_bits (digit_of_char c0) (digit_of_char c1)) as Q.
    destruct (digit_bits_shape (digit_of_char c0)) as (a5 & a4 & a3 & a2 & a1 & a0 & E0).
    destruct (digit_bits_shape (digit_of_char c1)) as (b5 & b4 & b3 & b2 & b1 & b0 & E1).
    destruct (N.eqb_spec c2 61) as [->|N2].
    + (* "xy==" : one byte *)
      destruct r as [|? ?]; [|destruct c3; discriminate Hw].
      apply N.eqb_eq in Hw. subst c3.
      cbn in Hs. assert (dead = 2) as -> by congruence.
      specialize (Q 0 0 D0 D1 ltac:(lia) ltac:(lia)). rewrite digit_bits_0 in Q. rewrite E0, E1 in *.
      rewrite !char_bits_pad. cbn [flat_map app chunk8 map length dec_groups].
      change (digit_of_char 61) with 0 in *.
      pose proof (octets24 a5 a4 a3 a2 a1 a0 b5 b4 b3 b2 b1 b0 false false false false false false
                           false false false false false false) as O.
      cbn [app] in Q. rewrite Q in O. unfold quantum. change (digit_of_char 61) with 0.
      rewrite <- O. split; [reflexivity | cbn; lia].
    + apply andb_true_iff in Hw. destruct Hw as [V2 Hw].
      destruct (char_valid c2 B2 V2) as (_ & _ & D2 & _).
      rewrite scan_valid_step in Hs by assumption.
      rewrite (char_bits_valid c2 B2 V2).
      destruct (digit_bits_shape (digit_of_char c2)) as (e5 & e4 & e3 & e2 & e1 & e0 & E2).
      destruct (N.eqb_spec c3 61) as [->|N3].
      * (* "xyz=" : two bytes *)
        destruct r as [|d r']; [|destruct r'; [|discriminate Hw]].
        2:{ cbn [length] in Hm. discriminate Hm. }
        cbn in Hs. assert (dead = 1) as -> by congruence.
        specialize (Q (digit_of_char c2) 0 D0 D1 D2 ltac:(lia)). rewrite digit_bits_0 in Q. rewrite E0, E1, E2 in *.
        rewrite !char_bits_pad. cbn [flat_map app chunk8 map length dec_groups].
        pose proof (octets24 a5 a4 a3 a2 a1 a0 b5 b4 b3 b2 b1 b0 e5 e4 e3 e2 e1 e0
                             false false false false false false) as O.
        cbn [app] in Q. rewrite Q in O. unfold quantum. change (digit_of_char 61) with 0.
        rewrite <- O. split; [reflexivity | cbn; lia].
      * (* a full group *)
        apply andb_true_iff in Hw. destruct Hw as [V3 Hw].
        destruct (char_valid c3 B3 V3) as (_ & _ & D3 & _).
        rewrite scan_valid_step in Hs by assumption.
        rewrite (char_bits_valid c3 B3 V3).
        destruct (digit_bits_shape (digit_of_char c3)) as (f5 & f4 & f3 & f2 & f1 & f0 & E3).
        specialize (Q (digit_of_char c2) (digit_of_char c3) D0 D1 D2 D3). rewrite E0, E1, E2, E3 in *.
        destruct (IH Hb4 Hm Hw dead Hs) as [I1 I2].
        cbn [app chunk8 map length dec_groups].
        pose proof (octets24 a5 a4 a3 a2 a1 a0 b5 b4 b3 b2 b1 b0 e5 e4 e3 e2 e1 e0 f5 f4 f3 f2 f1 f0) as O.
        cbn [app] in Q. rewrite Q in O. fold (quantum c0 c1 c2 c3) in O.
        split.
        -- rewrite <- O. cbn [app firstn]. rewrite I1. reflexivity.
        -- rewrite !Nat2N.inj_succ. lia.
Qed.

Lemma wf_tail_okc : forall s, bytes_ok s -> wf_tail s = true -> Forall okc s.
Proof.
  induction s as [|c r IH]; intros Hb Hw; [constructor|].
  inversion Hb as [|? ? Hc Hr]; subst. unfold is_byte in Hc.
  cbn [wf_tail] in Hw. unfold pad_char in Hw. destruct (N.eqb_spec c 61) as [->|Hne].
  - destruct r as [|d [|? ?]]; try discriminate Hw.
    + constructor; [split; [lia | right; reflexivity] | constructor].
    + apply N.eqb_eq in Hw. subst d.
      constructor; [split; [lia | right; reflexivity]|].
      constructor; [split; [lia | right; reflexivity] | constructor].
  - apply andb_true_iff in Hw. destruct Hw as [Hv Hw].
    constructor; [split; [exact Hc | left; exact Hv] | apply IH; assumption].
Qed.

(* the model of b64decode on an input object of exactly |s| bytes and an output object of exactly
   (|s|/4)*3 bytes: never a Fault; rejects exactly when the spec rejects; on acceptance the
   object has kept its size, outlen = number of decoded bytes and the first outlen bytes are the
   decoded bytes *)
Theorem b64decode_model_spec s out :
  bytes_ok s -> N.of_nat (length s) < 2 ^ 64 -> length out = b64declen (length s) ->
  match b64decode_spec s with
  | None => b64decode_m b64chars s (length s) out = Ok None
  | Some bs =>
    exists out', b64decode_m b64chars s (length s) out = Ok (Some (out', N.of_nat (length bs))) /\
                 length out' = length out /\ firstn (length bs) out' = bs /\ (length bs <= length out)%nat
  end.
Proof.
  intros Hb Hn Ho. rewrite repo_b64chars_eq_rfc. fold tbl.
  unfold b64decode_m, b64decode_spec, wf_b64b.
  destruct (Nat.eqb_spec (length s mod 4) 0) as [Hm|Hm]; cbn [negb andb]; [|reflexivity].
  pose proof (scan_model s [] 0 Hb) as Hs. cbn [app length] in Hs. rewrite Hs by lia. cbn [bind].
  destruct (scan_spec s 0) as [dead|] eqn:Es.
  2:{ destruct (wf_tail s) eqn:Ew; [|reflexivity]. apply scan_wf in Ew. destruct Ew as (k & Ek & _). congruence. }
  destruct (N.ltb_spec 2 dead) as [Hd|Hd].
  { destruct (wf_tail s) eqn:Ew; [|reflexivity]. apply scan_wf in Ew. destruct Ew as (k & Ek & Hk).
    assert (k = dead) by congruence. subst k. lia. }
  assert (wf_tail s = true) as Ew by (apply scan_wf; exists dead; auto).
  rewrite Ew.
  destruct (groups_spec s Hb Hm Ew dead Es) as [G1 G2].
  set (bs := map bits_val (chunk8 (flat_map char_bits s))) in *.
  unfold b64declen in Ho.
  pose proof (dec_loop_ok s [] [] out (S (length s)) 0 (wf_tail_okc s Hb Ew) Hm) as L.
  cbn [app length] in L.
  assert (3 * (length s / 4) <= length s)%nat as H34
    by (pose proof (Nat.div_mod (length s) 4 ltac:(lia)); lia).
  change (2 ^ 64) with 18446744073709551616 in *.
  rewrite L by lia.
  cbn [bind]. exists (dec_groups s).
  assert (length (dec_groups s) = length out) as Lo by (rewrite dec_groups_length; lia).
  repeat split; try assumption.
  - f_equal. f_equal. f_equal. unfold u64. change (2 ^ 64) with 18446744073709551616 in *.
    rewrite <- G2. replace (0 + (N.of_nat (length bs) + dead) + 18446744073709551616 - dead)
      with (N.of_nat (length bs) + 18446744073709551616) by lia.
    replace (N.of_nat (length bs) + 18446744073709551616) with (N.of_nat (length bs) + 1 * 18446744073709551616) by lia.
    rewrite N.mod_add by lia. apply N.mod_small. lia.
  - rewrite <- Lo. rewrite dec_groups_length. lia.
Qed.

(* C15: for every input no Fault, writes stay inside the (inlen/4)*3 object, outlen within it *)
Theorem b64decode_no_fault s out :
  bytes_ok s -> N.of_nat (length s) < 2 ^ 64 -> length out = b64declen (length s) ->
  exists r, b64decode_m b64chars s (length s) out = Ok r /\
            match r with
            | None => True
            | Some (out', n) => length out' = length out /\ n <= N.of_nat (length out)
            end.
Proof.
  intros Hb Hn Ho. pose proof (b64decode_model_spec s out Hb Hn Ho) as H.
  destruct (b64decode_spec s) as [bs|].
  - destruct H as (out' & E & L & _ & Hl). exists (Some (out', N.of_nat (length bs))). split; [exact E|].
    split; [exact L | lia].
  - exists None. split; [exact H | exact I].
Qed.

(* the decoder accepts exactly the well-formed strings *)
Theorem b64decode_accepts_iff s out :
  bytes_ok s -> N.of_nat (length s) < 2 ^ 64 -> length out = b64declen (length s) ->
  ((exists r, b64decode_m b64chars s (length s) out = Ok (Some r)) <-> wf_b64 s).
Proof.
  intros Hb Hn Ho. pose proof (b64decode_model_spec s out Hb Hn Ho) as H.
  rewrite <- wf_b64b_spec. unfold b64decode_spec in H. destruct (wf_b64b s).
  - destruct H as (out' & E & _). split; [reflexivity | intros _; eexists; exact E].
  - split; [intros [r E]; rewrite H in E; discriminate | discriminate].
Qed.

(* ---- decoding inverts encoding (spec level) ---- *)
Definition b64_char_ok (d : N) : bool :=
  match b64_index (b64_char d) with
  | Some d' => (d' =? d) && negb (b64_char d =? 61) && negb (b64_char d =? 0) && (b64_char d <? 256)
  | None => false
  end.
Lemma b64_char_sweep : forallb b64_char_ok (N_range 64) = true.
Proof. vm_compute. reflexivity. Qed.
Lemma b64_char_facts d : d < 64 ->
  b64_index (b64_char d) = Some d /\ b64_char d <> 61 /\ b64_char d <> 0 /\ b64_char d < 256.
Proof.
  intros H. pose proof (sweep_N _ 64 b64_char_sweep d H) as S. unfold b64_char_ok in S.
  destruct (b64_index (b64_char d)) as [d'|]; [|discriminate].
  apply andb_true_iff in S. destruct S as [S S4]. apply andb_true_iff in S. destruct S as [S S3].
  apply andb_true_iff in S. destruct S as [S1 S2].
  apply N.eqb_eq in S1. subst d'. apply negb_true_iff, N.eqb_neq in S2. apply negb_true_iff, N.eqb_neq in S3.
  apply N.ltb_lt in S4. auto.
Qed.

Lemma char_bits_b64_char d : d < 64 -> char_bits (b64_char d) = digit_bits d.
Proof. intros H. unfold char_bits. destruct (b64_char_facts d H) as [E _]. rewrite E. reflexivity. Qed.

Lemma is_b64char_b64_char d : d < 64 -> is_b64char (b64_char d) = true.
Proof. intros H. unfold is_b64char. destruct (b64_char_facts d H) as [E _]. rewrite E. reflexivity. Qed.

Lemma wf_tail_cons_char d r : d < 64 -> wf_tail (b64_char d :: r) = wf_tail r.
Proof.
  intros H. cbn [wf_tail]. destruct (b64_char_facts d H) as (_ & Hne & _).
  unfold pad_char. destruct (N.eqb_spec (b64_char d) 61); [contradiction|].
  rewrite is_b64char_b64_char by exact H. reflexivity.
Qed.

Lemma bits6_lt x0 x1 x2 x3 x4 x5 : bits_val [x0; x1; x2; x3; x4; x5] < 64.
Proof. apply (bits_val_bound [x0; x1; x2; x3; x4; x5]). Qed.

(* what the characters of one encoded group contribute to the decoder's bit string *)
Lemma char_bits_sextet x0 x1 x2 x3 x4 x5 :
  char_bits (b64_char (bits_val [x0; x1; x2; x3; x4; x5])) = [x0; x1; x2; x3; x4; x5].
Proof. rewrite char_bits_b64_char by apply bits6_lt. apply digit_bits_val. Qed.

(* the properties of an encoding, group by group *)
Record enc_facts (bs : list N) : Prop := {
  ef_wf : wf_tail (b64_spec bs) = true;
  ef_len : length (b64_spec bs) = b64len (length bs);
  ef_dec : map bits_val (chunk8 (flat_map char_bits (b64_spec bs))) = bs;
  ef_bytes : bytes_ok (b64_spec bs);
  ef_nonul : no_nul (b64_spec bs)
}.

Lemma byte3_value a b c : a < 256 -> b < 256 -> c < 256 ->
  bits_val (byte_bits a ++ byte_bits b ++ byte_bits c) = a * 65536 + b * 256 + c.
Proof.
  intros Ha Hb Hc. rewrite !bits_val_app, !bits_val_byte by assumption.
  rewrite app_length. change (length (byte_bits b)) with 8%nat. change (length (byte_bits c)) with 8%nat.
  change (2 ^ N.of_nat (8 + 8)) with 65536. change (2 ^ N.of_nat 8) with 256. lia.
Qed.

Lemma enc_facts_all : forall bs, bytes_ok bs -> enc_facts bs.
Proof.
  intros bs. induction bs as [|a|a b|a b c r IH] using list_ind3; intros Hb.
  - constructor; try reflexivity; constructor.
  - inversion Hb as [|? ? Ha _]; subst. unfold is_byte in Ha.
    pose proof (byte3_value a 0 0 Ha ltac:(lia) ltac:(lia)) as V.
    replace (a * 65536 + 0 * 256 + 0) with (a * 65536) in V by lia.
    pose proof (bits_val_byte a Ha) as Va.
    destruct (byte_bits_shape a) as (a7 & a6 & a5 & a4 & a3 & a2 & a1 & a0 & Ea).
    rewrite Ea in *. change (byte_bits 0) with (repeat false 8) in V. cbn [app repeat] in V.
    pose proof (b64_spec_1 a Ha) as E. rewrite <- V in E. rewrite <- sextets24 in E. cbn [firstn map app] in E.
    pose proof (bits6_lt a7 a6 a5 a4 a3 a2) as L0. pose proof (bits6_lt a1 a0 false false false false) as L1.
    destruct (b64_char_facts _ L0) as (_ & P0 & Z0 & B0). destruct (b64_char_facts _ L1) as (_ & P1 & Z1 & B1).
    constructor; rewrite E.
    + rewrite !wf_tail_cons_char by assumption. reflexivity.
    + reflexivity.
    + cbn [flat_map]. unfold pad_char. rewrite !char_bits_sextet, !char_bits_pad. cbn [app chunk8 map]. rewrite Va. reflexivity.
    + repeat constructor; unfold is_byte, pad_char; try assumption; lia.
    + repeat constructor; unfold pad_char; try assumption; lia.
  - inversion Hb as [|? ? Ha Hb']; subst. inversion Hb' as [|? ? Hb2 _]; subst. unfold is_byte in Ha, Hb2.
    pose proof (byte3_value a b 0 Ha Hb2 ltac:(lia)) as V.
    replace (a * 65536 + b * 256 + 0) with (a * 65536 + b * 256) in V by lia.
    pose proof (bits_val_byte a Ha) as Va. pose proof (bits_val_byte b Hb2) as Vb.
    destruct (byte_bits_shape a) as (a7 & a6 & a5 & a4 & a3 & a2 & a1 & a0 & Ea).
    destruct (byte_bits_shape b) as (b7 & b6 & b5 & b4 & b3 & b2 & b1 & b0 & Eb).
    rewrite Ea, Eb in *. change (byte_bits 0) with (repeat false 8) in V. cbn [app repeat] in V.
    pose proof (b64_spec_2 a b Ha Hb2) as E. rewrite <- V in E. rewrite <- sextets24 in E. cbn [firstn map app] in E.
    pose proof (bits6_lt a7 a6 a5 a4 a3 a2) as L0. pose proof (bits6_lt a1 a0 b7 b6 b5 b4) as L1.
    pose proof (bits6_lt b3 b2 b1 b0 false false) as L2.
    destruct (b64_char_facts _ L0) as (_ & P0 & Z0 & B0). destruct (b64_char_facts _ L1) as (_ & P1 & Z1 & B1).
    destruct (b64_char_facts _ L2) as (_ & P2 & Z2 & B2).
    constructor; rewrite E.
    + rewrite !wf_tail_cons_char by assumption. reflexivity.
    + reflexivity.
    + cbn [flat_map]. unfold pad_char. rewrite !char_bits_sextet, !char_bits_pad. cbn [app chunk8 map]. rewrite Va, Vb. reflexivity.
    + repeat constructor; unfold is_byte, pad_char; try assumption; lia.
    + repeat constructor; unfold pad_char; try assumption; lia.
  - inversion Hb as [|? ? Ha Hb1]; subst. inversion Hb1 as [|? ? Hb2 Hb3]; subst.
    inversion Hb3 as [|? ? Hc Hr]; subst. unfold is_byte in Ha, Hb2, Hc.
    destruct (IH Hr) as [I1 I2 I3 I4 I5].
    pose proof (byte3_value a b c Ha Hb2 Hc) as V.
    pose proof (bits_val_byte a Ha) as Va. pose proof (bits_val_byte b Hb2) as Vb.
    pose proof (bits_val_byte c Hc) as Vc.
    destruct (byte_bits_shape a) as (a7 & a6 & a5 & a4 & a3 & a2 & a1 & a0 & Ea).
    destruct (byte_bits_shape b) as (b7 & b6 & b5 & b4 & b3 & b2 & b1 & b0 & Eb).
    destruct (byte_bits_shape c) as (c7 & c6 & c5 & c4 & c3 & c2 & c1 & c0 & Ec).
    rewrite Ea, Eb, Ec in *. cbn [app] in V.
    pose proof (b64_spec_group a b c r Ha Hb2 Hc) as E. rewrite <- V in E. rewrite <- sextets24 in E.
    cbn [map app] in E.
    pose proof (bits6_lt a7 a6 a5 a4 a3 a2) as L0. pose proof (bits6_lt a1 a0 b7 b6 b5 b4) as L1.
    pose proof (bits6_lt b3 b2 b1 b0 c7 c6) as L2. pose proof (bits6_lt c5 c4 c3 c2 c1 c0) as L3.
    destruct (b64_char_facts _ L0) as (_ & P0 & Z0 & B0). destruct (b64_char_facts _ L1) as (_ & P1 & Z1 & B1).
    destruct (b64_char_facts _ L2) as (_ & P2 & Z2 & B2). destruct (b64_char_facts _ L3) as (_ & P3 & Z3 & B3).
    constructor; rewrite E.
    + rewrite !wf_tail_cons_char by assumption. exact I1.
    + cbn [length]. rewrite I2, b64len_3. lia.
    + cbn [flat_map]. rewrite !char_bits_sextet. cbn [app chunk8 map]. rewrite Va, Vb, Vc, I3. reflexivity.
    + repeat (constructor; [assumption|]). exact I4.
    + repeat (constructor; [assumption|]). exact I5.
Qed.

Theorem b64decode_spec_encode bs : bytes_ok bs -> b64decode_spec (b64_spec bs) = Some bs.
Proof.
  intros Hb. destruct (enc_facts_all bs Hb) as [I1 I2 I3 _ _].
  unfold b64decode_spec, wf_b64b. rewrite I1, I2, I3.
  replace (b64len (length bs) mod 4)%nat with 0%nat; [reflexivity|].
  unfold b64len. symmetry. apply Nat.mod_mul. lia.
Qed.

(* M1: encode with the model, hand the string (without its NUL) to the model of the decoder:
   the original bytes come back *)
Theorem b64decode_encode bs out1 out2 :
  bytes_ok bs -> N.of_nat (b64len (length bs)) < 2 ^ 64 ->
  length out1 = S (b64len (length bs)) -> length out2 = b64declen (b64len (length bs)) ->
  exists enc out',
    b64encode_m b64chars bs out1 (length bs) = Ok (enc ++ [0]) /\ no_nul enc /\
    b64decode_m b64chars enc (length enc) out2 = Ok (Some (out', N.of_nat (length bs))) /\
    firstn (length bs) out' = bs.
Proof.
  intros Hb Hn H1 H2. destruct (enc_facts_all bs Hb) as [I1 I2 I3 I4 I5].
  exists (b64_spec bs). rewrite b64encode_eq_rfc4648 by assumption.
  pose proof (b64decode_model_spec (b64_spec bs) out2 I4) as D. rewrite I2 in D.
  specialize (D Hn H2). rewrite b64decode_spec_encode in D by exact Hb.
  destruct D as (out' & E & _ & F & _). exists out'. rewrite I2. auto.
Qed.

(* non-vacuity *)
Example b64_example_foob :
  b64encode_m b64chars [102; 111; 111; 98] (repeat 170 9) 4 = Ok [90; 109; 57; 118; 89; 103; 61; 61; 0] /\
  b64decode_m b64chars [90; 109; 57; 118; 89; 103; 61; 61] 8 (repeat 170 6) = Ok (Some ([102; 111; 111; 98; 0; 0], 4)).
Proof. split; vm_compute; reflexivity. Qed.
Example b64_example_trailing_bits :   (* "QR==" decodes to "A"; the trailing bits of 'R' are dropped *)
  b64decode_spec [81; 82; 61; 61] = Some [65] /\ wf_b64 [81; 82; 61; 61].
Proof. split; [vm_compute; reflexivity | apply wf_b64b_spec; vm_compute; reflexivity]. Qed.
Example b64_example_rejects :
  b64decode_m b64chars [65; 61; 61; 61] 4 (repeat 170 3) = Ok None /\
  b64decode_m b64chars [65; 65; 61; 65] 4 (repeat 170 3) = Ok None /\
  b64decode_m b64chars [65; 65; 65] 3 [] = Ok None /\
  b64decode_m b64chars [65; 65; 65; 0] 4 (repeat 170 3) = Ok None.
Proof. repeat split; vm_compute; reflexivity. Qed.
Example b64_example_rfc_vector :       (* RFC 4648 section 10: BASE64("foobar") = "Zm9vYmFy" *)
  b64_spec [102; 111; 111; 98; 97; 114] = [90; 109; 57; 118; 89; 109; 70; 121].
Proof. vm_compute. reflexivity. Qed.

(* C15: the encoder stays inside its input and inside the b64len(len)+1 bytes of its output *)
Theorem b64encode_no_fault bs out :
  bytes_ok bs -> length out = S (b64len (length bs)) ->
  exists r, b64encode_m b64chars bs out (length bs) = Ok r /\ length r = length out.
Proof.
  intros Hb Ho. exists (b64_spec bs ++ [0]). split; [apply b64encode_eq_rfc4648; assumption|].
  destruct (enc_facts_all bs Hb) as [_ L _ _ _]. rewrite app_length, L, Ho. cbn [length]. lia.
Qed.
