(* util/b64encode.c: the model equals the RFC 4648 spec, decoding inverts encoding, the decoder
   accepts exactly the well-formed encodings, and neither routine leaves its input or the output
   space its contract names. *)
From Coq Require Import Arith NArith ZArith List Lia Bool.
From LCP Require Import Base.CheckedMem Base.Sweep Util.EndianMem Util.EndianMemProofs Util.B64
  Gen.Repo_codec.
Import ListNotations.
Local Open Scope N_scope.
Ltac Zify.zify_post_hook ::= Z.to_euclidean_division_equations.

(* ---------------- the regenerated table is the RFC alphabet followed by '=' ---------------- *)
Lemma repo_b64chars_eq_rfc : b64chars = rfc4648_alphabet ++ [pad_char].
Proof. vm_compute. reflexivity. Qed.

Definition tbl : list N := rfc4648_alphabet ++ [pad_char].

(* ---------------- bit strings ---------------- *)
Definition bstep (acc : N) (b : bool) : N := 2 * acc + (if b then 1 else 0).

Lemma bits_fold_acc l acc :
  fold_left bstep l acc = acc * 2 ^ N.of_nat (length l) + fold_left bstep l 0.
Proof.
  revert acc. induction l as [|b l IH]; intros acc.
  - cbn [fold_left length N.of_nat]. rewrite N.pow_0_r. lia.
  - cbn [fold_left length]. rewrite (IH (bstep acc b)), (IH (bstep 0 b)).
    rewrite Nat2N.inj_succ, N.pow_succ_r'. unfold bstep. destruct b; lia.
Qed.

Lemma bits_val_app l1 l2 :
  bits_val (l1 ++ l2) = bits_val l1 * 2 ^ N.of_nat (length l2) + bits_val l2.
Proof. unfold bits_val. fold bstep. rewrite fold_left_app. apply bits_fold_acc. Qed.

Lemma bits_val_bound l : bits_val l < 2 ^ N.of_nat (length l).
Proof.
  induction l as [|b l IH] using rev_ind.
  - cbn. lia.
  - rewrite bits_val_app, app_length. cbn [length]. replace (length l + 1)%nat with (S (length l)) by lia.
    rewrite Nat2N.inj_succ, N.pow_succ_r'.
    change (2 ^ N.of_nat 1) with 2. assert (bits_val [b] < 2) by (destruct b; cbn; lia).
    set (p := 2 ^ N.of_nat (length l)) in *. lia.
Qed.

Lemma bits_val_slice l1 l2 l3 :
  bits_val l2 = (bits_val (l1 ++ l2 ++ l3) / 2 ^ N.of_nat (length l3)) mod 2 ^ N.of_nat (length l2).
Proof.
  rewrite !bits_val_app.
  pose proof (bits_val_bound l2) as B2. pose proof (bits_val_bound l3) as B3.
  assert (2 ^ N.of_nat (length l3) <> 0) as P3 by (apply N.pow_nonzero; lia).
  assert (2 ^ N.of_nat (length l2) <> 0) as P2 by (apply N.pow_nonzero; lia).
  rewrite app_length, Nat2N.inj_add, N.pow_add_r.
  replace (bits_val l1 * (2 ^ N.of_nat (length l2) * 2 ^ N.of_nat (length l3)) +
           (bits_val l2 * 2 ^ N.of_nat (length l3) + bits_val l3))
    with ((bits_val l1 * 2 ^ N.of_nat (length l2) + bits_val l2) * 2 ^ N.of_nat (length l3) + bits_val l3)
    by lia.
  rewrite N.div_add_l by exact P3. rewrite (N.div_small _ _ B3), N.add_0_r.
  rewrite N.add_comm, N.mod_add by exact P2. symmetry. apply N.mod_small, B2.
Qed.

Lemma bits_val_byte b : b < 256 -> bits_val (byte_bits b) = b.
Proof.
  intros H.
  assert (forallb (fun b => bits_val (byte_bits b) =? b) (N_range 256) = true) as S by (vm_compute; reflexivity).
  apply N.eqb_eq. apply (sweep_byte _ S b H).
Qed.

Lemma bits_val_digit d : d < 64 -> bits_val (digit_bits d) = d.
Proof.
  intros H.
  assert (forallb (fun d => bits_val (digit_bits d) =? d) (N_range 64) = true) as S by (vm_compute; reflexivity).
  apply N.eqb_eq. apply (sweep_N _ 64 S d H).
Qed.

Lemma byte_bits_shape b : exists x7 x6 x5 x4 x3 x2 x1 x0, byte_bits b = [x7; x6; x5; x4; x3; x2; x1; x0].
Proof. unfold byte_bits. cbn [map]. repeat eexists. Qed.

Lemma digit_bits_shape d : exists x5 x4 x3 x2 x1 x0, digit_bits d = [x5; x4; x3; x2; x1; x0].
Proof. unfold digit_bits. cbn [map]. repeat eexists. Qed.

Lemma byte_bits_val x7 x6 x5 x4 x3 x2 x1 x0 :
  byte_bits (bits_val [x7; x6; x5; x4; x3; x2; x1; x0]) = [x7; x6; x5; x4; x3; x2; x1; x0].
Proof. destruct x7, x6, x5, x4, x3, x2, x1, x0; vm_compute; reflexivity. Qed.

Lemma digit_bits_val x5 x4 x3 x2 x1 x0 :
  digit_bits (bits_val [x5; x4; x3; x2; x1; x0]) = [x5; x4; x3; x2; x1; x0].
Proof. destruct x5, x4, x3, x2, x1, x0; vm_compute; reflexivity. Qed.

(* the four 6-bit digits of a 24-bit quantum *)
Definition group_digits (t : N) : list N :=
  [(t / 2 ^ 18) mod 64; (t / 2 ^ 12) mod 64; (t / 2 ^ 6) mod 64; t mod 64].

Lemma sextets24 x0 x1 x2 x3 x4 x5 x6 x7 x8 x9 x10 x11 x12 x13 x14 x15 x16 x17 x18 x19 x20 x21 x22 x23 :
  [bits_val [x0; x1; x2; x3; x4; x5]; bits_val [x6; x7; x8; x9; x10; x11];
   bits_val [x12; x13; x14; x15; x16; x17]; bits_val [x18; x19; x20; x21; x22; x23]] =
  group_digits (bits_val [x0; x1; x2; x3; x4; x5; x6; x7; x8; x9; x10; x11; x12; x13; x14; x15; x16; x17;
                          x18; x19; x20; x21; x22; x23]).
Proof.
  unfold group_digits.
  rewrite (bits_val_slice [] [x0; x1; x2; x3; x4; x5]
             [x6; x7; x8; x9; x10; x11; x12; x13; x14; x15; x16; x17; x18; x19; x20; x21; x22; x23]).
  rewrite (bits_val_slice [x0; x1; x2; x3; x4; x5] [x6; x7; x8; x9; x10; x11]
             [x12; x13; x14; x15; x16; x17; x18; x19; x20; x21; x22; x23]).
  rewrite (bits_val_slice [x0; x1; x2; x3; x4; x5; x6; x7; x8; x9; x10; x11] [x12; x13; x14; x15; x16; x17]
             [x18; x19; x20; x21; x22; x23]).
  rewrite (bits_val_slice [x0; x1; x2; x3; x4; x5; x6; x7; x8; x9; x10; x11; x12; x13; x14; x15; x16; x17]
             [x18; x19; x20; x21; x22; x23] []).
  cbn [app length]. rewrite N.div_1_r. reflexivity.
Qed.
