(* SPEC for the humansize half of C16, from the documentation in util/humansize.h:
   - humansize_parse accepts exactly  digit+ ' '? [kMGTPE]? 'B'?  with value n * 1000^k, provided
     that value is below 2^64;
   - humansize(n) is the largest value <= n that one of the documented output forms denotes,
     printed in that form. *)
From Coq Require Import NArith ZArith List Bool.
Import ListNotations.
Local Open Scope Z_scope.

(* ---- the input language ---- *)
Definition is_digit (c : N) : bool := ((48 <=? c) && (c <=? 57))%N.

Fixpoint span_digits (s : list N) : list N * list N :=
  match s with
  | c :: r => if is_digit c then let (ds, rest) := span_digits r in (c :: ds, rest) else ([], s)
  | [] => ([], [])
  end.

Definition dec_value (ds : list N) : Z := fold_left (fun a c => a * 10 + (Z.of_N c - 48)) ds 0.

(* k M G T P E *)
Definition prefix_exp (c : N) : option Z :=
  if (c =? 107)%N then Some 1 else if (c =? 77)%N then Some 2 else if (c =? 71)%N then Some 3
  else if (c =? 84)%N then Some 4 else if (c =? 80)%N then Some 5 else if (c =? 69)%N then Some 6
  else None.

Definition opt_char (ch : N) (s : list N) : list N :=
  match s with c :: r => if (c =? ch)%N then r else s | [] => s end.

Definition opt_prefix (s : list N) : Z * list N :=
  match s with
  | c :: r => match prefix_exp c with Some k => (k, r) | None => (0, s) end
  | [] => (0, s)
  end.

Definition hs_parse_spec (s : list N) : option Z :=
  let (ds, r1) := span_digits s in
  match ds with
  | [] => None
  | _ =>
    let (k, r3) := opt_prefix (opt_char 32 r1) in
    match opt_char 66 r3 with
    | [] => let v := dec_value ds * 1000 ^ k in
            if v <? 2 ^ 64 then Some v else None
    | _ => None
    end
  end.

(* ---- the documented output forms ---- *)
Inductive form :=
| FSmall (n : Z)          (* "<N> B"           0 <= N <= 999 *)
| FInt (x k : Z)          (* "<X> <prefix>B"   10 <= X <= 999 *)
| FDec (a b k : Z).       (* "<a>.<b> <prefix>B"  1.0 <= a.b <= 9.9 *)

Definition valid_form (f : form) : Prop :=
  match f with
  | FSmall n => 0 <= n <= 999
  | FInt x k => 10 <= x <= 999 /\ 1 <= k <= 6
  | FDec a b k => 1 <= a <= 9 /\ 0 <= b <= 9 /\ 1 <= k <= 6
  end.

Definition form_value (f : form) : Z :=
  match f with
  | FSmall n => n
  | FInt x k => x * 1000 ^ k
  | FDec a b k => (10 * a + b) * 100 * 1000 ^ (k - 1)
  end.

Definition representable (v : Z) : Prop := exists f, valid_form f /\ form_value f = v.

(* rendering: plain decimal without leading zeros for numbers below 1000 *)
Definition dchar (d : Z) : N := Z.to_N (48 + d).
Definition dec3 (v : Z) : list N :=
  if v <? 10 then [dchar v]
  else if v <? 100 then [dchar (v / 10); dchar (v mod 10)]
  else [dchar (v / 100); dchar ((v / 10) mod 10); dchar (v mod 10)].
Definition prefix_char (k : Z) : N := nth (Z.to_nat k) [32; 107; 77; 71; 84; 80; 69]%N 63%N.

Definition render (f : form) : list N :=
  match f with
  | FSmall n => dec3 n ++ [32; 66]%N
  | FInt x k => dec3 x ++ [32%N; prefix_char k; 66%N]
  | FDec a b k => [dchar a; 46%N; dchar b; 32%N; prefix_char k; 66%N]
  end.

(* ---- executable form of "the largest representable value <= n" (for the failing-input search) ---- *)
Definition zrange (lo hi : Z) : list Z := map (fun i => lo + Z.of_nat i) (seq 0 (Z.to_nat (hi - lo + 1))).

Definition all_forms : list form :=
  map FSmall (zrange 0 999) ++
  flat_map (fun k => flat_map (fun a => map (fun b => FDec a b k) (zrange 0 9)) (zrange 1 9) ++
                     map (fun x => FInt x k) (zrange 10 999)) (zrange 1 6).

(* the forms paired with their values, computed once *)
Definition all_valued : list (Z * form) := map (fun f => (form_value f, f)) all_forms.

Definition best_form (n : Z) : form :=
  snd (fold_left (fun best vf => if (fst vf <=? n) && (fst best <? fst vf) then vf else best)
                 all_valued (0, FSmall 0)).

Definition hs_format_spec (n : Z) : list N := render (best_form n).
