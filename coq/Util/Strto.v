(* MODEL of strtoumax / strtoimax (ISO C 7.8.2.3 / 7.22.1.4) in the C locale, as util/parsenum.h uses
   them: the input is a C string in checked memory (every character is fetched through [rd], so a
   read past the terminator is a Fault), arithmetic is 64-bit.
   Returns (value, index of *endptr, ERANGE raised?).  endptr index 0 means "no conversion".
   Behaviours pinned against glibc 2.36 in DESIGN.md Appendix A; exercised by the correspondence run. *)
From Coq Require Import NArith ZArith List Bool.
From LCP Require Import Base.CheckedMem.
Import ListNotations.
Local Open Scope Z_scope.
Local Open Scope res_scope.

Definition two64 : Z := 18446744073709551616.
Definition UMAX : Z := 18446744073709551615.      (* UINTMAX_MAX *)
Definition IMAX : Z := 9223372036854775807.       (* INTMAX_MAX *)
Definition IMIN : Z := -9223372036854775808.      (* INTMAX_MIN *)

(* isspace() in the C locale *)
Definition isspace (c : N) : bool := ((c =? 32) || ((9 <=? c) && (c <=? 13)))%N.

(* value of a character as a digit (any base up to 36) *)
Definition digit_of (c : N) : option Z :=
  if ((48 <=? c) && (c <=? 57))%N then Some (Z.of_N c - 48)
  else if ((97 <=? c) && (c <=? 122))%N then Some (Z.of_N c - 87)
  else if ((65 <=? c) && (c <=? 90))%N then Some (Z.of_N c - 55)
  else None.

Definition is_x (c : N) : bool := ((c =? 120) || (c =? 88))%N.
Definition is_hex (c : N) : bool := match digit_of c with Some d => d <? 16 | None => false end.

(* while (isspace(s[i])) i++; *)
Fixpoint skip_ws (fuel : nat) (buf : list N) (i : nat) : res nat :=
  match fuel with
  | O => OutOfFuel
  | S f => let* c := rd buf i in if isspace c then skip_ws f buf (S i) else Ok i
  end.

(* the digit loop: acc is the magnitude so far, [lim] the largest magnitude that fits; once the
   next step would exceed lim (cutoff / cutlim test) the overflow flag stays set and the rest of the
   digit run is still consumed. *)
Fixpoint digits_loop (fuel : nat) (buf : list N) (i : nat) (base lim acc : Z) (ovf : bool)
  : res (nat * Z * bool) :=
  match fuel with
  | O => OutOfFuel
  | S f =>
    let* c := rd buf i in
    match digit_of c with
    | Some d =>
      if d <? base then
        let ovf' := ovf || (acc >? lim / base) || ((acc =? lim / base) && (d >? lim mod base)) in
        let acc' := if ovf' then acc else acc * base + d in
        digits_loop f buf (S i) base lim acc' ovf'
      else Ok (i, acc, ovf)
    | None => Ok (i, acc, ovf)
    end
  end.

(* base / prefix selection at the first character after the sign: (effective base, index of first digit).
   "0x" is a prefix only for base 0 / 16 and only when a hex digit follows it. *)
Definition strto_base (buf : list N) (base : Z) (i1 : nat) : res (Z * nat) :=
  let* c0 := rd buf i1 in
  if (c0 =? 48)%N then
    if (base =? 0) || (base =? 16) then
      let* c1 := rd buf (S i1) in
      if is_x c1 then
        let* c2 := rd buf (S (S i1)) in
        if is_hex c2 then Ok (16, S (S i1))
        else Ok ((if base =? 0 then 8 else base), i1)
      else Ok ((if base =? 0 then 8 else base), i1)
    else Ok (base, i1)
  else Ok ((if base =? 0 then 10 else base), i1).

(* blanks, optional sign, then the base: (negative?, effective base, index of first digit) *)
Definition strto_front (buf : list N) (base : Z) : res (bool * Z * nat) :=
  let* i := skip_ws (S (length buf)) buf 0 in
  let* c := rd buf i in
  let neg := (c =? 45)%N in
  let i1 := if ((c =? 45) || (c =? 43))%N then S i else i in
  let* (b, i2) := strto_base buf base i1 in
  Ok (neg, b, i2).

Definition strtoumax_m (buf : list N) (base : Z) : res (Z * nat * bool) :=
  let* (nb, i2) := strto_front buf base in
  let (neg, b) := nb in
  let* (ja, ovf) := digits_loop (S (length buf)) buf i2 b UMAX 0 false in
  let (j, acc) := ja in
  if Nat.eqb j i2 then Ok (0, 0%nat, false)                       (* no digits: *endptr = s *)
  else if ovf then Ok (UMAX, j, true)                              (* clamp, ERANGE *)
  else Ok ((if neg then (two64 - acc) mod two64 else acc), j, false).   (* unsigned negation *)

Definition strtoimax_m (buf : list N) (base : Z) : res (Z * nat * bool) :=
  let* (nb, i2) := strto_front buf base in
  let (neg, b) := nb in
  let lim := if neg then - IMIN else IMAX in
  let* (ja, ovf) := digits_loop (S (length buf)) buf i2 b lim 0 false in
  let (j, acc) := ja in
  if Nat.eqb j i2 then Ok (0, 0%nat, false)
  else if ovf then Ok ((if neg then IMIN else IMAX), j, true)
  else Ok ((if neg then - acc else acc), j, false).
