(* SPEC for C16 (numeric text parsing), written from the documentation of PARSENUM / PARSENUM_EX and
   the ISO C numeral grammar, over unbounded Z.  Independent of the model of the C code
   (Util/Strto.v, Util/Parsenum.v): nothing here mentions 64-bit arithmetic, errno or pointers. *)
From Coq Require Import NArith ZArith List Bool.
From LCP Require Import Base.CheckedMem.
Import ListNotations.
Local Open Scope Z_scope.

(* ---- shared vocabulary (also used by the model): kinds of target types, result of a parse ---- *)
Inductive kind := KUnsigned | KSigned | KFloat.

Inductive presult :=
| OkV (v : Z)     (* success: errno = 0, return 0, this value stored *)
| EINVAL          (* malformed string *)
| ERANGE.         (* well-formed, value outside the bounds or the type *)

(* the range of an integer type of w bits *)
Definition typemin (k : kind) (w : Z) : Z :=
  match k with KSigned => - 2 ^ (w - 1) | _ => 0 end.
Definition typemax (k : kind) (w : Z) : Z :=
  match k with KSigned => 2 ^ (w - 1) - 1 | _ => 2 ^ w - 1 end.

(* ---- the numeral grammar ---- *)
(* white space of the C locale: HT LF VT FF CR SP *)
Definition blank (c : N) : bool := existsb (N.eqb c) [9; 10; 11; 12; 13; 32]%N.

Fixpoint drop_blanks (s : list N) : list N :=
  match s with
  | c :: r => if blank c then drop_blanks r else s
  | [] => []
  end.

(* digits 0-9 then letters a-z (either case) with values 10..35 *)
Definition alphabet36 : list N :=
  [48; 49; 50; 51; 52; 53; 54; 55; 56; 57;
   97; 98; 99; 100; 101; 102; 103; 104; 105; 106; 107; 108; 109;
   110; 111; 112; 113; 114; 115; 116; 117; 118; 119; 120; 121; 122]%N.
Definition lower (c : N) : N := if ((65 <=? c) && (c <=? 90))%N then (c + 32)%N else c.
Definition digit_value (c : N) : option Z :=
  option_map Z.of_nat (find_idx (lower c) alphabet36).
(* c as a digit of base b *)
Definition digit_in (b : Z) (c : N) : option Z :=
  match digit_value c with
  | Some d => if d <? b then Some d else None
  | None => None
  end.

(* the maximal run of digits of base b at the front of s, and what follows it *)
Fixpoint take_digits (b : Z) (s : list N) : list Z * list N :=
  match s with
  | c :: r =>
    match digit_in b c with
    | Some d => let (ds, rest) := take_digits b r in (d :: ds, rest)
    | None => ([], s)
    end
  | [] => ([], [])
  end.

(* positional value, most significant digit first *)
Definition value_of (b : Z) (ds : list Z) : Z := fold_left (fun a d => a * b + d) ds 0.

Definition base16_ok (base : Z) : bool := (base =? 0) || (base =? 16).

(* optional sign *)
Definition split_sign (s : list N) : bool * list N :=
  match s with
  | c :: r => if (c =? 45)%N then (true, r) else if (c =? 43)%N then (false, r) else (false, s)
  | [] => (false, s)
  end.

(* the base actually used and where its digits start: the 0x / 0X prefix exists only for base 0 / 16
   and only when a hex digit follows; for base 0 a leading 0 means octal, otherwise decimal *)
Definition select_base (base : Z) (s1 : list N) : Z * list N :=
  let plain := if base =? 0 then (match s1 with c :: _ => if (c =? 48)%N then 8 else 10 | [] => 10 end)
               else base in
  match s1 with
  | z :: x :: h :: r =>
    if (z =? 48)%N && ((x =? 120)%N || (x =? 88)%N) && base16_ok base &&
       (match digit_in 16 h with Some _ => true | None => false end)
    then (16, h :: r) else (plain, s1)
  | _ => (plain, s1)
  end.

(* numeral base s = Some (negative?, magnitude, rest):
   [+-]? ( 0[xX] hexdigit+ | digit+ ), longest match *)
Definition numeral (base : Z) (s : list N) : option (bool * Z * list N) :=
  let (neg, s1) := split_sign s in
  let (b, s2) := select_base base s1 in
  match take_digits b s2 with
  | ([], _) => None
  | (ds, rest) => Some (neg, value_of b ds, rest)
  end.

(* ---- PARSENUM_EX(x, s, min, max, base, trailing) for an integer x of kind k and w bits ---- *)
Definition parse_spec (k : kind) (w : Z) (min max base : Z) (trailing : bool) (s : list N) : presult :=
  match numeral base (drop_blanks s) with
  | None => EINVAL
  | Some (neg, v, rest) =>
    match rest, trailing with
    | _ :: _, false => EINVAL
    | _, _ =>
      let mv := if neg then - v else v in          (* mathematical value; "-0" is 0 *)
      if (Z.max min (typemin k w) <=? mv) && (mv <=? Z.min max (typemax k w))
      then OkV mv else ERANGE
    end
  end.

(* PARSENUM_EX(x, s, base, trailing) / PARSENUM(x, s): bounds are the limits of the unsigned type *)
Definition parse_spec_nobounds (w : Z) (base : Z) (trailing : bool) (s : list N) : presult :=
  parse_spec KUnsigned w 0 (typemax KUnsigned w) base trailing s.

Definition base_ok (base : Z) : Prop := base = 0 \/ 2 <= base <= 36.
Definition width_ok (w : Z) : Prop := w = 8 \/ w = 16 \/ w = 32 \/ w = 64.
