(* network_connect.c: the state machine of Net/NetConnect.v driven by the scripted kernel
   produces, for EVERY address list, exactly the trace [spec_trace] (a plain recursion over the
   list); the properties of C06-M4 are then read off that trace. *)
From Coq Require Import NArith ZArith List Bool Arith Lia.
From LCP Require Import Base.CheckedMem Net.NetConnect.
Import ListNotations.
Local Open Scope nat_scope.

(* ---------------------------------------------------------------- the specification trace *)
Definition tmr (timeo : bool) (o : cobs) : list cobs := if timeo then [o] else [].

Fixpoint spec_trace (timeo : bool) (a next : nat) (sas : list outcome) : list cobs :=
  match sas with
  | [] => [CImmReg; CImmFired; CCallback None; CFreed]
  | OSockFail :: r => CSockFail a :: spec_trace timeo (S a) next r
  | OSetupFail :: r =>
    CSocket a next :: CFcntlFail next :: CClose next :: spec_trace timeo (S a) (S next) r
  | OConnFail e :: r =>
    CSocket a next :: CConnect next a e :: CClose next :: spec_trace timeo (S a) (S next) r
  | OPending cret l :: r =>
    [CSocket a next; CConnect next a cret] ++ tmr timeo CTimerOn ++ [CNetReg next] ++
    match l with
    | LOk => [CNetFired next] ++ tmr timeo CTimerCancel ++ [CGetErr next 0%N; CCallback (Some next); CFreed]
    | LErr e => [CNetFired next] ++ tmr timeo CTimerCancel ++ [CGetErr next e; CClose next] ++
                spec_trace timeo (S a) (S next) r
    | LNever => [CTimerFired; CNetCancel next; CClose next] ++ spec_trace timeo (S a) (S next) r
    end
  end.

(* hypotheses on the scripted kernel *)
Definition wf_outcome (o : outcome) : Prop :=
  match o with OPending _ (LErr e) => e <> 0%N | _ => True end.          (* an error is not 0 *)
Definition no_hang (timeo : bool) (o : outcome) : Prop :=
  match o with OPending _ LNever => timeo = true | _ => True end.         (* silence needs a timeout *)

(* the addresses the request gets to: up to and including the first one that connects *)
Definition is_ok (o : outcome) : bool := match o with OPending _ LOk => true | _ => false end.
Fixpoint first_ok (sas : list outcome) : option nat :=
  match sas with
  | [] => None
  | o :: r => if is_ok o then Some 0 else option_map S (first_ok r)
  end.
(* number of addresses the request gets to *)
Definition reached (sas : list outcome) : nat :=
  match first_ok sas with Some i => S i | None => length sas end.

(* hypotheses are needed only about the addresses actually reached *)
Lemma forall_reached_cons (P : outcome -> Prop) o r :
  Forall P (firstn (reached (o :: r)) (o :: r)) ->
  P o /\ (is_ok o = false -> Forall P (firstn (reached r) r)).
Proof.
  unfold reached. cbn [first_ok]. destruct (is_ok o) eqn:K.
  - cbn [firstn]. intros H. inversion H; subst. split; [assumption|discriminate].
  - destruct (first_ok r) as [i|]; cbn [option_map length]; rewrite firstn_cons; intros H;
      inversion H; subst; split; auto.
Qed.

(* ---------------------------------------------------------------- model = spec trace *)
Definition run_from (fuel : nat) (st : cstate) : res (list cobs * cres) :=
  match tryconnect st all_ok with
  | (Running st', obs) =>
    match conn_drive fuel st' with
    | Ok (t, fin) => Ok (obs ++ t, fin)
    | Fault => Fault | AssertFail => AssertFail | OutOfFuel => OutOfFuel
    end
  | (Finished rc, obs) => Ok (obs, Finished rc)
  end.

Lemma tryconnect_failnow o r s timeo tm imm a next next' obs rg :
  sock_connect_bind_nb o a next = (None, next', obs) ->
  tryconnect (mkC (o :: r) s timeo tm imm a next) rg =
    (let (res, obs') := tryconnect (mkC r s timeo tm imm (S a) next') rg in (res, obs ++ obs')).
Proof.
  intros H. unfold tryconnect. cbn [c_sas c_addr c_next c_timeo c_timer c_imm try_loop]. rewrite H.
  destruct (try_loop r (S a) next') as [[[[sas' s'] a'] next''] obs'].
  destruct sas' as [|o' r']; destruct s' as [sk|]; cbn [c_timeo c_timer c_imm];
    repeat match goal with |- context [if ?b then _ else _] => destruct b end;
    rewrite <- ?app_assoc; reflexivity.
Qed.

Lemma run_from_failnow fuel o r s timeo a next next' obs :
  sock_connect_bind_nb o a next = (None, next', obs) ->
  run_from fuel (mkC (o :: r) s timeo false false a next) =
    match run_from fuel (mkC r s timeo false false (S a) next') with
    | Ok (t, fin) => Ok (obs ++ t, fin)
    | Fault => Fault | AssertFail => AssertFail | OutOfFuel => OutOfFuel
    end.
Proof.
  intros H. unfold run_from. rewrite (tryconnect_failnow _ _ _ _ _ _ _ _ _ _ _ H).
  destruct (tryconnect (mkC r s timeo false false (S a) next') all_ok) as [[st'|rc] obs'].
  - destruct (conn_drive fuel st') as [[t fin]| | |]; try reflexivity. rewrite app_assoc. reflexivity.
  - reflexivity.
Qed.

(* the rest of the list after an attempt that failed asynchronously or timed out *)
Lemma drive_tail f r timeo a next pre :
  run_from f (mkC r None timeo false false (S a) (S next)) = Ok (spec_trace timeo (S a) (S next) r, Finished 0%Z) ->
  (let (c, obs) :=
     let (r0, obs) := tryconnect (mkC r None timeo false false (S a) (S next)) all_ok in
     (r0, pre ++ obs) in
   match c with
   | Running st' =>
     match conn_drive f st' with
     | Ok (t, fin) => Ok (obs ++ t, fin)
     | Fault => Fault | AssertFail => AssertFail | OutOfFuel => OutOfFuel
     end
   | Finished rc => Ok (obs, Finished rc)
   end) = Ok (pre ++ spec_trace timeo (S a) (S next) r, Finished 0%Z).
Proof.
  unfold run_from. intros IH.
  destruct (tryconnect (mkC r None timeo false false (S a) (S next)) all_ok) as [[st'|rc] obs'].
  - destruct (conn_drive f st') as [[t fin]| | |]; try discriminate.
    inversion IH; subst. rewrite <- app_assoc. reflexivity.
  - inversion IH; subst. reflexivity.
Qed.

Ltac conn_simpl :=
  cbn [all_ok timer_ok net_ok imm_ok negb];
  cbn [conn_drive natural_event c_imm c_s c_sas c_timer];
  cbn [conn_step c_s c_timer callback_connect negb c_imm c_timeo c_sas c_addr c_next].

Ltac conn_simpl2 :=
  unfold callback_timeo, dofailed, docallback;
  cbn [negb N.eqb c_s c_sas c_timeo c_timer c_imm c_addr c_next tl close_if spec_trace tmr].

(* The hypotheses concern only the addresses the request gets to (up to and including the first
   one that connects): what the kernel would do for later addresses is never asked. *)
Lemma run_from_spec : forall sas timeo a next fuel s,
  Forall wf_outcome (firstn (reached sas) sas) -> Forall (no_hang timeo) (firstn (reached sas) sas) ->
  length sas < fuel ->
  run_from fuel (mkC sas s timeo false false a next) = Ok (spec_trace timeo a next sas, Finished 0%Z).
Proof.
  induction sas as [|o r IH]; intros timeo a next fuel s Hwf Hnh Hf.
  - destruct fuel as [|f]; [simpl in Hf; lia|]. reflexivity.
  - destruct (forall_reached_cons _ _ _ Hwf) as (Wo & Wr).
    destruct (forall_reached_cons _ _ _ Hnh) as (No & Nr).
    cbn [length] in Hf.
    destruct o as [| |e|cret l].
    + rewrite (run_from_failnow fuel OSockFail r s timeo a next next [CSockFail a] eq_refl).
      rewrite (IH timeo (S a) next fuel s (Wr eq_refl) (Nr eq_refl) ltac:(lia)). reflexivity.
    + rewrite (run_from_failnow fuel OSetupFail r s timeo a next (S next) _ eq_refl).
      rewrite (IH timeo (S a) (S next) fuel s (Wr eq_refl) (Nr eq_refl) ltac:(lia)). reflexivity.
    + rewrite (run_from_failnow fuel (OConnFail e) r s timeo a next (S next) _ eq_refl).
      rewrite (IH timeo (S a) (S next) fuel s (Wr eq_refl) (Nr eq_refl) ltac:(lia)). reflexivity.
    + destruct fuel as [|f]; [lia|].
      assert (Hf' : length r < f) by lia.
      destruct l as [e| |]; cbn [wf_outcome no_hang] in Wo, No.
      * (* asynchronous error: the next address is tried *)
        pose proof (IH timeo (S a) (S next) f None (Wr eq_refl) (Nr eq_refl) Hf') as IH'.
        unfold run_from, tryconnect.
        cbn [c_sas c_addr c_next c_timeo c_timer c_imm try_loop sock_connect_bind_nb].
        destruct timeo; conn_simpl;
          (destruct (N.eqb e 0) eqn:E0; [apply N.eqb_eq in E0; contradiction|]); conn_simpl2.
        -- pose proof (drive_tail f r true a next ([CNetFired next; CTimerCancel] ++ [CGetErr next e; CClose next]) IH') as T2.
           match goal with |- match ?X with _ => _ end = _ =>
             replace X with (Ok (([CNetFired next; CTimerCancel] ++ [CGetErr next e; CClose next]) ++
                                 spec_trace true (S a) (S next) r, Finished 0%Z)) end.
           ++ cbn [app]. reflexivity.
           ++ rewrite <- T2.
              destruct (tryconnect (mkC r None true false false (S a) (S next)) all_ok) as [c obs']; reflexivity.
        -- pose proof (drive_tail f r false a next ([CNetFired next] ++ [CGetErr next e; CClose next]) IH') as T2.
           match goal with |- match ?X with _ => _ end = _ =>
             replace X with (Ok (([CNetFired next] ++ [CGetErr next e; CClose next]) ++
                                 spec_trace false (S a) (S next) r, Finished 0%Z)) end.
           ++ cbn [app]. reflexivity.
           ++ rewrite <- T2.
              destruct (tryconnect (mkC r None false false false (S a) (S next)) all_ok) as [c obs']; reflexivity.
      * (* no answer: needs the timeout; the timer fires *)
        subst timeo.
        pose proof (IH true (S a) (S next) f None (Wr eq_refl) (Nr eq_refl) Hf') as IH'.
        unfold run_from, tryconnect.
        cbn [c_sas c_addr c_next c_timeo c_timer c_imm try_loop sock_connect_bind_nb].
        conn_simpl; conn_simpl2.
        pose proof (drive_tail f r true a next [CTimerFired; CNetCancel next; CClose next] IH') as T2.
        match goal with |- match ?X with _ => _ end = _ =>
          replace X with (Ok ([CTimerFired; CNetCancel next; CClose next] ++
                              spec_trace true (S a) (S next) r, Finished 0%Z)) end.
        -- cbn [app]. reflexivity.
        -- rewrite <- T2.
           destruct (tryconnect (mkC r None true false false (S a) (S next)) all_ok) as [c obs']; reflexivity.
      * (* success: nothing after this address matters *)
        unfold run_from, tryconnect.
        cbn [c_sas c_addr c_next c_timeo c_timer c_imm try_loop sock_connect_bind_nb].
        destruct timeo; conn_simpl; conn_simpl2; reflexivity.
Qed.

Theorem conn_run_spec : forall timeo sas,
  Forall wf_outcome (firstn (reached sas) sas) -> Forall (no_hang timeo) (firstn (reached sas) sas) ->
  conn_run timeo sas = Ok (spec_trace timeo 0 0 sas, Finished 0%Z).
Proof.
  intros timeo sas Hwf Hnh.
  pose proof (run_from_spec sas timeo 0 0 (S (S (length sas))) None Hwf Hnh ltac:(lia)) as H.
  unfold run_from in H. unfold conn_run, network_connect. cbn [negb].
  destruct (tryconnect (mkC sas None timeo false false 0 0) all_ok) as [[st'|rc] obs]; exact H.
Qed.

(* ---------------------------------------------------------------- what the trace says (C06-M4) *)
Definition callbacks (t : list cobs) : list (option nat) :=
  flat_map (fun o => match o with CCallback v => [v] | _ => [] end) t.
Definition closes (t : list cobs) : list nat :=
  flat_map (fun o => match o with CClose s => [s] | _ => [] end) t.
Definition created (t : list cobs) : list nat :=
  flat_map (fun o => match o with CSocket _ s => [s] | _ => [] end) t.
Definition attempted (t : list cobs) : list nat :=
  flat_map (fun o => match o with CSocket a _ => [a] | CSockFail a => [a] | _ => [] end) t.
Definition count (p : cobs -> bool) (t : list cobs) : nat := length (filter p t).
Definition is_timer_on o := match o with CTimerOn => true | _ => false end.
Definition is_timer_off o := match o with CTimerCancel | CTimerFired => true | _ => false end.
Definition is_net_reg o := match o with CNetReg _ => true | _ => false end.
Definition is_net_off o := match o with CNetFired _ | CNetCancel _ => true | _ => false end.

Definition makes_socket (o : outcome) : bool := match o with OSockFail => false | _ => true end.

(* independent description of the winner: the first address whose outcome is Ok; its descriptor
   is the (number of descriptors created for the addresses before it)-th one *)

Definition sock_of (next : nat) (sas : list outcome) (i : nat) : nat :=
  next + length (filter makes_socket (firstn i sas)).

Definition winner (next : nat) (sas : list outcome) : option nat :=
  option_map (sock_of next sas) (first_ok sas).


Lemma callbacks_app a b : callbacks (a ++ b) = callbacks a ++ callbacks b.
Proof. apply flat_map_app. Qed.
Lemma closes_app a b : closes (a ++ b) = closes a ++ closes b.
Proof. apply flat_map_app. Qed.
Lemma created_app a b : created (a ++ b) = created a ++ created b.
Proof. apply flat_map_app. Qed.
Lemma attempted_app a b : attempted (a ++ b) = attempted a ++ attempted b.
Proof. apply flat_map_app. Qed.
Lemma count_app p a b : count p (a ++ b) = count p a + count p b.
Proof. unfold count. rewrite filter_app, app_length. reflexivity. Qed.

Lemma winner_cons_fail next o r :
  is_ok o = false ->
  winner next (o :: r) = winner (if makes_socket o then S next else next) r.
Proof.
  intros H. unfold winner. cbn [first_ok]. rewrite H.
  destruct (first_ok r) as [i|]; cbn [option_map]; [|reflexivity].
  f_equal. unfold sock_of. cbn [firstn filter]. destruct (makes_socket o); cbn [length]; lia.
Qed.

Lemma spec_callbacks timeo : forall sas a next,
  callbacks (spec_trace timeo a next sas) = [winner next sas].
Proof.
  induction sas as [|o r IH]; intros a next; [reflexivity|].
  destruct o as [| |e|cret [e| |]]; cbn [spec_trace];
    try (rewrite winner_cons_fail by reflexivity; cbn [makes_socket]);
    repeat rewrite ?callbacks_app; destruct timeo; cbn [tmr callbacks flat_map app];
    rewrite ?IH; try reflexivity.
  all: unfold winner, sock_of; cbn; f_equal; f_equal; lia.
Qed.

Lemma spec_attempted timeo : forall sas a next,
  attempted (spec_trace timeo a next sas) = seq a (reached sas).
Proof.
  induction sas as [|o r IH]; intros a next; [reflexivity|].
  assert (R : is_ok o = false -> reached (o :: r) = S (reached r)).
  { intros H. unfold reached. cbn [first_ok]. rewrite H. destruct (first_ok r); reflexivity. }
  destruct o as [| |e|cret [e| |]]; cbn [spec_trace];
    try (rewrite R by reflexivity);
    repeat rewrite ?attempted_app; destruct timeo; cbn [tmr attempted flat_map app seq];
    rewrite ?IH; try reflexivity.
Qed.

(* descriptors: created in increasing order without repetition; every one of them except the
   winner is closed, exactly once, and the winner is not closed *)
Lemma spec_created timeo : forall sas a next,
  created (spec_trace timeo a next sas) = seq next (length (created (spec_trace timeo a next sas))).
Proof.
  induction sas as [|o r IH]; intros a next; [reflexivity|].
  destruct o as [| |e|cret [e| |]]; cbn [spec_trace];
    repeat rewrite ?created_app; destruct timeo; cbn [tmr created flat_map app length seq];
    try (rewrite <- IH); try reflexivity.
Qed.

Lemma spec_closes timeo : forall sas a next,
  created (spec_trace timeo a next sas) =
    closes (spec_trace timeo a next sas) ++ match winner next sas with Some s => [s] | None => [] end.
Proof.
  induction sas as [|o r IH]; intros a next; [reflexivity|].
  destruct o as [| |e|cret [e| |]]; cbn [spec_trace];
    try (rewrite winner_cons_fail by reflexivity; cbn [makes_socket]);
    repeat rewrite ?created_app, ?closes_app; destruct timeo;
    cbn [tmr created closes flat_map app]; rewrite ?IH; try reflexivity.
  all: unfold winner, sock_of; cbn; f_equal; lia.
Qed.

(* every timer that was armed is cancelled or fires, every network registration is consumed or
   cancelled: nothing is left registered when the cookie is freed *)
Lemma spec_balance timeo : forall sas a next,
  Forall (no_hang timeo) (firstn (reached sas) sas) ->
  count is_timer_on (spec_trace timeo a next sas) = count is_timer_off (spec_trace timeo a next sas) /\
  count is_net_reg (spec_trace timeo a next sas) = count is_net_off (spec_trace timeo a next sas).
Proof.
  induction sas as [|o r IH]; intros a next Hnh; [split; reflexivity|].
  destruct (forall_reached_cons _ _ _ Hnh) as (No & Nr).
  destruct o as [| |e|cret [e| |]]; cbn [spec_trace];
    repeat rewrite ?count_app; destruct timeo; cbn [tmr app no_hang] in *; try discriminate;
    unfold count in *; cbn [filter is_timer_on is_timer_off is_net_reg is_net_off length];
    try (destruct (IH (S a) next (Nr eq_refl)) as (A & B));
    try (destruct (IH (S a) (S next) (Nr eq_refl)) as (A' & B'));
    split; try lia.
Qed.

Lemma first_ok_some sas : forall i, first_ok sas = Some i ->
  i < length sas /\ is_ok (nth i sas OSockFail) = true /\
  forall j, j < i -> is_ok (nth j sas OSockFail) = false.
Proof.
  induction sas as [|o r IH]; intros i H; simpl in H; [discriminate|].
  destruct (is_ok o) eqn:K.
  - inversion H; subst. simpl. repeat split; auto; lia.
  - destruct (first_ok r) as [i'|] eqn:F; [|discriminate]. simpl in H. inversion H; subst.
    destruct (IH _ eq_refl) as (A & B & C). simpl. repeat split; [lia|exact B|].
    intros [|j] Hj; simpl; [exact K|apply C; lia].
Qed.

Lemma first_ok_none sas : first_ok sas = None -> forall j, j < length sas -> is_ok (nth j sas OSockFail) = false.
Proof.
  induction sas as [|o r IH]; intros H j Hj; simpl in *; [lia|].
  destruct (is_ok o) eqn:K; [discriminate|]. destruct (first_ok r) eqn:F; [discriminate|].
  destruct j; [exact K|apply IH; auto; lia].
Qed.

(* C06-M4 *)
Theorem connect_first_success_lemma : forall timeo sas,
  Forall wf_outcome (firstn (reached sas) sas) -> Forall (no_hang timeo) (firstn (reached sas) sas) ->
  exists trace,
    conn_run timeo sas = Ok (trace, Finished 0%Z) /\
    (* exactly one callback: the descriptor of the first address that connects, else -1 *)
    callbacks trace = [winner 0 sas] /\
    (* addresses are tried in list order, up to and including the winner (all if none) *)
    attempted trace = seq 0 (reached sas) /\
    (* every descriptor of a failed attempt is closed exactly once, the winner's is not *)
    created trace = seq 0 (length (created trace)) /\
    created trace = closes trace ++ match winner 0 sas with Some s => [s] | None => [] end /\
    (* no timer and no network registration survives the request *)
    count is_timer_on trace = count is_timer_off trace /\
    count is_net_reg trace = count is_net_off trace.
Proof.
  intros timeo sas Hwf Hnh. exists (spec_trace timeo 0 0 sas).
  split; [apply conn_run_spec; assumption|].
  split; [apply spec_callbacks|]. split; [apply spec_attempted|].
  split; [apply spec_created|]. split; [apply spec_closes|]. apply spec_balance. exact Hnh.
Qed.

(* ---------------------------------------------------------------- cancel is safe in every state *)
Definition cancel_safe (st : cstate) : Prop :=
  (c_imm st = true /\ c_s st = None) \/ (c_imm st = false /\ exists s, c_s st = Some s).

Lemma try_loop_shape : forall sas a next sas' s' a' next' obs,
  try_loop sas a next = (sas', s', a', next', obs) ->
  (sas' = [] /\ s' = None) \/ (exists o r sk, sas' = o :: r /\ s' = Some sk).
Proof.
  induction sas as [|o r IH]; intros a next sas' s' a' next' obs H; cbn [try_loop] in H.
  - inversion H; subst. left; auto.
  - destruct (sock_connect_bind_nb o a next) as [[[sk|] nx] ob] eqn:Sb.
    + inversion H; subst. right. eauto.
    + destruct (try_loop r (S a) nx) as [[[[x1 x2] x3] x4] x5] eqn:T. inversion H; subst.
      eapply IH; eauto.
Qed.

Lemma tryconnect_running_safe st rg st' obs :
  c_imm st = false -> tryconnect st rg = (Running st', obs) -> cancel_safe st'.
Proof.
  intros Hi H. unfold tryconnect in H.
  destruct (try_loop (c_sas st) (c_addr st) (c_next st)) as [[[[sas s] a] next] ob] eqn:T.
  destruct (try_loop_shape _ _ _ _ _ _ _ _ T) as [(-> & ->)|(o & r & sk & -> & ->)].
  - destruct (imm_ok rg); inversion H; subst. left. split; reflexivity.
  - destruct (c_timeo st), (timer_ok rg), (net_ok rg); inversion H; subst;
      right; cbn [c_imm c_s]; split; eauto.
Qed.

Lemma conn_step_running_safe st ev rg st' obs :
  cancel_safe st -> conn_step st ev rg = (Running st', obs) -> cancel_safe st'.
Proof.
  intros Hs H. destruct ev as [gso e| |]; cbn [conn_step] in H.
  - destruct (c_s st) as [sk|] eqn:Es; [|inversion H; subst; exact Hs].
    assert (Hi : c_imm st = false) by (destruct Hs as [(_ & X)|(X & _)]; congruence).
    unfold callback_connect in H.
    destruct (negb gso); [inversion H|].
    destruct (negb (N.eqb e 0)).
    + unfold dofailed in H.
      destruct (tryconnect _ rg) as [r1 o1] eqn:T. inversion H; subst.
      eapply tryconnect_running_safe; [|exact T]. cbn [c_imm]. exact Hi.
    + unfold docallback in H. inversion H.
  - destruct (c_timer st); [|inversion H; subst; exact Hs].
    destruct (c_s st) as [sk|] eqn:Es; [|inversion H; subst; exact Hs].
    assert (Hi : c_imm st = false) by (destruct Hs as [(_ & X)|(X & _)]; congruence).
    unfold callback_timeo, dofailed in H.
    destruct (tryconnect _ rg) as [r1 o1] eqn:T. inversion H; subst.
    eapply tryconnect_running_safe; [|exact T]. cbn [c_imm]. exact Hi.
  - destruct (c_imm st); [unfold docallback in H; inversion H|inversion H; subst; exact Hs].
Qed.

(* network_connect_cancel from a safe state: no assertion fails, the descriptor in progress (if
   any) is closed, nothing is called back *)
Theorem cancel_ok_lemma st :
  cancel_safe st ->
  exists obs, connect_cancel st = Ok obs /\
              closes obs = match c_s st with Some s => [s] | None => [] end /\
              callbacks obs = [].
Proof.
  intros [(Hi & Hs)|(Hi & s & Hs)]; unfold connect_cancel; rewrite Hi, Hs; cbn [orb andb negb];
    eexists; (split; [reflexivity|]); destruct (c_timer st); split; reflexivity.
Qed.

(* every state a started request can be in is safe to cancel *)
Theorem connect_states_cancel_safe_lemma : forall timeo sas next st obs,
  network_connect timeo sas next true all_ok = (Running st, obs) -> cancel_safe st.
Proof.
  intros timeo sas next st obs H. unfold network_connect in H. cbn [negb] in H.
  eapply tryconnect_running_safe; [|exact H]. reflexivity.
Qed.

(* ... whatever the outcomes of the allocation and of the registrations network_connect makes *)
Theorem connect_states_cancel_safe_any_lemma : forall timeo sas next cookie_ok rg st obs,
  network_connect timeo sas next cookie_ok rg = (Running st, obs) -> cancel_safe st.
Proof.
  intros timeo sas next cookie_ok rg st obs H. unfold network_connect in H.
  destruct cookie_ok; cbn [negb] in H; [|discriminate].
  eapply tryconnect_running_safe; [|exact H]. reflexivity.
Qed.

(* the hypotheses of connect_first_success_lemma follow from the same ones about the whole list *)
Lemma forall_firstn {A} (P : A -> Prop) n l : Forall P l -> Forall P (firstn n l).
Proof.
  revert n. induction l as [|x t IH]; intros n H; destruct n; cbn; auto.
  inversion H; subst. constructor; auto.
Qed.
