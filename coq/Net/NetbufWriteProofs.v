(* netbuf_write.c: the writer's queue invariant, the prefix property (C07-M3) and totality
   (writer_total: no assert can fail and no zero-length network_write is ever started, for every
   history that respects the API rules), plus the two regression examples about the code as it
   was before the F3 / F6 repairs. *)
From Coq Require Import NArith ZArith List Bool Arith Lia.
From LCP Require Import Base.CheckedMem Net.NetbufWrite Net.ListAux.
Import ListNotations.
Local Open Scope nat_scope.

Definition queued (bs : list wbuf) : list N := concat (map wb_data bs).
Definition starts_of (evs : list wevent) : list (list N) :=
  flat_map (fun e => match e with EvStart d => [d] | EvFail => [] end) evs.
Definition fails_of (evs : list wevent) : nat :=
  length (filter (fun e => match e with EvFail => true | _ => false end) evs).

Lemma queued_app a b : queued (a ++ b) = queued a ++ queued b.
Proof. unfold queued. rewrite map_app, concat_app. reflexivity. Qed.

Lemma queued_discard bs : queued (discard_empty bs) = queued bs.
Proof.
  induction bs as [|b r IH]; [reflexivity|]. cbn [discard_empty].
  destruct (length (wb_data b) =? 0) eqn:E; [|reflexivity].
  apply Nat.eqb_eq in E. rewrite IH. unfold queued; cbn.
  destruct (wb_data b); [reflexivity|discriminate].
Qed.

Lemma discard_head bs b r : discard_empty bs = b :: r -> length (wb_data b) <> 0.
Proof.
  induction bs as [|x t IH]; cbn [discard_empty]; [discriminate|].
  destruct (length (wb_data x) =? 0) eqn:E; [exact IH|].
  intros H; inversion H; subst. apply Nat.eqb_neq in E. exact E.
Qed.

Lemma discard_sub P bs : Forall P bs -> Forall P (discard_empty bs).
Proof.
  induction bs as [|x t IH]; intros H; cbn [discard_empty]; [constructor|].
  inversion H; subst. destruct (length (wb_data x) =? 0); auto.
Qed.

Lemma last_buf_app W bs b :
  w_buffers W = bs ++ [b] -> last_buf W = Some b.
Proof. intros H. unfold last_buf. rewrite H, map_app. cbn [map]. apply last_last. Qed.

Lemma last_buf_some W b : last_buf W = Some b -> exists bs, w_buffers W = bs ++ [b].
Proof.
  unfold last_buf. intros H. destruct (w_buffers W) as [|x t] eqn:E; [discriminate|].
  assert (Hne : x :: t <> []) by discriminate.
  pose proof (app_removelast_last x Hne) as L. exists (removelast (x :: t)).
  assert (Hl : last (map Some (x :: t)) None = Some (last (x :: t) x)).
  { clear. generalize x at 3. induction t as [|y t IH]; intros d; [reflexivity|].
    cbn [map last] in *. specialize (IH d).
    destruct t; [reflexivity|]. cbn [map] in *. exact IH. }
  rewrite Hl in H. inversion H; subst. exact L.
Qed.

Lemma last_buf_none W : last_buf W = None -> w_buffers W = [].
Proof.
  unfold last_buf. destruct (w_buffers W) as [|x t]; [reflexivity|].
  intros H. exfalso. revert H. generalize x. induction t as [|y t IH]; intros z H; [discriminate|].
  cbn [map last] in *. apply (IH y). exact H.
Qed.

Lemma append_last_app bs b bytes :
  append_last (bs ++ [b]) bytes = bs ++ [mkWB (wb_data b ++ bytes) (wb_buflen b)].
Proof.
  induction bs as [|x t IH]; [reflexivity|].
  change ((x :: t) ++ [b]) with (x :: (t ++ [b])).
  assert (E : exists y l, t ++ [b] = y :: l) by (destruct t; cbn; eauto).
  destruct E as (y & l & E).
  change (append_last (x :: t ++ [b]) bytes) with
    (match t ++ [b] with [] => [mkWB (wb_data x ++ bytes) (wb_buflen x)] | _ :: _ => x :: append_last (t ++ [b]) bytes end).
  rewrite IH. rewrite E. reflexivity.
Qed.

Section Proofs.
  Variable wbuflen : nat.

  Definition buf_ok (b : wbuf) : Prop := length (wb_data b) <= wb_buflen b.

  (* the queue invariant *)
  Definition winv (W : nbw) : Prop :=
    Forall buf_ok (w_buffers W) /\
    match w_curr W with
    | Some WB => w_inflight W = true /\ wb_data WB <> []
    | None => w_inflight W = false
    end /\
    (w_failed W = true -> w_inflight W = false) /\
    (w_reserved W = true -> w_buffers W <> []).

  Lemma init_winv a W : nbw_init a = Some W -> winv W /\ w_buffers W = [] /\ w_failed W = false.
  Proof.
    unfold nbw_init. destruct a; [|discriminate]. intros H; inversion H; subst.
    unfold winv; cbn. repeat split; auto; discriminate.
  Qed.

  Definition nonempty (d : list N) : Prop := d <> [].

  (* poke (never called while space is reserved) does not assert, hands over only a non-empty
     buffer and keeps the queued bytes in order *)
  Lemma poke_ok W netw :
    winv W -> w_reserved W = false ->
    exists W' rc evs, poke W netw = Ok (W', rc, evs) /\ winv W' /\
      w_failed W' = w_failed W /\ w_reserved W' = false /\
      concat (starts_of evs) ++ queued (w_buffers W') = queued (w_buffers W) /\
      Forall nonempty (starts_of evs) /\ fails_of evs = 0 /\
      (w_failed W = true -> W' = W /\ evs = [] /\ rc = 0%Z).
  Proof.
    intros (Hb & Hc & Hf & Hr) Hres. unfold poke.
    destruct (w_inflight W) eqn:Ei; cbn [orb].
    { exists W, 0%Z, []. split; [reflexivity|]. unfold winv. rewrite Ei. cbn. repeat split; auto. }
    destruct (w_buffers W) as [|b0 r0] eqn:Eb.
    { exists W, 0%Z, []. split; [reflexivity|]. unfold winv. rewrite Ei, Eb. cbn. repeat split; auto. }
    rewrite <- Eb in *.
    destruct (w_failed W) eqn:Ef.
    { exists W, 0%Z, []. split; [reflexivity|]. unfold winv. rewrite Ei, Ef. cbn. repeat split; auto. }
    destruct (w_curr W) as [WB|] eqn:Ec; [destruct Hc; congruence|].
    pose proof (queued_discard (w_buffers W)) as Q.
    pose proof (discard_sub buf_ok _ Hb) as Hb'.
    destruct (discard_empty (w_buffers W)) as [|WB rest] eqn:Ed.
    - eexists _, _, _. split; [reflexivity|].
      unfold winv; cbn [w_buffers w_curr w_inflight w_failed w_reserved starts_of flat_map concat app fails_of filter length].
      rewrite Hres. repeat split; auto; discriminate.
    - pose proof (discard_head _ _ _ Ed) as Hne.
      destruct (length (wb_data WB) =? 0) eqn:Ez; [apply Nat.eqb_eq in Ez; contradiction|].
      assert (Hd : wb_data WB <> []) by (intros E; rewrite E in Hne; cbn in Hne; lia).
      destruct netw; cbn [negb].
      + eexists _, _, _. split; [reflexivity|].
        unfold winv; cbn [w_buffers w_curr w_inflight w_failed w_reserved starts_of flat_map concat app fails_of filter length].
        inversion Hb'; subst. rewrite Hres.
        repeat split; auto; try discriminate;
          try (rewrite app_nil_r; exact Q); try (constructor; [exact Hd|constructor]).
      + eexists _, _, _. split; [reflexivity|].
        unfold winv; cbn [w_buffers w_curr w_inflight w_failed w_reserved starts_of flat_map concat app fails_of filter length].
        rewrite Hres. repeat split; auto; discriminate.
  Qed.

  (* netbuf_write_reserve: on failure NOTHING changes (in particular reserved stays 0: F6) *)
  Lemma reserve_ok W len a1 a2 :
    winv W -> w_reserved W = false ->
    exists W' ok, reserve wbuflen W len a1 a2 = Ok (W', ok) /\ winv W' /\
      w_failed W' = w_failed W /\ w_inflight W' = w_inflight W /\ w_curr W' = w_curr W /\
      queued (w_buffers W') = queued (w_buffers W) /\
      (ok = true -> w_reserved W' = true /\ exists WB, last_buf W' = Some WB /\ len <= room WB) /\
      (ok = false -> W' = W).
  Proof.
    intros (Hb & Hc & Hf & Hr) Hres. unfold reserve, reserve_gen. rewrite Hres. cbn [negb].
    assert (Fresh : exists W' ok,
      (if negb a1 then Ok (mkW false (w_failed W) (w_buffers W) (w_inflight W) (w_curr W), false)
       else if negb a2 then Ok (mkW false (w_failed W) (w_buffers W) (w_inflight W) (w_curr W), false)
       else Ok (mkW true (w_failed W) (w_buffers W ++ [mkWB [] (if wbuflen <? len then len else wbuflen)])
                    (w_inflight W) (w_curr W), true)) = Ok (W', ok) /\ winv W' /\
      w_failed W' = w_failed W /\ w_inflight W' = w_inflight W /\ w_curr W' = w_curr W /\
      queued (w_buffers W') = queued (w_buffers W) /\
      (ok = true -> w_reserved W' = true /\ exists WB, last_buf W' = Some WB /\ len <= room WB) /\
      (ok = false -> W' = W)).
    { assert (Wsame : mkW false (w_failed W) (w_buffers W) (w_inflight W) (w_curr W) = W)
        by (destruct W; cbn in *; subst; reflexivity).
      destruct a1; cbn [negb]; [destruct a2; cbn [negb]|].
      - eexists _, _. split; [reflexivity|].
        unfold winv; cbn [w_buffers w_curr w_inflight w_failed w_reserved].
        split; [|repeat split; auto; try discriminate].
        + split; [apply Forall_app; split; [exact Hb|constructor; [unfold buf_ok; cbn; lia|constructor]]|].
          split; [exact Hc|]. split; [exact Hf|]. intros _ E. destruct (w_buffers W); discriminate.
        + rewrite queued_app. unfold queued at 2; cbn. apply app_nil_r.
        + eexists. split; [apply (last_buf_app _ (w_buffers W)); reflexivity|].
          unfold room; cbn [wb_data wb_buflen length]. rewrite Nat.sub_0_r.
          destruct (wbuflen <? len) eqn:E; [lia|apply Nat.ltb_ge in E; lia].
      - eexists _, _. split; [reflexivity|]. rewrite Wsame.
        split; [unfold winv; auto|]. repeat split; auto; discriminate.
      - eexists _, _. split; [reflexivity|]. rewrite Wsame.
        split; [unfold winv; auto|]. repeat split; auto; discriminate. }
    destruct (last_buf W) as [WB|] eqn:El; [|exact Fresh].
    destruct (len <=? room WB) eqn:Er; [|exact Fresh].
    apply Nat.leb_le in Er.
    eexists _, _. split; [reflexivity|].
    unfold winv; cbn [w_buffers w_curr w_inflight w_failed w_reserved].
    split; [|repeat split; auto; try discriminate].
    - split; [exact Hb|]. split; [exact Hc|]. split; [exact Hf|].
      intros _ E. destruct (last_buf_some _ _ El) as (bs & E'). rewrite E' in E. destruct bs; discriminate.
    - exists WB. split; [|exact Er]. unfold last_buf in *. exact El.
  Qed.

  (* netbuf_write_consume *)
  Lemma consume_ok W bytes netw WB :
    winv W -> w_reserved W = true -> last_buf W = Some WB -> length bytes <= room WB ->
    exists W' rc evs, consume W bytes netw = Ok (W', rc, evs) /\ winv W' /\
      w_failed W' = w_failed W /\ w_reserved W' = false /\
      concat (starts_of evs) ++ queued (w_buffers W') =
        queued (w_buffers W) ++ (if w_failed W then [] else bytes) /\
      Forall nonempty (starts_of evs) /\ fails_of evs = 0 /\
      (w_failed W = true -> evs = [] /\ rc = 0%Z).
  Proof.
    intros (Hb & Hc & Hf & Hr) Hres El Hroom. unfold consume, consume_gen. rewrite Hres, El. cbn [negb].
    destruct (room WB <? length bytes) eqn:E; [apply Nat.ltb_lt in E; lia|].
    destruct (last_buf_some _ _ El) as (bs & Ebs).
    set (W1 := mkW false (w_failed W)
                   (if w_failed W then w_buffers W else append_last (w_buffers W) bytes)
                   (w_inflight W) (w_curr W)).
    assert (I1 : winv W1).
    { unfold winv, W1; cbn [w_buffers w_curr w_inflight w_failed w_reserved].
      split; [|split; [exact Hc|split; [exact Hf|discriminate]]].
      destruct (w_failed W); [exact Hb|]. rewrite Ebs, append_last_app.
      rewrite Ebs in Hb. apply Forall_app in Hb. destruct Hb as (H1 & H2). inversion H2; subst.
      apply Forall_app. split; [exact H1|]. constructor; [|constructor].
      unfold buf_ok, room in *; cbn. rewrite app_length. lia. }
    destruct (poke_ok W1 netw I1 eq_refl) as (W' & rc & evs & Ep & I' & F' & R' & Q' & N' & Z' & S').
    exists W', rc, evs. split; [exact Ep|]. split; [exact I'|].
    split; [exact F'|]. split; [exact R'|].
    split; [|split; [exact N'|split; [exact Z'|]]].
    - rewrite Q'. unfold W1; cbn [w_buffers]. destruct (w_failed W); [symmetry; apply app_nil_r|].
      rewrite Ebs, append_last_app, !queued_app. unfold queued; cbn. rewrite !app_nil_r, app_assoc. reflexivity.
    - intros Hfl. destruct (S' Hfl) as (_ & A & B). auto.
  Qed.

  (* does the reservation inside netbuf_write_write succeed? *)
  Definition reserve_succeeds (W : nbw) (len : nat) (a1 a2 : bool) : bool :=
    match last_buf W with
    | Some WB => (len <=? room WB) || (a1 && a2)
    | None => a1 && a2
    end.

  Lemma reserve_succeeds_spec W len a1 a2 W' ok :
    w_reserved W = false ->
    reserve wbuflen W len a1 a2 = Ok (W', ok) -> ok = reserve_succeeds W len a1 a2.
  Proof.
    intros Hres. unfold reserve, reserve_gen, reserve_succeeds. rewrite Hres.
    destruct (last_buf W) as [WB|]; [destruct (len <=? room WB); cbn [orb]|];
      destruct a1, a2; cbn; intros H; inversion H; reflexivity.
  Qed.

  (* netbuf_write_write *)
  Lemma write_ok W bytes a1 a2 netw :
    winv W -> w_reserved W = false ->
    exists W' rc evs, write wbuflen W bytes a1 a2 netw = Ok (W', rc, evs) /\ winv W' /\
      w_failed W' = w_failed W /\ w_reserved W' = false /\
      concat (starts_of evs) ++ queued (w_buffers W') =
        queued (w_buffers W) ++
        (if w_failed W then [] else if reserve_succeeds W (length bytes) a1 a2 then bytes else []) /\
      Forall nonempty (starts_of evs) /\ fails_of evs = 0 /\
      (w_failed W = true -> W' = W /\ evs = [] /\ rc = 0%Z).
  Proof.
    intros I Hres. unfold write, write_gen.
    destruct (w_failed W) eqn:Ef.
    { exists W, 0%Z, []. split; [reflexivity|]. split; [exact I|]. cbn. rewrite app_nil_r.
      repeat split; auto. }
    destruct (reserve_ok W (length bytes) a1 a2 I Hres) as (W1 & ok & Er & I1 & F1 & In1 & C1 & Q1 & Hok & Hno).
    pose proof (reserve_succeeds_spec _ _ _ _ _ _ Hres Er) as Eok.
    fold (reserve wbuflen W (length bytes) a1 a2). rewrite Er.
    destruct ok.
    - destruct (Hok eq_refl) as (R1 & WB & El & Hroom).
      destruct (consume_ok W1 bytes netw WB I1 R1 El Hroom) as (W' & rc & evs & Ec & I' & F' & R' & Q' & N' & Z' & S').
      fold (consume W1 bytes netw). rewrite Ec.
      exists W', rc, evs. split; [reflexivity|]. split; [exact I'|].
      split; [congruence|]. split; [exact R'|].
      split; [|split; [exact N'|split; [exact Z'|discriminate]]].
      rewrite Q', Q1, F1, Ef, <- Eok. reflexivity.
    - rewrite (Hno eq_refl) in *.
      exists W, (-1)%Z, []. split; [reflexivity|]. split; [exact I|]. rewrite <- Eok. cbn. rewrite app_nil_r.
      repeat split; auto; discriminate.
  Qed.

  (* writbuf: the callback of the in-flight network_write *)
  Lemma writbuf_ok W v netw :
    winv W -> w_inflight W = true -> w_reserved W = false ->
    exists W' rc evs, writbuf W v netw = Ok (W', rc, evs) /\ winv W' /\ w_reserved W' = false /\
      w_failed W = false /\
      exists WB, w_curr W = Some WB /\
        if (v =? Z.of_nat (length (wb_data WB)))%Z
        then w_failed W' = false /\ fails_of evs = 0 /\ Forall nonempty (starts_of evs) /\
             concat (starts_of evs) ++ queued (w_buffers W') = queued (w_buffers W)
        else w_failed W' = true /\ evs = [EvFail] /\ w_buffers W' = w_buffers W.
  Proof.
    intros (Hb & Hc & Hf & Hr) Hi Hres. unfold writbuf, writbuf_gen. rewrite Hres, Hi. cbn [negb].
    destruct (w_curr W) as [WB|] eqn:Ec; [|congruence].
    destruct (w_failed W) eqn:Ef; [specialize (Hf eq_refl); congruence|].
    destruct (v =? Z.of_nat (length (wb_data WB)))%Z eqn:Ev; cbn [negb].
    - set (W1 := mkW false false (w_buffers W) false None).
      assert (I1 : winv W1) by (unfold winv, W1; cbn; repeat split; auto; discriminate).
      destruct (poke_ok W1 netw I1 eq_refl) as (W' & rc & evs & Ep & I' & F' & R' & Q' & N' & Z' & _).
      exists W', rc, evs. split; [exact Ep|]. split; [exact I'|]. split; [exact R'|].
      split; [reflexivity|]. exists WB. split; [reflexivity|]. rewrite Ev. auto.
    - eexists _, _, _. split; [reflexivity|].
      split; [unfold winv; cbn; repeat split; auto; discriminate|].
      split; [reflexivity|]. split; [reflexivity|]. exists WB. split; [reflexivity|]. rewrite Ev. auto.
  Qed.

  (* ---------------------------------------------------------------- histories *)
  Inductive wop :=
  | WoWrite (bytes : list N) (a1 a2 netw : bool)     (* netbuf_write_write, with the outcomes of its allocations *)
  | WoReserve (len : nat) (a1 a2 : bool)
  | WoConsume (bytes : list N) (netw : bool)         (* the application stored bytes, then consume(length bytes) *)
  | WoDone (v : Z) (netw : bool).                    (* the in-flight network_write reports v *)

  (* the API rules of netbuf.h and C04: write/reserve only while nothing is reserved; consume only
     with a reservation, at most the reserved room; no return to the event loop while reserved;
     a completion only for a write that is in flight *)
  Definition wenv_ok (W : nbw) (op : wop) : Prop :=
    match op with
    | WoWrite _ _ _ _ => w_reserved W = false
    | WoReserve _ _ _ => w_reserved W = false
    | WoConsume bytes _ =>
      w_reserved W = true /\ exists WB, last_buf W = Some WB /\ length bytes <= room WB
    | WoDone _ _ => w_inflight W = true /\ w_reserved W = false
    end.

  Definition wstep (W : nbw) (op : wop) : res (nbw * Z * list wevent) :=
    match op with
    | WoWrite bytes a1 a2 netw => write wbuflen W bytes a1 a2 netw
    | WoReserve len a1 a2 =>
      match reserve wbuflen W len a1 a2 with
      | Ok (W', ok) => Ok (W', if ok then 0%Z else (-1)%Z, [])
      | Fault => Fault | AssertFail => AssertFail | OutOfFuel => OutOfFuel
      end
    | WoConsume bytes netw => consume W bytes netw
    | WoDone v netw => writbuf W v netw
    end.

  (* the bytes an operation adds to the stream the peer is entitled to (a prefix of) *)
  Definition accepted (W : nbw) (op : wop) : list N :=
    match op with
    | WoWrite bytes a1 a2 _ =>
      if w_failed W then [] else if reserve_succeeds W (length bytes) a1 a2 then bytes else []
    | WoConsume bytes _ => if w_failed W then [] else bytes
    | _ => []
    end.

  (* ghost history: buffers handed to network_write in order, accepted bytes, fail callbacks *)
  Definition ghost_ok (W : nbw) (starts : list (list N)) (acc : list N) (nf : nat) : Prop :=
    (w_failed W = false -> concat starts ++ queued (w_buffers W) = acc /\ nf = 0) /\
    (w_failed W = true -> nf = 1 /\ exists rest, acc = concat starts ++ rest) /\
    Forall nonempty starts.

  Lemma wstep_ok W op starts acc nf :
    winv W -> ghost_ok W starts acc nf -> wenv_ok W op ->
    exists W' rc evs, wstep W op = Ok (W', rc, evs) /\ winv W' /\
      ghost_ok W' (starts ++ starts_of evs) (acc ++ accepted W op) (nf + fails_of evs) /\
      (w_failed W = true -> evs = [] /\ w_failed W' = true).
  Proof.
    intros I (Gn & Gf & Gs) E.
    destruct op as [bytes a1 a2 netw|len a1 a2|bytes netw|v netw]; cbn [wenv_ok wstep accepted] in *.
    - destruct (write_ok W bytes a1 a2 netw I E) as (W' & rc & evs & Ew & I' & F' & R' & Q' & N' & Z' & S').
      exists W', rc, evs. split; [exact Ew|]. split; [exact I'|]. split.
      + unfold ghost_ok. rewrite F', Z', Nat.add_0_r. split; [|split].
        * intros Hf. destruct (Gn Hf) as (A & B). split; [|exact B].
          rewrite concat_app, <- app_assoc, Q', Hf, app_assoc, A. reflexivity.
        * intros Hf. destruct (Gf Hf) as (A & rest & B). destruct (S' Hf) as (_ & -> & _).
          split; [exact A|]. exists rest. rewrite Hf. cbn. rewrite !app_nil_r. exact B.
        * apply Forall_app. split; assumption.
      + intros Hf. destruct (S' Hf) as (_ & A & _). split; [exact A|congruence].
    - destruct (reserve_ok W len a1 a2 I E) as (W' & ok & Er & I' & F' & _ & _ & Q' & _ & _).
      rewrite Er. eexists _, _, _. split; [reflexivity|]. split; [exact I'|]. split.
      + unfold ghost_ok. cbn [starts_of flat_map fails_of filter length]. rewrite F', Q', !app_nil_r, Nat.add_0_r.
        split; [exact Gn|]. split; [exact Gf|exact Gs].
      + intros Hf. split; [reflexivity|congruence].
    - destruct E as (Hres & WB & El & Hroom).
      destruct (consume_ok W bytes netw WB I Hres El Hroom) as (W' & rc & evs & Ec & I' & F' & R' & Q' & N' & Z' & S').
      exists W', rc, evs. split; [exact Ec|]. split; [exact I'|]. split.
      + unfold ghost_ok. rewrite F', Z', Nat.add_0_r. split; [|split].
        * intros Hf. destruct (Gn Hf) as (A & B). split; [|exact B].
          rewrite concat_app, <- app_assoc, Q', Hf, app_assoc, A. reflexivity.
        * intros Hf. destruct (Gf Hf) as (A & rest & B). destruct (S' Hf) as (-> & _).
          split; [exact A|]. exists rest. rewrite Hf. cbn. rewrite !app_nil_r. exact B.
        * apply Forall_app. split; assumption.
      + intros Hf. destruct (S' Hf) as (A & _). split; [exact A|congruence].
    - destruct E as (Hi & Hres).
      destruct (writbuf_ok W v netw I Hi Hres) as (W' & rc & evs & Ew & I' & R' & Fn & WB & Ec & Hv).
      exists W', rc, evs. split; [exact Ew|]. split; [exact I'|]. split.
      + destruct (Gn Fn) as (A & B). rewrite app_nil_r.
        destruct (v =? Z.of_nat (length (wb_data WB)))%Z.
        * destruct Hv as (F' & Z' & N' & Q'). unfold ghost_ok. rewrite F', Z', Nat.add_0_r.
          split; [|split].
          -- intros _. split; [|exact B]. rewrite concat_app, <- app_assoc, Q'. exact A.
          -- discriminate.
          -- apply Forall_app. split; assumption.
        * destruct Hv as (F' & -> & Q'). unfold ghost_ok. rewrite F'.
          cbn [starts_of flat_map fails_of filter length]. rewrite app_nil_r.
          split; [discriminate|]. split; [|exact Gs].
          intros _. split; [lia|]. exists (queued (w_buffers W)). symmetry. exact A.
      + intros Hf. congruence.
  Qed.

  Fixpoint wrun (W : nbw) (starts : list (list N)) (acc : list N) (nf : nat) (ops : list wop)
    : res (nbw * list (list N) * list N * nat) :=
    match ops with
    | [] => Ok (W, starts, acc, nf)
    | op :: r =>
      match wstep W op with
      | Ok (W', _, evs) => wrun W' (starts ++ starts_of evs) (acc ++ accepted W op) (nf + fails_of evs) r
      | Fault => Fault | AssertFail => AssertFail | OutOfFuel => OutOfFuel
      end
    end.

  Fixpoint whist_ok (W : nbw) (ops : list wop) : Prop :=
    match ops with
    | [] => True
    | op :: r => wenv_ok W op /\ match wstep W op with Ok (W', _, _) => whist_ok W' r | _ => True end
    end.

  Lemma writer_history_gen : forall ops W starts acc nf,
    winv W -> ghost_ok W starts acc nf -> whist_ok W ops ->
    exists W' starts' acc' nf',
      wrun W starts acc nf ops = Ok (W', starts', acc', nf') /\ winv W' /\ ghost_ok W' starts' acc' nf'.
  Proof.
    induction ops as [|op r IH]; intros W starts acc nf I G H.
    - eexists _, _, _, _. split; [reflexivity|]. auto.
    - cbn [whist_ok] in H. destruct H as (E & H).
      destruct (wstep_ok W op starts acc nf I G E) as (W' & rc & evs & Es & I' & G' & _).
      rewrite Es in H. cbn [wrun]. rewrite Es. apply IH; assumption.
  Qed.

  (* C07-M3 + writer_total, from a fresh writer, for every history that respects the API *)
  Theorem writer_history_lemma : forall ops W0,
    nbw_init true = Some W0 -> whist_ok W0 ops ->
    exists W starts acc nf,
      (* no Fault, no failed assert, whatever the sizes (0 included) and allocation outcomes *)
      wrun W0 [] [] 0 ops = Ok (W, starts, acc, nf) /\
      (* no zero-length network_write *)
      Forall nonempty starts /\
      (* prefix property; equality with everything still queued while no failure occurred *)
      (exists rest, acc = concat starts ++ rest) /\
      (w_failed W = false -> acc = concat starts ++ queued (w_buffers W) /\ nf = 0) /\
      (* the fail callback fired exactly once iff the writer failed *)
      (w_failed W = true -> nf = 1) /\
      (* the queue invariant holds at the end: the per-operation theorems apply to W again *)
      winv W.
  Proof.
    intros ops W0 H0 H. destruct (init_winv _ _ H0) as (I0 & B0 & F0).
    assert (G0 : ghost_ok W0 [] [] 0).
    { unfold ghost_ok. rewrite F0, B0. repeat split; auto; discriminate. }
    destruct (writer_history_gen ops W0 [] [] 0 I0 G0 H) as (W & starts & acc & nf & E & I & (Gn & Gf & Gs)).
    exists W, starts, acc, nf. split; [exact E|]. split; [exact Gs|].
    split; [|split; [|split]].
    - destruct (w_failed W) eqn:Ef.
      + destruct (Gf eq_refl) as (_ & rest & A). eauto.
      + destruct (Gn eq_refl) as (A & _). eauto.
    - intros Hf. destruct (Gn Hf) as (A & B). auto.
    - intros Hf. apply (Gf Hf).
    - exact I.
  Qed.

  (* after the first failure: nothing more is handed to network_write, no second fail callback,
     and netbuf_write_write returns 0 and changes nothing *)
  Theorem failed_is_sticky_lemma W op :
    winv W -> w_failed W = true -> wenv_ok W op ->
    exists W' rc, wstep W op = Ok (W', rc, []) /\ w_failed W' = true /\
      match op with WoWrite _ _ _ _ => W' = W /\ rc = 0%Z | _ => True end.
  Proof.
    intros I Hf E.
    assert (G : ghost_ok W [] [] 1).
    { unfold ghost_ok. split; [intros X; congruence|].
      split; [intros _; split; [reflexivity|exists []; reflexivity]|constructor]. }
    destruct (wstep_ok W op [] [] 1 I G E) as (W' & rc & evs & Es & _ & _ & S).
    destruct (S Hf) as (-> & F'). exists W', rc. split; [exact Es|]. split; [exact F'|].
    destruct op as [bytes a1 a2 netw| | |]; auto.
    cbn [wstep wenv_ok] in *.
    destruct (write_ok W bytes a1 a2 netw I E) as (W2 & rc2 & evs2 & Ew & _ & _ & _ & _ & _ & _ & S2).
    destruct (S2 Hf) as (-> & _ & ->). rewrite Ew in Es. inversion Es; subst. auto.
  Qed.

  (* C14: a refused allocation in netbuf_write_reserve changes nothing; in particular the
     reservation flag stays clear and the writer stays usable *)
  Theorem reserve_failure_clean_lemma W len a1 a2 W' :
    winv W -> w_reserved W = false ->
    reserve wbuflen W len a1 a2 = Ok (W', false) -> W' = W.
  Proof.
    intros I Hres E. destruct (reserve_ok W len a1 a2 I Hres) as (W2 & ok & E2 & _ & _ & _ & _ & _ & _ & Hno).
    rewrite E in E2. inversion E2; subst. apply Hno. reflexivity.
  Qed.
End Proofs.

(* ---------------------------------------------------------------- composition with C06-M2 *)
(* What reaches the socket: every network_write the writer started, except possibly the last one
   it ever starts, completed with its whole buffer (writbuf fails the writer otherwise and nothing
   is started after that); of the last one C06-M2 says a prefix p of its buffer was handed to
   send.  So the wire is the first i buffers and a prefix of the (i+1)-th - and that is a prefix
   of everything the writer accepted. *)
Lemma concat_split_nth (starts : list (list N)) : forall i p q,
  i < length starts -> nth i starts [] = p ++ q ->
  concat starts = (concat (firstn i starts) ++ p) ++ q ++ concat (skipn (S i) starts).
Proof.
  induction starts as [|x r IH]; intros i p q Hi Hn; simpl in Hi; [lia|].
  destruct i as [|i]; simpl in *.
  - subst x. rewrite <- app_assoc. reflexivity.
  - rewrite (IH i p q ltac:(lia) Hn). rewrite <- !app_assoc. reflexivity.
Qed.

Theorem wire_is_prefix_of_accepted_lemma : forall (starts : list (list N)) acc rest i p q wire,
  acc = concat starts ++ rest ->
  (i < length starts /\ nth i starts [] = p ++ q /\ wire = concat (firstn i starts) ++ p) \/
  (wire = concat starts) ->
  exists rest', acc = wire ++ rest'.
Proof.
  intros starts acc rest i p q wire Ha [(Hi & Hn & Hw)|Hw]; subst acc wire.
  - rewrite (concat_split_nth starts i p q Hi Hn).
    exists ((q ++ concat (skipn (S i) starts)) ++ rest). rewrite <- !app_assoc. reflexivity.
  - eexists. reflexivity.
Qed.

(* ---------------------------------------------------------------- regression examples (old code) *)
(* F3: before the repair a zero-length write on an idle writer reached network_write with
   length 0, whose assert(buflen != 0) aborts *)
Example old_poke_aborts_on_zero_length_write :
  write_old_poke 4096 (mkW false false [] false None) [] true true true = AssertFail.
Proof. vm_compute. reflexivity. Qed.

(* ... and the repaired poke does not *)
Example poke_survives_zero_length_write :
  write 4096 (mkW false false [] false None) [] true true true = Ok (mkW false false [] false None, 0%Z, []).
Proof. vm_compute. reflexivity. Qed.

(* F6: before the repair a refused allocation left reserved = 1, and the completion of the write
   in flight then hit assert(W->reserved == 0) *)
Example old_reserve_failure_then_abort :
  let W1 := mkW false false [] true (Some (mkWB [65%N] 4096)) in       (* "A" in flight *)
  exists W2, reserve_old 4096 W1 1 false true = Ok (W2, false) /\ w_reserved W2 = true /\
             writbuf W2 1%Z true = AssertFail.
Proof. eexists. vm_compute. repeat split; reflexivity. Qed.

Example reserve_failure_now_harmless :
  let W1 := mkW false false [] true (Some (mkWB [65%N] 4096)) in
  exists W2, reserve 4096 W1 1 false true = Ok (W2, false) /\ W2 = W1 /\
             writbuf W2 1%Z true = Ok (mkW false false [] false None, 0%Z, []).
Proof. eexists. vm_compute. repeat split; reflexivity. Qed.

(* non-vacuity: a history with zero-length writes / consumes, coalescing, a buffer above
   WBUFLEN, partial progress and a transport failure satisfies whist_ok *)
Example writer_history_nonvacuous :
  let ops := [WoWrite [] true true true; WoReserve 10 true true; WoConsume [] true;
              WoWrite [1;2;3]%N true true true; WoWrite [4]%N true true true;
              WoReserve 5000 true true; WoConsume [5;6]%N true; WoDone 3%Z true;
              WoWrite [] true true true; WoDone (-1)%Z true; WoWrite [7]%N true true true] in
  whist_ok 4096 (mkW false false [] false None) ops /\
  exists W, wrun 4096 (mkW false false [] false None) [] [] 0 ops =
            Ok (W, [[1;2;3]; [4]]%N, [1;2;3;4;5;6]%N, 1) /\ w_failed W = true.
Proof.
  cbn zeta. split.
  - vm_compute. repeat split; try reflexivity; eexists; split; try reflexivity; vm_compute; lia.
  - eexists. vm_compute. split; reflexivity.
Qed.

(* ---------------------------------------------------------------- the queue drains; completions are paired with starts *)
Section Progress.
  Variable wbuflen : nat.

  (* what poke does to the buffer in flight *)
  Lemma poke_curr W netw W' rc evs :
    winv W -> poke W netw = Ok (W', rc, evs) ->
    (evs = [] /\ w_curr W' = w_curr W /\ w_inflight W' = w_inflight W) \/
    (exists WB, evs = [EvStart (wb_data WB)] /\ w_curr W = None /\ w_curr W' = Some WB /\ netw = true /\
                w_failed W = false).
  Proof.
    intros (Hb & Hc & Hf & Hr). unfold poke.
    destruct (w_inflight W) eqn:Ei; cbn [orb].
    { intros H; inversion H; subst. left; auto. }
    destruct (w_buffers W) as [|b0 r0] eqn:Eb.
    { intros H; inversion H; subst. left; auto. }
    destruct (w_failed W) eqn:Ef.
    { intros H; inversion H; subst. left; auto. }
    destruct (w_curr W) as [WB|] eqn:Ec; [discriminate|].
    destruct (discard_empty (b0 :: r0)) as [|WB rest].
    { intros H; inversion H; subst. left; cbn; auto. }
    destruct (length (wb_data WB) =? 0); [discriminate|].
    destruct netw; cbn [negb]; intros H; inversion H; subst.
    - right. exists WB. cbn. auto.
    - left; cbn; auto.
  Qed.

  (* with a transport that accepts the write, poke leaves either a write in flight or no data queued *)
  Lemma poke_drains W W' rc evs :
    winv W -> w_failed W = false -> poke W true = Ok (W', rc, evs) ->
    w_inflight W' = true \/ queued (w_buffers W') = [].
  Proof.
    intros (Hb & Hc & Hf & Hr) Hnf. unfold poke. rewrite Hnf.
    destruct (w_inflight W) eqn:Ei; cbn [orb].
    { intros H; inversion H; subst. left; exact Ei. }
    destruct (w_buffers W) as [|b0 r0] eqn:Eb.
    { intros H; inversion H; subst. right. rewrite Eb. reflexivity. }
    destruct (w_curr W) as [WB|] eqn:Ec; [discriminate|].
    destruct (discard_empty (b0 :: r0)) as [|WB rest].
    { intros H; inversion H; subst. right. reflexivity. }
    destruct (length (wb_data WB) =? 0); [discriminate|].
    cbn [negb]. intros H; inversion H; subst. left. reflexivity.
  Qed.

  (* netbuf_write_consume is poke on the writer with the bytes appended and the reservation cleared *)
  Lemma consume_as_poke W bytes netw WB :
    winv W -> w_reserved W = true -> last_buf W = Some WB -> length bytes <= room WB ->
    exists W1, winv W1 /\ w_failed W1 = w_failed W /\ w_inflight W1 = w_inflight W /\
               w_curr W1 = w_curr W /\ w_reserved W1 = false /\ consume W bytes netw = poke W1 netw.
  Proof.
    intros (Hb & Hc & Hf & Hr) Hres El Hroom. unfold consume, consume_gen. rewrite Hres, El. cbn [negb].
    destruct (room WB <? length bytes) eqn:E; [apply Nat.ltb_lt in E; lia|].
    destruct (last_buf_some _ _ El) as (bs & Ebs).
    exists (mkW false (w_failed W)
                (if w_failed W then w_buffers W else append_last (w_buffers W) bytes)
                (w_inflight W) (w_curr W)).
    split; [|repeat split; reflexivity].
    unfold winv; cbn [w_buffers w_curr w_inflight w_failed w_reserved].
    split; [|split; [exact Hc|split; [exact Hf|discriminate]]].
    destruct (w_failed W); [exact Hb|]. rewrite Ebs, append_last_app.
    rewrite Ebs in Hb. apply Forall_app in Hb. destruct Hb as (H1 & H2). inversion H2; subst.
    apply Forall_app. split; [exact H1|]. constructor; [|constructor].
    unfold buf_ok, room in *; cbn. rewrite app_length. lia.
  Qed.

  Lemma wstep_winv W op :
    winv W -> wenv_ok W op -> exists W' rc evs, wstep wbuflen W op = Ok (W', rc, evs) /\ winv W'.
  Proof.
    intros I E.
    assert (G : ghost_ok W [] (queued (w_buffers W)) (if w_failed W then 1 else 0)).
    { unfold ghost_ok. destruct (w_failed W).
      - split; [discriminate|]. split; [|constructor]. intros _. split; [reflexivity|]. eexists. reflexivity.
      - split; [intros _; split; reflexivity|]. split; [discriminate|constructor]. }
    destruct (wstep_ok wbuflen W op _ _ _ I G E) as (W' & rc & evs & Es & I' & _). eauto.
  Qed.

  (* ---- what one operation does to the buffer in flight *)
  Lemma wstep_curr W op W' rc evs :
    winv W -> wenv_ok W op -> wstep wbuflen W op = Ok (W', rc, evs) ->
    match op with
    | WoDone v _ =>
      exists WB0, w_curr W = Some WB0 /\ w_failed W = false /\
        if (v =? Z.of_nat (length (wb_data WB0)))%Z
        then w_failed W' = false /\
             ((evs = [] /\ w_curr W' = None) \/ (exists WB, evs = [EvStart (wb_data WB)] /\ w_curr W' = Some WB))
        else evs = [EvFail] /\ w_curr W' = None /\ w_failed W' = true
    | _ =>
      w_failed W' = w_failed W /\
      ((evs = [] /\ w_curr W' = w_curr W) \/
       (exists WB, evs = [EvStart (wb_data WB)] /\ w_curr W = None /\ w_failed W = false /\ w_curr W' = Some WB))
    end.
  Proof.
    intros I E H. destruct op as [bytes a1 a2 netw|len a1 a2|bytes netw|v netw]; cbn [wenv_ok wstep] in *.
    - destruct (write_ok wbuflen W bytes a1 a2 netw I E) as (W2 & rc2 & evs2 & Ew & _ & F' & _).
      rewrite H in Ew. inversion Ew; subst W2 rc2 evs2. split; [exact F'|].
      unfold write, write_gen in H. destruct (w_failed W) eqn:Ef.
      { inversion H; subst. left; auto. }
      destruct (reserve_ok wbuflen W (length bytes) a1 a2 I E) as (W1 & ok & Er & I1 & F1 & In1 & C1 & Q1 & Hok & Hno).
      fold (reserve wbuflen W (length bytes) a1 a2) in H. rewrite Er in H. destruct ok.
      + destruct (Hok eq_refl) as (R1 & WB & El & Hroom).
        destruct (consume_as_poke W1 bytes netw WB I1 R1 El Hroom) as (W1' & I1' & Fa & Ia & Ca & Ra & Ep).
        fold (consume W1 bytes netw) in H. rewrite Ep in H.
        destruct (poke_curr W1' netw W' rc evs I1' H) as [(A & B & _)|(WB' & A & B & C & _ & D)].
        * left. split; [exact A|congruence].
        * right. exists WB'. repeat split; auto; congruence.
      + inversion H; subst. left. rewrite (Hno eq_refl). auto.
    - destruct (reserve_ok wbuflen W len a1 a2 I E) as (W1 & ok & Er & I1 & F1 & In1 & C1 & _).
      rewrite Er in H. inversion H; subst. split; [exact F1|]. left; auto.
    - destruct E as (Hres & WB & El & Hroom).
      destruct (consume_ok W bytes netw WB I Hres El Hroom) as (W2 & rc2 & evs2 & Ec & _ & F' & _).
      rewrite H in Ec. inversion Ec; subst W2 rc2 evs2. split; [exact F'|].
      destruct (consume_as_poke W bytes netw WB I Hres El Hroom) as (W1' & I1' & Fa & Ia & Ca & Ra & Ep).
      rewrite Ep in H.
      destruct (poke_curr W1' netw W' rc evs I1' H) as [(A & B & _)|(WB' & A & B & C & _ & D)].
      + left. split; [exact A|congruence].
      + right. exists WB'. repeat split; auto; congruence.
    - destruct E as (Hi & Hres). destruct I as (Hb & Hc & Hf & Hr).
      unfold writbuf, writbuf_gen in H. rewrite Hres, Hi in H. cbn [negb] in H.
      destruct (w_curr W) as [WB|] eqn:Ec; [|destruct Hc; congruence].
      destruct (w_failed W) eqn:Ef; [specialize (Hf eq_refl); congruence|].
      exists WB. split; [reflexivity|]. split; [reflexivity|].
      destruct (v =? Z.of_nat (length (wb_data WB)))%Z; cbn [negb] in H.
      + set (W1 := mkW false false (w_buffers W) false None) in *.
        assert (I1 : winv W1) by (unfold winv, W1; cbn; repeat split; auto; discriminate).
        destruct (poke_ok W1 netw I1 eq_refl) as (W2 & rc2 & evs2 & Ep & _ & F' & _).
        rewrite H in Ep. inversion Ep; subst W2 rc2 evs2. split; [exact F'|].
        destruct (poke_curr W1 netw W' rc evs I1 H) as [(A & B & _)|(WB' & A & B & C & _)].
        * left. auto.
        * right. exists WB'. auto.
      + inversion H; subst. cbn. auto.
  Qed.

  (* ---- (a) the queue drains *)
  (* the transport never refuses and never fails: every network_write can be started and every
     completion reports the whole length of the buffer it completes (the one in flight) *)
  Definition transport_good (W : nbw) (op : wop) : Prop :=
    match op with
    | WoWrite _ _ _ netw => netw = true
    | WoReserve _ _ _ => True
    | WoConsume _ netw => netw = true
    | WoDone v netw => netw = true /\ exists WB, w_curr W = Some WB /\ v = Z.of_nat (length (wb_data WB))
    end.

  Fixpoint thist_good (W : nbw) (ops : list wop) : Prop :=
    match ops with
    | [] => True
    | op :: r =>
      transport_good W op /\ match wstep wbuflen W op with Ok (W', _, _) => thist_good W' r | _ => True end
    end.

  Definition dinv (W : nbw) : Prop :=
    w_failed W = false /\ (w_inflight W = false -> queued (w_buffers W) = []).

  Lemma wstep_drains W op W' rc evs :
    winv W -> dinv W -> wenv_ok W op -> transport_good W op ->
    wstep wbuflen W op = Ok (W', rc, evs) -> dinv W'.
  Proof.
    intros I (Dn & Dq) E T H.
    destruct op as [bytes a1 a2 netw|len a1 a2|bytes netw|v netw]; cbn [wenv_ok wstep transport_good] in *.
    - subst netw. unfold write, write_gen in H. rewrite Dn in H.
      destruct (reserve_ok wbuflen W (length bytes) a1 a2 I E) as (W1 & ok & Er & I1 & F1 & In1 & C1 & Q1 & Hok & Hno).
      fold (reserve wbuflen W (length bytes) a1 a2) in H. rewrite Er in H. destruct ok.
      + destruct (Hok eq_refl) as (R1 & WB & El & Hroom).
        destruct (consume_as_poke W1 bytes true WB I1 R1 El Hroom) as (W1' & I1' & Fa & Ia & Ca & Ra & Ep).
        fold (consume W1 bytes true) in H. rewrite Ep in H.
        assert (Fn : w_failed W1' = false) by congruence.
        destruct (poke_ok W1' true I1' Ra) as (W2 & rc2 & evs2 & Ep2 & _ & F' & _).
        rewrite H in Ep2. inversion Ep2; subst W2 rc2 evs2.
        split; [congruence|]. destruct (poke_drains W1' W' rc evs I1' Fn H); [congruence|auto].
      + inversion H; subst. rewrite (Hno eq_refl). split; assumption.
    - destruct (reserve_ok wbuflen W len a1 a2 I E) as (W1 & ok & Er & I1 & F1 & In1 & C1 & Q1 & _).
      rewrite Er in H. inversion H; subst. split; [congruence|]. rewrite In1, Q1. exact Dq.
    - subst netw. destruct E as (Hres & WB & El & Hroom).
      destruct (consume_as_poke W bytes true WB I Hres El Hroom) as (W1' & I1' & Fa & Ia & Ca & Ra & Ep).
      rewrite Ep in H. assert (Fn : w_failed W1' = false) by congruence.
      destruct (poke_ok W1' true I1' Ra) as (W2 & rc2 & evs2 & Ep2 & _ & F' & _).
      rewrite H in Ep2. inversion Ep2; subst W2 rc2 evs2.
      split; [congruence|]. destruct (poke_drains W1' W' rc evs I1' Fn H); [congruence|auto].
    - destruct T as (-> & WB & Ec & ->). destruct E as (Hi & Hres). destruct I as (Hb & Hc & Hf & Hr).
      unfold writbuf, writbuf_gen in H. rewrite Hres, Hi, Ec, Dn, Z.eqb_refl in H. cbn [negb] in H.
      set (W1 := mkW false false (w_buffers W) false None) in *.
      assert (I1 : winv W1) by (unfold winv, W1; cbn; repeat split; auto; discriminate).
      destruct (poke_ok W1 true I1 eq_refl) as (W2 & rc2 & evs2 & Ep2 & _ & F' & _).
      rewrite H in Ep2. inversion Ep2; subst W2 rc2 evs2.
      split; [exact F'|]. destruct (poke_drains W1 W' rc evs I1 eq_refl H); [congruence|auto].
  Qed.

  Lemma writer_drains_gen : forall ops W starts acc nf,
    winv W -> dinv W -> whist_ok wbuflen W ops -> thist_good W ops ->
    forall W' s' a' n', wrun wbuflen W starts acc nf ops = Ok (W', s', a', n') -> dinv W'.
  Proof.
    induction ops as [|op r IH]; intros W starts acc nf I D H T W' s' a' n' E.
    - cbn in E. inversion E; subst. exact D.
    - cbn [whist_ok thist_good wrun] in *. destruct H as (Eo & H). destruct T as (To & T).
      destruct (wstep_winv W op I Eo) as (W1 & rc & evs & Es & I1). rewrite Es in H, T, E.
      eapply IH; [exact I1| |exact H|exact T|exact E].
      exact (wstep_drains W op W1 rc evs I D Eo To Es).
  Qed.

  (* C07 "the whole of it when the transport never fails", liveness half: from a fresh writer,
     along every history in which the transport accepts every network_write and completes each
     with its whole length, the writer never fails, and whenever no write is in flight nothing is
     queued: everything accepted has been handed to network_write *)
  Theorem writer_drains_lemma : forall ops W0,
    nbw_init true = Some W0 -> whist_ok wbuflen W0 ops -> thist_good W0 ops ->
    exists W starts acc nf,
      wrun wbuflen W0 [] [] 0 ops = Ok (W, starts, acc, nf) /\
      w_failed W = false /\ nf = 0 /\
      (w_inflight W = false -> queued (w_buffers W) = [] /\ acc = concat starts).
  Proof.
    intros ops W0 H0 H T. destruct (init_winv _ _ H0) as (I0 & B0 & F0).
    destruct (writer_history_lemma wbuflen ops W0 H0 H) as (W & starts & acc & nf & E & _ & _ & Hn & _).
    assert (D0 : dinv W0) by (split; [exact F0|intros _; rewrite B0; reflexivity]).
    destruct (writer_drains_gen ops W0 [] [] 0 I0 D0 H T W starts acc nf E) as (Dn & Dq).
    exists W, starts, acc, nf. split; [exact E|]. split; [exact Dn|].
    destruct (Hn Dn) as (A & B). split; [exact B|].
    intros Hi. split; [exact (Dq Hi)|]. rewrite A, (Dq Hi). apply app_nil_r.
  Qed.

  (* ---- (b) every completion belongs to the start it completes *)
  (* completions that report the whole length of the buffer in flight *)
  Definition full_done (W : nbw) (op : wop) : nat :=
    match op with
    | WoDone v _ =>
      match w_curr W with
      | Some WB => if (v =? Z.of_nat (length (wb_data WB)))%Z then 1 else 0
      | None => 0
      end
    | _ => 0
    end.

  Fixpoint wrun_done (W : nbw) (ops : list wop) : nat :=
    match ops with
    | [] => 0
    | op :: r =>
      match wstep wbuflen W op with
      | Ok (W', _, _) => full_done W op + wrun_done W' r
      | _ => 0
      end
    end.

  (* nd completions in full so far: the buffer in flight is the (nd+1)-th and last one handed to
     network_write; with nothing in flight all nd were completed, unless the writer failed, which
     it did on the last one *)
  Definition paired (W : nbw) (starts : list (list N)) (nd : nat) : Prop :=
    match w_curr W with
    | Some WB => length starts = S nd /\ nth nd starts [] = wb_data WB /\ w_failed W = false
    | None => if w_failed W then length starts = S nd else length starts = nd
    end.

  Lemma wstep_paired W op W' rc evs starts nd :
    winv W -> wenv_ok W op -> paired W starts nd -> wstep wbuflen W op = Ok (W', rc, evs) ->
    paired W' (starts ++ starts_of evs) (nd + full_done W op).
  Proof.
    intros I E P H. pose proof (wstep_curr W op W' rc evs I E H) as C.
    unfold paired in *.
    destruct op as [bytes a1 a2 netw|len a1 a2|bytes netw|v netw]; cbn [full_done].
    1,2,3: destruct C as (F' & [(-> & Cc)|(WB & -> & Cn & Fn & Cc)]);
      [ cbn [starts_of flat_map]; rewrite app_nil_r, Nat.add_0_r, Cc, F'; exact P
      | rewrite Cc, Cn, Fn in *; cbn [starts_of flat_map app]; rewrite app_length, Nat.add_0_r; cbn [length];
        rewrite app_nth2 by lia; replace (nd - length starts) with 0 by lia; cbn;
        repeat split; auto; try lia; congruence ].
    destruct C as (WB0 & Ec & Fn & C). rewrite Ec, Fn in *. destruct P as (Pl & Pn & _).
    destruct (v =? Z.of_nat (length (wb_data WB0)))%Z.
    - destruct C as (F' & [(-> & Cc)|(WB & -> & Cc)]); rewrite Cc, ?F'.
      + cbn [starts_of flat_map]. rewrite app_nil_r. lia.
      + cbn [starts_of flat_map app]. rewrite app_length. cbn [length].
        rewrite app_nth2 by lia. replace (nd + 1 - length starts) with 0 by lia. cbn.
        repeat split; auto; lia.
    - destruct C as (-> & Cc & F'). rewrite Cc, F'. cbn [starts_of flat_map]. rewrite app_nil_r. lia.
  Qed.

  Lemma writer_paired_gen : forall ops W starts acc nf nd,
    winv W -> paired W starts nd -> whist_ok wbuflen W ops ->
    forall W' s' a' n', wrun wbuflen W starts acc nf ops = Ok (W', s', a', n') ->
    paired W' s' (nd + wrun_done W ops).
  Proof.
    induction ops as [|op r IH]; intros W starts acc nf nd I P H W' s' a' n' E.
    - cbn in *. inversion E; subst. rewrite Nat.add_0_r. exact P.
    - cbn [whist_ok wrun wrun_done] in *. destruct H as (Eo & H).
      destruct (wstep_winv W op I Eo) as (W1 & rc & evs & Es & I1). rewrite Es in H, E. rewrite Es.
      rewrite Nat.add_assoc.
      eapply IH; [exact I1| |exact H|exact E].
      exact (wstep_paired W op W1 rc evs starts nd I Eo P Es).
  Qed.

  (* From a fresh writer, along every history: a completion is compared with the length of THE
     buffer in flight, which is the last buffer handed to network_write; nd = number of
     completions so far that reported that whole length.  Then exactly the first nd buffers have
     been completed in full, at most one more has been handed over (in flight, or the one whose
     completion failed the writer), and nothing is handed over after a failure. *)
  Theorem writer_paired_lemma : forall ops W0,
    nbw_init true = Some W0 -> whist_ok wbuflen W0 ops ->
    exists W starts acc nf,
      wrun wbuflen W0 [] [] 0 ops = Ok (W, starts, acc, nf) /\
      paired W starts (wrun_done W0 ops) /\
      wrun_done W0 ops <= length starts <= S (wrun_done W0 ops).
  Proof.
    intros ops W0 H0 H. destruct (init_winv _ _ H0) as (I0 & B0 & F0).
    destruct (writer_history_lemma wbuflen ops W0 H0 H) as (W & starts & acc & nf & E & _).
    assert (P0 : paired W0 [] 0).
    { unfold nbw_init in H0. inversion H0; subst. reflexivity. }
    pose proof (writer_paired_gen ops W0 [] [] 0 0 I0 P0 H W starts acc nf E) as P. cbn [Nat.add] in P.
    exists W, starts, acc, nf. split; [exact E|]. split; [exact P|].
    unfold paired in P. destruct (w_curr W); [destruct P as (A & _); lia|destruct (w_failed W); lia].
  Qed.

  (* composition with C06-M2 without an assumed shape of the wire: the first nd buffers were
     completed in full, so all their bytes were handed to send; of the one after them (if any:
     in flight, or failed) C06-M2 says a prefix p was.  That wire is a prefix of the accepted bytes. *)
  Theorem writer_wire_prefix_lemma : forall ops W0,
    nbw_init true = Some W0 -> whist_ok wbuflen W0 ops ->
    exists W starts acc nf,
      wrun wbuflen W0 [] [] 0 ops = Ok (W, starts, acc, nf) /\
      let nd := wrun_done W0 ops in
      forall p q, (nd < length starts -> nth nd starts [] = p ++ q) ->
        exists rest, acc = (concat (firstn nd starts) ++ (if nd <? length starts then p else [])) ++ rest.
  Proof.
    intros ops W0 H0 H.
    destruct (init_winv _ _ H0) as (I0 & B0 & F0).
    destruct (writer_history_lemma wbuflen ops W0 H0 H) as (W & starts & acc & nf & E & _ & (rest & Ha) & _).
    assert (P0 : paired W0 [] 0).
    { unfold nbw_init in H0. inversion H0; subst. reflexivity. }
    pose proof (writer_paired_gen ops W0 [] [] 0 0 I0 P0 H W starts acc nf E) as P. cbn [Nat.add] in P.
    assert (Hle : wrun_done W0 ops <= length starts).
    { unfold paired in P. destruct (w_curr W); [destruct P as (A & _); lia|destruct (w_failed W); lia]. }
    exists W, starts, acc, nf. split; [exact E|]. cbn zeta. intros p q Hp.
    destruct (wrun_done W0 ops <? length starts) eqn:Lt.
    - apply Nat.ltb_lt in Lt.
      apply (wire_is_prefix_of_accepted_lemma starts acc rest (wrun_done W0 ops) p q _ Ha).
      left. auto.
    - apply Nat.ltb_ge in Lt.
      apply (wire_is_prefix_of_accepted_lemma starts acc rest 0 [] [] _ Ha).
      right. rewrite firstn_all2 by lia. apply app_nil_r.
  Qed.

  (* chainable form of failed_is_sticky: the invariant is kept, so the statement applies again *)
  Theorem failed_is_sticky_inv_lemma W op :
    winv W -> w_failed W = true -> wenv_ok W op ->
    exists W' rc, wstep wbuflen W op = Ok (W', rc, []) /\ winv W' /\ w_failed W' = true /\
      match op with WoWrite _ _ _ _ => W' = W /\ rc = 0%Z | _ => True end.
  Proof.
    intros I Hf E.
    destruct (failed_is_sticky_lemma wbuflen W op I Hf E) as (W' & rc & Es & F' & M).
    destruct (wstep_winv W op I E) as (W2 & rc2 & evs2 & Es2 & I2).
    rewrite Es in Es2. inversion Es2; subst. exists W2, rc2. auto.
  Qed.
End Progress.

(* non-vacuity: a history with a zero-length write, a buffer above WBUFLEN and queued buffers satisfies
   whist_ok and thist_good, and ends drained *)
Example writer_drains_nonvacuous :
  let W0 := mkW false false [] false None in
  let ops := [WoWrite [1;2;3]%N true true true; WoWrite [4]%N true true true;
              WoReserve 5000 true true; WoConsume [5;6]%N true; WoDone 3%Z true;
              WoWrite [] true true true; WoDone 1%Z true; WoDone 2%Z true] in
  whist_ok 4096 W0 ops /\ thist_good 4096 W0 ops /\ wrun_done 4096 W0 ops = 3 /\
  exists W, wrun 4096 W0 [] [] 0 ops = Ok (W, [[1;2;3]; [4]; [5;6]]%N, [1;2;3;4;5;6]%N, 0) /\
            w_inflight W = false.
Proof.
  cbn zeta. split; [|split; [|split]].
  - vm_compute. repeat split; try reflexivity; eexists; split; try reflexivity; vm_compute; lia.
  - vm_compute. repeat split; try reflexivity; eexists; split; reflexivity.
  - vm_compute. reflexivity.
  - eexists. vm_compute. split; reflexivity.
Qed.
