(* netbuf/netbuf_read.c: the buffered reader on a record that mirrors struct netbuf_read.
   Buffer accesses go through [sub] (checked: Fault outside the allocation), asserts are
   AssertFail.  The transport below (network_read) is abstract here: [nbr_wait] says which
   network_read it starts, [nbr_callback_read] takes what that read reported.
   The started read ([WRead off max min], the act returned by [nbr_wait]) is what netbuf_read_wait
   hands to WHICHEVER transport is configured: network_read(R->s, ...) for a reader on a descriptor,
   (netbuf_read_ssl_func)(R->ssl, ...) for one made by netbuf_read_init2(-1, ctx) - the C computes
   the same three arguments in both branches; likewise [nbr_cancel] stands for network_read_cancel
   or (netbuf_read_ssl_cancel_func).  The C driver runs every scenario over both.
   Also the abstract stream (spec).  No proofs in this file. *)
From Coq Require Import NArith ZArith List Bool Arith.
From LCP Require Import Base.CheckedMem Net.NetRW.
Import ListNotations.
Local Open Scope nat_scope.

(* checked access to buf[off .. off+n) *)
Definition sub (buf : list N) (off n : nat) : res (list N) :=
  if off + n <=? length buf then Ok (firstn n (skipn off buf)) else Fault.

(* checked store of bs at buf[off ..) *)
Definition store (buf : list N) (off : nat) (bs : list N) : res (list N) :=
  if off + length bs <=? length buf then Ok (write_at buf off bs) else Fault.

Record nbr := mkR {
  r_buf : list N;        (* the allocation R->buf, exactly buflen bytes *)
  r_buflen : nat;
  r_bufpos : nat;
  r_datalen : nat;
  r_reading : bool;      (* R->read_cookie != NULL *)
  r_imm : bool }.        (* R->immediate_cookie != NULL *)

Inductive waitact :=
| WImm                              (* events_immediate_register(callback_success, R, 0) *)
| WRead (off max min : nat).        (* network_read(s, &buf[off], max, min, callback_read, R) *)

Section Reader.
  Variable init_len : nat.          (* 4096 *)
  Variable grow : nat.              (* 2 *)

  (* netbuf_read_init2: two allocations *)
  Definition nbr_init (alloc_R alloc_buf : bool) : option nbr :=
    if alloc_R && alloc_buf then Some (mkR (repeat 0%N init_len) init_len 0 0 false false) else None.

  Definition nbr_peek (R : nbr) : res (list N) :=
    sub (r_buf R) (r_bufpos R) (r_datalen R - r_bufpos R).

  (* netbuf_read_resize_buffer; None = malloc refused *)
  Definition nbr_resize (R : nbr) (len : nat) (alloc_ok : bool) : res (option nbr) :=
    let nbuflen := if r_buflen R * grow <? len then len else r_buflen R * grow in
    if negb alloc_ok then Ok None
    else
      match sub (r_buf R) (r_bufpos R) (r_datalen R - r_bufpos R) with
      | Ok data =>
        (* memcpy(nbuf, &R->buf[R->bufpos], R->datalen - R->bufpos) into a block of nbuflen bytes *)
        match store (repeat 0%N nbuflen) 0 data with
        | Ok nbuf => Ok (Some (mkR nbuf nbuflen 0 (r_datalen R - r_bufpos R) (r_reading R) (r_imm R)))
        | Fault => Fault | AssertFail => AssertFail | OutOfFuel => OutOfFuel
        end
      | Fault => Fault | AssertFail => AssertFail | OutOfFuel => OutOfFuel
      end.

  (* memmove(R->buf, &R->buf[R->bufpos], R->datalen - R->bufpos) *)
  Definition nbr_compact (R : nbr) : res nbr :=
    match sub (r_buf R) (r_bufpos R) (r_datalen R - r_bufpos R) with
    | Ok data =>
      match store (r_buf R) 0 data with
      | Ok nbuf => Ok (mkR nbuf (r_buflen R) 0 (r_datalen R - r_bufpos R) (r_reading R) (r_imm R))
      | Fault => Fault | AssertFail => AssertFail | OutOfFuel => OutOfFuel
      end
    | Fault => Fault | AssertFail => AssertFail | OutOfFuel => OutOfFuel
    end.

  (* outcomes of the allocations / registrations netbuf_read_wait may perform *)
  Record woracle := mkWO { wo_imm : bool; wo_alloc : bool; wo_read : bool }.
  Definition wo_all : woracle := mkWO true true true.

  (* the tail of netbuf_read_wait: start the network_read; None = returned -1 *)
  Definition nbr_start_read (R : nbr) (len : nat) (o : woracle) : res (nbr * option waitact) :=
    let max := r_buflen R - r_datalen R in
    let min := r_bufpos R + len - r_datalen R in
    if max =? 0 then AssertFail                            (* network_read: assert(buflen != 0) *)
    else if length (r_buf R) <? r_datalen R + max then Fault   (* &buf[datalen] .. + max leaves the block *)
    else if negb (wo_read o) then Ok (R, None)
    else Ok (mkR (r_buf R) (r_buflen R) (r_bufpos R) (r_datalen R) true (r_imm R),
             Some (WRead (r_datalen R) max min)).

  (* netbuf_read_wait(R, len, callback, cookie) *)
  Definition nbr_wait (R : nbr) (len : nat) (o : woracle) : res (nbr * option waitact) :=
    if r_reading R then AssertFail
    else if r_imm R then AssertFail
    else if len <=? r_datalen R - r_bufpos R then
      (if wo_imm o
       then Ok (mkR (r_buf R) (r_buflen R) (r_bufpos R) (r_datalen R) (r_reading R) true, Some WImm)
       else Ok (R, None))
    else
      let resized :=
        if r_buflen R <? len then nbr_resize R len (wo_alloc o) else Ok (Some R) in
      match resized with
      | Ok None => Ok (R, None)
      | Ok (Some R1) =>
        let compacted :=
          if r_buflen R1 - r_bufpos R1 <? len then nbr_compact R1 else Ok R1 in
        match compacted with
        | Ok R2 => nbr_start_read R2 len o
        | Fault => Fault | AssertFail => AssertFail | OutOfFuel => OutOfFuel
        end
      | Fault => Fault | AssertFail => AssertFail | OutOfFuel => OutOfFuel
      end.

  (* callback_success *)
  Definition nbr_callback_success (R : nbr) : res (nbr * Z) :=
    if negb (r_imm R) then AssertFail
    else Ok (mkR (r_buf R) (r_buflen R) (r_bufpos R) (r_datalen R) (r_reading R) false, 0%Z).

  (* callback_read(R, lenread): [slice] is what the network_read left in its target range
     &buf[datalen] .. (it stored there whatever recv returned, also on EOF / error paths) *)
  Definition nbr_callback_read (R : nbr) (slice : list N) (lenread : Z) : res (nbr * Z) :=
    if negb (r_reading R) then AssertFail
    else
      match store (r_buf R) (r_datalen R) slice with
      | Ok nbuf =>
        if (lenread <? 0)%Z then
          Ok (mkR nbuf (r_buflen R) (r_bufpos R) (r_datalen R) false (r_imm R), (-1)%Z)
        else if (lenread =? 0)%Z then
          Ok (mkR nbuf (r_buflen R) (r_bufpos R) (r_datalen R) false (r_imm R), 1%Z)
        else
          Ok (mkR nbuf (r_buflen R) (r_bufpos R) (r_datalen R + Z.to_nat lenread) false (r_imm R), 0%Z)
      | Fault => Fault | AssertFail => AssertFail | OutOfFuel => OutOfFuel
      end.

  (* netbuf_read_wait_cancel: (network_read_cancel?, events_immediate_cancel?) *)
  Definition nbr_cancel (R : nbr) : nbr * (bool * bool) :=
    (mkR (r_buf R) (r_buflen R) (r_bufpos R) (r_datalen R) false false, (r_reading R, r_imm R)).

  (* netbuf_read_consume *)
  Definition nbr_consume (R : nbr) (len : nat) : res nbr :=
    if r_datalen R - r_bufpos R <? len then AssertFail
    else Ok (mkR (r_buf R) (r_buflen R) (r_bufpos R + len) (r_datalen R) (r_reading R) (r_imm R)).

  (* netbuf_read_free *)
  Definition nbr_free (R : nbr) : res unit :=
    if r_reading R then AssertFail else if r_imm R then AssertFail else Ok tt.
End Reader.

(* ---------------------------------------------------------------- spec: the abstract stream *)
Record stream := mkS { arrived : list N; consumed : nat }.
Definition s_peek (s : stream) : list N := skipn (consumed s) (arrived s).
Definition s_arrive (s : stream) (bs : list N) : stream := mkS (arrived s ++ bs) (consumed s).
Definition s_consume (s : stream) (j : nat) : stream := mkS (arrived s) (consumed s + j).
Definition s_available (s : stream) : nat := length (arrived s) - consumed s.
