(* netbuf/netbuf_write.c: the buffered writer on a record that mirrors struct netbuf_write.
   A struct writebuf is (the datalen valid bytes, buflen).  The transport (network_write) is
   abstract: [poke] says which buffer it hands to network_write, [writbuf] takes the reported
   length.  That buffer ([EvStart data]: WB->buf with length = minimum = datalen) is what poke
   hands to WHICHEVER transport is configured - network_write(W->s, ...) or, for a writer made by
   netbuf_write_init2(-1, ctx, ...), (netbuf_write_ssl_func)(W->ssl, ...); the C computes the same
   arguments in both branches and the C driver runs every scenario over both.  [poke_old] / [reserve_old] are the functions as they were before the two repairs
   (F3, F6); they are used only by regression Examples.  No proofs in this file. *)
From Coq Require Import NArith ZArith List Bool Arith.
From LCP Require Import Base.CheckedMem.
Import ListNotations.
Local Open Scope nat_scope.

Record wbuf := mkWB { wb_data : list N; wb_buflen : nat }.

Record nbw := mkW {
  w_reserved : bool;
  w_failed : bool;
  w_buffers : list wbuf;          (* STAILQ, head first *)
  w_inflight : bool;              (* W->write_cookie != NULL *)
  w_curr : option wbuf }.

(* what a call did that is visible outside the writer *)
Inductive wevent :=
| EvStart (data : list N)         (* network_write(s, WB->buf, datalen, datalen, writbuf, W) *)
| EvFail.                         (* (W->fail_callback)(W->fail_cookie) *)

Definition nbw_init (alloc_ok : bool) : option nbw :=
  if alloc_ok then Some (mkW false false [] false None) else None.

(* while ((WB = STAILQ_FIRST)->datalen == 0) { remove; free; if (EMPTY) return 0; } *)
Fixpoint discard_empty (bs : list wbuf) : list wbuf :=
  match bs with
  | [] => []
  | b :: r => if length (wb_data b) =? 0 then discard_empty r else bs
  end.

Section Writer.
  Variable wbuflen : nat.         (* WBUFLEN *)

  (* poke(W); netw_ok = network_write managed to allocate and register.  Result: state, return
     code, events *)
  Definition poke (W : nbw) (netw_ok : bool) : res (nbw * Z * list wevent) :=
    if w_inflight W || (match w_buffers W with [] => true | _ => false end) then Ok (W, 0%Z, [])
    else if w_failed W then Ok (W, 0%Z, [])
    else match w_curr W with
         | Some _ => AssertFail                                   (* assert(W->curr == NULL) *)
         | None =>
           match discard_empty (w_buffers W) with
           | [] => Ok (mkW (w_reserved W) (w_failed W) [] (w_inflight W) None, 0%Z, [])
           | WB :: rest =>
             if length (wb_data WB) =? 0 then AssertFail          (* network_write: assert(buflen != 0) *)
             else if negb netw_ok then
               Ok (mkW (w_reserved W) (w_failed W) (WB :: rest) (w_inflight W) None, (-1)%Z, [])
             else
               Ok (mkW (w_reserved W) (w_failed W) rest true (Some WB), 0%Z, [EvStart (wb_data WB)])
           end
         end.

  (* poke as it was before "must not launch a zero-length network write" *)
  Definition poke_old (W : nbw) (netw_ok : bool) : res (nbw * Z * list wevent) :=
    if w_inflight W || (match w_buffers W with [] => true | _ => false end) then Ok (W, 0%Z, [])
    else if w_failed W then Ok (W, 0%Z, [])
    else match w_curr W with
         | Some _ => AssertFail
         | None =>
           match w_buffers W with
           | [] => Ok (W, 0%Z, [])
           | WB :: rest =>
             if length (wb_data WB) =? 0 then AssertFail
             else if negb netw_ok then Ok (W, (-1)%Z, [])
             else Ok (mkW (w_reserved W) (w_failed W) rest true (Some WB), 0%Z, [EvStart (wb_data WB)])
           end
         end.

  Definition room (WB : wbuf) : nat := wb_buflen WB - length (wb_data WB).

  Definition last_buf (W : nbw) : option wbuf := last (map Some (w_buffers W)) None.

  (* netbuf_write_reserve(W, len): a1 = malloc(sizeof(struct writebuf)), a2 = malloc(buflen).
     true = a pointer was returned *)
  Definition reserve_gen (clear_on_fail : bool) (W : nbw) (len : nat) (a1 a2 : bool) : res (nbw * bool) :=
    if w_reserved W then AssertFail
    else
      let W1 := mkW true (w_failed W) (w_buffers W) (w_inflight W) (w_curr W) in
      let Wfail := mkW (negb clear_on_fail) (w_failed W) (w_buffers W) (w_inflight W) (w_curr W) in
      let fresh :=
        if negb a1 then Ok (Wfail, false)
        else if negb a2 then Ok (Wfail, false)
        else Ok (mkW true (w_failed W)
                     (w_buffers W ++ [mkWB [] (if wbuflen <? len then len else wbuflen)])
                     (w_inflight W) (w_curr W), true) in
      match last_buf W with
      | Some WB => if len <=? room WB then Ok (W1, true) else fresh
      | None => fresh
      end.

  Definition reserve := reserve_gen true.
  Definition reserve_old := reserve_gen false.      (* before the F6 repair *)

  Fixpoint append_last (bs : list wbuf) (bytes : list N) : list wbuf :=
    match bs with
    | [] => []
    | [b] => [mkWB (wb_data b ++ bytes) (wb_buflen b)]
    | b :: r => b :: append_last r bytes
    end.

  (* netbuf_write_consume(W, len) after the application stored [bytes] (len = length bytes)
     into the reserved space *)
  Definition consume_gen (pk : nbw -> bool -> res (nbw * Z * list wevent))
    (W : nbw) (bytes : list N) (netw_ok : bool) : res (nbw * Z * list wevent) :=
    if negb (w_reserved W) then AssertFail
    else match last_buf W with
         | None => AssertFail
         | Some WB =>
           if room WB <? length bytes then AssertFail
           else
             let bufs := if w_failed W then w_buffers W else append_last (w_buffers W) bytes in
             pk (mkW false (w_failed W) bufs (w_inflight W) (w_curr W)) netw_ok
         end.

  Definition consume := consume_gen poke.

  (* netbuf_write_write(W, buf, buflen) *)
  Definition write_gen (rs : nbw -> nat -> bool -> bool -> res (nbw * bool))
    (pk : nbw -> bool -> res (nbw * Z * list wevent))
    (W : nbw) (bytes : list N) (a1 a2 netw_ok : bool) : res (nbw * Z * list wevent) :=
    if w_failed W then Ok (W, 0%Z, [])
    else match rs W (length bytes) a1 a2 with
         | Ok (W1, true) => consume_gen pk W1 bytes netw_ok
         | Ok (W1, false) => Ok (W1, (-1)%Z, [])
         | Fault => Fault | AssertFail => AssertFail | OutOfFuel => OutOfFuel
         end.

  Definition write := write_gen reserve poke.
  Definition write_old_poke := write_gen reserve poke_old.

  (* writbuf(W, writelen): the callback of the in-flight network_write *)
  Definition writbuf_gen (pk : nbw -> bool -> res (nbw * Z * list wevent))
    (W : nbw) (writelen : Z) (netw_ok : bool) : res (nbw * Z * list wevent) :=
    if w_reserved W then AssertFail
    else if negb (w_inflight W) then AssertFail
    else match w_curr W with
         | None => AssertFail
         | Some WB =>
           if w_failed W then AssertFail
           else
             let failed := negb (writelen =? Z.of_nat (length (wb_data WB)))%Z in
             let W1 := mkW false failed (w_buffers W) false None in
             if failed then Ok (W1, 0%Z, [EvFail])
             else pk W1 netw_ok
         end.

  Definition writbuf := writbuf_gen poke.

  (* netbuf_write_free: true = an in-flight network_write had to be cancelled *)
  Definition nbw_free (W : nbw) : bool := w_inflight W.
End Writer.
