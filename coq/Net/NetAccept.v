(* network/network_accept.c: callback_accept as a function of the kernel's answer to accept(2).
   No proofs in this file. *)
From Coq Require Import NArith ZArith List Bool Arith.
From LCP Require Import Base.CheckedMem.
Import ListNotations.

Inductive aanswer :=
| AAccepted (s : nat)     (* accept returned the new descriptor s *)
| AErrno (e : N).         (* accept returned -1 with errno e *)

Inductive accaction :=
| AccRearm                (* tryagain: events_network_register succeeded, callback_accept returns 0 *)
| AccRearmFailed          (* tryagain: the registration failed; callback_accept returns -1, no user
                             callback, the cookie stays allocated (DESIGN 6, "not findings") *)
| AccCallback (v : Z).    (* user callback with s (or -1), cookie freed *)

Section Accept.
  Variable retry : list N.
  Definition acc_is_retry (e : N) : bool := existsb (N.eqb e) retry.

  (* network_accept(fd, callback, cookie): malloc + events_network_register *)
  Definition network_accept (cookie_ok reg_ok : bool) : bool := cookie_ok && reg_ok.

  Definition accept_cb (ans : aanswer) (reg_ok : bool) : accaction :=
    match ans with
    | AErrno e =>
      if acc_is_retry e then (if reg_ok then AccRearm else AccRearmFailed)
      else AccCallback (-1)%Z                          (* s == -1 is passed upstream *)
    | AAccepted s => AccCallback (Z.of_nat s)
    end.

  (* result: number of accept(2) calls made, and how the request ended:
     None = still registered; Some (Some v) = user callback v; Some None = re-registration failed *)
  Fixpoint accept_run (answers : list (aanswer * bool)) : nat * option (option Z) :=
    match answers with
    | [] => (0, None)
    | (a, reg_ok) :: r =>
      match accept_cb a reg_ok with
      | AccRearm => let (n, fin) := accept_run r in (S n, fin)
      | AccRearmFailed => (1, Some None)
      | AccCallback v => (1, Some (Some v))
      end
    end.

  (* life cycle with cancel, as in NetRW: inputs offered to an empty slot are ignored *)
  Inductive ainput := AInAnswer (a : aanswer) (reg_ok : bool) | AInCancel.
  Inductive aobs := ObsAccept | ObsAccCallback (v : Z) | ObsAccCancelled | ObsAccRegFailed.

  Definition acc_life_step (armed : bool) (i : ainput) : bool * list aobs :=
    match armed, i with
    | false, _ => (false, [])
    | true, AInCancel => (false, [ObsAccCancelled])
    | true, AInAnswer a reg_ok =>
      match accept_cb a reg_ok with
      | AccRearm => (true, [ObsAccept])
      | AccRearmFailed => (false, [ObsAccept; ObsAccRegFailed])
      | AccCallback v => (false, [ObsAccept; ObsAccCallback v])
      end
    end.

  Fixpoint acc_life (armed : bool) (ins : list ainput) : bool * list aobs :=
    match ins with
    | [] => (armed, [])
    | i :: r =>
      let (s1, o1) := acc_life_step armed i in
      let (s2, o2) := acc_life s1 r in (s2, o1 ++ o2)
    end.
End Accept.
