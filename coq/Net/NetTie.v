(* Lemmas that tie the regenerated constants of Gen/Repo_net.v to the values the property texts
   name, non-vacuity examples for the hypotheses of the Net theorems, and the refutation of the
   strict reading of C07 for histories that cancel a wait after a partial arrival (F9). *)
From Coq Require Import NArith ZArith List Bool Arith Lia.
From LCP Require Import Base.CheckedMem Gen.Repo_net Net.NetRW Net.NetAccept Net.NetConnect.
From LCP Require Import Net.NetbufRead Net.NetbufWrite Net.NetWorld.
From LCP Require Import Net.NetRWProofs Net.NetAcceptProofs Net.NetConnectProofs Net.NetbufReadProofs.
From LCP Require Import Net.NetWorldProofs.
Import ListNotations.

(* ---------------------------------------------------------------- retry sets *)
Ltac retry_set :=
  let e := fresh "e" in let H := fresh "H" in
  intros e; split; intros H;
  [ cbn in H; repeat (apply orb_true_iff in H; destruct H as [H|H]); try discriminate;
    apply N.eqb_eq in H; subst; cbn; auto 10
  | repeat (destruct H as [H|H]); subst; reflexivity ].

(* network_read retries exactly on EAGAIN, EWOULDBLOCK, EINTR: everything else is a hard error *)
Lemma read_retry_set : forall e,
  is_retry read_retry e = true <-> (e = EAGAIN \/ e = EWOULDBLOCK \/ e = EINTR).
Proof. retry_set. Qed.

Lemma write_retry_set : forall e,
  is_retry write_retry e = true <-> (e = EAGAIN \/ e = EWOULDBLOCK \/ e = EINTR).
Proof. retry_set. Qed.

Lemma accept_retry_set : forall e,
  acc_is_retry accept_retry e = true <-> (e = EAGAIN \/ e = EWOULDBLOCK \/ e = ECONNABORTED \/ e = EINTR).
Proof. retry_set. Qed.

(* hard errors named by the property text are not retried *)
Example hard_errors_not_retried :
  is_retry read_retry ECONNRESET = false /\ is_retry write_retry EPIPE = false /\
  acc_is_retry accept_retry EMFILE = false.
Proof. repeat split; reflexivity. Qed.

Lemma wbuflen_pos : (0 < N.to_nat WBUFLEN)%nat.
Proof. vm_compute. lia. Qed.
Lemma wbuflen_is_4096 : WBUFLEN = 4096%N.
Proof. reflexivity. Qed.
Lemma rbuf_init_is_4096 : RBUF_INIT = 4096%N.
Proof. reflexivity. Qed.
Lemma rbuf_init_pos : (0 < N.to_nat RBUF_INIT)%nat.
Proof. vm_compute. lia. Qed.
Lemma rbuf_grow_is_2 : RBUF_GROW = 2%N.
Proof. reflexivity. Qed.

(* ---------------------------------------------------------------- non-vacuity *)
Local Open Scope nat_scope.

(* a read of (buflen 8, min 5): 2 bytes, EAGAIN, EINTR, 4 bytes (terminal), more data never read *)
Example read_instance :
  let l := [(RData [1;2]%N, true); (RErrno EAGAIN, true); (RErrno EINTR, true);
            (RData [3;4;5;6]%N, true); (RData [7]%N, true)] in
  kernel_ok read_retry 8 5 0 l /\
  first_terminal read_retry 5 0 l = Some 3 /\
  exists C', read_run read_retry (mkRd (repeat 238%N 8) 8 5 0) l =
             ([(0, 8); (2, 6); (2, 6); (2, 6)], Some (6%Z, C')) /\
             rd_buf C' = [1;2;3;4;5;6;238;238]%N.
Proof. cbn zeta. split; [cbn; repeat split; try lia; intros; try discriminate|]. split; [reflexivity|]. eexists. split; reflexivity. Qed.

Example write_instance :
  let buf := [10;11;12;13;14;15]%N in
  let l := [(SSent 2, true); (SErrno EWOULDBLOCK, true); (SSent 4, true)] in
  wkernel_ok write_retry 6 6 0 l /\
  exists C', write_run write_retry (mkWr buf 6 6 0) l =
             Ok ([(0, 6); (2, 4); (2, 4)], buf, Some (6%Z, C')).
Proof. cbn zeta. split; [cbn; repeat split; try lia; intros; try discriminate|]. eexists. reflexivity. Qed.

(* EOF and hard error instances *)
Example read_eof_and_error :
  snd (read_run read_retry (mkRd [0;0;0]%N 3 3 0) [(RData [9]%N, true); (RData [], true)]) =
    Some (0%Z, mkRd [9;0;0]%N 3 3 1) /\
  snd (read_run read_retry (mkRd [0;0;0]%N 3 3 0) [(RData [9]%N, true); (RErrno ECONNRESET, true)]) =
    Some ((-1)%Z, mkRd [9;0;0]%N 3 3 1).
Proof. split; reflexivity. Qed.

(* connect: fail-now, async error, timeout, then success; the later success is never tried *)
Example connect_instance :
  let sas := [OSockFail; OConnFail ECONNREFUSED; OPending EINPROGRESS (LErr ECONNREFUSED);
              OPending EINPROGRESS LNever; OPending EINPROGRESS LOk; OPending EINPROGRESS LOk] in
  Forall wf_outcome sas /\ Forall (no_hang true) sas /\
  winner 0 sas = Some 3 /\ reached sas = 5 /\
  exists t, conn_run true sas = Ok (t, Finished 0%Z) /\ callbacks t = [Some 3] /\ closes t = [0; 1; 2].
Proof.
  cbn zeta. split; [repeat constructor; cbn; discriminate|]. split; [repeat constructor|].
  split; [reflexivity|]. split; [reflexivity|]. eexists. split; [vm_compute; reflexivity|]. split; reflexivity.
Qed.

Example connect_all_fail_instance :
  exists t, conn_run false [OSetupFail; OPending 0%N (LErr ETIMEDOUT)] = Ok (t, Finished 0%Z) /\
            callbacks t = [None] /\ closes t = [0; 1].
Proof. eexists. split; [vm_compute; reflexivity|]. split; reflexivity. Qed.

(* reader: a history with growth (k >> 4096 is the same code path as k > buflen; buflen 8 here),
   compaction, partial arrival, EOF *)
Example reader_history_instance :
  let R0 := mkR (repeat 0%N 8) 8 0 0 false false in
  let ops := [RoWait 3 wo_all; RoDone [1;2;3;4;5;0;0;0]%N 5%Z; RoConsume 4;
              RoWait 7 wo_all; RoDone [6;7;8;9;10;11;12]%N 7%Z; RoConsume 2;
              RoWait 20 wo_all; RoDone (repeat 0%N 14) 0%Z; RoWait 1 wo_all; RoImm; RoCancel] in
  rinv R0 /\ hist_ok 2 R0 ops /\
  exists R, rrun 2 R0 ops = Ok R /\ view R = [7;8;9;10;11;12]%N /\ r_buflen R = 20.
Proof.
  cbn zeta. split; [unfold rinv; cbn; lia|]. split.
  - vm_compute. repeat split; try reflexivity; try lia; intros; try discriminate.
  - eexists. split; [vm_compute; reflexivity|]. split; reflexivity.
Qed.

(* ---------------------------------------------------------------- F9: cancel after a partial arrival *)
(* The strict reading of C07 ("nothing lost" for histories that contain cancel) is false for the
   code as it is: run on the composed model (reader + network_read machine + scripted kernel)
   the replay of corpus/net/cancel_partial_loss.case.  The peer sent 0,1,...,15; nothing was
   consumed; after the cancelled wait the reader shows 6,7,...,15: bytes 0..5, which the
   cancelled network_read had already received, are gone. *)
Definition f9_script : list op :=
  [OpNrInit 5; OpNrWait 10 []; OpFeed 5 false [KData [0;1;2;3;4;5]%N]; OpRun; OpNrCancel;
   OpNrWait 10 []; OpFeed 5 false [KData [6;7;8;9;10;11;12;13;14;15]%N]; OpRun].

Definition f9_log : list logitem :=
  run_script read_retry write_retry accept_retry (N.to_nat WBUFLEN) (N.to_nat RBUF_INIT)
             (N.to_nat RBUF_GROW) 238%N 1000 f9_script.

Definition last_peek (log : list logitem) : option (list N) :=
  fold_left (fun acc i => match i with LgPeek pk => Some pk | _ => acc end) log None.

(* strict statement: with nothing consumed, the reader shows a prefix of what the peer sent *)
Definition strict_prefix_ok (sent : list N) (log : list logitem) : Prop :=
  match last_peek log with Some pk => pk = firstn (length pk) sent | None => True end.

Definition f9_sent : list N := [0;1;2;3;4;5;6;7;8;9;10;11;12;13;14;15]%N.

Lemma reader_cancel_partial_loss_refuted_lemma :
  last_peek f9_log = Some [6;7;8;9;10;11;12;13;14;15]%N /\ ~ strict_prefix_ok f9_sent f9_log.
Proof.
  assert (E : last_peek f9_log = Some [6;7;8;9;10;11;12;13;14;15]%N) by (vm_compute; reflexivity).
  split; [exact E|].
  unfold strict_prefix_ok. rewrite E. unfold f9_sent. cbn [length firstn]. intros H. discriminate.
Qed.

(* ---------------------------------------------------------------- end-of-stream / error after a partial arrival *)
(* Same mechanism as F9, without any cancel: the peer sends 0,1,2 and closes while the application
   waits for 5 bytes.  The network_read started by the wait receives the 3 bytes into the reader's
   buffer, then sees end-of-stream and reports 0 (its contract: 0 on EOF, whatever arrived before);
   callback_read does not advance datalen, so the wait callback gets status 1 with NONE of the 3
   bytes visible: "exactly the bytes the peer sent up to the point where end-of-stream is
   reported" is false of the code in its strict reading.  Witness = corpus/net/eof_partial_loss.case
   run on the composed model. *)
Definition eof_script : list op :=
  [OpNrInit 5; OpNrWait 5 []; OpFeed 5 false [KData [0;1;2]%N; KData []]; OpRun; OpNrPeek].

Definition eof_log : list logitem :=
  run_script read_retry write_retry accept_retry (N.to_nat WBUFLEN) (N.to_nat RBUF_INIT)
             (N.to_nat RBUF_GROW) 238%N 1000 eof_script.

Definition eof_sent : list N := [0;1;2]%N.

(* status and view of the last wait callback *)
Definition last_nrcb (log : list logitem) : option (Z * list N) :=
  fold_left (fun acc i => match i with LgNrCb st pk => Some (st, pk) | _ => acc end) log None.

(* bytes recv delivered into the reader's buffer, by count *)
Definition nb_received (log : list logitem) : nat :=
  fold_left (fun n i => match i with LgRecv _ WhoNetbuf _ _ _ (RetN k) => n + k | _ => n end) log 0%nat.

(* strict statement: with nothing consumed, when end-of-stream (status 1) or an error (-1) is
   reported the reader shows everything the peer sent before it *)
Definition strict_eof_ok (sent : list N) (log : list logitem) : Prop :=
  match last_nrcb log with
  | Some (st, pk) => st <> 0%Z -> pk = sent
  | None => True
  end.

Lemma reader_eof_partial_loss_refuted_lemma :
  nb_received eof_log = 3%nat /\ last_nrcb eof_log = Some (1%Z, []) /\ last_peek eof_log = Some [] /\
  ~ strict_eof_ok eof_sent eof_log.
Proof.
  assert (E : last_nrcb eof_log = Some (1%Z, [])) by (vm_compute; reflexivity).
  split; [vm_compute; reflexivity|]. split; [exact E|]. split; [vm_compute; reflexivity|].
  unfold strict_eof_ok. rewrite E. unfold eof_sent. intros H.
  specialize (H ltac:(discriminate)). discriminate.
Qed.

(* ---------------------------------------------------------------- non-vacuity of the composed cancel theorems *)
(* corpus/net/rw_basic.case, last line: a read is cancelled after a partial arrival, a second read
   on the same descriptor is accepted and completes; no callback of request 1 *)
Example cancel_world_instance :
  let ops := [OpRead 1 5 8 8 []; OpFeed 5 false [KData [1;2;3]%N]; OpRun; OpCancel 1;
              OpRead 2 5 4 1 []; OpFeed 5 false [KData [4;5;6;7;8;9]%N]; OpRun] in
  world_events read_retry write_retry accept_retry (N.to_nat WBUFLEN) (N.to_nat RBUF_INIT)
               (N.to_nat RBUF_GROW) 238%N 1000 ops =
    [LgStart 0 1 true; LgRecv 5 (WhoUser 1) 8 0 8 (RetN 3); LgCancel 1; LgStart 0 2 true;
     LgRecv 5 (WhoUser 2) 4 0 4 (RetN 4); LgCb 2 4%Z (Some [4;5;6;7]%N)].
Proof. vm_compute. reflexivity. Qed.

(* connect: the hypotheses of C06_connect_first_success concern the addresses reached only.  The
   third address never answers and there is no timeout, but the second one connects first. *)
Example connect_unreached_instance :
  let sas := [OConnFail ECONNREFUSED; OPending EINPROGRESS LOk; OPending EINPROGRESS LNever] in
  reached sas = 2%nat /\ Forall (no_hang false) (firstn (reached sas) sas) /\ ~ Forall (no_hang false) sas /\
  exists t, conn_run false sas = Ok (t, Finished 0%Z) /\ callbacks t = [Some 1%nat].
Proof.
  cbn zeta. split; [reflexivity|]. split; [repeat constructor|]. split.
  - intros H. inversion H as [|? ? _ H1]; subst. inversion H1 as [|? ? _ H2]; subst.
    inversion H2 as [|? ? H3 _]; subst. cbn in H3. discriminate.
  - eexists. split; [vm_compute; reflexivity|]. reflexivity.
Qed.
