(* The composition that the life-cycle theorems of NetRWProofs / NetAcceptProofs leave open: in
   Net/NetWorld.v the request machines, the netbuf reader / writer, the registration slots of the
   event loop stand-in and the scripted kernel run together.  Proved here for EVERY script and every
   amount of fuel (invariant of the interpreter [go]):
     - at most one request is registered per (descriptor, direction);
     - a callback of user request id is logged only while a request with that id is registered:
       after "cancel id" no callback of id appears unless id is started again, and callbacks of
       id never outnumber its successful starts;
     - a cancel frees the slot: the next request on that (descriptor, direction) is accepted. *)
From Coq Require Import NArith ZArith List Bool Arith Lia.
From LCP Require Import Base.CheckedMem Net.NetRW Net.NetAccept Net.NetbufRead Net.NetbufWrite Net.NetWorld.
Import ListNotations.
Local Open Scope nat_scope.

Definition key (q : req) : nat * bool := (q_fd q, q_wr q).
Definition ucount (id : nat) (qs : list req) : nat := length (filter (is_user_id id) qs).

(* the log is kept newest first.  credits id log = successful starts of id since its last cancel
   that have not been used up by a callback of id *)
Fixpoint credits (id : nat) (log : list logitem) : nat :=
  match log with
  | [] => 0
  | LgStart _ i true :: r => if i =? id then S (credits id r) else credits id r
  | LgCancel i :: r => if i =? id then 0 else credits id r
  | LgCb i _ _ :: r => if i =? id then pred (credits id r) else credits id r
  | _ :: r => credits id r
  end.

(* every callback of id finds a credit: a successful start of id, after the last cancel of id,
   not yet answered by a callback *)
Fixpoint log_ok (log : list logitem) : Prop :=
  match log with
  | [] => True
  | LgCb i _ _ :: r => 0 < credits i r /\ log_ok r
  | _ :: r => log_ok r
  end.

Definition neutral (x : logitem) : bool :=
  match x with LgStart _ _ true | LgCancel _ | LgCb _ _ _ => false | _ => true end.

Definition WI (reqs : list req) (log : list logitem) : Prop :=
  NoDup (map key reqs) /\ log_ok log /\ forall id, ucount id reqs <= credits id log.

Definition winv (w : world) : Prop := WI (wd_reqs w) (wd_log w).

(* ---------------------------------------------------------------- list facts *)
Lemma same_slot_key a b : same_slot a b = true <-> key a = key b.
Proof.
  unfold same_slot, key. split.
  - intros H. apply andb_true_iff in H. destruct H as (A & B).
    apply Nat.eqb_eq in A. apply Bool.eqb_prop in B. congruence.
  - intros H. inversion H. rewrite Nat.eqb_refl, Bool.eqb_reflx. reflexivity.
Qed.

Lemma nodup_map_filter {A B} (f : A -> B) p l : NoDup (map f l) -> NoDup (map f (filter p l)).
Proof.
  induction l as [|x t IH]; cbn; intros H; [constructor|].
  inversion H; subst. destruct (p x); cbn; auto. constructor; auto.
  intros X. apply H2. apply in_map_iff in X. destruct X as (y & E & Y).
  apply filter_In in Y. apply in_map_iff. exists y. tauto.
Qed.

Lemma nodup_key_inj l a b : NoDup (map key l) -> In a l -> In b l -> key a = key b -> a = b.
Proof.
  induction l as [|x t IH]; cbn; intros H Ha Hb E; [contradiction|].
  inversion H; subst.
  destruct Ha as [->|Ha], Hb as [->|Hb]; auto.
  - exfalso. apply H2. rewrite E. apply in_map. exact Hb.
  - exfalso. apply H2. rewrite <- E. apply in_map. exact Ha.
Qed.

Lemma nodup_snoc {A} (l : list A) x : NoDup l -> ~ In x l -> NoDup (l ++ [x]).
Proof.
  induction l as [|y t IH]; cbn; intros H N; [constructor; [tauto|constructor]|].
  inversion H; subst. constructor.
  - intros X. apply in_app_or in X. destruct X as [X|[X|[]]]; [tauto|]. subst. tauto.
  - apply IH; tauto.
Qed.

Lemma ucount_app id a b : ucount id (a ++ b) = ucount id a + ucount id b.
Proof. unfold ucount. rewrite filter_app, app_length. reflexivity. Qed.

Lemma ucount_filter_le id p l : ucount id (filter p l) <= ucount id l.
Proof.
  unfold ucount. induction l as [|x t IH]; cbn; [lia|].
  destruct (p x), (is_user_id id x) eqn:E; cbn; rewrite ?E; cbn; lia.
Qed.

Lemma ucount_filter_out id p l q :
  In q l -> is_user_id id q = true -> p q = false -> S (ucount id (filter p l)) <= ucount id l.
Proof.
  unfold ucount. induction l as [|x t IH]; cbn; intros Hin Hu Hp; [contradiction|].
  destruct Hin as [->|Hin].
  - rewrite Hp, Hu. cbn. pose proof (ucount_filter_le id p t). unfold ucount in *. lia.
  - specialize (IH Hin Hu Hp). destruct (p x), (is_user_id id x) eqn:E; cbn; rewrite ?E; cbn; lia.
Qed.

Lemma ucount_cancel id l : ucount id (filter (fun q => negb (is_user_id id q)) l) = 0.
Proof.
  unfold ucount. induction l as [|x t IH]; cbn; [reflexivity|].
  destruct (is_user_id id x) eqn:E; cbn; [exact IH|]. rewrite E. exact IH.
Qed.

Lemma ucount_pos id l q : In q l -> is_user_id id q = true -> 0 < ucount id l.
Proof.
  unfold ucount. induction l as [|x t IH]; cbn; intros Hin Hu; [contradiction|].
  destruct Hin as [->|Hin]; [rewrite Hu; cbn; lia|].
  destruct (is_user_id id x); cbn; auto. lia.
Qed.

(* ---------------------------------------------------------------- how WI moves *)
Lemma WI_neutral x reqs log : neutral x = true -> WI reqs log -> WI reqs (x :: log).
Proof.
  intros N (A & B & C). split; [exact A|]. split.
  - destruct x; try destruct ok; try discriminate; exact B.
  - intros id. specialize (C id). destruct x; try destruct ok; try discriminate; exact C.
Qed.

Lemma WI_filter p reqs log : WI reqs log -> WI (filter p reqs) log.
Proof.
  intros (A & B & C). split; [apply nodup_map_filter; exact A|]. split; [exact B|].
  intros id. pose proof (ucount_filter_le id p reqs). specialize (C id). lia.
Qed.

Lemma WI_add_other q reqs log :
  (forall id, is_user_id id q = false) -> ~ In (key q) (map key reqs) -> WI reqs log -> WI (reqs ++ [q]) log.
Proof.
  intros U K (A & B & C). split; [|split; [exact B|]].
  - rewrite map_app. cbn [map]. apply nodup_snoc; assumption.
  - intros id. rewrite ucount_app. unfold ucount at 2. cbn. rewrite U. cbn. specialize (C id). lia.
Qed.

Lemma WI_add_user q id cont k reqs log :
  q_own q = OwnUser id cont -> ~ In (key q) (map key reqs) -> WI reqs log ->
  WI (reqs ++ [q]) (LgStart k id true :: log).
Proof.
  intros U K (A & B & C). split; [|split; [exact B|]].
  - rewrite map_app. cbn [map]. apply nodup_snoc; assumption.
  - intros id'. rewrite ucount_app. cbn [credits]. specialize (C id').
    assert (E : ucount id' [q] = if id =? id' then 1 else 0).
    { unfold ucount. cbn [filter]. unfold is_user_id. rewrite U. destruct (id =? id'); reflexivity. }
    rewrite E. destruct (id =? id'); lia.
Qed.

Lemma WI_cancel id reqs log :
  WI reqs log -> WI (filter (fun q => negb (is_user_id id q)) reqs) (LgCancel id :: log).
Proof.
  intros (A & B & C). split; [apply nodup_map_filter; exact A|]. split; [exact B|].
  intros id'. cbn [credits]. destruct (id =? id') eqn:E.
  - apply Nat.eqb_eq in E. subst. rewrite ucount_cancel. lia.
  - pose proof (ucount_filter_le id' (fun q => negb (is_user_id id q)) reqs). specialize (C id'). lia.
Qed.

(* the callback of a registered user request: the request leaves the slot, the callback is logged *)
Lemma WI_cb q id cont v b reqs log :
  In q reqs -> q_own q = OwnUser id cont -> WI reqs log ->
  WI (filter (fun x => negb (same_slot x q)) reqs) (LgCb id v b :: log).
Proof.
  intros Hin U (A & B & C).
  assert (Hu : is_user_id id q = true) by (unfold is_user_id; rewrite U; apply Nat.eqb_refl).
  assert (Hs : negb (same_slot q q) = false) by (rewrite (proj2 (same_slot_key q q) eq_refl); reflexivity).
  split; [apply nodup_map_filter; exact A|]. split.
  - cbn [log_ok]. split; [|exact B]. pose proof (ucount_pos id reqs q Hin Hu). specialize (C id). lia.
  - intros id'. cbn [credits]. destruct (id =? id') eqn:E.
    + apply Nat.eqb_eq in E. subst id'.
      pose proof (ucount_filter_out id (fun x => negb (same_slot x q)) reqs q Hin Hu Hs). specialize (C id). lia.
    + pose proof (ucount_filter_le id' (fun x => negb (same_slot x q)) reqs). specialize (C id'). lia.
Qed.

(* re-arming: the cookie of the registered request changes, nothing else *)
Lemma WI_replace q q' reqs log :
  In q reqs -> key q' = key q -> q_own q' = q_own q -> WI reqs log ->
  WI (map (fun x => if same_slot x q' then q' else x) reqs) log.
Proof.
  intros Hin K O (A & B & C).
  assert (Hk : map key (map (fun x => if same_slot x q' then q' else x) reqs) = map key reqs).
  { rewrite map_map. apply map_ext. intros x. destruct (same_slot x q') eqn:E; [|reflexivity].
    apply same_slot_key in E. congruence. }
  split; [rewrite Hk; exact A|]. split; [exact B|].
  intros id. specialize (C id).
  assert (Hu : ucount id (map (fun x => if same_slot x q' then q' else x) reqs) = ucount id reqs).
  { unfold ucount. clear C. assert (Hall : forall x, In x reqs -> is_user_id id (if same_slot x q' then q' else x) = is_user_id id x).
    { intros x Hx. destruct (same_slot x q') eqn:E; [|reflexivity].
      apply same_slot_key in E. assert (x = q) by (apply (nodup_key_inj reqs); auto; congruence). subst x.
      unfold is_user_id. rewrite O. reflexivity. }
    clear Hin A Hk. induction reqs as [|x t IH]; [reflexivity|]. cbn [map filter].
    rewrite (Hall x (or_introl eq_refl)).
    destruct (is_user_id id x); cbn [length]; rewrite IH; auto; intros y Hy; apply Hall; right; exact Hy. }
  lia.
Qed.

Lemma busy_false_key w fd wr : busy w fd wr = false -> ~ In (fd, wr) (map key (wd_reqs w)).
Proof.
  unfold busy. intros H X. apply in_map_iff in X. destruct X as (q & E & Hq).
  assert (existsb (fun q => (q_fd q =? fd) && Bool.eqb (q_wr q) wr) (wd_reqs w) = true).
  { apply existsb_exists. exists q. split; [exact Hq|]. unfold key in E. inversion E.
    rewrite Nat.eqb_refl, Bool.eqb_reflx. reflexivity. }
  congruence.
Qed.

Lemma pick_ready_in w : forall qs best q,
  pick_ready w qs best = Some q -> In q qs \/ best = Some q.
Proof.
  induction qs as [|x t IH]; cbn [pick_ready]; intros best q H; [right; exact H|].
  destruct (req_ready w x).
  - destruct best as [b|].
    + destruct (slot_lt x b); destruct (IH _ _ H) as [X|X]; try (left; right; exact X); try (right; exact X).
      inversion X; subst. left; left; reflexivity.
    + destruct (IH _ _ H) as [X|X]; [left; right; exact X|]. inversion X; subst. left; left; reflexivity.
  - destruct (IH _ _ H) as [X|X]; [left; right; exact X|right; exact X].
Qed.

(* ---------------------------------------------------------------- the writer starts at most one network_write per call *)
Definition evs_ok (netw : bool) (evs : list wevent) : Prop :=
  evs = [] \/ evs = [EvFail] \/ (exists d, evs = [EvStart d] /\ netw = true).

Lemma poke_evs W netw W' rc evs : poke W netw = Ok (W', rc, evs) -> evs_ok netw evs.
Proof.
  unfold poke, evs_ok.
  destruct (w_inflight W || match w_buffers W with [] => true | _ => false end);
    [intros H; inversion H; auto|].
  destruct (w_failed W); [intros H; inversion H; auto|].
  destruct (w_curr W); [discriminate|].
  destruct (discard_empty (w_buffers W)) as [|WB rest]; [intros H; inversion H; auto|].
  destruct (length (wb_data WB) =? 0); [discriminate|].
  destruct netw; cbn [negb]; intros H; inversion H; subst; eauto.
Qed.

Lemma consume_evs W bytes netw W' rc evs : consume W bytes netw = Ok (W', rc, evs) -> evs_ok netw evs.
Proof.
  unfold consume, consume_gen.
  destruct (negb (w_reserved W)); [discriminate|].
  destruct (last_buf W) as [WB|]; [|discriminate].
  destruct (room WB <? length bytes); [discriminate|]. apply poke_evs.
Qed.

Lemma write_evs wbuflen W bytes a1 a2 netw W' rc evs :
  write wbuflen W bytes a1 a2 netw = Ok (W', rc, evs) -> evs_ok netw evs.
Proof.
  unfold write, write_gen.
  destruct (w_failed W); [intros H; inversion H; left; reflexivity|].
  destruct (reserve wbuflen W (length bytes) a1 a2) as [[W1 [|]]| | |]; try discriminate.
  - apply (consume_evs W1 bytes netw).
  - intros H; inversion H; left; reflexivity.
Qed.

Lemma writbuf_evs W v netw W' rc evs : writbuf W v netw = Ok (W', rc, evs) -> evs_ok netw evs.
Proof.
  unfold writbuf, writbuf_gen.
  destruct (w_reserved W); [discriminate|].
  destruct (negb (w_inflight W)); [discriminate|].
  destruct (w_curr W) as [WB|]; [|discriminate].
  destruct (w_failed W); [discriminate|].
  destruct (negb (v =? Z.of_nat (length (wb_data WB)))%Z).
  - intros H; inversion H. right; left; reflexivity.
  - apply poke_evs.
Qed.

(* a network_read is started by netbuf_read_wait only if its registration succeeded *)
Lemma wait_read_started grow R k o R' off max min :
  nbr_wait grow R k o = Ok (R', Some (WRead off max min)) -> wo_read o = true.
Proof.
  unfold nbr_wait.
  destruct (r_reading R); [discriminate|]. destruct (r_imm R); [discriminate|].
  destruct (k <=? r_datalen R - r_bufpos R); [destruct (wo_imm o); discriminate|].
  assert (S : forall R2 Rx, nbr_start_read R2 k o = Ok (Rx, Some (WRead off max min)) -> wo_read o = true).
  { intros R2 Rx. unfold nbr_start_read.
    destruct (r_buflen R2 - r_datalen R2 =? 0); [discriminate|].
    destruct (length (r_buf R2) <? r_datalen R2 + (r_buflen R2 - r_datalen R2)); [discriminate|].
    destruct (wo_read o); [reflexivity|discriminate]. }
  destruct (if r_buflen R <? k then nbr_resize grow R k (wo_alloc o) else Ok (Some R)) as [[R1|]| | |];
    try discriminate.
  destruct (if r_buflen R1 - r_bufpos R1 <? k then nbr_compact R1 else Ok R1) as [R2| | |]; try discriminate.
  apply S.
Qed.

(* ---------------------------------------------------------------- reading the log invariant *)
Lemma log_ok_app a b : log_ok (a ++ b) -> log_ok b.
Proof.
  induction a as [|x t IH]; cbn [app]; [auto|]. intros H. apply IH.
  destruct x; cbn [log_ok] in H; try exact H. destruct H as (_ & H). exact H.
Qed.

Lemma credits_needs_start id older : forall a,
  0 < credits id (a ++ LgCancel id :: older) -> exists k, In (LgStart k id true) a.
Proof.
  induction a as [|x t IH]; cbn [app credits].
  - rewrite Nat.eqb_refl. lia.
  - intros H.
    assert (Hrec : 0 < credits id (t ++ LgCancel id :: older) -> exists k, In (LgStart k id true) (x :: t)).
    { intros X. destruct (IH X) as (k & Hk). exists k. right. exact Hk. }
    destruct x; try (apply Hrec; exact H).
    + destruct ok; [|apply Hrec; exact H].
      destruct (id0 =? id) eqn:E; [|apply Hrec; exact H].
      apply Nat.eqb_eq in E. subst. exists kind. left. reflexivity.
    + destruct (id0 =? id); [|apply Hrec; exact H]. apply Hrec. lia.
    + destruct (id0 =? id); [lia|apply Hrec; exact H].
Qed.

Definition is_cb_of (id : nat) (x : logitem) : bool :=
  match x with LgCb i _ _ => i =? id | _ => false end.
Definition is_start_of (id : nat) (x : logitem) : bool :=
  match x with LgStart _ i true => i =? id | _ => false end.

Lemma log_ok_counts id : forall l,
  log_ok l -> credits id l + length (filter (is_cb_of id) l) <= length (filter (is_start_of id) l).
Proof.
  induction l as [|x t IH]; cbn [log_ok credits filter length]; [lia|]. intros H.
  destruct x; cbn [is_cb_of is_start_of]; try (specialize (IH H); lia).
  - destruct ok; [|specialize (IH H); lia]. specialize (IH H). destruct (id0 =? id); cbn [length]; lia.
  - destruct H as (Hc & H). specialize (IH H). destruct (id0 =? id) eqn:E; cbn [length]; [|lia].
    apply Nat.eqb_eq in E. subst. lia.
  - specialize (IH H). destruct (id0 =? id); lia.
Qed.

Lemma length_filter_rev {A} (p : A -> bool) l : length (filter p (rev l)) = length (filter p l).
Proof.
  induction l as [|x t IH]; cbn [rev filter]; [reflexivity|].
  rewrite filter_app, app_length, IH. cbn [filter]. destruct (p x); cbn [length]; lia.
Qed.

Ltac wsimp :=
  unfold winv in *;
  cbn [wd_reqs wd_log set_reqs set_kq set_wire set_nsock set_nbr set_nbr_cont set_nbw set_nfail addlog
       kill kill_res remove_req replace_req fst snd] in *.

Ltac wi_tac :=
  lazymatch goal with
  | |- WI _ (LgCb _ _ _ :: _) => eapply WI_cb; [eassumption | eassumption | wi_tac]
  | |- WI _ (LgCancel _ :: _) => apply WI_cancel; wi_tac
  | |- WI _ (_ :: _) => apply WI_neutral; [reflexivity | wi_tac]
  | |- WI (filter _ _) _ => apply WI_filter; wi_tac
  | |- _ => assumption
  end.

Section World.
  Variable rd_retry wr_retry acc_retry : list N.
  Variable wbuflen rbuf_init rbuf_grow : nat.
  Variable fill : N.

  Local Notation deliver := (deliver rd_retry wr_retry acc_retry).
  Local Notation do_op := (do_op wbuflen rbuf_init rbuf_grow fill).
  Local Notation go := (go rd_retry wr_retry acc_retry wbuflen rbuf_init rbuf_grow fill).
  Local Notation go_net := (go_net rd_retry wr_retry acc_retry wbuflen rbuf_init rbuf_grow fill).

  Lemma start_nbw_inv w fd evs blk netw :
    winv w -> evs_ok netw evs -> (netw = true -> busy w fd true = false) ->
    winv (start_nbw_write w fd evs blk).
  Proof.
    intros I [->|[->|(d & -> & Hn)]] Hb; unfold start_nbw_write; cbn [fold_left].
    - exact I.
    - wsimp. wi_tac.
    - wsimp. apply WI_add_other; [reflexivity| |exact I].
      apply busy_false_key. apply Hb. exact Hn.
  Qed.

  Lemma nbw_result_inv w fd r netw :
    winv w -> (forall W' rc evs, r = Ok (W', rc, evs) -> evs_ok netw evs) ->
    (netw = true -> busy w fd true = false) -> winv (fst (nbw_result w fd r)).
  Proof.
    intros I He Hb. destruct r as [[[W' rc] evs]| | |]; cbn [nbw_result fst].
    - apply (start_nbw_inv _ fd evs _ netw); [exact I|eapply He; reflexivity|exact Hb].
    - wsimp. wi_tac.
    - wsimp. wi_tac.
    - wsimp. wi_tac.
  Qed.

  (* one readiness event delivered to a registered request *)
  Lemma deliver_inv w q : winv w -> In q (wd_reqs w) -> winv (fst (deliver w q)).
  Proof.
    intros I Hin. unfold NetWorld.deliver.
    destruct (kq_get (wd_kq w) (q_fd q) (q_wr q)) as [|ev kq']; [exact I|].
    destruct (q_kind q) as [C|C|] eqn:Ek.
    - (* network_read's callback_buf *)
      destruct ev as [bs|n| |e]; [destruct (length bs <=? rd_buflen C - rd_bufpos C)| | |];
        cbn beta iota zeta;
        (destruct (read_cb rd_retry C _ true) as [C' [|v|]];
         [ wsimp;
           match goal with |- WI (map ?f ?l) (?x :: ?lg) =>
             apply (WI_replace q); [exact Hin|unfold key, q_wr; cbn [q_fd q_kind]; rewrite Ek; reflexivity|reflexivity|wi_tac] end
         | | ];
         (destruct (q_own q) as [id cont| |] eqn:Eo;
          [ wsimp; wi_tac
          | wsimp;
            match goal with |- context [wd_nbr ?W] => destruct (wd_nbr W) as [[rfd R]|] end;
            [ match goal with |- context [nbr_callback_read ?a ?b ?c] =>
                destruct (nbr_callback_read a b c) as [[R' status]| | |] end;
              [ match goal with |- context [nbr_peek ?a] => destruct (nbr_peek a) end | | | ]
            | ]; wsimp; wi_tac
          | wsimp; wi_tac ])).
    - (* network_write's callback_buf *)
      destruct ev as [bs|n| |e]; cbn beta iota zeta;
        (destruct (write_cb wr_retry C _ true) as [[C' [|v|]]| | |];
         [ wsimp; apply (WI_replace q); [exact Hin|unfold key, q_wr; cbn [q_fd q_kind]; rewrite Ek; reflexivity|reflexivity|wi_tac]
         | destruct (q_own q) as [id cont| |] eqn:Eo; wsimp; wi_tac
         | destruct (q_own q) as [id cont| |] eqn:Eo; wsimp; wi_tac
         | wsimp; wi_tac | wsimp; wi_tac | wsimp; wi_tac ]).
    - (* network_accept's callback_accept *)
      destruct ev as [bs|n| |e]; cbn beta iota zeta;
        (destruct (q_own q) as [id cont| |] eqn:Eo; [|wsimp; wi_tac|wsimp; wi_tac];
         destruct (accept_cb acc_retry _ true) as [| |v]; wsimp; wi_tac).
  Qed.

  Lemma negb_busy w fd wr : negb (busy w fd wr) = true -> busy w fd wr = false.
  Proof. destruct (busy w fd wr); [discriminate|reflexivity]. Qed.

  (* one operation of the script (other than run) *)
  Lemma do_op_inv w o : winv w -> winv (do_op w o).
  Proof.
    intros I. destruct o as [id fd buflen min cont|id fd data min cont|id fd cont|id|fd wr evs| |fd|k cont|j| | |fd|data|n|data];
      cbn [NetWorld.do_op].
    - unfold network_read. destruct (buflen =? 0); [wsimp; wi_tac|]. cbn [negb].
      destruct (busy w fd false) eqn:Eb; cbn [negb]; [wsimp; wi_tac|].
      wsimp. apply (WI_add_user _ id cont); [reflexivity| |exact I]. apply busy_false_key. exact Eb.
    - unfold network_write. destruct (length data =? 0); [wsimp; wi_tac|]. cbn [negb].
      destruct (busy w fd true) eqn:Eb; cbn [negb]; [wsimp; wi_tac|].
      wsimp. apply (WI_add_user _ id cont); [reflexivity| |exact I]. apply busy_false_key. exact Eb.
    - unfold network_accept. cbn [andb].
      destruct (busy w fd false) eqn:Eb; cbn [negb]; [wsimp; wi_tac|].
      wsimp. apply (WI_add_user _ id cont); [reflexivity| |exact I]. apply busy_false_key. exact Eb.
    - destruct (existsb (is_user_id id) (wd_reqs w)); wsimp; wi_tac.
    - wsimp. exact I.
    - exact I.
    - destruct (wd_nbr w); [wsimp; wi_tac|]. destruct (nbr_init rbuf_init true true); wsimp; wi_tac.
    - destruct (wd_nbr w) as [[fd R]|]; [|wsimp; wi_tac].
      destruct (r_reading R || r_imm R); [wsimp; wi_tac|].
      destruct (nbr_wait rbuf_grow R k (mkWO true true (negb (busy w fd false)))) as [[R' [[|off max mn]|]]| | |] eqn:Ew;
        try (wsimp; wi_tac).
      destruct (sub (r_buf R') off max) as [slice| | |]; try (wsimp; wi_tac).
      apply wait_read_started in Ew. cbn [wo_read] in Ew. apply negb_busy in Ew.
      wsimp. apply WI_neutral; [reflexivity|]. apply WI_add_other; [reflexivity| |exact I].
      apply busy_false_key. exact Ew.
    - destruct (wd_nbr w) as [[fd R]|]; [|wsimp; wi_tac].
      destruct (nbr_consume R (Nat.min j (r_datalen R - r_bufpos R))); wsimp; wi_tac.
    - destruct (wd_nbr w) as [[fd R]|]; [|wsimp; wi_tac]. unfold nbr_cancel. wsimp. wi_tac.
    - destruct (wd_nbr w) as [[fd R]|]; [|wsimp; wi_tac]. destruct (nbr_peek R); wsimp; wi_tac.
    - destruct (wd_nbw w); [wsimp; wi_tac|]. cbn [nbw_init]. wsimp. wi_tac.
    - destruct (wd_nbw w) as [[fd W]|]; [|wsimp; wi_tac].
      destruct (w_reserved W); [wsimp; wi_tac|].
      pose proof (nbw_result_inv w fd (write wbuflen W data true true (negb (busy w fd true))) _ I
                    (write_evs wbuflen W data true true _) (negb_busy w fd true)) as X.
      destruct (nbw_result w fd (write wbuflen W data true true (negb (busy w fd true)))) as [w1 rc].
      cbn [fst] in X. destruct (wd_dead w1); [exact X|]. wsimp. wi_tac.
    - destruct (wd_nbw w) as [[fd W]|]; [|wsimp; wi_tac].
      destruct (w_reserved W); [wsimp; wi_tac|].
      destruct (reserve wbuflen W n true true) as [[W' ok]| | |]; wsimp; wi_tac.
    - destruct (wd_nbw w) as [[fd W]|]; [|wsimp; wi_tac].
      destruct (negb (w_reserved W)); [wsimp; wi_tac|].
      destruct (last_buf W) as [WB|]; [|wsimp; wi_tac].
      pose proof (nbw_result_inv w fd (consume W (firstn (room WB) data) (negb (busy w fd true))) _ I
                    (consume_evs W (firstn (room WB) data) _) (negb_busy w fd true)) as X.
      destruct (nbw_result w fd (consume W (firstn (room WB) data) (negb (busy w fd true)))) as [w1 rc].
      cbn [fst] in X. destruct (wd_dead w1); [exact X|]. wsimp. wi_tac.
  Qed.

  (* the interpreter: every world it reaches satisfies the invariant *)
  Lemma go_inv : forall fuel,
    (forall w t, winv w -> winv (go fuel w t)) /\ (forall w, winv w -> winv (go_net fuel w)).
  Proof.
    induction fuel as [|f (IHg & IHn)].
    - split; intros; cbn [NetWorld.go NetWorld.go_net]; wsimp; wi_tac.
    - split.
      + intros w t I. cbn [NetWorld.go]. destruct (wd_dead w); [exact I|].
        destruct t as [|incb ops].
        * destruct (wd_nbr w) as [[rfd R]|]; [|apply IHn; exact I].
          destruct (r_imm R); [|apply IHn; exact I].
          destruct (nbr_callback_success R) as [[R' status]| | |]; try (wsimp; wi_tac).
          destruct (nbr_peek R'); try (wsimp; wi_tac).
          apply IHg. apply IHg. wsimp. wi_tac.
        * destruct ops as [|o rest]; [exact I|].
          apply IHg. destruct o; try (apply do_op_inv; exact I).
          destruct (incb || reserved_now w); [wsimp; wi_tac|apply IHg; exact I].
      + intros w I. cbn [NetWorld.go_net].
        destruct (pick_ready w (wd_reqs w) None) as [q|] eqn:Ep; [|exact I].
        destruct (pick_ready_in _ _ _ _ Ep) as [Hin|X]; [|discriminate].
        pose proof (deliver_inv w q I Hin) as D.
        destruct (deliver w q) as [w1 aft]. cbn [fst] in D.
        apply IHg. destruct aft as [|ops|v].
        * exact D.
        * apply IHg; exact D.
        * destruct (wd_nbw w1) as [[fd W]|]; [|exact D].
          apply (nbw_result_inv w1 fd _ (negb (busy w1 fd true)) D); [|apply negb_busy].
          intros W' rc evs. apply writbuf_evs.
  Qed.

  (* a cancel frees the slot of the request it cancels ... *)
  Theorem cancel_frees_slot_lemma w id q :
    winv w -> In q (wd_reqs w) -> is_user_id id q = true ->
    busy (do_op w (OpCancel id)) (q_fd q) (q_wr q) = false.
  Proof.
    intros (A & _) Hin Hu. cbn [NetWorld.do_op].
    assert (Hex : existsb (is_user_id id) (wd_reqs w) = true) by (apply existsb_exists; eauto).
    rewrite Hex. unfold busy. wsimp.
    destruct (existsb _ (filter _ (wd_reqs w))) eqn:E; [|reflexivity]. exfalso.
    apply existsb_exists in E. destruct E as (x & Hx & Hk). apply filter_In in Hx. destruct Hx as (Hx & Hn).
    assert (Kx : key x = key q).
    { apply andb_true_iff in Hk. destruct Hk as (K1 & K2). apply Nat.eqb_eq in K1. apply Bool.eqb_prop in K2.
      unfold key. congruence. }
    assert (x = q) by (apply (nodup_key_inj (wd_reqs w)); auto). subst x. rewrite Hu in Hn. discriminate.
  Qed.

  (* ... so that the next request on that descriptor and direction is accepted *)
  Theorem restart_after_cancel_lemma w id q id2 buflen min cont :
    winv w -> In q (wd_reqs w) -> is_user_id id q = true -> q_wr q = false -> 0 < buflen ->
    hd LgSkip (wd_log (do_op (do_op w (OpCancel id)) (OpRead id2 (q_fd q) buflen min cont))) = LgStart 0 id2 true.
  Proof.
    intros I Hin Hu Hw Hb. pose proof (cancel_frees_slot_lemma w id q I Hin Hu) as F. rewrite Hw in F.
    cbn [NetWorld.do_op] in *. unfold network_read.
    destruct (buflen =? 0) eqn:E; [apply Nat.eqb_eq in E; lia|]. cbn [negb].
    rewrite F. cbn [negb]. reflexivity.
  Qed.

  Lemma world0_inv : winv world0.
  Proof. unfold winv, world0, WI. cbn. split; [constructor|]. split; [exact Logic.I|]. intros; unfold ucount; cbn; lia. Qed.

  Definition final_world (fuel : nat) (ops : list op) : world := go fuel world0 (TOps false ops).
  (* the observations of a run in the order they were made (run_script = these, then the trailer,
     which lists pending requests, wires and buffers and contains no start / cancel / callback) *)
  Definition world_events (fuel : nat) (ops : list op) : list logitem := rev (wd_log (final_world fuel ops)).

  Lemma run_script_events fuel ops :
    run_script rd_retry wr_retry acc_retry wbuflen rbuf_init rbuf_grow fill fuel ops =
      world_events fuel ops ++ (if wd_dead (final_world fuel ops) then [] else trailer (final_world fuel ops)).
  Proof. reflexivity. Qed.

  Theorem world_inv_lemma fuel ops : winv (final_world fuel ops).
  Proof. apply (proj1 (go_inv fuel)). apply world0_inv. Qed.

  (* at most one request registered per (descriptor, direction), in every reachable world *)
  Theorem slots_exclusive_lemma fuel ops : NoDup (map key (wd_reqs (final_world fuel ops))).
  Proof. apply (world_inv_lemma fuel ops). Qed.

  (* C06 cancel clause, composed: for every script, whatever the kernel is scripted to answer and
     however requests are nested in callbacks, after "cancel id" is logged no callback of id is
     logged unless a request with that id was successfully started again in between *)
  Theorem cancel_silences_world_lemma fuel ops id pre mid v b post :
    world_events fuel ops = pre ++ LgCancel id :: mid ++ LgCb id v b :: post ->
    exists k, In (LgStart k id true) mid.
  Proof.
    intros H. destruct (world_inv_lemma fuel ops) as (_ & L & _).
    unfold world_events in H. apply (f_equal (@rev logitem)) in H. rewrite rev_involutive in H.
    rewrite H in L. clear H.
    rewrite !rev_app_distr in L. cbn [rev] in L. rewrite !rev_app_distr in L. cbn [rev app] in L.
    rewrite <- !app_assoc in L. cbn [app] in L.
    apply log_ok_app in L. cbn [log_ok] in L. destruct L as (Hc & _).
    destruct (credits_needs_start id (rev pre) (rev mid) Hc) as (k & Hk).
    exists k. apply in_rev. exact Hk.
  Qed.

  (* exactly-once, composed: callbacks of id never outnumber the successful starts of id *)
  Theorem callbacks_le_starts_lemma fuel ops id :
    length (filter (is_cb_of id) (world_events fuel ops)) <= length (filter (is_start_of id) (world_events fuel ops)).
  Proof.
    unfold world_events. rewrite !length_filter_rev.
    destruct (world_inv_lemma fuel ops) as (_ & L & _).
    pose proof (log_ok_counts id _ L). lia.
  Qed.
End World.
