(* network/network_connect.c: tryconnect / dofailed / callback_connect / callback_timeo /
   docallback / network_connect_cancel on a record that mirrors struct connect_cookie, driven by
   the three events the event loop can deliver (socket writable, timer expired, immediate) and
   by cancel.  util/sock.c:sock_connect_bind_nb is the small function [sock_connect_bind_nb]
   below (socket, fcntl, connect; close on failure).  No proofs in this file. *)
From Coq Require Import NArith ZArith List Bool Arith.
From LCP Require Import Base.CheckedMem.
Import ListNotations.
Local Open Scope nat_scope.

(* what the kernel will do for one address of the list *)
Inductive later :=
| LErr (e : N)       (* becomes writable with SO_ERROR = e (e <> 0) *)
| LNever             (* never becomes writable *)
| LOk.               (* becomes writable with SO_ERROR = 0 *)

Inductive outcome :=
| OSockFail                          (* socket() fails: no descriptor *)
| OSetupFail                         (* fcntl(O_NONBLOCK) fails: descriptor closed at once *)
| OConnFail (e : N)                  (* connect() = -1, errno e not in {EINPROGRESS, EINTR}: closed at once *)
| OPending (cret : N) (l : later).   (* connect() = 0 (cret = 0) or -1 with errno cret in {EINPROGRESS, EINTR} *)

(* observations; s = ordinal of the descriptor in order of creation, a = index in the list *)
Inductive cobs :=
| CSockFail (a : nat)
| CSocket (a s : nat)
| CFcntlFail (s : nat)
| CConnect (s a : nat) (ret : N)
| CClose (s : nat)
| CGetErr (s : nat) (e : N)
| CGetFail (s : nat)
| CCallback (v : option nat)
(* registrations with the event loop: not visible to the system-call wrappers *)
| CTimerOn | CTimerCancel | CTimerFired
| CNetReg (s : nat) | CNetCancel (s : nat) | CNetFired (s : nat)
| CImmReg | CImmCancel | CImmFired
| CFreed.

(* struct connect_cookie.  c_addr and c_next are ghosts: how many addresses C->sas has been
   advanced over, and how many descriptors the process has created. *)
Record cstate := mkC {
  c_sas : list outcome;      (* C->sas: the addresses not yet given up, head = current *)
  c_s : option nat;          (* C->s, None = -1 *)
  c_timeo : bool;            (* C->timeo_enabled *)
  c_timer : bool;            (* C->cookie_timeo != NULL *)
  c_imm : bool;              (* C->cookie_immediate != NULL *)
  c_addr : nat;
  c_next : nat }.

Inductive cres :=
| Running (st : cstate)
| Finished (rc : Z).         (* cookie freed; rc is what the library function returned *)

(* registration outcomes available to one call of tryconnect *)
Record regs := mkRegs { imm_ok : bool; timer_ok : bool; net_ok : bool }.
Definition all_ok : regs := mkRegs true true true.

(* util/sock.c sock_connect_bind_nb (sa_b = NULL): Some s = connect(ed|ing) descriptor *)
Definition sock_connect_bind_nb (o : outcome) (a next : nat) : option nat * nat * list cobs :=
  match o with
  | OSockFail => (None, next, [CSockFail a])
  | OSetupFail => (None, S next, [CSocket a next; CFcntlFail next; CClose next])
  | OConnFail e => (None, S next, [CSocket a next; CConnect next a e; CClose next])
  | OPending cret _ => (Some next, S next, [CSocket a next; CConnect next a cret])
  end.

(* for (; C->sas[0] != NULL; C->sas++) if ((C->s = sock_connect_bind_nb(..)) != -1) break; *)
Fixpoint try_loop (sas : list outcome) (a next : nat)
  : list outcome * option nat * nat * nat * list cobs :=
  match sas with
  | [] => ([], None, a, next, [])
  | o :: r =>
    match sock_connect_bind_nb o a next with
    | (Some s, next', obs) => (sas, Some s, a, next', obs)
    | (None, next', obs) =>
      let '(sas', s', a', next'', obs') := try_loop r (S a) next' in
      (sas', s', a', next'', obs ++ obs')
    end
  end.

Definition close_if (s : option nat) : list cobs :=
  match s with Some x => [CClose x] | None => [] end.

Definition tryconnect (st : cstate) (rg : regs) : cres * list cobs :=
  let '(sas, s, a, next, obs) := try_loop (c_sas st) (c_addr st) (c_next st) in
  match sas, s with
  | _ :: _, Some sk =>
    if c_timeo st then
      if timer_ok rg then
        if net_ok rg then
          (Running (mkC sas s true true (c_imm st) a next), obs ++ [CTimerOn; CNetReg sk])
        else (* err2 *) (Finished (-1)%Z, obs ++ [CTimerOn; CTimerCancel; CClose sk; CFreed])
      else (* err1 *) (Finished (-1)%Z, obs ++ [CClose sk; CFreed])
    else
      if net_ok rg then
        (Running (mkC sas s false false (c_imm st) a next), obs ++ [CNetReg sk])
      else (* err2, cookie_timeo == NULL *) (Finished (-1)%Z, obs ++ [CClose sk; CFreed])
  | _, _ =>
    (* failed: out of addresses, C->s == -1 *)
    if imm_ok rg then
      (Running (mkC sas s (c_timeo st) (c_timer st) true a next), obs ++ [CImmReg])
    else (* err1 *) (Finished (-1)%Z, obs ++ close_if s ++ [CFreed])
  end.

Definition docallback (st : cstate) : cres * list cobs :=
  (Finished 0%Z, [CCallback (c_s st); CFreed]).

Definition dofailed (st : cstate) (rg : regs) : cres * list cobs :=
  let st' := mkC (tl (c_sas st)) None (c_timeo st) (c_timer st) (c_imm st) (S (c_addr st)) (c_next st) in
  let (r, obs) := tryconnect st' rg in
  (r, close_if (c_s st) ++ obs).

Definition callback_connect (st : cstate) (sk : nat) (gso_ok : bool) (sockerr : N) (rg : regs)
  : cres * list cobs :=
  let obs0 := CNetFired sk :: (if c_timer st then [CTimerCancel] else []) in
  let st1 := mkC (c_sas st) (c_s st) (c_timeo st) false (c_imm st) (c_addr st) (c_next st) in
  if negb gso_ok then (Finished (-1)%Z, obs0 ++ [CGetFail sk; CClose sk; CFreed])
  else if negb (N.eqb sockerr 0) then
    let (r, obs) := dofailed st1 rg in (r, obs0 ++ CGetErr sk sockerr :: obs)
  else
    let (r, obs) := docallback st1 in (r, obs0 ++ CGetErr sk 0%N :: obs).

Definition callback_timeo (st : cstate) (sk : nat) (rg : regs) : cres * list cobs :=
  let st1 := mkC (c_sas st) (c_s st) (c_timeo st) false (c_imm st) (c_addr st) (c_next st) in
  let (r, obs) := dofailed st1 rg in
  (r, CTimerFired :: CNetCancel sk :: obs).

Definition connect_cancel (st : cstate) : res (list cobs) :=
  let has_s := match c_s st with Some _ => true | None => false end in
  if negb (c_imm st || has_s) then AssertFail
  else if c_imm st && has_s then AssertFail
  else Ok ((if c_timer st then [CTimerCancel] else []) ++
           (if c_imm st then [CImmCancel] else []) ++
           (match c_s st with Some sk => [CNetCancel sk; CClose sk] | None => [] end) ++
           [CFreed]).

(* network_connect_internal *)
Definition network_connect (timeo : bool) (sas : list outcome) (next : nat) (cookie_ok : bool)
  (rg : regs) : cres * list cobs :=
  if negb cookie_ok then (Finished (-1)%Z, [])
  else tryconnect (mkC sas None timeo false false 0 next) rg.

(* events; an event that is not registered cannot be delivered (C04) and is ignored *)
Inductive cevent :=
| EvWritable (gso_ok : bool) (sockerr : N)
| EvTimer
| EvImmediate.

Definition conn_step (st : cstate) (ev : cevent) (rg : regs) : cres * list cobs :=
  match ev with
  | EvImmediate =>
    if c_imm st then let (r, obs) := docallback st in (r, CImmFired :: obs)
    else (Running st, [])
  | EvTimer =>
    match c_timer st, c_s st with
    | true, Some sk => callback_timeo st sk rg
    | _, _ => (Running st, [])
    end
  | EvWritable gso_ok e =>
    match c_s st with
    | Some sk => callback_connect st sk gso_ok e rg
    | None => (Running st, [])
    end
  end.

(* the event the scripted kernel produces for the current attempt *)
Definition natural_event (st : cstate) : option cevent :=
  if c_imm st then Some EvImmediate
  else match c_s st, c_sas st with
       | Some _, OPending _ l :: _ =>
         match l with
         | LErr e => Some (EvWritable true e)
         | LOk => Some (EvWritable true 0%N)
         | LNever => if c_timer st then Some EvTimer else None
         end
       | _, _ => None
       end.

Fixpoint conn_drive (fuel : nat) (st : cstate) : res (list cobs * cres) :=
  match fuel with
  | O => OutOfFuel
  | S f =>
    match natural_event st with
    | None => Ok ([], Running st)
    | Some ev =>
      match conn_step st ev all_ok with
      | (Running st', obs) =>
        match conn_drive f st' with
        | Ok (t, fin) => Ok (obs ++ t, fin)
        | Fault => Fault | AssertFail => AssertFail | OutOfFuel => OutOfFuel
        end
      | (Finished rc, obs) => Ok (obs, Finished rc)
      end
    end
  end.

(* a whole connection attempt with every registration succeeding *)
Definition conn_run (timeo : bool) (sas : list outcome) : res (list cobs * cres) :=
  match network_connect timeo sas 0 true all_ok with
  | (Running st, obs) =>
    match conn_drive (S (S (length sas))) st with
    | Ok (t, fin) => Ok (obs ++ t, fin)
    | Fault => Fault | AssertFail => AssertFail | OutOfFuel => OutOfFuel
    end
  | (Finished rc, obs) => Ok (obs, Finished rc)
  end.

(* scripts for the correspondence run: deliver the natural event, deliver it while the timer has
   also expired (the loop runs network events before timers, so the network event wins and the
   timer must have been cancelled by then), or cancel *)
Inductive cop := CopStep | CopRace | CopCancel.

Fixpoint conn_script (r : cres) (ops : list cop) : res (list cobs * cres) :=
  match ops with
  | [] => Ok ([], r)
  | o :: rest =>
    match r with
    | Finished _ => Ok ([], r)
    | Running st =>
      match o with
      | CopCancel =>
        match connect_cancel st with
        | Ok obs => Ok (obs, Finished 0%Z)
        | Fault => Fault | AssertFail => AssertFail | OutOfFuel => OutOfFuel
        end
      | _ =>
        match natural_event st with
        | None => conn_script r rest
        | Some ev =>
          let (r1, obs1) := conn_step st ev all_ok in
          (* the event loop runs until nothing is runnable: an immediate event registered by
             this step (list exhausted) is dispatched in the same run *)
          let (r', obs) :=
            match r1 with
            | Running st1 =>
              if c_imm st1 && negb (c_imm st) then
                let (r2, obs2) := conn_step st1 EvImmediate all_ok in (r2, obs1 ++ obs2)
              else (r1, obs1)
            | Finished _ => (r1, obs1)
            end in
          match conn_script r' rest with
          | Ok (t, fin) => Ok (obs ++ t, fin)
          | Fault => Fault | AssertFail => AssertFail | OutOfFuel => OutOfFuel
          end
        end
      end
    end
  end.
