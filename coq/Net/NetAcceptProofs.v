(* network_accept.c: exactly one callback, at the first answer that is not a retry errno. *)
From Coq Require Import NArith ZArith List Bool Arith Lia.
From LCP Require Import Base.CheckedMem Net.NetAccept.
Import ListNotations.
Local Open Scope nat_scope.

Section Proofs.
  Variable retry : list N.

  (* the answer makes callback_accept go to tryagain *)
  Definition acc_retries (a : aanswer) : bool :=
    match a with AErrno e => acc_is_retry retry e | AAccepted _ => false end.

  Definition acc_value (a : aanswer) : Z :=
    match a with AAccepted s => Z.of_nat s | AErrno _ => (-1)%Z end.

  (* index of the first answer that is not retried *)
  Fixpoint first_final (l : list aanswer) : option nat :=
    match l with
    | [] => None
    | a :: r => if acc_retries a then option_map S (first_final r) else Some 0
    end.

  Lemma first_final_some l : forall k, first_final l = Some k ->
    k < length l /\ acc_retries (nth k l (AErrno 0%N)) = false /\
    forall i, i < k -> acc_retries (nth i l (AErrno 0%N)) = true.
  Proof.
    induction l as [|a r IH]; intros k H; simpl in H; [discriminate|].
    destruct (acc_retries a) eqn:R.
    - destruct (first_final r) as [k'|] eqn:F; [|discriminate]. simpl in H. inversion H; subst.
      destruct (IH _ eq_refl) as (A & B & C). simpl. repeat split; [lia|exact B|].
      intros [|i] Hi; simpl; [exact R|apply C; lia].
    - inversion H; subst. simpl. repeat split; [lia|exact R|intros; lia].
  Qed.

  Lemma first_final_none l : first_final l = None ->
    forall i, i < length l -> acc_retries (nth i l (AErrno 0%N)) = true.
  Proof.
    induction l as [|a r IH]; intros H i Hi; simpl in *; [lia|].
    destruct (acc_retries a) eqn:R; [|discriminate].
    destruct (first_final r) eqn:F; [discriminate|].
    destruct i; [exact R|apply IH; auto; lia].
  Qed.

  (* C06-M5, every re-registration succeeding (the other case is reported by the event loop's
     return value, not by a callback: DESIGN section 6) *)
  Theorem accept_once_lemma : forall l : list aanswer,
    let run := accept_run retry (map (fun a => (a, true)) l) in
    match first_final l with
    | None => run = (length l, None)                         (* one accept(2) per event, still registered *)
    | Some k => run = (S k, Some (Some (acc_value (nth k l (AErrno 0%N)))))
    end.
  Proof.
    induction l as [|a r IH]; cbn zeta in *; [reflexivity|].
    cbn [map accept_run first_final]. unfold accept_cb, acc_retries.
    destruct a as [s|e]; cbn [nth acc_value]; [reflexivity|].
    destruct (acc_is_retry retry e); [|reflexivity].
    destruct (first_final r) as [k|]; cbn [option_map]; rewrite IH; reflexivity.
  Qed.

  Definition is_acb (o : aobs) : bool := match o with ObsAccCallback _ => true | _ => false end.

  Lemma acc_life_off ins : acc_life retry false ins = (false, []).
  Proof. induction ins as [|i r IH]; simpl; auto. rewrite IH. reflexivity. Qed.

  Theorem accept_callback_once_lemma : forall ins armed,
    length (filter is_acb (snd (acc_life retry armed ins))) <= 1.
  Proof.
    induction ins as [|i r IH]; intros armed; cbn [acc_life]; [cbn; lia|].
    destruct (acc_life_step retry armed i) as [s1 o1] eqn:S1.
    specialize (IH s1). destruct (acc_life retry s1 r) as [s2 o2] eqn:S2. cbn [fst snd] in *.
    rewrite filter_app, app_length.
    unfold acc_life_step in S1. destruct armed; [|inversion S1; subst; cbn; lia].
    destruct i as [a reg|]; [|inversion S1; subst; cbn; lia].
    destruct (accept_cb retry a reg); inversion S1; subst; cbn [filter is_acb length]; try lia;
      rewrite acc_life_off in S2; inversion S2; subst; cbn; lia.
  Qed.

  Theorem accept_cancel_silences_lemma : forall pre armed post,
    acc_life retry armed (pre ++ AInCancel :: post) =
      (false, snd (acc_life retry armed pre) ++
              (if fst (acc_life retry armed pre) then [ObsAccCancelled] else [])).
  Proof.
    induction pre as [|i r IH]; intros armed post; cbn [app acc_life].
    - destruct armed; cbn [acc_life_step]; rewrite acc_life_off; reflexivity.
    - destruct (acc_life_step retry armed i) as [s1 o1]. rewrite IH.
      destruct (acc_life retry s1 r) as [s2 o2]. cbn [fst snd]. rewrite app_assoc. reflexivity.
  Qed.
End Proofs.
