(* The executable composition used by the correspondence run: the request machines of NetRW /
   NetAccept and the netbuf reader / writer, plugged into a minimal stand-in for the event loop
   (one registration slot per (descriptor, direction); a readiness event is delivered to the
   lowest ready (fd, direction) - the scripted poll of the C driver reports exactly that one;
   the reader's immediate event runs before network events) and a scripted kernel (one answer
   queue per (descriptor, direction)).  It interprets the same scripts as harness/drv_net.c and
   produces the same log.  No proofs in this file. *)
From Coq Require Import NArith ZArith List Bool Arith.
From LCP Require Import Base.CheckedMem Net.NetRW Net.NetAccept Net.NetbufRead Net.NetbufWrite.
Import ListNotations.
Local Open Scope nat_scope.

(* scripted kernel: entries of an answer queue *)
Inductive kev :=
| KData (bs : list N)     (* recv: these bytes have arrived ([] = orderly shutdown) *)
| KRoom (n : nat)         (* send: the socket buffer takes up to n bytes *)
| KConn                   (* accept: a connection is waiting *)
| KErr (e : N).           (* -1 with errno e *)

Inductive op :=
| OpRead (id fd buflen min : nat) (cont : list op)
| OpWrite (id fd : nat) (data : list N) (min : nat) (cont : list op)
| OpAccept (id fd : nat) (cont : list op)
| OpCancel (id : nat)
| OpFeed (fd : nat) (wr : bool) (evs : list kev)
| OpRun
| OpNrInit (fd : nat)
| OpNrWait (k : nat) (cont : list op)
| OpNrConsume (j : nat)
| OpNrCancel
| OpNrPeek
| OpNwInit (fd : nat)
| OpNwWrite (data : list N)
| OpNwReserve (n : nat)
| OpNwConsume (data : list N).

Inductive ret := RetN (n : nat) | RetErr (e : N).

Inductive who := WhoUser (id : nat) | WhoNetbuf.

Inductive logitem :=
| LgStart (kind : nat) (id : nat) (ok : bool)         (* kind 0 read, 1 write, 2 accept *)
| LgRecv (fd : nat) (w : who) (blk off len : nat) (r : ret)
| LgSend (fd : nat) (w : who) (blk off len : nat) (r : ret)
| LgAcc (fd id : nat) (r : ret)
| LgCb (id : nat) (v : Z) (buf : option (list N))
| LgCancel (id : nat)
| LgSkip
| LgNrInit (ok : bool)
| LgWait (k : nat) (rc : Z)
| LgNrCb (status : Z) (peek : list N)
| LgConsume (j : nat)
| LgNrCancel
| LgPeek (peek : list N)
| LgNwInit (ok : bool)
| LgNwWrite (n : nat) (rc : Z)
| LgNwReserve (n : nat) (ok : bool)
| LgNwConsume (j : nat) (rc : Z)
| LgFail
| LgPending (id : nat)
| LgWire (fd : nat) (bytes : list N)
| LgLeft (fd : nat) (n : nat)
| LgNfail (n : nat)
| LgAssert | LgFault | LgFuel.

Inductive owner := OwnUser (id : nat) (cont : list op) | OwnNbr | OwnNbw.
Inductive rkind := RqRead (C : rdstate) | RqWrite (C : wrstate) | RqAccept.
Record req := mkReq { q_fd : nat; q_kind : rkind; q_own : owner; q_base : nat; q_blk : nat }.

Definition q_wr (q : req) : bool := match q_kind q with RqWrite _ => true | _ => false end.

Record world := mkWd {
  wd_reqs : list req;
  wd_kq : list (nat * bool * list kev);
  wd_wire : list (nat * list N);
  wd_nsock : nat;
  wd_nbr : option (nat * nbr);
  wd_nbr_cont : list op;
  wd_nbw : option (nat * nbw);
  wd_nfail : nat;
  wd_log : list logitem;          (* newest first *)
  wd_dead : bool }.

Definition world0 : world := mkWd [] [] [] 0 None [] None 0 [] false.

Definition set_reqs w x := mkWd x (wd_kq w) (wd_wire w) (wd_nsock w) (wd_nbr w) (wd_nbr_cont w) (wd_nbw w) (wd_nfail w) (wd_log w) (wd_dead w).
Definition set_kq w x := mkWd (wd_reqs w) x (wd_wire w) (wd_nsock w) (wd_nbr w) (wd_nbr_cont w) (wd_nbw w) (wd_nfail w) (wd_log w) (wd_dead w).
Definition set_wire w x := mkWd (wd_reqs w) (wd_kq w) x (wd_nsock w) (wd_nbr w) (wd_nbr_cont w) (wd_nbw w) (wd_nfail w) (wd_log w) (wd_dead w).
Definition set_nsock w x := mkWd (wd_reqs w) (wd_kq w) (wd_wire w) x (wd_nbr w) (wd_nbr_cont w) (wd_nbw w) (wd_nfail w) (wd_log w) (wd_dead w).
Definition set_nbr w x := mkWd (wd_reqs w) (wd_kq w) (wd_wire w) (wd_nsock w) x (wd_nbr_cont w) (wd_nbw w) (wd_nfail w) (wd_log w) (wd_dead w).
Definition set_nbr_cont w x := mkWd (wd_reqs w) (wd_kq w) (wd_wire w) (wd_nsock w) (wd_nbr w) x (wd_nbw w) (wd_nfail w) (wd_log w) (wd_dead w).
Definition set_nbw w x := mkWd (wd_reqs w) (wd_kq w) (wd_wire w) (wd_nsock w) (wd_nbr w) (wd_nbr_cont w) x (wd_nfail w) (wd_log w) (wd_dead w).
Definition set_nfail w x := mkWd (wd_reqs w) (wd_kq w) (wd_wire w) (wd_nsock w) (wd_nbr w) (wd_nbr_cont w) (wd_nbw w) x (wd_log w) (wd_dead w).
Definition addlog w x := mkWd (wd_reqs w) (wd_kq w) (wd_wire w) (wd_nsock w) (wd_nbr w) (wd_nbr_cont w) (wd_nbw w) (wd_nfail w) (x :: wd_log w) (wd_dead w).
Definition kill w x := mkWd (wd_reqs w) (wd_kq w) (wd_wire w) (wd_nsock w) (wd_nbr w) (wd_nbr_cont w) (wd_nbw w) (wd_nfail w) (x :: wd_log w) true.

Definition kill_res {A} (w : world) (r : res A) : world :=
  match r with
  | Ok _ => w
  | Fault => kill w LgFault
  | AssertFail => kill w LgAssert
  | OutOfFuel => kill w LgFuel
  end.

(* ---- kernel queues *)
Definition key_eq (fd : nat) (wr : bool) (k : nat * bool * list kev) : bool :=
  (fst (fst k) =? fd) && Bool.eqb (snd (fst k)) wr.

Fixpoint kq_get (kq : list (nat * bool * list kev)) (fd : nat) (wr : bool) : list kev :=
  match kq with
  | [] => []
  | k :: r => if key_eq fd wr k then snd k else kq_get r fd wr
  end.

Fixpoint kq_set (kq : list (nat * bool * list kev)) (fd : nat) (wr : bool) (q : list kev)
  : list (nat * bool * list kev) :=
  match kq with
  | [] => [(fd, wr, q)]
  | k :: r => if key_eq fd wr k then (fd, wr, q) :: r else k :: kq_set r fd wr q
  end.

Fixpoint wire_add (ws : list (nat * list N)) (fd : nat) (bs : list N) : list (nat * list N) :=
  match ws with
  | [] => [(fd, bs)]
  | (f, old) :: r => if f =? fd then (f, old ++ bs) :: r else (f, old) :: wire_add r fd bs
  end.

(* ---- slots *)
Definition busy (w : world) (fd : nat) (wr : bool) : bool :=
  existsb (fun q => (q_fd q =? fd) && Bool.eqb (q_wr q) wr) (wd_reqs w).

Definition req_ready (w : world) (q : req) : bool :=
  match kq_get (wd_kq w) (q_fd q) (q_wr q) with [] => false | _ => true end.

(* (fd, direction) order: lower fd first, read before write *)
Definition slot_lt (a b : req) : bool :=
  (q_fd a <? q_fd b) || ((q_fd a =? q_fd b) && negb (q_wr a) && q_wr b).

Fixpoint pick_ready (w : world) (qs : list req) (best : option req) : option req :=
  match qs with
  | [] => best
  | q :: r =>
    if req_ready w q then
      match best with
      | Some b => if slot_lt q b then pick_ready w r (Some q) else pick_ready w r best
      | None => pick_ready w r (Some q)
      end
    else pick_ready w r best
  end.

Definition same_slot (a b : req) : bool := (q_fd a =? q_fd b) && Bool.eqb (q_wr a) (q_wr b).

Definition remove_req (w : world) (q : req) : world :=
  set_reqs w (filter (fun x => negb (same_slot x q)) (wd_reqs w)).

Definition replace_req (w : world) (q : req) : world :=
  set_reqs w (map (fun x => if same_slot x q then q else x) (wd_reqs w)).

Definition own_who (o : owner) : who :=
  match o with OwnUser id _ => WhoUser id | _ => WhoNetbuf end.

Definition is_user_id (id : nat) (q : req) : bool :=
  match q_own q with OwnUser i _ => i =? id | _ => false end.

Section World.
  Variable rd_retry wr_retry acc_retry : list N.
  Variable wbuflen rbuf_init rbuf_grow : nat.
  Variable fill : N.                    (* initial content of user read buffers *)

  (* what must happen after a delivery *)
  Inductive after :=
  | AfterNothing
  | AfterOps (ops : list op)            (* run these in callback context *)
  | AfterWritbuf (v : Z).               (* the writer's in-flight write completed with v *)

  (* start the network_write a poke asked for *)
  Definition start_nbw_write (w : world) (fd : nat) (evs : list wevent) (blk : nat) : world :=
    fold_left (fun w e =>
      match e with
      | EvStart data =>
        set_reqs w (wd_reqs w ++ [mkReq fd (RqWrite (mkWr data (length data) (length data) 0)) OwnNbw 0 blk])
      | EvFail => addlog (set_nfail w (S (wd_nfail w))) LgFail
      end) evs w.

  Definition curr_blk (W : nbw) : nat :=
    match w_curr W with Some WB => wb_buflen WB | None => 0 end.

  Definition nbw_result (w : world) (fd : nat) (r : res (nbw * Z * list wevent)) : world * Z :=
    match r with
    | Ok (W', rc, evs) => (start_nbw_write (set_nbw w (Some (fd, W'))) fd evs (curr_blk W'), rc)
    | _ => (kill_res w r, 0%Z)
    end.

  (* deliver one readiness event to request q *)
  Definition deliver (w : world) (q : req) : world * after :=
    let fd := q_fd q in
    let kq := kq_get (wd_kq w) fd (q_wr q) in
    match kq with
    | [] => (w, AfterNothing)
    | ev :: kq' =>
      match q_kind q with
      | RqRead C =>
        let oplen := rd_buflen C - rd_bufpos C in
        let '(ans, kq2, r) :=
          match ev with
          | KData bs =>
            if length bs <=? oplen then (RData bs, kq', RetN (length bs))
            else (RData (firstn oplen bs), KData (skipn oplen bs) :: kq', RetN oplen)
          | KErr e => (RErrno e, kq', RetErr e)
          | _ => (RErrno 1%N, kq', RetErr 1%N)
          end in
        let w1 := set_kq w (kq_set (wd_kq w) fd false kq2) in
        let w2 := addlog w1 (LgRecv fd (own_who (q_own q)) (q_blk q) (q_base q + rd_bufpos C) oplen r) in
        match read_cb rd_retry C ans true with
        | (C', ARearm) => (replace_req w2 (mkReq fd (RqRead C') (q_own q) (q_base q) (q_blk q)), AfterNothing)
        | (C', act) =>
          let v := match action_value act with Some v => v | None => 0%Z end in
          let w3 := remove_req w2 q in
          match q_own q with
          | OwnUser id cont => (addlog w3 (LgCb id v (Some (rd_buf C'))), AfterOps cont)
          | OwnNbr =>
            match wd_nbr w3 with
            | Some (rfd, R) =>
              match nbr_callback_read R (rd_buf C') v with
              | Ok (R', status) =>
                let w4 := set_nbr w3 (Some (rfd, R')) in
                match nbr_peek R' with
                | Ok pk => (set_nbr_cont (addlog w4 (LgNrCb status pk)) [], AfterOps (wd_nbr_cont w4))
                | x => (kill_res w4 x, AfterNothing)
                end
              | x => (kill_res w3 x, AfterNothing)
              end
            | None => (w3, AfterNothing)
            end
          | OwnNbw => (w3, AfterNothing)
          end
        end
      | RqWrite C =>
        let oplen := wr_buflen C - wr_bufpos C in
        let '(ans, r) :=
          match ev with
          | KRoom k => (SSent (Nat.min k oplen), RetN (Nat.min k oplen))
          | KErr e => (SErrno e, RetErr e)
          | _ => (SErrno 1%N, RetErr 1%N)
          end in
        let w1 := set_kq w (kq_set (wd_kq w) fd true kq') in
        let w2 := set_wire w1 (wire_add (wd_wire w1) fd (taken C ans)) in
        let w3 := addlog w2 (LgSend fd (own_who (q_own q)) (q_blk q) (q_base q + wr_bufpos C) oplen r) in
        match write_cb wr_retry C ans true with
        | Ok (C', ARearm) => (replace_req w3 (mkReq fd (RqWrite C') (q_own q) (q_base q) (q_blk q)), AfterNothing)
        | Ok (C', act) =>
          let v := match action_value act with Some v => v | None => 0%Z end in
          let w4 := remove_req w3 q in
          match q_own q with
          | OwnUser id cont => (addlog w4 (LgCb id v None), AfterOps cont)
          | OwnNbw => (w4, AfterWritbuf v)
          | OwnNbr => (w4, AfterNothing)
          end
        | x => (kill_res w3 x, AfterNothing)
        end
      | RqAccept =>
        let '(ans, r, ns) :=
          match ev with
          | KConn => (AAccepted (wd_nsock w), RetN (wd_nsock w), S (wd_nsock w))
          | KErr e => (AErrno e, RetErr e, wd_nsock w)
          | _ => (AErrno 1%N, RetErr 1%N, wd_nsock w)
          end in
        let w1 := set_nsock (set_kq w (kq_set (wd_kq w) fd false kq')) ns in
        match q_own q with
        | OwnUser id cont =>
          let w2 := addlog w1 (LgAcc fd id r) in
          match accept_cb acc_retry ans true with
          | AccRearm => (w2, AfterNothing)
          | AccRearmFailed => (remove_req w2 q, AfterNothing)
          | AccCallback v => (addlog (remove_req w2 q) (LgCb id v None), AfterOps cont)
          end
        | _ => (w1, AfterNothing)
        end
      end
    end.

  (* one operation of the script, other than OpRun *)
  Definition do_op (w : world) (o : op) : world :=
    match o with
    | OpRun => w
    | OpRead id fd buflen min cont =>
      match network_read (repeat fill buflen) buflen min true (negb (busy w fd false)) with
      | Ok (Some C) => addlog (set_reqs w (wd_reqs w ++ [mkReq fd (RqRead C) (OwnUser id cont) 0 buflen])) (LgStart 0 id true)
      | Ok None => addlog w (LgStart 0 id false)
      | x => kill_res w x
      end
    | OpWrite id fd data min cont =>
      match network_write data (length data) min true (negb (busy w fd true)) with
      | Ok (Some C) => addlog (set_reqs w (wd_reqs w ++ [mkReq fd (RqWrite C) (OwnUser id cont) 0 (length data)])) (LgStart 1 id true)
      | Ok None => addlog w (LgStart 1 id false)
      | x => kill_res w x
      end
    | OpAccept id fd cont =>
      if network_accept true (negb (busy w fd false))
      then addlog (set_reqs w (wd_reqs w ++ [mkReq fd RqAccept (OwnUser id cont) 0 0])) (LgStart 2 id true)
      else addlog w (LgStart 2 id false)
    | OpCancel id =>
      if existsb (is_user_id id) (wd_reqs w)
      then addlog (set_reqs w (filter (fun q => negb (is_user_id id q)) (wd_reqs w))) (LgCancel id)
      else addlog w LgSkip
    | OpFeed fd wr evs => set_kq w (kq_set (wd_kq w) fd wr (kq_get (wd_kq w) fd wr ++ evs))
    | OpNrInit fd =>
      match wd_nbr w with
      | Some _ => addlog w LgSkip
      | None =>
        match nbr_init rbuf_init true true with
        | Some R => addlog (set_nbr w (Some (fd, R))) (LgNrInit true)
        | None => addlog w (LgNrInit false)
        end
      end
    | OpNrWait k cont =>
      match wd_nbr w with
      | None => addlog w LgSkip
      | Some (fd, R) =>
        if r_reading R || r_imm R then addlog w LgSkip          (* the driver does not break the API rule *)
        else
          match nbr_wait rbuf_grow R k (mkWO true true (negb (busy w fd false))) with
          | Ok (R', Some WImm) => addlog (set_nbr_cont (set_nbr w (Some (fd, R'))) cont) (LgWait k 0%Z)
          | Ok (R', Some (WRead off max min)) =>
            match sub (r_buf R') off max with
            | Ok slice =>
              let w1 := set_nbr_cont (set_nbr w (Some (fd, R'))) cont in
              addlog (set_reqs w1 (wd_reqs w1 ++ [mkReq fd (RqRead (mkRd slice max min 0)) OwnNbr off (r_buflen R')]))
                     (LgWait k 0%Z)
            | x => kill_res w x
            end
          | Ok (R', None) => addlog (set_nbr w (Some (fd, R'))) (LgWait k (-1)%Z)
          | x => kill_res w x
          end
      end
    | OpNrConsume j =>
      match wd_nbr w with
      | None => addlog w LgSkip
      | Some (fd, R) =>
        let avail := r_datalen R - r_bufpos R in
        let j' := Nat.min j avail in                            (* the driver clamps *)
        match nbr_consume R j' with
        | Ok R' => addlog (set_nbr w (Some (fd, R'))) (LgConsume j')
        | x => kill_res w x
        end
      end
    | OpNrCancel =>
      match wd_nbr w with
      | None => addlog w LgSkip
      | Some (fd, R) =>
        let (R', _) := nbr_cancel R in
        let w1 := set_nbr_cont (set_nbr w (Some (fd, R'))) [] in
        addlog (set_reqs w1 (filter (fun q => match q_own q with OwnNbr => false | _ => true end) (wd_reqs w1)))
               LgNrCancel
      end
    | OpNrPeek =>
      match wd_nbr w with
      | None => addlog w LgSkip
      | Some (fd, R) =>
        match nbr_peek R with
        | Ok pk => addlog w (LgPeek pk)
        | x => kill_res w x
        end
      end
    | OpNwInit fd =>
      match wd_nbw w with
      | Some _ => addlog w LgSkip
      | None =>
        match nbw_init true with
        | Some W => addlog (set_nbw w (Some (fd, W))) (LgNwInit true)
        | None => addlog w (LgNwInit false)
        end
      end
    | OpNwWrite data =>
      match wd_nbw w with
      | None => addlog w LgSkip
      | Some (fd, W) =>
        if w_reserved W then addlog w LgSkip
        else
          let (w1, rc) := nbw_result w fd (write wbuflen W data true true (negb (busy w fd true))) in
          if wd_dead w1 then w1 else addlog w1 (LgNwWrite (length data) rc)
      end
    | OpNwReserve n =>
      match wd_nbw w with
      | None => addlog w LgSkip
      | Some (fd, W) =>
        if w_reserved W then addlog w LgSkip
        else
          match reserve wbuflen W n true true with
          | Ok (W', ok) => addlog (set_nbw w (Some (fd, W'))) (LgNwReserve n ok)
          | x => kill_res w x
          end
      end
    | OpNwConsume data =>
      match wd_nbw w with
      | None => addlog w LgSkip
      | Some (fd, W) =>
        if negb (w_reserved W) then addlog w LgSkip
        else
          match last_buf W with
          | None => addlog w LgSkip
          | Some WB =>
            let data' := firstn (room WB) data in             (* the driver clamps to the reservation *)
            let (w1, rc) := nbw_result w fd (consume W data' (negb (busy w fd true))) in
            if wd_dead w1 then w1 else addlog w1 (LgNwConsume (length data') rc)
          end
      end
    end.

  Inductive task := TRun | TOps (incb : bool) (ops : list op).

  Definition reserved_now (w : world) : bool :=
    match wd_nbw w with Some (_, W) => w_reserved W | None => false end.

  Fixpoint go (fuel : nat) (w : world) (t : task) : world :=
    match fuel with
    | O => kill w LgFuel
    | S f =>
      if wd_dead w then w else
      match t with
      | TRun =>
        (* immediate events first: the reader's callback_success *)
        match wd_nbr w with
        | Some (rfd, R) =>
          if r_imm R then
            match nbr_callback_success R with
            | Ok (R', status) =>
              let w1 := set_nbr w (Some (rfd, R')) in
              match nbr_peek R' with
              | Ok pk =>
                let cont := wd_nbr_cont w1 in
                let w2 := set_nbr_cont (addlog w1 (LgNrCb status pk)) [] in
                go f (go f w2 (TOps true cont)) TRun
              | x => kill_res w1 x
              end
            | x => kill_res w x
            end
          else go_net f w
        | None => go_net f w
        end
      | TOps _ [] => w
      | TOps incb (o :: rest) =>
        let w1 :=
          match o with
          | OpRun => if incb || reserved_now w then addlog w LgSkip else go f w TRun
          | _ => do_op w o
          end in
        go f w1 (TOps incb rest)
      end
    end
  with go_net (fuel : nat) (w : world) : world :=
    match fuel with
    | O => kill w LgFuel
    | S f =>
      match pick_ready w (wd_reqs w) None with
      | None => w
      | Some q =>
        let (w1, aft) := deliver w q in
        let w2 :=
          match aft with
          | AfterNothing => w1
          | AfterOps ops => go f w1 (TOps true ops)
          | AfterWritbuf v =>
            match wd_nbw w1 with
            | Some (fd, W) => fst (nbw_result w1 fd (writbuf W v (negb (busy w1 fd true))))
            | None => w1
            end
          end in
        go f w2 TRun
      end
    end.

  (* the trailer every case ends with: pending user requests, wires, unread kernel data *)
  Definition left_bytes (q : list kev) : nat :=
    fold_left (fun n e => match e with KData bs => n + length bs | _ => n end) q 0.

  Definition trailer (w : world) : list logitem :=
    flat_map (fun q => match q_own q with OwnUser id _ => [LgPending id] | _ => [] end) (wd_reqs w) ++
    map (fun x => LgWire (fst x) (snd x)) (wd_wire w) ++
    flat_map (fun k => match k with (fd, false, q) => if left_bytes q =? 0 then [] else [LgLeft fd (left_bytes q)] | _ => [] end) (wd_kq w) ++
    (match wd_nbr w with
     | Some (_, R) => match nbr_peek R with Ok pk => [LgPeek pk] | _ => [LgFault] end
     | None => []
     end) ++
    (match wd_nbw w with Some _ => [LgNfail (wd_nfail w)] | None => [] end).

  Definition run_script (fuel : nat) (ops : list op) : list logitem :=
    let w := go fuel world0 (TOps false ops) in
    rev (wd_log w) ++ (if wd_dead w then [] else trailer w).
End World.
