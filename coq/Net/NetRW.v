(* network/network_read.c and network/network_write.c: one asynchronous request as a state
   machine driven by "the readiness callback was delivered" (that this delivery happens at most
   once per registration and only while registered is C04, the event loop).

   The kernel's answer to the recv/send issued by callback_buf is an input; theorems quantify
   over all answer sequences.

   network_write.c's callback_buf has two build configurations: the default one passes
   MSG_NOSIGNAL to send(); -DPOSIXFAIL_MSG_NOSIGNAL (platforms without the flag) passes 0 and
   brackets the call with signal(SIGPIPE, SIG_IGN) / signal(SIGPIPE, old), saving errno over the
   second signal().  [write_cb] is configuration-independent: it is the function of the send()
   ANSWER - return value and the errno send itself left - that both configurations implement;
   the SIGPIPE and errno bookkeeping around the call is not part of it.  The correspondence run
   (areas/net.py) executes the C in BOTH configurations against this one machine, with a scripted
   poll()/signal() that leave a rotating errno behind, and checks the flags / SIGPIPE disposition
   of every send() per configuration.  Sizes are nat (size_t without a bound: the two SSIZE_MAX asserts
   are not modelled), bytes are N, callback values Z.  No proofs in this file. *)
From Coq Require Import NArith ZArith List Bool Arith.
From LCP Require Import Base.CheckedMem.
Import ListNotations.
Local Open Scope nat_scope.

(* ---------------------------------------------------------------- kernel answers *)
Inductive ranswer :=
| RData (bs : list N)     (* recv returned [length bs] > 0 bytes; [RData []] is the return value 0 *)
| RErrno (e : N).         (* recv returned -1 with errno e (symbolic code, Gen/Repo_net.v) *)

Inductive sanswer :=
| SSent (n : nat)         (* send returned n *)
| SErrno (e : N).

(* what callback_buf does after the system call *)
Inductive action :=
| ARearm                  (* events_network_register(callback_buf, C, fd, op) succeeded; return 0 *)
| ACallback (v : Z)       (* docallback(C, v): user callback, cookie freed *)
| ARearmFailed.           (* the re-registration failed: docallback(C, -1) *)

Definition action_value (a : action) : option Z :=
  match a with ARearm => None | ACallback v => Some v | ARearmFailed => Some (-1)%Z end.

(* memcpy of [bs] into [buf] at [pos] (the kernel writing into the user buffer) *)
Definition write_at (buf : list N) (pos : nat) (bs : list N) : list N :=
  firstn pos buf ++ bs ++ skipn (pos + length bs) buf.

Section RW.
  Variable retry : list N.          (* errno values for which callback_buf goes to tryagain *)

  Definition is_retry (e : N) : bool := existsb (N.eqb e) retry.

  (* ------------------------------------------------------------- struct network_read_cookie *)
  Record rdstate := mkRd { rd_buf : list N; rd_buflen : nat; rd_minlen : nat; rd_bufpos : nat }.

  (* the arguments callback_buf passes to recv: offset into the user buffer and length *)
  Definition rd_request (C : rdstate) : nat * nat := (rd_bufpos C, rd_buflen C - rd_bufpos C).

  (* network_read(fd, buf, buflen, minread, ..): cookie_ok / reg_ok are the outcomes of
     mpool_network_read_cookie_malloc and events_network_register *)
  Definition network_read (buf : list N) (buflen minread : nat) (cookie_ok reg_ok : bool)
    : res (option rdstate) :=
    if buflen =? 0 then AssertFail                               (* assert(buflen != 0) *)
    else if negb cookie_ok then Ok None                          (* err0 *)
    else if negb reg_ok then Ok None                             (* err1: cookie freed *)
    else Ok (Some (mkRd buf buflen minread 0)).

  Definition rd_tryagain (C : rdstate) (reg_ok : bool) : rdstate * action :=
    if reg_ok then (C, ARearm) else (C, ARearmFailed).

  (* callback_buf of network_read.c *)
  Definition read_cb (C : rdstate) (ans : ranswer) (reg_ok : bool) : rdstate * action :=
    match ans with
    | RErrno e =>                                                (* len == -1 *)
      if is_retry e then rd_tryagain C reg_ok else (C, ACallback (-1)%Z)
    | RData bs =>
      match length bs with
      | 0 => (C, ACallback 0%Z)                                  (* eof *)
      | len =>
        let C' := mkRd (write_at (rd_buf C) (rd_bufpos C) bs) (rd_buflen C) (rd_minlen C)
                       (rd_bufpos C + len) in                    (* C->bufpos += len *)
        if rd_bufpos C' <? rd_minlen C' then rd_tryagain C' reg_ok
        else (C', ACallback (Z.of_nat (rd_bufpos C')))
      end
    end.

  (* One request from registration to completion along a sequence of (answer, outcome of a
     possible re-registration).  Result: the (offset, length) of every recv issued, and the
     callback value with the final cookie if the request completed (None: still registered,
     waiting for the next readiness event).  Answers after completion are not consumed: the
     cookie no longer exists. *)
  Fixpoint read_run (C : rdstate) (answers : list (ranswer * bool))
    : list (nat * nat) * option (Z * rdstate) :=
    match answers with
    | [] => ([], None)
    | (a, reg_ok) :: r =>
      match read_cb C a reg_ok with
      | (C', ARearm) => let (t, fin) := read_run C' r in (rd_request C :: t, fin)
      | (C', ACallback v) => ([rd_request C], Some (v, C'))
      | (C', ARearmFailed) => ([rd_request C], Some ((-1)%Z, C'))
      end
    end.

  (* ------------------------------------------------------------- struct network_write_cookie *)
  Record wrstate := mkWr { wr_buf : list N; wr_buflen : nat; wr_minlen : nat; wr_bufpos : nat }.

  Definition wr_request (C : wrstate) : nat * nat := (wr_bufpos C, wr_buflen C - wr_bufpos C).

  Definition network_write (buf : list N) (buflen minwrite : nat) (cookie_ok reg_ok : bool)
    : res (option wrstate) :=
    if buflen =? 0 then AssertFail
    else if negb cookie_ok then Ok None
    else if negb reg_ok then Ok None
    else Ok (Some (mkWr buf buflen minwrite 0)).

  Definition wr_tryagain (C : wrstate) (reg_ok : bool) : res (wrstate * action) :=
    if reg_ok then Ok (C, ARearm) else Ok (C, ARearmFailed).

  (* callback_buf of network_write.c (either build configuration, see the header) *)
  Definition write_cb (C : wrstate) (ans : sanswer) (reg_ok : bool) : res (wrstate * action) :=
    match ans with
    | SSent 0 => AssertFail                                      (* assert(len != 0) *)
    | SErrno e =>
      if is_retry e then wr_tryagain C reg_ok else Ok (C, ACallback (-1)%Z)
    | SSent len =>
      let C' := mkWr (wr_buf C) (wr_buflen C) (wr_minlen C) (wr_bufpos C + len) in
      if wr_bufpos C' <? wr_minlen C' then wr_tryagain C' reg_ok
      else Ok (C', ACallback (Z.of_nat (wr_bufpos C')))
    end.

  (* the bytes the kernel took out of the user buffer for one answer *)
  Definition taken (C : wrstate) (ans : sanswer) : list N :=
    match ans with
    | SSent n => firstn n (skipn (wr_bufpos C) (wr_buf C))
    | SErrno _ => []
    end.

  (* result: send requests issued, bytes handed to the socket in order, completion *)
  Fixpoint write_run (C : wrstate) (answers : list (sanswer * bool))
    : res (list (nat * nat) * list N * option (Z * wrstate)) :=
    match answers with
    | [] => Ok ([], [], None)
    | (a, reg_ok) :: r =>
      match write_cb C a reg_ok with
      | Ok (C', ARearm) =>
        match write_run C' r with
        | Ok (t, wire, fin) => Ok (wr_request C :: t, taken C a ++ wire, fin)
        | Fault => Fault | AssertFail => AssertFail | OutOfFuel => OutOfFuel
        end
      | Ok (C', ACallback v) => Ok ([wr_request C], taken C a, Some (v, C'))
      | Ok (C', ARearmFailed) => Ok ([wr_request C], taken C a, Some ((-1)%Z, C'))
      | Fault => Fault | AssertFail => AssertFail | OutOfFuel => OutOfFuel
      end
    end.

  (* ------------------------------------------------------------- life cycle with cancel
     The (fd, op) registration slot of the event loop as seen by one request: [Some C] while
     callback_buf is registered with cookie C, [None] after the user callback or after
     network_read_cancel (events_network_cancel + cookie freed).  A readiness event can only be
     delivered while the slot is occupied (C04), so inputs offered to an empty slot are ignored
     and produce no observation. *)
  Inductive rinput := InAnswer (a : ranswer) (reg_ok : bool) | InCancel.
  Inductive robs :=
  | ObsRecv (off len : nat)
  | ObsCallback (v : Z)
  | ObsCancelled.

  Definition rd_life_step (slot : option rdstate) (i : rinput) : option rdstate * list robs :=
    match slot, i with
    | None, _ => (None, [])
    | Some C, InCancel => (None, [ObsCancelled])
    | Some C, InAnswer a reg_ok =>
      let rq := rd_request C in
      match read_cb C a reg_ok with
      | (C', ARearm) => (Some C', [ObsRecv (fst rq) (snd rq)])
      | (C', act) =>
        (None, [ObsRecv (fst rq) (snd rq);
                ObsCallback (match action_value act with Some v => v | None => 0%Z end)])
      end
    end.

  Fixpoint rd_life (slot : option rdstate) (ins : list rinput) : option rdstate * list robs :=
    match ins with
    | [] => (slot, [])
    | i :: r =>
      let (s1, o1) := rd_life_step slot i in
      let (s2, o2) := rd_life s1 r in (s2, o1 ++ o2)
    end.

  Inductive winput := WInAnswer (a : sanswer) (reg_ok : bool) | WInCancel.
  Inductive wobs :=
  | ObsSend (off len : nat) (bytes : list N)
  | ObsWCallback (v : Z)
  | ObsWCancelled.

  Definition wr_life_step (slot : option wrstate) (i : winput) : res (option wrstate * list wobs) :=
    match slot, i with
    | None, _ => Ok (None, [])
    | Some C, WInCancel => Ok (None, [ObsWCancelled])
    | Some C, WInAnswer a reg_ok =>
      let rq := wr_request C in
      match write_cb C a reg_ok with
      | Ok (C', ARearm) => Ok (Some C', [ObsSend (fst rq) (snd rq) (taken C a)])
      | Ok (C', act) =>
        Ok (None, [ObsSend (fst rq) (snd rq) (taken C a);
                   ObsWCallback (match action_value act with Some v => v | None => 0%Z end)])
      | Fault => Fault | AssertFail => AssertFail | OutOfFuel => OutOfFuel
      end
    end.

  Fixpoint wr_life (slot : option wrstate) (ins : list winput) : res (option wrstate * list wobs) :=
    match ins with
    | [] => Ok (slot, [])
    | i :: r =>
      match wr_life_step slot i with
      | Ok (s1, o1) =>
        match wr_life s1 r with
        | Ok (s2, o2) => Ok (s2, o1 ++ o2)
        | Fault => Fault | AssertFail => AssertFail | OutOfFuel => OutOfFuel
        end
      | Fault => Fault | AssertFail => AssertFail | OutOfFuel => OutOfFuel
      end
    end.
End RW.
