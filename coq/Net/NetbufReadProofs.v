(* netbuf_read.c: window invariant (C07-M1) and refinement to the abstract stream (C07-M2), for
   every sequence of wait / consume / cancel / event deliveries and every wait length. *)
From Coq Require Import NArith ZArith List Bool Arith Lia.
From LCP Require Import Base.CheckedMem Net.NetRW Net.NetbufRead Net.ListAux.
Import ListNotations.
Local Open Scope nat_scope.

Lemma sub_ok buf off n : off + n <= length buf -> sub buf off n = Ok (firstn n (skipn off buf)).
Proof. intros H. unfold sub. apply Nat.leb_le in H. rewrite H. reflexivity. Qed.

Lemma store_ok buf off bs : off + length bs <= length buf -> store buf off bs = Ok (write_at buf off bs).
Proof. intros H. unfold store. apply Nat.leb_le in H. rewrite H. reflexivity. Qed.

Lemma write_at_len buf pos bs :
  pos + length bs <= length buf -> length (write_at buf pos bs) = length buf.
Proof. intros H. unfold write_at. rewrite !app_length, firstn_length, skipn_length. lia. Qed.

(* the window [b, d) of a buffer *)
Definition window (buf : list N) (b d : nat) : list N := firstn (d - b) (skipn b buf).

(* storing at or beyond d does not disturb the window, and extends it by what was stored *)
Lemma window_store buf b d slice n :
  b <= d -> d + length slice <= length buf -> n <= length slice ->
  window (write_at buf d slice) b (d + n) = window buf b d ++ firstn n slice.
Proof.
  intros Hbd Hfit Hn. unfold window, write_at.
  assert (Hd : length (firstn d buf) = d) by (apply firstn_len_le; lia).
  rewrite skipn_app, Hd. replace (b - d) with 0 by lia. cbn [skipn].
  replace (d + n - b) with ((d - b) + n) by lia.
  assert (Hs : length (skipn b (firstn d buf)) = d - b) by (rewrite skipn_length, Hd; reflexivity).
  rewrite (firstn_app_len _ _ (d - b) n Hs).
  rewrite firstn_app. replace (n - length slice) with 0 by lia. cbn [firstn]. rewrite app_nil_r.
  f_equal. rewrite skipn_firstn_comm. reflexivity.
Qed.

Lemma window_store0 buf b d slice :
  b <= d -> d + length slice <= length buf ->
  window (write_at buf d slice) b d = window buf b d.
Proof.
  intros. pose proof (window_store buf b d slice 0 ltac:(lia) ltac:(lia) ltac:(lia)) as W.
  rewrite Nat.add_0_r in W. rewrite W. cbn. apply app_nil_r.
Qed.

Lemma window_length buf b d : b <= d -> d <= length buf -> length (window buf b d) = d - b.
Proof. intros. unfold window. rewrite firstn_length, skipn_length. lia. Qed.

(* moving the window to the front of a (possibly different) block *)
Lemma window_moved blk data :
  length data <= length blk -> window (write_at blk 0 data) 0 (length data) = data.
Proof.
  intros H. unfold window, write_at. cbn [firstn skipn app Nat.add]. rewrite Nat.sub_0_r.
  apply firstn_app_exact. reflexivity.
Qed.

Section Proofs.
  Variable grow : nat.

  (* C07-M1: the window invariant *)
  Definition rinv (R : nbr) : Prop :=
    r_bufpos R <= r_datalen R /\ r_datalen R <= r_buflen R /\
    length (r_buf R) = r_buflen R /\ 0 < r_buflen R.

  Definition avail (R : nbr) : nat := r_datalen R - r_bufpos R.
  Definition view (R : nbr) : list N := window (r_buf R) (r_bufpos R) (r_datalen R).

  Lemma peek_view R : rinv R -> nbr_peek R = Ok (view R).
  Proof. intros (A & B & C & D). unfold nbr_peek, view, window. apply sub_ok. lia. Qed.

  Lemma view_length R : rinv R -> length (view R) = avail R.
  Proof. intros (A & B & C & D). unfold view, avail. apply window_length; lia. Qed.

  Lemma init_inv init_len a1 a2 R : 0 < init_len ->
    nbr_init init_len a1 a2 = Some R -> rinv R /\ view R = [] /\ r_reading R = false /\ r_imm R = false.
  Proof.
    intros Hinit. unfold nbr_init. destruct (a1 && a2); [|discriminate]. intros H; inversion H; subst.
    unfold rinv, view, window; cbn. rewrite repeat_length. repeat split; auto; lia.
  Qed.

  (* a network_read the reader starts is well-formed: target range inside the block, 0 < min <= max *)
  Definition act_ok (R' : nbr) (k : nat) (a : option waitact) : Prop :=
    match a with
    | Some WImm => k <= avail R' /\ r_imm R' = true /\ r_reading R' = false
    | Some (WRead off max min) =>
      off = r_datalen R' /\ off + max = r_buflen R' /\ off + max = length (r_buf R') /\
      0 < min /\ min <= max /\ min + avail R' = k /\ r_reading R' = true /\ r_imm R' = false
    | None => r_reading R' = false /\ r_imm R' = false
    end.

  Lemma resize_ok R len :
    rinv R -> avail R < len ->
    exists R', nbr_resize grow R len true = Ok (Some R') /\ rinv R' /\ view R' = view R /\
               len <= r_buflen R' /\ r_bufpos R' = 0 /\
               r_reading R' = r_reading R /\ r_imm R' = r_imm R.
  Proof.
    intros I Hl. pose proof (view_length R I) as VL. destruct I as (A & B & C & D).
    unfold nbr_resize. cbn [negb].
    rewrite sub_ok by lia. fold (window (r_buf R) (r_bufpos R) (r_datalen R)). fold (view R).
    set (nb := if r_buflen R * grow <? len then len else r_buflen R * grow).
    assert (Hnb : len <= nb) by (unfold nb; destruct (r_buflen R * grow <? len) eqn:E;
                                 [lia | apply Nat.ltb_ge in E; lia]).
    unfold avail in *.
    rewrite store_ok by (rewrite repeat_length; cbn; lia).
    eexists. split; [reflexivity|].
    assert (WL : length (write_at (repeat 0%N nb) 0 (view R)) = nb)
      by (rewrite write_at_len; rewrite repeat_length; cbn; lia).
    split. { unfold rinv; cbn [r_buf r_buflen r_bufpos r_datalen]. rewrite WL. lia. }
    split. { unfold view at 1; cbn [r_buf r_bufpos r_datalen]. rewrite <- VL. apply window_moved.
             rewrite repeat_length. lia. }
    cbn. repeat split; auto.
  Qed.

  Lemma compact_ok R :
    rinv R ->
    exists R', nbr_compact R = Ok R' /\ rinv R' /\ view R' = view R /\
               r_buflen R' = r_buflen R /\ r_bufpos R' = 0 /\
               r_reading R' = r_reading R /\ r_imm R' = r_imm R.
  Proof.
    intros I. pose proof (view_length R I) as VL. destruct I as (A & B & C & D).
    unfold nbr_compact. rewrite sub_ok by lia.
    fold (window (r_buf R) (r_bufpos R) (r_datalen R)). fold (view R). unfold avail in *.
    rewrite store_ok by (cbn; lia).
    eexists. split; [reflexivity|].
    assert (WL : length (write_at (r_buf R) 0 (view R)) = r_buflen R) by (rewrite write_at_len; cbn; lia).
    split. { unfold rinv; cbn [r_buf r_buflen r_bufpos r_datalen]. rewrite WL. lia. }
    split. { unfold view at 1; cbn [r_buf r_bufpos r_datalen]. rewrite <- VL. apply window_moved. lia. }
    cbn. repeat split; auto.
  Qed.

  (* netbuf_read_wait, any k, any outcome of its allocations / registrations *)
  Theorem wait_ok_lemma R k o :
    rinv R -> r_reading R = false -> r_imm R = false ->
    exists R' a, nbr_wait grow R k o = Ok (R', a) /\ rinv R' /\ view R' = view R /\ act_ok R' k a.
  Proof.
    intros I Hr Hi. pose proof I as (A & B & C & D).
    unfold nbr_wait. rewrite Hr, Hi.
    destruct (k <=? r_datalen R - r_bufpos R) eqn:Ek.
    - apply Nat.leb_le in Ek. destruct (wo_imm o).
      + eexists _, _. split; [reflexivity|]. split; [exact I|]. split; [reflexivity|].
        cbn. unfold avail; cbn. auto.
      + eexists _, _. split; [reflexivity|]. split; [exact I|]. split; [reflexivity|]. cbn. auto.
    - apply Nat.leb_gt in Ek.
      (* resize *)
      assert (Hres : exists R1, (if r_buflen R <? k then nbr_resize grow R k (wo_alloc o) else Ok (Some R)) = Ok R1 /\
                match R1 with
                | None => True
                | Some R1 => rinv R1 /\ view R1 = view R /\ k <= r_buflen R1 /\
                             r_reading R1 = false /\ r_imm R1 = false
                end).
      { destruct (r_buflen R <? k) eqn:Eb.
        - destruct (wo_alloc o).
          + destruct (resize_ok R k I Ek) as (R1 & E1 & I1 & V1 & L1 & _ & Rr & Ri).
            exists (Some R1). split; [exact E1|]. repeat split; auto; try apply I1; congruence.
          + exists None. split; [reflexivity|exact Logic.I].
        - apply Nat.ltb_ge in Eb. exists (Some R). split; [reflexivity|]. repeat split; auto; lia. }
      destruct Hres as (R1o & E1 & P1). rewrite E1.
      destruct R1o as [R1|].
      2:{ eexists _, _. split; [reflexivity|]. split; [exact I|]. split; [reflexivity|]. cbn. auto. }
      destruct P1 as (I1 & V1 & L1 & Rr1 & Ri1).
      (* compaction *)
      assert (Hcomp : exists R2, (if r_buflen R1 - r_bufpos R1 <? k then nbr_compact R1 else Ok R1) = Ok R2 /\
                rinv R2 /\ view R2 = view R /\ r_bufpos R2 + k <= r_buflen R2 /\
                r_reading R2 = false /\ r_imm R2 = false).
      { destruct (r_buflen R1 - r_bufpos R1 <? k) eqn:Ec.
        - destruct (compact_ok R1 I1) as (R2 & E2 & I2 & V2 & L2 & P2 & Rr2 & Ri2).
          exists R2. split; [exact E2|]. repeat split; try apply I2; try congruence; lia.
        - apply Nat.ltb_ge in Ec. exists R1. split; [reflexivity|].
          destruct I1 as (A1 & B1 & C1 & D1). repeat split; auto; lia. }
      destruct Hcomp as (R2 & E2 & I2 & V2 & L2 & Rr2 & Ri2). rewrite E2.
      (* the network_read *)
      pose proof (view_length R I) as VL. pose proof (view_length R2 I2) as VL2.
      rewrite V2, VL in VL2. unfold avail in VL2.
      destruct I2 as (A2 & B2 & C2 & D2).
      unfold nbr_start_read.
      destruct (r_buflen R2 - r_datalen R2 =? 0) eqn:Ez; [apply Nat.eqb_eq in Ez; lia|].
      destruct (length (r_buf R2) <? r_datalen R2 + (r_buflen R2 - r_datalen R2)) eqn:Ef;
        [apply Nat.ltb_lt in Ef; lia|].
      destruct (wo_read o); cbn [negb].
      + eexists _, _. split; [reflexivity|].
        split; [unfold rinv; cbn; lia|]. split; [exact V2|].
        cbn. unfold avail; cbn. repeat split; auto; lia.
      + eexists _, _. split; [reflexivity|].
        split; [unfold rinv; lia|]. split; [exact V2|]. cbn. auto.
  Qed.

  (* callback_read: what the completed network_read reported.  C06-M1 is the hypothesis: the
     slice is the target range, lenread is -1, 0 or at most its length *)
  Theorem callback_read_ok_lemma R slice lenread :
    rinv R -> r_reading R = true ->
    length slice = r_buflen R - r_datalen R -> (lenread <= Z.of_nat (length slice))%Z ->
    exists R' st, nbr_callback_read R slice lenread = Ok (R', st) /\ rinv R' /\
      r_reading R' = false /\ r_imm R' = r_imm R /\
      ((lenread < 0)%Z -> st = (-1)%Z /\ view R' = view R) /\
      (lenread = 0%Z -> st = 1%Z /\ view R' = view R) /\
      ((0 < lenread)%Z -> st = 0%Z /\ view R' = view R ++ firstn (Z.to_nat lenread) slice).
  Proof.
    intros (A & B & C & D) Hr Hs Hn. unfold nbr_callback_read. rewrite Hr. cbn [negb].
    rewrite store_ok by lia.
    assert (WL : length (write_at (r_buf R) (r_datalen R) slice) = r_buflen R) by (rewrite write_at_len; lia).
    destruct (lenread <? 0)%Z eqn:E1.
    - apply Z.ltb_lt in E1. eexists _, _. split; [reflexivity|].
      unfold rinv, view; cbn [r_buf r_buflen r_bufpos r_datalen r_reading r_imm].
      repeat split; auto; try lia. apply window_store0; lia.
    - apply Z.ltb_ge in E1. destruct (lenread =? 0)%Z eqn:E2.
      + apply Z.eqb_eq in E2. eexists _, _. split; [reflexivity|].
        unfold rinv, view; cbn [r_buf r_buflen r_bufpos r_datalen r_reading r_imm].
        repeat split; auto; try lia. apply window_store0; lia.
      + apply Z.eqb_neq in E2. eexists _, _. split; [reflexivity|].
        unfold rinv, view; cbn [r_buf r_buflen r_bufpos r_datalen r_reading r_imm].
        repeat split; auto; try lia. apply window_store; lia.
  Qed.

  Theorem consume_ok_lemma R j :
    rinv R -> j <= avail R ->
    exists R', nbr_consume R j = Ok R' /\ rinv R' /\ view R' = skipn j (view R) /\
               r_reading R' = r_reading R /\ r_imm R' = r_imm R.
  Proof.
    intros (A & B & C & D) Hj. unfold avail in Hj. unfold nbr_consume.
    destruct (r_datalen R - r_bufpos R <? j) eqn:E; [apply Nat.ltb_lt in E; lia|].
    eexists. split; [reflexivity|]. unfold rinv, view, window; cbn. repeat split; auto; try lia.
    rewrite skipn_firstn_comm, skipn_add. f_equal. lia.
  Qed.

  Lemma callback_success_ok R :
    rinv R -> r_imm R = true ->
    exists R', nbr_callback_success R = Ok (R', 0%Z) /\ rinv R' /\ view R' = view R /\
               r_imm R' = false /\ r_reading R' = r_reading R.
  Proof.
    intros I Hi. unfold nbr_callback_success. rewrite Hi. cbn [negb].
    eexists. split; [reflexivity|]. repeat split; auto; apply I.
  Qed.

  Lemma cancel_ok R : rinv R ->
    rinv (fst (nbr_cancel R)) /\ view (fst (nbr_cancel R)) = view R /\
    r_reading (fst (nbr_cancel R)) = false /\ r_imm (fst (nbr_cancel R)) = false.
  Proof. intros I. cbn. repeat split; auto; apply I. Qed.

  (* ---------------------------------------------------------------- histories *)
  Inductive rop :=
  | RoWait (k : nat) (o : woracle)
  | RoConsume (j : nat)
  | RoCancel
  | RoImm                                   (* the immediate event fires *)
  | RoDone (slice : list N) (lenread : Z).  (* the network_read completes *)

  (* what the environment may do in state R: the API rules of netbuf.h, C04 (only registered
     events fire) and C06-M1 (what a completed read reports) *)
  Definition env_ok (R : nbr) (op : rop) : Prop :=
    match op with
    | RoWait _ _ => r_reading R = false /\ r_imm R = false
    | RoConsume j => j <= avail R
    | RoCancel => True
    | RoImm => r_imm R = true
    | RoDone slice n =>
      r_reading R = true /\ length slice = r_buflen R - r_datalen R /\ (n <= Z.of_nat (length slice))%Z
    end.

  Definition rstep (R : nbr) (op : rop) : res (nbr * option (nat * option waitact)) :=
    match op with
    | RoWait k o =>
      match nbr_wait grow R k o with
      | Ok (R', a) => Ok (R', Some (k, a))
      | Fault => Fault | AssertFail => AssertFail | OutOfFuel => OutOfFuel
      end
    | RoConsume j =>
      match nbr_consume R j with
      | Ok R' => Ok (R', None)
      | Fault => Fault | AssertFail => AssertFail | OutOfFuel => OutOfFuel
      end
    | RoCancel => Ok (fst (nbr_cancel R), None)
    | RoImm =>
      match nbr_callback_success R with
      | Ok (R', _) => Ok (R', None)
      | Fault => Fault | AssertFail => AssertFail | OutOfFuel => OutOfFuel
      end
    | RoDone slice n =>
      match nbr_callback_read R slice n with
      | Ok (R', _) => Ok (R', None)
      | Fault => Fault | AssertFail => AssertFail | OutOfFuel => OutOfFuel
      end
    end.

  (* the abstract stream follows: only consume and a successfully completed read change it *)
  Definition abs_step (s : stream) (op : rop) : stream :=
    match op with
    | RoConsume j => s_consume s j
    | RoDone slice n => if (0 <? n)%Z then s_arrive s (firstn (Z.to_nat n) slice) else s
    | _ => s
    end.

  Definition refines (R : nbr) (s : stream) : Prop :=
    view R = s_peek s /\ consumed s <= length (arrived s).

  Lemma s_peek_arrive s bs : consumed s <= length (arrived s) -> s_peek (s_arrive s bs) = s_peek s ++ bs.
  Proof.
    intros H. unfold s_peek, s_arrive; cbn. rewrite skipn_app.
    replace (consumed s - length (arrived s)) with 0 by lia. reflexivity.
  Qed.

  Lemma s_peek_consume s j : s_peek (s_consume s j) = skipn j (s_peek s).
  Proof. unfold s_peek, s_consume; cbn. rewrite skipn_add. reflexivity. Qed.

  Theorem rstep_ok_lemma R s op :
    rinv R -> refines R s -> env_ok R op ->
    exists R' ev, rstep R op = Ok (R', ev) /\ rinv R' /\ refines R' (abs_step s op) /\
                  match ev with Some (k, a) => act_ok R' k a | None => True end.
  Proof.
    intros I (V & Hc) E. destruct op as [k o|j| | |slice n]; cbn [env_ok] in E; cbn [rstep abs_step].
    - destruct E as (Hr & Hi). destruct (wait_ok_lemma R k o I Hr Hi) as (R' & a & Ew & I' & V' & Ha).
      rewrite Ew. eexists _, _. split; [reflexivity|]. split; [exact I'|]. split; [|exact Ha].
      split; [congruence|exact Hc].
    - destruct (consume_ok_lemma R j I E) as (R' & Ec & I' & V' & _). rewrite Ec.
      eexists _, _. split; [reflexivity|]. split; [exact I'|]. split; [|exact Logic.I].
      split.
      + rewrite V', V. symmetry. apply s_peek_consume.
      + cbn. pose proof (view_length R I) as VL. rewrite V in VL. unfold s_peek in VL.
        rewrite skipn_length in VL. lia.
    - destruct (cancel_ok R I) as (I' & V' & _). eexists _, _. split; [reflexivity|].
      split; [exact I'|]. split; [|exact Logic.I]. split; [congruence|exact Hc].
    - destruct (callback_success_ok R I E) as (R' & Es & I' & V' & _). rewrite Es.
      eexists _, _. split; [reflexivity|]. split; [exact I'|]. split; [|exact Logic.I].
      split; [congruence|exact Hc].
    - destruct E as (Hr & Hs & Hn).
      destruct (callback_read_ok_lemma R slice n I Hr Hs Hn) as (R' & st & Ec & I' & _ & _ & Hneg & Hz & Hpos).
      rewrite Ec. eexists _, _. split; [reflexivity|]. split; [exact I'|]. split; [|exact Logic.I].
      destruct (0 <? n)%Z eqn:En.
      + apply Z.ltb_lt in En. destruct (Hpos En) as (_ & V'). split.
        * rewrite V', V. symmetry. apply s_peek_arrive. exact Hc.
        * cbn. rewrite app_length. lia.
      + apply Z.ltb_ge in En. split; [|exact Hc].
        destruct (Z.eq_dec n 0) as [->|Hne]; [destruct (Hz eq_refl) as (_ & V')|destruct (Hneg ltac:(lia)) as (_ & V')];
          congruence.
  Qed.

  (* a whole history; [hist_ok] says every operation respects [env_ok] in the state it meets *)
  Fixpoint rrun (R : nbr) (ops : list rop) : res nbr :=
    match ops with
    | [] => Ok R
    | op :: r =>
      match rstep R op with
      | Ok (R', _) => rrun R' r
      | Fault => Fault | AssertFail => AssertFail | OutOfFuel => OutOfFuel
      end
    end.

  Fixpoint hist_ok (R : nbr) (ops : list rop) : Prop :=
    match ops with
    | [] => True
    | op :: r =>
      env_ok R op /\ match rstep R op with Ok (R', _) => hist_ok R' r | _ => True end
    end.

  (* all network_reads started along a history *)
  Fixpoint reads_ok (R : nbr) (ops : list rop) : Prop :=
    match ops with
    | [] => True
    | op :: r =>
      match rstep R op with
      | Ok (R', ev) => match ev with Some (k, a) => act_ok R' k a | None => True end /\ reads_ok R' r
      | _ => True
      end
    end.

  (* C07-M1 + M2 for histories: never a fault, never a failed assert; the window invariant holds
     at the end (hence, the statement being about all histories, at every point); every
     network_read started is well-formed; the application's view is the abstract stream *)
  Theorem reader_history_lemma : forall ops R s,
    rinv R -> refines R s -> hist_ok R ops ->
    exists R', rrun R ops = Ok R' /\ rinv R' /\ refines R' (fold_left abs_step ops s) /\ reads_ok R ops.
  Proof.
    induction ops as [|op r IH]; intros R s I F H.
    - exists R. cbn. auto.
    - cbn [hist_ok] in H. destruct H as (E & H).
      destruct (rstep_ok_lemma R s op I F E) as (R' & ev & Es & I' & F' & Ha).
      rewrite Es in H. destruct (IH R' (abs_step s op) I' F' H) as (R'' & Er & I'' & F'' & Ro).
      exists R''. cbn [rrun fold_left reads_ok]. rewrite Es. auto.
  Qed.

  (* "a wait for k calls back with 0 exactly when k unconsumed bytes are present":
     immediate case, and the case through a network_read that honours C06-M1 (n >= min) *)
  Theorem wait_then_done_lemma R k o R1 off max min slice n :
    rinv R -> r_reading R = false -> r_imm R = false ->
    nbr_wait grow R k o = Ok (R1, Some (WRead off max min)) ->
    length slice = max -> (Z.of_nat min <= n <= Z.of_nat max)%Z ->
    exists R2, nbr_callback_read R1 slice n = Ok (R2, 0%Z) /\ rinv R2 /\ k <= avail R2 /\
               view R2 = view R ++ firstn (Z.to_nat n) slice.
  Proof.
    intros I Hr Hi Ew Hs Hn.
    destruct (wait_ok_lemma R k o I Hr Hi) as (R' & a & Ew' & I' & V' & Ha). rewrite Ew in Ew'.
    inversion Ew'; subst R' a. cbn [act_ok] in Ha.
    destruct Ha as (Hoff & Hmax & _ & Hmin & Hmm & Hk & Hr1 & Hi1).
    destruct (callback_read_ok_lemma R1 slice n I' Hr1 ltac:(lia) ltac:(lia)) as (R2 & st & Ec & I2 & _ & _ & _ & _ & Hpos).
    destruct (Hpos ltac:(lia)) as (-> & V2). exists R2. split; [exact Ec|]. split; [exact I2|].
    split; [|congruence].
    rewrite <- (view_length R2 I2), V2, app_length, (view_length R1 I'), firstn_length. lia.
  Qed.

  Theorem wait_immediate_lemma R k o R1 :
    rinv R -> r_reading R = false -> r_imm R = false ->
    nbr_wait grow R k o = Ok (R1, Some WImm) ->
    k <= avail R /\ exists R2, nbr_callback_success R1 = Ok (R2, 0%Z) /\ view R2 = view R.
  Proof.
    intros I Hr Hi Ew.
    destruct (wait_ok_lemma R k o I Hr Hi) as (R' & a & Ew' & I' & V' & Ha). rewrite Ew in Ew'.
    inversion Ew'; subst R' a. cbn [act_ok] in Ha. destruct Ha as (Hk & Him & _).
    split.
    - rewrite <- (view_length R I), <- V', (view_length R1 I'). exact Hk.
    - destruct (callback_success_ok R1 I' Him) as (R2 & Es & _ & V2 & _). exists R2. split; [exact Es|congruence].
  Qed.
End Proofs.

(* ---------------------------------------------------------------- C14: netbuf_read_wait and refused allocations / registrations *)
Section WaitFailure.
  Variable grow : nat.

  (* the allocation / registration outcomes that make netbuf_read_wait(R, k) return -1 *)
  Definition wait_refused (R : nbr) (k : nat) (o : woracle) : Prop :=
    (k <= avail R /\ wo_imm o = false) \/                       (* events_immediate_register refused *)
    (avail R < k /\ ((r_buflen R < k /\ wo_alloc o = false) \/  (* the buffer must grow and malloc refused *)
                     wo_read o = false)).                       (* network_read refused (cookie or registration) *)

  Theorem wait_failure_lemma R k o R' a :
    rinv R -> r_reading R = false -> r_imm R = false ->
    nbr_wait grow R k o = Ok (R', a) ->
    (wait_refused R k o <-> a = None) /\
    (a = None -> rinv R' /\ view R' = view R /\ r_reading R' = false /\ r_imm R' = false).
  Proof.
    intros I Hr Hi H.
    destruct (wait_ok_lemma grow R k o I Hr Hi) as (R2 & a2 & E & I' & V' & Ha).
    rewrite H in E. inversion E; subst R2 a2. clear E.
    split.
    2:{ intros ->. cbn [act_ok] in Ha. destruct Ha. auto. }
    unfold wait_refused, avail. unfold nbr_wait in H. rewrite Hr, Hi in H.
    destruct (k <=? r_datalen R - r_bufpos R) eqn:Ek.
    - apply Nat.leb_le in Ek. destruct (wo_imm o); inversion H; subst; split; intros X;
        try discriminate; try (left; auto); auto.
      destruct X as [(_ & X)|(X & _)]; [discriminate|lia].
    - apply Nat.leb_gt in Ek.
      assert (Hcomp : forall R1, rinv R1 -> exists R2,
                 (if r_buflen R1 - r_bufpos R1 <? k then nbr_compact R1 else Ok R1) = Ok R2 /\ rinv R2).
      { intros R1 I1. destruct (r_buflen R1 - r_bufpos R1 <? k).
        - destruct (compact_ok R1 I1) as (R2 & E2 & I2 & _). eauto.
        - eauto. }
      assert (Hstart : forall R2 Rx ax, nbr_start_read R2 k o = Ok (Rx, ax) -> (wo_read o = false <-> ax = None)).
      { intros R2 Rx ax. unfold nbr_start_read.
        destruct (r_buflen R2 - r_datalen R2 =? 0); [discriminate|].
        destruct (length (r_buf R2) <? r_datalen R2 + (r_buflen R2 - r_datalen R2)); [discriminate|].
        destruct (wo_read o); cbn [negb]; intros X; inversion X; subst; split; congruence. }
      destruct (r_buflen R <? k) eqn:Eb.
      + apply Nat.ltb_lt in Eb. destruct (wo_alloc o) eqn:Ea.
        * destruct (resize_ok grow R k I Ek) as (R1 & E1 & I1 & _). rewrite E1 in H.
          destruct (Hcomp R1 I1) as (R2 & E2 & I2). rewrite E2 in H.
          destruct (Hstart _ _ _ H) as (S1 & S2). split.
          -- intros [(X & _)|(_ & [(_ & X)|X])]; [lia|discriminate|auto].
          -- intros X. right. split; [lia|]. right. auto.
        * unfold nbr_resize in H. cbn [negb] in H. inversion H; subst. split; [reflexivity|].
          intros _. right. split; [lia|]. left. split; [lia|reflexivity].
      + apply Nat.ltb_ge in Eb.
        destruct (Hcomp R I) as (R2 & E2 & I2). rewrite E2 in H.
        destruct (Hstart _ _ _ H) as (S1 & S2). split.
        * intros [(X & _)|(_ & [(X & _)|X])]; [lia|lia|auto].
        * intros X. right. split; [lia|]. right. auto.
  Qed.
End WaitFailure.

(* non-vacuity: a reader holding 2 bytes; waits for 1 / 3 / 5000 bytes with one outcome refused *)
Example wait_failure_instances :
  let R := mkR ([7;8]%N ++ repeat 0%N 4094) 4096 0 2 false false in
  rinv R /\
  nbr_wait 2 R 1 (mkWO false true true) = Ok (R, None) /\
  nbr_wait 2 R 3 (mkWO true true false) = Ok (R, None) /\
  nbr_wait 2 R 5000 (mkWO true false true) = Ok (R, None) /\
  exists R', nbr_wait 2 R 3 (mkWO false false true) = Ok (R', Some (WRead 2 4094 1)).
Proof.
  cbn zeta. split; [unfold rinv; cbn [r_bufpos r_datalen r_buflen r_buf]; rewrite app_length, repeat_length; cbn; lia|].
  repeat split; try (vm_compute; reflexivity). eexists. vm_compute. reflexivity.
Qed.
