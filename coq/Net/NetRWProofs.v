(* Proofs about network_read / network_write request machines (Net/NetRW.v), for ALL sequences
   of kernel answers and registration outcomes. *)
From Coq Require Import NArith ZArith List Bool Arith Lia.
From LCP Require Import Base.CheckedMem Net.NetRW Net.ListAux.
Import ListNotations.
Local Open Scope nat_scope.

Section Proofs.
  Variable retry : list N.

  (* ------------------------------------------------------------------ vocabulary of the statements *)
  Definition data_of (a : ranswer) : list N := match a with RData bs => bs | RErrno _ => [] end.

  (* all bytes recv returned along a list of answers, in order *)
  Definition recvd (l : list (ranswer * bool)) : list N := concat (map (fun x => data_of (fst x)) l).

  (* Does this answer (with this outcome of a possible re-registration) end a request that has
     received pos bytes so far and wants min? *)
  Definition terminal (min pos : nat) (x : ranswer * bool) : bool :=
    match fst x with
    | RData [] => true                                                  (* end of stream *)
    | RData bs => (min <=? pos + length bs) || negb (snd x)             (* enough data, or cannot re-arm *)
    | RErrno e => negb (is_retry retry e) || negb (snd x)               (* hard error, or cannot re-arm *)
    end.

  (* the value the callback must carry for a terminal answer *)
  Definition cb_value (min pos : nat) (x : ranswer * bool) : Z :=
    match fst x with
    | RData [] => 0%Z
    | RData bs => if min <=? pos + length bs then Z.of_nat (pos + length bs) else (-1)%Z
    | RErrno _ => (-1)%Z
    end.

  (* index of the first terminal answer; positions accumulate the data of the earlier answers *)
  Fixpoint first_terminal (min pos : nat) (l : list (ranswer * bool)) : option nat :=
    match l with
    | [] => None
    | x :: r =>
      if terminal min pos x then Some 0
      else option_map S (first_terminal min (pos + length (data_of (fst x))) r)
    end.

  (* the recv requests a request at position pos issues along l: one per answer, each for the
     whole rest of the buffer at the current offset *)
  Fixpoint req_list (buflen pos : nat) (l : list (ranswer * bool)) : list (nat * nat) :=
    match l with
    | [] => []
    | x :: r => (pos, buflen - pos) :: req_list buflen (pos + length (data_of (fst x))) r
    end.

  (* kernel contract: recv never returns more than it was asked for (only the answers up to the
     terminal one are constrained: later ones are never consumed) *)
  Fixpoint kernel_ok (buflen min pos : nat) (l : list (ranswer * bool)) : Prop :=
    match l with
    | [] => True
    | x :: r =>
      length (data_of (fst x)) <= buflen - pos /\
      (terminal min pos x = false -> kernel_ok buflen min (pos + length (data_of (fst x))) r)
    end.

  (* ------------------------------------------------------------------ characterisation of the vocabulary *)
  Lemma recvd_cons x r : recvd (x :: r) = data_of (fst x) ++ recvd r.
  Proof. reflexivity. Qed.

  Lemma recvd_app a b : recvd (a ++ b) = recvd a ++ recvd b.
  Proof. unfold recvd. rewrite map_app, concat_app. reflexivity. Qed.

  Lemma req_list_length buflen pos l : length (req_list buflen pos l) = length l.
  Proof. revert pos. induction l as [|x r IH]; intros; simpl; auto. Qed.

  Lemma req_list_nth buflen l : forall pos i, i < length l ->
    nth i (req_list buflen pos l) (0, 0) =
      (pos + length (recvd (firstn i l)), buflen - (pos + length (recvd (firstn i l)))).
  Proof.
    induction l as [|x r IH]; intros pos i Hi; simpl in Hi; [lia|].
    destruct i as [|i]; simpl.
    - rewrite Nat.add_0_r. reflexivity.
    - rewrite IH by lia. rewrite recvd_cons, app_length.
      replace (pos + length (data_of (fst x)) + length (recvd (firstn i r)))
        with (pos + (length (data_of (fst x)) + length (recvd (firstn i r)))) by lia.
      reflexivity.
  Qed.

  Definition dflt : ranswer * bool := (RErrno 0%N, true).

  Lemma first_terminal_some min l : forall pos k,
    first_terminal min pos l = Some k ->
    k < length l /\
    terminal min (pos + length (recvd (firstn k l))) (nth k l dflt) = true /\
    forall i, i < k -> terminal min (pos + length (recvd (firstn i l))) (nth i l dflt) = false.
  Proof.
    induction l as [|x r IH]; intros pos k H; simpl in H; [discriminate|].
    destruct (terminal min pos x) eqn:T.
    - inversion H; subst. simpl. rewrite Nat.add_0_r. repeat split; auto; try lia.
    - destruct (first_terminal min (pos + length (data_of (fst x))) r) as [k'|] eqn:F; [|discriminate].
      simpl in H. inversion H; subst. destruct (IH _ _ F) as (A & B & C).
      simpl. repeat split; [lia| |].
      + rewrite recvd_cons, app_length, Nat.add_assoc. exact B.
      + intros [|i] Hi; simpl.
        * rewrite Nat.add_0_r. exact T.
        * rewrite recvd_cons, app_length, Nat.add_assoc. apply C. lia.
  Qed.

  Lemma first_terminal_none min l : forall pos,
    first_terminal min pos l = None ->
    forall i, i < length l -> terminal min (pos + length (recvd (firstn i l))) (nth i l dflt) = false.
  Proof.
    induction l as [|x r IH]; intros pos H i Hi; simpl in Hi; [lia|].
    simpl in H. destruct (terminal min pos x) eqn:T; [discriminate|].
    destruct (first_terminal min (pos + length (data_of (fst x))) r) eqn:F; [discriminate|].
    destruct i as [|i]; simpl.
    - rewrite Nat.add_0_r. exact T.
    - rewrite recvd_cons, app_length, Nat.add_assoc. apply (IH _ F). lia.
  Qed.

  (* ------------------------------------------------------------------ write_at *)
  Lemma write_at_length buf pos bs :
    pos + length bs <= length buf -> length (write_at buf pos bs) = length buf.
  Proof.
    intros H. unfold write_at. rewrite !app_length, firstn_length, skipn_length. lia.
  Qed.

  Lemma firstn_write_at buf pos bs :
    pos <= length buf -> firstn pos (write_at buf pos bs) = firstn pos buf.
  Proof.
    intros H. unfold write_at. rewrite firstn_app, firstn_firstn, firstn_length.
    replace (Nat.min pos pos) with pos by lia.
    replace (pos - Nat.min pos (length buf)) with 0 by lia. simpl. rewrite app_nil_r. reflexivity.
  Qed.

  (* the buffer after the machine has stored got at offset p *)
  Definition stored (buf : list N) (p : nat) (got : list N) : list N :=
    firstn p buf ++ got ++ skipn (p + length got) buf.

  Lemma stored_nil buf p : p <= length buf -> stored buf p [] = buf.
  Proof. intros. unfold stored. simpl. rewrite Nat.add_0_r. apply firstn_skipn. Qed.

  Lemma stored_step buf p a b :
    p + length a <= length buf ->
    stored (write_at buf p a) (p + length a) b = stored buf p (a ++ b).
  Proof.
    intros H. unfold stored, write_at.
    assert (Hp : length (firstn p buf) = p) by (apply firstn_len_le; lia).
    rewrite (firstn_app_len (firstn p buf) _ p (length a) Hp).
    rewrite (firstn_app_exact a _ (length a) eq_refl).
    replace (p + length a + length b) with (p + (length a + length b)) by lia.
    rewrite (skipn_app_len (firstn p buf) _ p (length a + length b) Hp).
    rewrite (skipn_app_len a _ (length a) (length b) eq_refl).
    rewrite skipn_add, app_length. rewrite <- !app_assoc.
    replace (p + length a + length b) with (p + (length a + length b)) by lia.
    reflexivity.
  Qed.

  (* ------------------------------------------------------------------ M1: network_read *)
  Definition rd_inv (C : rdstate) : Prop :=
    length (rd_buf C) = rd_buflen C /\ rd_bufpos C < rd_buflen C /\ rd_minlen C <= rd_buflen C.

  (* what the read machine does along l, from any armed state *)
  Lemma read_run_gen : forall l C,
    rd_inv C ->
    kernel_ok (rd_buflen C) (rd_minlen C) (rd_bufpos C) l ->
    let B := rd_buflen C in let M := rd_minlen C in let p := rd_bufpos C in
    match first_terminal M p l with
    | None => read_run retry C l = (req_list B p l, None)
    | Some k =>
      exists C',
        read_run retry C l = (req_list B p (firstn (S k) l),
                              Some (cb_value M (p + length (recvd (firstn k l))) (nth k l dflt), C')) /\
        p + length (recvd (firstn (S k) l)) <= B /\
        rd_buf C' = stored (rd_buf C) p (recvd (firstn (S k) l)) /\
        rd_buflen C' = B
    end.
  Proof.
    induction l as [|[a reg] r IH]; intros C (HL & HP & HM) HK; cbn zeta.
    - reflexivity.
    - cbn [first_terminal]. cbn [kernel_ok fst] in HK. destruct HK as (Hfit & HK).
      destruct (terminal (rd_minlen C) (rd_bufpos C) (a, reg)) eqn:T.
      + (* this answer ends the request *)
        unfold terminal in T; cbn [fst snd] in T.
        cbn [read_run]. unfold read_cb, rd_tryagain.
        destruct a as [bs|e].
        * destruct bs as [|b bs'].
          -- cbn [length]. eexists. split; [reflexivity|].
             cbn [firstn recvd map concat data_of fst]. cbn. rewrite Nat.add_0_r.
             split; [lia|]. split; [|reflexivity].
             symmetry. apply stored_nil. lia.
          -- set (bs := b :: bs') in *. cbn [data_of] in Hfit.
             assert (Hlen : length bs = S (length bs')) by reflexivity.
             rewrite Hlen. cbn [rd_bufpos rd_minlen].
             unfold cb_value; cbn [fst nth firstn]. fold bs.
             replace (rd_bufpos C + length (recvd [])) with (rd_bufpos C) by (cbn; lia).
             rewrite <- Hlen.
             destruct (rd_bufpos C + length bs <? rd_minlen C) eqn:Lt.
             ++ apply Nat.ltb_lt in Lt.
                assert (Hle : (rd_minlen C <=? rd_bufpos C + length bs) = false) by (apply Nat.leb_gt; lia).
                rewrite Hle in *. cbn [orb] in T. destruct reg; [discriminate|].
                eexists. split; [reflexivity|]. cbn [rd_buf rd_buflen].
                unfold recvd; cbn [map concat data_of fst]. rewrite app_nil_r.
                split; [lia|]. split; [|reflexivity].
                unfold stored, write_at. reflexivity.
             ++ apply Nat.ltb_ge in Lt.
                assert (Hle : (rd_minlen C <=? rd_bufpos C + length bs) = true) by (apply Nat.leb_le; lia).
                rewrite Hle. eexists. split; [reflexivity|]. cbn [rd_buf rd_buflen].
                unfold recvd; cbn [map concat data_of fst]. rewrite app_nil_r.
                split; [lia|]. split; [|reflexivity].
                unfold stored, write_at. reflexivity.
        * unfold cb_value; cbn [fst nth].
          destruct (is_retry retry e); cbn [negb orb] in T.
          -- destruct reg; [discriminate|]. eexists. split; [reflexivity|].
             cbn [firstn]. unfold recvd; cbn. rewrite Nat.add_0_r.
             split; [lia|]. split; [|reflexivity]. symmetry; apply stored_nil; lia.
          -- eexists. split; [reflexivity|].
             cbn [firstn]. unfold recvd; cbn. rewrite Nat.add_0_r.
             split; [lia|]. split; [|reflexivity]. symmetry; apply stored_nil; lia.
      + (* the request is re-armed *)
        specialize (HK eq_refl).
        unfold terminal in T; cbn [fst snd] in T.
        cbn [read_run]. unfold read_cb, rd_tryagain.
        destruct a as [bs|e].
        * destruct bs as [|b bs']; [discriminate|].
          set (bs := b :: bs') in *. cbn [data_of fst] in *.
          assert (Hlen : length bs = S (length bs')) by reflexivity.
          rewrite Hlen. cbn [rd_bufpos rd_minlen]. rewrite <- Hlen.
          apply orb_false_iff in T. destruct T as (T1 & T2).
          apply Nat.leb_gt in T1. destruct reg; [|discriminate].
          assert (Lt : (rd_bufpos C + length bs <? rd_minlen C) = true) by (apply Nat.ltb_lt; lia).
          rewrite Lt.
          set (C1 := mkRd (write_at (rd_buf C) (rd_bufpos C) bs) (rd_buflen C) (rd_minlen C)
                          (rd_bufpos C + length bs)).
          assert (I1 : rd_inv C1).
          { unfold rd_inv, C1; cbn [rd_buf rd_buflen rd_bufpos rd_minlen].
            rewrite write_at_length by lia. lia. }
          specialize (IH C1 I1). subst C1. cbn [rd_buflen rd_minlen rd_bufpos rd_buf] in IH.
          specialize (IH HK). cbn zeta in IH.
          destruct (first_terminal (rd_minlen C) (rd_bufpos C + length bs) r) as [k|] eqn:F; cbn [option_map].
          -- destruct IH as (C' & E & Hb & Hbuf & Hbl). exists C'.
             rewrite E. rewrite !firstn_cons. cbn [req_list data_of fst nth]. unfold rd_request.
             rewrite !recvd_cons; cbn [data_of fst]. rewrite !app_length.
             replace (rd_bufpos C + (length bs + length (recvd (firstn k r))))
               with (rd_bufpos C + length bs + length (recvd (firstn k r))) by lia.
             split; [reflexivity|].
             split; [lia|]. split; [|exact Hbl].
             rewrite Hbuf. apply stored_step. lia.
          -- rewrite IH. reflexivity.
        * cbn [data_of fst length] in *.
          apply orb_false_iff in T. destruct T as (T1 & T2).
          apply negb_false_iff in T1. rewrite T1. destruct reg; [|discriminate].
          assert (I1 : rd_inv C) by (unfold rd_inv; auto).
          specialize (IH C I1). rewrite Nat.add_0_r in HK. specialize (IH HK). cbn zeta in IH.
          rewrite Nat.add_0_r.
          destruct (first_terminal (rd_minlen C) (rd_bufpos C) r) as [k|] eqn:F; cbn [option_map].
          -- destruct IH as (C' & E & Hb & Hbuf & Hbl). exists C'.
             rewrite E. rewrite !firstn_cons. cbn [req_list data_of fst nth length]. unfold rd_request.
             rewrite Nat.add_0_r.
             rewrite !recvd_cons; cbn [data_of fst]. cbn [app].
             split; [reflexivity|]. split; [exact Hb|]. split; [exact Hbuf|exact Hbl].
          -- rewrite IH. cbn [req_list data_of fst length]. rewrite Nat.add_0_r. reflexivity.
  Qed.

  Lemma firstn_S_nth {A} (d : A) : forall i (l : list A), i < length l ->
    firstn (S i) l = firstn i l ++ [nth i l d].
  Proof.
    induction i as [|i IH]; intros [|x l] Hl; simpl in *; try lia; auto.
    f_equal. apply IH. lia.
  Qed.

  Lemma recvd_firstn_S l i : i < length l ->
    recvd (firstn (S i) l) = recvd (firstn i l) ++ data_of (fst (nth i l dflt)).
  Proof.
    intros H. rewrite (firstn_S_nth dflt) by exact H. rewrite recvd_app. f_equal.
    unfold recvd; cbn. apply app_nil_r.
  Qed.

  (* positions reached through non-terminal answers stay below min (or at 0) *)
  Lemma nonterminal_pos min l : forall i, i <= length l ->
    (forall j, j < i -> terminal min (length (recvd (firstn j l))) (nth j l dflt) = false) ->
    length (recvd (firstn i l)) = 0 \/ length (recvd (firstn i l)) < min.
  Proof.
    induction i as [|i IH]; intros Hi H.
    - left. reflexivity.
    - assert (Hi' : i < length l) by lia.
      pose proof (H i ltac:(lia)) as T.
      specialize (IH ltac:(lia) ltac:(intros j Hj; apply H; lia)).
      rewrite recvd_firstn_S by exact Hi'. rewrite app_length.
      unfold terminal in T.
      destruct (fst (nth i l dflt)) as [[|b bs]|e]; cbn [data_of length] in *.
      + discriminate.
      + apply orb_false_iff in T. destruct T as (T & _). apply Nat.leb_gt in T. cbn [length] in T. lia.
      + lia.
  Qed.

  (* C06-M1 *)
  Theorem read_exactly_once_lemma : forall buflen min buf0 l,
    0 < buflen -> min <= buflen -> length buf0 = buflen ->
    kernel_ok buflen min 0 l ->
    let C0 := mkRd buf0 buflen min 0 in
    match first_terminal min 0 l with
    | None =>
      (* no terminal answer among l: one recv per answer, no callback, still registered *)
      read_run retry C0 l = (req_list buflen 0 l, None)
    | Some k =>
      (* the (k+1)-th answer is the first terminal one: exactly k+1 recv calls, then the single
         callback; the answers after it are never consumed *)
      exists C',
        let got := recvd (firstn (S k) l) in
        let v := cb_value min (length (recvd (firstn k l))) (nth k l dflt) in
        read_run retry C0 l = (req_list buflen 0 (firstn (S k) l), Some (v, C')) /\
        length got <= buflen /\
        rd_buf C' = got ++ skipn (length got) buf0 /\
        match fst (nth k l dflt) with
        | RData [] => v = 0%Z
        | RData _ => (v = Z.of_nat (length got) /\ min <= length got) \/
                     (v = (-1)%Z /\ snd (nth k l dflt) = false /\ length got < min)
        | RErrno e => v = (-1)%Z /\ (is_retry retry e = false \/ snd (nth k l dflt) = false)
        end
    end.
  Proof.
    intros buflen min buf0 l HB HM HL HK C0.
    pose proof (read_run_gen l C0) as G. unfold C0 in G. cbn [rd_buflen rd_minlen rd_bufpos rd_buf] in G.
    specialize (G ltac:(unfold rd_inv; cbn; lia) HK). cbn zeta in G.
    destruct (first_terminal min 0 l) as [k|] eqn:F; [|exact G].
    destruct G as (C' & E & Hb & Hbuf & _). exists C'. cbn zeta.
    cbn [Nat.add] in *. split; [exact E|]. split; [exact Hb|].
    split; [rewrite Hbuf; unfold stored; reflexivity|].
    destruct (first_terminal_some _ _ _ _ F) as (Hk & T & _). cbn [Nat.add] in T.
    pose proof (recvd_firstn_S l k Hk) as Es.
    unfold terminal in T. unfold cb_value.
    destruct (fst (nth k l dflt)) as [[|b bs]|e] eqn:A.
    - reflexivity.
    - rewrite Es, app_length. cbn [data_of].
      destruct (min <=? length (recvd (firstn k l)) + length (b :: bs)) eqn:Le.
      + left. apply Nat.leb_le in Le. split; [reflexivity|lia].
      + right. apply Nat.leb_gt in Le. cbn [orb] in T. apply negb_true_iff in T. repeat split; auto.
    - split; [reflexivity|]. apply orb_true_iff in T. destruct T as [T|T]; apply negb_true_iff in T; auto.
  Qed.

  (* every recv was asked for exactly buflen - bufpos bytes at offset bufpos, where bufpos is
     the number of bytes received so far; the range is non-empty and inside the buffer *)
  Theorem read_requests_exact : forall buflen min buf0 l,
    0 < buflen -> min <= buflen -> length buf0 = buflen ->
    kernel_ok buflen min 0 l ->
    let reqs := fst (read_run retry (mkRd buf0 buflen min 0) l) in
    forall i, i < length reqs ->
      let pos := length (recvd (firstn i l)) in
      nth i reqs (0, 0) = (pos, buflen - pos) /\ pos < buflen.
  Proof.
    intros buflen min buf0 l HB HM HL HK reqs i Hi pos.
    pose proof (read_exactly_once_lemma buflen min buf0 l HB HM HL HK) as G. cbn zeta in G.
    unfold reqs in *. clear reqs.
    destruct (first_terminal min 0 l) as [k|] eqn:F.
    - destruct G as (C' & E & _). rewrite E in *. cbn [fst] in *.
      destruct (first_terminal_some _ _ _ _ F) as (Hk & _ & NT). cbn [Nat.add] in NT.
      rewrite req_list_length, firstn_length in Hi.
      rewrite req_list_nth by (rewrite firstn_length; lia). cbn [Nat.add].
      rewrite firstn_firstn. replace (Nat.min i (S k)) with i by lia. fold pos.
      split; [reflexivity|].
      destruct (nonterminal_pos min l i ltac:(lia) ltac:(intros j Hj; apply NT; lia)); unfold pos; lia.
    - rewrite G in *. cbn [fst] in *. rewrite req_list_length in Hi.
      rewrite req_list_nth by lia. cbn [Nat.add]. fold pos. split; [reflexivity|].
      pose proof (first_terminal_none _ _ _ F) as NT. cbn [Nat.add] in NT.
      destruct (nonterminal_pos min l i ltac:(lia) ltac:(intros j Hj; apply NT; lia)); unfold pos; lia.
  Qed.

  (* ------------------------------------------------------------------ M2: network_write *)
  Definition sent_of (a : sanswer) : nat := match a with SSent n => n | SErrno _ => 0 end.
  Definition total_sent (l : list (sanswer * bool)) : nat := list_sum (map (fun x => sent_of (fst x)) l).

  Definition wterminal (min pos : nat) (x : sanswer * bool) : bool :=
    match fst x with
    | SSent n => (min <=? pos + n) || negb (snd x)
    | SErrno e => negb (is_retry retry e) || negb (snd x)
    end.

  Definition wcb_value (min pos : nat) (x : sanswer * bool) : Z :=
    match fst x with
    | SSent n => if min <=? pos + n then Z.of_nat (pos + n) else (-1)%Z
    | SErrno _ => (-1)%Z
    end.

  Fixpoint wfirst_terminal (min pos : nat) (l : list (sanswer * bool)) : option nat :=
    match l with
    | [] => None
    | x :: r =>
      if wterminal min pos x then Some 0
      else option_map S (wfirst_terminal min (pos + sent_of (fst x)) r)
    end.

  Fixpoint wreq_list (buflen pos : nat) (l : list (sanswer * bool)) : list (nat * nat) :=
    match l with
    | [] => []
    | x :: r => (pos, buflen - pos) :: wreq_list buflen (pos + sent_of (fst x)) r
    end.

  (* kernel contract: send with a non-zero length returns neither 0 nor more than asked *)
  Fixpoint wkernel_ok (buflen min pos : nat) (l : list (sanswer * bool)) : Prop :=
    match l with
    | [] => True
    | x :: r =>
      (match fst x with SSent n => 0 < n <= buflen - pos | SErrno _ => True end) /\
      (wterminal min pos x = false -> wkernel_ok buflen min (pos + sent_of (fst x)) r)
    end.

  Definition sdflt : sanswer * bool := (SErrno 0%N, true).

  Lemma total_sent_cons x r : total_sent (x :: r) = sent_of (fst x) + total_sent r.
  Proof. reflexivity. Qed.

  Lemma total_sent_app a b : total_sent (a ++ b) = total_sent a + total_sent b.
  Proof. unfold total_sent. rewrite map_app, list_sum_app. reflexivity. Qed.

  Lemma wreq_list_length buflen pos l : length (wreq_list buflen pos l) = length l.
  Proof. revert pos. induction l as [|x r IH]; intros; simpl; auto. Qed.

  Lemma wreq_list_nth buflen l : forall pos i, i < length l ->
    nth i (wreq_list buflen pos l) (0, 0) =
      (pos + total_sent (firstn i l), buflen - (pos + total_sent (firstn i l))).
  Proof.
    induction l as [|x r IH]; intros pos i Hi; simpl in Hi; [lia|].
    destruct i as [|i]; simpl.
    - unfold total_sent; simpl. rewrite Nat.add_0_r. reflexivity.
    - rewrite IH by lia. rewrite total_sent_cons, Nat.add_assoc. reflexivity.
  Qed.

  Lemma wfirst_terminal_some min l : forall pos k,
    wfirst_terminal min pos l = Some k ->
    k < length l /\
    wterminal min (pos + total_sent (firstn k l)) (nth k l sdflt) = true /\
    forall i, i < k -> wterminal min (pos + total_sent (firstn i l)) (nth i l sdflt) = false.
  Proof.
    induction l as [|x r IH]; intros pos k H; simpl in H; [discriminate|].
    destruct (wterminal min pos x) eqn:T.
    - inversion H; subst. simpl. unfold total_sent; simpl. rewrite Nat.add_0_r. repeat split; auto; try lia.
    - destruct (wfirst_terminal min (pos + sent_of (fst x)) r) as [k'|] eqn:F; [|discriminate].
      simpl in H. inversion H; subst. destruct (IH _ _ F) as (A & B & C).
      simpl. repeat split; [lia| |].
      + rewrite total_sent_cons, Nat.add_assoc. exact B.
      + intros [|i] Hi; simpl.
        * unfold total_sent; simpl. rewrite Nat.add_0_r. exact T.
        * rewrite total_sent_cons, Nat.add_assoc. apply C. lia.
  Qed.

  Lemma wfirst_terminal_none min l : forall pos,
    wfirst_terminal min pos l = None ->
    forall i, i < length l -> wterminal min (pos + total_sent (firstn i l)) (nth i l sdflt) = false.
  Proof.
    induction l as [|x r IH]; intros pos H i Hi; simpl in Hi; [lia|].
    simpl in H. destruct (wterminal min pos x) eqn:T; [discriminate|].
    destruct (wfirst_terminal min (pos + sent_of (fst x)) r) eqn:F; [discriminate|].
    destruct i as [|i]; simpl.
    - unfold total_sent; simpl. rewrite Nat.add_0_r. exact T.
    - rewrite total_sent_cons, Nat.add_assoc. apply (IH _ F). lia.
  Qed.

  Definition wr_inv (C : wrstate) : Prop :=
    length (wr_buf C) = wr_buflen C /\ wr_bufpos C < wr_buflen C /\ wr_minlen C <= wr_buflen C.

  (* the bytes of the user buffer from position p on, n of them *)
  Definition slice (buf : list N) (p n : nat) : list N := firstn n (skipn p buf).

  Lemma slice_add buf p n m : slice buf p n ++ slice buf (p + n) m = slice buf p (n + m).
  Proof. unfold slice. rewrite <- skipn_add. apply firstn_skipn_add. Qed.

  Lemma write_run_gen : forall l C,
    wr_inv C ->
    wkernel_ok (wr_buflen C) (wr_minlen C) (wr_bufpos C) l ->
    let B := wr_buflen C in let M := wr_minlen C in let p := wr_bufpos C in
    match wfirst_terminal M p l with
    | None => write_run retry C l = Ok (wreq_list B p l, slice (wr_buf C) p (total_sent l), None)
    | Some k =>
      exists C',
        write_run retry C l =
          Ok (wreq_list B p (firstn (S k) l), slice (wr_buf C) p (total_sent (firstn (S k) l)),
              Some (wcb_value M (p + total_sent (firstn k l)) (nth k l sdflt), C')) /\
        p + total_sent (firstn (S k) l) <= B /\
        wr_bufpos C' = p + total_sent (firstn (S k) l)
    end.
  Proof.
    induction l as [|[a reg] r IH]; intros C (HL & HP & HM) HK; cbn zeta.
    - reflexivity.
    - cbn [wfirst_terminal]. cbn [wkernel_ok fst] in HK. destruct HK as (Hfit & HK).
      destruct (wterminal (wr_minlen C) (wr_bufpos C) (a, reg)) eqn:T.
      + unfold wterminal in T; cbn [fst snd] in T.
        cbn [write_run]. unfold write_cb, wr_tryagain.
        destruct a as [n|e].
        * destruct n as [|n']; [lia|]. set (n := S n') in *.
          cbn [wr_bufpos wr_minlen]. unfold wcb_value; cbn [fst nth]. rewrite !firstn_cons.
          unfold total_sent; cbn [firstn map list_sum fold_right sent_of fst]. rewrite ?Nat.add_0_r.
          unfold wr_request, taken; fold (slice (wr_buf C) (wr_bufpos C) n).
          destruct (wr_bufpos C + n <? wr_minlen C) eqn:Lt.
          -- apply Nat.ltb_lt in Lt.
             assert (Hle : (wr_minlen C <=? wr_bufpos C + n) = false) by (apply Nat.leb_gt; lia).
             rewrite Hle in *. cbn [orb] in T. destruct reg; [discriminate|].
             eexists. split; [reflexivity|]. cbn [wr_bufpos]. split; lia.
          -- apply Nat.ltb_ge in Lt.
             assert (Hle : (wr_minlen C <=? wr_bufpos C + n) = true) by (apply Nat.leb_le; lia).
             rewrite Hle. eexists. split; [reflexivity|]. cbn [wr_bufpos]. split; lia.
        * unfold wcb_value; cbn [fst nth]. rewrite !firstn_cons.
          unfold total_sent; cbn [firstn map list_sum fold_right sent_of fst]. rewrite ?Nat.add_0_r.
          unfold wr_request, taken; change (@nil N) with (slice (wr_buf C) (wr_bufpos C) 0) at 1 2.
          destruct (is_retry retry e); cbn [negb orb] in T.
          -- destruct reg; [discriminate|]. eexists. split; [reflexivity|]. split; lia.
          -- eexists. split; [reflexivity|]. split; lia.
      + specialize (HK eq_refl).
        unfold wterminal in T; cbn [fst snd] in T.
        cbn [write_run]. unfold write_cb, wr_tryagain.
        destruct a as [n|e].
        * destruct n as [|n']; [lia|]. set (n := S n') in *. cbn [sent_of fst] in *.
          cbn [wr_bufpos wr_minlen].
          apply orb_false_iff in T. destruct T as (T1 & T2).
          apply Nat.leb_gt in T1. destruct reg; [|discriminate].
          assert (Lt : (wr_bufpos C + n <? wr_minlen C) = true) by (apply Nat.ltb_lt; lia).
          rewrite Lt.
          set (C1 := mkWr (wr_buf C) (wr_buflen C) (wr_minlen C) (wr_bufpos C + n)).
          assert (I1 : wr_inv C1) by (unfold wr_inv, C1; cbn; lia).
          specialize (IH C1 I1). subst C1. cbn [wr_buflen wr_minlen wr_bufpos wr_buf] in IH.
          specialize (IH HK). cbn zeta in IH.
          destruct (wfirst_terminal (wr_minlen C) (wr_bufpos C + n) r) as [k|] eqn:F; cbn [option_map].
          -- destruct IH as (C' & E & Hb & Hpos). exists C'.
             rewrite E. rewrite !firstn_cons. cbn [wreq_list sent_of fst nth]. unfold wr_request.
             rewrite !total_sent_cons; cbn [sent_of fst].
             replace (wr_bufpos C + (n + total_sent (firstn k r)))
               with (wr_bufpos C + n + total_sent (firstn k r)) by lia.
             unfold taken; cbn [wr_bufpos wr_buf]. fold (slice (wr_buf C) (wr_bufpos C) n).
             rewrite slice_add.
             split; [reflexivity|]. split; lia.
          -- rewrite IH. cbn [wreq_list sent_of fst]. unfold wr_request, taken.
             fold (slice (wr_buf C) (wr_bufpos C) n). rewrite slice_add, total_sent_cons. reflexivity.
        * cbn [sent_of fst] in *.
          apply orb_false_iff in T. destruct T as (T1 & T2).
          apply negb_false_iff in T1. rewrite T1. destruct reg; [|discriminate].
          assert (I1 : wr_inv C) by (unfold wr_inv; auto).
          specialize (IH C I1). rewrite Nat.add_0_r in HK. specialize (IH HK). cbn zeta in IH.
          rewrite Nat.add_0_r.
          destruct (wfirst_terminal (wr_minlen C) (wr_bufpos C) r) as [k|] eqn:F; cbn [option_map].
          -- destruct IH as (C' & E & Hb & Hpos). exists C'.
             rewrite E. rewrite !firstn_cons. cbn [wreq_list sent_of fst nth]. unfold wr_request, taken.
             rewrite Nat.add_0_r. rewrite !total_sent_cons; cbn [sent_of fst]. cbn [app Nat.add].
             split; [reflexivity|]. split; lia.
          -- rewrite IH. cbn [wreq_list sent_of fst]. unfold wr_request, taken.
             rewrite Nat.add_0_r, total_sent_cons. reflexivity.
  Qed.

  Lemma total_sent_firstn_S l i : i < length l ->
    total_sent (firstn (S i) l) = total_sent (firstn i l) + sent_of (fst (nth i l sdflt)).
  Proof.
    intros H. rewrite (firstn_S_nth sdflt) by exact H. rewrite total_sent_app. f_equal.
    unfold total_sent; cbn. lia.
  Qed.

  (* C06-M2 *)
  Theorem write_exactly_once_lemma : forall buf min l,
    0 < length buf -> min <= length buf ->
    wkernel_ok (length buf) min 0 l ->
    let C0 := mkWr buf (length buf) min 0 in
    match wfirst_terminal min 0 l with
    | None =>
      (* no terminal answer: one send per answer, no callback; the socket got a prefix of buf *)
      write_run retry C0 l = Ok (wreq_list (length buf) 0 l, firstn (total_sent l) buf, None)
    | Some k =>
      exists C',
        let n := total_sent (firstn (S k) l) in
        let v := wcb_value min (total_sent (firstn k l)) (nth k l sdflt) in
        (* exactly k+1 send calls; the bytes handed to the socket, in order, are firstn n buf *)
        write_run retry C0 l = Ok (wreq_list (length buf) 0 (firstn (S k) l), firstn n buf, Some (v, C')) /\
        n <= length buf /\
        match fst (nth k l sdflt) with
        | SSent _ => (v = Z.of_nat n /\ min <= n) \/
                     (v = (-1)%Z /\ snd (nth k l sdflt) = false /\ n < min)
        | SErrno e => v = (-1)%Z /\ (is_retry retry e = false \/ snd (nth k l sdflt) = false)
        end
    end.
  Proof.
    intros buf min l HB HM HK C0.
    pose proof (write_run_gen l C0) as G. unfold C0 in G. cbn [wr_buflen wr_minlen wr_bufpos wr_buf] in G.
    specialize (G ltac:(unfold wr_inv; cbn; lia) HK). cbn zeta in G.
    unfold slice in G. cbn [skipn] in G.
    destruct (wfirst_terminal min 0 l) as [k|] eqn:F; [|exact G].
    destruct G as (C' & E & Hb & _). exists C'. cbn zeta.
    cbn [Nat.add] in *. split; [exact E|]. split; [exact Hb|].
    destruct (wfirst_terminal_some _ _ _ _ F) as (Hk & T & _). cbn [Nat.add] in T.
    pose proof (total_sent_firstn_S l k Hk) as Es.
    unfold wterminal in T. unfold wcb_value.
    destruct (fst (nth k l sdflt)) as [n|e] eqn:A.
    - rewrite Es. cbn [sent_of].
      destruct (min <=? total_sent (firstn k l) + n) eqn:Le.
      + left. apply Nat.leb_le in Le. split; [reflexivity|lia].
      + right. apply Nat.leb_gt in Le. cbn [orb] in T. apply negb_true_iff in T. repeat split; auto.
    - split; [reflexivity|]. apply orb_true_iff in T. destruct T as [T|T]; apply negb_true_iff in T; auto.
  Qed.

  Lemma wnonterminal_pos min l : forall i, i <= length l ->
    (forall j, j < i -> wterminal min (total_sent (firstn j l)) (nth j l sdflt) = false) ->
    total_sent (firstn i l) = 0 \/ total_sent (firstn i l) < min.
  Proof.
    induction i as [|i IH]; intros Hi H.
    - left. reflexivity.
    - assert (Hi' : i < length l) by lia.
      pose proof (H i ltac:(lia)) as T.
      specialize (IH ltac:(lia) ltac:(intros j Hj; apply H; lia)).
      rewrite total_sent_firstn_S by exact Hi'.
      unfold wterminal in T.
      destruct (fst (nth i l sdflt)) as [n|e]; cbn [sent_of] in *.
      + apply orb_false_iff in T. destruct T as (T & _). apply Nat.leb_gt in T. lia.
      + lia.
  Qed.

  Theorem write_requests_exact : forall buf min l,
    0 < length buf -> min <= length buf ->
    wkernel_ok (length buf) min 0 l ->
    forall reqs wire fin, write_run retry (mkWr buf (length buf) min 0) l = Ok (reqs, wire, fin) ->
    forall i, i < length reqs ->
      let pos := total_sent (firstn i l) in
      nth i reqs (0, 0) = (pos, length buf - pos) /\ pos < length buf.
  Proof.
    intros buf min l HB HM HK reqs wire fin E i Hi pos.
    pose proof (write_exactly_once_lemma buf min l HB HM HK) as G. cbn zeta in G.
    destruct (wfirst_terminal min 0 l) as [k|] eqn:F.
    - destruct G as (C' & E' & _). rewrite E' in E.
      assert (Er : reqs = wreq_list (length buf) 0 (firstn (S k) l)) by congruence. subst reqs. clear E.
      destruct (wfirst_terminal_some _ _ _ _ F) as (Hk & _ & NT). cbn [Nat.add] in NT.
      rewrite wreq_list_length, firstn_length in Hi.
      rewrite wreq_list_nth by (rewrite firstn_length; lia). cbn [Nat.add].
      rewrite firstn_firstn. replace (Nat.min i (S k)) with i by lia. fold pos.
      split; [reflexivity|].
      destruct (wnonterminal_pos min l i ltac:(lia) ltac:(intros j Hj; apply NT; lia)); unfold pos; lia.
    - rewrite G in E.
      assert (Er : reqs = wreq_list (length buf) 0 l) by congruence. subst reqs. clear E.
      rewrite wreq_list_length in Hi.
      rewrite wreq_list_nth by lia. cbn [Nat.add]. fold pos. split; [reflexivity|].
      pose proof (wfirst_terminal_none _ _ _ F) as NT. cbn [Nat.add] in NT.
      destruct (wnonterminal_pos min l i ltac:(lia) ltac:(intros j Hj; apply NT; lia)); unfold pos; lia.
  Qed.

  (* ------------------------------------------------------------------ M3: cancel *)
  Definition is_cb (o : robs) : bool := match o with ObsCallback _ => true | _ => false end.
  Definition is_recv (o : robs) : bool := match o with ObsRecv _ _ => true | _ => false end.

  Lemma rd_life_none ins : rd_life retry None ins = (None, []).
  Proof. induction ins as [|i r IH]; simpl; auto. rewrite IH. reflexivity. Qed.

  Lemma rd_life_app slot a b :
    rd_life retry slot (a ++ b) =
      (fst (rd_life retry (fst (rd_life retry slot a)) b),
       snd (rd_life retry slot a) ++ snd (rd_life retry (fst (rd_life retry slot a)) b)).
  Proof.
    revert slot. induction a as [|i r IH]; intros slot; cbn [app rd_life].
    - cbn. destruct (rd_life retry slot b); reflexivity.
    - destruct (rd_life_step retry slot i) as [s1 o1].
      rewrite IH. destruct (rd_life retry s1 r) as [s2 o2]. cbn [fst snd].
      destruct (rd_life retry s2 b) as [s3 o3]. cbn [fst snd]. rewrite app_assoc. reflexivity.
  Qed.

  (* while the slot is still occupied no callback has been made *)
  Lemma rd_life_armed_no_cb : forall ins slot C',
    fst (rd_life retry slot ins) = Some C' -> filter is_cb (snd (rd_life retry slot ins)) = [].
  Proof.
    induction ins as [|i r IH]; intros slot C' H; cbn [rd_life] in *; [reflexivity|].
    destruct (rd_life_step retry slot i) as [s1 o1] eqn:S1.
    destruct (rd_life retry s1 r) as [s2 o2] eqn:S2. cbn [fst snd] in *.
    rewrite filter_app. specialize (IH s1 C'). rewrite S2 in IH. cbn [fst snd] in IH. rewrite (IH H), app_nil_r.
    destruct s1 as [C1|]; [|rewrite rd_life_none in S2; inversion S2; subst; discriminate].
    unfold rd_life_step in S1. destruct slot as [C|]; [|inversion S1].
    destruct i as [a reg|]; [|inversion S1].
    destruct (read_cb retry C a reg) as [C2 act]. destruct act; inversion S1; subst; reflexivity.
  Qed.

  (* at most one callback along any history of answers and cancels *)
  Theorem rd_life_callback_once_lemma : forall ins slot,
    length (filter is_cb (snd (rd_life retry slot ins))) <= 1.
  Proof.
    induction ins as [|i r IH]; intros slot; cbn [rd_life]; [cbn; lia|].
    destruct (rd_life_step retry slot i) as [s1 o1] eqn:S1.
    specialize (IH s1). destruct (rd_life retry s1 r) as [s2 o2] eqn:S2. cbn [fst snd] in *.
    rewrite filter_app, app_length.
    unfold rd_life_step in S1. destruct slot as [C|]; [|inversion S1; subst; cbn; lia].
    destruct i as [a reg|]; [|inversion S1; subst; cbn; lia].
    destruct (read_cb retry C a reg) as [C2 act].
    destruct act; inversion S1; subst; cbn [filter is_cb length];
      try lia; rewrite rd_life_none in S2; inversion S2; subst; cbn; lia.
  Qed.

  (* C06-M3: after cancel nothing is observed any more (no callback, no recv) and the
     registration slot is free, whatever the kernel would have answered *)
  Theorem cancel_silences_lemma : forall slot pre post,
    rd_life retry slot (pre ++ InCancel :: post) =
      (None,
       snd (rd_life retry slot pre) ++
       match fst (rd_life retry slot pre) with Some _ => [ObsCancelled] | None => [] end).
  Proof.
    intros slot pre post. rewrite rd_life_app. cbn [rd_life].
    destruct (rd_life retry slot pre) as [s o]. cbn [fst snd].
    destruct s as [C|]; cbn [rd_life_step]; rewrite rd_life_none; cbn [fst snd]; reflexivity.
  Qed.

  (* ... and a request cancelled while still registered never calls back *)
  Theorem cancelled_never_calls_back_lemma : forall C pre post C',
    fst (rd_life retry (Some C) pre) = Some C' ->
    filter is_cb (snd (rd_life retry (Some C) (pre ++ InCancel :: post))) = [].
  Proof.
    intros C pre post C' H. rewrite cancel_silences_lemma. cbn [snd].
    rewrite filter_app, (rd_life_armed_no_cb pre (Some C) C' H), H. reflexivity.
  Qed.

  (* the same for writes *)
  Definition is_wcb (o : wobs) : bool := match o with ObsWCallback _ => true | _ => false end.

  Lemma wr_life_none ins : wr_life retry None ins = Ok (None, []).
  Proof. induction ins as [|i r IH]; simpl; auto. rewrite IH. reflexivity. Qed.

  Theorem write_cancel_silences_lemma : forall pre slot post s o,
    wr_life retry slot pre = Ok (s, o) ->
    wr_life retry slot (pre ++ WInCancel :: post) =
      Ok (None, o ++ match s with Some _ => [ObsWCancelled] | None => [] end).
  Proof.
    induction pre as [|i r IH]; intros slot post s o H; cbn [app wr_life] in *.
    - inversion H; subst. destruct s as [C|]; cbn [wr_life_step]; rewrite wr_life_none; reflexivity.
    - destruct (wr_life_step retry slot i) as [[s1 o1]| | |] eqn:S1; try discriminate.
      destruct (wr_life retry s1 r) as [[s2 o2]| | |] eqn:S2; try discriminate.
      inversion H; subst. rewrite (IH s1 post s o2 S2). rewrite app_assoc. reflexivity.
  Qed.
End Proofs.

(* ---------------------------------------------------------------- M3 for writes: at most one callback *)
Section WriteLife.
  Variable retry : list N.

  Theorem wr_life_callback_once_lemma : forall ins slot s o,
    wr_life retry slot ins = Ok (s, o) -> length (filter is_wcb o) <= 1.
  Proof.
    induction ins as [|i r IH]; intros slot s o H; cbn [wr_life] in H.
    - inversion H; subst. cbn. lia.
    - destruct (wr_life_step retry slot i) as [[s1 o1]| | |] eqn:S1; try discriminate.
      destruct (wr_life retry s1 r) as [[s2 o2]| | |] eqn:S2; try discriminate.
      inversion H; subst. rewrite filter_app, app_length. specialize (IH s1 s o2 S2).
      unfold wr_life_step in S1. destruct slot as [C|]; [|inversion S1; subst; cbn; lia].
      destruct i as [a reg|]; [|inversion S1; subst; cbn; lia].
      destruct (write_cb retry C a reg) as [[C2 act]| | |]; try discriminate.
      destruct act; inversion S1; subst; cbn [filter is_wcb length]; try lia;
        rewrite wr_life_none in S2; inversion S2; subst; cbn; lia.
  Qed.

  Lemma wr_life_armed_no_cb : forall ins slot C' o,
    wr_life retry slot ins = Ok (Some C', o) -> filter is_wcb o = [].
  Proof.
    induction ins as [|i r IH]; intros slot C' o H; cbn [wr_life] in H.
    - inversion H; subst. reflexivity.
    - destruct (wr_life_step retry slot i) as [[s1 o1]| | |] eqn:S1; try discriminate.
      destruct (wr_life retry s1 r) as [[s2 o2]| | |] eqn:S2; try discriminate.
      inversion H; subst. rewrite filter_app, (IH s1 C' o2 S2), app_nil_r.
      destruct s1 as [C1|]; [|rewrite wr_life_none in S2; inversion S2].
      unfold wr_life_step in S1. destruct slot as [C|]; [|inversion S1].
      destruct i as [a reg|]; [|inversion S1].
      destruct (write_cb retry C a reg) as [[C2 act]| | |]; try discriminate.
      destruct act; inversion S1; subst; reflexivity.
  Qed.

  (* a write cancelled while still registered never calls back, whatever follows *)
  Theorem write_cancelled_never_calls_back_lemma : forall C pre post C' o,
    wr_life retry (Some C) pre = Ok (Some C', o) ->
    exists o', wr_life retry (Some C) (pre ++ WInCancel :: post) = Ok (None, o') /\ filter is_wcb o' = [].
  Proof.
    intros C pre post C' o H. eexists. split; [apply (write_cancel_silences_lemma retry pre _ post _ _ H)|].
    rewrite filter_app, (wr_life_armed_no_cb pre (Some C) C' o H). reflexivity.
  Qed.
End WriteLife.
