(* Small list facts shared by the Net proofs. *)
From Coq Require Import List Arith Lia.
Import ListNotations.

Section L.
  Context {A : Type}.
  Implicit Types l a b : list A.

  Lemma firstn_app_len a b n m : length a = n -> firstn (n + m) (a ++ b) = a ++ firstn m b.
  Proof.
    intros H. rewrite firstn_app, H. replace (n + m - n) with m by lia.
    rewrite firstn_all2 by lia. reflexivity.
  Qed.

  Lemma firstn_app_exact a b n : length a = n -> firstn n (a ++ b) = a.
  Proof.
    intros H. replace n with (n + 0) by lia. rewrite (firstn_app_len a b n 0 H).
    simpl. apply app_nil_r.
  Qed.

  Lemma skipn_app_len a b n m : length a = n -> skipn (n + m) (a ++ b) = skipn m b.
  Proof.
    intros H. rewrite skipn_app, H. replace (n + m - n) with m by lia.
    rewrite skipn_all2 by lia. reflexivity.
  Qed.

  Lemma skipn_app_exact a b n : length a = n -> skipn n (a ++ b) = b.
  Proof.
    intros H. replace n with (n + 0) by lia. rewrite (skipn_app_len a b n 0 H). reflexivity.
  Qed.

  Lemma firstn_len_le l n : n <= length l -> length (firstn n l) = n.
  Proof. intros. rewrite firstn_length. lia. Qed.

  Lemma skipn_add l n m : skipn n (skipn m l) = skipn (m + n) l.
  Proof.
    revert l. induction m as [|m IH]; intros l; simpl; auto.
    destruct l; simpl; [apply skipn_nil | apply IH].
  Qed.

  Lemma firstn_skipn_add l n m : firstn n l ++ firstn m (skipn n l) = firstn (n + m) l.
  Proof.
    revert l. induction n as [|n IH]; intros l; simpl; auto.
    destruct l; simpl. - rewrite firstn_nil. reflexivity. - f_equal. apply IH.
  Qed.
End L.
