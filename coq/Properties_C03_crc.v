(* C03, CRC32C part: the SSE4.2 path and the portable path compute the same function, for every
   input, alignment and call partition.  Only statements, each closed by [exact].
   Instruction model: Accel/Sse42Crc.v (CRC32 per the Intel SDM); model of CRC32C_Update_SSE42 and
   of the routing in CRC32C_Update instantiated in Accel/Sse42CrcRepo.v with the regenerated
   constants of alg/crc32c_sse42.c. *)
From Coq Require Import NArith List Bool.
From LCP Require Import Base.CheckedMem Gen.Repo_crc Alg.GF2Poly Alg.Crc32c Alg.Crc32cRepo Accel.Sse42Crc Accel.Sse42CrcRepo Accel.Sse42CrcProofs.
Import ListNotations.
Local Open Scope N_scope.

(* the instruction, at any operand width, is the bit-serial register run over the source bits *)
Theorem C03_crc32_insn_eq_bits :
  forall w dest src, dest < 2 ^ 32 -> crc32_insn w dest src = crc_bits dest (nbits_lsb w src).
Proof. exact crc32_insn_eq_bits. Qed.
Print Assumptions C03_crc32_insn_eq_bits.

(* _mm_crc32_u8 = the table step of the portable byte loop *)
Theorem C03_crc32_u8_eq_table_step :
  forall s b, s < 2 ^ 32 -> b < 256 -> crc32_u8 s b = crc_byte_step s b.
Proof. exact crc32_u8_eq_table_step_proof. Qed.
Print Assumptions C03_crc32_u8_eq_table_step.

(* the instruction on a little-endian load of n bytes = n byte steps (n = 8: _mm_crc32_u64) *)
Theorem C03_crc32_of_le_load_eq_bytes :
  forall s bs, s < 2 ^ 32 -> bytes_ok bs ->
  crc32_insn (8 * length bs) s (le_word bs) = fold_left crc_byte_step bs s.
Proof. exact crc32_insn_le_word. Qed.
Print Assumptions C03_crc32_of_le_load_eq_bytes.

(* M1.  Full statement of DESIGN.md:
     forall a state data, a < 8 -> 8 <= length data ->
       crc_update_sse42 a state data = fold_left crc_byte_step data state
   proved with the model's result type made explicit (Ok = no read outside the buffer, no assert
   fired, fuel sufficient) and with the representation facts the C types guarantee spelled out:
   state is a uint32_t, data are bytes, len is a size_t. *)
Theorem C03_crc_update_sse42_eq :
  forall a state data, a < 8 -> state < 2 ^ 32 -> bytes_ok data -> (8 <= length data)%nat ->
  N.of_nat (length data) < 2 ^ 64 ->
  crc_update_sse42 a state data = Ok (fold_left crc_byte_step data state).
Proof. exact crc_update_sse42_eq_proof. Qed.
Print Assumptions C03_crc_update_sse42_eq.

(* the same for every address (only addr mod 8 matters) and for the build without
   CPUSUPPORT_X86_SSE42_64 (two _mm_crc32_u32 per block) *)
Theorem C03_crc_update_sse42_eq_any_address :
  forall use64 addr state data, state < 2 ^ 32 -> bytes_ok data -> (8 <= length data)%nat ->
  N.of_nat (length data) < 2 ^ 64 ->
  crc_update_sse42_gen use64 addr state data = Ok (fold_left crc_byte_step data state).
Proof. exact crc_update_sse42_gen_eq. Qed.
Print Assumptions C03_crc_update_sse42_eq_any_address.

(* CRC32C_Update with the len >= 8 routing is the portable function whatever hwaccel is *)
Theorem C03_crc_update_any_config :
  forall hw addr state data, state < 2 ^ 32 -> bytes_ok data -> N.of_nat (length data) < 2 ^ 64 ->
  crc_update_any_config hw addr state data = Ok (crc_update_c state data).
Proof. exact (crc_update_any_config_gen_eq true). Qed.
Print Assumptions C03_crc_update_any_config.

(* whole streams: every configuration, base address and partition gives the portable result,
   so a stream may switch between the two paths call by call *)
Theorem C03_crc_stream_any_config :
  forall use64 hw addr parts, Forall bytes_ok parts -> sizes_ok parts ->
  crc_stream_any_config_gen use64 hw addr parts = Ok (crc_stream_c parts).
Proof. exact (fun use64 hw addr parts => crc_stream_any_config_gen_eq use64 hw parts addr). Qed.
Print Assumptions C03_crc_stream_any_config.

(* hwtest() of crc32c.c succeeds in the model at every alignment of the test string, so the
   selection depends on the CPU feature bit only *)
Theorem C03_crc_hwtest_passes :
  forallb (fun a => crc_hwtest true a && crc_hwtest false a) [0; 1; 2; 3; 4; 5; 6; 7] = true.
Proof. exact crc_hwtest_passes. Qed.
Print Assumptions C03_crc_hwtest_passes.
