(* C13 - pointer heap (datastruct/ptrheap.c) and timer queue (datastruct/timerqueue.c).
   Only statements, each closed by [exact]/[apply] of a lemma, with Print Assumptions.

   Vocabulary (DS/PtrHeap.v, PtrHeapProofs.v, PtrHeapOps.v, TimerQueue.v, TimerQueueProofs.v):
     ph_* / tq_*          the model instantiated with the constants regenerated from the C text
                          (the functions that are extracted and run against the compiled C)
     compar_ok cmp le     cmp is a C-style three-way comparison for the total preorder le (ties allowed)
     heap_inv le h        nelems = length elems, and every element is >= its parent
     handles pos h        pos = "position most recently passed to setreccookie": elems[pos x] = x, all x in h
     apply_notes pos ns   pos after the callback invocations ns made by one call
     adown / aup          "heap order except that element rc may be larger than its children / smaller
                          than its parent": what holds after a key grew / shrank (C13_key_grew/_shrank)
     small n              8 n + 8 < 2^63 (the array's size_t arithmetic does not wrap)
   Every operation theorem also states that the model returns [Ok]: no access outside the array, no
   failed assertion, fuel sufficient - for every allocation oracle o. *)
From Coq Require Import NArith ZArith List Permutation.
From LCP Require Import Base.CheckedMem DS.AllocOracle DS.PtrHeap DS.TimerQueue DS.PtrHeapInst DS.PtrHeapProofs DS.PtrHeapOps DS.PtrHeapHistory DS.TimerQueueProofs DS.TimerQueueHistory DS.PtrHeapRepo.
Import ListNotations.

(* ---- M1: getmin is a least element; NULL exactly on the empty heap ---- *)
Theorem C13_getmin_least : forall cmp le, compar_ok cmp le -> forall h x,
  heap_inv le h -> ph_getmin h = Ok (Some x) ->
  In x (elems h) /\ forall y, In y (elems h) -> le x y.
Proof. exact getmin_least. Qed.
Print Assumptions C13_getmin_least.

Theorem C13_getmin_null_iff_empty : forall (le : N -> N -> Prop) h,
  heap_inv le h -> (ph_getmin h = Ok None <-> elems h = []).
Proof. exact getmin_none. Qed.
Print Assumptions C13_getmin_null_iff_empty.

(* ---- M1 + M2 per operation: order, multiset, handles ---- *)
Theorem C13_create : forall cmp le, compar_ok cmp le -> forall setrc ptrs o, small (length ptrs) ->
  exists oh ns o' ev,
    ph_create cmp setrc ptrs o = Ok (oh, ns, o', ev) /\
    (oh = None -> ns = [] /\ refused ev = true) /\
    (forall h, oh = Some h ->
       refused ev = false /\ heap_inv le h /\ Permutation (elems h) ptrs /\
       (setrc = true -> NoDup ptrs -> forall pos, handles (apply_notes pos ns) h)).
Proof. intros cmp le CO. repo_std. exact (create_spec cmp le CO). Qed.
Print Assumptions C13_create.

Theorem C13_add : forall cmp le, compar_ok cmp le -> forall setrc h x o,
  heap_inv le h -> small (length (elems h)) ->
  exists ok h' ns o' ev,
    ph_add cmp setrc h x o = Ok (ok, h', ns, o', ev) /\
    (ok = false -> h' = h /\ ns = [] /\ refused ev = true) /\
    (ok = true -> refused ev = false /\ heap_inv le h' /\ Permutation (elems h') (x :: elems h) /\
       (setrc = true -> forall pos, handles pos h -> ~ In x (elems h) -> handles (apply_notes pos ns) h')).
Proof. intros cmp le CO. repo_std. exact (add_spec cmp le CO). Qed.
Print Assumptions C13_add.

(* delete rc removes exactly elems[rc] (the stale copy in the last slot is never swapped) *)
Theorem C13_delete : forall cmp le, compar_ok cmp le -> forall setrc h rc o,
  heap_inv le h -> small (length (elems h)) -> rc < nelems h ->
  exists h' ns o' ev,
    ph_delete cmp setrc h rc o = Ok (h', ns, o', ev) /\
    heap_inv le h' /\ Permutation (el (elems h) rc :: elems h') (elems h) /\
    (setrc = true -> forall pos, handles pos h -> handles (apply_notes pos ns) h') /\
    (exists ok, resize_res (h_alloc h) (N.of_nat (nelems h - 1) * 8) o (ok, h_alloc h', o', ev)).
Proof. intros cmp le CO. repo_std. exact (delete_spec cmp le CO). Qed.
Print Assumptions C13_delete.

(* ... hence deleting through the handle of x removes x and nothing else *)
Theorem C13_delete_by_handle : forall cmp le, compar_ok cmp le -> forall h x o pos,
  heap_inv le h -> small (length (elems h)) -> handles pos h -> In x (elems h) ->
  exists p h' ns o' ev,
    pos x = Some p /\ ph_delete cmp true h p o = Ok (h', ns, o', ev) /\
    heap_inv le h' /\ Permutation (x :: elems h') (elems h) /\ handles (apply_notes pos ns) h'.
Proof. intros cmp le CO. repo_std. exact (delete_by_handle cmp le CO). Qed.
Print Assumptions C13_delete_by_handle.

Theorem C13_deletemin : forall cmp le, compar_ok cmp le -> forall setrc h o,
  heap_inv le h -> small (length (elems h)) -> 0 < nelems h ->
  exists h' ns o' ev,
    ph_deletemin cmp setrc h o = Ok (h', ns, o', ev) /\
    heap_inv le h' /\ Permutation (el (elems h) 0 :: elems h') (elems h) /\
    (setrc = true -> forall pos, handles pos h -> handles (apply_notes pos ns) h') /\
    (exists ok, resize_res (h_alloc h) (N.of_nat (nelems h - 1) * 8) o (ok, h_alloc h', o', ev)).
Proof. intros cmp le CO setrc h o. repo_std. exact (delete_spec cmp le CO setrc h 0 o). Qed.
Print Assumptions C13_deletemin.

Theorem C13_decrease : forall cmp le, compar_ok cmp le -> forall setrc h rc,
  nelems h = length (elems h) -> rc < nelems h -> aup le (nelems h) (elems h) rc ->
  exists h' ns,
    ph_decrease cmp setrc h rc = Ok (h', ns) /\
    heap_inv le h' /\ Permutation (elems h') (elems h) /\ h_alloc h' = h_alloc h /\
    (setrc = true -> forall pos, handles pos h -> handles (apply_notes pos ns) h').
Proof. intros cmp le CO. repo_std. exact (decrease_spec cmp le CO). Qed.
Print Assumptions C13_decrease.

Theorem C13_increase : forall cmp le, compar_ok cmp le -> forall setrc h rc,
  nelems h = length (elems h) -> adown le 0 (nelems h) (elems h) rc ->
  exists h' ns,
    ph_increase cmp setrc h rc = Ok (h', ns) /\
    heap_inv le h' /\ Permutation (elems h') (elems h) /\ h_alloc h' = h_alloc h /\
    (setrc = true -> forall pos, handles pos h -> handles (apply_notes pos ns) h').
Proof. intros cmp le CO. repo_std. exact (increase_spec cmp le CO). Qed.
Print Assumptions C13_increase.

Theorem C13_increasemin : forall cmp le, compar_ok cmp le -> forall setrc h,
  nelems h = length (elems h) -> adown le 0 (nelems h) (elems h) 0 ->
  exists h' ns,
    ph_increasemin cmp setrc h = Ok (h', ns) /\
    heap_inv le h' /\ Permutation (elems h') (elems h) /\ h_alloc h' = h_alloc h /\
    (setrc = true -> forall pos, handles pos h -> handles (apply_notes pos ns) h').
Proof. intros cmp le CO. repo_std. exact (increasemin_spec cmp le CO). Qed.
Print Assumptions C13_increasemin.

(* the documented preconditions: the key of x = elems[rc] grew (shrank), nothing else changed *)
Theorem C13_key_grew : forall (le le0 : N -> N -> Prop),
  (forall a b c, le0 a b -> le0 b c -> le0 a c) -> forall x,
  (forall a b, a <> x -> b <> x -> (le a b <-> le0 a b)) ->
  forall n l rc, n <= length l -> rc < n -> el l rc = x ->
  (forall i j, i < n -> j < n -> el l i = el l j -> i = j) ->
  (forall a, le0 a x -> le a x) ->
  heap_upto le0 n l -> adown le 0 n l rc.
Proof. exact grew_adown. Qed.
Print Assumptions C13_key_grew.

Theorem C13_key_shrank : forall (le le0 : N -> N -> Prop),
  (forall a b c, le0 a b -> le0 b c -> le0 a c) -> forall x,
  (forall a b, a <> x -> b <> x -> (le a b <-> le0 a b)) ->
  forall n l rc, n <= length l -> rc < n -> el l rc = x ->
  (forall i j, i < n -> j < n -> el l i = el l j -> i = j) ->
  (forall a, le0 x a -> le x a) ->
  heap_upto le0 n l -> aup le n l rc.
Proof. exact shrank_aup. Qed.
Print Assumptions C13_key_shrank.

(* ---- M2: what a consistent position table gives the caller ---- *)
Theorem C13_handles_consistent : forall pos l x,
  handles_upto (length l) pos l -> In x l -> exists p, pos x = Some p /\ nth_error l p = Some x.
Proof. exact handles_lookup. Qed.
Print Assumptions C13_handles_consistent.

(* ---- all histories (any op sequence, any allocation oracle, keys of any totally preordered type):
        never a Fault, invariant kept, contents = the specification's multiset, getmin least ---- *)
Theorem C13_heap_histories : forall (K : Type) (kle : K -> K -> Prop) (kcompar : K -> K -> Z),
  (forall a b c, kle a b -> kle b c -> kle a c) ->
  (forall a b, (kcompar a b <= 0)%Z <-> kle a b) ->
  (forall a b, (kcompar a b >= 0)%Z <-> kle b a) ->
  forall ops s, hinv K kle s -> small (length (elems (hs_h s)) + length ops) ->
  exists s', hrun K kcompar s ops = Ok s' /\ hinv K kle s'.
Proof. exact hrun_inv. Qed.
Print Assumptions C13_heap_histories.

Theorem C13_heap_histories_getmin : forall (K : Type) (kle : K -> K -> Prop) (kcompar : K -> K -> Z),
  (forall a b c, kle a b -> kle b c -> kle a c) ->
  (forall a b, (kcompar a b <= 0)%Z <-> kle a b) ->
  (forall a b, (kcompar a b >= 0)%Z <-> kle b a) ->
  forall ops s s' x, hinv K kle s -> small (length (elems (hs_h s)) + length ops) ->
  hrun K kcompar s ops = Ok s' -> ph_getmin (hs_h s') = Ok (Some x) ->
  In x (hs_ms s') /\ forall y, In y (hs_ms s') -> kle (hs_key s' x) (hs_key s' y).
Proof. exact hrun_getmin_least. Qed.
Print Assumptions C13_heap_histories_getmin.

Theorem C13_heap_histories_null : forall (K : Type) (kle : K -> K -> Prop) (kcompar : K -> K -> Z),
  (forall a b c, kle a b -> kle b c -> kle a c) ->
  (forall a b, (kcompar a b <= 0)%Z <-> kle a b) ->
  (forall a b, (kcompar a b >= 0)%Z <-> kle b a) ->
  forall ops s s', hinv K kle s -> small (length (elems (hs_h s)) + length ops) ->
  hrun K kcompar s ops = Ok s' -> (ph_getmin (hs_h s') = Ok None <-> hs_ms s' = []).
Proof. exact hrun_getmin_none. Qed.
Print Assumptions C13_heap_histories_null.

(* ---- M3: timer queue.  tq_inv: heap order on the times, every queued record carries its own heap
        position, the live records are exactly the queued ones.  Preserved by every operation, so a
        cookie stays valid across every other add / delete / increase / getptr. ---- *)
Theorem C13_tvcmp_lexicographic : forall x y,
  ((tvcmp x y <= 0)%Z <-> tv_le x y) /\ ((tvcmp x y >= 0)%Z <-> tv_le y x).
Proof. intros x y. split; [apply tvcmp_le | apply tvcmp_ge]. Qed.
Print Assumptions C13_tvcmp_lexicographic.

Theorem C13_tq_init : forall o,
  exists oq o' ev, tq_init o = Ok (oq, o', ev) /\
    (oq = None -> refused ev = true) /\
    (forall q, oq = Some q -> refused ev = false /\ tq_inv q /\ elems (tq_heap q) = []).
Proof. repo_std. exact (tq_init_spec _). Qed.
Print Assumptions C13_tq_init.

Theorem C13_tq_add : forall q id tv ptr o,
  tq_inv q -> rfind (tq_recs q) id = None -> qsmall q ->
  exists c q' o' ev,
    tq_add q id tv ptr o = Ok (c, q', o', ev) /\
    (c = None -> q' = q /\ refused ev = true) /\
    (c <> None -> c = Some id /\ refused ev = false /\ tq_inv q' /\
       Permutation (elems (tq_heap q')) (id :: elems (tq_heap q)) /\
       (exists r, rfind (tq_recs q') id = Some r /\ r_tv r = tv /\ r_ptr r = ptr) /\
       (forall x, x <> id -> same_payload (rfind (tq_recs q') x) (rfind (tq_recs q) x))).
Proof. repo_std. exact (tq_add_spec _). Qed.
Print Assumptions C13_tq_add.

Theorem C13_tq_delete : forall q id o,
  tq_inv q -> qsmall q -> In id (elems (tq_heap q)) ->
  exists q' o' ev,
    tq_delete q id o = Ok (q', o', ev) /\
    tq_inv q' /\ Permutation (id :: elems (tq_heap q')) (elems (tq_heap q)) /\
    rfind (tq_recs q') id = None /\
    (forall x, x <> id -> same_payload (rfind (tq_recs q') x) (rfind (tq_recs q) x)).
Proof. repo_std. exact (tq_delete_spec _). Qed.
Print Assumptions C13_tq_delete.

Theorem C13_tq_increase : forall q id tv,
  tq_inv q -> In id (elems (tq_heap q)) ->
  (forall r, rfind (tq_recs q) id = Some r -> tv_le (r_tv r) tv) ->
  exists q',
    tq_increase q id tv = Ok q' /\
    tq_inv q' /\ Permutation (elems (tq_heap q')) (elems (tq_heap q)) /\
    (exists r r0, rfind (tq_recs q') id = Some r /\ rfind (tq_recs q) id = Some r0 /\
                  r_tv r = tv /\ r_ptr r = r_ptr r0) /\
    (forall x, x <> id -> same_payload (rfind (tq_recs q') x) (rfind (tq_recs q) x)).
Proof. repo_std. exact tq_increase_spec. Qed.
Print Assumptions C13_tq_increase.

Theorem C13_tq_getmin : forall q, tq_inv q ->
  exists r, tq_getmin q = Ok r /\
    match r with
    | None => elems (tq_heap q) = []
    | Some tv => exists id rec, In id (elems (tq_heap q)) /\ rfind (tq_recs q) id = Some rec /\
                   r_tv rec = tv /\
                   forall id' rec', In id' (elems (tq_heap q)) -> rfind (tq_recs q) id' = Some rec' ->
                                    tv_le tv (r_tv rec')
    end.
Proof. exact tq_getmin_spec. Qed.
Print Assumptions C13_tq_getmin.

(* getptr: NULL and no change iff nothing is due; otherwise exactly the pointer stored with an entry
   of least time, whose time is <= the query time, and that entry (only) leaves the queue *)
Theorem C13_tq_getptr : forall q tv o, tq_inv q -> qsmall q ->
  exists p q' o' ev,
    tq_getptr q tv o = Ok (p, q', o', ev) /\
    match p with
    | None =>
      q' = q /\ o' = o /\ ev = [] /\
      forall id rec, In id (elems (tq_heap q)) -> rfind (tq_recs q) id = Some rec -> ~ tv_le (r_tv rec) tv
    | Some ptr =>
      exists id rec, In id (elems (tq_heap q)) /\ rfind (tq_recs q) id = Some rec /\
        r_ptr rec = ptr /\ tv_le (r_tv rec) tv /\
        (forall id' rec', In id' (elems (tq_heap q)) -> rfind (tq_recs q) id' = Some rec' ->
                          tv_le (r_tv rec) (r_tv rec')) /\
        tq_inv q' /\ Permutation (id :: elems (tq_heap q')) (elems (tq_heap q)) /\
        rfind (tq_recs q') id = None /\
        (forall x, x <> id -> same_payload (rfind (tq_recs q') x) (rfind (tq_recs q) x))
    end.
Proof. repo_std. exact (tq_getptr_spec _). Qed.
Print Assumptions C13_tq_getptr.

(* two successive releases come out in non-decreasing time order *)
Theorem C13_tq_release_order : forall q tv1 o1 p1 q1 o1' ev1 tv2 o2 p2 q2 o2' ev2,
  tq_inv q -> qsmall q -> qsmall q1 ->
  tq_getptr q tv1 o1 = Ok (Some p1, q1, o1', ev1) ->
  tq_getptr q1 tv2 o2 = Ok (Some p2, q2, o2', ev2) ->
  exists id1 r1 id2 r2,
    rfind (tq_recs q) id1 = Some r1 /\ r_ptr r1 = p1 /\
    rfind (tq_recs q) id2 = Some r2 /\ r_ptr r2 = p2 /\ id1 <> id2 /\
    tv_le (r_tv r1) (r_tv r2).
Proof. repo_std. exact (tq_release_order _). Qed.
Print Assumptions C13_tq_release_order.

(* all timer-queue histories: never a Fault, tq_inv after every prefix (so every outstanding cookie
   stays valid across every other add / delete / increase / getptr).  [trun] runs the same model
   functions as tq_add ... (std_tc = repo_tc, std_hc = repo_hc: DS/PtrHeapRepo.v). *)
Theorem C13_tq_histories : forall ops q o,
  tq_inv q -> small (length (elems (tq_heap q)) + length ops) ->
  exists q' o', trun Gen.Repo_heap.timerrec_struct_size q o ops = Ok (q', o') /\ tq_inv q'.
Proof. exact (trun_inv _). Qed.
Print Assumptions C13_tq_histories.
