From Coq Require Import Extraction ExtrOcamlBasic.
From LCP Require Import Base.ExtractBase Base.CheckedMem DS.AllocOracle DS.PtrHeap DS.TimerQueue DS.PtrHeapInst.
Extraction Language OCaml.
Extraction "heap.ml" force_number_types
  ph_create ph_add ph_getmin ph_delete ph_deletemin ph_decrease ph_increase ph_increasemin ph_free_ev
  tq_init tq_add tq_delete tq_increase tq_getmin tq_getptr tq_free
  next heap_run elems nelems h_alloc tq_heap.
