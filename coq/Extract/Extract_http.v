From Coq Require Import Extraction ExtrOcamlBasic.
From LCP Require Import Base.ExtractBase Base.CheckedMem Gen.Repo_http Http.HttpStrto Http.HttpModel Http.HttpSpec.
Extraction Language OCaml.
Extraction "http.ml" force_number_types
  http_run http_response_run http_request_m init_rdr repo_terminated
  parsenum_unsigned_m scanf_m status_format
  render dec expect expect_limited oversized wf_response wf_response_nolimits within_limits cb_ok request_layout resp_body.
