From Coq Require Import Extraction ExtrOcamlBasic.
From LCP Require Import Base.ExtractBase Base.CheckedMem Events.EventsTrace Events.EventsSpec Events.EventsModel.
Extraction Language OCaml.
Extraction "events.ml" force_number_types run_case check_c04 check_c05 check_c14_events.
