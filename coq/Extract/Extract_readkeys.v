From Coq Require Import Extraction ExtrOcamlBasic NArith List.
From LCP Require Import Base.ExtractBase Gen.Repo_readkeys Wipe.Readkeys Wipe.ReadkeysProofs.
Extraction Language OCaml.
Definition repo_readkeys (file : bytes) (orc : list bool) : outcome * list event :=
  aws_readkeys_m readkeys_name_id readkeys_name_secret readkeys_bufsize readkeys_wipes_before_free file orc.
Extraction "readkeys.ml" force_number_types repo_readkeys wiped.
