From Coq Require Import Extraction ExtrOcamlBasic.
From LCP Require Import Base.ExtractBase Base.CheckedMem Gen.Repo_json Util.Json Util.JsonSpec Util.JsonRepo.
Extraction Language OCaml.
Extraction "json.ml" force_number_types
  json_find_c json_find_old skip_value_c
  render wf rfc_valid is_wsl value_end_ok find_spec.
