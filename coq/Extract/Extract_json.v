From Coq Require Import Extraction ExtrOcamlBasic.
From LCP Require Import Base.ExtractBase Base.CheckedMem Gen.Repo_json Util.Json Util.JsonSpec.
Extraction Language OCaml.
Extraction "json.ml" force_number_types
  json_numchars json_wsbytes json_literals json_escapes
  json_find_m render wf rfc_valid find_spec.
