From Coq Require Import Extraction ExtrOcamlBasic.
From LCP Require Import Base.ExtractBase Base.CheckedMem Gen.Repo_hash Alg.Words Alg.Sha256Model Alg.MD32Model Alg.HmacModel Alg.HashRepo Alg.MDSpec Alg.Sha256Spec Alg.Sha1Spec Alg.Md5Spec Alg.HashSpecs.
Extraction Language OCaml.
Extraction "hash.ml" force_number_types
  sha256_init sha256_update sha256_final sha256_buf sha256_transform c256_is_zero
  sha1_init sha1_update sha1_final sha1_buf sha1_transform
  md5_init md5_update md5_final md5_buf md5_transform c32_is_zero
  hmac256_init hmac256_update hmac256_final hmac256_buf hctx256_is_zero
  hmacsha1_init hmacsha1_update hmacsha1_final hmacsha1_buf
  hmacmd5_init hmacmd5_update hmacmd5_final hmacmd5_buf hctx32_is_zero
  pbkdf2_sha256
  SHA256_spec SHA1_spec MD5_spec HMAC_SHA256_spec HMAC_SHA1_spec HMAC_MD5_spec PBKDF2_SHA256_spec
  f256_compress f1_compress r5_compress
  SHA256_resume_spec SHA1_resume_spec MD5_resume_spec md_counts mk256 mk32 c256_count c32_count0 c32_count1.
