From Coq Require Import Extraction ExtrOcamlBasic.
From LCP Require Import Base.ExtractBase Base.CheckedMem Gen.Repo_crc Alg.GF2Poly Alg.Crc32c Alg.Crc32cRepo Accel.Sse42Crc Accel.Sse42CrcRepo.
Extraction Language OCaml.
Extraction "crc.ml" force_number_types
  crc_init_tables crc_tables crc_init crc_update_c crc_final crc_stream_c
  crc_update_sse42_gen crc_update_any_config_gen crc_stream_any_config_gen crc_hwtest
  crc_spec_okb crc_ref crc_ref_update crc_table_ref.
