From Coq Require Import Extraction ExtrOcamlBasic.
From LCP Require Import Base.ExtractBase Gen.Repo_accel Alg.Words Alg.Sha256Spec Alg.Sha256Model Alg.HashRepo
  Accel.X86Vec Accel.Sse2Sha Accel.ShaNi Accel.Sse2ShaRepo Accel.ShaNiRepo.
Extraction Language OCaml.
Extraction "accel.ml" force_number_types
  v_of_bytes bytes_of_v v_of_words words_of_v
  mm_or_si128 mm_xor_si128 mm_add_epi32
  mm_slli_epi16 mm_srli_epi16 mm_slli_epi32 mm_srli_epi32 mm_slli_epi64 mm_srli_epi64
  mm_slli_si128 mm_srli_si128 mm_shuffle_epi32 mm_shufflelo_epi16 mm_shufflehi_epi16
  mm_move_ss mm_unpacklo_epi64 mm_unpackhi_epi64 mm_shuffle_epi8 mm_alignr_epi8 mm_blend_epi16
  sha256rnds2 sha256msg1 sha256msg2
  sha256_transform_sse2 sha256_transform_shani
  sha256_transform f256_compress be32enc be32dec4.
