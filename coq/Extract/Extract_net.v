From Coq Require Import Extraction ExtrOcamlBasic.
From LCP Require Import Base.ExtractBase Base.CheckedMem Gen.Repo_net.
From LCP Require Import Net.NetRW Net.NetAccept Net.NetConnect.
From LCP Require Import Net.NetbufRead Net.NetbufWrite Net.NetWorld.
Extraction Language OCaml.
Extraction "net.ml" force_number_types
  read_retry write_retry accept_retry WBUFLEN RBUF_INIT RBUF_GROW
  EAGAIN EINTR EINPROGRESS ECONNREFUSED ETIMEDOUT EHOSTUNREACH
  run_script conn_script network_connect all_ok
  read_run write_run accept_run conn_run
  poke_old write_old_poke reserve_old.
