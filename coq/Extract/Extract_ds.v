From Coq Require Import Extraction ExtrOcamlBasic.
From LCP Require Import Base.ExtractBase Base.CheckedMem Gen.Repo_ds.
From LCP Require Import DS.AllocOracle DS.ElasticArray DS.ElasticQueue DS.SeqPtrMap DS.Mpool.
From LCP Require Import DS.ElasticArrayRepo.
Extraction Language OCaml.
Extraction "ds.ml" force_number_types
  next refused requests heap_run
  ea_struct_size eq_struct_size spm_struct_size
  r_ea_step ea_contents ea_spec_step cap_ok cap_after_grow_ok
  r_eq_step r_eq_view eq_spec_step
  r_spm_step spm_get spm_getmin spm_spec_step am_lookup am_min
  r_mp_step r_mp_atexit r_mp_exit mp_world0 mp_spec_ok.
