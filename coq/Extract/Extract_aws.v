From Coq Require Import Extraction ExtrOcamlBasic ZArith NArith List.
From LCP Require Import Base.ExtractBase Alg.HashRepo Alg.Sha256Spec Alg.HashSpecs
     Aws.AwsBase Aws.SigV4Spec Aws.AwsDoc Aws.AwsSignModel.
Extraction Language OCaml.

(* the model instantiated with the repository's SHA-256 / HMAC-SHA256 models ... *)
Definition m_s3_headers := aws_sign_s3_headers_m sha256_buf hmac256_buf.
Definition m_s3_querystr := aws_sign_s3_querystr_m sha256_buf hmac256_buf.
Definition m_svc_headers := aws_sign_svc_headers_m sha256_buf hmac256_buf.
Definition m_dynamodb_headers := aws_sign_dynamodb_headers_m sha256_buf hmac256_buf.

(* ... and the independent SigV4 spec over the FIPS 180-4 / RFC 2104 spec functions *)
Definition s_s3_headers := doc_s3_headers SHA256_spec HMAC_SHA256_spec.
Definition s_svc_headers := doc_svc_headers SHA256_spec HMAC_SHA256_spec.
Definition s_dynamodb_headers := doc_dynamodb_headers SHA256_spec HMAC_SHA256_spec.
Definition s_s3_querystr := doc_s3_querystr SHA256_spec HMAC_SHA256_spec.

Extraction "aws.ml" force_number_types m_s3_headers m_s3_querystr m_svc_headers m_dynamodb_headers
  s_s3_headers s_svc_headers s_dynamodb_headers s_s3_querystr.
