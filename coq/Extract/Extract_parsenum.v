From Coq Require Import Extraction ExtrOcamlBasic.
From LCP Require Import Base.ExtractBase Base.CheckedMem Gen.Repo_parsenum Util.ParsenumSpec Util.Strto Util.ParsenumFloat Util.Parsenum Util.Humansize Util.HumansizeSpec.
Extraction Language OCaml.
Extraction "parsenum.ml" force_number_types
  strtoumax_m strtoimax_m parsenum_ex6 parsenum_ex4 presult_of
  parse_spec parse_spec_nobounds
  mk_sd sd_class fstore narrow32 decode64 decode32 decode_w class_of fval_ltb in_type
  humansize_repo humansize_parse_repo hs_parse_spec hs_format_spec.
