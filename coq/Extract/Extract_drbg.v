From Coq Require Import Extraction ExtrOcamlBasic.
From LCP Require Import Base.ExtractBase Base.CheckedMem Crypto.DrbgSpec Crypto.DrbgModel Crypto.DrbgRepo.
Extraction Language OCaml.
Extraction "drbg.ml" force_number_types drbg_run drbg_spec_run entropy_read_fill_m
  dKey dV dctr dinst sK sV sctr.
