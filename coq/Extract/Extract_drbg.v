From Coq Require Import Extraction ExtrOcamlBasic.
From LCP Require Import Base.ExtractBase Base.CheckedMem Crypto.DrbgSpec Crypto.DrbgOsSpec Crypto.DrbgModel Crypto.DrbgOsModel Crypto.DrbgRepo.
Extraction Language OCaml.
Extraction "drbg.ml" force_number_types drbg_run drbg_spec_run entropy_read_fill_m
  drbg_os_run drbg_os_spec_run entropy_read_w spec_session s_open s_reads s_closes
  dKey dV dctr dinst sK sV sctr.
