From Coq Require Import Extraction ExtrOcamlBasic.
From LCP Require Import Base.ExtractBase Base.CheckedMem Gen.Repo_codec Util.Hex.
Extraction Language OCaml.
Extraction "codec.ml" force_number_types hexchars hexify_m unhexify_m hex_spec unhex_spec.
