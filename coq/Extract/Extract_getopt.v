From Coq Require Import Extraction ExtrOcamlBasic.
From LCP Require Import Base.ExtractBase Base.CheckedMem Util.Getopt.
Extraction Language OCaml.
Extraction "getopt.ml" force_number_types init_state set_optreset run_from run_from_n run_model
  run_switch_from run_switch_from_n table_of miss_of spec spec_coded is_some.
