From Coq Require Import Extraction ExtrOcamlBasic.
From LCP Require Import Base.ExtractBase Base.CheckedMem Gen.Repo_codec Gen.Repo_codec2 Util.EndianMem Util.Endian Util.B64 Util.SockText Util.Sock Util.LineFiles.
Extraction Language OCaml.
Extraction "codec2.ml" force_number_types
  alloc b64chars b64encode_m b64decode_m b64_spec b64decode_spec b64len b64declen
  be16enc_m be32enc_m be64enc_m le16enc_m le32enc_m le64enc_m
  be16dec_m be32dec_m be64dec_m le16dec_m le32dec_m le64dec_m
  be_bytes le_bytes be_val le_val stored loaded
  sock_addr_cmp_m sock_addr_dup_m sock_addr_serialize_m sock_addr_deserialize_m
  sock_resolve_x sock_addr_prettyprint_x sock_addr_ensure_port_m
  sa_ipv4 sa_ipv6 sa_unix pton4 ntop4 parse_port
  aws_readkeys_m readpass_file_m aws_stack_buffer rp_stack_buffer.
