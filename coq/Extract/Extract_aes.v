From Coq Require Import Extraction ExtrOcamlBasic.
From LCP Require Import Base.ExtractBase.
From LCP Require Import Base.CheckedMem.
From LCP Require Import Gen.Repo_aes.
From LCP Require Import Crypto.AesSpec.
From LCP Require Import Accel.AesNi.
From LCP Require Import Crypto.AesCtrModel.
From LCP Require Import Crypto.AesWipe.
From LCP Require Import Crypto.AesRepo.
From LCP Require Import Gen.Repo_aes_sel.
From LCP Require Import Crypto.AesSelect.
Extraction Language OCaml.
Extraction "aes.ml" force_number_types
  x_key_expand_aesni x_encrypt_block_aesni x_key_expansion x_cipher x_nr_of x_aes_encrypt_slow
  x_init2 x_seek x_stream_cfg x_aesctr_buf x_ctr_spec x_ctr_spec_from
  x_key_free_aesni x_key_free_sw x_key_free_sw_ni x_aesctr_free le64 all_zero
  x_selection x_lib_key_expand x_lib_block x_lib_stream
  selftest1_key selftest1_ptext selftest1_ctext selftest2_key selftest2_ptext selftest2_ctext.
