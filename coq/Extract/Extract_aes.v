From Coq Require Import Extraction ExtrOcamlBasic.
From LCP Require Import Base.ExtractBase Base.CheckedMem Gen.Repo_aes Crypto.AesSpec Accel.AesNi
  Crypto.AesCtrModel Crypto.AesWipe Crypto.AesRepo.
Extraction Language OCaml.
Extraction "aes.ml" force_number_types
  x_key_expand_aesni x_encrypt_block_aesni x_key_expansion x_cipher x_nr_of x_aes_encrypt_slow
  x_init2 x_stream_cfg x_aesctr_buf x_ctr_spec
  x_key_free_aesni x_key_free_sw x_aesctr_free le64 all_zero
  selftest1_key selftest1_ptext selftest1_ctext selftest2_key selftest2_ptext selftest2_ctext.
