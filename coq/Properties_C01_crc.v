(* C01, CRC32C clause: "The CRC32C value has the documented algebraic meaning: the bit string
   1 || data || crc, least-significant bit first, is a multiple of the Castagnoli polynomial."
   Only statements, each closed by [exact], with Print Assumptions.
   Model: Alg/Crc32c.v instantiated in Alg/Crc32cRepo.v with the constants regenerated from
   alg/crc32c.c (Gen/Repo_crc.v); spec: Alg/GF2Poly.v + the SPEC part of Alg/Crc32c.v. *)
From Coq Require Import NArith List.
From LCP Require Import Base.CheckedMem Gen.Repo_crc Alg.GF2Poly Alg.Crc32c Alg.Crc32cRepo Alg.Crc32cGF2Proofs Alg.Crc32cProofs.
Import ListNotations.
Local Open Scope N_scope.

(* reverse(), times256() and the fill loop of init(), run on the regenerated masks/polynomial,
   produce T[k][i] = i * x^(8(k+1)) mod P (reflected), and the assert of init() holds *)
Theorem C01_crc_tables_are_the_documented_ones :
  crc_tables = map crc_table_ref [0; 1; 2; 3] /\ crc_init_tables = Ok crc_tables.
Proof. exact (conj repo_tables_eq_spec repo_init_tables_ok). Qed.
Print Assumptions C01_crc_tables_are_the_documented_ones.

(* M6, first half: the table-driven byte step of the byte loop is eight bit-serial reflected
   division steps, for every register value and every byte *)
Theorem C01_crc_table_step_eq_bits :
  forall s b, b < 256 -> crc_byte_step s b = crc_byte_bits s b.
Proof. exact crc_table_step_eq_bits_proof. Qed.
Print Assumptions C01_crc_table_step_eq_bits.

(* M6, second half: one iteration of the slice-by-4 loop is four byte steps *)
Theorem C01_crc_slice4_eq_bytes :
  forall s b0 b1 b2 b3, s < 2 ^ 32 -> b0 < 256 -> b1 < 256 -> b2 < 256 -> b3 < 256 ->
  crc_slice4 s b0 b1 b2 b3 = fold_left crc_byte_step [b0; b1; b2; b3] s.
Proof. exact crc_slice4_eq_bytes_proof. Qed.
Print Assumptions C01_crc_slice4_eq_bytes.

(* the two loops of CRC32C_Update together are a fold of the byte step *)
Theorem C01_crc_update_is_byte_fold :
  forall st buf, st < 2 ^ 32 -> bytes_ok buf -> crc_update_c st buf = fold_left crc_byte_step buf st.
Proof. exact crc_update_c_eq_bytes. Qed.
Print Assumptions C01_crc_update_is_byte_fold.

(* the invariant behind G7: after the bits [bits] the register is reflect32((x^32 * M) mod P)
   with M the polynomial of 1 || bits *)
Theorem C01_crc_state_invariant :
  forall bits, crc_bits crc_init bits =
               reflect 32 (xpow 32 (pmod (poly_of_bits (true :: bits)) castagnoli)).
Proof. exact crc_state_invariant. Qed.
Print Assumptions C01_crc_state_invariant.

(* G7: the property's own sentence, for every byte string *)
Theorem C01_crc32c_algebraic :
  forall data, bytes_ok data -> crc_spec_ok data (crc_final (crc_update_c crc_init data)).
Proof. exact crc32c_algebraic_proof. Qed.
Print Assumptions C01_crc32c_algebraic.

(* ... and for every way of splitting the data across Update calls (empty calls included);
   streaming and one-shot agree *)
Theorem C01_crc32c_algebraic_every_partition :
  forall parts, Forall bytes_ok parts ->
    crc_spec_ok (concat parts) (crc_stream_c parts) /\
    crc_stream_c parts = crc_stream_c [concat parts].
Proof. exact (fun parts H => conj (crc32c_algebraic_stream parts H) (crc_streaming_eq_oneshot parts H)). Qed.
Print Assumptions C01_crc32c_algebraic_every_partition.

(* the model equals the bit-serial reference used as oracle by the correspondence run *)
Theorem C01_crc_model_eq_bitserial_reference :
  forall data, bytes_ok data -> crc_stream_c [data] = crc_ref data.
Proof. exact crc_model_eq_ref. Qed.
Print Assumptions C01_crc_model_eq_bitserial_reference.

(* sanity of the spec: pmod (used in crc_spec_ok) is the remainder of carry-less division *)
Theorem C01_crc_spec_pmod_is_remainder :
  forall a, exists q, a = N.lxor (pmul q castagnoli) (pmod a castagnoli) /\ pmod a castagnoli < 2 ^ 32.
Proof. exact pmod_is_remainder. Qed.
Print Assumptions C01_crc_spec_pmod_is_remainder.
