(* C20 (key-file part): when a key-file read fails after the secret line was read, the memory that
   held the secret contains only zero bytes at the moment it is returned to the allocator; every
   block is released exactly once on failure and handed to the caller on success.
   Quantified over every file content (NUL bytes, over-long and unterminated lines included) and
   every pattern of strdup failures.  Names, buffer size and the presence of the wipe on the error
   path are regenerated from aws/aws_readkeys.c (Gen/Repo_readkeys.v). *)
From Coq Require Import NArith List.
From LCP Require Import Gen.Repo_readkeys Wipe.Readkeys Wipe.ReadkeysProofs.

Definition repo_readkeys (file : bytes) (orc : list bool) : outcome * list event :=
  aws_readkeys_m readkeys_name_id readkeys_name_secret readkeys_bufsize readkeys_wipes_before_free file orc.

Theorem C20_readkeys_secret_zero_when_freed :
  forall file orc, wiped (snd (repo_readkeys file orc)) = true.
Proof. exact (aws_readkeys_wipes readkeys_name_id readkeys_name_secret readkeys_bufsize). Qed.
Print Assumptions C20_readkeys_secret_zero_when_freed.

Theorem C20_readkeys_every_block_released_once :
  forall file orc, balanced (repo_readkeys file orc).
Proof.
  exact (aws_readkeys_balanced readkeys_name_id readkeys_name_secret readkeys_bufsize
                               readkeys_wipes_before_free).
Qed.
Print Assumptions C20_readkeys_every_block_released_once.
