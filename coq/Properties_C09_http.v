(* C09: the HTTP client decodes well-formed responses exactly, and sends exactly the documented
   request bytes.  Statements about the model of http/http.c as it is now (HttpModel, constants
   regenerated from the C) against the independent spec HttpSpec:

     response / wf_response   an abstract HTTP/1.x response (any number of 1xx messages in front; status
                              line; header fields with the optional white space the server put around
                              each value; framing = none | Content-Length with the server's spelling of
                              the length (1*DIGIT, leading zeros allowed) | chunked with the server's
                              spelling of every chunk size and extension | close; body) and the
                              boolean predicate saying it is well formed;
     render                   its serialisation;   expect = what the callback must receive.

   Only statements closed by [exact], with Print Assumptions.  Non-trivial instances of the
   hypotheses: Examples ex_chunked_wf / ex_chunked_bytewise / ex_others_wf (HttpRoundtrip.v),
   request_bytes_nonvacuous and headers_roundtrip_nonvacuous (HttpDecode.v), init_rdr_ok (HttpSafe.v).

   Two limits of the implementation are part of wf_response because the statement is for EVERY
   segmentation: a header block has at most MAXHDR + 1 = 65537 bytes and a chunk-size line (digits,
   extension, CRLF) at most MAXCHLEN = 256 bytes.  [limit] is the caller's maxrlen. *)
From Coq Require Import NArith ZArith List.
From LCP Require Import Base.CheckedMem Gen.Repo_http Http.HttpStrto Http.HttpModel Http.HttpSpec Http.HttpSafe Http.HttpDecode Http.HttpRoundtrip.
Import ListNotations.
Local Open Scope N_scope.

(* The full statement.  For every well-formed response r, every body limit >= |body|, every
   segmentation [segs] of the rendered bytes (empty segments = EAGAIN rounds; [r0] = any reader state
   netbuf_read can be in, holding a prefix of the bytes), and - unless the body is delimited by the
   close itself - every way the connection ends afterwards (EOF, error, stall): exactly one callback,
   and it is expect r.
   NOTE: wf_response contains two clauses that are limits of the implementation, not of HTTP
   (C09_wf_limit_clauses below names them): within_limits r = every header block, interim or final,
   has lenN (render_head ..) <= maxhdr + 1 = 65537 bytes, and every chunk-size line has
   lenN digits + lenN ext + 2 <= maxchlen = 256 bytes.  Without them the statement is false
   (C09_over_limit_segmentation_dependent_refuted, known finding F12). *)
Theorem C09_decode_wellformed :
  forall stale r0 limit ishead r segs e,
    wf_response ishead r = true -> lenN (resp_body r) <= limit -> limit < two64 ->
    rdr_ok r0 -> r_win r0 ++ concat segs = render r ->
    (p_framing r = FrClose -> e = EndEof) ->
    http_response_run repo_terminated stale r0 limit ishead (mkNet segs e) = Ok (Done [expect r]).
Proof. exact decode_wellformed. Qed.
Print Assumptions C09_decode_wellformed.

(* what expect is: exactly the final status, exactly the (name, value) pairs of the final header
   block in order - the white space f_lead / f_trail that render_field wrote around each value is
   gone -, exactly the body; the body pointer is NULL iff the body is empty *)
Theorem C09_expect_meaning :
  forall r,
    expect r = CbResp (Z.of_N (m_status (p_final r)))
                      (map (fun f => (f_name f, f_value f)) (final_fields r))
                      (match resp_body r with [] => true | _ => false end)
                      (lenN (resp_body r)) (resp_body r).
Proof. exact expect_meaning. Qed.
Print Assumptions C09_expect_meaning.

(* M1: the request.  http_request2's stpcpy chain writes method SP path " HTTP/1.1" CRLF
   (name ": " value CRLF)* CRLF and the body follows; the precomputed req_headlen is the real length
   (the C assert holds and the writes stay inside malloc(req_headlen + 1)) *)
Theorem C09_request_bytes :
  forall q, lenN (req_render q) + 1 < two64 ->
    http_request_m q = Ok (request_layout q) /\ req_headlen q = lenN (req_render q).
Proof. exact request_bytes. Qed.
Print Assumptions C09_request_bytes.

(* M2: one header block.  gotheaders on a window that begins with a rendered block (status line of
   message m, fields fs with their optional white space) consumes exactly the block and extracts the
   status and the (name, value) list in order; a 1xx block restarts the header search at offset 0,
   any other block goes on to the choice of the framing with that status and those headers *)
Theorem C09_headers_roundtrip :
  forall lo hi a m fs h post,
    wf_msg lo hi a m = true -> 100 <= lo -> hi <= 599 -> forallb (wf_field true) fs = true ->
    rdr_ok (h_r h) -> r_win (h_r h) = render_head m fs ++ post ->
    exists r', rdr_consume (h_r h) (lenN (render_head m fs)) = Ok r' /\ rdr_ok r' /\ r_win r' = post /\
      gotheaders h (lenN (render_head m fs)) =
      if m_status m <=? 199 then Ok (SCont (set_hepos (set_r h r') 0) PhHeader)
      else select_framing (set_resp (set_r h r') (Z.of_N (m_status m)) (map nv fs)).
Proof. exact headers_roundtrip. Qed.
Print Assumptions C09_headers_roundtrip.

(* M3: the framings, whole response in one read into a fresh reader.
   Content-Length: [ds] is the length as the server wrote it - any non-empty string of decimal digits
   whose value is the body length, leading zeros included (wf_response, via HttpSpec.wf_clen); the
   header handed to the caller carries exactly that text.  Example ex_clen_leading_zeros: "010" is a
   ten-byte body, "0019" nineteen bytes. *)
Theorem C09_clen_roundtrip :
  forall stale limit ishead r pos ds,
    wf_response ishead r = true -> p_framing r = FrClen pos ds -> lenN (p_body r) <= limit -> limit < two64 ->
    forall e,
    http_response_run repo_terminated stale init_rdr limit ishead (mkNet [render r] e)
    = Ok (Done [CbResp (Z.of_N (m_status (p_final r))) (map nv (final_fields r))
                       (match p_body r with [] => true | _ => false end) (lenN (p_body r)) (p_body r)]).
Proof. exact clen_roundtrip. Qed.
Print Assumptions C09_clen_roundtrip.

Theorem C09_chunked_roundtrip :
  forall stale limit ishead r pos cs ld le tr,
    wf_response ishead r = true -> p_framing r = FrChunked pos cs ld le tr ->
    lenN (concat (map c_data cs)) <= limit -> limit < two64 ->
    forall e,
    http_response_run repo_terminated stale init_rdr limit ishead (mkNet [render r] e)
    = Ok (Done [CbResp (Z.of_N (m_status (p_final r))) (map nv (final_fields r))
                       (match concat (map c_data cs) with [] => true | _ => false end)
                       (lenN (concat (map c_data cs))) (concat (map c_data cs))]).
Proof. exact chunked_roundtrip. Qed.
Print Assumptions C09_chunked_roundtrip.

Theorem C09_close_roundtrip :
  forall stale limit ishead r,
    wf_response ishead r = true -> p_framing r = FrClose -> lenN (p_body r) <= limit -> limit < two64 ->
    http_response_run repo_terminated stale init_rdr limit ishead (mkNet [render r] EndEof)
    = Ok (Done [CbResp (Z.of_N (m_status (p_final r))) (map nv (final_fields r))
                       (match p_body r with [] => true | _ => false end) (lenN (p_body r)) (p_body r)]).
Proof. exact close_roundtrip. Qed.
Print Assumptions C09_close_roundtrip.

(* HEAD, 204, 304: no body whatever Content-Length / Transfer-Encoding fields the block carries *)
Theorem C09_bodiless_roundtrip :
  forall stale limit ishead r,
    wf_response ishead r = true -> p_framing r = FrNone -> limit < two64 ->
    forall e,
    http_response_run repo_terminated stale init_rdr limit ishead (mkNet [render r] e)
    = Ok (Done [CbResp (Z.of_N (m_status (p_final r))) (map nv (m_fields (p_final r))) true 0 []]).
Proof. exact bodiless_roundtrip. Qed.
Print Assumptions C09_bodiless_roundtrip.

(* G4: every segmentation gives the outcome of the one-shot arrival *)
Theorem C09_segmentation_independent :
  forall stale limit ishead r segs e,
    wf_response ishead r = true -> lenN (resp_body r) <= limit -> limit < two64 ->
    concat segs = render r -> (p_framing r = FrClose -> e = EndEof) ->
    http_response_run repo_terminated stale init_rdr limit ishead (mkNet segs e)
    = http_response_run repo_terminated stale init_rdr limit ishead (mkNet [render r] e).
Proof. exact segmentation_independent. Qed.
Print Assumptions C09_segmentation_independent.

(* G5: the 1xx responses in front change nothing: same outcome as the response without them *)
Theorem C09_interim_skipped :
  forall stale limit ishead r segs e,
    wf_response ishead r = true -> lenN (resp_body r) <= limit -> limit < two64 ->
    concat segs = render r -> (p_framing r = FrClose -> e = EndEof) ->
    http_response_run repo_terminated stale init_rdr limit ishead (mkNet segs e)
    = http_response_run repo_terminated stale init_rdr limit ishead
        (mkNet [render (without_interim r)] e).
Proof. exact interim_skipped. Qed.
Print Assumptions C09_interim_skipped.

(* both directions of one exchange: the bytes sent are the documented layout, the callback is
   expect r; HEAD is recognised from the method *)
Theorem C09_exchange_exact :
  forall stale limit q r segs e,
    lenN (req_render q) + 1 < two64 ->
    wf_response (list_eqb (q_method q) method_head) r = true -> lenN (resp_body r) <= limit -> limit < two64 ->
    concat segs = render r -> (p_framing r = FrClose -> e = EndEof) ->
    http_run repo_terminated stale init_rdr q limit (mkNet segs e)
    = Ok (request_layout q, Done [expect r]).
Proof. exact exchange_exact. Qed.
Print Assumptions C09_exchange_exact.

(* the two limit clauses inside wf_response, isolated *)
Theorem C09_wf_limit_clauses :
  forall ishead r,
    wf_response ishead r = true <-> wf_response_nolimits ishead r = true /\ within_limits r = true.
Proof. exact wf_response_limit_clauses. Qed.
Print Assumptions C09_wf_limit_clauses.

(* KNOWN FINDING F12 (signature http.limits-segmentation-dependent).  The full statement of C09 without
   the limit clauses is refuted: ex_overlimit (a chunked 200 whose only chunk-size line is "5;" followed
   by 300 times "x"; replay corpus/http/limits_chunkline.case) satisfies every clause of wf_response
   except the chunk-line length one, is decoded exactly when it arrives in one read, and is answered
   with callback(NULL) when it arrives byte by byte: MAXCHLEN (like MAXHDR) is only tested while the
   line is still incomplete. *)
Theorem C09_over_limit_segmentation_dependent_refuted :
  wf_response_nolimits false ex_overlimit = true /\ within_limits ex_overlimit = false /\
  http_response_run repo_terminated 0 init_rdr 100 false (mkNet [render ex_overlimit] EndEof)
    = Ok (Done [expect ex_overlimit]) /\
  http_response_run repo_terminated 0 init_rdr 100 false
    (mkNet (map (fun b => [b]) (render ex_overlimit)) EndEof) = Ok (Done [CbNull]).
Proof. exact over_limit_segmentation_dependent. Qed.
Print Assumptions C09_over_limit_segmentation_dependent_refuted.
