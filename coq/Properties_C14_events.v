(* C14, event registrations (M4 of DESIGN.md section 5): a refused allocation inside
   events_immediate_register / events_network_register / events_timer_register.

   PARTIAL.  What is proved: in the model a register call that fails for lack of memory
   (allocation-oracle value af <> 0 on the operation) returns failure and leaves every structure
   of the library exactly as it was (for a timer the clock may have been read); and because such
   calls are ordinary operations of the programs the C04 theorems quantify over, a failed
   registration is never invoked (no EInvokeBogus, every EInvoke is of a live id) and does not
   block a later registration (EEXIST only while one is live) - for all programs, schedules and
   positions of the failures.
   What is NOT proved here and rests on the correspondence run (areas/events.py,
   check_events_allocfail: k-th / from-k-th allocation of one call refused, immediate retry,
   per-case process with exit-time accounting of library blocks + LeakSanitizer):
   which allocation of the C maps to which oracle value (mpool and elastic-array internals are not
   modelled here), that the retry succeeds (totality of the model's register functions), and the
   absence of leaks. *)
From Coq Require Import NArith ZArith List.
From LCP Require Import Base.CheckedMem Events.EventsTrace Events.EventsSpec Events.EventsModel Events.EventsSpecProofs Events.EventsInv Events.EventsC14.
Import ListNotations.

Theorem C14_events_failed_registration_state_unchanged_partial :
  forall o s s', failing_reg o = true -> exec_op o s = Ok s' ->
    s_imm s' = s_imm s /\ s_net s' = s_net s /\ s_tmr s' = s_tmr s /\ s_cl s' = s_cl s /\
    s_intr s' = s_intr s /\ only_failure_events (s_tr s) (s_tr s') = true.
Proof. exact failed_reg_unchanged. Qed.
Print Assumptions C14_events_failed_registration_state_unchanged_partial.

Theorem C14_events_failed_registration_never_invoked_partial :
  forall p xs pl cl fuel tr,
    prog_norm p -> Forall xop_norm xs -> Forall (fun t => tv_norm t = true) cl ->
    run_case p xs pl cl fuel = Ok tr ->
    ~ In EInvokeBogus tr /\
    (forall t1 r t2, tr = t1 ++ EInvoke r :: t2 -> live_in t1 r) /\
    reregistrable tr.
Proof. exact failed_reg_inert. Qed.
Print Assumptions C14_events_failed_registration_never_invoked_partial.
