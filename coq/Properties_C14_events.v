(* C14, event registrations (M4 of DESIGN.md section 5): a refused allocation inside
   events_immediate_register / events_network_register / events_timer_register.

   PARTIAL.  How the failing call is modelled.  A register operation carries an oracle value af;
   af <> 0 means "this call is refused with ENOMEM" and says at which of its allocation points,
   and exec_op then yields the state that THE UNWINDING OF THE C leaves behind at that point
   (EventsModel.v):
     events_immediate_register   nothing was written (err1 frees the eventrec again);
     events_network_register     net_register_refused: 1 = refused in init() or in events_mkrec
                                 without growth - nothing written; 2 = in growsocketlist - init()
                                 has run; 3 = in events_mkrec after growsocketlist succeeded - the
                                 socket list keeps its new empty records; >= 4 = in growpollfd -
                                 events_mkrec's record had been stored in *r and err1 takes it out
                                 again (events_freerec; *r = NULL); EEXIST is tested before the
                                 allocation, so a refusal never touches an occupied slot;
     events_timer_register       odd af: refused before the clock is read, even: after it (in
                                 timerqueue_add); af >= 3: the call had created the timer queue
                                 (Q = timerqueue_init()) - Q STAYS INITIALISED, which is visible
                                 later: events_timer_get now reads the clock
                                 (EventsC14.ex_refused_partial_states).
   What is proved about these partial states (first theorem): every structure another call can
   read is as before - immediate queues, the client's handles, the interrupt flag, the timer heap,
   every reader/writer field, every revents bit and the whole pollfd array - with N1-N5 of
   events_network.c intact; what may differ is exactly: init() done / trailing empty socket
   records / an empty timer queue that now exists.  And because these operations are ordinary
   operations of the programs that ALL C04 and C05 theorems quantify over, every continuation
   from every such partial state is covered by them: a failed registration is never invoked, does
   not block a later registration (second theorem), the order / progress / blocking clauses of C05
   hold afterwards, and no continuation faults (C04_model_never_faults).
   What this does NOT establish and rests on the correspondence run (areas/events.py,
   check_events_allocfail: k-th / from-k-th allocation of one call refused, immediate retry,
   per-case process with exit-time accounting of library blocks + LeakSanitizer): that the C's
   unwinding is the one modelled - in particular err1's `*r = NULL`, growsocketlist completing
   before events_mkrec is attempted, the EEXIST test preceding the allocation (seeds C04-e, C14-a,
   C14-c are caught there, not here); which allocation of the C (mpool and elastic-array internals
   are not modelled) maps to which oracle value - the run can only observe "ENOMEM, clock read or
   not" and therefore always replays the model with af = 1 or 2, which is trace-equivalent to the
   other values as long as the failed call is retried at once (it is: the partial states differ
   observably only through the timer queue, and the retry creates it anyway); that the retry
   succeeds; and the absence of leaks. *)
From Coq Require Import NArith ZArith List.
From LCP Require Import Base.CheckedMem Events.EventsTrace Events.EventsSpec Events.EventsModel Events.EventsNetInv Events.EventsSpecProofs Events.EventsInv Events.EventsC14.
Import ListNotations.

(* the state a refused register call leaves behind (for every oracle value, i.e. every point of
   refusal), from any state whose descriptor tables satisfy N1-N5 (every reachable state does:
   EventsInv.sm_net / EventsProgress.sh_net).  `field n fd dir` is S[fd].reader / .writer,
   `rev_at n fd` the revents of fd's pollfd entry, `fds n` the pollfd array. *)
Theorem C14_events_failed_registration_leaves_partial :
  forall o s s', failing_reg o = true -> NetInv (s_net s) -> exec_op o s = Ok s' ->
    s_imm s' = s_imm s /\ s_cl s' = s_cl s /\ s_intr s' = s_intr s /\
    heap (s_tmr s') = heap (s_tmr s) /\ (tq_inited (s_tmr s) = true -> tq_inited (s_tmr s') = true) /\
    NetInv (s_net s') /\ (forall f d, field (s_net s') f d = field (s_net s) f d) /\
    (forall f, rev_at (s_net s') f = rev_at (s_net s) f) /\ fds (s_net s') = fds (s_net s) /\
    match o with
    | OImmReg _ _ _ _ => s_net s' = s_net s /\ s_tmr s' = s_tmr s
    | ONetReg _ _ _ _ => s_tmr s' = s_tmr s
    | OTimerReg _ _ _ af => s_net s' = s_net s /\ (af <= 2 -> s_tmr s' = s_tmr s)
    | _ => True
    end /\
    only_failure_events (s_tr s) (s_tr s') = true.
Proof. exact failed_reg_unchanged. Qed.
Print Assumptions C14_events_failed_registration_leaves_partial.

Theorem C14_events_failed_registration_never_invoked_partial :
  forall p xs pl cl fuel tr,
    prog_norm p -> Forall xop_norm xs -> Forall (fun t => tv_norm t = true) cl ->
    run_case p xs pl cl fuel = Ok tr ->
    ~ In EInvokeBogus tr /\
    (forall t1 r t2, tr = t1 ++ EInvoke r :: t2 -> live_in t1 r) /\
    reregistrable tr.
Proof. exact failed_reg_inert. Qed.
Print Assumptions C14_events_failed_registration_never_invoked_partial.
