/* Interposers for the event-loop driver (drv_events.c):
 *   poll(2)            -> scripted answers, arguments recorded        (-Wl,--wrap=poll)
 *   monoclock_get      -> scripted readings (util/monoclock.c is not linked)
 *   malloc/realloc/calloc/free -> "fail the k-th allocation made by library code" and a
 *                         live set of library blocks                  (-Wl,--wrap=malloc,...)
 *   events_network_selectstats_* -> no-ops (events_network_selectstats.c reads the clock for
 *                         statistics only; it is not linked so that the scripted clock is
 *                         consumed by the timer code alone)
 *   warn/warnx         -> silent (util/warnp.c is not linked)
 * No descriptor ever reaches the kernel. */
#include <errno.h>
#include <poll.h>
#include <stdarg.h>
#include <stdint.h>
#include <stdio.h>
#include <stdlib.h>
#include <string.h>
#include <sys/time.h>

#include "events.h"
#include "warnp.h"		/* renames warn/warnx to the library's own symbols */
#include "wrap_events.h"

/* ------------------------------------------------------------------ trace buffer */
static char w_out[1 << 20];
static size_t w_len;
int w_tracing;

void
w_emit(const char * fmt, ...)
{
	va_list ap;
	int n;

	if (!w_tracing)
		return;
	if (w_len + 256 > sizeof(w_out))
		return;
	w_out[w_len++] = ' ';
	va_start(ap, fmt);
	n = vsnprintf(w_out + w_len, sizeof(w_out) - w_len, fmt, ap);
	va_end(ap);
	if (n > 0)
		w_len += (size_t)n;
}

const char *
w_output(size_t * len)
{

	*len = w_len;
	return (w_out);
}

/* ------------------------------------------------------------------ schedule */
struct w_poll * w_polls;
int w_npolls, w_pollpos;
struct timeval * w_clocks;
int w_nclocks, w_clockpos;
static struct timeval w_lastclock;

static int
bits_to_short(int b)
{

	return (((b & 1) ? POLLIN : 0) | ((b & 2) ? POLLOUT : 0) |
	    ((b & 4) ? POLLERR : 0) | ((b & 8) ? POLLHUP : 0));
}

static int
short_to_bits(int r)
{

	return (((r & POLLIN) ? 1 : 0) | ((r & POLLOUT) ? 2 : 0) |
	    ((r & POLLERR) ? 4 : 0) | ((r & POLLHUP) ? 8 : 0) | ((r & ~(POLLIN | POLLOUT | POLLERR | POLLHUP)) ? 16 : 0));
}

int
__wrap_poll(struct pollfd * fds, nfds_t nfds, int timeout)
{
	static int ord[4096];
	nfds_t i, j;
	int cnt = 0;
	struct w_poll * a;

	if (!w_tracing) {
		/* cleanup phase: nothing is ready */
		for (i = 0; i < nfds; i++)
			fds[i].revents = 0;
		return (0);
	}
	if (nfds > 4096)
		abort();
	if (nfds > 0 && fds == NULL) {
		/* what the kernel does with a NULL array; the token makes the trace unacceptable */
		w_emit("P %d %d NULLFDS", timeout, (int)nfds);
		errno = EFAULT;
		return (-1);
	}

	/* arguments, sorted by descriptor */
	for (i = 0; i < nfds; i++) {
		ord[i] = (int)i;
		for (j = i; j > 0 && fds[ord[j - 1]].fd > fds[ord[j]].fd; j--) {
			int t = ord[j]; ord[j] = ord[j - 1]; ord[j - 1] = t;
		}
	}
	w_emit("P %d %d", timeout, (int)nfds);
	for (i = 0; i < nfds; i++)
		w_emit("%d %d", fds[ord[i]].fd,
		    ((fds[ord[i]].events & POLLIN) ? 1 : 0) | ((fds[ord[i]].events & POLLOUT) ? 2 : 0));

	/* the answer */
	a = (w_pollpos < w_npolls) ? &w_polls[w_pollpos++] : NULL;
	if (a == NULL || a->kind != 0) {
		/* an interrupted poll(2) returns with every revents written as 0, as Linux does (its
		 * copy-out of revents is unconditional).  POSIX leaves revents unspecified on failure and
		 * FreeBSD skips the copy-out: there the array keeps what the caller left in it, and
		 * events_network_select() goes on to scan it after an interrupt.  Leaving revents untouched
		 * here makes the UNCHANGED library dispatch callbacks from stale readiness bits, so that
		 * kernel behaviour is outside what this harness assumes (reported, not enabled). */
		for (i = 0; i < nfds; i++)
			fds[i].revents = 0;
		if (a == NULL || a->kind == 2) {
			/* the signal handler asks the loop to stop */
			events_interrupt();
			w_emit("E1");
		} else
			w_emit("E0");
		errno = EINTR;
		return (-1);
	}
	for (i = 0; i < nfds; i++) {
		int want = 0, k;
		for (k = 0; k < a->n; k++)
			if (a->fd[k] == fds[i].fd) {
				want = bits_to_short(a->bits[k]);
				break;
			}
		fds[i].revents = (short)(want & (fds[i].events | POLLERR | POLLHUP));
		if (fds[i].revents)
			cnt++;
	}
	w_emit("A %d", cnt);
	for (i = 0; i < nfds; i++)
		if (fds[ord[i]].revents)
			w_emit("%d %d", fds[ord[i]].fd, short_to_bits(fds[ord[i]].revents));
	/* a successful call may leave anything in errno: it leaves the value that would mean
	 * "interrupted" had the call failed */
	errno = EINTR;
	return (cnt);
}

int
monoclock_get(struct timeval * tv)
{

	if (w_tracing && w_clockpos < w_nclocks)
		w_lastclock = w_clocks[w_clockpos++];
	*tv = w_lastclock;
	w_emit("C %ld %ld", (long)tv->tv_sec, (long)tv->tv_usec);
	return (0);
}

void events_network_selectstats_startclock(void) { }
void events_network_selectstats_stopclock(void) { }
void events_network_selectstats_select(void) { }

void warn(const char * fmt, ...) { (void)fmt; }
void warnx(const char * fmt, ...) { (void)fmt; }

/* ------------------------------------------------------------------ allocator */
int w_in_lib;			/* the current code is library code */
long w_fail_countdown;		/* > 0: the k-th library allocation from now fails */
int w_fail_persist;		/* ... and so does every later one until disarmed */
int w_fail_hit;			/* an allocation was refused */
long w_lib_allocs;		/* library allocation requests seen */
static long w_lib_live;

#define W_TAB (1 << 16)
static void * w_tab[W_TAB];

static size_t
w_hash(void * p)
{

	return ((size_t)(((uintptr_t)p >> 4) * 2654435761u) & (W_TAB - 1));
}

static void
w_track(void * p)
{
	size_t h = w_hash(p);

	while (w_tab[h] != NULL && w_tab[h] != (void *)1)
		h = (h + 1) & (W_TAB - 1);
	w_tab[h] = p;
	w_lib_live++;
}

static int
w_untrack(void * p)
{
	size_t h = w_hash(p);

	while (w_tab[h] != NULL) {
		if (w_tab[h] == p) {
			w_tab[h] = (void *)1;	/* tombstone */
			w_lib_live--;
			return (1);
		}
		h = (h + 1) & (W_TAB - 1);
	}
	return (0);
}

long
w_live(void)
{

	return (w_lib_live);
}

void * __real_malloc(size_t);
void * __real_realloc(void *, size_t);
void * __real_calloc(size_t, size_t);
void __real_free(void *);

static int
w_refuse(void)
{

	if (!w_in_lib)
		return (0);
	w_lib_allocs++;
	if (w_fail_countdown > 0 && --w_fail_countdown == 0) {
		w_fail_hit = 1;
		if (w_fail_persist)
			w_fail_countdown = 1;
		errno = ENOMEM;
		return (1);
	}
	return (0);
}

void *
__wrap_malloc(size_t n)
{
	void * p;

	if (w_refuse())
		return (NULL);
	p = __real_malloc(n);
	if (w_in_lib && p != NULL)
		w_track(p);
	return (p);
}

void *
__wrap_calloc(size_t a, size_t b)
{
	void * p;

	if (w_refuse())
		return (NULL);
	p = __real_calloc(a, b);
	if (w_in_lib && p != NULL)
		w_track(p);
	return (p);
}

void *
__wrap_realloc(void * q, size_t n)
{
	void * p;
	int was;

	if (w_refuse())
		return (NULL);		/* the old block stays valid (ISO C) */
	was = (q != NULL) ? w_untrack(q) : 0;
	p = __real_realloc(q, n);
	if (p == NULL) {
		if (was && n != 0)
			w_track(q);
		return (NULL);
	}
	if (was || w_in_lib)
		w_track(p);
	return (p);
}

void
__wrap_free(void * p)
{

	if (p != NULL)
		w_untrack(p);
	__real_free(p);
}
