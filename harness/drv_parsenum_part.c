/* One quarter of the generated PARSENUM / PARSENUM_EX call sites; compiled four times with
 * -DSITES_PART=0..3 (through the one-line wrappers drv_parsenum_p0.c .. p3.c). */
#include "drv_parsenum.h"
#include "parsenum.h"
#include "parsenum_sites.inc"
