#define SITES_PART 1
#include "drv_parsenum_part.c"
