/* Driver for util/json.c: same case lines as model/json_main.ml.
 *   find <bufhex> <keyhex>   ->  ok <offset of the returned pointer from buf>
 * The document is copied into a malloc block of exactly its size (no terminator), the key into
 * one of exactly strlen+1 bytes, so ASan reports any access outside either.  A zero-length
 * document is the one-past-the-end pointer of a 1-byte block.  A returned pointer outside
 * [buf, end] is printed as "range <signed offset>". */
#include "drv_common.h"
#include "json.h"

int main(void)
{
	char * line; char * tok[8];
	setvbuf(stdout, NULL, _IOLBF, 0);
	while ((line = drv_getline()) != NULL) {
		int n = drv_split(line, tok, 8);
		if (n == 3 && strcmp(tok[0], "find") == 0) {
			size_t len, klen, i;
			uint8_t * src = drv_unhex(tok[1], &len, 0);
			uint8_t * key = drv_unhex(tok[2], &klen, 1);	/* + NUL */
			uint8_t * base = malloc(len ? len : 1);
			uint8_t * buf = len ? base : base + 1;
			const uint8_t * r;
			for (i = 0; i < len; i++)
				buf[i] = src[i];
			r = json_find(buf, buf + len, (const char *)key);
			if (r >= buf && r <= buf + len)
				printf("ok %ld\n", (long)(r - buf));
			else
				printf("range %ld\n", (long)((intptr_t)r - (intptr_t)buf));
			free(src); free(key); free(base);
		} else
			printf("bad-case\n");
	}
	return 0;
}
