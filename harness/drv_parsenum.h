/* Shared by drv_parsenum.c and the generated call-site parts (drv_parsenum_part.c). */
#ifndef DRV_PARSENUM_H
#define DRV_PARSENUM_H
#include <errno.h>
#include <float.h>
#include <inttypes.h>
#include <math.h>
#include <stdint.h>
#include <stdio.h>
#include <string.h>

struct site { const char * desc; void (*run)(const char *); };

static inline const char * errname(int e)
{
	if (e == 0) return "OK";
	if (e == EINVAL) return "EINVAL";
	if (e == ERANGE) return "ERANGE";
	return "EOTHER";
}

/* The macro's value must be (errno != 0); the stored value is printed in every case. */
static inline void report_u(int rc, uintmax_t v)
{
	int e = errno;
	if ((rc != 0) != (e != 0)) { printf("rc-mismatch rc=%d errno=%d\n", rc, e); return; }
	printf("%s %" PRIxMAX "\n", errname(e), v);
}

static inline void report_s(int rc, intmax_t v)
{
	int e = errno;
	if ((rc != 0) != (e != 0)) { printf("rc-mismatch rc=%d errno=%d\n", rc, e); return; }
	if (v < 0)
		printf("%s -%" PRIxMAX "\n", errname(e), (uintmax_t)0 - (uintmax_t)v);
	else
		printf("%s %" PRIxMAX "\n", errname(e), (uintmax_t)v);
}

/* floating targets: nan as a class, everything else as the bit pattern of the target itself
 * (8 hex digits for a float, 16 for a double) - no widening, so what the assignment inside the
 * macro left in *x is what is printed */
static inline void report_f32(int rc, float v)
{
	int e = errno;
	uint32_t bits;
	if ((rc != 0) != (e != 0)) { printf("rc-mismatch rc=%d errno=%d\n", rc, e); return; }
	if (isnan(v)) { printf("%s nan\n", errname(e)); return; }
	memcpy(&bits, &v, 4);
	printf("%s %08" PRIx32 "\n", errname(e), bits);
}

static inline void report_f64(int rc, double v)
{
	int e = errno;
	uint64_t bits;
	if ((rc != 0) != (e != 0)) { printf("rc-mismatch rc=%d errno=%d\n", rc, e); return; }
	if (isnan(v)) { printf("%s nan\n", errname(e)); return; }
	memcpy(&bits, &v, 8);
	printf("%s %016" PRIx64 "\n", errname(e), bits);
}
#endif
