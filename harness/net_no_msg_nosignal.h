/* Force-included (-include) in front of network/network_write.c in the -DPOSIXFAIL_MSG_NOSIGNAL
 * build of drv_net: makes this host look like the platform that configuration exists for - one
 * whose <sys/socket.h> has no MSG_NOSIGNAL - so that network_write.c's own
 *     #ifdef POSIXFAIL_MSG_NOSIGNAL / #ifndef MSG_NOSIGNAL / #define MSG_NOSIGNAL 0
 * takes effect and send() is called without the flag, relying on SIGPIPE being ignored. */
#include <sys/socket.h>
#undef MSG_NOSIGNAL
