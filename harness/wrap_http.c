/* Link-time interposers for the HTTP driver (-Wl,--wrap=...).
 *
 * The "kernel" is a script owned by the driver:
 *   - socket()      hands out a dup of /dev/null (so fcntl/close are the real ones);
 *   - connect()     answers EINPROGRESS; getsockopt(SO_ERROR) answers wh.sockerr;
 *   - poll()        reports POLLOUT whenever it is asked for, POLLIN only when the writer is idle
 *                   (so the whole request is on the wire before the first response byte is read)
 *                   and the server script still has something to say; a poll with nothing ready
 *                   sets wh.stalled and returns 0 at once (a real poll would block for ever);
 *   - recv()        plays the server byte stream in the scripted segmentation: a call with room
 *                   for `cap' bytes gets min(cap, rest of current segment); a 0-sized segment is
 *                   one EAGAIN; after the last byte: EOF, ECONNRESET or EAGAIN (stall);
 *   - send()        records the bytes, at most wh.sendchunk per call (0 = no limit); the
 *                   wh.sendfail_at-th call (1-based, 0 = never) fails with EPIPE;
 *   - malloc family counts library allocations, keeps the live set, and refuses the k-th
 *                   (wh.fail_at) or every one from the k-th on (wh.fail_from).
 * Nothing here looks at the bytes: the drivers decide what is observed. */
#include <sys/types.h>
#include <sys/socket.h>

#include <errno.h>
#include <fcntl.h>
#include <poll.h>
#include <stdint.h>
#include <stdlib.h>
#include <string.h>
#include <unistd.h>

#include "wrap_http.h"

struct wrap_http wh;

/* ------------------------------------------------------------------ allocator */
void * __real_malloc(size_t);
void * __real_calloc(size_t, size_t);
void * __real_realloc(void *, size_t);
void __real_free(void *);

#define WH_MAXLIVE 4096
static void * live[WH_MAXLIVE];

static int
refuse(void)
{

	if (!wh.track)
		return (0);
	wh.nallocs++;
	if ((wh.fail_at != 0) && (wh.nallocs == wh.fail_at))
		goto no;
	if ((wh.fail_from != 0) && (wh.nallocs >= wh.fail_from))
		goto no;
	return (0);
no:
	wh.nrefused++;
	errno = ENOMEM;
	return (1);
}

static void
live_add(void * p)
{
	size_t i;

	if (!wh.track || p == NULL)
		return;
	for (i = 0; i < WH_MAXLIVE; i++) {
		if (live[i] == NULL) {
			live[i] = p;
			wh.nlive++;
			return;
		}
	}
	wh.overflow = 1;
}

static void
live_del(void * p)
{
	size_t i;

	if (p == NULL)
		return;
	for (i = 0; i < WH_MAXLIVE; i++) {
		if (live[i] == p) {
			live[i] = NULL;
			wh.nlive--;
			return;
		}
	}
	/* Not one of ours (allocated before tracking started): fine. */
}

/* Is this block (allocated by library code) still allocated? */
int
wh_is_live(const void * p)
{
	size_t i;

	if (p == NULL)
		return (0);
	for (i = 0; i < WH_MAXLIVE; i++) {
		if (live[i] == p)
			return (1);
	}
	return (0);
}

void *
__wrap_malloc(size_t n)
{
	void * p;

	if (refuse())
		return (NULL);
	p = __real_malloc(n);
	live_add(p);
	return (p);
}

void *
__wrap_calloc(size_t a, size_t b)
{
	void * p;

	if (refuse())
		return (NULL);
	p = __real_calloc(a, b);
	live_add(p);
	return (p);
}

void *
__wrap_realloc(void * q, size_t n)
{
	void * p;

	if (refuse())
		return (NULL);		/* old block stays valid */
	p = __real_realloc(q, n);
	if (p != NULL) {
		live_del(q);
		live_add(p);
	}
	return (p);
}

void
__wrap_free(void * p)
{

	live_del(p);
	__real_free(p);
}

/* ------------------------------------------------------------------ sockets */
int __real_close(int);

/* A system call that succeeds may leave any value in errno; the scripted ones leave the next value
 * of this rotation, so code that looks at errno without a failed call in front of it sees the
 * "would block" / "interrupted" / "reset" values as often as 0. */
static void
stale_errno(void)
{
	static const int v[6] = { EAGAIN, EINTR, 0, ECONNRESET, EPIPE, EINPROGRESS };
	static unsigned k;

	/* only inside a case (each case is a forked child and starts the rotation at 0, so a replayed
	 * case sees the same values); the parent's own close() calls do not advance it */
	if (!wh.track)
		return;
	errno = v[k++ % 6];
}

int
__wrap_socket(int domain, int type, int protocol)
{
	int fd;

	(void)domain; (void)type; (void)protocol;
	wh.nsocket++;
	if ((fd = open("/dev/null", O_RDWR)) == -1)
		return (-1);
	if (wh.nsocket == 1)
		wh.fd_a = fd;
	else if (wh.nsocket == 2)
		wh.fd_b = fd;
	stale_errno();
	return (fd);
}

int
__wrap_connect(int s, const struct sockaddr * name, socklen_t namelen)
{

	(void)s; (void)name; (void)namelen;
	wh.nconnect++;
	errno = EINPROGRESS;
	return (-1);
}

int
__wrap_getsockopt(int s, int level, int optname, void * optval, socklen_t * optlen)
{

	(void)s; (void)level; (void)optname;
	if (optval != NULL && optlen != NULL && *optlen >= sizeof(int)) {
		*(int *)optval = wh.sockerr;
		*optlen = sizeof(int);
	}
	stale_errno();
	return (0);
}

int
__wrap_setsockopt(int s, int level, int optname, const void * optval, socklen_t optlen)
{

	(void)s; (void)level; (void)optname; (void)optval; (void)optlen;
	stale_errno();
	return (0);
}

int
__wrap_close(int fd)
{

	wh.nclose++;
	{
		int rc = __real_close(fd);

		if (rc == 0)
			stale_errno();
		return (rc);
	}
}

/* Is there anything the server side would answer to a recv() right now? */
static int
recv_ready(void)
{

	if (wh.seg_i < wh.nsegs)
		return (1);
	if (wh.pos < wh.streamlen)
		return (1);
	return (wh.ending != 's');
}

/* The second connection's response is on its way (released, not yet read to its end). */
static int
b_arriving(void)
{

	if (!wh.has_b || wh.b_done || wh.b_eof)
		return (0);
	return (wh.a_datasegs >= wh.b_after || wh.a_done ||
	    (wh.pos >= wh.streamlen && wh.seg_left == 0 && wh.seg_i >= wh.nsegs));
}

int
__wrap_poll(struct pollfd * fds, nfds_t nfds, int timeout)
{
	nfds_t i;
	int n = 0;
	int wantout = 0;

	(void)timeout;
	wh.npoll++;
	for (i = 0; i < nfds; i++) {
		if (fds[i].events & POLLOUT)
			wantout = 1;
	}
	for (i = 0; i < nfds; i++) {
		fds[i].revents = 0;
		if (fds[i].events & POLLOUT)
			fds[i].revents |= POLLOUT;
		else if (wh.has_b && fds[i].fd == wh.fd_b) {
			if ((fds[i].events & POLLIN) && !wantout && b_arriving())
				fds[i].revents |= POLLIN;
		} else if ((fds[i].events & POLLIN) && !wantout && !b_arriving() && recv_ready())
			fds[i].revents |= POLLIN;
		if (fds[i].revents)
			n++;
	}
	if (n == 0)
		wh.stalled = 1;
	stale_errno();
	return (n);
}

ssize_t
__wrap_recv(int s, void * buf, size_t len, int flags)
{
	size_t n;

	(void)flags;
	wh.nrecv++;
	if (wh.has_b && s == wh.fd_b) {
		n = wh.bstreamlen - wh.bpos;
		if (n == 0)
			wh.b_eof = 1;
		if (n > len)
			n = len;
		if (n > 0)
			memcpy(buf, wh.bstream + wh.bpos, n);
		wh.bpos += n;
		stale_errno();
		return ((ssize_t)n);
	}

	/* Start the next segment if the current one is used up. */
	while (wh.seg_left == 0) {
		if (wh.seg_i < wh.nsegs) {
			wh.seg_left = wh.segs[wh.seg_i++];
			if (wh.seg_left > wh.streamlen - wh.pos)
				wh.seg_left = wh.streamlen - wh.pos;
			if (wh.seg_left == 0 && wh.pos < wh.streamlen) {
				/* A scripted EAGAIN. */
				errno = EAGAIN;
				return (-1);
			}
			if (wh.seg_left == 0)
				continue;
		} else if (wh.pos < wh.streamlen) {
			/* Unscripted rest: segments of segrep bytes, or all at once. */
			wh.seg_left = wh.streamlen - wh.pos;
			if ((wh.segrep != 0) && (wh.seg_left > wh.segrep))
				wh.seg_left = wh.segrep;
		} else {
			switch (wh.ending) {
			case 'e':
				stale_errno();
				return (0);
			case 'r':
				errno = ECONNRESET;
				return (-1);
			default:
				errno = EAGAIN;
				return (-1);
			}
		}
	}

	n = wh.seg_left;
	if (n > len)
		n = len;
	if (n > 0)
		memcpy(buf, wh.stream + wh.pos, n);
	wh.pos += n;
	wh.seg_left -= n;
	if (n > 0)
		wh.a_datasegs++;
	stale_errno();
	return ((ssize_t)n);
}

ssize_t
__wrap_send(int s, const void * buf, size_t len, int flags)
{
	size_t n = len;

	(void)flags;
	wh.nsend++;
	if ((wh.sendfail_at != 0) && (wh.nsend == wh.sendfail_at)) {
		errno = EPIPE;
		return (-1);
	}
	if ((wh.sendchunk != 0) && (n > wh.sendchunk))
		n = wh.sendchunk;
	if (wh.has_b && s == wh.fd_b) {
		if (wh.bsentlen + n > wh.bsentcap) {
			wh.bsentcap = (wh.bsentlen + n) * 2 + 64;
			if ((wh.bsent = __real_realloc(wh.bsent, wh.bsentcap)) == NULL)
				abort();
		}
		memcpy(wh.bsent + wh.bsentlen, buf, n);
		wh.bsentlen += n;
		stale_errno();
		return ((ssize_t)n);
	}
	if (wh.sentlen + n > wh.sentcap) {
		size_t ncap = (wh.sentlen + n) * 2 + 64;
		uint8_t * nb = __real_realloc(wh.sent, ncap);
		if (nb == NULL)
			abort();
		wh.sent = nb;
		wh.sentcap = ncap;
	}
	memcpy(wh.sent + wh.sentlen, buf, n);
	wh.sentlen += n;
	stale_errno();
	return ((ssize_t)n);
}
