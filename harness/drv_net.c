/* Driver for network_read/write/accept/connect and the netbuf reader/writer: the same case lines
 * as model/net_main.ml (see the grammar there), run against the real events*.c, network_*.c and
 * netbuf_*.c with the scripted kernel of wrap_net.c.  Every case runs in a forked child (cold
 * pools, crash isolation, LeakSanitizer verdict per case); the parent appends !SIG<n> / !LEAK /
 * !EXIT<n> when the child did not exit cleanly.  Tokens after "end" exist only on this side
 * (nfds=, allocs=, ...); areas/net.py cuts them off before the diff and checks them itself.
 *
 * Optional first token af=<k> (fail the k-th library allocation) or af=<k>p (and all later
 * ones).  In af=<k> mode a start/init/wait/reserve call that reports failure is retried once.
 *
 * "scx" instead of "sc" selects the CONTEXT TRANSPORT for the netbuf reader / writer of the case:
 * the objects are created with netbuf_read_init2(-1, &ctx) / netbuf_write_init2(-1, &ctx, ...), so
 * that netbuf_read.c / netbuf_write.c take their `if (R->ssl)` / `if (W->ssl)` branches and call
 * through netbuf_{read,write}_ssl_func / ..._cancel_func.  The transport plugged in there forwards
 * (buf, buflen, minlen, callback, cookie) unchanged to network_read / network_write on the
 * descriptor named by nri:<fd> / nwi:<fd> (the contract documented for the TLS layer: "behave as
 * network_read, but take a context instead of a descriptor"); no allocation, no logging of its
 * own.  Everything else is identical, so the log of a scenario is the same in both modes.
 *
 * BUILD CONFIGURATIONS: areas/net.py builds this driver twice - as the host selects (MSG_NOSIGNAL
 * passed to send) and with network_write.c compiled -DPOSIXFAIL_MSG_NOSIGNAL on a host made to look
 * as if it had no MSG_NOSIGNAL (harness/net_no_msg_nosignal.h: the documented workaround
 * configuration: flag 0, SIGPIPE ignored around send, errno saved over the restoring signal()).
 * The case lines, the model and the expected logs are the same for both; the tokens
 * "sends= nosig= ign= sigrest=" after "end" say how send() was called. */
#include <sys/types.h>
#include <sys/socket.h>
#include <sys/wait.h>
#include <sys/mman.h>
#if defined(__linux__) && !defined(MAP_ANONYMOUS)	/* hidden by the strict feature-test macros of the build */
#define MAP_ANONYMOUS 0x20
#endif
#if defined(__linux__) && !defined(MAP_NORESERVE)
#define MAP_NORESERVE 0x4000
#endif
#include <netinet/in.h>
#include <assert.h>
#include <errno.h>
#include <unistd.h>

#define DRV_NO_LINE_WATCHDOG 1
#include "drv_common.h"
#include "events.h"
#include "network.h"
#include "netbuf.h"
#include "netbuf_ssl_internal.h"
#include "sock_internal.h"

void * __real_malloc(size_t);
void __real_free(void *);
void * __real_realloc(void *, size_t);

/* wrap_net.c */
void fk_log(const char * fmt, ...);
int __lsan_do_recoverable_leak_check(void);
void fk_fill(uint8_t *, int, size_t, size_t);
void fk_show(char *, const uint8_t *, size_t);
void fk_register_buf(int, const void *, size_t);
void fk_register_hugebuf(int, const void *, size_t);
int fk_feed(int, int, const char *);
void fk_trailer(void);
void fk_send_stats(unsigned long *, unsigned long *, unsigned long *, int *);
void fk_set_outcomes(const char *);
int fk_open_sockets(void);
size_t fk_live_blocks(void);
int fk_is_live(const void *);
int fk_sock_ord(int);
int fk_cur_later(void);
void fk_cur_writable(void);
void fk_advance_ms(long);
extern unsigned long fk_activity, fk_alloc_count, fk_last_nfds, fk_fail_total;
extern long fk_fail_at;
extern int fk_fail_persist, fk_fail_hit, fk_cur, fk_accept_id[64], fk_ctx, fk_fail_where;

/* ------------------------------------------------------------------ script */
enum { O_READ, O_WRITE, O_ACCEPT, O_CANCEL, O_FEED, O_RUN, O_NRI, O_NRW, O_NRC, O_NRX, O_NRP,
       O_NWI, O_NWW, O_NWR, O_NWC, O_NRH, O_NWO };
struct op { int kind; long a, b, c, d; int lo, hi; char * evs; size_t pos; int who; int huge; size_t hlen, hmin; };
#define MAXOPS 512
static struct op ops[MAXOPS]; static int nops;

struct ureq { int id, kind, fd, pending, lo, hi; uint8_t * buf; size_t buflen; void * cookie; int returned; int huge; };
#define MAXREQ 128
static struct ureq reqs[MAXREQ]; static int nreqs;

static struct netbuf_read * NR; static int nr_fd, nr_waiting, nr_lo, nr_hi;
/* buffered writers: verbs nwi/nww/nwr/nwc/nwo act on writer 0, mwi/mww/mwr/mwc/mwo on writer 1 (a second
 * writer on another descriptor, alive at the same time: a relay reserves space in several outgoing
 * connections, fills them, then consumes).  Each writer's bytes are pattern(200, pos) of its own
 * stream position (nwo:/mwo:<pos> sets it), so the two streams differ; areas/net.py projects the
 * log on each writer and compares with the model's run of that writer alone. */
struct wrt { struct netbuf_write * W; int reserved, nfail; uint8_t * resptr; size_t reslen; };
static struct wrt wrs[2];
#define WPFX(k) ((k) ? 'm' : 'n')
static int incb;			/* depth of user callbacks */
static int af_single;			/* af=<k> mode without 'p': retry failed registrations once */
static int run_failed;			/* events_run returned non-zero */

/* ------------------------------------------------------------------ context transport ("scx") */
/* struct network_ssl_ctx is an incomplete type in the library headers; this is our stand-in */
struct network_ssl_ctx { int fd; };
static struct network_ssl_ctx ctx_r = { -1 }, ctx_w[2] = { { -1 }, { -1 } };
static int use_ctx;			/* this case runs the netbuf objects over the context transport */

static void * ctx_read(struct network_ssl_ctx * c, uint8_t * buf, size_t buflen, size_t minlen,
    int (* callback)(void *, ssize_t), void * cookie)
{
	return network_read(c->fd, buf, buflen, minlen, callback, cookie);
}
static void ctx_read_cancel(void * cookie) { network_read_cancel(cookie); }
static void * ctx_write(struct network_ssl_ctx * c, const uint8_t * buf, size_t buflen, size_t minlen,
    int (* callback)(void *, ssize_t), void * cookie)
{
	return network_write(c->fd, buf, buflen, minlen, callback, cookie);
}
static void ctx_write_cancel(void * cookie) { network_write_cancel(cookie); }
static void ctx_install(void)
{
	netbuf_read_ssl_func = ctx_read; netbuf_read_ssl_cancel_func = ctx_read_cancel;
	netbuf_write_ssl_func = ctx_write; netbuf_write_ssl_cancel_func = ctx_write_cancel;
}

/* a full-width size_t (nrh:<len>: wait lengths that no allocator can satisfy) */
static size_t bignum(const char * s, int * bad) { char * e; unsigned long long v; if (*s < '0' || *s > '9') { *bad = 1; return 0; } errno = 0; v = strtoull(s, &e, 10); if (*e != 0 || errno != 0) *bad = 1; return (size_t)v; }
static long num(const char * s, int * bad) { char * e; long v = strtol(s, &e, 10); if (*s == 0 || *e != 0 || v < 0 || v > 2000000) *bad = 1; return v; }

/* split "a:b:c" in place */
static int fields(char * t, char ** f, int max)
{
	int n = 0; char * p = t;
	f[n++] = p;
	while (*p) { if (*p == ':' && n < max) { *p = 0; f[n++] = p + 1; } p++; }
	return n;
}

static size_t app_pos;

/* parse tokens [*i ..) into ops until "}" (inside a block) or the end; returns -1 on error */
static int parse_ops(char ** tok, int ntok, int * i, int top)
{
	while (*i < ntok) {
		char * t = tok[*i]; char * f[6]; int nf, bad = 0, blockable = 0; struct op * o;
		if (strcmp(t, "}") == 0) { if (top) return -1; (*i)++; return 0; }
		if (nops == MAXOPS) return -1;
		o = &ops[nops]; memset(o, 0, sizeof(*o)); o->lo = o->hi = nops + 1;
		(*i)++;
		if (strcmp(t, "run") == 0) o->kind = O_RUN;
		else if (strcmp(t, "nrx") == 0) o->kind = O_NRX;
		else if (strcmp(t, "nrp") == 0) o->kind = O_NRP;
		else {
			nf = fields(t, f, 6);
			if (nf == 5 && strcmp(f[0], "r") == 0) { o->kind = O_READ; o->a = num(f[1], &bad); o->b = num(f[2], &bad); o->c = num(f[3], &bad); o->d = num(f[4], &bad); if (o->c == 0) bad = 1; blockable = 1; }
			else if (nf == 5 && strcmp(f[0], "w") == 0) { o->kind = O_WRITE; o->a = num(f[1], &bad); o->b = num(f[2], &bad); o->c = num(f[3], &bad); o->d = num(f[4], &bad); if (o->c == 0) bad = 1; blockable = 1; }
			/* R: / W: a request over a buffer of gigabytes (buflen, min: full-width numbers).  The buffer is an
			 * inaccessible, unreserved mapping; the scripted recv / send move the counts and leave it alone */
			else if (nf == 5 && (strcmp(f[0], "R") == 0 || strcmp(f[0], "W") == 0)) { o->kind = f[0][0] == 'R' ? O_READ : O_WRITE; o->huge = 1; o->a = num(f[1], &bad); o->b = num(f[2], &bad); o->hlen = bignum(f[3], &bad); o->hmin = bignum(f[4], &bad); if (o->hlen == 0 || o->hlen > ((size_t)1 << 40) || o->hmin > o->hlen) bad = 1; blockable = 1; }
			else if (nf == 3 && strcmp(f[0], "a") == 0) { o->kind = O_ACCEPT; o->a = num(f[1], &bad); o->b = num(f[2], &bad); blockable = 1; }
			else if (nf == 2 && strcmp(f[0], "x") == 0) { o->kind = O_CANCEL; o->a = num(f[1], &bad); }
			else if (nf == 4 && strcmp(f[0], "k") == 0 && top && (strcmp(f[2], "r") == 0 || strcmp(f[2], "w") == 0)) { o->kind = O_FEED; o->a = num(f[1], &bad); o->b = (f[2][0] == 'w'); o->evs = f[3]; }
			else if (nf == 2 && strcmp(f[0], "nri") == 0) { o->kind = O_NRI; o->a = num(f[1], &bad); }
			else if (nf == 2 && strcmp(f[0], "nrw") == 0) { o->kind = O_NRW; o->a = num(f[1], &bad); blockable = 1; }
			else if (nf == 2 && strcmp(f[0], "nrh") == 0) { o->kind = O_NRH; o->pos = bignum(f[1], &bad); }
			else if (nf == 2 && strcmp(f[0], "nrc") == 0) { o->kind = O_NRC; o->a = num(f[1], &bad); }
			else if (nf == 2 && (f[0][0] == 'n' || f[0][0] == 'm') && f[0][1] == 'w' && strlen(f[0]) == 3 && strchr("iwrco", f[0][2]) != NULL && top) {
				o->who = (f[0][0] == 'm'); o->a = num(f[1], &bad);
				o->kind = f[0][2] == 'i' ? O_NWI : f[0][2] == 'w' ? O_NWW : f[0][2] == 'r' ? O_NWR : f[0][2] == 'c' ? O_NWC : O_NWO;
			}
			else bad = 1;
			if (bad) return -1;
			/* script descriptors live below the fake sockets of wrap_net.c */
			if ((o->kind == O_READ || o->kind == O_WRITE || o->kind == O_ACCEPT) && o->b >= 20) return -1;
			if ((o->kind == O_FEED || o->kind == O_NRI || o->kind == O_NWI) && o->a >= 20) return -1;
		}
		nops++;
		if (blockable && *i < ntok && strcmp(tok[*i], "{") == 0) {
			(*i)++;
			o->lo = nops;
			if (parse_ops(tok, ntok, i, 0)) return -1;
			o->hi = nops;
		}
	}
	return top ? 0 : -1;
}

static void exec_range(int lo, int hi);

static void show_buf(char * out, const uint8_t * p, size_t n) { fk_show(out, p, n); }

/* network.h lends the buffer of a read / write to the library until the callback is invoked or the
 * request is cancelled.  From then on it is the caller's: the driver overwrites it at once (for a
 * read: after having reported what arrived) and checks at the end of the case that nobody has
 * written to it since (" !BUFTOUCH<id>"); a write that is still being served from the old address
 * puts the overwritten bytes on the wire. */
static void buf_returned(struct ureq * u)
{
	if (u->buf == NULL || u->huge) return;
	memset(u->buf, DRV_SCRIBBLE, u->buflen);
	u->returned = 1;
}
static void bufs_check(void)
{
	int k; size_t j;
	for (k = 0; k < nreqs; k++) {
		if (!reqs[k].returned) continue;
		for (j = 0; j < reqs[k].buflen; j++)
			if (reqs[k].buf[j] != DRV_SCRIBBLE) { printf(" !BUFTOUCH%d", reqs[k].id); break; }
	}
}

static int cb_rw(void * cookie, ssize_t v)
{
	struct ureq * u = cookie; char sh[64];
	fk_activity++;
	if (u->kind == O_READ && u->huge) fk_log("cb%d=%zd:untouched", u->id, v);
	else if (u->kind == O_READ) { show_buf(sh, u->buf, u->buflen); fk_log("cb%d=%zd:%s", u->id, v, sh); }
	else fk_log("cb%d=%zd", u->id, v);
	buf_returned(u);
	u->pending = 0;
	incb++; exec_range(u->lo, u->hi); incb--;
	return 0;
}
static int cb_acc(void * cookie, int s)
{
	struct ureq * u = cookie;
	fk_activity++;
	fk_log("cb%d=%d", u->id, s < 0 ? -1 : fk_sock_ord(s));
	u->pending = 0;
	incb++; exec_range(u->lo, u->hi); incb--;
	return 0;
}
static void log_peek(const char * what)
{
	uint8_t * p; size_t n; char sh[64];
	netbuf_read_peek(NR, &p, &n); fk_show(sh, p, n); fk_log("%s%zu:%s", what, n, sh);
}
static int cb_nr(void * cookie, int status)
{
	int lo = nr_lo, hi = nr_hi; char pre[32];
	(void)cookie;
	fk_activity++;
	nr_waiting = 0; nr_lo = nr_hi = 0;
	sprintf(pre, "nrcb=%d:", status); log_peek(pre);
	incb++; exec_range(lo, hi); incb--;
	return 0;
}
static int cb_fail(void * cookie) { struct wrt * w = cookie; fk_activity++; w->nfail++; fk_log(w == &wrs[1] ? "mfail" : "fail"); return 0; }

static void run_events(void)
{
	unsigned long a; int rc, guard = 0, ctx = fk_ctx;
	fk_ctx = -2;
	do {
		a = fk_activity;
		rc = events_run();
		if (rc != 0) { fk_log("run=%d", rc); run_failed = 1; break; }
	} while (fk_activity != a && ++guard < 100000);
	fk_ctx = ctx;
}

/* the refusal hit during op i (outside the event loop) */
static int hit(int i) { (void)i; if (fk_fail_hit) { fk_fail_hit = 0; return 1; } return 0; }

static void start_req(int i, struct op * o)
{
	struct ureq * u; int tries = 0;
	if (nreqs == MAXREQ) { fk_log("skip"); return; }
	u = &reqs[nreqs++]; memset(u, 0, sizeof(*u));
	u->id = (int)o->a; u->kind = o->kind; u->fd = (int)o->b; u->lo = o->lo; u->hi = o->hi;
	if (o->huge) {
		u->huge = 1; u->buflen = o->hlen;
		u->buf = mmap(NULL, u->buflen, PROT_NONE, MAP_PRIVATE | MAP_ANONYMOUS | MAP_NORESERVE, -1, 0);
		if (u->buf == MAP_FAILED) { u->buf = NULL; nreqs--; fk_log("skip"); return; }
		fk_register_hugebuf(u->id, u->buf, u->buflen);
	} else if (o->kind != O_ACCEPT) {
		u->buflen = (size_t)o->c; u->buf = __real_malloc(u->buflen);
		if (o->kind == O_READ) memset(u->buf, 0xee, u->buflen); else fk_fill(u->buf, 100 + u->id, 0, u->buflen);
		fk_register_buf(u->id, u->buf, u->buflen);
	}
again:
	fk_fail_hit = 0;
	if (o->kind == O_READ) u->cookie = network_read(u->fd, u->buf, u->buflen, o->huge ? o->hmin : (size_t)o->d, cb_rw, u);
	else if (o->kind == O_WRITE) u->cookie = network_write(u->fd, u->buf, u->buflen, o->huge ? o->hmin : (size_t)o->d, cb_rw, u);
	else u->cookie = network_accept(u->fd, cb_acc, u);
	u->pending = (u->cookie != NULL);
	if (o->kind == O_ACCEPT && u->pending && u->fd < 64) fk_accept_id[u->fd] = u->id;
	fk_log("%s%d=%s", o->kind == O_READ ? "r" : o->kind == O_WRITE ? "w" : "a", u->id, u->pending ? "ok" : "null");
	if (hit(i) && !u->pending && af_single && tries++ == 0) goto again;
}

static void cancel_req(struct ureq * u)
{
	if (u->kind == O_READ) network_read_cancel(u->cookie);
	else if (u->kind == O_WRITE) network_write_cancel(u->cookie);
	else network_accept_cancel(u->cookie);
	buf_returned(u);
	u->pending = 0;
}

static void exec_op(int i)
{
	struct op * o = &ops[i]; int k, rc, tries = 0; char * p; char * q; struct wrt * w = &wrs[o->who];
	switch (o->kind) {
	case O_READ: case O_WRITE: case O_ACCEPT: start_req(i, o); break;
	case O_CANCEL:
		for (k = 0; k < nreqs; k++) if (reqs[k].id == (int)o->a && reqs[k].pending) break;
		if (k == nreqs) { fk_log("skip"); break; }
		cancel_req(&reqs[k]); fk_log("x%d", (int)o->a);
		break;
	case O_FEED:
		for (p = o->evs; p && *p; p = q) {
			char save;
			q = p; while (*q && *q != ',') q++;
			save = *q; *q = 0;
			fk_feed((int)o->a, (int)o->b, p);
			*q = save; if (*q) q++;
		}
		break;
	case O_RUN:
		if (incb || wrs[0].reserved || wrs[1].reserved) { fk_log("skip"); break; }
		run_events();
		break;
	case O_NRI:
		if (NR != NULL) { fk_log("skip"); break; }
	nri_again:
		fk_fail_hit = 0;
		if (use_ctx) { ctx_r.fd = (int)o->a; NR = netbuf_read_init2(-1, &ctx_r); }
		else NR = netbuf_read_init((int)o->a);
		nr_fd = (int)o->a;
		fk_log("nri=%s", NR ? "ok" : "null");
		if (hit(i) && NR == NULL && af_single && tries++ == 0) goto nri_again;
		break;
	case O_NRW:
		if (NR == NULL || nr_waiting) { fk_log("skip"); break; }
	nrw_again:
		fk_fail_hit = 0;
		rc = netbuf_read_wait(NR, (size_t)o->a, cb_nr, NULL);
		fk_log("nrw%ld=%d", o->a, rc);
		if (rc == 0) { nr_waiting = 1; nr_lo = o->lo; nr_hi = o->hi; }
		if (hit(i) && rc != 0 && af_single && tries++ == 0) goto nrw_again;
		break;
	case O_NRH:
		/* netbuf_read_wait for a length whose buffer cannot exist (>= 2^47 bytes: the allocator - the
		 * real one, nothing is injected - refuses it): the documented outcome is -1, no callback
		 * ever, and a reader that goes on working.  Logged under its own name: the model's lengths
		 * are unary numbers, areas/net.py judges these tokens itself. */
		if (NR == NULL || nr_waiting) { fk_log("nrh%zu=skip", o->pos); break; }
		rc = netbuf_read_wait(NR, o->pos, cb_nr, NULL);
		fk_log("nrh%zu=%d", o->pos, rc);
		if (rc == 0) { nr_waiting = 1; nr_lo = nr_hi = 0; }
		break;
	case O_NRC: {
		uint8_t * d; size_t n, j;
		if (NR == NULL) { fk_log("skip"); break; }
		netbuf_read_peek(NR, &d, &n); j = (size_t)o->a < n ? (size_t)o->a : n;
		netbuf_read_consume(NR, j); fk_log("nrc%zu", j);
		break; }
	case O_NRX:
		if (NR == NULL) { fk_log("skip"); break; }
		netbuf_read_wait_cancel(NR); nr_waiting = 0; nr_lo = nr_hi = 0; fk_log("nrx");
		break;
	case O_NRP:
		if (NR == NULL) { fk_log("skip"); break; }
		log_peek("peek=");
		break;
	case O_NWO: break;	/* stream position: applied by clamp_consumes */
	case O_NWI:
		if (w->W != NULL) { fk_log("skip"); break; }
	nwi_again:
		fk_fail_hit = 0;
		if (use_ctx) { ctx_w[o->who].fd = (int)o->a; w->W = netbuf_write_init2(-1, &ctx_w[o->who], cb_fail, w); }
		else w->W = netbuf_write_init((int)o->a, cb_fail, w);
		fk_log("%cwi=%s", WPFX(o->who), w->W ? "ok" : "null");
		if (hit(i) && w->W == NULL && af_single && tries++ == 0) goto nwi_again;
		break;
	case O_NWW: {
		uint8_t * d;
		if (w->W == NULL || w->reserved) { fk_log("skip"); break; }
		d = __real_malloc(o->a ? (size_t)o->a : 1); fk_fill(d, 200, o->pos, (size_t)o->a);
		fk_fail_hit = 0;
		rc = netbuf_write_write(w->W, d, (size_t)o->a);
		fk_log("%cww%ld=%d", WPFX(o->who), o->a, rc);
		hit(i);
		/* netbuf.h: "write buflen bytes from buf via the buffered writer" - nothing is lent */
		drv_scribble(d, (size_t)o->a); __real_free(d);
		break; }
	case O_NWR:
		if (w->W == NULL || w->reserved) { fk_log("skip"); break; }
	nwr_again:
		fk_fail_hit = 0;
		w->resptr = netbuf_write_reserve(w->W, (size_t)o->a);
		fk_log("%cwr%ld=%s", WPFX(o->who), o->a, w->resptr ? "ok" : "null");
		if (w->resptr) { w->reserved = 1; w->reslen = (size_t)o->a; }
		if (hit(i) && w->resptr == NULL && af_single && tries++ == 0) goto nwr_again;
		break;
	case O_NWC:
		if (w->W == NULL || !w->reserved) { fk_log("skip"); break; }
		/* netbuf.h: the whole reservation is the caller's to write into, whatever part of it is
		 * consumed afterwards: the unconsumed rest is left holding junk */
		memset(w->resptr, DRV_SCRIBBLE, w->reslen);
		fk_fill(w->resptr, 200, o->pos, (size_t)o->a);
		fk_fail_hit = 0;
		rc = netbuf_write_consume(w->W, (size_t)o->a);
		w->reserved = 0;
		fk_log("%cwc%ld=%d", WPFX(o->who), o->a, rc);
		hit(i);
		break;
	}
}

static void exec_range(int lo, int hi)
{
	int i = lo;
	while (i < hi) {
		if (incb == 0) fk_ctx = i;
		exec_op(i);
		if (incb == 0) fk_ctx = -1;
		i = ops[i].hi > i + 1 ? ops[i].hi : i + 1;
	}
}

/* clamp every nwc to the reservation that will be active when it runs (parse order = run order) */
static void clamp_consumes(void)
{
	int i; long res[2] = { -1, -1 }; int nw[2] = { 0, 0 }; size_t pos[2] = { 0, 0 };
	for (i = 0; i < nops; i++) {
		struct op * o = &ops[i]; int k = o->who;
		if (o->kind == O_NWI) nw[k] = 1;
		else if (o->kind == O_NWO) pos[k] = (size_t)o->a;
		else if (o->kind == O_NWR) { if (nw[k] && res[k] < 0) res[k] = o->a; }
		else if (o->kind == O_NWC) { if (res[k] >= 0 && o->a > res[k]) o->a = res[k]; o->pos = pos[k]; pos[k] += (size_t)o->a; res[k] = -1; }
		else if (o->kind == O_NWW) { o->pos = pos[k]; pos[k] += (size_t)o->a; }
	}
}

static void tail_af(void)
{
	fk_log("allocs=%lu refused=%lu failop=%d", fk_alloc_count, fk_fail_total, fk_fail_where);
}

static void case_sc(char ** tok, int ntok)
{
	int i = 0, k;
	nops = 0; app_pos = 0;
	if (parse_ops(tok, ntok, &i, 1)) { fk_log("bad-case"); return; }
	clamp_consumes();
	exec_range(0, nops);
	/* trailer (same on the model side) */
	for (k = 0; k < nreqs; k++) if (reqs[k].pending) fk_log("pend%d", reqs[k].id);
	fk_trailer();
	if (NR != NULL) log_peek("peek=");
	if (wrs[0].W != NULL) fk_log("nfail=%d", wrs[0].nfail);
	if (wrs[1].W != NULL) fk_log("mnfail=%d", wrs[1].nfail);
	fk_log("end");
	/* cleanup: everything must be releasable with the normal cancel / free calls */
	for (k = 0; k < nreqs; k++) if (reqs[k].pending) cancel_req(&reqs[k]);
	if (NR != NULL) { netbuf_read_wait_cancel(NR); netbuf_read_free(NR); }
	if (wrs[0].W != NULL) netbuf_write_free(wrs[0].W);
	if (wrs[1].W != NULL) netbuf_write_free(wrs[1].W);
	fk_fail_at = 0;
	{ unsigned long a = fk_activity; events_run(); fk_log("nfds=%lu", fk_last_nfds); if (a != fk_activity) fk_log("late-activity"); }
	bufs_check();
	for (k = 0; k < nreqs; k++) { if (reqs[k].huge) munmap(reqs[k].buf, reqs[k].buflen); else __real_free(reqs[k].buf); }
	{
		/* how send() was called: judged by areas/net.py against the build configuration */
		unsigned long ns, nnosig, nign; int rest;
		fk_send_stats(&ns, &nnosig, &nign, &rest);
		fk_log("sends=%lu nosig=%lu ign=%lu sigrest=%d", ns, nnosig, nign, rest);
	}
	tail_af();
}

/* ------------------------------------------------------------------ connect */
static int conn_done, conn_cbs;
static int abandoned;	/* the case ended after a fatal event-loop error: account blocks at exit */
static void abandon_report(void)
{
	/* registered before the library registers its own atexit handlers, hence runs after them:
	 * what is still allocated now was leaked by the failed operation */
	if (abandoned && fk_live_blocks() != 0) { printf(" !LIVE%lu", (unsigned long)fk_live_blocks()); fflush(stdout); }
}
static int cb_conn(void * cookie, int s)
{
	(void)cookie;
	fk_activity++; conn_done = 1; conn_cbs++;
	fk_log("cb=%d", s < 0 ? -1 : fk_sock_ord(s));
	return 0;
}

static void case_conn(const char * timeo, const char * outs, const char * cops)
{
	struct sock_addr * sas[65]; struct sock_addr sa[64]; struct sockaddr_in sin[64];
	size_t n = strcmp(outs, "-") == 0 ? 0 : strlen(outs), i; void * C; struct timeval tv = { 10, 0 };
	int use_timeo = (timeo[0] == '1'), tries = 0;
	if (n > 64) { fk_log("bad-case"); return; }
	for (i = 0; i < n; i++) {
		if (strchr("SNFHABTKIJ", outs[i]) == NULL) { fk_log("bad-case"); return; }
		memset(&sin[i], 0, sizeof(sin[i])); sin[i].sin_family = AF_INET; sin[i].sin_port = htons((uint16_t)(1000 + i));
		sa[i].ai_family = AF_INET; sa[i].ai_socktype = 1000 + (int)i;
		sa[i].name = (struct sockaddr *)&sin[i]; sa[i].namelen = sizeof(sin[i]);
		sas[i] = &sa[i];
	}
	sas[n] = NULL;
	for (i = 0; cops[i] && strcmp(cops, "-") != 0; i++) if (strchr("srx", cops[i]) == NULL) { fk_log("bad-case"); return; }
	fk_set_outcomes(n ? outs : "");
again:
	fk_fail_hit = 0; fk_ctx = 0;
	C = use_timeo ? network_connect_timeo(sas, &tv, cb_conn, NULL) : network_connect(sas, cb_conn, NULL);
	fk_log("start=%s", C ? "ok" : "null");
	fk_ctx = -1;
	/* the timeout belongs to the caller again once the call has returned (network.h: the value is
	 * an argument, not an object the library may keep looking at): the caller re-uses it */
	tv.tv_sec = 86400 * 365; tv.tv_usec = 999999;
	if (hit(0) && C == NULL && af_single && tries++ == 0) { tv.tv_sec = 10; tv.tv_usec = 0; goto again; }
	if (C == NULL) conn_done = 1;
	for (i = 0; strcmp(cops, "-") != 0 && cops[i] && !conn_done; i++) {
		if (cops[i] == 'x') { network_connect_cancel(C); conn_done = 1; break; }
		switch (fk_cur_later()) {
		case 1: case 3: fk_cur_writable(); if (cops[i] == 'r' && use_timeo) fk_advance_ms(10001); break;
		case 2: if (use_timeo) fk_advance_ms(10001); break;
		default: break;
		}
		run_events();
		if (run_failed && !conn_done) {
			/* a fatal error inside the event loop: network_connect.c has freed its cookie
			 * (tryconnect / callback_connect free it on every fatal path) and will never
			 * call back; nothing more can be done with the cookie, but nothing may be
			 * leaked either: forget our pointer and let the per-case leak check look */
			fk_log("abandon"); fk_fail_at = 0;
			/* the error may also have come from the event loop itself with the attempt
			 * still pending: then the cookie is still allocated and cancelling is the
			 * documented way to release it.  (If network_connect.c gave up WITHOUT freeing
			 * it, this cancel acts on stale registrations and the sanitizer says so.) */
			if (fk_is_live(C)) { fk_log("cancel-after-abandon"); network_connect_cancel(C); }
			C = NULL;
			abandoned = 1;
			return;
		}
	}
	fk_log("fin=%s", conn_done ? "done" : "running");
	if (!conn_done) { network_connect_cancel(C); conn_done = 1; }
	/* the attempt is over (callback made, or cancelled): the address list it borrowed is the
	 * caller's again and is overwritten before the loop is run once more below */
	drv_scribble(sin, sizeof(sin)); drv_scribble(sa, sizeof(sa)); drv_scribble(sas, sizeof(sas));
	fk_log("open=%d", fk_open_sockets());
	fk_log("end");
	/* impl-only: nothing may be left behind (a stale timer or registration would fire here) */
	fk_fail_at = 0;
	{
		unsigned long a = fk_activity;
		fk_advance_ms(1000000); events_run(); events_run();
		fk_log("nfds=%lu cbs=%d", fk_last_nfds, conn_cbs);
		if (a != fk_activity) fk_log("late-activity");
	}
	tail_af();
}

/* ------------------------------------------------------------------ main: one forked child per case */
static void run_case(char * line)
{
	char * tok[1024]; int n = drv_split(line, tok, 1024), t0 = 0;
	if (n > 0 && strncmp(tok[0], "af=", 3) == 0) {
		char * e; fk_fail_at = strtol(tok[0] + 3, &e, 10); fk_fail_persist = (*e == 'p'); af_single = !fk_fail_persist && fk_fail_at > 0;
		t0 = 1;
	}
	if (n - t0 >= 1 && (strcmp(tok[t0], "sc") == 0 || strcmp(tok[t0], "scx") == 0)) {
		use_ctx = (tok[t0][2] == 'x');
		case_sc(tok + t0 + 1, n - t0 - 1);
	}
	else if (n - t0 == 4 && strcmp(tok[t0], "conn") == 0 && (strcmp(tok[t0 + 1], "0") == 0 || strcmp(tok[t0 + 1], "1") == 0))
		case_conn(tok[t0 + 1], tok[t0 + 2], tok[t0 + 3]);
	else fk_log("bad-case");
}

int main(void)
{
	char ** lines = NULL; size_t nl = 0, cap = 0, i; char * line;
	setvbuf(stdout, NULL, _IONBF, 0);
	ctx_install();
	while ((line = drv_getline()) != NULL) {
		if (nl == cap) { cap = cap ? cap * 2 : 256; lines = __real_realloc(lines, cap * sizeof(char *)); }
		lines[nl++] = strdup(line);
	}
	for (i = 0; i < nl; i++) {
		pid_t pid; int st = 0;
		fflush(stdout);
		pid = fork();
		if (pid == 0) {
			size_t k;
			atexit(abandon_report);
			drv_case_limits();
			run_case(lines[i]);
			if (__lsan_do_recoverable_leak_check()) fputs(" !LEAK", stdout);
			(void)k;
			fflush(stdout);
			if (abandoned) exit(0);	/* let the library's exit handlers run, then count what is left */
			_exit(0);	/* the leak verdict was taken above; pools are reachable, not leaked */
		}
		if (pid < 0) { printf("fork-failed\n"); continue; }
		while (waitpid(pid, &st, 0) < 0) ;
		if (WIFSIGNALED(st)) printf(" !SIG%d", WTERMSIG(st));
		else if (WIFEXITED(st) && WEXITSTATUS(st) != 0) printf(" !EXIT%d", WEXITSTATUS(st));
		printf("\n");
	}
	for (i = 0; i < nl; i++) __real_free(lines[i]);
	__real_free(lines);
	return 0;
}
