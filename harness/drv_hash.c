/* Driver for alg/sha256.c, alg/sha1.c, alg/md5.c (portable paths): same case lines and result
 * lines as model/hash_main.ml.  Every input lives in a malloc block of exactly its size (ASan).
 *
 *   sha256|sha1|md5 s <part>*                        Init, one Update per part, Final -> ok <digest> z|nz
 *   sha256|sha1|md5 b <msg>                          XXX_Buf                          -> ok <digest> -
 *   hmac-sha256|hmac-sha1|hmac-md5 s <key> <part>*   Init / Update* / Final           -> ok <digest> z|nz
 *   hmac-sha256|hmac-sha1|hmac-md5 b <key> <msg>     HMAC_XXX_Buf                     -> ok <digest> -
 *   pbkdf2 <passwd> <salt> <c hex> <dkLen>           PBKDF2_SHA256                    -> ok <bytes> -
 *   xform-sha256|xform-sha1|xform-md5 <state> <block>  one block through Update on a context whose
 *                                                    public state words were set by hand -> ok <state> -
 *   resume-sha256|resume-sha1|resume-md5 <state> <c0 hex> <c1 hex> <buf 64 bytes> <part>*
 *        the whole public context struct is written by hand (sha256: count = c0, c1 ignored;
 *        sha1/md5: count[0] = c0, count[1] = c1), then one Update per part, then Final
 *        -> ok <digest>/<64-bit bit count after each Update, 16 hex digits>/... z|nz
 * z = after Final every byte of the real context object is zero (the object is filled with 0xAA
 * before Init so that a missing wipe cannot go unnoticed).
 *
 * The driver is an uncooperative caller (drv_common.h): streaming cases run Init/Update/Final twice
 * on the same context object (digests must agree, "context-reuse-mismatch" otherwise); every part
 * and the HMAC key are overwritten and freed as soon as the call they were passed to has returned;
 * one-shot calls (XXX_Buf, HMAC_XXX_Buf, PBKDF2) are first made on the same buffers with flipped
 * contents; digests go to exact-size blocks that start as junk; an input that does not hold its
 * bytes after the call prints "input-modified" / "key-modified" in front of the result.
 */
/* single cases of this driver may run over gigabytes (the > 2^32-byte stream, the very long messages) */
#define DRV_LINE_CPU_S 300
#include "drv_common.h"
#include "sha256.h"
#include "sha1.h"
#include "md5.h"

static const char * zflag(const void * p, size_t n)
{
	const uint8_t * b = p; size_t i;
	for (i = 0; i < n; i++)
		if (b[i] != 0) return "nz";
	return "z";
}

static void result(const uint8_t * dg, size_t n, const char * flag)
{
	printf("ok "); drv_puthex(dg, n); printf(" %s\n", flag);
}

/* Init, one Update per part, Final - TWICE on the same context object (the second pass starts from
 * whatever the first Final left in it): both digests must agree and the object must be wiped after
 * each Final.  Every part is overwritten and freed as soon as its Update has returned; INITCALL does
 * the same with the HMAC key as soon as Init has returned (sha256.h: "with Klen bytes of key from K"
 * - the key is consumed by Init, nothing says it must outlive the call). */
#define STREAM(CTX, INITCALL, UPDATE, FINAL, DLEN, FIRST)				\
	do {										\
		CTX * c = malloc(sizeof(CTX)); uint8_t * dg = drv_outbuf(DLEN);		\
		uint8_t * dg2 = drv_outbuf(DLEN); int k, pass; const char * fl = "z";	\
		memset(c, 0xAA, sizeof(CTX));						\
		for (pass = 0; pass < 2; pass++) {					\
			INITCALL;							\
			for (k = (FIRST); k < n; k++) {					\
				size_t l; uint8_t * p = drv_unhex(tok[k], &l, 0);	\
				uint8_t * cp = drv_input_copy(p, l);			\
				UPDATE(c, p, l);					\
				drv_input_check(cp, p, l, "input-modified ");		\
				drv_scribble_free(p, l);				\
			}								\
			FINAL(pass ? dg2 : dg, c);					\
			if (strcmp(zflag(c, sizeof(CTX)), "z") != 0) fl = "nz";		\
		}									\
		if (memcmp(dg, dg2, DLEN) != 0) printf("context-reuse-mismatch ");	\
		result(dg, DLEN, fl);							\
		free(c); free(dg); free(dg2);						\
	} while (0)

#define HKEY_INIT(INIT)									\
	do {										\
		size_t kl_; uint8_t * key_ = drv_unhex(tok[2], &kl_, 0);		\
		INIT(c, key_, kl_);							\
		drv_scribble_free(key_, kl_);						\
	} while (0)

/* One-shot functions are stateless: the call is made twice on the SAME buffers - first with every
 * byte flipped (result discarded), then with the real contents put back. */
#define ONESHOT(BUF, DLEN)								\
	do {										\
		size_t l; uint8_t * p = drv_unhex(tok[2], &l, 0);			\
		uint8_t * dg = drv_outbuf(DLEN); uint8_t * cp;				\
		drv_flip(p, l); BUF(p, l, dg); drv_flip(p, l); drv_junk(dg, DLEN);	\
		cp = drv_input_copy(p, l);						\
		BUF(p, l, dg);								\
		drv_input_check(cp, p, l, "input-modified ");				\
		drv_scribble_free(p, l);						\
		result(dg, DLEN, "-");							\
		free(dg);								\
	} while (0)

#define HMAC_ONESHOT(BUF, DLEN)								\
	do {										\
		size_t kl, l; uint8_t * key = drv_unhex(tok[2], &kl, 0);		\
		uint8_t * p = drv_unhex(tok[3], &l, 0);					\
		uint8_t * dg = drv_outbuf(DLEN); uint8_t * cp, * ck;			\
		drv_flip(key, kl); drv_flip(p, l); BUF(key, kl, p, l, dg);		\
		drv_flip(key, kl); drv_flip(p, l); drv_junk(dg, DLEN);			\
		cp = drv_input_copy(p, l); ck = drv_input_copy(key, kl);		\
		BUF(key, kl, p, l, dg);							\
		drv_input_check(cp, p, l, "input-modified ");				\
		drv_input_check(ck, key, kl, "key-modified ");				\
		drv_scribble_free(key, kl); drv_scribble_free(p, l);			\
		result(dg, DLEN, "-");							\
		free(dg);								\
	} while (0)

static void put_words_be(const uint32_t * w, size_t nw)
{
	uint8_t b[32]; size_t i;
	for (i = 0; i < nw; i++) {
		b[4*i] = (uint8_t)(w[i] >> 24); b[4*i+1] = (uint8_t)(w[i] >> 16);
		b[4*i+2] = (uint8_t)(w[i] >> 8); b[4*i+3] = (uint8_t)w[i];
	}
	result(b, 4 * nw, "-");
}

static void get_words_be(const uint8_t * b, uint32_t * w, size_t nw)
{
	size_t i;
	for (i = 0; i < nw; i++)
		w[i] = ((uint32_t)b[4*i] << 24) | ((uint32_t)b[4*i+1] << 16) | ((uint32_t)b[4*i+2] << 8) | b[4*i+3];
}

#define RESUME(CTX, NW, SETCOUNT, GETCOUNT, UPDATE, FINAL, DLEN)			\
	do {										\
		size_t sl, bl; uint8_t * st = drv_unhex(tok[1], &sl, 0);		\
		uint8_t * bf = drv_unhex(tok[4], &bl, 0);				\
		uint64_t c0 = strtoull(tok[2], NULL, 16), c1 = strtoull(tok[3], NULL, 16);	\
		CTX * c = malloc(sizeof(CTX)); uint8_t * dg = drv_outbuf(DLEN); int k;	\
		if (sl != 4 * (NW) || bl != 64) { printf("bad-case\n"); free(st); free(bf); free(c); free(dg); break; } \
		memset(c, 0xAA, sizeof(CTX));						\
		get_words_be(st, c->state, NW); memcpy(c->buf, bf, 64); SETCOUNT;	\
		(void)c0; (void)c1;							\
		printf("ok ");								\
		{ char * save = malloc(17 * (size_t)n + 1); size_t pos = 0;		\
		for (k = 5; k < n; k++) {						\
			size_t l; uint8_t * p = drv_unhex(tok[k], &l, 0);		\
			UPDATE(c, p, l);						\
			pos += (size_t)sprintf(save + pos, "/%016llx", (unsigned long long)(GETCOUNT)); \
			drv_scribble_free(p, l);					\
		}									\
		save[pos] = 0;								\
		FINAL(dg, c);								\
		drv_puthex(dg, DLEN); printf("%s %s\n", save, zflag(c, sizeof(CTX)));	\
		free(save); }								\
		free(st); free(bf); free(c); free(dg);					\
	} while (0)

int main(void)
{
	char * line; char ** tok = NULL; size_t tokcap = 0;
	setvbuf(stdout, NULL, _IOLBF, 0);
	while ((line = drv_getline()) != NULL) {
		size_t need = strlen(line) / 2 + 4;
		int n;
		if (need > tokcap) { free(tok); tok = malloc(need * sizeof(char *)); tokcap = need; }
		n = drv_split(line, tok, (int)tokcap);
		if (n >= 2 && strcmp(tok[1], "s") == 0 && strcmp(tok[0], "sha256") == 0)
			STREAM(SHA256_CTX, SHA256_Init(c), SHA256_Update, SHA256_Final, 32, 2);
		else if (n >= 2 && strcmp(tok[1], "s") == 0 && strcmp(tok[0], "sha1") == 0)
			STREAM(SHA1_CTX, SHA1_Init(c), SHA1_Update, SHA1_Final, 20, 2);
		else if (n >= 2 && strcmp(tok[1], "s") == 0 && strcmp(tok[0], "md5") == 0)
			STREAM(MD5_CTX, MD5_Init(c), MD5_Update, MD5_Final, 16, 2);
		else if (n == 3 && strcmp(tok[1], "b") == 0 && strcmp(tok[0], "sha256") == 0)
			ONESHOT(SHA256_Buf, 32);
		else if (n == 3 && strcmp(tok[1], "b") == 0 && strcmp(tok[0], "sha1") == 0)
			ONESHOT(SHA1_Buf, 20);
		else if (n == 3 && strcmp(tok[1], "b") == 0 && strcmp(tok[0], "md5") == 0)
			ONESHOT(MD5_Buf, 16);
		else if (n >= 3 && strcmp(tok[1], "s") == 0 && strncmp(tok[0], "hmac-", 5) == 0) {
			if (strcmp(tok[0], "hmac-sha256") == 0)
				STREAM(HMAC_SHA256_CTX, HKEY_INIT(HMAC_SHA256_Init), HMAC_SHA256_Update, HMAC_SHA256_Final, 32, 3);
			else if (strcmp(tok[0], "hmac-sha1") == 0)
				STREAM(HMAC_SHA1_CTX, HKEY_INIT(HMAC_SHA1_Init), HMAC_SHA1_Update, HMAC_SHA1_Final, 20, 3);
			else if (strcmp(tok[0], "hmac-md5") == 0)
				STREAM(HMAC_MD5_CTX, HKEY_INIT(HMAC_MD5_Init), HMAC_MD5_Update, HMAC_MD5_Final, 16, 3);
			else
				printf("bad-case\n");
		} else if (n == 4 && strcmp(tok[1], "b") == 0 && strcmp(tok[0], "hmac-sha256") == 0)
			HMAC_ONESHOT(HMAC_SHA256_Buf, 32);
		else if (n == 4 && strcmp(tok[1], "b") == 0 && strcmp(tok[0], "hmac-sha1") == 0)
			HMAC_ONESHOT(HMAC_SHA1_Buf, 20);
		else if (n == 4 && strcmp(tok[1], "b") == 0 && strcmp(tok[0], "hmac-md5") == 0)
			HMAC_ONESHOT(HMAC_MD5_Buf, 16);
		else if (n == 5 && strcmp(tok[0], "pbkdf2") == 0) {
			size_t pl, sl; uint8_t * pw = drv_unhex(tok[1], &pl, 0); uint8_t * salt = drv_unhex(tok[2], &sl, 0);
			uint64_t c = strtoull(tok[3], NULL, 16);
			size_t dk = (size_t)strtoull(tok[4], NULL, 10);
			uint8_t * out = drv_outbuf(dk);
			/* same buffers, other contents, one iteration: whatever is remembered about them is stale */
			if (c > 0) {
				drv_flip(pw, pl); drv_flip(salt, sl);
				PBKDF2_SHA256(pw, pl, salt, sl, 1, out, dk);
				drv_flip(pw, pl); drv_flip(salt, sl); drv_junk(out, dk);
			}
			PBKDF2_SHA256(pw, pl, salt, sl, c, out, dk);
			drv_scribble_free(pw, pl); drv_scribble_free(salt, sl);
			result(out, dk, "-");
			free(out);
		} else if (n == 3 && strncmp(tok[0], "xform-", 6) == 0) {
			size_t sl, bl; uint8_t * st = drv_unhex(tok[1], &sl, 0); uint8_t * blk = drv_unhex(tok[2], &bl, 0);
			if (strcmp(tok[0], "xform-sha256") == 0 && sl == 32 && bl == 64) {
				SHA256_CTX c; memset(&c, 0xAA, sizeof(c)); c.count = 0; get_words_be(st, c.state, 8);
				SHA256_Update(&c, blk, 64); put_words_be(c.state, 8);
			} else if (strcmp(tok[0], "xform-sha1") == 0 && sl == 20 && bl == 64) {
				SHA1_CTX c; memset(&c, 0xAA, sizeof(c)); c.count[0] = c.count[1] = 0; get_words_be(st, c.state, 5);
				SHA1_Update(&c, blk, 64); put_words_be(c.state, 5);
			} else if (strcmp(tok[0], "xform-md5") == 0 && sl == 16 && bl == 64) {
				MD5_CTX c; memset(&c, 0xAA, sizeof(c)); c.count[0] = c.count[1] = 0; get_words_be(st, c.state, 4);
				MD5_Update(&c, blk, 64); put_words_be(c.state, 4);
			} else
				printf("bad-case\n");
			free(st); free(blk);
		} else if (n >= 5 && strcmp(tok[0], "resume-sha256") == 0)
			RESUME(SHA256_CTX, 8, c->count = c0, c->count, SHA256_Update, SHA256_Final, 32);
		else if (n >= 5 && strcmp(tok[0], "resume-sha1") == 0)
			RESUME(SHA1_CTX, 5, (c->count[0] = (uint32_t)c0, c->count[1] = (uint32_t)c1),
			    ((uint64_t)c->count[0] << 32) | c->count[1], SHA1_Update, SHA1_Final, 20);
		else if (n >= 5 && strcmp(tok[0], "resume-md5") == 0)
			RESUME(MD5_CTX, 4, (c->count[0] = (uint32_t)c0, c->count[1] = (uint32_t)c1),
			    ((uint64_t)c->count[1] << 32) | c->count[0], MD5_Update, MD5_Final, 16);
		else
			printf("bad-case\n");
	}
	free(tok);
	return 0;
}
