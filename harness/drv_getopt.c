/* Driver for util/getopt.c: same case lines as model/getopt_main.ml.
 *   case:  P | P | ...           (parses run one after another, optreset = 1 before each)
 *     P = api <miss|-> <stop|-> <nslots> <slot>... <argc> <arg>...     back-end API
 *     P = sw <k> <stop|-> <argc> <arg>...                              compiled GETOPT_SWITCH loop k
 *   result: R | R | ...   R = <ev>,<ev>,...;<optind|stopped>  or assert (abort() was called)
 *     (a string of more than 1024 bytes is shown as ~<length>.<FNV-1a-32 of its bytes>)
 * Every argv string and option name lives in a malloc of exactly strlen+1 bytes. */
#include <setjmp.h>
#include <signal.h>

#include "drv_common.h"
#include "getopt.h"

#define MAXTOK 512
static void * allocs[MAXTOK + 8];
static size_t nallocs;
static sigjmp_buf abort_env;
static int first_ev;

static void * keep(void * p) { allocs[nallocs++] = p; return p; }
static void release(void) { while (nallocs > 0) free(allocs[--nallocs]); }
static void on_abort(int sig) { (void)sig; siglongjmp(abort_env, 1); }

static char * mkstr(const char * hex)
{
	size_t len;
	return (char *)keep(drv_unhex(hex, &len, 1));
}

/* output of the current parse is collected here and printed only if the parse did not abort */
static char pbuf[1 << 16];
static size_t plen;
static void pb_putc(char c) { if (plen + 1 < sizeof(pbuf)) pbuf[plen++] = c; }
static void pb_puts(const char * s) { while (*s) pb_putc(*s++); }
static void sep(void) { if (!first_ev) pb_putc(','); first_ev = 0; }
static void puts_hex(const char * s)
{
	static const char hd[] = "0123456789abcdef";
	size_t n = strlen(s);
	if (*s == 0) { pb_putc('-'); return; }
	if (n > 1024) {		/* a very long string: ~<length>.<FNV-1a-32 of its bytes> */
		char num[48];
		snprintf(num, sizeof(num), "~%zu.%08x", n, (unsigned)drv_case_hash(s));
		pb_puts(num);
		return;
	}
	for (; *s; s++) { pb_putc(hd[((unsigned char)*s) >> 4]); pb_putc(hd[((unsigned char)*s) & 15]); }
}
static void ev1(char tag, const char * os) { sep(); pb_putc(tag); pb_putc(':'); puts_hex(os); }
static void ev2(const char * os, const char * arg) { sep(); pb_puts("A:"); puts_hex(os); pb_putc(':'); puts_hex(arg); }
/* a label of a compiled switch: report the label's own literal; X if ch is a different string */
static void lbl(char tag, const char * lit, const char * ch)
{
	if (strcmp(lit, ch) != 0) { ev1('X', ch); return; }
	if (tag == 'A') ev2(lit, optarg); else ev1(tag, lit);
}

static void finish(int stopped)
{
	char num[32];
	if (first_ev) pb_puts("none");
	if (stopped) pb_puts(";stopped"); else { snprintf(num, sizeof(num), ";%d", optind); pb_puts(num); }
}

/* Start of a parse.  getopt.h: the state is re-initialised on the first call "after optreset is set
 * to a nonzero value" - any non-zero value (chosen by the case text), and nothing else has to be
 * prepared by the caller: optind and optarg are left with junk from "earlier use". */
static unsigned case_h;
static const char stale_optarg[] = "stale-optarg";
static void start_parse(void)
{
	static const int nz[4] = { 1, 2, -1, 0x100 };
	optind = 4242 + (int)(case_h & 0xff);
	optarg = stale_optarg;
	optreset = nz[(case_h >> 9) & 3];
}

static char ** mkargv(char ** tok, int argc, size_t * total)
{
	char ** argv = keep(malloc((size_t)(argc + 1) * sizeof(char *)));
	int i;
	*total = 0;
	for (i = 0; i < argc; i++) { argv[i] = mkstr(tok[i]); *total += strlen(argv[i]) + 1; }
	argv[argc] = NULL;
	return argv;
}

/* ---- mode (a): the back-end API with an arbitrary table ---- */
static int run_api(char ** tok, int n)
{
	long miss, stop; int nslots, argc, i; size_t total, cap, nev;
	const char * ch; char ** argv; char ** names; int * hasarg; int stopped = 0;

	if (n < 4) return -1;
	miss = strcmp(tok[0], "-") ? atol(tok[0]) : -1;
	stop = strcmp(tok[1], "-") ? atol(tok[1]) : -1;
	nslots = atoi(tok[2]);
	if (n < 3 + nslots + 1) return -1;
	argc = atoi(tok[3 + nslots]);
	if (n != 3 + nslots + 1 + argc) return -1;
	names = keep(malloc(((size_t)nslots + 1) * sizeof(char *)));
	hasarg = keep(malloc(((size_t)nslots + 1) * sizeof(int)));
	for (i = 0; i < nslots; i++) {
		char * t = tok[3 + i];
		if (strcmp(t, "-") == 0) { names[i] = NULL; hasarg[i] = 0; continue; }
		char * colon = strchr(t, ':');
		if (colon == NULL) return -1;
		*colon = 0;
		names[i] = mkstr(t);
		hasarg[i] = (colon[1] == '1');
	}
	argv = mkargv(&tok[3 + nslots + 1], argc, &total);
	cap = total + (size_t)argc + 8;

	start_parse();
	ch = getopt(argc, argv);
	if (ch != GETOPT_DUMMY) abort();        /* start: tables are only built on the dummy pass */
	getopt_setrange((size_t)nslots);
	for (i = 0; i < nslots; i++)
		if (names[i] != NULL) getopt_register_opt(names[i], (size_t)i, hasarg[i]);
	if (miss >= 0) getopt_register_missing((size_t)miss);
	getopt_initialized = 1;

	for (nev = 0; ; nev++) {
		size_t f, dflt = (size_t)nslots + 1;
		if (stop >= 0 && nev == (size_t)stop) { stopped = 1; break; }
		if (nev > cap) { sep(); pb_puts("runaway"); break; }
		if ((ch = getopt(argc, argv)) == NULL) break;
		f = getopt_lookup(ch);
		if (f == dflt) ev1('D', ch);
		else if (miss >= 0 && f == (size_t)miss) ev1('M', ch);
		else if (f < (size_t)nslots && names[f] != NULL) {
			if (hasarg[f]) { if (optarg == NULL) abort(); ev2(ch, optarg); }
			else ev1('O', ch);
		} else ev1('D', ch);
	}
	finish(stopped);
	return 0;
}

/* ---- mode (b): compiled GETOPT_SWITCH loops ----
 * areas/getopt.py reads the functions loop<k> below to learn each statement's layout (which label
 * is on which line, counted from the GETOPT_SWITCH line) and hands exactly that layout to the model:
 * keep GETOPT_SWITCH(ch) and every GETOPT_* label literally in the function body, one label per line. */
#define LOOP_HEAD							\
	const char * ch; size_t nev = 0; int stopped = 0;		\
	for (;;) {							\
		if (stop >= 0 && nev >= (size_t)stop) { stopped = 1; break; }	\
		if (nev > cap) { sep(); pb_puts("runaway"); break; }	\
		if ((ch = GETOPT(argc, argv)) == NULL) break;
#define LOOP_TAIL } finish(stopped);

/* loop 0: the table of tests/getopt, no GETOPT_MISSING_ARG */
static void loop0(int argc, char ** argv, long stop, size_t cap)
{
	LOOP_HEAD
		GETOPT_SWITCH(ch) {
		GETOPT_OPT("-b"):
			lbl('O', "-b", ch); nev++; break;
		GETOPT_OPT("--bar"):
			lbl('O', "--bar", ch); nev++; break;
		GETOPT_OPTARG("-f"):
			lbl('A', "-f", ch); nev++; break;
		GETOPT_OPTARG("--foo"):
			lbl('A', "--foo", ch); nev++; break;
		GETOPT_DEFAULT:
			ev1('D', ch); nev++; break;
		}
	LOOP_TAIL
}

/* loop 1: the same table with GETOPT_MISSING_ARG */
static void loop1(int argc, char ** argv, long stop, size_t cap)
{
	LOOP_HEAD
		GETOPT_SWITCH(ch) {
		GETOPT_OPT("-b"):
			lbl('O', "-b", ch); nev++; break;
		GETOPT_OPT("--bar"):
			lbl('O', "--bar", ch); nev++; break;
		GETOPT_OPTARG("-f"):
			lbl('A', "-f", ch); nev++; break;
		GETOPT_OPTARG("--foo"):
			lbl('A', "--foo", ch); nev++; break;
		GETOPT_MISSING_ARG:
			ev1('M', ch); nev++; break;
		GETOPT_DEFAULT:
			ev1('D', ch); nev++; break;
		}
	LOOP_TAIL
}

/* loop 2: names that are prefixes of one another, with GETOPT_MISSING_ARG */
static void loop2(int argc, char ** argv, long stop, size_t cap)
{
	LOOP_HEAD
		GETOPT_SWITCH(ch) {
		GETOPT_OPT("--fo"):
			lbl('O', "--fo", ch); nev++; break;
		GETOPT_OPTARG("--foo"):
			lbl('A', "--foo", ch); nev++; break;
		GETOPT_OPT("--foobar"):
			lbl('O', "--foobar", ch); nev++; break;
		GETOPT_OPTARG("-o"):
			lbl('A', "-o", ch); nev++; break;
		GETOPT_OPT("-x"):
			lbl('O', "-x", ch); nev++; break;
		GETOPT_MISSING_ARG:
			ev1('M', ch); nev++; break;
		GETOPT_DEFAULT:
			ev1('D', ch); nev++; break;
		}
	LOOP_TAIL
}

/* loop 3: short options taking arguments, '=' as an option character, no GETOPT_MISSING_ARG */
static void loop3(int argc, char ** argv, long stop, size_t cap)
{
	LOOP_HEAD
		GETOPT_SWITCH(ch) {
		GETOPT_OPT("-a"):
			lbl('O', "-a", ch); nev++; break;
		GETOPT_OPT("-="):
			lbl('O', "-=", ch); nev++; break;
		GETOPT_OPTARG("-o"):
			lbl('A', "-o", ch); nev++; break;
		GETOPT_OPTARG("--out"):
			lbl('A', "--out", ch); nev++; break;
		GETOPT_OPT("--o"):
			lbl('O', "--o", ch); nev++; break;
		GETOPT_DEFAULT:
			ev1('D', ch); nev++; break;
		}
	LOOP_TAIL
}

/* Loops 4..9: the option set of loops 0/1 (and of loop 2) in other SOURCE LAYOUTS.  The dispatch
 * slot of a label is its line offset from the GETOPT_SWITCH line, so these exercise slot 0 (a label
 * on the GETOPT_SWITCH line itself), slot maxopts-1 (the line directly before GETOPT_DEFAULT),
 * GETOPT_MISSING_ARG first / in the middle / last / absent, blank lines and multi-line bodies.
 * The result must not depend on the layout. */

/* loop 4: first label on the GETOPT_SWITCH line, compact (one option per line), last label on the
 * line directly before GETOPT_DEFAULT, no GETOPT_MISSING_ARG */
static void loop4(int argc, char ** argv, long stop, size_t cap)
{
	LOOP_HEAD
		GETOPT_SWITCH(ch) { GETOPT_OPT("-b"): lbl('O', "-b", ch); nev++; break;
		GETOPT_OPT("--bar"): lbl('O', "--bar", ch); nev++; break;
		GETOPT_OPTARG("-f"): lbl('A', "-f", ch); nev++; break;
		GETOPT_OPTARG("--foo"): lbl('A', "--foo", ch); nev++; break;
		GETOPT_DEFAULT: ev1('D', ch); nev++; break;
		}
	LOOP_TAIL
}

/* loop 5: a GETOPT_OPTARG label on the GETOPT_SWITCH line, options in the reverse order,
 * GETOPT_MISSING_ARG last (directly before GETOPT_DEFAULT) */
static void loop5(int argc, char ** argv, long stop, size_t cap)
{
	LOOP_HEAD
		GETOPT_SWITCH(ch) { GETOPT_OPTARG("--foo"): lbl('A', "--foo", ch); nev++; break;
		GETOPT_OPTARG("-f"): lbl('A', "-f", ch); nev++; break;
		GETOPT_OPT("--bar"): lbl('O', "--bar", ch); nev++; break;
		GETOPT_OPT("-b"): lbl('O', "-b", ch); nev++; break;
		GETOPT_MISSING_ARG: ev1('M', ch); nev++; break;
		GETOPT_DEFAULT: ev1('D', ch); nev++; break;
		}
	LOOP_TAIL
}

/* loop 6: GETOPT_MISSING_ARG itself on the GETOPT_SWITCH line, blank lines before GETOPT_DEFAULT */
static void loop6(int argc, char ** argv, long stop, size_t cap)
{
	LOOP_HEAD
		GETOPT_SWITCH(ch) { GETOPT_MISSING_ARG: ev1('M', ch); nev++; break;
		GETOPT_OPT("-b"): lbl('O', "-b", ch); nev++; break;
		GETOPT_OPTARG("-f"): lbl('A', "-f", ch); nev++; break;
		GETOPT_OPT("--bar"): lbl('O', "--bar", ch); nev++; break;
		GETOPT_OPTARG("--foo"): lbl('A', "--foo", ch); nev++; break;


		GETOPT_DEFAULT: ev1('D', ch); nev++; break;
		}
	LOOP_TAIL
}

/* loop 7: compact table, GETOPT_MISSING_ARG first (on the line after GETOPT_SWITCH), last option
 * directly before GETOPT_DEFAULT */
static void loop7(int argc, char ** argv, long stop, size_t cap)
{
	LOOP_HEAD
		GETOPT_SWITCH(ch) {
		GETOPT_MISSING_ARG: ev1('M', ch); nev++; break;
		GETOPT_OPT("--bar"): lbl('O', "--bar", ch); nev++; break;
		GETOPT_OPT("-b"): lbl('O', "-b", ch); nev++; break;
		GETOPT_OPTARG("--foo"): lbl('A', "--foo", ch); nev++; break;
		GETOPT_OPTARG("-f"): lbl('A', "-f", ch); nev++; break;
		GETOPT_DEFAULT: ev1('D', ch); nev++; break;
		}
	LOOP_TAIL
}

/* loop 8: brace on its own line, labels separated by blank lines and multi-line bodies,
 * GETOPT_MISSING_ARG in the middle */
static void loop8(int argc, char ** argv, long stop, size_t cap)
{
	LOOP_HEAD
		GETOPT_SWITCH(ch)
		{

		GETOPT_OPTARG("-f"):
			lbl('A', "-f", ch);
			nev++;
			break;

		GETOPT_OPT("-b"):
			lbl('O', "-b", ch);
			nev++;
			break;
		GETOPT_MISSING_ARG:
			ev1('M', ch);
			nev++;
			break;


		GETOPT_OPTARG("--foo"):
			lbl('A', "--foo", ch);

			nev++;
			break;
		GETOPT_OPT("--bar"):
			lbl('O', "--bar", ch);
			nev++;
			break;

		GETOPT_DEFAULT:
			ev1('D', ch);
			nev++;
			break;
		}
	LOOP_TAIL
}

/* loop 9: the table of loop 2 (names that are prefixes of one another) with the first label on
 * the GETOPT_SWITCH line and GETOPT_MISSING_ARG between the options */
static void loop9(int argc, char ** argv, long stop, size_t cap)
{
	LOOP_HEAD
		GETOPT_SWITCH(ch) { GETOPT_OPT("--fo"): lbl('O', "--fo", ch); nev++; break;
		GETOPT_OPTARG("--foo"): lbl('A', "--foo", ch); nev++; break;
		GETOPT_MISSING_ARG: ev1('M', ch); nev++; break;
		GETOPT_OPT("--foobar"): lbl('O', "--foobar", ch); nev++; break;

		GETOPT_OPTARG("-o"): lbl('A', "-o", ch); nev++; break;
		GETOPT_OPT("-x"): lbl('O', "-x", ch); nev++; break;
		GETOPT_DEFAULT: ev1('D', ch); nev++; break;
		}
	LOOP_TAIL
}

static void (* const loops[])(int, char **, long, size_t) = {
	loop0, loop1, loop2, loop3, loop4, loop5, loop6, loop7, loop8, loop9
};
#define NLOOPS ((int)(sizeof(loops) / sizeof(loops[0])))

static int run_sw(char ** tok, int n)
{
	int k, argc; long stop; size_t total; char ** argv;
	if (n < 3) return -1;
	k = atoi(tok[0]);
	stop = strcmp(tok[1], "-") ? atol(tok[1]) : -1;
	argc = atoi(tok[2]);
	if (n != 3 + argc) return -1;
	if (k < 0 || k >= NLOOPS) return -1;
	argv = mkargv(&tok[3], argc, &total);
	start_parse();
	loops[k](argc, argv, stop, total + (size_t)argc + 8);
	return 0;
}

int main(void)
{
	char * line; static char * tok[MAXTOK];
	struct sigaction sa;
	setvbuf(stdout, NULL, _IOLBF, 0);
	memset(&sa, 0, sizeof(sa));
	sa.sa_handler = on_abort;
	sigaction(SIGABRT, &sa, NULL);
	opterr = 0;                             /* no warnings on stderr; does not affect results */
	while ((line = drv_getline()) != NULL) {
		int n, i = 0, firstp = 1;
		case_h = drv_case_hash(line);
		n = drv_split(line, tok, MAXTOK);
		while (i <= n) {
			int j = i;
			volatile int rc = 0;
			while (j < n && strcmp(tok[j], "|") != 0) j++;
			if (!firstp) fputs(" | ", stdout);
			firstp = 0;
			first_ev = 1;
			plen = 0;
			if (sigsetjmp(abort_env, 1) == 0) {
				if (j - i >= 1 && strcmp(tok[i], "api") == 0) rc = run_api(&tok[i + 1], j - i - 1);
				else if (j - i >= 1 && strcmp(tok[i], "sw") == 0) rc = run_sw(&tok[i + 1], j - i - 1);
				else rc = -1;
				if (rc != 0) fputs("bad-case", stdout);
				else fwrite(pbuf, 1, plen, stdout);
			} else {
				/* abort(): a failed assert or DIE; the partial output of this parse is dropped */
				fputs("assert", stdout);
			}
			release();
			i = j + 1;
		}
		putchar('\n');
	}
	return 0;
}
