/* Shared between drv_events.c and wrap_events.c. */
#ifndef WRAP_EVENTS_H
#define WRAP_EVENTS_H
#include <stddef.h>
#include <sys/time.h>

struct w_poll {
	int kind;		/* 0 = ready set, 1 = EINTR, 2 = EINTR + events_interrupt() */
	int n;
	int fd[16];
	int bits[16];		/* 1 in, 2 out, 4 err, 8 hup */
};

extern struct w_poll * w_polls;
extern int w_npolls, w_pollpos;
extern struct timeval * w_clocks;
extern int w_nclocks, w_clockpos;

extern int w_tracing;
extern int w_in_lib;
extern long w_fail_countdown;
extern int w_fail_persist;
extern int w_fail_hit;
extern long w_lib_allocs;

void w_emit(const char *, ...);
const char * w_output(size_t *);
long w_live(void);
#endif
