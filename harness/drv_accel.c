/* Executes, on this CPU, (a) single x86 vector instructions through the very intrinsics used by
 * alg/sha256_sse2.c and alg/sha256_shani.c and (b) the two real block transforms (linked from /repo,
 * compiled with the flags the repository gives those files).  Same line protocol as
 * model/accel_main.ml.  Instructions of an extension the CPU lacks answer "unsupported". */
#include <emmintrin.h>
#include <immintrin.h>

#include "cpusupport.h"
#include "drv_common.h"
#include "sha256_shani.h"
#include "sha256_sse2.h"

#define CASE(n) case (n): r = OP(n); break;
#define C4(n) CASE(n) CASE((n) + 1) CASE((n) + 2) CASE((n) + 3)
#define C16(n) C4(n) C4((n) + 4) C4((n) + 8) C4((n) + 12)
#define C64(n) C16(n) C16((n) + 16) C16((n) + 32) C16((n) + 48)
#define C256 C64(0) C64(64) C64(128) C64(192)
#define DEF_IMM(fname) \
	static __m128i fname(__m128i a, __m128i b, int imm) \
	{ __m128i r = a; (void)b; switch (imm & 255) { C256 } return r; }

#define OP(n) _mm_shuffle_epi32(a, n)
DEF_IMM(op_shuf32)
#undef OP
#define OP(n) _mm_shufflelo_epi16(a, n)
DEF_IMM(op_shuflo)
#undef OP
#define OP(n) _mm_shufflehi_epi16(a, n)
DEF_IMM(op_shufhi)
#undef OP
#define OP(n) _mm_slli_si128(a, n)
DEF_IMM(op_bslli)
#undef OP
#define OP(n) _mm_srli_si128(a, n)
DEF_IMM(op_bsrli)
#undef OP
#define OP(n) _mm_alignr_epi8(a, b, n)
DEF_IMM(op_alignr)
#undef OP
#define OP(n) _mm_blend_epi16(a, b, n)
DEF_IMM(op_blend16)
#undef OP

static int have_sse2, have_ssse3, have_sse41, have_shani;

static __m128i ld(const char * tok, int * bad)
{
	size_t n; uint8_t * p = drv_unhex(tok, &n, 0); __m128i v = _mm_setzero_si128();
	if (n == 16) v = _mm_loadu_si128((const __m128i *)p); else *bad = 1;
	free(p);
	return v;
}

int main(void)
{
	char * line; char * tok[8];
	have_sse2 = cpusupport_x86_sse2();
	have_ssse3 = cpusupport_x86_ssse3();
	have_shani = cpusupport_x86_shani();
	have_sse41 = __builtin_cpu_supports("sse4.1") ? 1 : 0;
	while ((line = drv_getline()) != NULL) {
		int n = drv_split(line, tok, 8);
		if (n == 1 && !strcmp(tok[0], "features")) {
			printf("ok sse2=%d ssse3=%d sse41=%d shani=%d\n", have_sse2, have_ssse3, have_sse41, have_shani);
		} else if (n == 6 && !strcmp(tok[0], "op")) {
			const char * o = tok[1]; int imm = atoi(tok[2]); int bad = 0, need = 0;
			__m128i a = ld(tok[3], &bad), b = ld(tok[4], &bad), c = ld(tok[5], &bad), r = a;
			uint8_t out[16];
			if (bad) { puts("bad-case"); continue; }
			if (!strcmp(o, "pshufb") || !strcmp(o, "alignr")) need = !have_ssse3;
			else if (!strcmp(o, "blend16")) need = !have_sse41;
			else if (!strcmp(o, "rnds2") || !strcmp(o, "msg1") || !strcmp(o, "msg2")) need = !have_shani;
			else need = !have_sse2;
			if (need) { puts("unsupported"); continue; }
			if (!strcmp(o, "or")) r = _mm_or_si128(a, b);
			else if (!strcmp(o, "xor")) r = _mm_xor_si128(a, b);
			else if (!strcmp(o, "add32")) r = _mm_add_epi32(a, b);
			else if (!strcmp(o, "slli16")) r = _mm_slli_epi16(a, imm);
			else if (!strcmp(o, "srli16")) r = _mm_srli_epi16(a, imm);
			else if (!strcmp(o, "slli32")) r = _mm_slli_epi32(a, imm);
			else if (!strcmp(o, "srli32")) r = _mm_srli_epi32(a, imm);
			else if (!strcmp(o, "slli64")) r = _mm_slli_epi64(a, imm);
			else if (!strcmp(o, "srli64")) r = _mm_srli_epi64(a, imm);
			else if (!strcmp(o, "bslli")) r = op_bslli(a, b, imm);
			else if (!strcmp(o, "bsrli")) r = op_bsrli(a, b, imm);
			else if (!strcmp(o, "shuf32")) r = op_shuf32(a, b, imm);
			else if (!strcmp(o, "shuflo")) r = op_shuflo(a, b, imm);
			else if (!strcmp(o, "shufhi")) r = op_shufhi(a, b, imm);
			else if (!strcmp(o, "movess")) r = _mm_castps_si128(_mm_move_ss(_mm_castsi128_ps(a), _mm_castsi128_ps(b)));
			else if (!strcmp(o, "unpacklo")) r = _mm_unpacklo_epi64(a, b);
			else if (!strcmp(o, "unpackhi")) r = _mm_unpackhi_epi64(a, b);
			else if (!strcmp(o, "pshufb")) r = _mm_shuffle_epi8(a, b);
			else if (!strcmp(o, "alignr")) r = op_alignr(a, b, imm);
			else if (!strcmp(o, "blend16")) r = op_blend16(a, b, imm);
			else if (!strcmp(o, "rnds2")) r = _mm_sha256rnds2_epu32(a, b, c);
			else if (!strcmp(o, "msg1")) r = _mm_sha256msg1_epu32(a, b);
			else if (!strcmp(o, "msg2")) r = _mm_sha256msg2_epu32(a, b);
			else { puts("bad-case"); continue; }
			_mm_storeu_si128((__m128i *)out, r);
			fputs("ok ", stdout); drv_puthex(out, 16); putchar('\n');
		} else if (n == 3 && (!strcmp(tok[0], "xform-sse2") || !strcmp(tok[0], "xform-shani"))) {
			size_t ns, nb, i; uint8_t * sb = drv_unhex(tok[1], &ns, 0); uint8_t * blk = drv_unhex(tok[2], &nb, 0);
			uint32_t * state = malloc(8 * sizeof(uint32_t));
			uint8_t out[32];
			if (ns != 32 || nb != 64) { puts("bad-case"); free(sb); free(blk); free(state); continue; }
			for (i = 0; i < 8; i++)
				state[i] = ((uint32_t)sb[4*i] << 24) | ((uint32_t)sb[4*i+1] << 16) | ((uint32_t)sb[4*i+2] << 8) | sb[4*i+3];
			if (!strcmp(tok[0], "xform-sse2")) {
				/* scratch space handed to the transform: exact-size blocks that start as junk */
				uint32_t * W = drv_outbuf(64 * sizeof(uint32_t)); uint32_t * S = drv_outbuf(8 * sizeof(uint32_t));
				if (!have_sse2) { puts("unsupported"); }
				else SHA256_Transform_sse2(state, blk, W, S);
				free(W); free(S);
				if (!have_sse2) { free(sb); free(blk); free(state); continue; }
			} else {
				if (!(have_shani && have_ssse3)) { puts("unsupported"); free(sb); free(blk); free(state); continue; }
				SHA256_Transform_shani(state, blk);
			}
			for (i = 0; i < 8; i++) {
				out[4*i] = (uint8_t)(state[i] >> 24); out[4*i+1] = (uint8_t)(state[i] >> 16);
				out[4*i+2] = (uint8_t)(state[i] >> 8); out[4*i+3] = (uint8_t)state[i];
			}
			fputs("ok ", stdout); drv_puthex(out, 32); putchar('\n');
			free(sb); free(blk); free(state);
		} else
			puts("bad-case");
	}
	return 0;
}
