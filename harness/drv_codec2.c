/* Driver for the codec2 area: util/b64encode.c, util/sysendian.h, util/sock.c (numeric forms),
 * util/sock_util.c, aws/aws_readkeys.c, util/readpass_file.c.  Same case lines and result lines
 * as model/codec2_main.ml.  Every untrusted input sits in a malloc block of exactly its size
 * (strings: strlen + 1) so that ASan sees any access past either end; files are written into a
 * scratch directory made with mkdtemp under /tmp and removed at exit.
 * getaddrinfo is interposed (-Wl,--wrap=getaddrinfo): host-name forms are outside the property,
 * the driver only records that (and with which strings) the resolver would have been called.
 * Two build variants: the default one replaces warn()/warnx() by silent stand-ins; with
 * -DDRV_REAL_WARNP the library's util/warnp.c is linked and run in stderr or syslog mode (below). */
#include <sys/socket.h>
#include <sys/stat.h>
#include <sys/un.h>
#include <netinet/in.h>
#include <netdb.h>
#include <stdarg.h>
#include <unistd.h>

#include "drv_common.h"

#include "b64encode.h"
#include "sysendian.h"
#include "sock.h"
#include "sock_internal.h"
#include "sock_util.h"
#include "aws_readkeys.h"
#include "readpass.h"

#ifndef DRV_REAL_WARNP
/* ---- warnp stand-ins: format the message (so the argument strings are read) but stay silent ---- */
void libcperciva_warn(const char * fmt, ...)
{
	char buf[256]; va_list ap;
	va_start(ap, fmt); (void)vsnprintf(buf, sizeof(buf), fmt, ap); va_end(ap);
}
void libcperciva_warnx(const char * fmt, ...)
{
	char buf[256]; va_list ap;
	va_start(ap, fmt); (void)vsnprintf(buf, sizeof(buf), fmt, ap); va_end(ap);
}
static void warnp_mode_init(void) { }
#else
/* ---- the library's own util/warnp.c is linked (build variant drv_codec2_warnp_asan) ----
 * The diagnostics path is part of what runs when a parser rejects untrusted text: warn0() quotes
 * the rejected string.  VERIF_WARNP_MODE=syslog makes the driver call warnp_syslog(1), after
 * which warnp.c formats every message into its fixed-size line buffer before handing it to
 * syslog(3); otherwise messages go to stderr (vfprintf, no intermediate buffer).
 * syslog/vsyslog/openlog/closelog are interposed (-Wl,--wrap=...): nothing reaches the system log;
 * the stand-in formats the line (reading every argument string under ASan) and counts it.  The
 * count is printed to stderr at exit ("drv_codec2: syslog-lines N") so that the area module can
 * tell that the syslog path was really taken. */
#include <syslog.h>
#include "warnp.h"
static unsigned long syslog_lines = 0;
void __wrap_syslog(int priority, const char * fmt, ...);
void __wrap_vsyslog(int priority, const char * fmt, va_list ap);
void __wrap___syslog_chk(int priority, int flag, const char * fmt, ...);
void __wrap___vsyslog_chk(int priority, int flag, const char * fmt, va_list ap);
void __wrap_openlog(const char * ident, int option, int facility);
void __wrap_closelog(void);
void __wrap_vsyslog(int priority, const char * fmt, va_list ap)
{
	int len; char * line;
	va_list ap2;
	(void)priority;
	va_copy(ap2, ap);
	len = vsnprintf(NULL, 0, fmt, ap2);
	va_end(ap2);
	if (len >= 0 && (line = malloc((size_t)len + 1)) != NULL) {	/* exact-size line */
		(void)vsnprintf(line, (size_t)len + 1, fmt, ap);
		free(line);
	}
	syslog_lines++;
}
void __wrap_syslog(int priority, const char * fmt, ...)
{
	va_list ap;
	va_start(ap, fmt); __wrap_vsyslog(priority, fmt, ap); va_end(ap);
}
void __wrap___syslog_chk(int priority, int flag, const char * fmt, ...)
{
	va_list ap;
	(void)flag;
	va_start(ap, fmt); __wrap_vsyslog(priority, fmt, ap); va_end(ap);
}
void __wrap___vsyslog_chk(int priority, int flag, const char * fmt, va_list ap)
{
	(void)flag;
	__wrap_vsyslog(priority, fmt, ap);
}
void __wrap_openlog(const char * ident, int option, int facility)
{
	(void)ident; (void)option; (void)facility;
}
void __wrap_closelog(void) { }
static int warnp_mode_syslog = 0;
static void warnp_mode_report(void)
{
	if (warnp_mode_syslog)
		warnp_syslog(0);
	fprintf(stderr, "drv_codec2: syslog-lines %lu\n", syslog_lines);
}
static void warnp_mode_init(void)
{
	const char * m = getenv("VERIF_WARNP_MODE");
	warnp_setprogname("drv_codec2");
	atexit(warnp_mode_report);
	if (m != NULL && strcmp(m, "syslog") == 0) {
		warnp_mode_syslog = 1;
		warnp_syslog(1);
	}
}
#endif

/* ---- getaddrinfo interposer ---- */
static char * gai_host = NULL; static char * gai_ports = NULL; static int gai_called = 0;
int __wrap_getaddrinfo(const char * node, const char * service, const struct addrinfo * hints,
    struct addrinfo ** res)
{
	(void)hints; (void)res;
	gai_called++;
	free(gai_host); free(gai_ports);
	gai_host = strdup(node ? node : ""); gai_ports = strdup(service ? service : "");
	return (EAI_FAIL);
}

/* ---- scratch directory ---- */
static char scratch[64]; static char scratch_file[80];
static void scratch_cleanup(void)
{
	if (scratch[0]) { unlink(scratch_file); rmdir(scratch); }
}
static void scratch_init(void)
{
	strcpy(scratch, "/tmp/verif-codec2-XXXXXX");
	if (mkdtemp(scratch) == NULL) { perror("mkdtemp"); exit(3); }
	snprintf(scratch_file, sizeof(scratch_file), "%s/f", scratch);
	atexit(scratch_cleanup);
}
static void write_file(const uint8_t * p, size_t n)
{
	FILE * f;
	if (!scratch[0]) scratch_init();	/* on first use: runs without file cases leave nothing behind */
	f = fopen(scratch_file, "wb");
	if (f == NULL || (n && fwrite(p, 1, n, f) != n) || fclose(f)) { perror("scratch file"); exit(3); }
}

/* ---- socket address helpers ---- */
static struct sock_addr * mk_sa(const char * fam, const char * type, const char * name)
{
	struct sock_addr * sa = malloc(sizeof(struct sock_addr));
	size_t n;
	sa->ai_family = (int)strtol(fam, NULL, 10);
	sa->ai_socktype = (int)strtol(type, NULL, 10);
	sa->name = (struct sockaddr *)drv_unhex(name, &n, 0);	/* exactly namelen bytes */
	sa->namelen = (socklen_t)n;
	return (sa);
}
static void put_sa(const struct sock_addr * sa)
{
	printf("%u %u ", (unsigned)sa->ai_family, (unsigned)sa->ai_socktype);
	drv_puthex((const uint8_t *)sa->name, sa->namelen);
}
/* An address object the caller built is the caller's again when the call it was passed to has
 * returned: its bytes are overwritten before it is released, and that happens BEFORE the call's
 * result is looked at (a result that still points into the argument shows). */
static void done_sa(struct sock_addr * sa)
{
	drv_scribble(sa->name, sa->namelen);
	sock_addr_free(sa);
}
/* result pointers start as junk, not as NULL */
#define DRV_JUNKPTR ((char *)(uintptr_t)0x5a5a5a5a5a5aULL)
/* the file name is passed in a block of its own that is overwritten and freed after the call */
static char * scratch_name(void)
{
	size_t n = strlen(scratch_file) + 1; char * p = malloc(n);
	memcpy(p, scratch_file, n);
	return (p);
}
static char * exact_string(const char * tok)
{
	size_t n;
	return ((char *)drv_unhex(tok, &n, 1));	/* strlen + 1 bytes when the content has no NUL */
}
static void put_resolved(struct sock_addr ** sas)
{
	size_t i;
	if (sas == NULL) {
		if (gai_called) { printf("host "); drv_puthex((uint8_t *)gai_host, strlen(gai_host));
			printf(" "); drv_puthex((uint8_t *)gai_ports, strlen(gai_ports)); }
		else printf("fail");
		return;
	}
	printf("addrs ");
	for (i = 0; sas[i] != NULL; i++) { if (i) printf(" ; "); put_sa(sas[i]); }
}

/* ---- several addresses held at the same time ("multi") ----
 * One snapshot: "[k=<sa>/<printed>/<dup>/<serialised> ... cmp=<one digit per pair i<j>>]" over the
 * slots that hold an address, in slot order. */
#define MULTI_MAX 16
static void multi_snapshot(struct sock_addr ** held[], int nheld)
{
	int i, j;
	printf("[");
	for (i = 0; i < nheld; i++) {
		const struct sock_addr * sa; struct sock_addr * sb; char * s;
		uint8_t * buf = (uint8_t *)DRV_JUNKPTR; size_t buflen = 12345;
		if (held[i] == NULL) continue;
		sa = held[i][0];
		printf("%d=", i); put_sa(sa); printf("/");
		if ((s = sock_addr_prettyprint(sa)) == NULL) printf("null");
		else { drv_puthex((uint8_t *)s, strlen(s)); drv_scribble_str(s); free(s); }
		printf("/");
		if ((sb = sock_addr_dup(sa)) == NULL) printf("error");
		else { put_sa(sb); done_sa(sb); }
		printf("/");
		if (sock_addr_serialize(sa, &buf, &buflen)) printf("error");
		else { drv_puthex(buf, buflen); drv_scribble_free(buf, buflen); }
		printf(" ");
	}
	printf("cmp=");
	for (i = 0; i < nheld; i++)
		for (j = i + 1; j < nheld; j++)
			if (held[i] != NULL && held[j] != NULL)
				printf("%d", sock_addr_cmp(held[i][0], held[j][0]) != 0);
	printf("]");
}

/* ---- endian ---- */
static uint64_t endian_roundtrip(const char * fn, uint8_t * p, uint64_t x)
{
	if (!strcmp(fn, "be16")) { be16enc(p, (uint16_t)x); return be16dec(p); }
	if (!strcmp(fn, "be32")) { be32enc(p, (uint32_t)x); return be32dec(p); }
	if (!strcmp(fn, "be64")) { be64enc(p, x); return be64dec(p); }
	if (!strcmp(fn, "le16")) { le16enc(p, (uint16_t)x); return le16dec(p); }
	if (!strcmp(fn, "le32")) { le32enc(p, (uint32_t)x); return le32dec(p); }
	le64enc(p, x); return le64dec(p);
}
static uint64_t endian_dec(const char * fn, const uint8_t * p)
{
	if (!strcmp(fn, "be16")) return be16dec(p);
	if (!strcmp(fn, "be32")) return be32dec(p);
	if (!strcmp(fn, "be64")) return be64dec(p);
	if (!strcmp(fn, "le16")) return le16dec(p);
	if (!strcmp(fn, "le32")) return le32dec(p);
	return le64dec(p);
}

int main(void)
{
	char * line; char * tok[10];
	setvbuf(stdout, NULL, _IOLBF, 0);
	warnp_mode_init();
	while ((line = drv_getline()) != NULL) {
		int n = drv_split(line, tok, 10);
		gai_called = 0;
		if (n == 2 && strcmp(tok[0], "b64enc") == 0) {
			size_t len; uint8_t * in = drv_unhex(tok[1], &len, 0);
			size_t olen = b64len(len) + 1;
			char * out = malloc(olen);
			memset(out, 0xaa, olen);
			/* same buffers, flipped contents first (result discarded): a caller re-using its buffers */
			drv_flip(in, len); b64encode(in, out, len); drv_flip(in, len); memset(out, 0xaa, olen);
			b64encode(in, out, len);
			drv_scribble_free(in, len);
			printf("ok "); drv_puthex((uint8_t *)out, olen); printf("\n");
			free(out);
		} else if (n == 2 && (strcmp(tok[0], "b64dec") == 0 || strcmp(tok[0], "b64decfull") == 0)) {
			size_t len; uint8_t * in = drv_unhex(tok[1], &len, 0);
			size_t cap = (len / 4) * 3;
			uint8_t * out = malloc(cap ? cap : 1);
			size_t outlen = 12345;
			int rc;
			if (cap == 0) { free(out); out = malloc(1); }
			memset(out, 0xaa, cap ? cap : 1);
			drv_flip(in, len); (void)b64decode((char *)in, len, out, &outlen); drv_flip(in, len);
			memset(out, 0xaa, cap ? cap : 1); outlen = 12345;
			rc = b64decode((char *)in, len, out, &outlen);
			drv_scribble_free(in, len); in = NULL;
			if (rc != 0) printf("ok none\n");
			else if (tok[0][6] == 0) {
				if (outlen > cap) printf("ok outlen-out-of-range %zu\n", outlen);
				else { printf("ok "); drv_puthex(out, outlen); printf("\n"); }
			} else { printf("ok %zx ", outlen); drv_puthex(out, cap); printf("\n"); }
			free(in); free(out);
		} else if (n == 5 && strcmp(tok[0], "endenc") == 0) {
			size_t off = (size_t)strtoull(tok[2], NULL, 10);
			size_t buflen = (size_t)strtoull(tok[3], NULL, 10), i;
			uint64_t x = strtoull(tok[4], NULL, 16), v;
			uint8_t * buf = malloc(buflen ? buflen : 1);
			for (i = 0; i < buflen; i++) buf[i] = (uint8_t)((i * 7 + 3) & 255);
			v = endian_roundtrip(tok[1], buf + off, x);
			printf("ok "); drv_puthex(buf, buflen); printf(" %llx\n", (unsigned long long)v);
			free(buf);
		} else if (n == 4 && strcmp(tok[0], "enddec") == 0) {
			size_t off = (size_t)strtoull(tok[2], NULL, 10);
			size_t buflen; uint8_t * buf = drv_unhex(tok[3], &buflen, 0);
			printf("ok %llx\n", (unsigned long long)endian_dec(tok[1], buf + off));
			free(buf);
		} else if (n == 2 && strcmp(tok[0], "resolve") == 0) {
			char * s = exact_string(tok[1]);
			struct sock_addr ** sas = sock_resolve(s);
			drv_scribble_str(s); free(s);	/* the address string is the caller's again */
			put_resolved(sas); printf("\n");
			sock_addr_freelist(sas);
		} else if (n == 4 && strcmp(tok[0], "pp") == 0) {
			struct sock_addr * sa = mk_sa(tok[1], tok[2], tok[3]);
			char * s = sock_addr_prettyprint(sa);
			done_sa(sa);
			if (s == NULL) printf("null\n");
			else { printf("str "); drv_puthex((uint8_t *)s, strlen(s)); printf("\n"); }
			free(s);
		} else if (n == 4 && strcmp(tok[0], "ser") == 0) {
			struct sock_addr * sa = mk_sa(tok[1], tok[2], tok[3]);
			uint8_t * buf = (uint8_t *)DRV_JUNKPTR; size_t buflen = 12345;
			int rc = sock_addr_serialize(sa, &buf, &buflen);
			done_sa(sa);
			if (rc) printf("error\n");
			else { printf("ok "); drv_puthex(buf, buflen); printf("\n"); free(buf); }
		} else if (n == 2 && strcmp(tok[0], "deser") == 0) {
			size_t len; uint8_t * buf = drv_unhex(tok[1], &len, 0);
			struct sock_addr * sa = sock_addr_deserialize(buf, len);
			drv_scribble_free(buf, len);
			if (sa == NULL) printf("none\n");
			else { printf("sa "); put_sa(sa); printf("\n"); }
			sock_addr_free(sa);
		} else if (n == 2 && strcmp(tok[0], "deserpp") == 0) {
			/* a decoded address handed straight to the printer */
			size_t len; uint8_t * buf = drv_unhex(tok[1], &len, 0);
			struct sock_addr * sa = sock_addr_deserialize(buf, len);
			drv_scribble_free(buf, len);
			if (sa == NULL) printf("none\n");
			else {
				char * s = sock_addr_prettyprint(sa);
				if (s == NULL) printf("null\n");
				else { printf("str "); drv_puthex((uint8_t *)s, strlen(s)); printf("\n"); }
				free(s);
			}
			sock_addr_free(sa);
		} else if (n == 7 && strcmp(tok[0], "cmp") == 0) {
			struct sock_addr * a = mk_sa(tok[1], tok[2], tok[3]);
			struct sock_addr * b = mk_sa(tok[4], tok[5], tok[6]);
			printf("ok %d\n", sock_addr_cmp(a, b) != 0);
			sock_addr_free(a); sock_addr_free(b);
		} else if (n == 4 && strcmp(tok[0], "dup") == 0) {
			struct sock_addr * sa = mk_sa(tok[1], tok[2], tok[3]);
			struct sock_addr * sb = sock_addr_dup(sa);
			done_sa(sa);
			if (sb == NULL) printf("error\n");
			else { printf("sa "); put_sa(sb); printf("\n"); }
			sock_addr_free(sb);
		} else if (n == 2 && strcmp(tok[0], "ensure") == 0) {
			char * s = exact_string(tok[1]);
			char * r = sock_addr_ensure_port(s);
			drv_scribble_str(s); free(s);
			if (r == NULL) printf("error\n");
			else { printf("str "); drv_puthex((uint8_t *)r, strlen(r)); printf("\n"); }
			free(r);
		} else if (n == 4 && strcmp(tok[0], "rtpp") == 0) {
			struct sock_addr * sa = mk_sa(tok[1], tok[2], tok[3]);
			char * s = sock_addr_prettyprint(sa);
			if (s == NULL) printf("rt - null\n");
			else {
				/* hand the printed string over in an exact-size block */
				size_t sl = strlen(s); char * e = malloc(sl + 1); struct sock_addr ** sas;
				memcpy(e, s, sl + 1);
				sas = sock_resolve(e);
				drv_scribble_free(e, sl + 1);
				printf("rt "); drv_puthex((uint8_t *)s, sl);
				if (sas == NULL || sas[0] == NULL || sas[1] != NULL) printf(" fail\n");
				else printf(" %s\n", sock_addr_cmp(sa, sas[0]) ? "diff" : "same");
				sock_addr_freelist(sas);
			}
			free(s); sock_addr_free(sa);
		} else if (n == 4 && strcmp(tok[0], "rtser") == 0) {
			struct sock_addr * sa = mk_sa(tok[1], tok[2], tok[3]);
			uint8_t * buf; size_t buflen;
			if (sock_addr_serialize(sa, &buf, &buflen)) printf("error\n");
			else {
				/* exact-size copy so that the decoder cannot read past buflen unnoticed */
				uint8_t * e = malloc(buflen ? buflen : 1); struct sock_addr * sb;
				memcpy(e, buf, buflen);
				sb = sock_addr_deserialize(e, buflen);
				drv_scribble_free(e, buflen); drv_scribble_free(buf, buflen);
				if (sb == NULL) printf("rt none\n");
				else printf("rt %s\n", sock_addr_cmp(sa, sb) ? "diff" : "same");
				sock_addr_free(sb);
			}
			sock_addr_free(sa);
		} else if (n == 2 && strcmp(tok[0], "multi") == 0) {
			/* a history over SEVERAL addresses: "+<string>" resolves into the next slot, "-<k>"
			 * releases slot k (any order); after every step every address still held is printed,
			 * duplicated, serialised and compared with every other one */
			struct sock_addr ** held[MULTI_MAX]; int nheld = 0; char * op = tok[1];
			int k;
			while (op != NULL && *op) {
				char * nx = strchr(op, ',');
				if (nx != NULL) *nx++ = 0;
				if (op[0] == '+' && nheld < MULTI_MAX) {
					char * s = exact_string(op + 1);
					struct sock_addr ** sas = sock_resolve(s);
					drv_scribble_str(s); free(s);
					if (sas != NULL && (sas[0] == NULL || sas[1] != NULL)) {
						sock_addr_freelist(sas); sas = NULL;
					}
					held[nheld++] = sas;
				} else if (op[0] == '-') {
					k = (int)strtol(op + 1, NULL, 10);
					if (k >= 0 && k < nheld && held[k] != NULL) {
						sock_addr_freelist(held[k]); held[k] = NULL;
					}
				}
				multi_snapshot(held, nheld);
				op = nx;
			}
			for (k = 0; k < nheld; k++)
				if (held[k] != NULL) sock_addr_freelist(held[k]);
			printf("\n");
		} else if (n == 2 && strcmp(tok[0], "aws") == 0) {
			size_t len; uint8_t * f = drv_unhex(tok[1], &len, 0);
			char * id = DRV_JUNKPTR; char * sec = DRV_JUNKPTR; char * fn; int rc;
			write_file(f, len);
			fn = scratch_name();
			rc = aws_readkeys(fn, &id, &sec);
			drv_scribble_str(fn); free(fn);
			if (rc) printf("err\n");
			else {
				printf("ok "); drv_puthex((uint8_t *)id, strlen(id)); printf(" ");
				drv_puthex((uint8_t *)sec, strlen(sec)); printf("\n");
				free(id); free(sec);
			}
			free(f);
		} else if (n == 2 && strcmp(tok[0], "rp") == 0) {
			size_t len; uint8_t * f = drv_unhex(tok[1], &len, 0);
			char * pw = DRV_JUNKPTR; char * fn; int rc;
			write_file(f, len);
			fn = scratch_name();
			rc = readpass_file(&pw, fn);
			drv_scribble_str(fn); free(fn);
			if (rc) printf("err\n");
			else { printf("ok "); drv_puthex((uint8_t *)pw, strlen(pw)); printf("\n"); free(pw); }
			free(f);
		} else
			printf("bad-case\n");
	}
	free(gai_host); free(gai_ports);
	return 0;
}
