/* Driver for crypto/crypto_entropy.c (C11), same case lines as model/drbg_main.ml.
 *
 * Default build: crypto_entropy.c is #included into this translation unit (its statics
 * drbg.Key / drbg.V / drbg.reseed_counter / instantiated are observed and reset between cases);
 * util/entropy.c is NOT linked: entropy_read() below is a scripted source.  Built with the
 * `none` CPU configuration so that RDRAND mixing is compiled out.
 *
 *   drbg <oracle> <reqs>  -> "<r1> <r2> ... | K=.. V=.. c=.. i=.. used=.. ent=.."
 *
 * -DDRV_FILL build: util/entropy.c is #included instead and linked with --wrap=read;
 *   fill <buflen> <answers> -> "ok <hex> used=<k>" | "fail used=<k>"
 */
#include "drv_common.h"

#include <errno.h>
#include <unistd.h>

#ifdef DRV_FILL
/* ======================= util/entropy.c: entropy_read_fill ======================= */
#include "entropy.c"

#define MAXANS 64
static struct { int kind; uint8_t * data; size_t len; } ans[MAXANS];	/* kind: 0 bytes, 1 error */
static int nans, ans_pos;
static int bad_request;		/* read() asked for more than remains / wrong pointer */
static uint8_t * fill_buf; static size_t fill_len, fill_off;

ssize_t __wrap_read(int, void *, size_t);
ssize_t
__wrap_read(int fd, void * buf, size_t n)
{
	size_t k;

	(void)fd;
	/* the library must ask exactly for the unfilled rest of the buffer */
	if ((uint8_t *)buf != fill_buf + fill_off || n != fill_len - fill_off)
		bad_request = 1;
	if (ans_pos >= nans) {
		ans_pos++;		/* script exhausted: behave as an error */
		errno = EIO;
		return (-1);
	}
	if (ans[ans_pos].kind == 1) {
		ans_pos++;
		errno = EIO;
		return (-1);
	}
	k = ans[ans_pos].len < n ? ans[ans_pos].len : n;
	memcpy(buf, ans[ans_pos].data, k);
	ans_pos++;
	fill_off += k;
	return ((ssize_t)k);
}

static void
fill_case(char * nstr, char * astr)
{
	struct entropy_read_cookie er;
	size_t n = (size_t)strtoull(nstr, NULL, 10);
	char * p = astr; int rc, used, i;

	nans = ans_pos = 0; bad_request = 0;
	if (strcmp(astr, "-") != 0) {
		while (p != NULL && nans < MAXANS) {
			char * q = strchr(p, ',');
			if (q) *q++ = 0;
			if (strcmp(p, "e") == 0) { ans[nans].kind = 1; ans[nans].data = NULL; ans[nans].len = 0; }
			else if (strcmp(p, "z") == 0) { ans[nans].kind = 0; ans[nans].data = malloc(1); ans[nans].len = 0; }
			else { ans[nans].kind = 0; ans[nans].data = drv_unhex(p, &ans[nans].len, 0); }
			nans++;
			p = q;
		}
	}
	fill_buf = malloc(n ? n : 1); fill_len = n; fill_off = 0;
	memset(fill_buf, 0xaa, n);
	er.fd = 12345;
	rc = entropy_read_fill(&er, fill_buf, n);
	used = ans_pos > nans ? nans : ans_pos;
	if (bad_request)
		printf("bad-read-request\n");
	else if (rc == 0) {
		printf("ok "); drv_puthex(fill_buf, n); printf(" used=%d\n", used);
	} else
		printf("fail used=%d\n", used);
	for (i = 0; i < nans; i++) free(ans[i].data);
	free(fill_buf);
}

#else
/* ======================= crypto/crypto_entropy.c ======================= */
#include "crypto_entropy.c"

#ifdef CPUSUPPORT_X86_RDRAND
#error "drv_drbg must be built with the `none` CPU configuration (no RDRAND mixing)"
#endif

#define MAXENT 64
static struct { int fail; uint8_t * data; size_t len; } ent[MAXENT];
static int nent, ent_pos;
static char entlog[1024]; static size_t entlog_len;

/* the scripted OS entropy source */
int
entropy_read(uint8_t * buf, size_t buflen)
{
	size_t i;
	int fail = (ent_pos >= nent) || ent[ent_pos].fail;

	if (entlog_len + 24 < sizeof(entlog))
		entlog_len += (size_t)snprintf(entlog + entlog_len, sizeof(entlog) - entlog_len, "%s%zu%s",
		    entlog_len ? "+" : "", buflen, fail ? "f" : "");
	if (ent_pos < nent) {
		if (!fail)
			for (i = 0; i < buflen; i++)
				buf[i] = (i < ent[ent_pos].len) ? ent[ent_pos].data[i] : 0;
		ent_pos++;
	}
	return (fail ? -1 : 0);
}

static void
drbg_case(char * ostr, char * rstr)
{
	char * p; int i, first = 1;

	/* reset the statics: a fresh process */
	memset(&drbg, 0, sizeof(drbg));
	instantiated = 0;
	nent = ent_pos = 0; entlog_len = 0; entlog[0] = 0;
	p = ostr;
	if (strcmp(ostr, "-") != 0) {
		while (p != NULL && nent < MAXENT) {
			char * q = strchr(p, ',');
			if (q) *q++ = 0;
			if (strcmp(p, "f") == 0) { ent[nent].fail = 1; ent[nent].data = NULL; ent[nent].len = 0; }
			else { ent[nent].fail = 0; ent[nent].data = drv_unhex(p, &ent[nent].len, 0); }
			nent++;
			p = q;
		}
	}
	p = rstr;
	if (strcmp(rstr, "-") != 0) {
		while (p != NULL) {
			char * q = strchr(p, ',');
			size_t n; uint8_t * buf; int rc;
			if (q) *q++ = 0;
			n = (size_t)strtoull(p, NULL, 10);
			buf = malloc(n ? n : 1);	/* exact size: ASan sees any overrun */
			memset(buf, 0xaa, n);
			rc = crypto_entropy_read(buf, n);
			if (!first) putchar(' ');
			first = 0;
			if (rc == 0) { printf("0:"); drv_puthex(buf, n); }
			else printf("%d", rc);
			free(buf);
			p = q;
		}
	}
	printf(" | K="); drv_puthex(drbg.Key, 32);
	printf(" V="); drv_puthex(drbg.V, 32);
	printf(" c=%lu i=%d used=%d ent=%s\n", (unsigned long)drbg.reseed_counter, instantiated != 0,
	    ent_pos, entlog_len ? entlog : "-");
	for (i = 0; i < nent; i++) free(ent[i].data);
}
#endif

int
main(void)
{
	char * line; char * tok[4];

	setvbuf(stdout, NULL, _IOLBF, 0);
	while ((line = drv_getline()) != NULL) {
		int n = drv_split(line, tok, 4);
#ifdef DRV_FILL
		if (n == 3 && strcmp(tok[0], "fill") == 0)
			fill_case(tok[1], tok[2]);
#else
		if (n == 3 && strcmp(tok[0], "drbg") == 0)
			drbg_case(tok[1], tok[2]);
#endif
		else
			printf("bad-case\n");
	}
	return (0);
}
