/* Driver for crypto/crypto_entropy.c (C11), same case lines as model/drbg_main.ml.
 *
 * Default build: crypto_entropy.c is #included into this translation unit (its statics
 * drbg.Key / drbg.V / drbg.reseed_counter / instantiated are observed and reset between cases);
 * util/entropy.c is NOT linked: entropy_read() below is a scripted source.  Built with the
 * `none` CPU configuration so that RDRAND mixing is compiled out.
 *
 *   drbg <oracle> <reqs>  -> "<r1> <r2> ... | K=.. V=.. c=.. i=.. used=.. ent=.."
 *
 * -DDRV_FILL build: the repository's util/entropy.c is linked (public API only: the cookie comes
 * from entropy_read_init) with --wrap=open,open64,read,close;
 *   fill <buflen> <answers> -> "ok <hex> used=<k>" | "fail used=<k>"
 *
 * -DDRV_OS build: crypto_entropy.c is #included, the REAL util/entropy.c of the repository is
 * compiled and linked, and open/read/close are interposed (--wrap=open,open64,read,close): the
 * OS entropy device is a script of sessions, one per open():
 *   os <sessions> <reqs>   -> "<r1> ... | K=.. V=.. c=.. i=.. used=<sessions> sys=<s1>+<s2>.."
 *   sess <buflen> <session> -> "ok <hex> sys=<s>" | "fail sys=<s>"     (entropy_read alone)
 * Both take an optional last token app:<a>-<b>[,<a>-<b>...]: the APPLICATION holds entropy_read
 * cookies of its own (public entropy_read_init .. entropy_read_fill .. entropy_read_done): one is
 * obtained before request number a (from 0) and, after request number b, used for a fill and
 * released (at the end of the case if b is beyond the last request).  entropy.h: every cookie is
 * an independent object, so the results are those of the line without the token (which is what
 * the model is given); the application's descriptors are outside the script, deliver a pattern of
 * their own, and a cookie may only ever read and close the descriptor that its own open returned.
 * session = <o|x>:<reads>:<closes> (see model/drbg_main.ml).  The wrappers also check that the
 * device is "/dev/urandom" opened read-only, that read and close are given the descriptor open
 * returned, and that every read asks exactly for the unfilled rest of one buffer.
 *
 * -DDRV_BLACKBOX (with the default or the DRV_OS build): crypto_entropy.c is NOT #included but
 * compiled and linked as it is; nothing file-local is named.  Every case runs in a forked child
 * (a fresh copy of the zero-initialised statics) and the result line has no K= V= c= i= part:
 * return codes, output bytes and the consumption of the entropy source are what is compared.
 * Used when the white-box build does not compile (file-local names changed).
 */
#include "drv_common.h"

#include <errno.h>
#include <unistd.h>

#ifdef DRV_FILL
/* ======================= util/entropy.c: entropy_read_fill ======================= */
#include "entropy.h"

#define MAXANS 64
static struct { int kind; uint8_t * data; size_t len; } ans[MAXANS];	/* kind: 0 bytes, 1 error */
static int nans, ans_pos;
static int bad_request;		/* read() asked for more than remains / wrong pointer */
static uint8_t * fill_buf; static size_t fill_len, fill_off;

/* the device opens and closes without incident here; DRV_OS scripts those too.  Every open()
 * returns a descriptor of its own; a cookie reads and closes the one ITS open returned. */
#define FILL_FD0 12345
#define FILL_MAXFD 8
static int fd_isopen[FILL_MAXFD], nopened;
static int fill_fd;		/* the descriptor of the cookie under test */
static int bad_fd;		/* a descriptor used that is closed / not this cookie's / none opened */
int __wrap_open(const char *, int, ...);
int __wrap_open64(const char *, int, ...);
int __wrap_close(int);
static int fill_open(void)
{
	if (nopened >= FILL_MAXFD) { bad_fd = 1; return (-1); }
	fd_isopen[nopened] = 1;
	return (FILL_FD0 + nopened++);
}
int __wrap_open(const char * path, int flags, ...) { (void)path; (void)flags; return (fill_open()); }
int __wrap_open64(const char * path, int flags, ...) { (void)path; (void)flags; return (fill_open()); }
int __wrap_close(int fd)
{
	if (fd < FILL_FD0 || fd >= FILL_FD0 + nopened || !fd_isopen[fd - FILL_FD0]) { bad_fd = 1; errno = EBADF; return (-1); }
	fd_isopen[fd - FILL_FD0] = 0;
	return (0);
}

ssize_t __wrap_read(int, void *, size_t);
ssize_t
__wrap_read(int fd, void * buf, size_t n)
{
	size_t k;

	if (fd != fill_fd || fd < FILL_FD0 || fd >= FILL_FD0 + nopened || !fd_isopen[fd - FILL_FD0]) {
		bad_fd = 1;
		errno = EBADF;
		return (-1);
	}
	/* the library must ask exactly for the unfilled rest of the buffer */
	if ((uint8_t *)buf != fill_buf + fill_off || n != fill_len - fill_off)
		bad_request = 1;
	if (ans_pos >= nans) {
		ans_pos++;		/* script exhausted: behave as an error */
		errno = EIO;
		return (-1);
	}
	if (ans[ans_pos].kind == 1) {
		ans_pos++;
		errno = EIO;
		return (-1);
	}
	k = ans[ans_pos].len < n ? ans[ans_pos].len : n;
	memcpy(buf, ans[ans_pos].data, k);
	ans_pos++;
	fill_off += k;
	return ((ssize_t)k);
}

/* other: what else the application is doing (a function of the case text): 0 nothing; it holds
 * ANOTHER cookie 1 from before this one's init until after its done, 2 from before its init until
 * just before its fill, 3 from after its init until just before its done.  Cookies are independent
 * objects, so the result is the same in all four. */
static void
fill_case(char * nstr, char * astr, int other)
{
	struct entropy_read_cookie * er, * er2 = NULL;
	size_t n = (size_t)strtoull(nstr, NULL, 10);
	char * p = astr; int rc, used, i;

	nans = ans_pos = 0; bad_request = 0; bad_fd = 0; nopened = 0; fill_fd = -1;
	if (strcmp(astr, "-") != 0) {
		while (p != NULL && nans < MAXANS) {
			char * q = strchr(p, ',');
			if (q) *q++ = 0;
			if (strcmp(p, "e") == 0) { ans[nans].kind = 1; ans[nans].data = NULL; ans[nans].len = 0; }
			else if (strcmp(p, "z") == 0) { ans[nans].kind = 0; ans[nans].data = malloc(1); ans[nans].len = 0; }
			else { ans[nans].kind = 0; ans[nans].data = drv_unhex(p, &ans[nans].len, 0); }
			nans++;
			p = q;
		}
	}
	fill_buf = malloc(n ? n : 1); fill_len = n; fill_off = 0;
	memset(fill_buf, 0xaa, n);
	if ((other == 1 || other == 2) && (er2 = entropy_read_init()) == NULL) { printf("init-failed\n"); exit(1); }
	i = nopened;
	if ((er = entropy_read_init()) == NULL) { printf("init-failed\n"); exit(1); }
	if (nopened == i + 1) fill_fd = FILL_FD0 + i; else bad_fd = 1;	/* its own open */
	if (other == 3 && (er2 = entropy_read_init()) == NULL) { printf("init-failed\n"); exit(1); }
	if (other == 2 && entropy_read_done(er2)) bad_fd = 1;
	rc = entropy_read_fill(er, fill_buf, n);
	used = ans_pos > nans ? nans : ans_pos;
	if (other == 3 && entropy_read_done(er2)) bad_fd = 1;
	if (entropy_read_done(er)) { if (!bad_fd) { printf("done-failed\n"); exit(1); } }
	if (other == 1 && entropy_read_done(er2)) bad_fd = 1;
	for (i = 0; i < nopened; i++) if (fd_isopen[i]) bad_fd = 1;	/* nothing stays open */
	if (bad_fd)
		printf("bad-descriptor-use\n");
	else if (bad_request)
		printf("bad-read-request\n");
	else if (rc == 0) {
		printf("ok "); drv_puthex(fill_buf, n); printf(" used=%d\n", used);
	} else
		printf("fail used=%d\n", used);
	for (i = 0; i < nans; i++) free(ans[i].data);
	free(fill_buf);
}

#elif defined(DRV_OS)
/* ============ crypto_entropy.c over the real util/entropy.c, system calls scripted ============ */
#include <fcntl.h>
#include <stdarg.h>
#ifdef DRV_BLACKBOX
#include "cpusupport.h"
#include "crypto_entropy.h"
#include "entropy.h"
#else
#include "crypto_entropy.c"
#endif

#ifdef CPUSUPPORT_X86_RDRAND
#error "drv_drbg must be built with the `none` CPU configuration (no RDRAND mixing)"
#endif

#define FAKE_FD 1000
struct rd { int kind; uint8_t * data; size_t len; };	/* kind: 0 bytes, 1 -1/EIO, 2 -1/EINTR */
struct sess {
	int open_ok;
	struct rd * reads; int nreads, rpos;
	char * closes; int ncloses, cpos;
	int rcalls;			/* read() calls made in this session */
	size_t first_n;			/* size asked by its first read() */
	uint8_t * buf0; size_t filled;	/* buffer of the first read, bytes delivered so far */
};
static struct sess * ss; static int nss, ss_pos, cur;
static const char * bad;		/* first malformed system call, if any */
static int * order; static int norder;	/* sessions in the order they were opened (-1: beyond the script) */

/* the application's own cookies (token app:...) */
#define APP_FD 2000
#define MAXAPP 8
static struct { long from, to; struct entropy_read_cookie * er; int held, isopen; size_t served; } app[MAXAPP];
static int napp;
static int app_phase;	/* i + 1 while the driver calls the library for application cookie i; 0: the case's own calls */
#define APP_BYTE(i, k) ((uint8_t)(0x3c + 29 * (i) + 7 * (k)))
#define SETBAD(msg) do { if (bad == NULL) bad = (msg); } while (0)

static int
os_open(const char * path, int flags)
{

	if (strcmp(path, "/dev/urandom") != 0 && bad == NULL) bad = "open:path";
	if ((flags & O_ACCMODE) != O_RDONLY && bad == NULL) bad = "open:flags";
	if (app_phase) {
		if (app[app_phase - 1].isopen) SETBAD("open:second-descriptor-for-one-cookie");
		app[app_phase - 1].isopen = 1;
		return (APP_FD + app_phase - 1);
	}
	if (cur >= 0 && bad == NULL) bad = "open:previous-descriptor-still-open";
	order = realloc(order, (size_t)(norder + 1) * sizeof(int));
	if (ss_pos >= nss) {		/* script exhausted */
		order[norder++] = -1;
		errno = ENOENT;
		return (-1);
	}
	order[norder++] = ss_pos;
	if (!ss[ss_pos].open_ok) {
		ss_pos++;
		errno = EACCES;
		return (-1);
	}
	cur = ss_pos++;
	return (FAKE_FD + cur);
}

int __wrap_open(const char *, int, ...);
int __wrap_open64(const char *, int, ...);
ssize_t __wrap_read(int, void *, size_t);
int __wrap_close(int);
int __wrap_open(const char * path, int flags, ...) { return (os_open(path, flags)); }
int __wrap_open64(const char * path, int flags, ...) { return (os_open(path, flags)); }

ssize_t
__wrap_read(int fd, void * buf, size_t n)
{
	struct sess * s;
	struct rd * a;
	size_t k;

	if (app_phase || (fd >= APP_FD && fd < APP_FD + MAXAPP)) {
		int i = fd - APP_FD;
		/* an application cookie reads its own open descriptor; nobody else does */
		if (i != app_phase - 1) {
			SETBAD("read:descriptor-of-another-cookie");
			errno = EBADF;
			return (-1);
		}
		if (!app[i].isopen) {
			SETBAD("read:closed-descriptor");
			errno = EBADF;
			return (-1);
		}
		for (k = 0; k < n && k < 11; k++)	/* short reads */
			((uint8_t *)buf)[k] = APP_BYTE(i, app[i].served++);
		return ((ssize_t)k);
	}
	if (cur < 0 || fd != FAKE_FD + cur) {
		if (bad == NULL) bad = "read:descriptor";
		errno = EBADF;
		return (-1);
	}
	s = &ss[cur];
	if (s->rcalls++ == 0) {
		s->first_n = n; s->buf0 = buf; s->filled = 0;
	} else if (((uint8_t *)buf != s->buf0 + s->filled || n != s->first_n - s->filled) && bad == NULL)
		bad = "read:not-the-unfilled-rest";
	if (n == 0 && bad == NULL) bad = "read:zero-length";
	if (s->rpos >= s->nreads) {	/* script exhausted */
		errno = EIO;
		return (-1);
	}
	a = &s->reads[s->rpos++];
	if (a->kind != 0) {
		errno = (a->kind == 2) ? EINTR : EIO;
		return (-1);
	}
	k = a->len < n ? a->len : n;
	memcpy(buf, a->data, k);
	s->filled += k;
	return ((ssize_t)k);
}

int
__wrap_close(int fd)
{
	struct sess * s;
	char c;

	if (app_phase || (fd >= APP_FD && fd < APP_FD + MAXAPP)) {
		int i = fd - APP_FD;
		if (i != app_phase - 1) {
			SETBAD("close:descriptor-of-another-cookie");
			errno = EBADF;
			return (-1);
		}
		if (!app[i].isopen) {
			SETBAD("close:closed-descriptor");
			errno = EBADF;
			return (-1);
		}
		app[i].isopen = 0;
		return (0);
	}
	if (cur < 0 || fd != FAKE_FD + cur) {
		if (bad == NULL) bad = "close:descriptor";
		errno = EBADF;
		return (-1);
	}
	s = &ss[cur];
	if (s->cpos >= s->ncloses) {	/* script exhausted */
		cur = -1;
		errno = EIO;
		return (-1);
	}
	c = s->closes[s->cpos++];
	if (c == 'k') { cur = -1; return (0); }
	if (c == 'i') { errno = EINTR; return (-1); }
	cur = -1;			/* the descriptor is gone either way */
	errno = EIO;
	return (-1);
}

static void
parse_session(char * t, struct sess * s)
{
	char * r = strchr(t, ':'); char * c = r ? strchr(r + 1, ':') : NULL; char * p;

	memset(s, 0, sizeof(*s));
	if (r == NULL || c == NULL) return;
	*r++ = 0; *c++ = 0;
	s->open_ok = (strcmp(t, "o") == 0);
	if (strcmp(r, "-") != 0) {
		int cnt = 1;
		for (p = r; *p; p++) if (*p == '/') cnt++;
		s->reads = malloc((size_t)cnt * sizeof(struct rd));
		p = r;
		while (p != NULL) {
			char * q = strchr(p, '/'); struct rd * a = &s->reads[s->nreads++];
			if (q) *q++ = 0;
			a->data = NULL; a->len = 0;
			if (strcmp(p, "e") == 0) a->kind = 1;
			else if (strcmp(p, "i") == 0) a->kind = 2;
			else if (strcmp(p, "z") == 0) { a->kind = 0; a->data = malloc(1); }
			else { a->kind = 0; a->data = drv_unhex(p, &a->len, 0); }
			p = q;
		}
	}
	if (strcmp(c, "-") != 0) { s->closes = c; s->ncloses = (int)strlen(c); }
}

static void
load_sessions(char * str)
{
	char * p = str; int cnt = 1;

	nss = ss_pos = 0; cur = -1; bad = NULL; norder = 0;
	for (p = str; *p; p++) if (*p == ',') cnt++;
	ss = malloc((size_t)cnt * sizeof(struct sess));
	if (strcmp(str, "-") == 0) return;
	p = str;
	while (p != NULL) {
		char * q = strchr(p, ',');
		if (q) *q++ = 0;
		parse_session(p, &ss[nss++]);
		p = q;
	}
}

static void
free_sessions(void)
{
	int i, j;

	for (i = 0; i < nss; i++) {
		for (j = 0; j < ss[i].nreads; j++) free(ss[i].reads[j].data);
		free(ss[i].reads);
	}
	free(ss); ss = NULL;
	free(order); order = NULL;
}

static void
app_parse(char * t)
{
	char * p;

	napp = 0; app_phase = 0;
	if (t == NULL || strncmp(t, "app:", 4) != 0) return;
	for (p = t + 4; p != NULL && *p && napp < MAXAPP; ) {
		char * q = strchr(p, ','); char * d;
		if (q) *q++ = 0;
		memset(&app[napp], 0, sizeof(app[napp]));
		app[napp].from = strtol(p, &d, 10);
		app[napp].to = (*d == '-') ? strtol(d + 1, NULL, 10) : app[napp].from;
		napp++;
		p = q;
	}
}

static void
app_release(int i)
{
	uint8_t b[24]; size_t k, at = app[i].served;

	if (!app[i].held) return;
	app[i].held = 0;
	app_phase = i + 1;
	/* the cookie is still good: it delivers what ITS descriptor delivers, then closes it */
	memset(b, 0xaa, sizeof(b));
	if (entropy_read_fill(app[i].er, b, sizeof(b))) SETBAD("application-cookie:fill-failed");
	else for (k = 0; k < sizeof(b); k++) if (b[k] != APP_BYTE(i, at + k)) SETBAD("application-cookie:wrong-bytes");
	if (entropy_read_done(app[i].er)) SETBAD("application-cookie:done-failed");
	if (app[i].isopen) SETBAD("application-cookie:descriptor-left-open");
	app_phase = 0;
}

/* before (after = 0) / after (after = 1) request number idx; idx < 0: the case is over */
static void
app_step(long idx, int after)
{
	int i;

	for (i = 0; i < napp; i++) {
		if (!after && idx == app[i].from && !app[i].held) {
			app_phase = i + 1;
			app[i].er = entropy_read_init();
			app_phase = 0;
			if (app[i].er == NULL) SETBAD("application-cookie:init-failed");
			else {
				app[i].held = 1;
				if (!app[i].isopen) SETBAD("application-cookie:no-descriptor-of-its-own");
			}
		}
		if ((after && idx == app[i].to) || idx < 0)
			app_release(i);
	}
}

static void
print_sys(void)
{
	int i;

	if (cur >= 0 && bad == NULL) bad = "descriptor-left-open";
	if (bad != NULL) { printf(" sys=bad-system-call(%s)\n", bad); return; }
	printf(" sys=");
	if (norder == 0) printf("-");
	for (i = 0; i < norder; i++) {
		if (i) putchar('+');
		if (order[i] < 0 || !ss[order[i]].open_ok) printf("x");
		else printf("o%zur%dc%d", ss[order[i]].first_n, ss[order[i]].rpos, ss[order[i]].cpos);
	}
	putchar('\n');
}

static void
os_case(char * ostr, char * rstr, char * astr)
{
	char * p; int first = 1; long idx = 0;

#ifndef DRV_BLACKBOX
	memset(&drbg, 0, sizeof(drbg));
	instantiated = 0;
#endif
	load_sessions(ostr);
	app_parse(astr);
	p = rstr;
	if (strcmp(rstr, "-") != 0) {
		while (p != NULL) {
			char * q = strchr(p, ',');
			size_t n; uint8_t * buf; int rc;
			if (q) *q++ = 0;
			n = (size_t)strtoull(p, NULL, 10);
			buf = malloc(n ? n : 1);
			memset(buf, 0xaa, n);
			app_step(idx, 0);
			rc = crypto_entropy_read(buf, n);
			app_step(idx++, 1);
			if (!first) putchar(' ');
			first = 0;
			if (rc == 0) { printf("0:"); drv_puthex(buf, n); }
			else printf("%d", rc);
			free(buf);
			p = q;
		}
	}
	app_step(-1, 1);
#ifdef DRV_BLACKBOX
	printf(" | used=%d", ss_pos);
#else
	printf(" | K="); drv_puthex(drbg.Key, 32);
	printf(" V="); drv_puthex(drbg.V, 32);
	printf(" c=%lu i=%d used=%d", (unsigned long)drbg.reseed_counter, instantiated != 0, ss_pos);
#endif
	print_sys();
	free_sessions();
}

static void
sess_case(char * nstr, char * sstr, char * astr)
{
	size_t n = (size_t)strtoull(nstr, NULL, 10);
	uint8_t * buf = malloc(n ? n : 1);
	int rc;

	memset(buf, 0xaa, n);
	load_sessions(sstr);
	app_parse(astr);
	app_step(0, 0);
	rc = entropy_read(buf, n);
	app_step(0, 1);
	app_step(-1, 1);
	if (rc == 0) { printf("ok "); drv_puthex(buf, n); }
	else printf("fail");
	if (norder != 1 && bad == NULL) bad = "open:not-exactly-once";
	print_sys();
	free_sessions();
	free(buf);
}

#else
/* ======================= crypto/crypto_entropy.c ======================= */
#ifdef DRV_BLACKBOX
#include "cpusupport.h"
#include "crypto_entropy.h"
#include "entropy.h"
#else
#include "crypto_entropy.c"
#endif

#ifdef CPUSUPPORT_X86_RDRAND
#error "drv_drbg must be built with the `none` CPU configuration (no RDRAND mixing)"
#endif

#define MAXENT 64
static struct { int fail; uint8_t * data; size_t len; } ent[MAXENT];
static int nent, ent_pos;
static char entlog[1024]; static size_t entlog_len;

/* the scripted OS entropy source */
int
entropy_read(uint8_t * buf, size_t buflen)
{
	size_t i;
	int fail = (ent_pos >= nent) || ent[ent_pos].fail;

	if (entlog_len + 24 < sizeof(entlog))
		entlog_len += (size_t)snprintf(entlog + entlog_len, sizeof(entlog) - entlog_len, "%s%zu%s",
		    entlog_len ? "+" : "", buflen, fail ? "f" : "");
	if (ent_pos < nent) {
		if (!fail)
			for (i = 0; i < buflen; i++)
				buf[i] = (i < ent[ent_pos].len) ? ent[ent_pos].data[i] : 0;
		ent_pos++;
	}
	/* a failed read leaves unspecified bytes in the buffer (util/entropy.c may have filled part of
	 * it before the error), not what the caller had there */
	if (fail)
		drv_junk(buf, buflen);
	return (fail ? -1 : 0);
}

static void
drbg_case(char * ostr, char * rstr)
{
	char * p; int i, first = 1;

#ifndef DRV_BLACKBOX
	/* reset the statics: a fresh process */
	memset(&drbg, 0, sizeof(drbg));
	instantiated = 0;
#endif
	nent = ent_pos = 0; entlog_len = 0; entlog[0] = 0;
	p = ostr;
	if (strcmp(ostr, "-") != 0) {
		while (p != NULL && nent < MAXENT) {
			char * q = strchr(p, ',');
			if (q) *q++ = 0;
			if (strcmp(p, "f") == 0) { ent[nent].fail = 1; ent[nent].data = NULL; ent[nent].len = 0; }
			else { ent[nent].fail = 0; ent[nent].data = drv_unhex(p, &ent[nent].len, 0); }
			nent++;
			p = q;
		}
	}
	p = rstr;
	if (strcmp(rstr, "-") != 0) {
		while (p != NULL) {
			char * q = strchr(p, ',');
			size_t n; uint8_t * buf; int rc;
			if (q) *q++ = 0;
			n = (size_t)strtoull(p, NULL, 10);
			buf = malloc(n ? n : 1);	/* exact size: ASan sees any overrun */
			memset(buf, 0xaa, n);
			rc = crypto_entropy_read(buf, n);
			if (!first) putchar(' ');
			first = 0;
			if (rc == 0) { printf("0:"); drv_puthex(buf, n); }
			else printf("%d", rc);
			free(buf);
			p = q;
		}
	}
#ifdef DRV_BLACKBOX
	printf(" | used=%d ent=%s\n", ent_pos, entlog_len ? entlog : "-");
#else
	printf(" | K="); drv_puthex(drbg.Key, 32);
	printf(" V="); drv_puthex(drbg.V, 32);
	printf(" c=%lu i=%d used=%d ent=%s\n", (unsigned long)drbg.reseed_counter, instantiated != 0,
	    ent_pos, entlog_len ? entlog : "-");
#endif
	for (i = 0; i < nent; i++) free(ent[i].data);
}
#endif

#ifdef DRV_BLACKBOX
#include <sys/wait.h>
static int child_failed;
/* run one case in a forked child: a fresh copy of the library's zero-initialised statics */
#define RUN_CASE(call) do {								\
	pid_t pid_; int st_ = 0;							\
	fflush(stdout);									\
	if ((pid_ = fork()) == 0) { call; fflush(stdout); exit(0); }			\
	if (pid_ < 0 || waitpid(pid_, &st_, 0) < 0 || !WIFEXITED(st_) || WEXITSTATUS(st_) != 0) { \
		child_failed = 1;							\
		printf("<case-process-failed status=%d>\n", st_);			\
	}										\
} while (0)
#else
#define RUN_CASE(call) call
#endif

int
main(void)
{
	char * line; char * tok[4];

	setvbuf(stdout, NULL, _IOLBF, 0);
	while ((line = drv_getline()) != NULL) {
#ifdef DRV_FILL
		uint32_t h = drv_case_hash(line);
#endif
		int n = drv_split(line, tok, 4);
#ifdef DRV_FILL
		if (n == 3 && strcmp(tok[0], "fill") == 0)
			fill_case(tok[1], tok[2], (int)((h >> 9) & 3));
#elif defined(DRV_OS)
		if ((n == 3 || n == 4) && strcmp(tok[0], "os") == 0)
			RUN_CASE(os_case(tok[1], tok[2], n == 4 ? tok[3] : NULL));
		else if ((n == 3 || n == 4) && strcmp(tok[0], "sess") == 0)
			sess_case(tok[1], tok[2], n == 4 ? tok[3] : NULL);
#else
		if (n == 3 && strcmp(tok[0], "drbg") == 0)
			RUN_CASE(drbg_case(tok[1], tok[2]));
#endif
		else
			printf("bad-case\n");
	}
#ifdef DRV_BLACKBOX
	if (child_failed)
		return (1);
#endif
	return (0);
}
