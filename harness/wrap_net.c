/* Scripted kernel for drv_net.c: link-time interposers (-Wl,--wrap=...) for recv, send, accept,
 * connect, socket, close, poll, getsockopt, setsockopt, fcntl, the malloc family (with a
 * "fail the k-th library allocation" mode) and a scripted monoclock (util/monoclock.c is not
 * linked).  Every descriptor the library sees is a fake one; nothing here touches the real
 * kernel.  The wrappers also write the observation log (fk_log).
 *
 * errno hygiene: every system call is allowed to leave any value in errno when it succeeds, and the
 * scripted ones do: each successful poll() / signal() / recv() / send() / accept() / socket() /
 * fcntl() / connect() / getsockopt() / setsockopt() / close() leaves the next value of the rotation
 * 0, EAGAIN, EBADF, EINTR, EPIPE behind.  The value on record when callback_buf of network_write.c
 * is entered (and after each of its signal() calls in the -DPOSIXFAIL_MSG_NOSIGNAL configuration)
 * is therefore different from the one the scripted send() sets, so code that classifies a failed
 * send() on an errno that is not send()'s own behaves visibly differently.
 * send() also records its flags argument and whether SIGPIPE is ignored while it runs
 * (fk_send_stats: the driver prints them after "end"; areas/net.py decides what is right for the
 * build configuration: MSG_NOSIGNAL present, or absent with SIGPIPE ignored around the call). */
#include <sys/types.h>
#include <sys/socket.h>
#include <sys/time.h>
#include <netinet/in.h>
#include <errno.h>
#include <fcntl.h>
#include <poll.h>
#include <signal.h>
#include <stdarg.h>
#include <stdint.h>
#include <stdio.h>
#include <stdlib.h>
#include <string.h>

void * __real_malloc(size_t);
void * __real_calloc(size_t, size_t);
void * __real_realloc(void *, size_t);
void __real_free(void *);

/* ------------------------------------------------------------------ errno names */
static const char * const fk_errname[] = { "EAGAIN", "EWOULDBLOCK", "EINTR", "ECONNABORTED",
	"ECONNRESET", "EPIPE", "ECONNREFUSED", "ETIMEDOUT", "EMFILE", "ENOMEM", "EBADF", "EIO",
	"ENFILE", "EPROTO", "ENOBUFS", "EHOSTUNREACH", "ENETUNREACH", "EINPROGRESS", "EPERM",
	"ENOTCONN" };
static const int fk_errval[] = { EAGAIN, EWOULDBLOCK, EINTR, ECONNABORTED, ECONNRESET, EPIPE,
	ECONNREFUSED, ETIMEDOUT, EMFILE, ENOMEM, EBADF, EIO, ENFILE, EPROTO, ENOBUFS, EHOSTUNREACH,
	ENETUNREACH, EINPROGRESS, EPERM, ENOTCONN };
#define FK_NERR ((int)(sizeof(fk_errval) / sizeof(fk_errval[0])))

int fk_errcode(const char * name)	/* index into the tables, -1 if unknown */
{
	int i;
	for (i = 0; i < FK_NERR; i++)
		if (strcmp(name, fk_errname[i]) == 0) return i;
	return -1;
}

/* ------------------------------------------------------------------ errno left behind by successful calls */
static unsigned fk_rot;
static void fk_errno_rotate(void)
{
	static const int v[5] = { 0, EAGAIN, EBADF, EINTR, EPIPE };
	errno = v[fk_rot++ % 5];
}

/* ------------------------------------------------------------------ SIGPIPE disposition (signal is wrapped) */
typedef void (* fk_sighandler)(int);
fk_sighandler __real_signal(int, fk_sighandler);
fk_sighandler __real___sysv_signal(int, fk_sighandler);
static int fk_sigpipe_ign;			/* SIGPIPE is currently ignored through signal() */
static unsigned long fk_nsignal;		/* calls of signal(SIGPIPE, ..) */
static fk_sighandler fk_sigpipe_first;		/* disposition found by the first of them */
static fk_sighandler fk_sigpipe_now;		/* disposition set by the last of them */
static fk_sighandler fk_signal_seen(int sig, fk_sighandler h, fk_sighandler old)
{
	if (sig == SIGPIPE && old != SIG_ERR) {
		if (fk_nsignal++ == 0) fk_sigpipe_first = old;
		fk_sigpipe_now = h;
		fk_sigpipe_ign = (h == SIG_IGN);
	}
	if (old != SIG_ERR) fk_errno_rotate();
	return old;
}
fk_sighandler __wrap_signal(int sig, fk_sighandler h) { return fk_signal_seen(sig, h, __real_signal(sig, h)); }
/* what <signal.h> turns signal() into under _XOPEN_SOURCE without _DEFAULT_SOURCE (glibc) */
fk_sighandler __wrap___sysv_signal(int sig, fk_sighandler h) { return fk_signal_seen(sig, h, __real___sysv_signal(sig, h)); }
static unsigned long fk_nsend, fk_nsend_nosignal, fk_nsend_ign;
/* sends, sends with MSG_NOSIGNAL, sends with SIGPIPE ignored, SIGPIPE disposition as found */
void fk_send_stats(unsigned long * n, unsigned long * nosig, unsigned long * ign, int * restored)
{
	*n = fk_nsend; *nosig = fk_nsend_nosignal; *ign = fk_nsend_ign;
	*restored = (fk_nsignal == 0 || fk_sigpipe_now == fk_sigpipe_first);
}

/* ------------------------------------------------------------------ log */
static int fk_logged;
static unsigned long fk_nlogged;
#ifndef FK_MAXLOG
#define FK_MAXLOG 200000UL
#endif
unsigned long fk_activity;		/* bumped by every wrapper call and by the driver's callbacks */

/* tokens go straight to (unbuffered) stdout so that a crash keeps what was observed so far */
void fk_log(const char * fmt, ...)
{
	va_list ap; char tmp[300]; int n;
	va_start(ap, fmt);
	n = vsnprintf(tmp + 1, sizeof(tmp) - 1, fmt, ap);
	va_end(ap);
	(void)n;
	tmp[0] = ' ';
	fputs(fk_logged ? tmp : tmp + 1, stdout);
	fk_logged = 1;
	/* a case logs a few hundred observations at most; one that has logged FK_MAXLOG is going round
	 * in circles (each lap is observed, so the log would grow without bound): stop the case here,
	 * marked, instead of letting the line grow until the processor-time limit ends it */
	if (++fk_nlogged == FK_MAXLOG) { fputs(" !RUNAWAY", stdout); fflush(stdout); _exit(0); }
}

/* bytes -> hex (<= 16 bytes) or #fnv64 */
static uint8_t fk_pat(int salt, size_t p) { return (uint8_t)((p * 131 + (p >> 8) * 17 + (size_t)salt * 29 + 7) & 255); }
void fk_fill(uint8_t * dst, int salt, size_t pos, size_t n) { size_t i; for (i = 0; i < n; i++) dst[i] = fk_pat(salt, pos + i); }
void fk_show(char * out, const uint8_t * p, size_t n)	/* out: >= 40 bytes */
{
	size_t i;
	if (n == 0) { strcpy(out, "-"); return; }
	if (n <= 16) { for (i = 0; i < n; i++) sprintf(out + 2 * i, "%02x", p[i]); return; }
	{
		uint64_t h = 0xcbf29ce484222325ULL;
		for (i = 0; i < n; i++) { h ^= p[i]; h *= 0x100000001b3ULL; }
		sprintf(out, "#%016llx", (unsigned long long)h);
	}
}

/* ------------------------------------------------------------------ allocation table + failure injection */
struct fk_blk { void * p; size_t n; };
static struct fk_blk * fk_blks; static size_t fk_nblks, fk_capblks;
unsigned long fk_alloc_count;		/* library allocations since the case began */
long fk_fail_at;			/* 0 = never; k = fail the k-th */
int fk_fail_persist;			/* fail every allocation from the k-th on */
int fk_fail_hit;			/* set when an allocation was refused (cleared by the driver) */
unsigned long fk_fail_total;		/* refusals so far */
int fk_ctx = -1;			/* set by the driver: index of the top-level op running, -2 = event loop */
int fk_fail_where = -1;			/* fk_ctx at the first refusal */

static void fk_track(void * p, size_t n)
{
	if (p == NULL) return;
	if (fk_nblks == fk_capblks) {
		fk_capblks = fk_capblks ? fk_capblks * 2 : 256;
		fk_blks = __real_realloc(fk_blks, fk_capblks * sizeof(struct fk_blk));
	}
	fk_blks[fk_nblks].p = p; fk_blks[fk_nblks].n = n; fk_nblks++;
}
static void fk_untrack(void * p)
{
	size_t i;
	for (i = fk_nblks; i-- > 0; )
		if (fk_blks[i].p == p) { fk_blks[i] = fk_blks[--fk_nblks]; return; }
}
size_t fk_live_blocks(void) { return fk_nblks; }
int fk_is_live(const void * p) { size_t i; for (i = 0; i < fk_nblks; i++) if (fk_blks[i].p == p) return 1; return 0; }
static int fk_refuse(void)
{
	fk_alloc_count++;
	if (fk_fail_at > 0 && ((long)fk_alloc_count == fk_fail_at ||
	    (fk_fail_persist && (long)fk_alloc_count > fk_fail_at))) {
		if (fk_fail_total == 0) fk_fail_where = fk_ctx;
		fk_fail_hit = 1; fk_fail_total++; errno = ENOMEM; return 1;
	}
	return 0;
}
/* A request for 2^47 bytes or more exceeds the user address space of this platform: every allocator
 * answers NULL / ENOMEM (glibc at once for > PTRDIFF_MAX, after a refused mmap below that).  The
 * sanitizer's allocator would end the process instead, so the answer is given here; it is the real
 * allocator's answer, not an injected failure (fk_fail_total is not touched). */
#define FK_UNSATISFIABLE ((size_t)1 << 47)
unsigned long fk_unsat;			/* such requests so far */
void * __wrap_malloc(size_t n)
{
	void * p;
	if (fk_refuse()) return NULL;
	if (n >= FK_UNSATISFIABLE) { fk_unsat++; errno = ENOMEM; return NULL; }
	p = __real_malloc(n); fk_track(p, n); return p;
}
void * __wrap_calloc(size_t a, size_t b)
{
	void * p;
	if (fk_refuse()) return NULL;
	if (a != 0 && b != 0 && (a >= FK_UNSATISFIABLE || b >= FK_UNSATISFIABLE || a * b / a != b || a * b >= FK_UNSATISFIABLE)) { fk_unsat++; errno = ENOMEM; return NULL; }
	p = __real_calloc(a, b); fk_track(p, a * b); return p;
}
void * __wrap_realloc(void * o, size_t n)
{
	void * p;
	if (fk_refuse()) return NULL;		/* the old block stays valid */
	if (n >= FK_UNSATISFIABLE) { fk_unsat++; errno = ENOMEM; return NULL; }
	p = __real_realloc(o, n);
	if (p != NULL || n == 0) { if (o) fk_untrack(o); fk_track(p, n); }
	return p;
}
void __wrap_free(void * p) { if (p) fk_untrack(p); __real_free(p); }

/* ------------------------------------------------------------------ user buffers (registered by the driver) */
struct fk_ubuf { int id; const uint8_t * base; size_t len; int huge; };
static struct fk_ubuf fk_ubufs[256]; static int fk_nubufs;
void fk_register_buf(int id, const void * base, size_t len)
{
	if (fk_nubufs < 256) { fk_ubufs[fk_nubufs].id = id; fk_ubufs[fk_nubufs].base = base; fk_ubufs[fk_nubufs].len = len; fk_ubufs[fk_nubufs].huge = 0; fk_nubufs++; }
}
/* a buffer of gigabytes that is not backed by memory (PROT_NONE): recv / send account for the bytes
 * they move and do not touch it */
void fk_register_hugebuf(int id, const void * base, size_t len)
{
	fk_register_buf(id, base, len);
	if (fk_nubufs > 0 && fk_ubufs[fk_nubufs - 1].base == base) fk_ubufs[fk_nubufs - 1].huge = 1;
}
static int fk_in_hugebuf(const void * p)
{
	int i; const uint8_t * q = p;
	for (i = fk_nubufs; i-- > 0; )
		if (fk_ubufs[i].huge && q >= fk_ubufs[i].base && q <= fk_ubufs[i].base + fk_ubufs[i].len) return 1;
	return 0;
}
/* describe where p points: "u<id>:<blk>:<off>" or "nb:<blk>:<off>" */
static void fk_where(char * out, const void * p)
{
	int i; size_t k; const uint8_t * q = p;
	for (i = fk_nubufs; i-- > 0; )
		if (q >= fk_ubufs[i].base && q <= fk_ubufs[i].base + fk_ubufs[i].len) {
			sprintf(out, "u%d:%zu:%zu", fk_ubufs[i].id, fk_ubufs[i].len, (size_t)(q - fk_ubufs[i].base));
			return;
		}
	for (k = 0; k < fk_nblks; k++)
		if (q >= (const uint8_t *)fk_blks[k].p && q <= (const uint8_t *)fk_blks[k].p + fk_blks[k].n) {
			sprintf(out, "nb:%zu:%zu", fk_blks[k].n, (size_t)(q - (const uint8_t *)fk_blks[k].p));
			return;
		}
	strcpy(out, "?:0:0");
}

/* ------------------------------------------------------------------ kernel queues */
enum { K_DATA, K_ROOM, K_CONN, K_ERR };
struct fk_ev { int kind; size_t pos, len; int err; };
struct fk_q { int fd, wr; struct fk_ev * ev; size_t head, n, cap; size_t feedpos; };
#define FK_MAXQ 32
static struct fk_q fk_qs[FK_MAXQ]; static int fk_nqs;

static struct fk_q * fk_getq(int fd, int wr, int create)
{
	int i;
	for (i = 0; i < fk_nqs; i++) if (fk_qs[i].fd == fd && fk_qs[i].wr == wr) return &fk_qs[i];
	if (!create || fk_nqs == FK_MAXQ) return NULL;
	memset(&fk_qs[fk_nqs], 0, sizeof(struct fk_q));
	fk_qs[fk_nqs].fd = fd; fk_qs[fk_nqs].wr = wr;
	return &fk_qs[fk_nqs++];
}
static void fk_push(struct fk_q * q, struct fk_ev e)
{
	if (q->n == q->cap) { q->cap = q->cap ? q->cap * 2 : 16; q->ev = __real_realloc(q->ev, q->cap * sizeof(struct fk_ev)); }
	q->ev[q->n++] = e;
}
static int fk_qready(int fd, int wr) { struct fk_q * q = fk_getq(fd, wr, 0); return q != NULL && q->head < q->n; }

/* feed one event token (d<n> z n<k> c e<NAME>) to (fd, wr); returns -1 on a bad token */
int fk_feed(int fd, int wr, const char * tok)
{
	struct fk_q * q = fk_getq(fd, wr, 1); struct fk_ev e; int c;
	if (q == NULL) return -1;
	memset(&e, 0, sizeof(e));
	switch (tok[0]) {
	case 'd': e.kind = K_DATA; e.len = (size_t)strtoull(tok + 1, NULL, 10); if (e.len == 0 || e.len > 2000000) return -1;
		e.pos = q->feedpos; q->feedpos += e.len; break;
	case 'D': e.kind = K_DATA; e.len = (size_t)strtoull(tok + 1, NULL, 10); if (e.len == 0) return -1;	/* gigabytes for an R: request */
		e.pos = q->feedpos; q->feedpos += e.len; break;
	case 'z': e.kind = K_DATA; e.len = 0; break;
	case 'n': e.kind = K_ROOM; e.len = (size_t)strtoull(tok + 1, NULL, 10); break;
	case 'c': e.kind = K_CONN; break;
	case 'e': e.kind = K_ERR; c = fk_errcode(tok + 1); if (c < 0) return -1; e.err = c; break;
	default: return -1;
	}
	fk_push(q, e);
	return 0;
}

/* wires: bytes taken by send, per descriptor, in order of first send */
struct fk_wire { int fd; uint8_t * p; size_t n, cap; size_t ghost; /* bytes taken from unbacked buffers: counted only */ };
static struct fk_wire fk_wires[FK_MAXQ]; static int fk_nwires;
static struct fk_wire * fk_getwire(int fd)
{
	int i;
	for (i = 0; i < fk_nwires; i++) if (fk_wires[i].fd == fd) return &fk_wires[i];
	if (fk_nwires == FK_MAXQ) return NULL;
	memset(&fk_wires[fk_nwires], 0, sizeof(struct fk_wire)); fk_wires[fk_nwires].fd = fd;
	return &fk_wires[fk_nwires++];
}
void fk_trailer(void)	/* wire<fd>=.. in order of first send, left<fd>=.. in order of first feed */
{
	int i; size_t k; char sh[64];
	for (i = 0; i < fk_nwires; i++) {
		if (fk_wires[i].ghost) { fk_log("wire%d=%zu:untouched", fk_wires[i].fd, fk_wires[i].n + fk_wires[i].ghost); continue; }
		fk_show(sh, fk_wires[i].p, fk_wires[i].n); fk_log("wire%d=%zu:%s", fk_wires[i].fd, fk_wires[i].n, sh);
	}
	for (i = 0; i < fk_nqs; i++) if (!fk_qs[i].wr) {
		size_t left = 0;
		for (k = fk_qs[i].head; k < fk_qs[i].n; k++) if (fk_qs[i].ev[k].kind == K_DATA) left += fk_qs[i].ev[k].len;
		if (left) fk_log("left%d=%zu", fk_qs[i].fd, left);
	}
}

/* ------------------------------------------------------------------ fake sockets (connect / accept) */
#define FK_SOCKBASE 20
#define FK_NSOCK 40
enum { L_NONE, L_ERR, L_NEVER, L_OK };
struct fk_sock { int open, ord, addr, later, later_err, writable; };
static struct fk_sock fk_socks[FK_NSOCK];
static int fk_nsock;			/* descriptors created so far (ordinals) */
static const char * fk_outcomes = "";	/* connect script: one letter per address */
int fk_cur = -1;			/* descriptor of the connection attempt in progress */
int fk_accept_id[64];			/* listening fd -> id of the pending accept request */

void fk_set_outcomes(const char * s) { fk_outcomes = s; }
static int fk_newsock(int addr)
{
	int i;
	for (i = 0; i < FK_NSOCK; i++) if (!fk_socks[i].open) {
		memset(&fk_socks[i], 0, sizeof(struct fk_sock));
		fk_socks[i].open = 1; fk_socks[i].ord = fk_nsock++; fk_socks[i].addr = addr;
		return FK_SOCKBASE + i;
	}
	return -1;
}
static struct fk_sock * fk_sock(int fd)
{
	if (fd < FK_SOCKBASE || fd >= FK_SOCKBASE + FK_NSOCK) return NULL;
	return &fk_socks[fd - FK_SOCKBASE];
}
int fk_open_sockets(void) { int i, n = 0; for (i = 0; i < FK_NSOCK; i++) n += fk_socks[i].open; return n; }
int fk_sock_ord(int fd) { struct fk_sock * s = fk_sock(fd); return s ? s->ord : -1; }
/* make the attempt in progress deliver its result; returns 1 if that needs the timer instead */
int fk_cur_later(void) { struct fk_sock * s = fk_sock(fk_cur); return (s && s->open) ? s->later : L_NONE; }
void fk_cur_writable(void) { struct fk_sock * s = fk_sock(fk_cur); if (s && s->open) s->writable = 1; }
void fk_close_all(void) { int i; for (i = 0; i < FK_NSOCK; i++) fk_socks[i].open = 0; }

static char fk_outcome_of(int addr) { return (addr >= 0 && (size_t)addr < strlen(fk_outcomes)) ? fk_outcomes[addr] : 'S'; }

int __wrap_socket(int domain, int type, int protocol)
{
	int addr = type - 1000, fd;
	(void)domain; (void)protocol;
	fk_activity++;
	if (fk_outcome_of(addr) == 'S') { fk_log("sockfail:a%d", addr); errno = EMFILE; return -1; }
	fd = fk_newsock(addr);
	if (fd < 0) { fk_log("sockfail:a%d", addr); errno = EMFILE; return -1; }
	fk_log("sock%d:a%d", fk_sock(fd)->ord, addr);
	fk_errno_rotate();
	return fd;
}

static int fk_fcntl(int fd, int cmd)
{
	struct fk_sock * s = fk_sock(fd);
	fk_activity++;
	if (s == NULL || !s->open) { errno = EBADF; return -1; }
	if (cmd == F_SETFL && fk_outcome_of(s->addr) == 'N') { fk_log("fcntlfail%d", s->ord); errno = EPERM; return -1; }
	fk_errno_rotate();
	return 0;
}
int __wrap_fcntl(int fd, int cmd, ...) { return fk_fcntl(fd, cmd); }
int __wrap_fcntl64(int fd, int cmd, ...) { return fk_fcntl(fd, cmd); }

int __wrap_connect(int fd, const struct sockaddr * sa, socklen_t len)
{
	struct fk_sock * s = fk_sock(fd); int e = 0, rc = -1; char o;
	(void)sa; (void)len;
	fk_activity++;
	if (s == NULL || !s->open) { fk_log("conn?"); errno = EBADF; return -1; }
	o = fk_outcome_of(s->addr);
	switch (o) {
	case 'F': e = ECONNREFUSED; break;
	case 'H': e = EHOSTUNREACH; break;
	case 'A': e = EINPROGRESS; s->later = L_ERR; s->later_err = ECONNREFUSED; break;
	case 'B': e = EINTR; s->later = L_ERR; s->later_err = ETIMEDOUT; break;
	case 'T': e = EINPROGRESS; s->later = L_NEVER; break;
	case 'K': e = EINPROGRESS; s->later = L_OK; break;
	case 'I': rc = 0; s->later = L_OK; break;
	case 'J': e = EINTR; s->later = L_OK; break;
	default: e = ENETUNREACH; break;
	}
	if (s->later != L_NONE) fk_cur = fd;
	if (rc == 0) { fk_log("conn%d:a%d=0", s->ord, s->addr); fk_errno_rotate(); return 0; }
	{
		int i; const char * nm = "E?";
		for (i = 0; i < FK_NERR; i++) if (fk_errval[i] == e) { nm = fk_errname[i]; break; }
		fk_log("conn%d:a%d=%s", s->ord, s->addr, nm);
	}
	errno = e;
	return -1;
}

int __wrap_getsockopt(int fd, int level, int optname, void * optval, socklen_t * optlen)
{
	struct fk_sock * s = fk_sock(fd); int e, i; const char * nm = "0";
	(void)level; (void)optname;
	fk_activity++;
	if (s == NULL || !s->open) { fk_log("gso?"); errno = EBADF; return -1; }
	e = (s->later == L_ERR) ? s->later_err : 0;
	if (e) for (i = 0; i < FK_NERR; i++) if (fk_errval[i] == e) { nm = fk_errname[i]; break; }
	fk_log("gso%d=%s", s->ord, nm);
	if (optval && optlen && *optlen >= sizeof(int)) { memcpy(optval, &e, sizeof(int)); *optlen = sizeof(int); }
	fk_errno_rotate();
	return 0;
}

int __wrap_setsockopt(int fd, int level, int optname, const void * optval, socklen_t optlen)
{
	(void)fd; (void)level; (void)optname; (void)optval; (void)optlen;
	fk_errno_rotate();
	return 0;
}

int __wrap_close(int fd)
{
	struct fk_sock * s = fk_sock(fd);
	fk_activity++;
	if (s == NULL) { fk_log("close?%d", fd); errno = EBADF; return -1; }
	if (!s->open) { fk_log("close%d:EBADF", s->ord); errno = EBADF; return -1; }
	s->open = 0;
	if (fk_cur == fd) fk_cur = -1;
	fk_log("close%d", s->ord);
	fk_errno_rotate();
	return 0;
}

int __wrap_accept(int fd, struct sockaddr * sa, socklen_t * len)
{
	struct fk_q * q = fk_getq(fd, 0, 0); struct fk_ev e; int id = (fd >= 0 && fd < 64) ? fk_accept_id[fd] : -1;
	(void)sa; (void)len;
	fk_activity++;
	if (q == NULL || q->head >= q->n) { fk_log("A%d:%d=EAGAIN", fd, id); errno = EAGAIN; return -1; }
	e = q->ev[q->head++];
	if (e.kind == K_CONN) {
		int nfd = fk_newsock(-1);
		fk_log("A%d:%d=s%d", fd, id, fk_sock(nfd)->ord);
		fk_errno_rotate();
		return nfd;
	}
	if (e.kind == K_ERR) { fk_log("A%d:%d=%s", fd, id, fk_errname[e.err]); errno = fk_errval[e.err]; return -1; }
	fk_log("A%d:%d=EAGAIN", fd, id); errno = EAGAIN; return -1;
}

ssize_t __wrap_recv(int fd, void * buf, size_t len, int flags)
{
	struct fk_q * q = fk_getq(fd, 0, 0); struct fk_ev * e; char wh[64]; size_t n;
	(void)flags;
	fk_activity++;
	fk_where(wh, buf);
	if (q == NULL || q->head >= q->n) { fk_log("R%d:%s:%zu=EAGAIN", fd, wh, len); errno = EAGAIN; return -1; }
	e = &q->ev[q->head];
	if (e->kind == K_DATA) {
		n = e->len < len ? e->len : len;
		if (!fk_in_hugebuf(buf)) fk_fill(buf, fd, e->pos, n);
		if (n == e->len) q->head++; else { e->pos += n; e->len -= n; }
		fk_log("R%d:%s:%zu=%zu", fd, wh, len, n);
		fk_errno_rotate();
		return (ssize_t)n;
	}
	q->head++;
	if (e->kind == K_ERR) { fk_log("R%d:%s:%zu=%s", fd, wh, len, fk_errname[e->err]); errno = fk_errval[e->err]; return -1; }
	fk_log("R%d:%s:%zu=EAGAIN", fd, wh, len); errno = EAGAIN; return -1;
}

ssize_t __wrap_send(int fd, const void * buf, size_t len, int flags)
{
	struct fk_q * q = fk_getq(fd, 1, 0); struct fk_ev * e; char wh[64]; size_t n; struct fk_wire * w = fk_getwire(fd);
	fk_activity++;
	fk_nsend++;
	if (flags & MSG_NOSIGNAL) fk_nsend_nosignal++;
	if (fk_sigpipe_ign) fk_nsend_ign++;
	fk_where(wh, buf);
	if (q == NULL || q->head >= q->n) { fk_log("S%d:%s:%zu=EAGAIN", fd, wh, len); errno = EAGAIN; return -1; }
	e = &q->ev[q->head++];
	if (e->kind == K_ROOM) {
		n = e->len < len ? e->len : len;
		if (w && fk_in_hugebuf(buf)) w->ghost += n;
		else if (w) {
			if (w->cap - w->n < n) { w->cap = (w->n + n) * 2; w->p = __real_realloc(w->p, w->cap); }
			memcpy(w->p + w->n, buf, n); w->n += n;
		}
		fk_log("S%d:%s:%zu=%zu", fd, wh, len, n);
		fk_errno_rotate();
		return (ssize_t)n;
	}
	if (e->kind == K_ERR) { fk_log("S%d:%s:%zu=%s", fd, wh, len, fk_errname[e->err]); errno = fk_errval[e->err]; return -1; }
	fk_log("S%d:%s:%zu=EAGAIN", fd, wh, len); errno = EAGAIN; return -1;
}

/* poll: reports exactly one ready (descriptor, direction): the lowest descriptor, reading
 * before writing.  A descriptor >= FK_SOCKBASE that is not open answers POLLNVAL. */
unsigned long fk_last_nfds;
int __wrap_poll(struct pollfd * fds, nfds_t nfds, int timeout)
{
	nfds_t i; long best = -1; int bestwr = 0;
	(void)timeout;
	fk_last_nfds = (unsigned long)nfds;
	for (i = 0; i < nfds; i++) {
		struct fk_sock * s = fk_sock(fds[i].fd);
		fds[i].revents = 0;
		if (s != NULL && !s->open) { fds[i].revents = POLLNVAL; return 1; }
	}
	for (i = 0; i < nfds; i++) {
		struct fk_sock * s = fk_sock(fds[i].fd);
		int rd = (fds[i].events & POLLIN) && fk_qready(fds[i].fd, 0);
		int wr = (fds[i].events & POLLOUT) && (fk_qready(fds[i].fd, 1) || (s != NULL && s->writable));
		if (rd && (best < 0 || fds[i].fd < fds[best].fd || (fds[i].fd == fds[best].fd && bestwr))) { best = (long)i; bestwr = 0; }
		else if (wr && (best < 0 || fds[i].fd < fds[best].fd)) { best = (long)i; bestwr = 1; }
	}
	fk_errno_rotate();
	if (best < 0) return 0;
	fds[best].revents = bestwr ? POLLOUT : POLLIN;
	return 1;
}

/* ------------------------------------------------------------------ scripted monotonic clock */
static struct timeval fk_now = { 1000, 0 };
void fk_advance_ms(long ms)
{
	fk_now.tv_sec += ms / 1000; fk_now.tv_usec += (ms % 1000) * 1000;
	if (fk_now.tv_usec >= 1000000) { fk_now.tv_sec++; fk_now.tv_usec -= 1000000; }
}
int monoclock_get(struct timeval * tv) { *tv = fk_now; return 0; }
int monoclock_get_cputime(struct timeval * tv) { *tv = fk_now; return 0; }
int monoclock_getres(double * r) { *r = 0.000001; return 0; }
