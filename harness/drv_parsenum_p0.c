#define SITES_PART 0
#include "drv_parsenum_part.c"
