/* Driver for util/hexify.c (and later b64encode.c): same case lines as model/codec_main.ml.
 * Inputs are placed in allocations of exactly their size so ASan sees any overrun. */
#include "drv_common.h"
#include "hexify.h"

int main(void)
{
	char * line; char * tok[8];
	setvbuf(stdout, NULL, _IOLBF, 0);
	while ((line = drv_getline()) != NULL) {
		int n = drv_split(line, tok, 8);
		if (n == 2 && strcmp(tok[0], "hexify") == 0) {
			size_t len; uint8_t * in = drv_unhex(tok[1], &len, 0);
			char * out = drv_outbuf(2 * len + 1);	/* exact size, starts as junk */
			/* same buffers, flipped contents first (result discarded): a caller re-using its buffers */
			drv_flip(in, len); hexify(in, out, len); drv_flip(in, len); drv_junk(out, 2 * len + 1);
			hexify(in, out, len);
			drv_scribble_free(in, len);		/* the input is the caller's again */
			printf("ok "); drv_puthex((uint8_t *)out, 2 * len + 1); printf("\n");
			free(out);
		} else if (n == 3 && strcmp(tok[0], "unhexify") == 0) {
			size_t slen; uint8_t * s = drv_unhex(tok[1], &slen, 1); /* + NUL */
			size_t len = (size_t)strtoull(tok[2], NULL, 10);
			uint8_t * out = drv_outbuf(len);
			int rc;
			drv_flip(s, slen); (void)unhexify((char *)s, out, len); drv_flip(s, slen); drv_junk(out, len);
			rc = unhexify((char *)s, out, len);
			drv_scribble_free(s, slen + 1);
			if (rc == 0) { printf("ok "); drv_puthex(out, len); printf("\n"); }
			else printf("ok none\n");
			free(out);
		} else if (n == 3 && strcmp(tok[0], "unhexraw") == 0) {
			/* the input in a block of exactly its size, WITHOUT a terminator: unhexify's
			 * contract is "2*len characters from in", so it may not look beyond them */
			size_t slen; uint8_t * s = drv_unhex(tok[1], &slen, 0);
			size_t len = (size_t)strtoull(tok[2], NULL, 10);
			uint8_t * out = drv_outbuf(len);
			int rc = unhexify((char *)s, out, len);
			drv_scribble_free(s, slen);
			if (rc == 0) { printf("ok "); drv_puthex(out, len); printf("\n"); }
			else printf("ok none\n");
			free(out);
		} else
			printf("bad-case\n");
	}
	return 0;
}
