/* Helpers shared by the C drivers: hex <-> bytes, exact-size allocations, line reading. */
#ifndef DRV_COMMON_H
#define DRV_COMMON_H
#include <stdint.h>
#include <stdio.h>
#include <stdlib.h>
#include <string.h>

static int drv_hexval(int c)
{
	if (c >= '0' && c <= '9') return c - '0';
	if (c >= 'a' && c <= 'f') return c - 'a' + 10;
	if (c >= 'A' && c <= 'F') return c - 'A' + 10;
	return -1;
}

/* Decode a hex token ("-" = empty) into a fresh malloc of exactly len+extra bytes (extra bytes zero). */
static uint8_t * drv_unhex(const char * tok, size_t * len, size_t extra)
{
	size_t n = (strcmp(tok, "-") == 0) ? 0 : strlen(tok) / 2;
	uint8_t * p = malloc(n + extra ? n + extra : 1);
	size_t i;
	if (n + extra == 0) { free(p); p = malloc(1); /* distinct non-NULL 1-byte object; callers use len 0 */ }
	for (i = 0; i < n; i++)
		p[i] = (uint8_t)(drv_hexval(tok[2*i]) * 16 + drv_hexval(tok[2*i+1]));
	for (i = n; i < n + extra; i++)
		p[i] = 0;
	*len = n;
	return p;
}

static void drv_puthex(const uint8_t * p, size_t n)
{
	size_t i;
	if (n == 0) { fputs("-", stdout); return; }
	for (i = 0; i < n; i++) printf("%02x", p[i]);
}

/* Read a whole line (any length); returns NULL at EOF. Strips the newline. */
/* Per-case watchdog of the drivers that run their cases in the reading process: every drv_getline()
 * re-arms a timer on the process's own processor time (ITIMER_VIRTUAL: a busy machine does not trip
 * it).  A case needs milliseconds; one that has used DRV_LINE_CPU_S seconds is looping.  The handler
 * marks the output line of that case and ends the process, so the comparison with the model shows
 * this very case as the first line that differs.  Drivers that fork a child per case define
 * DRV_NO_LINE_WATCHDOG (the parent's time is spent forking, the children have drv_case_limits). */
#ifndef DRV_NO_LINE_WATCHDOG
#include <signal.h>
#include <sys/time.h>
#include <unistd.h>
#ifndef DRV_LINE_CPU_S
#define DRV_LINE_CPU_S 15
#endif
static void drv_line_hang(int sig)
{
	static const char msg[] = " !HANG(processor-time limit for one case)\n";
	(void)sig;
	if (write(1, msg, sizeof(msg) - 1) < 0) _exit(4);
	_exit(3);
}
static void drv_line_watchdog(void)
{
	struct itimerval it;
	static int armed = 0;
	if (!armed) { signal(SIGVTALRM, drv_line_hang); armed = 1; }
	it.it_interval.tv_sec = 0; it.it_interval.tv_usec = 0;
	it.it_value.tv_sec = DRV_LINE_CPU_S; it.it_value.tv_usec = 0;
	(void)setitimer(ITIMER_VIRTUAL, &it, NULL);
}
#else
static void drv_line_watchdog(void) { }
#endif

static char * drv_getline(void)
{
	static char * buf = NULL; static size_t cap = 0;
	ssize_t n;
	fflush(stdout);
	drv_line_watchdog();
	n = getline(&buf, &cap, stdin);
	if (n < 0) return NULL;
	while (n > 0 && (buf[n-1] == '\n' || buf[n-1] == '\r')) buf[--n] = 0;
	return buf;
}

/* Split in place on blanks; returns count. */
static int drv_split(char * line, char ** tok, int max)
{
	int n = 0; char * p = line;
	while (*p && n < max) {
		while (*p == ' ') p++;
		if (!*p) break;
		tok[n++] = p;
		while (*p && *p != ' ') p++;
		if (*p) *p++ = 0;
	}
	return n;
}

/* ---- the driver as an UNCOOPERATIVE caller ------------------------------------------------
 * Memory handed to a library call belongs to the caller again as soon as the documented
 * contract says so (for most calls: when the call returns).  The drivers then overwrite it
 * (and free it, so that ASan poisons it): a library that kept a pointer where its contract
 * says "copied" reads junk or faults.  Output buffers are pre-filled with a non-constant,
 * non-zero pattern, so that an unwritten byte is neither 0x00 nor one repeated value.
 * Perturbations that are applied to only some cases are chosen by drv_case_hash of the case
 * TEXT (computed before the line is split), never by line number, so a replayed case behaves
 * the same. */
#define DRV_SCRIBBLE 0xd7
static inline void drv_scribble(void * p, size_t n)
{
	if (p != NULL && n > 0) memset(p, DRV_SCRIBBLE, n);
}
/* overwrite a NUL-terminated string INCLUDING its terminator (a later strlen runs off the block) */
static inline void drv_scribble_str(char * s)
{
	if (s != NULL) drv_scribble(s, strlen(s) + 1);
}
static inline void drv_scribble_free(void * p, size_t n)
{
	drv_scribble(p, n);
	free(p);
}
static inline void drv_junk(void * p, size_t n)
{
	uint8_t * b = p; size_t i;
	for (i = 0; i < n; i++) b[i] = (uint8_t)(0xa5 ^ (i * 37u) ^ (i >> 8));
}
/* exact-size output block, pre-filled with the junk pattern */
static inline void * drv_outbuf(size_t n)
{
	void * p = malloc(n ? n : 1);
	if (p != NULL) drv_junk(p, n);
	return p;
}
/* A caller that re-uses its buffers: the same address and length with OTHER contents is handed to
 * a stateless one-shot function first (result discarded), then the real contents are put back and
 * the real call is made.  Anything the library remembered about "this buffer" is stale by then.
 * drv_flip is its own inverse. */
static inline void drv_flip(void * p, size_t n)
{
	uint8_t * b = p; size_t i;
	for (i = 0; i < n; i++) b[i] ^= 0xff;
}
/* an input the library takes as `const`: after the call it must still hold what was passed in */
static inline uint8_t * drv_input_copy(const void * in, size_t len)
{
	uint8_t * c = malloc(len ? len : 1);
	if (c != NULL && len > 0) memcpy(c, in, len);
	return c;
}
static inline void drv_input_check(uint8_t * copy, const void * in, size_t len, const char * msg)
{
	if (copy != NULL && len > 0 && memcmp(copy, in, len) != 0) fputs(msg, stdout);
	free(copy);
}
/* FNV-1a of the case text */
static inline uint32_t drv_case_hash(const char * s)
{
	uint32_t h = 2166136261u;
	for (; *s; s++) { h ^= (unsigned char)*s; h *= 16777619u; }
	return h;
}

/* Called by a driver in the child process it forks for ONE case: a case needs milliseconds of
 * processor time, so a child that has burnt DRV_CASE_CPU_S seconds of it is looping (a completion
 * that never comes, an event loop spinning on a stale readiness bit).  The kernel then ends it
 * with SIGXCPU, the parent reports the signal on that case's line, and the comparison with the
 * model turns that line into the failing input.  Processor time, not wall time: a busy machine
 * does not trip it. */
#include <sys/resource.h>
#ifndef DRV_CASE_CPU_S
#define DRV_CASE_CPU_S 8
#endif
static inline void drv_case_limits(void)
{
	struct rlimit rl;
	rl.rlim_cur = DRV_CASE_CPU_S; rl.rlim_max = DRV_CASE_CPU_S + 2;
	(void)setrlimit(RLIMIT_CPU, &rl);
}

#endif
