/* Helpers shared by the C drivers: hex <-> bytes, exact-size allocations, line reading. */
#ifndef DRV_COMMON_H
#define DRV_COMMON_H
#include <stdint.h>
#include <stdio.h>
#include <stdlib.h>
#include <string.h>

static int drv_hexval(int c)
{
	if (c >= '0' && c <= '9') return c - '0';
	if (c >= 'a' && c <= 'f') return c - 'a' + 10;
	if (c >= 'A' && c <= 'F') return c - 'A' + 10;
	return -1;
}

/* Decode a hex token ("-" = empty) into a fresh malloc of exactly len+extra bytes (extra bytes zero). */
static uint8_t * drv_unhex(const char * tok, size_t * len, size_t extra)
{
	size_t n = (strcmp(tok, "-") == 0) ? 0 : strlen(tok) / 2;
	uint8_t * p = malloc(n + extra ? n + extra : 1);
	size_t i;
	if (n + extra == 0) { free(p); p = malloc(1); /* distinct non-NULL 1-byte object; callers use len 0 */ }
	for (i = 0; i < n; i++)
		p[i] = (uint8_t)(drv_hexval(tok[2*i]) * 16 + drv_hexval(tok[2*i+1]));
	for (i = n; i < n + extra; i++)
		p[i] = 0;
	*len = n;
	return p;
}

static void drv_puthex(const uint8_t * p, size_t n)
{
	size_t i;
	if (n == 0) { fputs("-", stdout); return; }
	for (i = 0; i < n; i++) printf("%02x", p[i]);
}

/* Read a whole line (any length); returns NULL at EOF. Strips the newline. */
static char * drv_getline(void)
{
	static char * buf = NULL; static size_t cap = 0;
	ssize_t n = getline(&buf, &cap, stdin);
	if (n < 0) return NULL;
	while (n > 0 && (buf[n-1] == '\n' || buf[n-1] == '\r')) buf[--n] = 0;
	return buf;
}

/* Split in place on blanks; returns count. */
static int drv_split(char * line, char ** tok, int max)
{
	int n = 0; char * p = line;
	while (*p && n < max) {
		while (*p == ' ') p++;
		if (!*p) break;
		tok[n++] = p;
		while (*p && *p != ' ') p++;
		if (*p) *p++ = 0;
	}
	return n;
}

/* Called by a driver in the child process it forks for ONE case: a case needs milliseconds of
 * processor time, so a child that has burnt DRV_CASE_CPU_S seconds of it is looping (a completion
 * that never comes, an event loop spinning on a stale readiness bit).  The kernel then ends it
 * with SIGXCPU, the parent reports the signal on that case's line, and the comparison with the
 * model turns that line into the failing input.  Processor time, not wall time: a busy machine
 * does not trip it. */
#include <sys/resource.h>
#ifndef DRV_CASE_CPU_S
#define DRV_CASE_CPU_S 8
#endif
static inline void drv_case_limits(void)
{
	struct rlimit rl;
	rl.rlim_cur = DRV_CASE_CPU_S; rl.rlim_max = DRV_CASE_CPU_S + 2;
	(void)setrlimit(RLIMIT_CPU, &rl);
}

#endif
