/* Driver for util/parsenum.h and util/humansize.c: same case lines as model/parsenum_main.ml.
 *
 *   pn <site> <form> <kind> <width> <min> <max> <base> <trailing> <strhex>
 *        -> OK <hex value> | EINVAL <hex stored> | ERANGE <hex stored>
 *   pf <site> <form> f <width> <minbits> <maxbits> <base> <trailing> <strhex> <oracle...>
 *        -> OK <tok> | EINVAL <tok> | ERANGE <tok>      tok = nan | the bits of x (8 hex digits float, 16 double)
 *   hs <hex n>        -> ok <hex of the string>
 *   hp <strhex>       -> 0 <hex size> | -1 <hex size>
 *
 * PARSENUM's bounds are compile-time expressions, so the call sites are generated C
 * (parsenum_sites.inc in four parts, tools/gen_parsenum_sites.py); tokens 2..8 of a case line must equal the
 * site's own description or the line is refused.  Every input string lives in a malloc block of
 * exactly strlen+1 bytes (ASan build). */
#include "drv_common.h"

#include "drv_parsenum.h"
#include "humansize.h"

/* the generated tables (drv_parsenum_p0.c .. p3.c); only the sizes are needed here */
#define SITES_PART (-1)
#include "parsenum_sites.inc"
extern const struct site sites_part0[], sites_part1[], sites_part2[], sites_part3[];
static const struct site * const parts[SITES_NPARTS] = { sites_part0, sites_part1, sites_part2, sites_part3 };

/* Two humansize() requests in progress at once.  humansize.h: each call returns its own malloc'ed
 * string and nothing else is kept, so two threads may each be formatting a size.  The single-
 * threaded equivalent: inside the allocation that the OUTER humansize() of an `hs` case makes
 * (the library's calls to malloc / strdup are interposed: --wrap), humansize() of ANOTHER size is
 * called and compared with what the same call returned alone, before the outer call began; then
 * the outer call goes on and its result is compared with the model as always.  Whether this
 * happens, and the other size, are functions of the case text. */
void * __real_malloc(size_t);
char * __real_strdup(const char *);
static int drv_inlib;		/* inside the outer humansize() */
static long drv_nlib, drv_nestk;	/* allocations made by it so far; the one to nest in (0 = none) */
static uint64_t drv_nestv;
static char * drv_nest_want;
static int drv_nest_bad;

static void nest_prepare(uint32_t h)
{
	uint64_t v;

	free(drv_nest_want); drv_nest_want = NULL;
	drv_nlib = 0; drv_nest_bad = 0;
	drv_nestk = ((h >> 11) & 3) ? 1 : 0;
	if (!drv_nestk) return;
	v = ((uint64_t)(h * 2654435761u) << 32) | (uint64_t)(h * 40503u + 977u);
	drv_nestv = v >> ((h >> 13) % 64);	/* all magnitudes */
	drv_nest_want = humansize(drv_nestv);	/* alone */
}

static void lib_alloc(void)
{
	char * got;

	if (!drv_inlib || ++drv_nlib != drv_nestk) return;
	drv_inlib = 0;
	got = humansize(drv_nestv);
	if ((got == NULL) != (drv_nest_want == NULL) || (got != NULL && strcmp(got, drv_nest_want) != 0))
		drv_nest_bad = 1;
	free(got);
	drv_inlib = 1;
}

void * __wrap_malloc(size_t n)
{
	lib_alloc();
	return __real_malloc(n);
}

char * __wrap_strdup(const char * s)
{
	lib_alloc();
	return __real_strdup(s);
}

int main(void)
{
	char * line; char * tok[16];
	setvbuf(stdout, NULL, _IOLBF, 0);
	while ((line = drv_getline()) != NULL) {
		/* errno as the surrounding program left it: one of 0 / EINVAL / ERANGE / EDOM, chosen by the
		 * case text.  parsenum.h: on success the macro "set[s] errno to zero", on failure to EINVAL
		 * or ERANGE, so the result may not depend on (or leave standing) the value found on entry. */
		static const int stale_errno[4] = { 0, EINVAL, ERANGE, EDOM };
		uint32_t h = drv_case_hash(line);
		int stale = stale_errno[(h >> 7) & 3];
		int n = drv_split(line, tok, 16);
		if (n >= 10 && (strcmp(tok[0], "pn") == 0 || strcmp(tok[0], "pf") == 0)) {
			char desc[256]; size_t len; uint8_t * s;
			unsigned long k = strtoul(tok[1], NULL, 10);
			snprintf(desc, sizeof(desc), "%s %s %s %s %s %s %s", tok[2], tok[3], tok[4], tok[5],
			    tok[6], tok[7], tok[8]);
			const struct site * st;
			if (k >= NSITES) { printf("site-mismatch\n"); continue; }
			st = &parts[k / SITES_PER_PART][k % SITES_PER_PART];
			if (strcmp(desc, st->desc) != 0) { printf("site-mismatch\n"); continue; }
			s = drv_unhex(tok[9], &len, 1);		/* exactly strlen + 1 bytes */
			errno = stale;
			st->run((const char *)s);
			drv_scribble_free(s, len + 1);
		} else if (n == 2 && strcmp(tok[0], "hs") == 0) {
			uint64_t v = (uint64_t)strtoumax(tok[1], NULL, 16);
			char * out;
			nest_prepare(h);
			errno = stale;
			drv_inlib = 1; out = humansize(v); drv_inlib = 0;
			if (drv_nest_bad) printf("!other-request-disturbed ");
			if (out == NULL) { printf("null\n"); continue; }
			printf("ok "); drv_puthex((uint8_t *)out, strlen(out)); printf("\n");
			free(out);
		} else if (n == 2 && strcmp(tok[0], "hp") == 0) {
			size_t len; uint8_t * s = drv_unhex(tok[1], &len, 1);
			uint64_t * size = malloc(sizeof(uint64_t));	/* the only output space */
			int rc;
			*size = UINT64_C(0xa5a5a5a5a5a5a5a5);	/* output space starts as junk */
			errno = stale;
			rc = humansize_parse((const char *)s, size);
			drv_scribble_free(s, len + 1);
			printf("%d %" PRIx64 "\n", rc, *size);
			free(size);
		} else
			printf("bad-case\n");
	}
	return 0;
}
