/* Driver for util/parsenum.h and util/humansize.c: same case lines as model/parsenum_main.ml.
 *
 *   pn <site> <form> <kind> <width> <min> <max> <base> <trailing> <strhex>
 *        -> OK <hex value> | EINVAL <hex stored> | ERANGE <hex stored>
 *   pf <site> <form> f <width> <minbits> <maxbits> <base> <trailing> <strhex> <oracle...>
 *        -> OK <tok> | EINVAL <tok> | ERANGE <tok>      tok = nan | 16 hex digits (bits of (double)x)
 *   hs <hex n>        -> ok <hex of the string>
 *   hp <strhex>       -> 0 <hex size> | -1 <hex size>
 *
 * PARSENUM's bounds are compile-time expressions, so the call sites are generated C
 * (parsenum_sites.inc, tools/gen_parsenum_sites.py); tokens 2..8 of a case line must equal the
 * site's own description or the line is refused.  Every input string lives in a malloc block of
 * exactly strlen+1 bytes (ASan build). */
#include "drv_common.h"

#include <errno.h>
#include <inttypes.h>
#include <math.h>

#include "parsenum.h"
#include "humansize.h"

static const char * errname(int e)
{
	if (e == 0) return "OK";
	if (e == EINVAL) return "EINVAL";
	if (e == ERANGE) return "ERANGE";
	return "EOTHER";
}

static void report_u(int rc, uintmax_t v)
{
	int e = errno;
	if ((rc != 0) != (e != 0)) { printf("rc-mismatch rc=%d errno=%d\n", rc, e); return; }
	printf("%s %" PRIxMAX "\n", errname(e), v);
}

static void report_s(int rc, intmax_t v)
{
	int e = errno;
	if ((rc != 0) != (e != 0)) { printf("rc-mismatch rc=%d errno=%d\n", rc, e); return; }
	if (v < 0)
		printf("%s -%" PRIxMAX "\n", errname(e), (uintmax_t)0 - (uintmax_t)v);
	else
		printf("%s %" PRIxMAX "\n", errname(e), (uintmax_t)v);
}

static void report_f(int rc, double v)
{
	int e = errno;
	uint64_t bits;
	if ((rc != 0) != (e != 0)) { printf("rc-mismatch rc=%d errno=%d\n", rc, e); return; }
	if (isnan(v)) { printf("%s nan\n", errname(e)); return; }
	memcpy(&bits, &v, 8);
	printf("%s %016" PRIx64 "\n", errname(e), bits);
}

struct site { const char * desc; void (*run)(const char *); };
#include "parsenum_sites.inc"

int main(void)
{
	char * line; char * tok[16];
	setvbuf(stdout, NULL, _IOLBF, 0);
	while ((line = drv_getline()) != NULL) {
		int n = drv_split(line, tok, 16);
		if (n >= 10 && (strcmp(tok[0], "pn") == 0 || strcmp(tok[0], "pf") == 0)) {
			char desc[256]; size_t len; uint8_t * s;
			unsigned long k = strtoul(tok[1], NULL, 10);
			snprintf(desc, sizeof(desc), "%s %s %s %s %s %s %s", tok[2], tok[3], tok[4], tok[5],
			    tok[6], tok[7], tok[8]);
			if (k >= NSITES || strcmp(desc, sites[k].desc) != 0) {
				printf("site-mismatch\n");
				continue;
			}
			s = drv_unhex(tok[9], &len, 1);		/* exactly strlen + 1 bytes */
			sites[k].run((const char *)s);
			free(s);
		} else if (n == 2 && strcmp(tok[0], "hs") == 0) {
			uint64_t v = (uint64_t)strtoumax(tok[1], NULL, 16);
			char * out = humansize(v);
			if (out == NULL) { printf("null\n"); continue; }
			printf("ok "); drv_puthex((uint8_t *)out, strlen(out)); printf("\n");
			free(out);
		} else if (n == 2 && strcmp(tok[0], "hp") == 0) {
			size_t len; uint8_t * s = drv_unhex(tok[1], &len, 1);
			uint64_t * size = malloc(sizeof(uint64_t));	/* the only output space */
			int rc;
			*size = 0;
			rc = humansize_parse((const char *)s, size);
			printf("%d %" PRIx64 "\n", rc, *size);
			free(size); free(s);
		} else
			printf("bad-case\n");
	}
	return 0;
}
