/* Driver for util/parsenum.h and util/humansize.c: same case lines as model/parsenum_main.ml.
 *
 *   pn <site> <form> <kind> <width> <min> <max> <base> <trailing> <strhex>
 *        -> OK <hex value> | EINVAL <hex stored> | ERANGE <hex stored>
 *   pf <site> <form> f <width> <minbits> <maxbits> <base> <trailing> <strhex> <oracle...>
 *        -> OK <tok> | EINVAL <tok> | ERANGE <tok>      tok = nan | the bits of x (8 hex digits float, 16 double)
 *   hs <hex n>        -> ok <hex of the string>
 *   hp <strhex>       -> 0 <hex size> | -1 <hex size>
 *
 * PARSENUM's bounds are compile-time expressions, so the call sites are generated C
 * (parsenum_sites.inc in four parts, tools/gen_parsenum_sites.py); tokens 2..8 of a case line must equal the
 * site's own description or the line is refused.  Every input string lives in a malloc block of
 * exactly strlen+1 bytes (ASan build). */
#include "drv_common.h"

#include "drv_parsenum.h"
#include "humansize.h"

/* the generated tables (drv_parsenum_p0.c .. p3.c); only the sizes are needed here */
#define SITES_PART (-1)
#include "parsenum_sites.inc"
extern const struct site sites_part0[], sites_part1[], sites_part2[], sites_part3[];
static const struct site * const parts[SITES_NPARTS] = { sites_part0, sites_part1, sites_part2, sites_part3 };

int main(void)
{
	char * line; char * tok[16];
	setvbuf(stdout, NULL, _IOLBF, 0);
	while ((line = drv_getline()) != NULL) {
		/* errno as the surrounding program left it: one of 0 / EINVAL / ERANGE / EDOM, chosen by the
		 * case text.  parsenum.h: on success the macro "set[s] errno to zero", on failure to EINVAL
		 * or ERANGE, so the result may not depend on (or leave standing) the value found on entry. */
		static const int stale_errno[4] = { 0, EINVAL, ERANGE, EDOM };
		int stale = stale_errno[(drv_case_hash(line) >> 7) & 3];
		int n = drv_split(line, tok, 16);
		if (n >= 10 && (strcmp(tok[0], "pn") == 0 || strcmp(tok[0], "pf") == 0)) {
			char desc[256]; size_t len; uint8_t * s;
			unsigned long k = strtoul(tok[1], NULL, 10);
			snprintf(desc, sizeof(desc), "%s %s %s %s %s %s %s", tok[2], tok[3], tok[4], tok[5],
			    tok[6], tok[7], tok[8]);
			const struct site * st;
			if (k >= NSITES) { printf("site-mismatch\n"); continue; }
			st = &parts[k / SITES_PER_PART][k % SITES_PER_PART];
			if (strcmp(desc, st->desc) != 0) { printf("site-mismatch\n"); continue; }
			s = drv_unhex(tok[9], &len, 1);		/* exactly strlen + 1 bytes */
			errno = stale;
			st->run((const char *)s);
			drv_scribble_free(s, len + 1);
		} else if (n == 2 && strcmp(tok[0], "hs") == 0) {
			uint64_t v = (uint64_t)strtoumax(tok[1], NULL, 16);
			char * out;
			errno = stale;
			out = humansize(v);
			if (out == NULL) { printf("null\n"); continue; }
			printf("ok "); drv_puthex((uint8_t *)out, strlen(out)); printf("\n");
			free(out);
		} else if (n == 2 && strcmp(tok[0], "hp") == 0) {
			size_t len; uint8_t * s = drv_unhex(tok[1], &len, 1);
			uint64_t * size = malloc(sizeof(uint64_t));	/* the only output space */
			int rc;
			*size = UINT64_C(0xa5a5a5a5a5a5a5a5);	/* output space starts as junk */
			errno = stale;
			rc = humansize_parse((const char *)s, size);
			drv_scribble_free(s, len + 1);
			printf("%d %" PRIx64 "\n", rc, *size);
			free(size);
		} else
			printf("bad-case\n");
	}
	return 0;
}
